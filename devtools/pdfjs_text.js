// Development aid: prints, per page, every non-empty text item of a PDF with its full-precision
// transform (pdf.js: [Tfs*Th 0 0 Tfs] x Tm x CTM), without combining adjacent items.
// usage: node pdfjs_text.js file.pdf
globalThis.DOMMatrix = class DOMMatrix {}; globalThis.Path2D = class Path2D {};
const pdfjs = require('/opt/veriftools/tlapm/lib/tlapm/backends/Isabelle/contrib/pdfjs-2.14.305/build/pdf.js');
const fs = require('fs');
(async () => {
  const data = new Uint8Array(fs.readFileSync(process.argv[2]));
  const doc = await pdfjs.getDocument({data, useSystemFonts: false, disableFontFace: true, verbosity: 0}).promise;
  const out = {pages: doc.numPages, items: []};
  for (let i = 1; i <= doc.numPages; i++) {
    const p = await doc.getPage(i);
    const tc = await p.getTextContent({disableCombineTextItems: true});
    out.items.push(tc.items.filter(it => it.str !== '' && it.str.trim() !== '').map(it => [it.str, it.transform]));
  }
  console.log(JSON.stringify(out));
})().catch(e => { console.error('ERR', e); process.exit(1); });
