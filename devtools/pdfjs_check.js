globalThis.DOMMatrix = class DOMMatrix {}; globalThis.Path2D = class Path2D {};
const pdfjs = require('/opt/veriftools/tlapm/lib/tlapm/backends/Isabelle/contrib/pdfjs-2.14.305/build/pdf.js');
const fs=require('fs');
(async()=>{
  const data=new Uint8Array(fs.readFileSync(process.argv[2]));
  const doc=await pdfjs.getDocument({data, useSystemFonts:false, disableFontFace:true, verbosity:0}).promise;
  const out={pages:doc.numPages,items:[]};
  for(let i=1;i<=doc.numPages;i++){const p=await doc.getPage(i);const tc=await p.getTextContent();out.items.push(tc.items.filter(it=>it.str!=='').map(it=>[it.str,it.transform.map(x=>Math.round(x*1000)/1000)]));}
  console.log(JSON.stringify(out));
})().catch(e=>{console.error('ERR',e);process.exit(1)});
