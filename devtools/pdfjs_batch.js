// node pdfjs_batch.js <dir>: reads NNNN.pdf + NNNN.json (from harness/cmd/pdfwsample) and reports disagreements
globalThis.DOMMatrix = class DOMMatrix {}; globalThis.Path2D = class Path2D {};
const pdfjs = require('/opt/veriftools/tlapm/lib/tlapm/backends/Isabelle/contrib/pdfjs-2.14.305/build/pdf.js');
const fs=require('fs');
(async()=>{
  const dir=process.argv[2]; let ok=0,bad=0;
  for (const f of fs.readdirSync(dir).filter(x=>x.endsWith('.pdf')).sort()) {
    const exp=JSON.parse(fs.readFileSync(dir+'/'+f.replace('.pdf','.json')));
    try {
      const data=new Uint8Array(fs.readFileSync(dir+'/'+f));
      const doc=await pdfjs.getDocument({data, useSystemFonts:false, disableFontFace:true, verbosity:0, stopAtErrors:true}).promise;
      let msg='';
      if (doc.numPages!==exp.pages.length) msg+=`pages ${doc.numPages} != ${exp.pages.length}; `;
      for(let i=1;i<=Math.min(doc.numPages,exp.pages.length);i++){
        const p=await doc.getPage(i); const tc=await p.getTextContent({disableCombineTextItems:true});
        const nk=x=>x.normalize('NFKD').replace(/[\s\u0300-\u036f]+/g,'');
        const got=nk(tc.items.map(it=>it.str).join(''));
        const want=nk(exp.pages[i-1].join(''));
        if (got!==want) msg+=`page ${i}: got ${JSON.stringify(got)} want ${JSON.stringify(want)}; `;
        const v=p.view; const b=exp.boxes[i-1];
        if (v.some((x,k)=>Math.abs(x-b[k])>1e-3)) msg+=`page ${i}: box ${v} want ${b}; `;
      }
      if (msg) {bad++; console.log(f, 'DISAGREE', msg.slice(0,300));} else ok++;
    } catch(e) {bad++; console.log(f,'ERROR',String(e).slice(0,200));}
  }
  console.log(`ok=${ok} bad=${bad}`);
})();
