// Extract encoding arrays + glyph lists from pdf.js worker by evaluating its module table.
const fs=require('fs');
const P='/opt/veriftools/tlapm/lib/tlapm/backends/Isabelle/contrib/pdfjs-2.14.305/build/pdf.worker.js';
const src=fs.readFileSync(P,'utf8');
function grabArray(name){
  const re=new RegExp('var '+name+' = \\[([\\s\\S]*?)\\];');
  const m=src.match(re); if(!m) throw new Error('no '+name);
  return eval('['+m[1]+']');
}
const out={};
for(const n of ['StandardEncoding','WinAnsiEncoding','MacRomanEncoding','SymbolSetEncoding','ZapfDingbatsEncoding','ExpertEncoding']){ out[n]=grabArray(n); }
// glyph lists: getGlyphsUnicode = factory(function(){ return [ "A", 0x41, ...]; })
function grabList(name){
  const i=src.indexOf('const '+name+' = ');
  const j=src.indexOf('return [',i);
  const k=src.indexOf('];',j);
  const arr=eval(src.slice(j+7,k+1));
  const o={}; for(let x=0;x<arr.length;x+=2) o[arr[x]]=arr[x+1]; return o;
}
out.glyphs=grabList('getGlyphsUnicode');
out.dingbats=grabList('getDingbatsGlyphsUnicode');
const m=src.match(/var PDFStringTranslateTable = \[([^\]]*)\]/); out.pdfdoc=eval('['+m[1]+']');
fs.writeFileSync(process.argv[2]||'pdfjs_enc.json',JSON.stringify(out));
console.log(Object.keys(out).map(k=>k+':'+(Array.isArray(out[k])?out[k].length:Object.keys(out[k]).length)).join(' '));
