#!/bin/bash
# seed_regress.sh [scratch-worktree] [pattern]: re-applies every stored seeded change to a scratch worktree
# (detached at /repo main) and runs the quick tier of the check(s) that are recorded as catching it.
# Prints one line per seed: CAUGHT / MISSED / NOAPPLY. Run it after changing checks or generators.
export GOFLAGS=-mod=mod GOPROXY=off GOSUMDB=off GOTOOLCHAIN=local
W=${1:-/tmp/wt-me}; PAT=${2:-.}
declare -A ALT=( [C01-m3]="C01 C05" [C07-m4]="C07 C01" [C13-m3]="C12" [C15-m1]="C16" [C15-m4]="C17" [C03-n2]="C10" [C10-m4]="C10" [C11-m1]="C11 C10" [C13-p3]="C12" [C15-p3]="C16" [C19-p3]="C18" [C15-n1]="C16" [C15-n2]="C16" [C12-q2]="C10" [C15-q1]="C17" [C17-q2]="C15" [C01-r2]="C04" [C19-r3]="C18" [C03-q2]="C14" [C01-s1]="C08" [C03-s2]="C10" [C15-s3]="C16" [C06-s3]="C04" [C13-w1]="C12" )
cd $W && git checkout -q -- . && git clean -fdq && git checkout -q --detach main
for d in $(ls -d /verif/seeded/C*/ | grep -E "$PAT"); do
  id=$(basename $d); prop=${id%%-*}
  props=${ALT[$id]:-$prop}
  patch=$d/patch.diff
  for alt in $d/patch-rebased*.diff; do [ -f "$alt" ] && patch=$alt; done
  cd $W && git checkout -q -- . && git clean -fdq
  if ! git apply --check $patch 2>/dev/null; then echo "$id NOAPPLY"; continue; fi
  git apply $patch
  if ! go build ./... 2>/dev/null; then echo "$id NOBUILD"; git checkout -q -- .; continue; fi
  res=MISSED
  for p in $props; do
    out=$(cd /verif && VERIF_REPO=$W ./vcheck $p --tier quick 2>&1)
    if echo "$out" | grep -q "^VIOLATION"; then res="CAUGHT by $p"; break; fi
    if echo "$out" | grep -q "^INFRA"; then res="INFRA $p: $(echo "$out" | grep '^INFRA' | head -1 | cut -c1-120)"; fi
  done
  echo "$id $res"
done
cd $W && git checkout -q -- . && git clean -fdq
