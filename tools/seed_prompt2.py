#!/usr/bin/env python3
"""Round-2 seeding prompt: like seed_prompt.py plus a list of ideas already used (from seeded/*/meta.json), so the new
changes explore other mechanisms. Usage: seed_prompt2.py Cnn N"""
import json, sys, glob, os, subprocess
pid=sys.argv[1]; n=sys.argv[2] if len(sys.argv)>2 else "3"
base=subprocess.run(["python3","/verif/tools/seed_prompt.py",pid,n],capture_output=True,text=True).stdout
used=[]
for p in sorted(glob.glob("/verif/seeded/%s-m*/meta.json"%pid)):
    m=json.load(open(p)); used.append("- "+(m.get("summary") or "")[:300])
extra="\n\nIMPORTANT - ideas already used by earlier participants (do NOT repeat these or close variants; pick other mechanisms, other files of the anchored code, other input features):\n"+"\n".join(used)+"\n\nName your output directories %s-n1 … %s-n%s (not -m…) and write them under /tmp/seed2-%s/out/. Your worktree is /tmp/seed2-%s (not /tmp/seed-%s). Put a file out/go.mod containing the single line `module seedout` so that `go test ./...` in the worktree ignores the demo copies under out/." % (pid,pid,n,pid,pid,pid)
print(base.replace("/tmp/seed-%s"%pid,"/tmp/seed2-%s"%pid).replace("%s-m"%pid,"%s-n"%pid)+extra)
