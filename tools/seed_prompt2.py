#!/usr/bin/env python3
"""Later-round seeding prompt: like seed_prompt.py plus a list of ideas already used (from seeded/*/meta.json), so the
new changes explore other mechanisms. Usage: seed_prompt2.py Cnn N [letter=n] [round=2]
(round 2: ids Cnn-n1.., worktree /tmp/seed2-Cnn; round 3: letter p, worktree /tmp/seed3-Cnn)"""
import json, sys, glob, os, subprocess
pid=sys.argv[1]; n=sys.argv[2] if len(sys.argv)>2 else "3"
letter=sys.argv[3] if len(sys.argv)>3 else "n"
rnd=sys.argv[4] if len(sys.argv)>4 else "2"
base=subprocess.run(["python3","/verif/tools/seed_prompt.py",pid,n],capture_output=True,text=True).stdout
used=[]
for p in sorted(glob.glob("/verif/seeded/%s-*/meta.json"%pid)):
    m=json.load(open(p)); used.append("- "+(m.get("summary") or "")[:300])
wt="/tmp/seed%s-%s"%(rnd,pid)
extra="\n\nIMPORTANT - ideas already used by earlier participants (do NOT repeat these or close variants; pick other mechanisms, other files of the anchored code, other input features):\n"+"\n".join(used)+"\n\nName your output directories %s-%s1 … %s-%s%s (not -m…) and write them under %s/out/. Your worktree is %s (not /tmp/seed-%s). Put a file out/go.mod containing the single line `module seedout` so that `go test ./...` in the worktree ignores the demo copies under out/." % (pid,letter,pid,letter,n,wt,wt,pid)
print(base.replace("/tmp/seed-%s"%pid,wt).replace("%s-m"%pid,"%s-%s"%(pid,letter))+extra)
