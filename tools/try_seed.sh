#!/bin/bash
# try_seed.sh <seed-out-dir e.g. /tmp/seed-C05/out/C05-m1> <demo target dir relative to repo e.g. core> "<props to run e.g. C05 C01>" [tier]
# Confirms a seeded change in the scratch worktree /tmp/wt-me (detached at /repo main): builds, runs the full suite,
# runs the demo with/without the change, then runs the named checks against the changed tree.
set -u
export GOFLAGS=-mod=mod GOPROXY=off GOSUMDB=off GOTOOLCHAIN=local
D=$1; TGT=$2; PROPS=$3; TIER=${4:-quick}
if [ "$TGT" = "auto" ]; then
  demo0=$(ls $D/*.go $D/*.go.txt 2>/dev/null | head -1)
  pk0=$(grep -m1 '^package ' $demo0 | awk '{print $2}' | sed 's/_test$//')
  case "$pk0" in tabula|main) TGT=. ;; *) if [ -d /repo/$pk0 ]; then TGT=$pk0; elif [ -d /repo/internal/$pk0 ]; then TGT=internal/$pk0; else TGT=zzdemo; fi ;; esac
fi
W=${VERIF_SCRATCH:-/tmp/wt-me}
name=$(basename $D)
PATCH=$D/patch.diff
for alt in $D/patch-rebased*.diff; do [ -f "$alt" ] && PATCH=$alt; done
cd $W && git checkout -q -- . && git clean -fdq && git checkout -q --detach main
if ! git apply --check $PATCH 2>/dev/null; then echo "$name: PATCH DOES NOT APPLY to main"; exit 1; fi
git apply $PATCH
if ! go build ./... 2>/tmp/try_build.log; then echo "$name: BUILD FAILS"; git checkout -q -- .; exit 1; fi
if [ -z "${TRY_SKIP_CONFIRM:-}" ]; then
suite=$(go test -vet=off -count=1 ./... 2>&1 | grep -v "^ok\|no test files" | head -5)
if [ -n "$suite" ]; then echo "$name: SUITE NOT GREEN: $suite"; else echo "$name: suite green with change"; fi
demo=$(ls $D/*.go $D/*.go.txt 2>/dev/null | head -1)
pk=$(grep -m1 '^package ' $demo | awk '{print $2}')
mkdir -p $W/$TGT; cp $demo $W/$TGT/zz_seed_demo_test.go
with=$(go test -vet=off -count=1 -tags c01demo -run Test ./$TGT/ 2>&1 | tail -1)
git checkout -q -- . ; 
without=$(go test -vet=off -count=1 -tags c01demo -run Test ./$TGT/ 2>&1 | tail -1)
rm -f $W/$TGT/zz_seed_demo_test.go
echo "$name: demo with change: $with | without: $without"
git apply $PATCH
fi
for p in $PROPS; do
  out=$(cd /verif && VERIF_REPO=$W VERIF_TIER=$TIER ./vcheck $p --tier $TIER 2>&1)
  if echo "$out" | grep -q "^VIOLATION"; then echo "$name vs $p ($TIER): CAUGHT :: $(echo "$out" | grep -A1 '^VIOLATION' | sed -n 2p | cut -c1-200)"; 
  elif echo "$out" | grep -q "^INFRA"; then echo "$name vs $p ($TIER): INFRA :: $(echo "$out" | grep '^INFRA' | head -2)";
  else echo "$name vs $p ($TIER): MISSED :: $(echo "$out" | tail -1 | cut -c1-150)"; fi
done
git checkout -q -- . ; git clean -fdq
