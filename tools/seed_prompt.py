#!/usr/bin/env python3
"""Prints the prompt for a mutation-seeding sub-agent: only the property text and a scratch worktree."""
import json, sys
pid = sys.argv[1]
n = sys.argv[2] if len(sys.argv) > 2 else "3"
for l in open('/verif/properties.jsonl'):
    p = json.loads(l)
    if p['id'] == pid:
        break
print(f"""You are helping to evaluate a test suite. You have a scratch git worktree of the Go library tsawler/tabula (a pure-Go document text extraction library: PDF parser, OOXML/ODT/EPUB/HTML readers, layout analysis, RAG chunking) at /tmp/seed-{pid} (detached HEAD). Work ONLY inside that directory. Do NOT read or use anything under /verif or /repo, and do not look at other /tmp/seed-* or /tmp/wt-* directories.

Environment for every shell call: `export GOFLAGS=-mod=mod GOPROXY=off GOSUMDB=off GOTOOLCHAIN=local` (no network). If `git status` shows go.sum modified after running go commands, run `git checkout go.sum`.

The library is supposed to satisfy this semantic property:

  Title: {p['title']}
  Statement: {p['statement']}
  Quantified over: {p['quantifier']['text']}
  Code it is anchored in: {', '.join(p['anchors']['files'])}

Task: produce {n} DIFFERENT, independent, realistic source changes ("seeded defects") to the library (non-test .go files only), each of which
  (a) still compiles (`go build ./...`),
  (b) keeps the ENTIRE existing test suite green (`go test -vet=off -count=1 ./... 2>&1 | tail -40` — run it for each change),
  (c) breaks the property above for some inputs, and
  (d) needs something specific to manifest — a particular input shape, a multi-step sequence of operations, an unusual but legal document feature, a specific combination of two options, or two cooperating code sites that each look fine alone — NOT something ordinary use of the library would expose at once. Prefer changes that look like plausible refactoring slips, off-by-one errors, wrong precedence/order, a dropped special case, a cache keyed too coarsely, an error swallowed, etc. Each of the {n} changes should touch a different mechanism/region of the anchored code.

For each change i = 1..{n} create the directory /tmp/seed-{pid}/out/{pid}-m<i>/ containing:
  - patch.diff : `git diff` of the change against the clean worktree (apply-able with `git apply`);
  - demo_test.go (or demo/main.go): a small Go test or program that FAILS with the change applied and PASSES on the clean tree, demonstrating the property violation through the library's public API (state in a comment where to put it and how to run it);
  - meta.json : {{"property": "{pid}", "summary": "<one line>", "needs": "<what specific input/sequence/feature is needed for the defect to manifest>", "files": ["<changed files>"], "ran": ["<commands you ran and their outcome>"]}}.

Procedure for each change: start from a clean tree (`git checkout -- . && git clean -fd -e out`), make the change, build, run the full test suite (must be all ok), run your demo (must fail), save `git diff` to patch.diff, revert the change (`git checkout -- .`), run your demo again on the clean tree (must pass; remove the demo file from the tree afterwards, keeping the copy under out/). Never commit. At the end leave the worktree clean except for the out/ directory.

Final message: list the {n} changes with one line each (what, where, what is needed to trigger) and confirm for each that build + full test suite passed with the change and that the demo fails with / passes without it.""")
