#!/usr/bin/env python3
"""Regenerates /verif/MANIFEST.json from the table below (run after adding a check)."""
import json, os, subprocess
ROOT = os.path.dirname(os.path.dirname(os.path.abspath(__file__)))
props = [json.loads(l) for l in open(os.path.join(ROOT, "properties.jsonl"))]
CHECKS = json.load(open(os.path.join(ROOT, "tools", "checks.json")))
hooks_commits = []
m = {
    "version": 1,
    "setup_cmd": "./vcheck --setup",
    "hooks": {
        "guard": "verif",
        "enable": "none needed: every observation point is public API; checks build /repo through a replace directive without extra tags",
        "baseline_off_cmd": "cd /repo && go test -mod=mod -vet=off -count=1 -timeout 25m ./...",
        "source_commits": hooks_commits,
        "add_only": True,
    },
    "engines": [{"name": "vcheck", "path": "vcheck", "serves_properties": sorted(CHECKS),
                 "kind_free_text": "python driver: builds harness/cNN test binary against /repo working tree, runs rapid/enumeration shards, merges evidence, maps verdicts to exit codes"}],
    "checks": [], "not_applicable": [],
    "notes": "Technique family: property-based testing and fuzzing (pgregory.net/rapid v1.3.0 + enumeration + native go fuzzing in thorough tiers). See DESIGN.md.",
}
for p in props:
    pid = p["id"]
    c = CHECKS.get(pid)
    if not c:
        m["not_applicable"].append({"property_id": pid, "reason": "check not built yet in this round (planned in DESIGN.md section 3); nothing is claimed for it"})
        continue
    m["checks"].append({
        "property_id": pid,
        "quick_cmd": "./vcheck %s --tier quick" % pid,
        "thorough_cmd": "./vcheck %s --tier thorough" % pid,
        "evidence_file": "/verif/evidence/%s.json" % pid,
        "replay_cmd_template": "./vcheck %s --replay {path}" % pid,
        "engine": "vcheck",
        "level_claimed": {"category": c.get("level", "exploration"), "text": c["text"], "design_ref": "DESIGN.md section 3, " + pid},
        "level_note": c["note"],
        "technique": c["technique"],
    })
json.dump(m, open(os.path.join(ROOT, "MANIFEST.json"), "w"), indent=1)
print("checks:", len(m["checks"]), "not_applicable:", len(m["not_applicable"]))
