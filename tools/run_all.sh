#!/bin/bash
# Runs every claimed check (default: quick tier, VERIF_SEED=1) on /repo and validates the evidence files.
cd /verif
TIER=${1:-quick}
rc=0
for p in $(jq -r '.checks[].property_id' MANIFEST.json); do
  out=$(./vcheck $p --tier $TIER 2>&1); r=$?
  echo "$out" | grep -E "^(OK|VIOLATION|INFRA|KNOWN-FINDING)" | cut -c1-260
  [ $r -ne 0 ] && rc=1
done
python3-vt tools/validate.py | grep -v " valid$"
exit $rc
