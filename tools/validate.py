#!/usr/bin/env python3
"""Validates MANIFEST.json and every evidence file against the schemas (run with python3-vt)."""
import json, glob, sys, jsonschema
ok = True
try:
    jsonschema.validate(json.load(open('/verif/MANIFEST.json')), json.load(open('/root/.vp/MANIFEST.schema.json')))
    print("MANIFEST.json valid")
except Exception as e:
    ok = False; print("MANIFEST invalid:", e)
sch = json.load(open('/root/.vp/EVIDENCE.schema.json'))
for f in sorted(glob.glob('/verif/evidence/*.json')):
    try:
        jsonschema.validate(json.load(open(f)), sch); print(f, "valid")
    except Exception as e:
        ok = False; print(f, "INVALID:", str(e)[:300])
sys.exit(0 if ok else 1)
