package c11

// Word-processor level of C11 (DOCX / ODT): header and footer parts, and body
// paragraphs that do or do not repeat their lines. tabula documents that with
// ExcludeHeaders / ExcludeFooters "content matching header/footer text will be
// filtered out".
//
//   (S) the filtered text is the unfiltered text minus some paragraphs, in the same order;
//   (O) only paragraphs whose text equals a header line (ExcludeHeaders) or a footer line
//       (ExcludeFooters) are removed; every other body paragraph survives;
//   (C) every body paragraph equal to a header / footer line is removed by the matching option —
//       including the left-page header of an ODT master page (style:header-left, ODF 1.2 §16.10);
//   (N) without header and footer parts, or without matching body paragraphs, nothing changes.

import (
	"bytes"
	"fmt"
	"os"
	"path/filepath"
	"strings"
	"testing"

	"github.com/tsawler/tabula"
	"github.com/tsawler/tabula/docx"
	"github.com/tsawler/tabula/odt"
	"pgregory.net/rapid"

	"verif/harness/gen/docxw"
	"verif/harness/gen/odtw"
	"verif/harness/gen/wpmodel"
	"verif/harness/vr"
)

type WPCase struct {
	Format string   `json:"format"`      // docx | odt
	Body   []string `json:"body"`        // paragraph texts in order; "=H", "=F", "=L" stand for the header / footer / left-header line
	Header string   `json:"header"`      // "" = no header part
	Footer string   `json:"footer"`      // "" = no footer part
	Left   string   `json:"left_header"` // ODT only: text of style:header-left ("" = none)
	Option string   `json:"option"`      // both | headers | footers
	// Pad: the header and footer lines stand between tab stops ("tabs": a tab in front and behind, as Word aligns
	// a centred header) or preserved blanks ("blanks"); the body paragraphs that repeat them do not
	Pad string `json:"pad,omitempty"`
	// Seq: exclusion options asked of ONE format-level reader (docx.Reader / odt.Reader) one after the other
	// (none | headers | footers | both); every answer must be the one a fresh reader gives
	Seq []string `json:"seq,omitempty"`
}

func init() { vr.Register("wp", checkWP) }

func wpPara(s string) wpmodel.Para {
	return wpmodel.Para{wpmodel.Run{Items: []wpmodel.Inline{{Kind: wpmodel.KText, Text: s}}}}
}

func (c WPCase) resolve(s string) string {
	switch s {
	case "=H":
		return c.Header
	case "=F":
		return c.Footer
	case "=L":
		return c.Left
	}
	return s
}

func (c WPCase) build() ([]byte, string, error) {
	d := wpmodel.Doc{}
	for _, b := range c.Body {
		d.Blocks = append(d.Blocks, wpmodel.Block{Kind: wpmodel.BPara, Runs: wpPara(c.resolve(b))})
	}
	padded := func(s string) wpmodel.Para {
		switch c.Pad {
		case "tabs":
			return wpmodel.Para{wpmodel.Run{Items: []wpmodel.Inline{{Kind: wpmodel.KTab}, {Kind: wpmodel.KText, Text: s}, {Kind: wpmodel.KTab}}}}
		case "blanks":
			return wpmodel.Para{wpmodel.Run{Items: []wpmodel.Inline{{Kind: wpmodel.KSpace, N: 2}, {Kind: wpmodel.KText, Text: s}, {Kind: wpmodel.KSpace, N: 1}}}}
		case "splitruns":
			// every word in a run of its own, and so is every blank between two words (what an editor leaves
			// behind after the words were formatted one by one)
			var p wpmodel.Para
			for i, w := range strings.Split(s, " ") {
				if i > 0 {
					p = append(p, wpmodel.Run{Items: []wpmodel.Inline{{Kind: wpmodel.KSpace, N: 1}}})
				}
				if w != "" {
					p = append(p, wpmodel.Run{Items: []wpmodel.Inline{{Kind: wpmodel.KText, Text: w}}})
				}
			}
			return p
		}
		return wpPara(s)
	}
	if c.Header != "" {
		d.Header = []wpmodel.Para{padded(c.Header)}
	}
	if c.Footer != "" {
		d.Footer = []wpmodel.Para{padded(c.Footer)}
	}
	if c.Format == "docx" {
		b, err := docxw.Write(d, docxw.Options{})
		return b, "doc.docx", err
	}
	ms, err := odtw.Parts(d, odtw.Options{})
	if err != nil {
		return nil, "", err
	}
	if c.Left != "" && c.Header != "" {
		for i, m := range ms {
			if m.Name == "styles.xml" {
				left := `</style:header><style:header-left><text:p text:style-name="Header">` + c.Left + `</text:p></style:header-left>`
				ms[i].Data = bytes.Replace(m.Data, []byte("</style:header>"), []byte(left), 1)
			}
		}
	}
	b, err := wpmodel.Zip(ms)
	return b, "doc.odt", err
}

func paragraphs(s string) []string {
	var out []string
	for _, l := range strings.Split(s, "\n") {
		if l = strings.TrimSpace(l); l != "" {
			out = append(out, l)
		}
	}
	return out
}

func checkWP(c WPCase) error {
	data, name, err := c.build()
	if err != nil {
		return fmt.Errorf("INFRA: writer: %v", err)
	}
	dir, err := os.MkdirTemp("", "verif-c11w-")
	if err != nil {
		return fmt.Errorf("INFRA: %v", err)
	}
	defer os.RemoveAll(dir)
	path := filepath.Join(dir, name)
	if err := os.WriteFile(path, data, 0o644); err != nil {
		return fmt.Errorf("INFRA: %v", err)
	}
	u, _, err := tabula.Open(path).Text()
	if err != nil {
		return fmt.Errorf("Text() failed on a valid %s: %v", c.Format, err)
	}
	f, _, err := withOption(tabula.Open(path), c.Option).Text()
	if err != nil {
		return fmt.Errorf("Text() with exclusion failed: %v", err)
	}
	up, fp := paragraphs(u), paragraphs(f)
	// expected: the body paragraphs minus those equal to an excluded line
	excluded := map[string]bool{}
	if c.Option != "footers" && c.Header != "" {
		excluded[c.Header] = true
		if c.Format == "odt" && c.Left != "" {
			excluded[c.Left] = true
		}
	}
	if c.Option != "headers" && c.Footer != "" {
		excluded[c.Footer] = true
	}
	var wantU, wantF []string
	for _, b := range c.Body {
		t := c.resolve(b)
		if strings.TrimSpace(t) == "" {
			continue
		}
		wantU = append(wantU, t)
		if !excluded[t] {
			wantF = append(wantF, t)
		}
	}
	if strings.Join(up, "\n") != strings.Join(wantU, "\n") {
		return fmt.Errorf("%s: Text() without exclusion = %q, body is %q", c.Format, up, wantU)
	}
	if strings.Join(fp, "\n") != strings.Join(wantF, "\n") {
		return fmt.Errorf("%s: Text() under exclusion (%s) = %q, want %q (header %q, left header %q, footer %q)", c.Format, c.Option, fp, wantF, c.Header, c.Left, c.Footer)
	}
	// Markdown follows the same rule
	mu, _, err := tabula.Open(path).ToMarkdown()
	if err != nil {
		return fmt.Errorf("ToMarkdown failed: %v", err)
	}
	mf, _, err := withOption(tabula.Open(path), c.Option).ToMarkdown()
	if err != nil {
		return fmt.Errorf("ToMarkdown with exclusion failed: %v", err)
	}
	if strings.Join(paragraphs(mu), "\n") != strings.Join(wantU, "\n") || strings.Join(paragraphs(mf), "\n") != strings.Join(wantF, "\n") {
		return fmt.Errorf("%s: ToMarkdown() under exclusion (%s) = %q, want %q", c.Format, c.Option, paragraphs(mf), wantF)
	}
	// one reader, several requests
	if len(c.Seq) > 0 {
		ask := func(path string) (func(h, f bool) (string, string, error), func(), error) {
			if c.Format == "docx" {
				r, err := docx.Open(path)
				if err != nil {
					return nil, nil, err
				}
				return func(h, f bool) (string, string, error) {
					o := docx.ExtractOptions{ExcludeHeaders: h, ExcludeFooters: f}
					t, e1 := r.TextWithOptions(o)
					m, e2 := r.MarkdownWithOptions(o)
					if e1 == nil {
						e1 = e2
					}
					return t, m, e1
				}, func() { r.Close() }, nil
			}
			r, err := odt.Open(path)
			if err != nil {
				return nil, nil, err
			}
			return func(h, f bool) (string, string, error) {
				o := odt.ExtractOptions{ExcludeHeaders: h, ExcludeFooters: f}
				t, e1 := r.TextWithOptions(o)
				m, e2 := r.MarkdownWithOptions(o)
				if e1 == nil {
					e1 = e2
				}
				return t, m, e1
			}, func() { r.Close() }, nil
		}
		shared, closeShared, err := ask(path)
		if err != nil {
			return fmt.Errorf("%s.Open failed on a valid document: %v", c.Format, err)
		}
		defer closeShared()
		for i, o := range c.Seq {
			h, f := o == "headers" || o == "both", o == "footers" || o == "both"
			st, sm, serr := shared(h, f)
			fresh, closeFresh, err := ask(path)
			if err != nil {
				return fmt.Errorf("%s.Open: %v", c.Format, err)
			}
			ft, fm, ferr := fresh(h, f)
			closeFresh()
			if st != ft || sm != fm || (serr == nil) != (ferr == nil) {
				return fmt.Errorf("%s: request %d (%s) on a reader that already answered %v gives %q; a fresh reader gives %q", c.Format, i+1, o, c.Seq[:i], paragraphs(st), paragraphs(ft))
			}
		}
	}
	return nil
}

func genWP(t *rapid.T) WPCase {
	c := WPCase{Format: rapid.SampledFrom([]string{"docx", "odt"}).Draw(t, "format"), Option: rapid.SampledFrom([]string{"both", "headers", "footers"}).Draw(t, "option")}
	c.Pad = rapid.SampledFrom([]string{"", "", "tabs", "blanks", "splitruns"}).Draw(t, "pad")
	if rapid.IntRange(0, 4).Draw(t, "hasHeader") > 0 {
		c.Header = "Running header " + rapid.StringMatching(`[A-Z][a-z]{3,8}`).Draw(t, "hw")
	}
	if rapid.IntRange(0, 4).Draw(t, "hasFooter") > 0 {
		c.Footer = "Company confidential " + rapid.StringMatching(`[A-Z][a-z]{3,8}`).Draw(t, "fw")
	}
	if c.Header != "" && c.Footer != "" && rapid.IntRange(0, 5).Draw(t, "sameBanner") == 0 {
		c.Footer = c.Header // one banner line at the top and at the bottom of every page
	}
	if c.Format == "odt" && c.Header != "" && rapid.Bool().Draw(t, "leftHeader") {
		c.Left = "Left page title " + rapid.StringMatching(`[A-Z][a-z]{3,8}`).Draw(t, "lw")
	}
	if rapid.Bool().Draw(t, "sequence") {
		for i, k := 0, rapid.IntRange(2, 4).Draw(t, "seqLen"); i < k; i++ {
			c.Seq = append(c.Seq, rapid.SampledFrom([]string{"none", "headers", "footers", "both"}).Draw(t, "seqOpt"))
		}
	}
	n := rapid.IntRange(1, 8).Draw(t, "paras")
	for i := 0; i < n; i++ {
		switch rapid.SampledFrom([]string{"tok", "tok", "tok", "H", "F", "L", "near"}).Draw(t, "para") {
		case "H":
			if c.Header != "" {
				c.Body = append(c.Body, "=H")
				continue
			}
		case "F":
			if c.Footer != "" {
				c.Body = append(c.Body, "=F")
				continue
			}
		case "L":
			if c.Left != "" {
				c.Body = append(c.Body, "=L")
				continue
			}
		case "near":
			// almost a header line: must stay
			if c.Header != "" {
				c.Body = append(c.Body, c.Header+" continued")
				continue
			}
		}
		c.Body = append(c.Body, fmt.Sprintf("Paragraph w%dq with some words", i))
	}
	return c
}

func metaWP(c WPCase) vr.Meta {
	labels := []string{"wp:" + c.Format, "wp:option:" + c.Option}
	nt := false
	for _, b := range c.Body {
		if b == "=H" || b == "=F" || b == "=L" {
			nt = true
			labels = append(labels, "wp:body-repeats-"+b[1:])
		}
	}
	if c.Left != "" {
		labels = append(labels, "wp:left-header")
	}
	if c.Header != "" && c.Header == c.Footer {
		labels = append(labels, "wp:header-equals-footer")
	}
	if len(c.Seq) > 0 {
		labels = append(labels, "wp:one-reader-several-requests")
	}
	seen := map[string]bool{}
	var u []string
	for _, l := range labels {
		if !seen[l] {
			seen[l] = true
			u = append(u, l)
		}
	}
	return vr.Meta{FP: fmt.Sprintf("%+v", c), NonTrivial: nt, Labels: u}
}

func TestWordProcessor(t *testing.T) {
	vr.Prop(t, "wp", vr.N(1200, 30000), genWP, metaWP, checkWP)
}
