package c11

// Presentation level of C11: the footer, date and slide-number placeholders of
// a slide are its footers (19.7.10 ST_PlaceholderType ftr, dt, sldNum), whether
// the shapes stand directly in the slide's shape tree or inside a group shape.
//
//	(S) exclusion only deletes: every text of the filtered output occurs in the unfiltered one;
//	(C) under ExcludeFooters / ExcludeHeadersAndFooters no footer, date or slide-number text remains;
//	(B) every other text of every slide (title, body, text boxes, table cells) is still there;
//	(N) without such placeholders the output is unchanged.

import (
	"fmt"
	"os"
	"path/filepath"
	"strings"
	"testing"

	"github.com/tsawler/tabula"
	"github.com/tsawler/tabula/pptx"
	"pgregory.net/rapid"

	"verif/harness/gen/pptxw"
	"verif/harness/vr"
)

type PPTXCase struct {
	Deck   pptxw.Deck `json:"deck"`
	Option string     `json:"option"` // both | footers
	Seq    []int      `json:"seq"`    // calls made on one shared pptx.Reader (indices into a fixed list)
}

func init() { vr.Register("pptx", checkPPTX) }

func checkPPTX(c PPTXCase) error {
	data, err := c.Deck.Bytes()
	if err != nil {
		return fmt.Errorf("INFRA: writer: %v", err)
	}
	dir, err := os.MkdirTemp("", "verif-c11p-")
	if err != nil {
		return fmt.Errorf("INFRA: %v", err)
	}
	defer os.RemoveAll(dir)
	path := filepath.Join(dir, "deck.pptx")
	if err := os.WriteFile(path, data, 0o644); err != nil {
		return fmt.Errorf("INFRA: %v", err)
	}
	for _, view := range []string{"Text", "ToMarkdown"} {
		get := func(e *tabula.Extractor) (string, error) {
			if view == "Text" {
				s, _, err := e.Text()
				return s, err
			}
			s, _, err := e.ToMarkdown()
			return s, err
		}
		u, err := get(tabula.Open(path))
		if err != nil {
			return fmt.Errorf("%s() failed on a valid deck: %v", view, err)
		}
		f, err := get(withOption(tabula.Open(path), c.Option))
		if err != nil {
			return fmt.Errorf("%s() with exclusion failed: %v", view, err)
		}
		any := false
		for i, s := range c.Deck.Slides {
			marginal := map[string]bool{s.Footer: true, s.Date: true, s.SlideNum: true}
			for _, t := range s.Texts() {
				switch {
				case marginal[t]:
					any = true
					if strings.Contains(f, t) {
						return fmt.Errorf("%s() under exclusion (%s) still holds %q, the text of a footer / date / slide-number placeholder of slide %d (placeholders inside a group shape: %v)", view, c.Option, t, i+1, s.GroupFooters)
					}
				case strings.Contains(u, t) && !strings.Contains(f, t):
					return fmt.Errorf("%s() under exclusion (%s) lost %q of slide %d, which is no footer placeholder", view, c.Option, t, i+1)
				}
			}
		}
		for _, w := range strings.Fields(f) {
			if strings.HasPrefix(w, "tok") && !strings.Contains(u, w) {
				return fmt.Errorf("%s() under exclusion (%s) holds %q, which the unfiltered output lacks", view, c.Option, w)
			}
		}
		if !any && u != f {
			return fmt.Errorf("%s(): a deck without footer placeholders came back changed under exclusion (%s)", view, c.Option)
		}
	}
	// one pptx.Reader asked several times, with and without exclusion in turn: every answer is the one a reader
	// gives that was asked nothing else
	plain := pptx.ExtractOptions{IncludeTitles: true}
	excl := pptx.ExtractOptions{IncludeTitles: true, ExcludeFooters: true, ExcludeHeaders: c.Option == "both"}
	type ask struct {
		name string
		run  func(r *pptx.Reader) (string, error)
	}
	asks := []ask{
		{"TextWithOptions(plain)", func(r *pptx.Reader) (string, error) { return r.TextWithOptions(plain) }},
		{"TextWithOptions(exclusion)", func(r *pptx.Reader) (string, error) { return r.TextWithOptions(excl) }},
		{"MarkdownWithOptions(plain)", func(r *pptx.Reader) (string, error) { return r.MarkdownWithOptions(plain) }},
		{"MarkdownWithOptions(exclusion)", func(r *pptx.Reader) (string, error) { return r.MarkdownWithOptions(excl) }},
	}
	alone := make([]string, len(asks))
	for k, a := range asks {
		r, err := pptx.Open(path)
		if err != nil {
			return fmt.Errorf("pptx.Open failed on a valid deck: %v", err)
		}
		alone[k], _ = a.run(r)
		r.Close()
	}
	shared, err := pptx.Open(path)
	if err != nil {
		return fmt.Errorf("pptx.Open failed on a valid deck: %v", err)
	}
	defer shared.Close()
	for step, k := range c.Seq {
		k %= len(asks)
		got, _ := asks[k].run(shared)
		if got != alone[k] {
			return fmt.Errorf("one pptx.Reader, call %d = %s (after %v): the answer differs from that of a fresh reader:\n got  %q\n want %q", step+1, asks[k].name, c.Seq[:step], got, alone[k])
		}
	}
	return nil
}

func genPPTX(t *rapid.T) PPTXCase {
	n := 0
	text := func(*rapid.T, string) string { n++; return fmt.Sprintf("tok%03dz", n) }
	c := PPTXCase{Deck: pptxw.GenDeck(t, 4, text), Option: rapid.SampledFrom([]string{"both", "footers"}).Draw(t, "option")}
	for i := range c.Deck.Slides {
		c.Deck.Slides[i].FootersFirst = rapid.Bool().Draw(t, "footersFirst")
	}
	c.Seq = rapid.SliceOfN(rapid.IntRange(0, 3), 2, 6).Draw(t, "seq")
	return c
}

func metaPPTX(c PPTXCase) vr.Meta {
	l := []string{"pptx", "pptx:option:" + c.Option}
	nt := false
	for _, s := range c.Deck.Slides {
		if s.Footer != "" || s.Date != "" || s.SlideNum != "" {
			nt = true
			l = append(l, "pptx:footer-placeholders")
			if s.GroupFooters {
				l = append(l, "pptx:footer-placeholders-in-group")
			}
		}
	}
	seen := map[string]bool{}
	var u []string
	for _, x := range l {
		if !seen[x] {
			seen[x] = true
			u = append(u, x)
		}
	}
	return vr.Meta{FP: fmt.Sprintf("%+v", c), NonTrivial: nt, Labels: u}
}

func TestPresentation(t *testing.T) {
	vr.Prop(t, "pptx", vr.N(800, 20000), genPPTX, metaPPTX, checkPPTX)
}
