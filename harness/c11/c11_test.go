// C11 — Header/footer exclusion removes only repeated marginal text (detector level).
//
// Generator: gen/frag documents of 1–10 pages: running header (every page /
// odd-even / none, one fragment or word fragments, optionally with a constant
// year in it), footer text, page numbers in the documented decimal styles at a
// fixed place or alternating on the outer margin, non-repeating text inside
// the bands, a constant number in the band of the page number; body text that
// keeps >= 80 pt from both page edges, incl. body lines repeated on every page
// and purely numeric body lines placed exactly at the edge of the body.
// Oracle: the generated document. layout.HeaderFooterDetector.Detect over all
// pages + HeaderFooterResult.FilterFragments per page must (S) return a
// subsequence of the page, (B) keep every body fragment, (N) return pages
// without repetition in the bands unchanged, (C) remove an every-page
// single-fragment marginal line and fixed-place running page numbers from
// every page, (O) delete a fragment only if it lies in a band and its text
// repeats in a band of another page or is a page-number pattern.
package c11

import (
	"encoding/json"
	"flag"
	"fmt"
	"math"
	"strings"
	"testing"
	"unicode"

	"github.com/tsawler/tabula/layout"
	"github.com/tsawler/tabula/text"
	"pgregory.net/rapid"

	"verif/harness/gen/frag"
	"verif/harness/vr"
)

func TestMain(m *testing.M) {
	// several sub-checks can fail on one defect; keep the time rapid spends shrinking each of them bounded so that a
	// failing run still ends within the quick budget
	_ = flag.Set("rapid.shrinktime", "8s")
	vr.Main(m)
}

type Case struct {
	Doc frag.Doc `json:"doc"`
}

func genAny(t *rapid.T) Case { return Case{Doc: frag.GenDoc(t, frag.DocOpts{Want: vr.Want})} }
func genMulti(t *rapid.T) Case {
	return Case{Doc: frag.GenDoc(t, frag.DocOpts{Want: vr.Want, MinPages: 2})}
}
func genNoRepeat(t *rapid.T) Case {
	return Case{Doc: frag.GenDoc(t, frag.DocOpts{Want: vr.Want, NoRepeat: true})}
}

func meta(c Case) vr.Meta {
	d := c.Doc
	nt := false
	if len(d.Pages) >= 2 {
		if d.Header != "none" || d.Footer != "none" || d.PageNo != "none" {
			nt = true
		}
		for _, p := range d.Pages {
			for _, f := range p.Frags {
				if f.Role == frag.RoleBodyRep || f.Role == frag.RoleNum {
					nt = true
				}
			}
		}
	}
	b, _ := json.Marshal(d)
	return vr.Meta{FP: string(b), NonTrivial: nt, Labels: d.Labels()}
}

// ---------------------------------------------------------------------------
// running tabula

type result struct {
	in, out [][]text.TextFragment
	h       []float64
}

func run(d frag.Doc) result {
	var r result
	pages := make([]layout.PageFragments, len(d.Pages))
	for i, p := range d.Pages {
		w, h := p.Box()
		frs := p.Fragments()
		pages[i] = layout.PageFragments{PageIndex: i, PageWidth: w, PageHeight: h, Fragments: frs}
		r.in = append(r.in, append([]text.TextFragment(nil), frs...))
		r.h = append(r.h, h)
	}
	res := layout.NewHeaderFooterDetector().Detect(pages)
	for i := range d.Pages {
		r.out = append(r.out, res.FilterFragments(i, pages[i].Fragments, r.h[i]))
	}
	return r
}

func id(f text.TextFragment) string { return fmt.Sprintf("%q@%.3f,%.3f", f.Text, f.X, f.Y) }

// deleted returns, per page, the model fragments missing from the output (multiset difference by identity).
func deleted(d frag.Doc, r result) [][]frag.Frag {
	out := make([][]frag.Frag, len(d.Pages))
	for i, p := range d.Pages {
		left := map[string]int{}
		for _, f := range r.out[i] {
			left[id(f)]++
		}
		for j, f := range r.in[i] {
			k := id(f)
			if left[k] > 0 {
				left[k]--
				continue
			}
			out[i] = append(out[i], p.Frags[j])
		}
	}
	return out
}

// ---------------------------------------------------------------------------
// (S) the filtered page is the page minus some fragments, in the same order

func checkSubseq(c Case) error {
	r := run(c.Doc)
	for i := range r.in {
		j := 0
		for _, f := range r.out[i] {
			for j < len(r.in[i]) && r.in[i][j] != f {
				j++
			}
			if j == len(r.in[i]) {
				return fmt.Errorf("page %d: filtered output is not an in-order subsequence of the page: %s has no counterpart (changed, invented, duplicated or reordered)", i+1, id(f))
			}
			j++
		}
		// the detector must not have touched its input either
		for k, f := range c.Doc.Pages[i].Fragments() {
			if r.in[i][k] != f {
				return fmt.Errorf("page %d: input fragment %d modified", i+1, k)
			}
		}
	}
	return nil
}

// (B) text in the body band survives

func checkBody(c Case) error {
	r := run(c.Doc)
	for i, del := range deleted(c.Doc, r) {
		for _, f := range del {
			if f.InBody(r.h[i]) {
				return fmt.Errorf("page %d: body fragment %q (role %s) at baseline y=%.2f, top %.2f pt below the page top and baseline %.2f pt above the page bottom (bands are %g pt), was deleted",
					i+1, f.T, f.Role, f.Y, r.h[i]-f.Y-f.S, f.Y, frag.Margin)
			}
		}
	}
	return nil
}

// (N) documents without repetition (and without page-number patterns) inside the bands come back unchanged

func checkNoRepeat(c Case) error {
	r := run(c.Doc)
	for i := range r.in {
		if len(r.in[i]) != len(r.out[i]) {
			del := deleted(c.Doc, r)[i]
			return fmt.Errorf("page %d: nothing repeats inside the margin bands, yet %d of %d fragments were deleted, e.g. %q (role %s)", i+1, len(r.in[i])-len(r.out[i]), len(r.in[i]), del[0].T, del[0].Role)
		}
		for k := range r.in[i] {
			if r.in[i][k] != r.out[i][k] {
				return fmt.Errorf("page %d: fragment %d changed: %s -> %s", i+1, k, id(r.in[i][k]), id(r.out[i][k]))
			}
		}
	}
	return nil
}

// (C) an every-page single-fragment marginal line and fixed-place running page numbers are removed from every page

func mustGo(d frag.Doc, f frag.Frag) bool {
	switch f.Role {
	case frag.RoleHeader:
		return d.Header == "every" && d.HeaderForm == "frag" && !d.HeaderRunNo
	case frag.RoleFooter:
		return d.Footer == "every" && d.FooterForm == "frag"
	case frag.RolePageNo:
		// "running page numbers are removed from every page": numbers at one fixed place, and numbers that
		// alternate between the two outer margins once each of the two places recurs (from four pages on)
		return d.PageNo == "fixed" || (d.PageNo == "alternate" && len(d.Pages) >= 4)
	}
	return false
}

func checkRunning(c Case) error {
	d := c.Doc
	if len(d.Pages) < 2 {
		return nil
	}
	r := run(d)
	for i, p := range d.Pages {
		left := map[string]int{}
		for _, f := range r.out[i] {
			left[id(f)]++
		}
		for j, f := range p.Frags {
			if mustGo(d, f) && left[id(r.in[i][j])] > 0 {
				return fmt.Errorf("page %d of %d: %s %q at (%.2f,%.2f) stands at the same marginal place on every page but was not removed", i+1, len(d.Pages), f.Role, f.T, f.X, f.Y)
			}
		}
	}
	return nil
}

// (O) only repeated or page-number text inside a band may be deleted

// normalize replaces every run of decimal digits by '#', as tabula documents for its comparison of running texts.
func normalize(s string) string {
	var sb strings.Builder
	in := false
	for _, r := range strings.TrimSpace(s) {
		if unicode.IsDigit(r) {
			if !in {
				sb.WriteByte('#')
			}
			in = true
			continue
		}
		in = false
		sb.WriteRune(r)
	}
	return sb.String()
}

func isPageNoPattern(s string) bool {
	n := normalize(s)
	for _, p := range frag.PageNoStyles {
		if strings.EqualFold(n, p) {
			return true
		}
	}
	return false
}

func checkOnlyIf(c Case) error {
	d := c.Doc
	r := run(d)
	for i, del := range deleted(d, r) {
		for _, f := range del {
			if !f.InBand(r.h[i]) {
				return fmt.Errorf("page %d: %q (role %s) at y=%.2f is outside both %g pt margin bands but was deleted", i+1, f.T, f.Role, f.Y, frag.Margin)
			}
			if isPageNoPattern(f.T) {
				continue
			}
			// "repeats at that position": another page holds the same text in the same band within the detector's
			// documented tolerances (PositionTolerance 5 pt, XPositionTolerance 10 pt; 2.5 pt more for the jitter
			// the documents carry), measured as absolute coordinates or from the page edge the band belongs to
			repeats, elsewhere := false, false
			top := r.h[i]-(f.Y+f.S) < frag.Margin
			for q, p := range d.Pages {
				if q == i {
					continue
				}
				for _, g := range p.Frags {
					if !g.InBand(r.h[q]) || normalize(g.T) != normalize(f.T) {
						continue
					}
					elsewhere = true
					if gTop := r.h[q]-(g.Y+g.S) < frag.Margin; gTop != top {
						continue
					}
					dy := math.Abs(g.Y - f.Y)
					if top {
						dy = math.Min(dy, math.Abs((r.h[q]-g.Y)-(r.h[i]-f.Y)))
					}
					if dy <= 7.5 && math.Abs(g.X-f.X) <= 12.5 {
						repeats = true
					}
				}
			}
			if !elsewhere {
				return fmt.Errorf("page %d: %q (role %s) in a margin band was deleted although it is no page-number pattern and no band of another page holds the same text", i+1, f.T, f.Role)
			}
			if !repeats {
				return fmt.Errorf("page %d: %q (role %s) at (%.2f,%.2f) in a margin band was deleted; other pages hold the same text in a band, but none of them at that position (within 5 pt vertically and 10 pt horizontally)", i+1, f.T, f.Role, f.X, f.Y)
			}
		}
	}
	return nil
}

func init() {
	vr.Register("subseq", checkSubseq)
	vr.Register("body", checkBody)
	vr.Register("norepeat", checkNoRepeat)
	vr.Register("running", checkRunning)
	vr.Register("onlyif", checkOnlyIf)
}

func TestSubseq(t *testing.T) { vr.Prop(t, "subseq", vr.N(8000, 100000), genAny, meta, checkSubseq) }
func TestBody(t *testing.T)   { vr.Prop(t, "body", vr.N(10000, 120000), genAny, meta, checkBody) }
func TestNoRepeat(t *testing.T) {
	vr.Prop(t, "norepeat", vr.N(8000, 100000), genNoRepeat, meta, checkNoRepeat)
}
func TestRunning(t *testing.T) {
	vr.Prop(t, "running", vr.N(10000, 120000), genMulti, meta, checkRunning)
}
func TestOnlyIf(t *testing.T) { vr.Prop(t, "onlyif", vr.N(8000, 100000), genAny, meta, checkOnlyIf) }
