package c11

// Public-API level of C11 for PDFs: the multi-page documents of gen/frag are
// lowered to PDF (gen/fragpdf) and read with tabula.Open(f) with and without
// the exclusion options, for the whole document and for page subsets.
//
// Clauses (word level, because Text() re-assembles fragments into lines):
//   (S') every word of the filtered text occurs in the unfiltered text at least as often (only deletes);
//        body words keep their relative order;
//   (B)  every body-band fragment's text is still present;
//   (N)  documents without repetition and page-number patterns in the bands are returned unchanged;
//   (C)  a single-fragment header/footer line repeated at the same place on every page, and lettered
//        running page numbers ("Page 3", "p. 3"), are absent from the filtered text;
//   (P)  a page subset requested together with exclusion shows each page exactly as the whole document
//        shows it (the same header/footer words are gone).

import (
	"bytes"
	"fmt"
	"os"
	"path/filepath"
	"regexp"
	"strings"
	"testing"
	"unicode"

	"github.com/tsawler/tabula"
	"pgregory.net/rapid"

	"verif/harness/gen/frag"
	"verif/harness/gen/fragpdf"
	"verif/harness/vr"
)

type APICase struct {
	Doc    frag.Doc `json:"doc"`
	Subset []int    `json:"subset,omitempty"` // 1-based pages for clause (P)
	Option string   `json:"option"`           // both | headers | footers
	// Damage: 1-based page whose content stream is made unreadable (a string left open) in a second copy of the
	// file; the other pages, requested without it, must lose their running lines all the same (0 = none)
	Damage int `json:"damage,omitempty"`
}

func init() { vr.Register("api", checkAPI) }

func words(s string) []string { return strings.Fields(s) }

func bag(ws []string) map[string]int {
	m := map[string]int{}
	for _, w := range ws {
		m[w]++
	}
	return m
}

func withOption(e *tabula.Extractor, o string) *tabula.Extractor {
	switch o {
	case "headers":
		return e.ExcludeHeaders()
	case "footers":
		return e.ExcludeFooters()
	}
	return e.ExcludeHeadersAndFooters()
}

var hasLetter = regexp.MustCompile(`[A-Za-z]`)

func checkAPI(c APICase) error {
	d := c.Doc
	data, err := fragpdf.Lower(d.Pages)
	if err != nil {
		return nil
	}
	dir, err := os.MkdirTemp("", "verif-c11-")
	if err != nil {
		return fmt.Errorf("INFRA: %v", err)
	}
	defer os.RemoveAll(dir)
	path := filepath.Join(dir, "doc.pdf")
	if err := os.WriteFile(path, data, 0o644); err != nil {
		return fmt.Errorf("INFRA: %v", err)
	}
	u, _, err := tabula.Open(path).Text()
	if err != nil {
		return fmt.Errorf("Text() failed on a well-formed PDF: %v", err)
	}
	f, _, err := withOption(tabula.Open(path), c.Option).Text()
	if err != nil {
		return fmt.Errorf("Text() with exclusion (%s) failed: %v", c.Option, err)
	}
	// all white space removed: Text() re-assembles fragments into lines and may space them differently with and
	// without the marginal fragments; only the presence of a text is judged, never how often it occurs
	su, sf := strip(u), strip(f)
	// (S') only deletes: character level (Text() re-assembles fragments into lines, so word boundaries may move)
	ub, fb := runeBag(su), runeBag(sf)
	for r, n := range fb {
		if n > ub[r] {
			return fmt.Errorf("exclusion (%s) invented text: character %q occurs %d times, %d times without exclusion", c.Option, r, n, ub[r])
		}
	}
	// (B) every body-band fragment is still there. Texts that also occur inside a margin band (a body "1" and a page
	// number "1") cannot be told apart in a text and are not judged here (the detector-level check does).
	marginal := map[string]bool{}
	var marginalLines []string // band text line by line (a running header may be set as several word fragments)
	for _, p := range d.Pages {
		_, h := p.Box()
		line := map[int]string{}
		var order []int
		for _, fr := range p.Frags {
			if !fr.InBody(h) {
				marginal[strip(fr.T)] = true
				if _, ok := line[fr.Ln]; !ok {
					order = append(order, fr.Ln)
				}
				line[fr.Ln] += strip(fr.T)
			}
		}
		for _, ln := range order {
			marginalLines = append(marginalLines, line[ln])
		}
	}
	inMargin := func(t string) bool {
		if marginal[t] {
			return true
		}
		for _, l := range marginalLines {
			if strings.Contains(l, t) {
				return true
			}
		}
		return false
	}
	for i, p := range d.Pages {
		_, h := p.Box()
		for _, fr := range p.Frags {
			if !fr.InBody(h) {
				continue
			}
			t := strip(fr.T)
			if len([]rune(t)) < 4 || inMargin(t) {
				continue
			}
			if strings.Contains(su, t) && !strings.Contains(sf, t) {
				return fmt.Errorf("exclusion (%s) deleted body-band text %q of page %d (%s, baseline %.1f of page height %.1f)", c.Option, fr.T, i+1, fr.Role, fr.Y, h)
			}
		}
	}
	// (N)
	if !hasMarginalRepeat(d) && su != sf {
		return fmt.Errorf("a document without repeated marginal text came back changed under exclusion (%s)", c.Option)
	}
	// (C) with both bands excluded
	if c.Option == "both" && len(d.Pages) >= 2 {
		for i, p := range d.Pages {
			for _, fr := range p.Frags {
				if !mustGo(d, fr) {
					continue
				}
				t := strip(fr.T)
				if len([]rune(t)) < 4 || !hasLetter.MatchString(t) {
					continue // short or purely numeric marginal text also occurs inside body text: judged at detector level
				}
				// the same words may also stand in the body band (a body line repeating the header): those stay
				bodyCopy := false
				for _, q := range d.Pages {
					_, qh := q.Box()
					var bodyText strings.Builder
					for _, g := range q.Frags {
						if g.InBody(qh) {
							bodyText.WriteString(strip(g.T))
						}
					}
					bodyCopy = bodyCopy || strings.Contains(bodyText.String(), t)
				}
				// line by line: across a line break the end of one line and the start of the next can spell the
				// marginal text by accident ("page 9" above "948" reads "page9948" without white space)
				if !bodyCopy && lineContains(f, t) {
					return fmt.Errorf("page %d: %s %q stands at the same marginal place on every page but is still in Text() under ExcludeHeadersAndFooters", i+1, fr.Role, fr.T)
				}
			}
		}
	}
	// (P) a subset under exclusion never shows marginal text the whole document under the same option shows nowhere
	if len(c.Subset) > 0 {
		sub, _, err := withOption(tabula.Open(path).Pages(c.Subset...), c.Option).Text()
		if err != nil {
			return fmt.Errorf("Pages(%v) with exclusion failed: %v", c.Subset, err)
		}
		var wholeBody strings.Builder
		for _, q := range d.Pages {
			_, qh := q.Box()
			for _, g := range q.Frags {
				if g.InBody(qh) {
					wholeBody.WriteString(strip(g.T))
				}
			}
		}
		for _, pn := range c.Subset {
			p := d.Pages[pn-1]
			_, h := p.Box()
			for _, fr := range p.Frags {
				t := strip(fr.T)
				if fr.InBody(h) || len([]rune(t)) < 4 || !hasLetter.MatchString(t) || strings.Contains(wholeBody.String(), t) {
					continue
				}
				if lineContains(sub, t) && !strings.Contains(sf, t) {
					return fmt.Errorf("Pages(%v)+exclusion (%s) shows the marginal text %q of page %d; the whole document under the same option shows it on no page", c.Subset, c.Option, fr.T, pn)
				}
			}
		}
	}
	// (D) one unreadable page elsewhere: the pages requested without it are read as before
	if c.Damage > 0 && c.Option == "both" && len(d.Pages) >= 5 && len(d.Pages[c.Damage-1].Frags) > 0 {
		first := d.Pages[c.Damage-1].Frags[0].T
		needle := []byte("(" + first + ") Tj")
		if i := bytes.Index(data, needle); i >= 0 && bytes.Count(data, needle) == 1 {
			bad := append([]byte{}, data...)
			copy(bad[i+len(needle)-4:], "  Tj") // the literal string never ends: same length, all offsets stay valid
			bp := filepath.Join(dir, "damaged.pdf")
			if err := os.WriteFile(bp, bad, 0o644); err != nil {
				return fmt.Errorf("INFRA: %v", err)
			}
			if _, _, err := tabula.Open(bp).Pages(c.Damage).Text(); err != nil { // only if the damage makes the page unreadable
				var rest []int
				for p := 1; p <= len(d.Pages); p++ {
					if p != c.Damage {
						rest = append(rest, p)
					}
				}
				got, _, err := withOption(tabula.Open(bp).Pages(rest...), c.Option).Text()
				if err != nil {
					return fmt.Errorf("Pages(%v) with exclusion failed on a file whose page %d is unreadable: %v", rest, c.Damage, err)
				}
				want, _, err := withOption(tabula.Open(path).Pages(rest...), c.Option).Text()
				if err != nil {
					return fmt.Errorf("Pages(%v) with exclusion failed: %v", rest, err)
				}
				for _, pn := range rest {
					for _, fr := range d.Pages[pn-1].Frags {
						t := strip(fr.T)
						if !mustGo(d, fr) || len([]rune(t)) < 4 || !hasLetter.MatchString(t) {
							continue
						}
						if fr.Role == frag.RolePageNo && d.PageNo == "alternate" {
							// without the unreadable page one of the two places may not recur often enough any more
							continue
						}
						if lineContains(got, t) && !lineContains(want, t) {
							return fmt.Errorf("page %d is unreadable; Pages(%v) under ExcludeHeadersAndFooters now shows the %s %q of page %d, which the intact file does not show for the same pages", c.Damage, rest, fr.Role, fr.T, pn)
						}
					}
				}
			}
		}
	}
	return nil
}

// lineContains reports whether one line of text, white space removed, contains t.
func lineContains(text, t string) bool {
	for _, l := range strings.Split(text, "\n") {
		if strings.Contains(strip(l), t) {
			return true
		}
	}
	return false
}

func strip(s string) string {
	return strings.Map(func(r rune) rune {
		if unicode.IsSpace(r) {
			return -1
		}
		return r
	}, s)
}

func runeBag(s string) map[rune]int {
	m := map[rune]int{}
	for _, r := range s {
		m[r]++
	}
	return m
}

func hasMarginalRepeat(d frag.Doc) bool {
	seen := map[string]int{} // pages on which the text occurs inside a band
	for _, p := range d.Pages {
		_, h := p.Box()
		here := map[string]bool{}
		for _, fr := range p.Frags {
			if k := normalize(fr.T); fr.InBand(h) && !here[k] {
				here[k] = true
				seen[k]++
			}
		}
	}
	for k, n := range seen {
		if n > 1 || isPageNoPattern(k) {
			return true
		}
	}
	return false
}

func genAPI(t *rapid.T) APICase {
	c := APICase{Doc: frag.GenDoc(t, frag.DocOpts{Want: vr.Want, MaxPages: 6}), Option: rapid.SampledFrom([]string{"both", "both", "headers", "footers"}).Draw(t, "option")}
	if n := len(c.Doc.Pages); n >= 5 && rapid.Bool().Draw(t, "damage") {
		c.Damage = rapid.IntRange(1, n).Draw(t, "damagedPage")
	}
	if n := len(c.Doc.Pages); n >= 2 && rapid.Bool().Draw(t, "subset") {
		k := rapid.IntRange(1, n).Draw(t, "k")
		seen := map[int]bool{}
		for i := 0; i < k; i++ {
			p := rapid.IntRange(1, n).Draw(t, "p")
			if !seen[p] {
				seen[p] = true
				c.Subset = append(c.Subset, p)
			}
		}
	}
	return c
}

func metaAPI(c APICase) vr.Meta {
	m := meta(Case{Doc: c.Doc})
	m.FP = fmt.Sprintf("%s|%v|%s", m.FP, c.Subset, c.Option)
	for i := range m.Labels {
		m.Labels[i] = "api:" + m.Labels[i]
	}
	m.Labels = append(m.Labels, "api:option:"+c.Option)
	if len(c.Subset) > 0 {
		m.Labels = append(m.Labels, "api:subset")
	}
	return m
}

func TestPublicAPI(t *testing.T) {
	vr.Prop(t, "api", vr.N(1200, 30000), genAPI, metaAPI, checkAPI)
}
