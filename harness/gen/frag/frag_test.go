package frag

import (
	"math"
	"testing"

	"pgregory.net/rapid"
)

// The generator's own contract: what the checks built on it (and a later PDF
// lowering) rely on.

func TestPageInvariants(t *testing.T) {
	rapid.Check(t, func(t *rapid.T) {
		p := GenPage(t, Opts{})
		seen := map[string]Frag{}
		for i, f := range p.Frags {
			n := float64(len([]rune(f.T)))
			if math.Abs(f.W-Advance*f.S*n) > 0.006 {
				t.Fatalf("frag %d %q: W=%v, want Advance*S*runes=%v", i, f.T, f.W, Advance*f.S*n)
			}
			if f.S <= 0 || f.T == "" {
				t.Fatalf("frag %d: empty text or non-positive size: %+v", i, f)
			}
			if f.X < 0 || f.X+f.W > p.W+0.01 || f.Y < 0 || f.Y+f.S > p.H+0.01 {
				t.Fatalf("frag %d %q outside the %gx%g page in design space: %+v", i, f.T, p.W, p.H, f)
			}
			// body text keeps BodyClear from the top and bottom edge (lone glyphs go below the body on purpose)
			if f.Role != RoleLone && f.Role != RoleSuper && (f.Y < BodyClear-0.01 || f.Y+f.S > p.H-BodyClear+0.51) { // a duplicate layer may be shifted up by 0.2 pt
				t.Fatalf("frag %d %q (role %s) closer than %g pt to a page edge: y=%v s=%v h=%v", i, f.T, f.Role, BodyClear, f.Y, f.S, p.H)
			}
			// tokens are unique: equal text means a deliberate duplicate layer, a list prefix, a footnote mark or a glyph of a char-level page
			whole := p.Has("mode:word") || p.Has("mode:wordsp") || p.Has("mode:line") // other modes cut tokens into pieces
			if g, ok := seen[f.T]; ok && whole && f.Role != RoleBullet && f.Role != RoleSuper && f.Role != RoleLone && !p.Has(FeatDup) {
				t.Fatalf("token %q used twice: %+v and %+v", f.T, g, f)
			}
			seen[f.T] = f
		}
		if (p.Scale > 1 && !p.ScaleBox) != p.Has(FeatOverflow) {
			t.Fatalf("overflow feature flag inconsistent: scale=%v box=%v feat=%v", p.Scale, p.ScaleBox, p.Feat)
		}
		if got := len(p.Fragments()); got != len(p.Frags) {
			t.Fatalf("Fragments() returned %d of %d", got, len(p.Frags))
		}
	})
}

func TestTokenUnique(t *testing.T) {
	for _, alpha := range []string{Lower, Upper, Hebrew, Digits} {
		seen := map[string]int{}
		for k := 1; k < 3000; k++ {
			for n := 2; n <= 9; n++ {
				s := Token(k, n, alpha)
				if o, ok := seen[s]; ok && o != k {
					t.Fatalf("%s: Token(%d,%d) == Token(%d,·) == %q", alpha, k, n, o, s)
				}
				seen[s] = k
			}
		}
	}
}

func TestDocInvariants(t *testing.T) {
	rapid.Check(t, func(t *rapid.T) {
		noRepeat := rapid.Bool().Draw(t, "noRepeat")
		d := GenDoc(t, DocOpts{NoRepeat: noRepeat})
		if noRepeat && (d.Header != "none" || d.Footer != "none" || d.PageNo != "none") {
			t.Fatalf("no-repeat document with running text: %v", d)
		}
		for i, p := range d.Pages {
			if p.FlipY || p.Scale != 0 {
				t.Fatalf("page %d transformed", i)
			}
			runes := 0
			hdr := 0
			for j, f := range p.Frags {
				runes += len([]rune(f.T))
				marginal := f.Role == RoleHeader || f.Role == RoleFooter || f.Role == RolePageNo || f.Role == RoleMargin || f.Role == RoleMargNum
				if marginal {
					if !f.InBand(p.H) || f.InBody(p.H) {
						t.Fatalf("page %d frag %d %q (role %s) is not inside a margin band: %+v", i, j, f.T, f.Role, f)
					}
					// well inside: at most 52+size pt from its edge
					if math.Min(p.H-(f.Y+f.S), f.Y) > 60 {
						t.Fatalf("page %d frag %d %q too close to the band limit", i, j, f.T)
					}
				} else if !f.InBody(p.H) || f.InBand(p.H) {
					t.Fatalf("page %d frag %d %q (role %s) is not inside the body: y=%v s=%v h=%v", i, j, f.T, f.Role, f.Y, f.S, p.H)
				}
				if f.Role == RoleHeader {
					hdr++
				}
				if f.X < 0 || f.X+f.W > p.W+0.01 {
					t.Fatalf("page %d frag %d %q outside the page horizontally: %+v page %vx%v", i, j, f.T, f, p.W, p.H)
				}
			}
			if runes < 3*len(p.Frags) {
				t.Fatalf("page %d: average fragment length %d/%d below 3", i, runes, len(p.Frags))
			}
			if d.Header == "every" && hdr == 0 {
				t.Fatalf("page %d has no header although header=every", i)
			}
		}
	})
}
