package frag

import (
	"fmt"
	"sort"
	"strconv"
	"strings"

	"pgregory.net/rapid"
)

// Margin is the height of the top and bottom margin band tabula documents as
// its default (HeaderRegionHeight / FooterRegionHeight = 72 pt = 1 inch).
const Margin = 72.0

// BodyClear is the minimum distance generated body text keeps from the top and
// bottom page edges (DESIGN.md §8).
const BodyClear = 80.0

// PageNoStyles are the decimal page-number forms tabula documents in
// layout.isPageNumberPattern ("#" stands for a decimal number). The second
// "#" of the "of" forms is the page count.
var PageNoStyles = []string{"#", "Page #", "page #", "- # -", "# of #", "Page # of #", "#/#", "p. #", "p.#", "pg #", "pg. #"}

// FormatPageNo writes page number n (of total) in a style.
func FormatPageNo(style string, n, total int) string {
	s := strings.Replace(style, "#", strconv.Itoa(n), 1)
	return strings.Replace(s, "#", strconv.Itoa(total), 1)
}

// Doc is a multi-page document for the header/footer properties. No page is
// flipped or scaled. Pages share one size unless the document has the
// mixed-size feature (portrait and landscape pages, A4 inserts): then all
// marginal text is left-aligned and stands at the same distance from each
// page's own top / bottom edge, which is what "the same marginal position"
// means when the sheets differ.
type Doc struct {
	Pages []Page `json:"pages"`

	Header      string   `json:"header"`                 // none | every | oddeven | skipfirst (every page but the first)
	HeaderRunNo bool     `json:"header_runno,omitempty"` // the header ends in the running page number ("Title 7"): not a repeated line
	HeaderForm  string   `json:"header_form,omitempty"`  // frag (one fragment per line) | words
	Footer      string   `json:"footer"`                 // none | every | oddeven
	FooterForm  string   `json:"footer_form,omitempty"`  // frag | words
	PageNo      string   `json:"pageno"`                 // none | fixed (same place on every page) | alternate (outer margin)
	PageNoStyle string   `json:"pageno_style,omitempty"` // one of PageNoStyles
	PageNoAt    string   `json:"pageno_at,omitempty"`    // top | bottom
	PageNoCase  string   `json:"pageno_case,omitempty"`  // "" as in PageNoStyles | upper ("PAGE 3 OF 9") | title ("Page 3 Of 9", "Pg. 3")
	Feat        []string `json:"feat,omitempty"`
}

// Doc-level features (known-finding gates through DocOpts.Want).
const (
	FeatBodyNumEdge = "bodynum-edge"     // purely numeric body line as the first/last body line of a page
	FeatBodyRepeat  = "body-repeat"      // body line repeated at the same place on several pages
	FeatMargNum     = "margin-num"       // constant numeric fragment in the band that also holds the page number
	FeatMargUnique  = "margin-uniq"      // non-repeating text inside a margin band
	FeatHdrDigits   = "header-digits"    // running header containing a constant number
	FeatMixedSize   = "mixed-size"       // pages of different sizes
	FeatMargShadow  = "margin-shadow"    // the one-page marginal text is painted twice, 1-2 pt apart (drop shadow / fake bold)
	FeatHdrBandEdge = "header-band-edge" // the running header's top edge is inside the top band, its baseline is not
	FeatCoverTitle  = "cover-title"      // header on every page but the first; the first page shows the same words elsewhere in the band
)

// DocOpts tunes GenDoc.
type DocOpts struct {
	NoRepeat bool                                  // nothing repeats inside the margin bands and no page-number pattern occurs there
	MinPages int                                   // 0 = 1
	MaxPages int                                   // 0 = 10
	Want     func(feature string, drawn bool) bool // nil = identity
}

// GenDoc draws a document.
func GenDoc(t *rapid.T, o DocOpts) Doc {
	want := func(f string, drawn bool) bool {
		if o.Want != nil {
			return o.Want(f, drawn)
		}
		return drawn
	}
	pct := func(label string, p int) bool { return rapid.IntRange(0, 99).Draw(t, label) >= 100-p }
	feat := map[string]bool{}

	minP, maxP := o.MinPages, o.MaxPages
	if minP == 0 {
		minP = 1
	}
	if maxP == 0 {
		maxP = 10
	}
	n := rapid.IntRange(minP, maxP).Draw(t, "pages")
	dims := rapid.SampledFrom([][2]float64{{612, 792}, {595, 842}, {792, 612}}).Draw(t, "dims")
	W, H := dims[0], dims[1]
	mx := float64(rapid.IntRange(40, 80).Draw(t, "marginX"))
	size := rapid.SampledFrom([]float64{9, 10, 11, 12}).Draw(t, "bodySize")
	top := float64(rapid.IntRange(int(BodyClear), 110).Draw(t, "marginTop"))
	bot := float64(rapid.IntRange(int(BodyClear), 110).Draw(t, "marginBottom"))

	d := Doc{Header: "none", Footer: "none", PageNo: "none"}
	if !o.NoRepeat {
		d.Header = rapid.SampledFrom([]string{"none", "every", "every", "oddeven", "skipfirst"}).Draw(t, "header")
		d.Footer = rapid.SampledFrom([]string{"none", "none", "every", "oddeven"}).Draw(t, "footer")
		d.PageNo = rapid.SampledFrom([]string{"none", "fixed", "fixed", "alternate"}).Draw(t, "pageNo")
	}
	hs := rapid.SampledFrom([]float64{8, 9, 10}).Draw(t, "marginalSize") // size of all marginal text
	a := Advance * hs

	// running texts: tokens numbered from 900000 so they never collide with body tokens
	mk := 900000
	mtok := func(nr int, alpha string) string { mk++; return Token(mk, nr, alpha) }
	phrase := func(label string, digits bool) []string {
		nw := rapid.IntRange(1, 3).Draw(t, label+"Words")
		var ws []string
		for i := 0; i < nw; i++ {
			ws = append(ws, mtok(rapid.IntRange(3, 8).Draw(t, label+"Len"), rapid.SampledFrom([]string{Lower, Upper}).Draw(t, label+"Alpha")))
		}
		if digits {
			ws = append(ws, strconv.Itoa(rapid.IntRange(1990, 2030).Draw(t, label+"Year")))
		}
		return ws
	}
	hdrDigits := d.Header != "none" && want(FeatHdrDigits, pct("headerDigits", 20))
	if hdrDigits {
		feat[FeatHdrDigits] = true
	}
	var hdr, ftr [2][]string // [odd/even]
	if d.Header != "none" {
		d.HeaderForm = rapid.SampledFrom([]string{"frag", "frag", "words"}).Draw(t, "headerForm")
		hdr[0] = phrase("header", hdrDigits)
		hdr[1] = hdr[0]
		if d.Header == "oddeven" {
			hdr[1] = phrase("headerEven", false)
		}
	}
	d.HeaderRunNo = d.Header != "none" && !hdrDigits && pct("headerRunNo", 12)
	if d.Footer != "none" {
		d.FooterForm = rapid.SampledFrom([]string{"frag", "frag", "words"}).Draw(t, "footerForm")
		ftr[0] = phrase("footer", false)
		ftr[1] = ftr[0]
		if d.Footer == "oddeven" {
			ftr[1] = phrase("footerEven", false)
		}
	}
	// vertical places inside the bands. Top band: the TOP of a fragment is less than 72 pt below the page top;
	// bottom band: the BASELINE is less than 72 pt above the page bottom (how tabula documents its regions).
	// Two rows per band, 14 pt apart, both well inside the band and clear of the 72..80 pt no-man's-land.
	topRow := func(r int) float64 { return H - float64(24+14*r) - hs } // top edge 24 / 38 pt below the page top
	botRow := func(r int) float64 { return float64(44 - 14*r) }        // baseline 44 / 30 pt above the page bottom
	// the inner edge of the top band: "top of the fragment less than 72 pt below the page top" also holds for a
	// header whose baseline lies deeper than that (jitter at most 1 pt: k >= 3 keeps the top edge inside)
	hdrAtEdge := d.Header != "none" && want(FeatHdrBandEdge, pct("headerAtBandEdge", 20))
	hdrEdgeK := float64(rapid.IntRange(3, 7).Draw(t, "headerEdgeK"))
	if hdrAtEdge {
		feat[FeatHdrBandEdge] = true
	}
	hdrAlign := rapid.SampledFrom([]string{"left", "center", "right"}).Draw(t, "headerAlign")
	ftrAlign := rapid.SampledFrom([]string{"left", "center"}).Draw(t, "footerAlign")
	if d.PageNo != "none" {
		d.PageNoStyle = rapid.SampledFrom(PageNoStyles).Draw(t, "pageNoStyle")
		d.PageNoAt = rapid.SampledFrom([]string{"bottom", "bottom", "top"}).Draw(t, "pageNoAt")
		d.PageNoCase = rapid.SampledFrom([]string{"", "", "", "upper", "title"}).Draw(t, "pageNoCase")
	}
	pnAlign := rapid.SampledFrom([]string{"center", "right", "left"}).Draw(t, "pageNoAlign")
	allDims := [][2]float64{{612, 792}, {595, 842}, {792, 612}, {842, 595}}
	mixed := n >= 2 && want(FeatMixedSize, pct("mixedSize", 15))
	if mixed {
		feat[FeatMixedSize] = true
		hdrAlign, ftrAlign, pnAlign = "left", "left", "left"
		if d.PageNo == "alternate" {
			d.PageNo = "fixed"
		}
	}
	pnStart := rapid.SampledFrom([]int{1, 1, 2, 7, 95, 98, 117}).Draw(t, "pageNoStart")
	jitter := rapid.SampledFrom([]float64{0, 0, 0.5, 1}).Draw(t, "jitter") // producers round positions differently from page to page
	margNum := d.PageNo != "none" && want(FeatMargNum, pct("marginNumeric", 15))
	margNumText := strconv.Itoa(rapid.IntRange(1990, 2030).Draw(t, "marginYear"))
	if margNum {
		feat[FeatMargNum] = true
	}

	// body lines repeated on every page (table header, watermark line ...)
	repeatBody := n >= 2 && want(FeatBodyRepeat, pct("bodyRepeat", 30))
	var repWords []string
	repNumeric := false
	if repeatBody {
		feat[FeatBodyRepeat] = true
		repNumeric = pct("bodyRepeatNumeric", 40)
		if repNumeric {
			repWords = []string{strconv.Itoa(rapid.IntRange(1, 2999).Draw(t, "bodyRepeatNumber"))}
		} else {
			repWords = phrase("bodyRepeat", false)
		}
	}
	repAtEdge := rapid.SampledFrom([]string{"top", "bottom"}).Draw(t, "bodyRepeatAt")

	tokenBase := 0
	for i := 0; i < n; i++ {
		if mixed {
			dims = rapid.SampledFrom(allDims).Draw(t, "pageDims")
			W, H = dims[0], dims[1]
		}
		// the body: an ordinary light page whose text keeps BodyClear from both edges. A repeated line or an
		// edge numeric line takes one line of room at the respective end.
		rowH := r2(size * 1.5)
		resTop, resBot := 0.0, 0.0
		if repeatBody {
			if repAtEdge == "top" {
				resTop += rowH
			} else {
				resBot += rowH
			}
		}
		numEdge := ""
		if want(FeatBodyNumEdge, pct("bodyNumEdge", 35)) {
			numEdge = rapid.SampledFrom([]string{"bottom", "bottom", "top"}).Draw(t, "bodyNumEdgeAt")
			feat[FeatBodyNumEdge] = true
			if numEdge == "top" {
				resTop += rowH
			} else {
				resBot += rowH
			}
		}
		p := Page{}
		g := &gen{t: t, p: &p, k: tokenBase, feat: map[string]bool{}, o: Opts{Light: true, NoTransform: true, NoExtras: true, NoChar: true,
			MaxCols: 2, Dims: dims, MarginX: mx, Top: top + resTop, Bottom: bot + resBot, BodySize: size}}
		genBody(g)
		tokenBase = g.k
		ln := g.ln
		add := func(text string, x, y, s float64, role string) {
			p.Frags = append(p.Frags, Frag{T: text, X: r2(x), Y: r2(y), W: r2(Advance * s * float64(runeLen(text))), S: s, Role: role, Col: -1, Ln: ln})
		}
		// lines at the very edge of the body band: first baseline at H-top-size (top edge exactly `top` below the
		// page top, >= 80), last baseline exactly `bot` above the page bottom (>= 80)
		yEdgeTop, yEdgeBot := H-top-size, bot
		if repeatBody {
			ln++
			y := yEdgeBot
			if repAtEdge == "top" {
				y = yEdgeTop
				yEdgeTop -= rowH
			} else {
				yEdgeBot += rowH
			}
			role := RoleBodyRep
			add(strings.Join(repWords, " "), mx, y, size, role)
		}
		if numEdge != "" {
			ln++
			y := yEdgeBot
			if numEdge == "top" {
				y = yEdgeTop
			}
			// a number of its own on a body line: a year, a table cell, a quantity - or body text that happens to
			// read like a page number ("page 12", "3/4") or like the running header
			num := strconv.Itoa(rapid.IntRange(1, 2999).Draw(t, "bodyNumber"))
			switch rapid.SampledFrom([]string{"number", "number", "pattern", "header"}).Draw(t, "bodyEdgeText") {
			case "pattern":
				num = FormatPageNo(rapid.SampledFrom(PageNoStyles).Draw(t, "bodyPattern"), rapid.IntRange(1, 300).Draw(t, "bodyPatternNo"), rapid.IntRange(1, 300).Draw(t, "bodyPatternOf"))
			case "header":
				if d.Header != "none" {
					num = strings.Join(hdr[i%2], " ")
				}
			}
			room := int(W - 2*mx - Advance*size*float64(runeLen(num)))
			if room < 0 {
				room = 0
			}
			x := mx + float64(rapid.IntRange(0, room).Draw(t, "bodyNumberX"))
			add(num, x, y, size, RoleNum)
		}

		// marginal text
		var marg []Frag
		madd := func(ws []string, form, align string, y float64, role string, dx float64) {
			ln++
			nat := natural(ws, hs)
			x := mx
			switch align {
			case "center":
				x = (W - nat) / 2
			case "right":
				x = W - mx - nat
			}
			x += dx
			if form == "frag" {
				marg = append(marg, Frag{T: strings.Join(ws, " "), X: r2(x), Y: r2(y), W: r2(nat), S: hs, Role: role, Col: -1, Ln: ln})
				return
			}
			for _, w := range ws {
				ww := a * float64(runeLen(w))
				marg = append(marg, Frag{T: w, X: r2(x), Y: r2(y), W: r2(ww), S: hs, Role: role, Col: -1, Ln: ln})
				x += ww + a
			}
		}
		jit := 0.0
		if i%3 == 1 {
			jit = jitter
		} else if i%3 == 2 {
			jit = -jitter
		}
		odd := i % 2
		if d.Header != "none" {
			al := hdrAlign
			if d.Header == "oddeven" && al != "center" && odd == 1 {
				al = map[string]string{"left": "right", "right": "left"}[al]
			}
			ws := hdr[odd]
			if d.HeaderRunNo {
				ws = append(append([]string{}, ws...), strconv.Itoa(pnStart+i))
			}
			if d.Header != "skipfirst" || i > 0 {
				hy := topRow(0)
				if hdrAtEdge {
					hy = H - (Margin - hdrEdgeK) - hs // top edge Margin-k below the page top, baseline k closer to the body
				}
				madd(ws, d.HeaderForm, al, hy+jit, RoleHeader, jit)
			} else if !d.HeaderRunNo && !mixed && n >= 3 && want(FeatCoverTitle, pct("coverTitle", 40)) {
				// the cover shows the title that later runs along the top of the pages, in the same band but at
				// another place: it does not repeat at that position, so it stays
				feat[FeatCoverTitle] = true
				other := "center"
				if al == "center" {
					other = "left"
				}
				madd(ws, "frag", other, topRow(0), RoleMargin, 0)
			}
		}
		if d.Footer != "none" {
			madd(ftr[odd], d.FooterForm, ftrAlign, botRow(0)+jit, RoleFooter, jit)
		}
		if d.PageNo != "none" {
			al := pnAlign
			if d.PageNo == "alternate" {
				al = []string{"right", "left"}[odd]
			}
			y := botRow(1)
			if d.PageNoAt == "top" {
				y = topRow(1)
			}
			label := FormatPageNo(d.PageNoStyle, pnStart+i, pnStart+n-1)
			switch d.PageNoCase {
			case "upper":
				label = strings.ToUpper(label)
			case "title":
				label = strings.Title(label)
			}
			madd([]string{label}, "frag", al, y+jit, RolePageNo, 0)
			if margNum {
				// a constant number (a year) in the same band, on the same row, at another place
				al2 := "left"
				if al == "left" {
					al2 = "right"
				}
				madd([]string{margNumText}, "frag", al2, y, RoleMargNum, 0)
			}
		}
		uniqPct := 20
		if o.NoRepeat {
			uniqPct = 60
		}
		if want(FeatMargUnique, pct("marginUnique", uniqPct)) {
			// something inside a band that occurs on this page only (a stamp, a running title that changes on every page)
			feat[FeatMargUnique] = true
			y := topRow(2)
			if rapid.Bool().Draw(t, "marginUniqueBottom") {
				y = botRow(2)
			}
			uw := []string{mtok(rapid.IntRange(3, 9).Draw(t, "marginUniqueLen"), Lower)}
			ual := rapid.SampledFrom([]string{"left", "center", "right"}).Draw(t, "marginUniqueAlign")
			madd(uw, "frag", ual, y, RoleMargin, 0)
			if want(FeatMargShadow, pct("marginShadow", 30)) {
				// the same words painted a second time, slightly offset: still text that occurs on this page only
				feat[FeatMargShadow] = true
				ln--
				madd(uw, "frag", ual, y-rapid.SampledFrom([]float64{0, 1, 1.5}).Draw(t, "shadowDy"), RoleMargin, rapid.SampledFrom([]float64{1, 1.5, 2}).Draw(t, "shadowDx"))
			}
		}
		// where the marginal text sits in the stream: before the body, after it, or in visual order (header, body, footer)
		switch rapid.SampledFrom([]string{"first", "last", "visual"}).Draw(t, "marginalOrder") {
		case "first":
			p.Frags = append(append([]Frag{}, marg...), p.Frags...)
		case "last":
			p.Frags = append(p.Frags, marg...)
		default:
			var hi, lo []Frag
			for _, f := range marg {
				if f.Y > H/2 {
					hi = append(hi, f)
				} else {
					lo = append(lo, f)
				}
			}
			p.Frags = append(append(hi, p.Frags...), lo...)
		}
		// DESIGN.md §8: character-level documents are outside the domain of the header/footer properties. tabula
		// treats a page whose average fragment length is <= 2 runes as character-level, so every page carries
		// enough ordinary words to stay clearly above that (average >= 3): filler words go to the foot of the body.
		runes, cnt := 0, 0
		for _, f := range p.Frags {
			runes += runeLen(f.T)
			cnt++
		}
		fy := r2(bot + resBot + 2*rowH) // the light body is set from the top of the band; its lower end is free
		fx := mx
		for runes < 3*cnt {
			g.k++
			w := Token(g.k, 9, Lower)
			ww := Advance * size * 9
			if fx+ww > W-mx {
				fx = mx
				fy -= r2(size * 1.3)
			}
			ln++
			p.Frags = append(p.Frags, Frag{T: w, X: r2(fx), Y: fy, W: r2(ww), S: size, Role: RoleBody, Col: -1, Ln: ln})
			fx += ww + Advance*size
			runes += 9
			cnt++
		}
		tokenBase = g.k
		p.Feat = nil
		d.Pages = append(d.Pages, p)
	}
	for f := range feat {
		d.Feat = append(d.Feat, f)
	}
	sort.Strings(d.Feat)
	return d
}

// Labels returns evidence labels of a document.
func (d Doc) Labels() []string {
	ls := []string{"header:" + d.Header, "footer:" + d.Footer, "pageno:" + d.PageNo}
	switch n := len(d.Pages); {
	case n == 1:
		ls = append(ls, "pages:1")
	case n == 2:
		ls = append(ls, "pages:2")
	case n <= 5:
		ls = append(ls, "pages:3-5")
	default:
		ls = append(ls, "pages:6-10")
	}
	if d.PageNo != "none" {
		ls = append(ls, "pnstyle:"+d.PageNoStyle, "pnat:"+d.PageNoAt)
	}
	if d.Header != "none" {
		ls = append(ls, "hdrform:"+d.HeaderForm)
		if d.HeaderRunNo {
			ls = append(ls, "hdr:running-number")
		}
	}
	for _, f := range d.Feat {
		ls = append(ls, "feat:"+f)
	}
	return ls
}

// InBand reports whether a fragment lies in the top or bottom margin band of a
// page of height h: its top edge is less than Margin below the page top, or its
// baseline is less than Margin above the page bottom.
func (f Frag) InBand(h float64) bool {
	return h-(f.Y+f.S) < Margin || f.Y < Margin
}

// InBody reports whether a fragment keeps BodyClear from both page edges.
func (f Frag) InBody(h float64) bool {
	return f.Y >= BodyClear && f.Y+f.S <= h-BodyClear
}

func (d Doc) String() string {
	return fmt.Sprintf("doc{%d pages header=%s footer=%s pageno=%s/%s}", len(d.Pages), d.Header, d.Footer, d.PageNo, d.PageNoStyle)
}
