// Package frag generates synthetic page layouts as lists of positioned text
// fragments: the input of tabula's layout detectors (package layout works on
// []text.TextFragment), and — because the model is a plain JSON-serialisable
// description of "string S in font size F at baseline (X,Y)" — something a PDF
// writer can lower to a content stream later (one `BT /F s Tf 1 0 0 1 x y Tm
// (S) Tj ET` per fragment).
//
// Geometry contract (what a PDF lowering has to reproduce):
//
//   - design space is the default PDF user space: origin bottom-left, Y up,
//     unit = 1 pt; Frag.Y is the baseline, Frag.X the left edge of the first
//     glyph, Frag.S the font size, which is also the fragment height (tabula's
//     text.Extractor reports Height = FontSize = device font size);
//   - every glyph advances Advance (0.6) em, i.e. the font is Courier /
//     Courier-Bold (Frag.Bold) or any font whose widths are all 600/1000, so
//     Frag.W == Advance * S * number-of-runes always holds (W is stored only
//     for readability of replay files);
//   - Page.Scale / Page.ScaleBox / Page.FlipY describe a transformation applied
//     on top of the design space (a `s 0 0 s 0 0 cm`, a page box scaled along
//     or not, a coordinate system whose Y grows downwards). Page.Fragments()
//     applies it; Page.Box() returns the page size that goes with it.
//
// Every random choice is a rapid draw. Tokens are unique per page (per
// document for GenDoc body text), so a multiset comparison of fragment
// identities also proves "exactly once".
package frag

import (
	"fmt"
	"math"
	"sort"
	"strconv"
	"strings"
	"unicode"

	"github.com/tsawler/tabula/text"
	"pgregory.net/rapid"
)

// Advance is the glyph advance in em of every generated fragment (Courier).
const Advance = 0.6

// Frag is one positioned fragment in design space.
type Frag struct {
	T    string  `json:"t"`           // text
	X    float64 `json:"x"`           // left edge
	Y    float64 `json:"y"`           // baseline (Y up)
	W    float64 `json:"w"`           // == Advance*S*runes(T)
	S    float64 `json:"s"`           // font size == height
	Bold bool    `json:"b,omitempty"` // Courier-Bold
	Role string  `json:"r,omitempty"` // see Role* constants
	Col  int     `json:"c"`           // column index inside its band; -1 = spanning or outside the columns
	Ln   int     `json:"l"`           // logical line id on the page: fragments set on one baseline as one line share it
}

// Roles of fragments.
const (
	RoleBody    = "body"    // paragraph text
	RoleHead    = "head"    // in-column heading (larger size)
	RoleTitle   = "title"   // spanning title
	RoleBullet  = "bullet"  // list prefix that is a fragment of its own
	RoleItem    = "item"    // list item text
	RoleRTL     = "rtl"     // right-to-left text
	RoleNum     = "num"     // purely numeric body line
	RoleStray   = "stray"   // a word outside every column
	RoleNote    = "note"    // narrow margin-note column
	RoleLone    = "lone"    // a lone glyph on a line of its own
	RoleSuper   = "super"   // raised footnote mark
	RoleGutter  = "gutter"  // word inside a gutter
	RoleBodyRep = "bodyrep" // body line repeated on several pages of a Doc
	RoleHeader  = "header"  // running header (Doc)
	RoleFooter  = "footer"  // running footer text (Doc)
	RolePageNo  = "pageno"  // running page number (Doc)
	RoleMargin  = "margin"  // non-repeating text inside a margin band (Doc)
	RoleMargNum = "margnum" // constant numeric text inside a margin band (Doc)
)

// Page is one synthetic page.
type Page struct {
	W        float64  `json:"w"`
	H        float64  `json:"h"`
	Frags    []Frag   `json:"frags"`               // stream order, design space
	Scale    float64  `json:"scale,omitempty"`     // 0 or 1 = none
	ScaleBox bool     `json:"scale_box,omitempty"` // the page box is scaled as well
	FlipY    bool     `json:"flip_y,omitempty"`    // reported Y = H - Y (Y grows downwards)
	Cols     []int    `json:"cols,omitempty"`      // column count per band
	Feat     []string `json:"feat,omitempty"`      // generator features used on this page
}

// Box returns the page width and height that belong to Fragments().
func (p Page) Box() (w, h float64) {
	if p.ScaleBox && p.Scale > 0 {
		return r2(p.W * p.Scale), r2(p.H * p.Scale)
	}
	return p.W, p.H
}

// DirOf classifies a string the way a bidi-unaware consumer would: by
// counting strong characters (Hebrew/Arabic = RTL, other letters = LTR;
// digits, punctuation, symbols and spaces are neutral).
func DirOf(s string) text.Direction {
	l, r := 0, 0
	for _, c := range s {
		switch {
		case c >= 0x0590 && c <= 0x06FF:
			if unicode.IsLetter(c) {
				r++
			}
		case unicode.IsLetter(c):
			l++
		}
	}
	switch {
	case l == 0 && r == 0:
		return text.Neutral
	case r > l:
		return text.RTL
	}
	return text.LTR
}

// Fragments lowers the page to tabula's fragment type.
func (p Page) Fragments() []text.TextFragment {
	sc := p.Scale
	if sc <= 0 {
		sc = 1
	}
	out := make([]text.TextFragment, 0, len(p.Frags))
	for _, f := range p.Frags {
		y := f.Y
		if p.FlipY {
			y = p.H - f.Y
		}
		name := "Courier"
		if f.Bold {
			name = "Courier-Bold"
		}
		out = append(out, text.TextFragment{
			Text: f.T, X: r3(f.X * sc), Y: r3(y * sc), Width: r3(f.W * sc), Height: r3(f.S * sc),
			FontName: name, FontSize: r3(f.S * sc), Direction: DirOf(f.T),
		})
	}
	return out
}

// Has reports whether the page used a generator feature.
func (p Page) Has(feat string) bool {
	for _, f := range p.Feat {
		if f == feat {
			return true
		}
	}
	return false
}

func r2(v float64) float64 { return math.Round(v*100) / 100 }
func r3(v float64) float64 { return math.Round(v*1000) / 1000 }

// ---------------------------------------------------------------------------
// tokens

// Alphabets for Token.
const (
	Lower  = "lower"
	Upper  = "upper"
	Hebrew = "hebrew"
	Digits = "digits"
)

// Token returns the k-th token of an alphabet, n runes long (longer when k
// needs more digits). Tokens of one alphabet are pairwise different for
// different k whatever n is: the decimal digits of k are written with one set
// of letters and the padding in front of them with a disjoint set.
func Token(k, n int, alphabet string) string {
	var d0, p0 rune
	var np int
	switch alphabet {
	case Upper:
		d0, p0, np = 'A', 'K', 16
	case Hebrew:
		d0, p0, np = 0x05D0, 0x05DA, 17 // alef.. for digits, final kaf..tav for padding
	case Digits:
		s := strconv.Itoa(k)
		for len(s) < n-1 {
			s = "0" + s
		}
		return "1" + s // 1, zero padding, k: distinct k give distinct numbers
	default:
		d0, p0, np = 'a', 'k', 16
	}
	ds := strconv.Itoa(k)
	var sb strings.Builder
	for i := 0; i < n-len(ds); i++ {
		sb.WriteRune(p0 + rune((k*7+i*3)%np))
	}
	for _, c := range ds {
		sb.WriteRune(d0 + (c - '0'))
	}
	return sb.String()
}

// ---------------------------------------------------------------------------
// options

// Features that can be switched off through Opts.Want (known-finding gates).
const (
	FeatMultiCol = "multicol"  // >= 2 columns in a band
	FeatTitle    = "title"     // spanning title
	FeatHeading  = "heading"   // in-column heading of larger size
	FeatList     = "list"      // list items
	FeatNested   = "nested"    // nested list items
	FeatRTL      = "rtl"       // right-to-left paragraph
	FeatNumeric  = "numeric"   // purely numeric line
	FeatStray    = "stray"     // word outside every column
	FeatNoteCol  = "notecol"   // narrow (< 50 pt) margin-note column
	FeatLone     = "lone"      // lone glyph narrower than 5 pt on its own baseline
	FeatDup      = "dup"       // overlapping duplicate layer
	FeatFlip     = "flipy"     // Y grows downwards
	FeatScale    = "scale"     // scaled coordinates
	FeatChar     = "charlevel" // one fragment per glyph
	FeatTwoBands = "twobands"  // two vertically stacked column sets
	FeatSuper    = "super"     // raised, smaller footnote mark directly after a word
	FeatOverflow = "overflow"  // enlarged coordinates inside an unscaled page box: part of the text lies outside the page
	FeatGutter   = "gutter"    // short word inside the gutter between two columns
)

// Opts tunes GenPage.
type Opts struct {
	MaxCols     int                                   // 0 = 4
	Light       bool                                  // fewer lines per column (multi-page documents)
	NoTransform bool                                  // never flip or scale
	NoExtras    bool                                  // no stray words, note columns, lone glyphs, duplicates
	NoChar      bool                                  // no char-level fragmentation
	Want        func(feature string, drawn bool) bool // nil = identity; lets a check switch a feature off
	TokenBase   int                                   // first token number (documents keep body tokens unique over pages)
	Dims        [2]float64                            // 0 = drawn
	MarginX     float64                               // 0 = drawn
	Top, Bottom float64                               // 0 = drawn; distance of the body from the page edges, >= 80
	BodySize    float64                               // 0 = drawn
}

type gen struct {
	t          *rapid.T
	o          Opts
	p          *Page
	k          int // token counter
	ln         int // logical line counter
	size       float64
	lead       float64
	mode       string // word | wordsp | line | char | kern | mixed
	just       bool
	rtlLogical bool
	spaceFrags bool
	feat       map[string]bool
	gutters    [][4]float64 // x0, x1, yBottom, yTop of every gutter at least 24 pt wide
}

func (g *gen) want(f string, drawn bool) bool {
	if g.o.Want != nil {
		drawn = g.o.Want(f, drawn)
	}
	return drawn
}

func (g *gen) use(f string) { g.feat[f] = true }

func (g *gen) pct(label string, p int) bool {
	return rapid.IntRange(0, 99).Draw(g.t, label) >= 100-p // 0 (what rapid shrinks towards) = feature off
}

func (g *gen) tok(n int, alphabet string) string {
	g.k++
	return Token(g.k, n, alphabet)
}

// words draws as many tokens as fit into avail points at the given size (at
// least one, at most max); word lengths derive from one drawn seed.
func (g *gen) words(avail, size float64, max int, alphabet string) []string {
	a := Advance * size
	seed := rapid.Uint32().Draw(g.t, "wordSeed")
	var ws []string
	used := 0.0
	for i := 0; len(ws) < max; i++ {
		n := 3 + int((seed>>(uint(i%8)*4))&0xF)%7 // 3..9
		if alphabet == Hebrew {
			n = 2 + int((seed>>(uint(i%8)*4))&0xF)%5 // 2..6
		}
		// a token is longer than asked for when its number needs more digits: measure the token itself
		w := Token(g.k+1, n, alphabet)
		need := float64(runeLen(w)) * a
		if len(ws) > 0 {
			need += a
		}
		if used+need > avail {
			if len(ws) == 0 {
				// narrower than the drawn word: use the shortest token there is (it may stick out of a very narrow column)
				ws = append(ws, g.tok(2, alphabet))
			}
			break
		}
		ws = append(ws, g.tok(n, alphabet))
		used += need
	}
	return ws
}

func runeLen(s string) int { return len([]rune(s)) }

func natural(ws []string, size float64) float64 {
	n := 0
	for _, w := range ws {
		n += runeLen(w)
	}
	return Advance * size * float64(n+len(ws)-1)
}

// setLine places words on one baseline inside [x0,x1] and appends the
// fragments to the page. align: left | right | center | justify.
func (g *gen) setLine(ws []string, x0, x1, y, size float64, align, role string, col int, bold bool) {
	if len(ws) == 0 {
		return
	}
	g.ln++
	a := Advance * size
	nat := natural(ws, size)
	gap := a
	x := x0
	switch align {
	case "right":
		x = x1 - nat
	case "center":
		x = x0 + (x1-x0-nat)/2
	case "justify":
		if len(ws) >= 2 && x1-x0-nat >= 0 && x1-x0-nat < 0.6*(x1-x0) {
			gap = a + (x1-x0-nat)/float64(len(ws)-1)
		}
	}
	if x < x0 {
		x = x0
	}
	mode := g.mode
	if mode == "mixed" {
		mode = rapid.SampledFrom([]string{"word", "wordsp", "line", "kern"}).Draw(g.t, "lineMode")
	}
	rtl := role == RoleRTL
	if mode == "line" && (gap != a || rtl) {
		mode = "word" // a single string cannot be justified; RTL lines are set word by word
	}
	add := func(t string, x float64) {
		g.p.Frags = append(g.p.Frags, Frag{T: t, X: r2(x), Y: r2(y), W: r2(a * float64(runeLen(t))), S: size, Bold: bold, Role: role, Col: col, Ln: g.ln})
	}
	if mode == "line" {
		add(strings.Join(ws, " "), x)
		return
	}
	// positions of the words in visual order
	type placed struct {
		w string
		x float64
	}
	var pl []placed
	if rtl {
		// first logical word at the right end
		xr := x + nat + float64(len(ws)-1)*(gap-a)
		if align == "right" || align == "justify" {
			xr = x1
		}
		for _, w := range ws {
			ww := a * float64(runeLen(w))
			pl = append(pl, placed{w, xr - ww})
			xr -= ww + gap
		}
		if !g.rtlLogical { // visual (left to right) stream order
			for i, j := 0, len(pl)-1; i < j; i, j = i+1, j-1 {
				pl[i], pl[j] = pl[j], pl[i]
			}
		}
	} else {
		for _, w := range ws {
			pl = append(pl, placed{w, x})
			x += a*float64(runeLen(w)) + gap
		}
	}
	for i, q := range pl {
		switch mode {
		case "wordsp":
			if i < len(pl)-1 && !rtl {
				add(q.w+" ", q.x)
			} else {
				add(q.w, q.x)
			}
		case "char":
			rs := []rune(q.w)
			for j, c := range rs {
				add(string(c), q.x+a*float64(j))
			}
			if g.spaceFrags && i < len(pl)-1 && !rtl {
				add(" ", q.x+a*float64(len(rs)))
			}
		case "kern":
			rs := []rune(q.w)
			if len(rs) >= 4 {
				cut := 1 + int(rapid.IntRange(0, len(rs)-2).Draw(g.t, "kernCut"))
				if cut >= len(rs) {
					cut = len(rs) - 1
				}
				add(string(rs[:cut]), q.x)
				add(string(rs[cut:]), q.x+a*float64(cut)) // abutting pieces, as a TJ array with a zero adjustment produces
			} else {
				add(q.w, q.x)
			}
		default:
			add(q.w, q.x)
		}
	}
}

// column fills [x0,x1] from yTop downwards to yBot with blocks.
func (g *gen) column(x0, x1, yTop, yBot float64, col int) {
	maxBlocks, maxLines := 4, 5
	if g.o.Light {
		maxBlocks, maxLines = 2, 3
	}
	if g.mode == "char" {
		maxBlocks, maxLines = 2, 3
	}
	nb := rapid.IntRange(1, maxBlocks).Draw(g.t, "blocks")
	y := yTop
	kinds := []string{"para", "para", "para", "heading", "list", "single", "rtl", "numeric"}
	for b := 0; b < nb; b++ {
		kind := rapid.SampledFrom(kinds).Draw(g.t, "blockKind")
		switch kind {
		case "heading":
			if !g.want(FeatHeading, true) {
				kind = "para"
			}
		case "list":
			if !g.want(FeatList, true) {
				kind = "para"
			}
		case "rtl":
			if !g.want(FeatRTL, true) {
				kind = "para"
			}
		case "numeric":
			if !g.want(FeatNumeric, true) {
				kind = "para"
			}
		}
		switch kind {
		case "para":
			n := rapid.IntRange(1, maxLines).Draw(g.t, "paraLines")
			indent := 0.0
			if g.pct("firstIndent", 25) {
				indent = 18
			}
			for i := 0; i < n; i++ {
				if y-g.size < yBot {
					return
				}
				y -= g.size
				lx := x0
				if i == 0 && x1-x0 > 80 {
					lx += indent
				}
				align := "left"
				if g.just && i < n-1 {
					align = "justify"
				}
				avail := x1 - lx
				max := 40
				if i == n-1 && n > 1 {
					max = rapid.IntRange(1, 4).Draw(g.t, "lastWords") // short last line
				} else if !g.just {
					avail *= float64(rapid.IntRange(70, 100).Draw(g.t, "ragged")) / 100
				}
				g.setLine(g.words(avail, g.size, max, Lower), lx, x1, y, g.size, align, RoleBody, col, false)
				if g.want(FeatSuper, g.pct("superscript", 8)) {
					// a footnote mark: 0.6 x size, raised by a third of the size, abutting the last word of the line
					last := g.p.Frags[len(g.p.Frags)-1]
					ss := r2(g.size * 0.6)
					if last.Ln == g.ln {
						g.p.Frags = append(g.p.Frags, Frag{T: strconv.Itoa(1 + g.k%9), X: r2(last.X + last.W), Y: r2(y + g.size*0.35), W: r2(Advance * ss), S: ss, Role: RoleSuper, Col: col, Ln: g.ln})
						g.use(FeatSuper)
					}
				}
				y -= g.lead - g.size
			}
		case "single":
			if y-g.size < yBot {
				return
			}
			y -= g.size
			g.setLine(g.words(x1-x0, g.size, 1, Lower), x0, x1, y, g.size, rapid.SampledFrom([]string{"left", "left", "center", "right"}).Draw(g.t, "singleAlign"), RoleBody, col, false)
			y -= g.lead - g.size
		case "numeric":
			if y-g.size < yBot {
				return
			}
			y -= g.size
			g.use(FeatNumeric)
			g.k++
			g.setLine([]string{Token(g.k, 4, Digits)}, x0, x1, y, g.size, rapid.SampledFrom([]string{"left", "center", "right"}).Draw(g.t, "numAlign"), RoleNum, col, false)
			y -= g.lead - g.size
		case "heading":
			hs := r2(g.size * rapid.SampledFrom([]float64{1.25, 1.5, 1.8}).Draw(g.t, "headScale"))
			y -= hs * 0.4 // extra space before a heading
			if y-hs < yBot {
				return
			}
			y -= hs
			g.use(FeatHeading)
			alpha := rapid.SampledFrom([]string{Upper, Lower}).Draw(g.t, "headAlpha")
			g.setLine(g.words(x1-x0, hs, rapid.IntRange(1, 4).Draw(g.t, "headWords"), alpha), x0, x1, y, hs, "left", RoleHead, col, g.pct("headBold", 60))
			y -= g.lead - g.size
		case "rtl":
			n := rapid.IntRange(1, 3).Draw(g.t, "rtlLines")
			g.use(FeatRTL)
			for i := 0; i < n; i++ {
				if y-g.size < yBot {
					return
				}
				y -= g.size
				max := 40
				if i == n-1 {
					max = rapid.IntRange(1, 5).Draw(g.t, "rtlLast")
				}
				ws := g.words(x1-x0, g.size, max, Hebrew)
				if len(ws) >= 3 && g.pct("rtlEndsInLatin", 35) {
					// a right-to-left line whose last word (at the reading end, i.e. leftmost) is a Latin name
					ws[len(ws)-1] = g.words(x1-x0, g.size, 1, Lower)[0]
				}
				g.setLine(ws, x0, x1, y, g.size, "right", RoleRTL, col, false)
				y -= g.lead - g.size
			}
		case "list":
			g.use(FeatList)
			items := rapid.IntRange(2, 4).Draw(g.t, "listItems")
			style := rapid.SampledFrom([]string{"•", "-", "*", "1.", "1)", "a.", "a)", "\uf0b7"}).Draw(g.t, "listStyle") // U+F0B7: the bullet of the Symbol font as Word-made files carry it (private use area)
			sep := g.pct("bulletOwnFragment", 60)
			for i := 0; i < items; i++ {
				level := 0
				if i > 0 && x1-x0 > 110 && g.want(FeatNested, g.pct("nestedItem", 30)) {
					level = 1
					g.use(FeatNested)
				}
				prefix := style
				switch style {
				case "1.", "1)":
					prefix = strconv.Itoa(i+1) + style[1:]
				case "a.", "a)":
					prefix = string(rune('a'+i)) + style[1:]
				}
				a := Advance * g.size
				px := x0 + float64(level)*18
				tx := px + a*float64(runeLen(prefix)+1)
				lines := rapid.IntRange(1, 2).Draw(g.t, "itemLines")
				for l := 0; l < lines; l++ {
					if y-g.size < yBot {
						return
					}
					y -= g.size
					max := 40
					if l == lines-1 {
						max = rapid.IntRange(1, 5).Draw(g.t, "itemLast")
					}
					ws := g.words(x1-tx, g.size, max, Lower)
					if l == 0 {
						if sep {
							g.setLine(ws, tx, x1, y, g.size, "left", RoleItem, col, false)
							// the prefix is a fragment of its own on the same logical line
							g.p.Frags = append(g.p.Frags, Frag{T: prefix, X: r2(px), Y: r2(y), W: r2(a * float64(runeLen(prefix))), S: g.size, Role: RoleBullet, Col: col, Ln: g.ln})
							// keep visual order inside the line: move the prefix in front of the item words
							n := len(g.p.Frags)
							first := n - 1
							for first > 0 && g.p.Frags[first-1].Ln == g.ln {
								first--
							}
							pf := g.p.Frags[n-1]
							copy(g.p.Frags[first+1:n], g.p.Frags[first:n-1])
							g.p.Frags[first] = pf
						} else {
							ws[0] = prefix + " " + ws[0]
							g.setLineNoSplit(ws, px, x1, y, g.size, RoleItem, col)
						}
					} else {
						g.setLine(ws, tx, x1, y, g.size, "left", RoleItem, col, false)
					}
					y -= g.lead - g.size
				}
			}
		}
		y -= g.lead * float64(rapid.IntRange(3, 12).Draw(g.t, "blockGap")) / 10
	}
}

// setLineNoSplit sets a line word by word (or as one string) whatever the page
// mode is; used where the first "word" contains a space (merged list prefix).
func (g *gen) setLineNoSplit(ws []string, x0, x1, y, size float64, role string, col int) {
	save := g.mode
	if g.mode != "line" {
		g.mode = "word"
	}
	g.setLine(ws, x0, x1, y, size, "left", role, col, false)
	g.mode = save
}

// GenPage draws one page.
func GenPage(t *rapid.T, o Opts) Page {
	p := Page{}
	g := &gen{t: t, o: o, p: &p, k: o.TokenBase, feat: map[string]bool{}}
	genBody(g)
	finish(g)
	return p
}

func genBody(g *gen) {
	t, o, p := g.t, g.o, g.p
	dims := o.Dims
	if dims[0] == 0 {
		// Letter, A4, Letter landscape, A5: ordinary MediaBox sizes (ISO 32000-1 7.7.3.3 allows any rectangle)
		dims = rapid.SampledFrom([][2]float64{{612, 792}, {595, 842}, {792, 612}, {420, 595}}).Draw(t, "dims")
	}
	p.W, p.H = dims[0], dims[1]
	mx := o.MarginX
	if mx == 0 {
		mx = float64(rapid.IntRange(36, 90).Draw(t, "marginX"))
	}
	top, bot := o.Top, o.Bottom
	if top == 0 {
		top = float64(rapid.IntRange(80, 120).Draw(t, "marginTop")) // body >= 80 pt from the page edges (DESIGN.md §8)
	}
	if bot == 0 {
		bot = float64(rapid.IntRange(80, 120).Draw(t, "marginBottom"))
	}
	g.size = o.BodySize
	if g.size == 0 {
		g.size = rapid.SampledFrom([]float64{7, 8, 9, 10, 11, 12}).Draw(t, "bodySize")
	}
	g.lead = r2(g.size * rapid.SampledFrom([]float64{1.15, 1.2, 1.35, 1.5}).Draw(t, "leading"))
	modes := []string{"word", "word", "word", "wordsp", "line", "kern", "mixed", "char"}
	g.mode = rapid.SampledFrom(modes).Draw(t, "fragMode")
	if g.mode == "char" && (o.NoChar || !g.want(FeatChar, true)) {
		g.mode = "word"
	}
	if g.mode == "char" {
		g.use(FeatChar)
		g.spaceFrags = rapid.Bool().Draw(t, "spaceFragments")
	}
	g.just = rapid.Bool().Draw(t, "justified")
	g.rtlLogical = rapid.Bool().Draw(t, "rtlLogicalOrder")

	bx0, bx1 := mx, p.W-mx
	// optional narrow margin-note column at the right or left of the text area
	noteSide := ""
	noteW := 0.0
	if !o.NoExtras && g.want(FeatNoteCol, g.pct("noteCol", 12)) {
		noteSide = rapid.SampledFrom([]string{"right", "left"}).Draw(t, "noteSide")
		noteW = float64(rapid.IntRange(28, 48).Draw(t, "noteWidth"))
		sep := float64(rapid.IntRange(22, 36).Draw(t, "noteSep"))
		if noteSide == "right" {
			bx1 -= noteW + sep
		} else {
			bx0 += noteW + sep
		}
		g.use(FeatNoteCol)
	}

	nbands := 1
	if !o.Light && g.want(FeatTwoBands, g.pct("twoBands", 25)) {
		nbands = 2
		g.use(FeatTwoBands)
	}
	yTop := p.H - top
	bandH := (p.H - top - bot - float64(nbands-1)*30) / float64(nbands)
	for b := 0; b < nbands; b++ {
		yBot := yTop - bandH
		y := yTop
		if g.want(FeatTitle, g.pct("title", 35)) {
			ts := r2(g.size * rapid.SampledFrom([]float64{1.4, 1.8, 2.2}).Draw(t, "titleScale"))
			nl := rapid.IntRange(1, 2).Draw(t, "titleLines")
			for i := 0; i < nl && y-ts > yBot+2*g.lead; i++ {
				y -= ts
				ws := g.words((bx1-bx0)*0.9, ts, rapid.IntRange(2, 6).Draw(t, "titleWords"), rapid.SampledFrom([]string{Upper, Lower}).Draw(t, "titleAlpha"))
				g.setLine(ws, bx0, bx1, y, ts, rapid.SampledFrom([]string{"center", "center", "left"}).Draw(t, "titleAlign"), RoleTitle, -1, true)
				y -= ts * 0.3
				g.use(FeatTitle)
			}
			y -= float64(rapid.IntRange(22, 40).Draw(t, "titleGap")) // >= 20 pt of white below a spanning title
		}
		maxc := o.MaxCols
		if maxc == 0 {
			maxc = 4
		}
		nc := rapid.IntRange(1, maxc).Draw(t, "cols")
		if nc > 1 && !g.want(FeatMultiCol, true) {
			nc = 1
		}
		gut := float64(rapid.SampledFrom([]int{12, 18, 24, 30, 40}).Draw(t, "gutter"))
		for nc > 1 && (bx1-bx0-float64(nc-1)*gut)/float64(nc) < 45 {
			nc--
		}
		if nc > 1 {
			g.use(FeatMultiCol)
		}
		cw := (bx1 - bx0 - float64(nc-1)*gut) / float64(nc)
		p.Cols = append(p.Cols, nc)
		for c := 0; c < nc; c++ {
			x0 := bx0 + float64(c)*(cw+gut)
			g.column(r2(x0), r2(x0+cw), y, yBot, c)
			if c > 0 && gut >= 24 {
				g.gutters = append(g.gutters, [4]float64{x0 - gut, x0, yBot, y})
			}
		}
		yTop = yBot - 30
	}

	// margin notes: short words on baselines of their own, all inside the narrow column
	if noteSide != "" {
		nx0 := p.W - mx - noteW
		if noteSide == "left" {
			nx0 = mx
		}
		n := rapid.IntRange(1, 6).Draw(t, "notes")
		ns := g.size
		if ns > 8 {
			ns = 8
		}
		y := p.H - top - float64(rapid.IntRange(0, 60).Draw(t, "noteStart"))
		for i := 0; i < n && y-ns >= bot; i++ {
			y -= ns
			g.setLine(g.words(noteW, ns, 1, Lower), nx0, nx0+noteW, y, ns, "left", RoleNote, -1, false)
			y -= float64(rapid.IntRange(8, 60).Draw(t, "noteGap"))
		}
	}
}

// finish adds the page-level extras and transformations.
func finish(g *gen) {
	t, o, p := g.t, g.o, g.p
	if !o.NoExtras && len(p.Frags) > 0 {
		// stray word beside the columns, on the baseline of an existing line
		if g.want(FeatStray, g.pct("stray", 15)) {
			ref := p.Frags[rapid.IntRange(0, len(p.Frags)-1).Draw(t, "strayRef")]
			minX, maxX := p.W, 0.0
			for _, f := range p.Frags {
				if f.X < minX {
					minX = f.X
				}
				if f.X+f.W > maxX {
					maxX = f.X + f.W
				}
			}
			word := g.tok(rapid.IntRange(3, 6).Draw(t, "strayLen"), Lower)
			w := Advance * g.size * float64(runeLen(word))
			gap := float64(rapid.IntRange(8, 40).Draw(t, "strayGap"))
			right := rapid.Bool().Draw(t, "strayRight")
			x := maxX + gap
			if !right {
				x = minX - gap - w
			}
			if x >= 4 && x+w <= p.W-4 && ref.Y+g.size <= p.H-BodyClear {
				g.ln++
				p.Frags = append(p.Frags, Frag{T: word, X: r2(x), Y: ref.Y, W: r2(w), S: g.size, Role: RoleStray, Col: -1, Ln: g.ln})
				g.use(FeatStray)
			}
		}
		// a short word centred in a gutter (a label on a column rule, a fold mark): 2-3 glyphs of 6 pt type
		if len(g.gutters) > 0 && g.want(FeatGutter, g.pct("gutterWord", 10)) {
			gt := g.gutters[rapid.IntRange(0, len(g.gutters)-1).Draw(t, "gutterOf")]
			word := g.tok(rapid.IntRange(2, 3).Draw(t, "gutterLen"), Lower)
			w := Advance * 6 * float64(runeLen(word))
			y := gt[2] + float64(rapid.IntRange(0, 100).Draw(t, "gutterY"))/100*(gt[3]-gt[2]-6)
			g.ln++
			p.Frags = append(p.Frags, Frag{T: word, X: r2((gt[0] + gt[1] - w) / 2), Y: r2(y), W: r2(w), S: 6, Role: RoleGutter, Col: -1, Ln: g.ln})
			g.use(FeatGutter)
		}
		// lone glyph narrower than 5 pt on a baseline of its own (footnote mark, folio)
		if g.want(FeatLone, g.pct("lone", 12)) {
			minY := p.H
			for _, f := range p.Frags {
				if f.Y < minY {
					minY = f.Y
				}
			}
			s := rapid.SampledFrom([]float64{6, 7, 8}).Draw(t, "loneSize")
			y := minY - 2*g.lead
			if y >= 40 {
				g.ln++
				ch := rapid.SampledFrom([]string{"7", "x", "†", "3"}).Draw(t, "loneGlyph")
				x := float64(rapid.IntRange(40, int(p.W)-60).Draw(t, "loneX"))
				p.Frags = append(p.Frags, Frag{T: ch, X: x, Y: r2(y), W: r2(Advance * s), S: s, Role: RoleLone, Col: -1, Ln: g.ln})
				g.use(FeatLone)
			}
		}
		// overlapping duplicate layer (fake bold / shadow): the same string painted twice
		if g.want(FeatDup, g.pct("dup", 15)) {
			n := rapid.IntRange(1, 3).Draw(t, "dups")
			dx := rapid.SampledFrom([]float64{0, 0.3, 0.5}).Draw(t, "dupDX")
			dy := rapid.SampledFrom([]float64{0, 0, 0.2}).Draw(t, "dupDY")
			for i := 0; i < n; i++ {
				j := rapid.IntRange(0, len(p.Frags)-1).Draw(t, "dupOf")
				d := p.Frags[j]
				d.X, d.Y = r2(d.X+dx), r2(d.Y+dy)
				p.Frags = append(p.Frags[:j+1], append([]Frag{d}, p.Frags[j+1:]...)...)
			}
			g.use(FeatDup)
		}
	}
	// stream order: as set (column by column), row-major (lines of different columns interleaved), shuffled
	switch rapid.SampledFrom([]string{"col", "col", "row", "shuffle"}).Draw(t, "streamOrder") {
	case "row":
		sort.SliceStable(p.Frags, func(i, j int) bool {
			if p.Frags[i].Y != p.Frags[j].Y {
				return p.Frags[i].Y > p.Frags[j].Y
			}
			return false
		})
		g.use("order:row")
	case "shuffle":
		p.Frags = rapid.Permutation(p.Frags).Draw(t, "perm")
		g.use("order:shuffle")
	}
	if !o.NoTransform {
		if g.want(FeatFlip, g.pct("flipY", 12)) {
			p.FlipY = true
			g.use(FeatFlip)
		}
		if g.want(FeatScale, g.pct("scale", 15)) {
			p.Scale = rapid.SampledFrom([]float64{0.1, 0.5, 2, 0.24}).Draw(t, "scaleFactor")
			// an enlarging transformation normally comes with an enlarged page box; without one part of the text
			// lies outside the MediaBox, which is legal (ISO 32000-1 14.11.2: content outside the box is clipped
			// when rendered, it is still in the content stream and text extraction still sees it)
			p.ScaleBox = rapid.Bool().Draw(t, "scaleBox")
			if p.Scale > 1 && !p.ScaleBox {
				if g.want(FeatOverflow, true) {
					g.use(FeatOverflow)
				} else {
					p.ScaleBox = true
				}
			}
			g.use(FeatScale)
		}
	}
	for f := range g.feat {
		p.Feat = append(p.Feat, f)
	}
	sort.Strings(p.Feat)
	p.Feat = append(p.Feat, "mode:"+g.mode)
	if g.just {
		p.Feat = append(p.Feat, "justified")
	}
}

// Labels returns evidence labels of a page.
func (p Page) Labels() []string {
	ls := []string{fmt.Sprintf("bands:%d", len(p.Cols))}
	mc := 0
	for _, c := range p.Cols {
		if c > mc {
			mc = c
		}
	}
	ls = append(ls, fmt.Sprintf("cols:%d", mc))
	for _, f := range p.Feat {
		ls = append(ls, "feat:"+f)
	}
	switch n := len(p.Frags); {
	case n <= 10:
		ls = append(ls, "frags:1-10")
	case n <= 50:
		ls = append(ls, "frags:11-50")
	case n <= 200:
		ls = append(ls, "frags:51-200")
	default:
		ls = append(ls, "frags:200+")
	}
	return ls
}
