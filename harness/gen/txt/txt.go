// Package txt generates texts of named classes for the rag properties
// (C12–C14): ASCII prose with sentence punctuation, scripts without spaces
// (CJK), emoji and ZWJ sequences, combining sequences, very long tokens,
// whitespace-only strings, Latin text whose UTF-8 continuation bytes look like
// Latin-1 white space (0x85, 0xA0), and adversarial "field" strings for export
// formats (delimiters, quotes, CR/LF, NUL, JSON look-alikes).
//
// Every text is valid UTF-8 by construction (it is assembled from Go string
// literals and runes below U+10FFFF outside the surrogate range). All random
// choices come from the *rapid.T that is passed in: a text is a sequence of
// segments, each segment = (class, word count, 32-bit salt) drawn from rapid;
// the words inside a segment are expanded from the salt by a fixed xorshift
// generator, so a case shrinks by dropping segments and lowering counts.
package txt

import (
	"strings"
	"unicode/utf8"

	"pgregory.net/rapid"
)

// Classes are the text classes Gen understands.
var Classes = []string{
	"prose",      // ASCII words, ". "/"! "/"? " + capital, abbreviations, decimals, paragraph breaks
	"nopunct",    // ASCII words separated by single spaces, no sentence punctuation at all
	"cjk",        // Japanese/Chinese without ASCII space or ASCII punctuation (ideographic 。、 only)
	"cjk-spaced", // CJK words separated by an ASCII space at most every 45 bytes
	"emoji",      // emoji incl. ZWJ sequences, skin tones, flags; sometimes spaces
	"combining",  // base letters with stacked combining marks; Devanagari, Thai
	"longtoken",  // tokens of 60–3000 bytes without any white space
	"whitespace", // only white space: space, tab, LF, CRLF, NBSP, EM SPACE, IDEOGRAPHIC SPACE
	"latin",      // accented Latin whose UTF-8 encoding contains the bytes 0x85 / 0xA0 (à … Å)
	"dense",      // one- and two-letter sentences: a break opportunity of every kind every few bytes
}

// xs is a tiny deterministic generator (xorshift32) seeded from a rapid draw.
type xs uint32

func (x *xs) next() uint32 {
	v := uint32(*x)
	if v == 0 {
		v = 0x9E3779B9
	}
	v ^= v << 13
	v ^= v >> 17
	v ^= v << 5
	*x = xs(v)
	return v
}

func (x *xs) n(k int) int { return int(x.next() % uint32(k)) }

// Seg is one segment of a generated text.
type Seg struct {
	Class string `json:"class"`
	Words int    `json:"words"`
	Salt  uint32 `json:"salt"`
}

var asciiWords = []string{"a", "an", "the", "of", "to", "chunk", "vector", "table", "figure", "retrieval", "semantic",
	"boundary", "overlap", "x", "I", "document", "heading", "paragraph", "tokenisation", "internationalization",
	"is", "was", "be", "will", "e.g.", "i.e.", "Mr.", "Dr.", "3.14", "2.5", "U.S.", "etc.", "v1.2.3", "no.", "ok"}

var cjkRunes = []rune("日本語の文章は空白を使わずに書かれます東京都京都大阪名古屋検索拡張生成文書分割意味境界重複漢字仮名交じり文中文句子没有空格분할한국어")
var cjkPunct = []rune("。、！？・「」")
var emojiSeqs = []string{"🅰", "🅱️", "😀", "🚀", "👍🏽", "👨‍👩‍👧‍👦", "🇯🇵", "🇺🇳", "🏳️‍🌈", "❤️", "✈", "🧑🏿‍💻", "🤦‍♀️", "☺", "#️⃣", "🫠"}
var combMarks = []rune{0x0301, 0x0300, 0x0302, 0x0308, 0x0323, 0x20D7, 0x0338, 0x035C}
var combBases = []string{"a", "e", "o", "u", "n", "Z", "क", "ष", "ि", "्", "ก", "ำ", "ี", "้", "ع", "َ"}

// latinRunes: UTF-8 encodings with a continuation byte 0x85 or 0xA0, which are
// white space when a *byte* is mistaken for a Latin-1 code point
// (U+0085 NEL, U+00A0 NBSP): à=C3 A0, Å=C3 85, …=E2 80 A6, ą=C4 85, Ġ=C4 A0,
// …=E2 80 A6, †=E2 80 A0, ’=E2 80 99, €=E2 82 AC, Ѕ=D0 85, Р=D0 A0, 䀅 = E4 80 85.
// 🅰 = F0 9F 85 B0, 𠀋 = F0 A0 80 8B, ࠀ = E0 A0 80: a 0x85/0xA0 byte followed by another continuation byte.
var latinRunes = []rune("àÅąĠ…†’€ЅРàéÅöüßñç䀅🅰𠀋ࠀ")
var wsRunes = []string{" ", " ", "\t", "\n", "\r\n", "\n\n", "\u00a0", "\u2003", "\u3000", "\u0085", "\u2028", "\v", "\f"}
var b64 = "ABCDEFGHIJKLMNOPQRSTUVWXYZabcdefghijklmnopqrstuvwxyz0123456789-_/%=&"

// Expand builds the text of one segment.
func (s Seg) Expand() string {
	x := xs(s.Salt*2654435761 + 12345)
	var sb strings.Builder
	switch s.Class {
	case "prose":
		capNext := true
		for i := 0; i < s.Words; i++ {
			w := asciiWords[x.n(len(asciiWords))]
			if capNext && w[0] >= 'a' && w[0] <= 'z' {
				w = strings.ToUpper(w[:1]) + w[1:]
			}
			capNext = false
			sb.WriteString(w)
			switch k := x.n(40); {
			case k < 5:
				sb.WriteString([]string{". ", "! ", "? ", ".\n", ". "}[k])
				capNext = true
			case k == 5:
				sb.WriteString(".\n\n")
				capNext = true
			case k == 6:
				sb.WriteString(", ")
			case k == 7:
				sb.WriteString(": ")
			case k == 8:
				sb.WriteString("  ")
			case k == 9:
				sb.WriteString("\n")
			case k == 10:
				sb.WriteString(". \"")
			default:
				sb.WriteString(" ")
			}
		}
	case "nopunct":
		for i := 0; i < s.Words; i++ {
			if i > 0 {
				sb.WriteByte(' ')
			}
			n := 1 + x.n(11)
			for j := 0; j < n; j++ {
				sb.WriteByte(byte('a' + x.n(26)))
			}
		}
	case "cjk":
		for i := 0; i < s.Words; i++ {
			n := 1 + x.n(6)
			for j := 0; j < n; j++ {
				sb.WriteRune(cjkRunes[x.n(len(cjkRunes))])
			}
			if x.n(7) == 0 {
				sb.WriteRune(cjkPunct[x.n(len(cjkPunct))])
			}
		}
	case "cjk-spaced":
		// a "word" is 1–12 CJK runes (<= 36 bytes) + optional ideographic punctuation (3 bytes)
		// followed by one ASCII space: the distance between spaces is at most 40 bytes
		for i := 0; i < s.Words; i++ {
			n := 1 + x.n(12)
			for j := 0; j < n; j++ {
				sb.WriteRune(cjkRunes[x.n(len(cjkRunes))])
			}
			if x.n(5) == 0 {
				sb.WriteRune(cjkPunct[x.n(len(cjkPunct))])
			}
			sb.WriteByte(' ')
		}
	case "emoji":
		for i := 0; i < s.Words; i++ {
			sb.WriteString(emojiSeqs[x.n(len(emojiSeqs))])
			if x.n(6) == 0 {
				sb.WriteByte(' ')
			}
		}
	case "combining":
		for i := 0; i < s.Words; i++ {
			n := 1 + x.n(4)
			for j := 0; j < n; j++ {
				sb.WriteString(combBases[x.n(len(combBases))])
				for k := x.n(4); k > 0; k-- {
					sb.WriteRune(combMarks[x.n(len(combMarks))])
				}
			}
			if x.n(4) != 0 {
				sb.WriteByte(' ')
			}
		}
	case "longtoken":
		for i := 0; i < s.Words; i++ {
			n := 60 + x.n(400)
			if x.n(8) == 0 {
				n = 800 + x.n(2200)
			}
			multi := x.n(3) == 0
			for j := 0; j < n; j++ {
				if multi && x.n(5) == 0 {
					sb.WriteRune(latinRunes[x.n(len(latinRunes))])
				} else {
					sb.WriteByte(b64[x.n(len(b64))])
				}
			}
			if x.n(3) != 0 {
				sb.WriteByte(' ')
			}
		}
	case "whitespace":
		for i := 0; i < s.Words; i++ {
			sb.WriteString(wsRunes[x.n(len(wsRunes))])
		}
	case "latin":
		capNext := true
		for i := 0; i < s.Words; i++ {
			n := 1 + x.n(9)
			for j := 0; j < n; j++ {
				if x.n(3) == 0 {
					sb.WriteByte(byte('a' + x.n(26)))
				} else {
					sb.WriteRune(latinRunes[x.n(len(latinRunes))])
				}
			}
			_ = capNext
			switch k := x.n(12); {
			case k == 0:
				sb.WriteString(". ")
			case k == 1:
				sb.WriteString("\u00a0") // a real NBSP between words
			case k == 2:
				// no separator at all
			default:
				sb.WriteByte(' ')
			}
		}
	case "dense":
		for i := 0; i < s.Words; i++ {
			sb.WriteByte(byte('A' + x.n(26)))
			if x.n(2) == 0 {
				sb.WriteByte(byte('a' + x.n(26)))
			}
			sb.WriteString([]string{". ", "! ", "? ", " ", "\n\n", ".\n"}[x.n(6)])
		}
	default:
		panic("txt: unknown class " + s.Class)
	}
	return sb.String()
}

// GenSeg draws one segment of the given class ("" = any class). maxWords
// bounds the segment's word count.
func GenSeg(t *rapid.T, label, class string, maxWords int) Seg {
	if class == "" {
		class = rapid.SampledFrom(Classes).Draw(t, label+"Class")
	}
	if maxWords < 1 {
		maxWords = 1
	}
	if class == "longtoken" && maxWords > 12 {
		maxWords = 12
	}
	return Seg{
		Class: class,
		Words: rapid.IntRange(0, maxWords).Draw(t, label+"Words"),
		Salt:  rapid.Uint32().Draw(t, label+"Salt"),
	}
}

// Gen draws a text: 1–maxSegs segments. With class != "" all segments are of
// that class ("mixed" texts come from class == ""). It returns the text and
// the set of classes used (sorted by first use).
func Gen(t *rapid.T, label, class string, maxSegs, maxWords int) (string, []string) {
	n := rapid.IntRange(1, maxSegs).Draw(t, label+"Segs")
	var sb strings.Builder
	var used []string
	seen := map[string]bool{}
	for i := 0; i < n; i++ {
		s := GenSeg(t, label, class, maxWords)
		sb.WriteString(s.Expand())
		if !seen[s.Class] {
			seen[s.Class] = true
			used = append(used, s.Class)
		}
	}
	out := sb.String()
	if !utf8.ValidString(out) {
		panic("txt: generated text is not valid UTF-8 (generator bug)")
	}
	return out, used
}

// ---------------------------------------------------------------------------
// adversarial field strings for export formats

var fieldAtoms = []string{
	",", ";", "\t", "|", "\"", "\"\"", "'", "\n", "\r", "\r\n", "\x00", "\x01", "\x1f", "\x7f", "\\", "\\n", "\\\"",
	" ", "  ", "a", "b", "Z", "0", "-1", "3.5", "true", "null", "{}", "[]", "[1,2]", "{\"id\":\"x\"}", "}", "]", "[", "{",
	"é", "ß", "日本", "😀", "👨\u200d👩\u200d👧", "\u00a0", "\u2003", "\ufeff", "\u2028", "<", ">", "&", "</script>", "\u0085",
	"=1+1", "@x", "#", "meta_", "chunk_id", "text", "id",
}

// Field draws an adversarial but valid-UTF-8 string of 0..maxAtoms atoms.
func Field(t *rapid.T, label string, maxAtoms int) string {
	atoms := rapid.SliceOfN(rapid.SampledFrom(fieldAtoms), 0, maxAtoms).Draw(t, label)
	return strings.Join(atoms, "")
}

// Tame draws a short identifier-like string (letters, digits, '-', '_').
func Tame(t *rapid.T, label string, minLen, maxLen int) string {
	const al = "abcdefghijklmnopqrstuvwxyzABCDEFGHIJKLMNOPQRSTUVWXYZ0123456789-_"
	bs := rapid.SliceOfN(rapid.IntRange(0, len(al)-1), minLen, maxLen).Draw(t, label)
	out := make([]byte, len(bs))
	for i, b := range bs {
		out[i] = al[b]
	}
	return string(out)
}

// IsAdversarial reports whether s contains a delimiter, quote, CR/LF or NUL
// (the non-trivial rule of C14).
func IsAdversarial(s string) bool {
	return strings.ContainsAny(s, ",;\t|\"\r\n\x00")
}
