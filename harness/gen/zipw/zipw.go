// Package zipw is the small ZIP layer shared by the container writers
// (gen/xlsxw, gen/pptxw, gen/epubw): an explicit member list, an explicit
// member order and byte-reproducible output. It knows nothing about the formats
// stored inside and nothing about tabula.
//
// Member order is a free parameter of every ZIP based format handled here:
// OPC (ECMA-376 Part 2, Annex C / clause 9 in the 2006 edition "Physical
// Package") places no constraint on the order of ZIP items, and OCF
// (EPUB Open Container Format 3.x, section 4.3 "ZIP container") constrains
// only the `mimetype` member (first, stored, no extra field).
package zipw

import (
	"archive/zip"
	"bytes"
	"hash/crc32"
	"sort"
	"time"

	"pgregory.net/rapid"
)

// Member is one ZIP item. Name uses forward slashes and has no leading slash
// (APPNOTE 4.4.17). Stored members are written without compression and
// without a data descriptor (needed for the OCF `mimetype` member).
type Member struct {
	Name   string `json:"name"`
	Data   []byte `json:"data"`
	Stored bool   `json:"stored,omitempty"`
}

// Order selects how a canonical member list is rearranged.
//
//	Mode ""        keep the canonical order the format writer produced
//	Mode "reverse" reverse it
//	Mode "sorted"  byte-wise ascending by name
//	Mode "rsorted" byte-wise descending by name
//	Mode "shuffle" deterministic permutation derived from Seed (see Perm)
type Order struct {
	Mode string `json:"mode,omitempty"`
	Seed uint64 `json:"seed,omitempty"`
}

// Modes lists the valid values of Order.Mode.
var Modes = []string{"", "reverse", "sorted", "rsorted", "shuffle"}

// GenOrder draws an Order.
func GenOrder(t *rapid.T, label string) Order {
	o := Order{Mode: rapid.SampledFrom([]string{"", "reverse", "sorted", "rsorted", "shuffle", "shuffle", "shuffle"}).Draw(t, label+"Mode")}
	if o.Mode == "shuffle" {
		o.Seed = rapid.Uint64Range(1, 1<<32).Draw(t, label+"Seed")
	}
	return o
}

// Perm returns a permutation of 0..n-1 that is a pure function of (n, seed):
// Fisher-Yates driven by splitmix64. seed 0 gives the identity.
func Perm(n int, seed uint64) []int {
	p := make([]int, n)
	for i := range p {
		p[i] = i
	}
	if seed == 0 {
		return p
	}
	x := seed
	next := func() uint64 {
		x += 0x9E3779B97F4A7C15
		z := x
		z = (z ^ (z >> 30)) * 0xBF58476D1CE4E5B9
		z = (z ^ (z >> 27)) * 0x94D049BB133111EB
		return z ^ (z >> 31)
	}
	for i := n - 1; i > 0; i-- {
		j := int(next() % uint64(i+1))
		p[i], p[j] = p[j], p[i]
	}
	return p
}

// Arrange returns the members in the requested order. Members whose index is
// listed in pinFirst keep their place at the front, in the given order (used
// for the OCF mimetype member).
func Arrange(ms []Member, o Order, pinFirst ...int) []Member {
	pinned := map[int]bool{}
	var head, rest []Member
	for _, i := range pinFirst {
		if i >= 0 && i < len(ms) && !pinned[i] {
			pinned[i] = true
			head = append(head, ms[i])
		}
	}
	for i, m := range ms {
		if !pinned[i] {
			rest = append(rest, m)
		}
	}
	switch o.Mode {
	case "reverse":
		for i, j := 0, len(rest)-1; i < j; i, j = i+1, j-1 {
			rest[i], rest[j] = rest[j], rest[i]
		}
	case "sorted":
		sort.SliceStable(rest, func(i, j int) bool { return rest[i].Name < rest[j].Name })
	case "rsorted":
		sort.SliceStable(rest, func(i, j int) bool { return rest[i].Name > rest[j].Name })
	case "shuffle":
		p := Perm(len(rest), o.Seed)
		out := make([]Member, len(rest))
		for i, j := range p {
			out[i] = rest[j]
		}
		rest = out
	}
	return append(head, rest...)
}

// Names returns the member names in order.
func Names(ms []Member) []string {
	out := make([]string, len(ms))
	for i, m := range ms {
		out[i] = m.Name
	}
	return out
}

// Bytes serialises the members in the given order. The output depends only on
// the arguments (fixed timestamps).
func Bytes(ms []Member) ([]byte, error) {
	var buf bytes.Buffer
	zw := zip.NewWriter(&buf)
	stamp := time.Date(2020, 1, 2, 3, 4, 6, 0, time.UTC)
	for _, m := range ms {
		if m.Stored {
			h := &zip.FileHeader{Name: m.Name, Method: zip.Store, Modified: stamp}
			h.CRC32 = crc32.ChecksumIEEE(m.Data)
			h.CompressedSize64 = uint64(len(m.Data))
			h.UncompressedSize64 = uint64(len(m.Data))
			h.Extra = nil
			w, err := zw.CreateRaw(h)
			if err != nil {
				return nil, err
			}
			if _, err := w.Write(m.Data); err != nil {
				return nil, err
			}
			continue
		}
		w, err := zw.CreateHeader(&zip.FileHeader{Name: m.Name, Method: zip.Deflate, Modified: stamp})
		if err != nil {
			return nil, err
		}
		if _, err := w.Write(m.Data); err != nil {
			return nil, err
		}
	}
	if err := zw.Close(); err != nil {
		return nil, err
	}
	return buf.Bytes(), nil
}
