// Package epubw writes EPUB 2 / EPUB 3 publications from a logical model plus
// explicit physical options. It is an independent writer: no code is shared
// with tabula; its unit tests read the containers back with archive/zip +
// encoding/xml following container.xml -> package document -> manifest ->
// spine.
//
// References: EPUB 3.3 (W3C Recommendation; "EPUB33"), in particular section 4
// "Open Container Format" (OCF): 4.2.5 URLs in the OCF abstract container,
// 4.2.6.3.1 container.xml, 4.2.6.3.2 encryption.xml, 4.2.6.3.5 rights.xml,
// 4.3 OCF ZIP container (4.3.3 the mimetype file); section 5 "Package document":
// 5.6 manifest (5.6.2 item: href is a path-relative-scheme-less-URL string
// resolved against the package document), 5.7 spine (5.7.2 itemref, linear
// attribute), 7 "EPUB navigation document"; OPF 2.0.1 section 2.4.1 (spine, toc
// attribute, NCX); RFC 3986 section 2 (percent-encoding) and RFC 3987 (IRIs).
//
// # Logical model
//
// A Book is a manifest (Items) and a spine (references to items, in reading
// order). The reading order is the spine order and nothing else: not the
// manifest order, not file names, not ZIP member order. Every content
// document is a Chapter (title, heading, paragraphs) rendered as XHTML.
//
// # Physical options
//
// Path of the package document (named only by META-INF/container.xml), the file
// path of every item relative to the package document (sub-folders, "..",
// blanks, non-ASCII characters, literal '+'), the spelling of its href
// (IRI, percent-encoded UTF-8, lower-case hex, fully encoded sub-delimiters),
// manifest order and ids, non-linear spine items, missing files, EPUB 2 NCX
// and/or EPUB 3 navigation document, files that are in the ZIP but not in the
// manifest (decoys), META-INF/rights.xml, META-INF/encryption.xml with chosen
// (URI, algorithm) entries, and the ZIP member order (mimetype stays first and
// stored, as OCF requires).
package epubw

import (
	"fmt"
	"path"
	"strings"

	"verif/harness/gen/zipw"
)

// Chapter is the logical content of an XHTML content document.
type Chapter struct {
	Title   string   `json:"title,omitempty"`   // <title>; "" writes an ordinary fixed title (EPUB33 6.1: title is required in XHTML content documents)
	Heading string   `json:"heading,omitempty"` // <h1> (or <hN> with HeadingLevel N)
	Paras   []string `json:"paras,omitempty"`   // <p> each
	// HeadingLevel selects h1..h6 for Heading (0 = 1).
	HeadingLevel int `json:"heading_level,omitempty"`
	// Body is well-formed XHTML flow content (lists, tables, ...) written verbatim after the paragraphs.
	Body string `json:"body,omitempty"`
}

// Texts returns the body text pieces in document order.
func (c Chapter) Texts() []string {
	var out []string
	if c.Heading != "" {
		out = append(out, c.Heading)
	}
	for _, p := range c.Paras {
		if p != "" {
			out = append(out, p)
		}
	}
	return out
}

// Item is one manifest entry and (unless Missing) one file of the container.
type Item struct {
	ID string `json:"id"`
	// Path is the file's path relative to the directory of the package
	// document, with real characters (not percent-encoded), "/" separated; ".."
	// segments are allowed as long as the result stays inside the container.
	Path string `json:"path"`
	// HrefStyle selects the spelling of the href attribute derived from Path:
	//   ""       IRI form: only characters that cannot appear in a URL path are
	//            percent-encoded (blank, %, #, ?, [, ], <, >, ", {, }, |, \, ^, `);
	//            non-ASCII stays as it is (RFC 3987), '+' and other sub-delimiters stay literal
	//   "uri"    additionally every non-ASCII character as percent-encoded UTF-8, upper-case hex (RFC 3986 2.1)
	//   "lower"  like "uri" with lower-case hex digits (equivalent, RFC 3986 2.1 / 6.2.2.1)
	//   "full"   like "uri" and the sub-delimiters ! $ & ' ( ) * + , ; = percent-encoded too
	// All spellings identify the same file.
	HrefStyle string `json:"href_style,omitempty"`
	// MediaType: "" = application/xhtml+xml.
	MediaType  string `json:"media_type,omitempty"`
	Properties string `json:"properties,omitempty"`
	// Role: "" ordinary item; "nav" EPUB 3 navigation document (properties gets
	// "nav", content generated from the spine unless Data is set); "ncx" EPUB 2
	// NCX (media type application/x-dtbncx+xml, content generated, its id is
	// written to <spine toc>).
	Role string `json:"role,omitempty"`
	// Chapter is rendered to XHTML when Data is nil and the media type is XHTML.
	// For Role "nav" the Heading is written before and the Paras after the <nav> element.
	Chapter Chapter `json:"chapter,omitempty"`
	// Data, when non-nil, is written verbatim.
	Data []byte `json:"data,omitempty"`
	// Missing: listed in the manifest, but the file is not in the container.
	Missing bool `json:"missing,omitempty"`
}

// SpineRef is one <itemref>.
type SpineRef struct {
	Item   int    `json:"item"`             // index into Book.Items
	Linear string `json:"linear,omitempty"` // "" (attribute absent), "yes" or "no" (EPUB33 5.7.2)
}

// EncEntry is one <enc:EncryptedData> of META-INF/encryption.xml.
type EncEntry struct {
	URI       string `json:"uri"`       // CipherReference URI, relative to the container root (EPUB33 4.2.6.3.2)
	Algorithm string `json:"algorithm"` // EncryptionMethod Algorithm
	KeyName   string `json:"key_name,omitempty"`
}

// Well-known algorithm identifiers.
const (
	AlgNotNamed         = ""                                   // EncryptedData without an EncryptionMethod child
	AlgInKeyInfo        = "keyinfo"                            // EncryptedData without an EncryptionMethod child, with an EncryptedKey in ds:KeyInfo
	AlgIDPFObfuscation  = "http://www.idpf.org/2008/embedding" // EPUB33 4.4 font obfuscation
	AlgAdobeObfuscation = "http://ns.adobe.com/pdf/enc#RC"     // Adobe font mangling
	AlgAES128CBC        = "http://www.w3.org/2001/04/xmlenc#aes128-cbc"
	AlgAES256CBC        = "http://www.w3.org/2001/04/xmlenc#aes256-cbc"
	AlgAES256GCM        = "http://www.w3.org/2009/xmlenc11#aes256-gcm"
)

// File is a raw container member (path relative to the container root).
type File struct {
	Path string `json:"path"`
	Data []byte `json:"data"`
}

// Options are container-level physical choices.
type Options struct {
	Zip zipw.Order `json:"zip,omitempty"`
	// OPFPrefix: namespace prefix for the package document's own elements ("" = default namespace, e.g. "opf").
	OPFPrefix string `json:"opf_prefix,omitempty"`
	// NoMimetype omits the mimetype member (not conforming; for detection tests only).
	NoMimetype bool `json:"no_mimetype,omitempty"`
	// ExtraRootfile adds a second <rootfile> (a PDF rendition, other media type)
	// after the package rootfile (EPUB33 4.2.6.3.1 allows several rootfile elements).
	ExtraRootfile bool `json:"extra_rootfile,omitempty"`
	// ExtraRootfileFirst puts that other rootfile before the package rootfile:
	// the default rendition is the first rootfile whose media type is
	// application/oebps-package+xml, not the first rootfile.
	ExtraRootfileFirst bool `json:"extra_rootfile_first,omitempty"`
	// AltPackages lists the package documents of further renditions (container-root
	// relative paths; the files themselves are Decoys). They are written as rootfile
	// elements with the package media type *after* the book's own rootfile: "the first
	// rootfile element ... represents the Default Rendition", which a reading system that
	// does not select renditions presents (EPUB33 4.2.6.3.1; Multiple-Rendition Publications 1.1 §2).
	AltPackages []string `json:"alt_packages,omitempty"`
}

// Book is the whole publication.
type Book struct {
	Version    string     `json:"version"`  // "2.0" or "3.0"
	OPFPath    string     `json:"opf_path"` // container-root relative path of the package document
	Title      string     `json:"title,omitempty"`
	Creator    string     `json:"creator,omitempty"`
	Language   string     `json:"language,omitempty"`
	Identifier string     `json:"identifier,omitempty"`
	Items      []Item     `json:"items"` // manifest order
	Spine      []SpineRef `json:"spine"` // reading order
	// Decoys are files in the ZIP that the manifest does not list.
	Decoys []File `json:"decoys,omitempty"`
	// Rights, when non-nil, is written as META-INF/rights.xml.
	Rights []byte `json:"rights,omitempty"`
	// Encryption lists the entries of META-INF/encryption.xml. The file is
	// written when the list is non-empty or HasEncFile is set (an
	// encryption.xml without entries).
	Encryption []EncEntry `json:"encryption,omitempty"`
	HasEncFile bool       `json:"has_enc_file,omitempty"`
	Opt        Options    `json:"opt,omitempty"`
}

const (
	nsOPF       = "http://www.idpf.org/2007/opf"
	nsDC        = "http://purl.org/dc/elements/1.1/"
	nsContainer = "urn:oasis:names:tc:opendocument:xmlns:container"
	nsXHTML     = "http://www.w3.org/1999/xhtml"
	nsOPS       = "http://www.idpf.org/2007/ops"
	nsNCX       = "http://www.daisy.org/z3986/2005/ncx/"
	mtXHTML     = "application/xhtml+xml"
	mtNCX       = "application/x-dtbncx+xml"
	mtOPF       = "application/oebps-package+xml"
)

// MediaTypeOf returns the effective media type of an item.
func (it Item) MediaTypeOf() string {
	if it.Role == "ncx" {
		return mtNCX
	}
	if it.MediaType == "" {
		return mtXHTML
	}
	return it.MediaType
}

// ZipName returns the container-root relative name of item i.
func (b Book) ZipName(i int) string {
	return path.Join(path.Dir(b.OPFPath), b.Items[i].Path)
}

// Href returns the href attribute written for item i.
func (b Book) Href(i int) string { return EncodePath(b.Items[i].Path, b.Items[i].HrefStyle) }

const hexU = "0123456789ABCDEF"
const hexL = "0123456789abcdef"

// EncodePath spells a file path as a URL path in the given style (see Item.HrefStyle).
func EncodePath(p, style string) string {
	var sb strings.Builder
	hex := hexU
	if style == "lower" {
		hex = hexL
	}
	pct := func(c byte) {
		sb.WriteByte('%')
		sb.WriteByte(hex[c>>4])
		sb.WriteByte(hex[c&15])
	}
	for _, r := range p {
		switch {
		case r >= 0x80:
			if style == "" {
				sb.WriteRune(r)
			} else {
				for _, c := range []byte(string(r)) {
					pct(c)
				}
			}
		case r == '/' || r == '-' || r == '.' || r == '_' || r == '~' ||
			(r >= '0' && r <= '9') || (r >= 'a' && r <= 'z') || (r >= 'A' && r <= 'Z') || r == ':' || r == '@':
			sb.WriteRune(r)
		case strings.ContainsRune("!$&'()*+,;=", r): // sub-delims (RFC 3986 2.2), allowed literally in a path segment (3.3 pchar)
			if style == "full" {
				pct(byte(r))
			} else {
				sb.WriteRune(r)
			}
		default: // blank, %, #, ?, [, ], <, >, ", {, }, |, \, ^, ` and controls
			pct(byte(r))
		}
	}
	return sb.String()
}

// DecodePath percent-decodes a URL path per RFC 3986 2.1 ('+' has no special
// meaning in a path). It is the inverse of EncodePath for every style.
func DecodePath(h string) (string, error) {
	var out []byte
	for i := 0; i < len(h); i++ {
		if h[i] != '%' {
			out = append(out, h[i])
			continue
		}
		if i+2 >= len(h) {
			return "", fmt.Errorf("truncated escape in %q", h)
		}
		v := 0
		for _, c := range []byte{h[i+1], h[i+2]} {
			switch {
			case c >= '0' && c <= '9':
				v = v*16 + int(c-'0')
			case c >= 'a' && c <= 'f':
				v = v*16 + int(c-'a') + 10
			case c >= 'A' && c <= 'F':
				v = v*16 + int(c-'A') + 10
			default:
				return "", fmt.Errorf("bad escape in %q", h)
			}
		}
		out = append(out, byte(v))
		i += 2
	}
	return string(out), nil
}

// relPath spells the path of file `to` as seen from directory `fromDir` (both container-root relative).
func relPath(fromDir, to string) string {
	var from []string
	if fromDir != "." && fromDir != "" {
		from = strings.Split(fromDir, "/")
	}
	tp := strings.Split(to, "/")
	i := 0
	for i < len(from) && i < len(tp)-1 && from[i] == tp[i] {
		i++
	}
	return strings.Repeat("../", len(from)-i) + strings.Join(tp[i:], "/")
}

// Validate checks the model against the cited clauses.
func (b Book) Validate() error {
	if b.Version != "2.0" && b.Version != "3.0" {
		return fmt.Errorf("epubw: version %q", b.Version)
	}
	if b.OPFPath == "" || path.Clean(b.OPFPath) != b.OPFPath || strings.HasPrefix(b.OPFPath, "/") || strings.HasPrefix(b.OPFPath, "../") || strings.HasPrefix(b.OPFPath, "META-INF/") {
		return fmt.Errorf("epubw: illegal package document path %q", b.OPFPath)
	}
	ids, names := map[string]bool{}, map[string]bool{"mimetype": true, "META-INF/container.xml": true, b.OPFPath: true}
	navs, ncxs := 0, 0
	for i, it := range b.Items {
		if it.ID == "" || ids[it.ID] || strings.ContainsAny(it.ID, " \t\n<>&\"") {
			return fmt.Errorf("epubw: item %d: missing, duplicate or illegal id %q (EPUB33 5.6.2)", i, it.ID)
		}
		ids[it.ID] = true
		zn := b.ZipName(i)
		if it.Path == "" || strings.HasPrefix(it.Path, "/") || strings.HasSuffix(it.Path, "/") || strings.HasPrefix(zn, "../") || zn == ".." || strings.HasPrefix(zn, "META-INF/") {
			return fmt.Errorf("epubw: item %d: path %q leaves the container or is illegal (EPUB33 4.2.5)", i, it.Path)
		}
		// EPUB33 4.2.4 file names: no " * : < > ? \ | DEL, controls, no trailing full stop; unique after case folding
		for _, seg := range strings.Split(it.Path, "/") {
			if seg == "" || (seg != ".." && strings.HasSuffix(seg, ".")) || strings.ContainsAny(seg, "\"*:<>?\\|\x7f") {
				return fmt.Errorf("epubw: item %d: file name %q violates EPUB33 4.2.4", i, it.Path)
			}
		}
		if names[strings.ToLower(zn)] {
			return fmt.Errorf("epubw: item %d: duplicate file %q", i, zn)
		}
		names[strings.ToLower(zn)] = true
		switch it.Role {
		case "":
		case "nav":
			navs++
		case "ncx":
			ncxs++
		default:
			return fmt.Errorf("epubw: item %d: role %q", i, it.Role)
		}
		switch it.HrefStyle {
		case "", "uri", "lower", "full":
		default:
			return fmt.Errorf("epubw: item %d: href style %q", i, it.HrefStyle)
		}
	}
	if navs > 1 || ncxs > 1 {
		return fmt.Errorf("epubw: more than one nav or ncx item (EPUB33 5.6.2.1: exactly one nav)")
	}
	if len(b.Spine) == 0 {
		return fmt.Errorf("epubw: empty spine (EPUB33 5.7.1)")
	}
	seen := map[int]bool{}
	for i, s := range b.Spine {
		if s.Item < 0 || s.Item >= len(b.Items) || seen[s.Item] {
			return fmt.Errorf("epubw: spine %d: bad or repeated item %d (EPUB33 5.7.2: an item must not be referenced more than once)", i, s.Item)
		}
		seen[s.Item] = true
		if s.Linear != "" && s.Linear != "yes" && s.Linear != "no" {
			return fmt.Errorf("epubw: spine %d: linear %q", i, s.Linear)
		}
		if b.Items[s.Item].Role == "ncx" {
			return fmt.Errorf("epubw: spine %d refers to the NCX", i)
		}
	}
	for i, d := range b.Decoys {
		if d.Path == "" || path.Clean(d.Path) != d.Path || strings.HasPrefix(d.Path, "../") || names[strings.ToLower(d.Path)] {
			return fmt.Errorf("epubw: decoy %d: illegal or duplicate path %q", i, d.Path)
		}
		names[strings.ToLower(d.Path)] = true
	}
	return nil
}

func esc(s string) string {
	return strings.NewReplacer("&", "&amp;", "<", "&lt;", ">", "&gt;", `"`, "&quot;").Replace(s)
}

// XHTML renders a chapter as an XHTML content document. Only the common
// spelling is produced: XML declaration, (EPUB 2) XHTML 1.1 doctype or
// (EPUB 3) HTML5 doctype, no self-closing non-void elements.
func (c Chapter) XHTML(version string) []byte {
	var sb strings.Builder
	sb.WriteString(`<?xml version="1.0" encoding="UTF-8"?>` + "\n")
	if version == "2.0" {
		sb.WriteString(`<!DOCTYPE html PUBLIC "-//W3C//DTD XHTML 1.1//EN" "http://www.w3.org/TR/xhtml11/DTD/xhtml11.dtd">` + "\n")
	} else {
		sb.WriteString("<!DOCTYPE html>\n")
	}
	title := c.Title
	if title == "" {
		title = "Section"
	}
	fmt.Fprintf(&sb, `<html xmlns="%s" xml:lang="en">`+"\n<head><title>%s</title></head>\n<body>\n", nsXHTML, esc(title))
	if c.Heading != "" {
		lvl := c.HeadingLevel
		if lvl < 1 || lvl > 6 {
			lvl = 1
		}
		fmt.Fprintf(&sb, "<h%d>%s</h%d>\n", lvl, esc(c.Heading), lvl)
	}
	for _, p := range c.Paras {
		fmt.Fprintf(&sb, "<p>%s</p>\n", esc(p))
	}
	sb.WriteString(c.Body)
	sb.WriteString("</body>\n</html>\n")
	return []byte(sb.String())
}

// navTargets lists (label, item index) for the table of contents: one entry per
// spine item that is an XHTML content document other than the nav itself.
func (b Book) navTargets(self int) [][2]int {
	var out [][2]int
	for _, s := range b.Spine {
		it := b.Items[s.Item]
		if s.Item != self && it.Role == "" && it.MediaTypeOf() == mtXHTML {
			out = append(out, [2]int{len(out) + 1, s.Item})
		}
	}
	return out
}

func (b Book) navXHTML(self int) []byte {
	it := b.Items[self]
	var sb strings.Builder
	sb.WriteString(`<?xml version="1.0" encoding="UTF-8"?>` + "\n<!DOCTYPE html>\n")
	fmt.Fprintf(&sb, `<html xmlns="%s" xmlns:epub="%s" xml:lang="en">`+"\n<head><title>Contents</title></head>\n<body>\n", nsXHTML, nsOPS)
	if it.Chapter.Heading != "" {
		fmt.Fprintf(&sb, "<h1>%s</h1>\n", esc(it.Chapter.Heading))
	}
	// EPUB33 7.3: <nav epub:type="toc"> with one ol
	sb.WriteString(`<nav epub:type="toc" id="toc"><ol>` + "\n")
	from := path.Dir(b.ZipName(self))
	tg := b.navTargets(self)
	if len(tg) == 0 { // the ol must not be empty; point at the nav itself
		fmt.Fprintf(&sb, `<li><a href="%s">Section 1</a></li>`+"\n", esc(EncodePath(path.Base(it.Path), "")))
	}
	for _, t := range tg {
		fmt.Fprintf(&sb, `<li><a href="%s">Section %d</a></li>`+"\n", esc(EncodePath(relPath(from, b.ZipName(t[1])), b.Items[t[1]].HrefStyle)), t[0])
	}
	sb.WriteString("</ol></nav>\n")
	for _, p := range it.Chapter.Paras {
		fmt.Fprintf(&sb, "<p>%s</p>\n", esc(p))
	}
	sb.WriteString("</body>\n</html>\n")
	return []byte(sb.String())
}

func (b Book) ncxXML(self int) []byte {
	var sb strings.Builder
	sb.WriteString(`<?xml version="1.0" encoding="UTF-8"?>` + "\n")
	fmt.Fprintf(&sb, `<ncx xmlns="%s" version="2005-1"><head><meta name="dtb:uid" content="%s"/><meta name="dtb:depth" content="1"/></head><docTitle><text>%s</text></docTitle><navMap>`, nsNCX, esc(b.identifier()), esc(b.title()))
	from := path.Dir(b.ZipName(self))
	for _, t := range b.navTargets(-1) {
		fmt.Fprintf(&sb, `<navPoint id="np%d" playOrder="%d"><navLabel><text>Section %d</text></navLabel><content src="%s"/></navPoint>`, t[0], t[0], t[0],
			esc(EncodePath(relPath(from, b.ZipName(t[1])), b.Items[t[1]].HrefStyle)))
	}
	sb.WriteString(`</navMap></ncx>`)
	return []byte(sb.String())
}

func (b Book) title() string {
	if b.Title == "" {
		return "Generated book"
	}
	return b.Title
}

func (b Book) identifier() string {
	if b.Identifier == "" {
		return "urn:uuid:12345678-1234-1234-1234-123456789abc"
	}
	return b.Identifier
}

func (b Book) opfXML() []byte {
	p := ""
	var sb strings.Builder
	sb.WriteString(`<?xml version="1.0" encoding="UTF-8"?>` + "\n")
	if b.Opt.OPFPrefix != "" {
		p = b.Opt.OPFPrefix + ":"
		fmt.Fprintf(&sb, `<%spackage xmlns:%s="%s" version="%s" unique-identifier="pub-id">`, p, b.Opt.OPFPrefix, nsOPF, b.Version)
	} else {
		fmt.Fprintf(&sb, `<package xmlns="%s" version="%s" unique-identifier="pub-id">`, nsOPF, b.Version)
	}
	fmt.Fprintf(&sb, "\n<%smetadata xmlns:dc=\"%s\">", p, nsDC)
	fmt.Fprintf(&sb, `<dc:identifier id="pub-id">%s</dc:identifier><dc:title>%s</dc:title>`, esc(b.identifier()), esc(b.title()))
	lang := b.Language
	if lang == "" {
		lang = "en"
	}
	fmt.Fprintf(&sb, `<dc:language>%s</dc:language>`, esc(lang))
	if b.Creator != "" {
		fmt.Fprintf(&sb, `<dc:creator>%s</dc:creator>`, esc(b.Creator))
	}
	if b.Version == "3.0" {
		fmt.Fprintf(&sb, `<%smeta property="dcterms:modified">2020-01-02T03:04:05Z</%smeta>`, p, p)
	}
	fmt.Fprintf(&sb, "</%smetadata>\n<%smanifest>", p, p)
	ncxID := ""
	for i, it := range b.Items {
		props := it.Properties
		if it.Role == "nav" && !strings.Contains(" "+props+" ", " nav ") {
			props = strings.TrimSpace(props + " nav")
		}
		if it.Role == "ncx" {
			ncxID = it.ID
		}
		fmt.Fprintf(&sb, `<%sitem id="%s" href="%s" media-type="%s"`, p, esc(it.ID), esc(b.Href(i)), it.MediaTypeOf())
		if props != "" {
			fmt.Fprintf(&sb, ` properties="%s"`, esc(props))
		}
		sb.WriteString("/>")
	}
	fmt.Fprintf(&sb, "</%smanifest>\n<%sspine", p, p)
	if ncxID != "" {
		fmt.Fprintf(&sb, ` toc="%s"`, esc(ncxID)) // OPF 2.0.1 2.4.1.2; allowed in EPUB 3 for compatibility (EPUB33 5.7.1)
	}
	sb.WriteString(">")
	for _, s := range b.Spine {
		fmt.Fprintf(&sb, `<%sitemref idref="%s"`, p, esc(b.Items[s.Item].ID))
		if s.Linear != "" {
			fmt.Fprintf(&sb, ` linear="%s"`, s.Linear)
		}
		sb.WriteString("/>")
	}
	fmt.Fprintf(&sb, "</%sspine>\n</%spackage>\n", p, p)
	return []byte(sb.String())
}

func (b Book) containerXML() []byte {
	var sb strings.Builder
	sb.WriteString(`<?xml version="1.0" encoding="UTF-8"?>` + "\n")
	fmt.Fprintf(&sb, `<container version="1.0" xmlns="%s"><rootfiles>`, nsContainer)
	extra := `<rootfile full-path="rendition/book.pdf" media-type="application/pdf"/>`
	if b.Opt.ExtraRootfile && b.Opt.ExtraRootfileFirst {
		sb.WriteString(extra)
	}
	fmt.Fprintf(&sb, `<rootfile full-path="%s" media-type="%s"/>`, esc(b.OPFPath), mtOPF)
	if b.Opt.ExtraRootfile && !b.Opt.ExtraRootfileFirst {
		sb.WriteString(extra)
	}
	for _, alt := range b.Opt.AltPackages {
		fmt.Fprintf(&sb, `<rootfile full-path="%s" media-type="%s"/>`, esc(alt), mtOPF)
	}
	sb.WriteString(`</rootfiles></container>` + "\n")
	return []byte(sb.String())
}

func (b Book) encryptionXML() []byte {
	var sb strings.Builder
	sb.WriteString(`<?xml version="1.0" encoding="UTF-8"?>` + "\n")
	fmt.Fprintf(&sb, `<encryption xmlns="%s" xmlns:enc="http://www.w3.org/2001/04/xmlenc#" xmlns:ds="http://www.w3.org/2000/09/xmldsig#">`, nsContainer)
	for _, e := range b.Encryption {
		switch e.Algorithm {
		case AlgNotNamed:
			// EncryptionMethod is optional (XML Encryption 3.1): the recipient is supposed to know the cipher
			sb.WriteString(`<enc:EncryptedData>`)
		case AlgInKeyInfo:
			// no cipher named for the data; the wrapped key says how it is wrapped
			sb.WriteString(`<enc:EncryptedData><ds:KeyInfo><enc:EncryptedKey><enc:EncryptionMethod Algorithm="http://www.w3.org/2001/04/xmlenc#rsa-oaep-mgf1p"/><enc:CipherData><enc:CipherValue>AAAA</enc:CipherValue></enc:CipherData></enc:EncryptedKey></ds:KeyInfo>`)
		default:
			fmt.Fprintf(&sb, `<enc:EncryptedData><enc:EncryptionMethod Algorithm="%s"/>`, esc(e.Algorithm))
		}
		if e.KeyName != "" {
			fmt.Fprintf(&sb, `<ds:KeyInfo><ds:KeyName>%s</ds:KeyName></ds:KeyInfo>`, esc(e.KeyName))
		}
		fmt.Fprintf(&sb, `<enc:CipherData><enc:CipherReference URI="%s"/></enc:CipherData></enc:EncryptedData>`, esc(e.URI))
	}
	sb.WriteString(`</encryption>` + "\n")
	return []byte(sb.String())
}

// ItemData returns the bytes written for item i.
func (b Book) ItemData(i int) []byte {
	it := b.Items[i]
	switch {
	case it.Data != nil:
		return it.Data
	case it.Role == "nav":
		return b.navXHTML(i)
	case it.Role == "ncx":
		return b.ncxXML(i)
	case it.MediaTypeOf() == mtXHTML:
		return it.Chapter.XHTML(b.Version)
	case it.MediaTypeOf() == "text/css":
		return []byte("body { margin: 1em; }\n")
	}
	return []byte{0, 1, 2, 3}
}

// Members returns the container as ZIP members in final order: mimetype first
// and stored (EPUB33 4.3.3), everything else arranged by Opt.Zip.
func (b Book) Members() ([]zipw.Member, error) {
	if err := b.Validate(); err != nil {
		return nil, err
	}
	var ms []zipw.Member
	if !b.Opt.NoMimetype {
		ms = append(ms, zipw.Member{Name: "mimetype", Data: []byte("application/epub+zip"), Stored: true})
	}
	ms = append(ms, zipw.Member{Name: "META-INF/container.xml", Data: b.containerXML()})
	if len(b.Encryption) > 0 || b.HasEncFile {
		ms = append(ms, zipw.Member{Name: "META-INF/encryption.xml", Data: b.encryptionXML()})
	}
	if b.Rights != nil {
		ms = append(ms, zipw.Member{Name: "META-INF/rights.xml", Data: b.Rights})
	}
	ms = append(ms, zipw.Member{Name: b.OPFPath, Data: b.opfXML()})
	for i, it := range b.Items {
		if it.Missing {
			continue
		}
		ms = append(ms, zipw.Member{Name: b.ZipName(i), Data: b.ItemData(i)})
	}
	for _, d := range b.Decoys {
		ms = append(ms, zipw.Member{Name: d.Path, Data: d.Data})
	}
	if b.Opt.NoMimetype {
		return zipw.Arrange(ms, b.Opt.Zip), nil
	}
	return zipw.Arrange(ms, b.Opt.Zip, 0), nil
}

// Bytes returns the .epub file.
func (b Book) Bytes() ([]byte, error) {
	ms, err := b.Members()
	if err != nil {
		return nil, err
	}
	return zipw.Bytes(ms)
}

// DefaultRights is a typical Adobe ADEPT rights.xml body.
var DefaultRights = []byte(`<?xml version="1.0"?><adept:rights xmlns:adept="http://ns.adobe.com/adept"><licenseToken><user>urn:uuid:0</user></licenseToken></adept:rights>`)
