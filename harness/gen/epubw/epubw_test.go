package epubw

import (
	"archive/zip"
	"bytes"
	"encoding/xml"
	"io"
	"path"
	"reflect"
	"strings"
	"testing"

	"pgregory.net/rapid"
)

// Naive consumer written against EPUB33: container.xml -> package document ->
// manifest (id -> href) -> spine (idref) -> file = dir(OPF) + percent-decoded
// href -> text of h1/p elements.

type rbContainer struct {
	Rootfiles []struct {
		FullPath  string `xml:"full-path,attr"`
		MediaType string `xml:"media-type,attr"`
	} `xml:"urn:oasis:names:tc:opendocument:xmlns:container rootfiles>rootfile"`
}
type rbOPF struct {
	Version string `xml:"version,attr"`
	Items   []struct {
		ID    string `xml:"id,attr"`
		Href  string `xml:"href,attr"`
		MT    string `xml:"media-type,attr"`
		Props string `xml:"properties,attr"`
	} `xml:"http://www.idpf.org/2007/opf manifest>item"`
	Spine struct {
		Toc  string `xml:"toc,attr"`
		Refs []struct {
			IDRef  string `xml:"idref,attr"`
			Linear string `xml:"linear,attr"`
		} `xml:"http://www.idpf.org/2007/opf itemref"`
	} `xml:"http://www.idpf.org/2007/opf spine"`
}
type rbEnc struct {
	Data []struct {
		Method struct {
			Alg string `xml:"Algorithm,attr"`
		} `xml:"http://www.w3.org/2001/04/xmlenc# EncryptionMethod"`
		Ref struct {
			URI string `xml:"URI,attr"`
		} `xml:"http://www.w3.org/2001/04/xmlenc# CipherData>CipherReference"`
	} `xml:"http://www.w3.org/2001/04/xmlenc# EncryptedData"`
}

func bodyTexts(t testing.TB, name string, data []byte) (texts []string, links []string) {
	d := xml.NewDecoder(bytes.NewReader(data))
	d.Strict = true
	var cur *strings.Builder
	for {
		tok, err := d.Token()
		if err == io.EOF {
			break
		}
		if err != nil {
			t.Fatalf("%s not well-formed: %v\n%s", name, err, data)
		}
		switch v := tok.(type) {
		case xml.StartElement:
			if v.Name.Local == "h1" || v.Name.Local == "p" {
				cur = &strings.Builder{}
			}
			if v.Name.Local == "a" || v.Name.Local == "content" {
				for _, a := range v.Attr {
					if a.Name.Local == "href" || a.Name.Local == "src" {
						links = append(links, a.Value)
					}
				}
			}
		case xml.EndElement:
			if (v.Name.Local == "h1" || v.Name.Local == "p") && cur != nil {
				texts = append(texts, cur.String())
				cur = nil
			}
		case xml.CharData:
			if cur != nil {
				cur.Write(v)
			}
		}
	}
	return
}

func TestRoundTrip(t *testing.T) {
	rapid.Check(t, func(rt *rapid.T) {
		b := GenBook(rt, 6, nil)
		if rapid.Bool().Draw(rt, "enc") {
			b.Encryption = []EncEntry{{URI: path.Join(path.Dir(b.OPFPath), "fonts/f.otf"), Algorithm: AlgIDPFObfuscation}, {URI: "x y.xhtml", Algorithm: AlgAES256CBC, KeyName: "k"}}
			b.Rights = DefaultRights
		}
		raw, err := b.Bytes()
		if err != nil {
			rt.Fatalf("write: %v", err)
		}
		zr, err := zip.NewReader(bytes.NewReader(raw), int64(len(raw)))
		if err != nil {
			rt.Fatalf("zip: %v", err)
		}
		files := map[string][]byte{}
		for i, f := range zr.File {
			if i == 0 && (f.Name != "mimetype" || f.Method != zip.Store || len(f.Extra) != 0) {
				rt.Fatalf("first member %q method %d extra %d: OCF 4.3.3 wants mimetype, stored, no extra field", f.Name, f.Method, len(f.Extra))
			}
			rc, _ := f.Open()
			d, _ := io.ReadAll(rc)
			rc.Close()
			if _, dup := files[f.Name]; dup {
				rt.Fatalf("duplicate member %s", f.Name)
			}
			files[f.Name] = d
		}
		if string(files["mimetype"]) != "application/epub+zip" {
			rt.Fatalf("mimetype content %q", files["mimetype"])
		}
		// OCF 4.3.3: the bytes "mimetype" at offset 30 and the media type at 38
		if string(raw[30:38]) != "mimetype" || string(raw[38:58]) != "application/epub+zip" {
			rt.Fatalf("mimetype not at the fixed offsets")
		}
		var c rbContainer
		if err := xml.Unmarshal(files["META-INF/container.xml"], &c); err != nil || len(c.Rootfiles) == 0 {
			rt.Fatalf("container.xml: %v", err)
		}
		opfPath := ""
		for _, r := range c.Rootfiles {
			if r.MediaType == "application/oebps-package+xml" && opfPath == "" {
				opfPath = r.FullPath
			}
		}
		if opfPath != b.OPFPath {
			rt.Fatalf("rootfile %q, want %q", opfPath, b.OPFPath)
		}
		var opf rbOPF
		if err := xml.Unmarshal(files[opfPath], &opf); err != nil {
			rt.Fatalf("opf: %v\n%s", err, files[opfPath])
		}
		if opf.Version != b.Version || len(opf.Items) != len(b.Items) || len(opf.Spine.Refs) != len(b.Spine) {
			rt.Fatalf("opf shape: version %s items %d spine %d", opf.Version, len(opf.Items), len(opf.Spine.Refs))
		}
		byID := map[string]int{}
		for i, it := range opf.Items {
			byID[it.ID] = i
			if it.ID != b.Items[i].ID {
				rt.Fatalf("manifest order: item %d id %s, want %s", i, it.ID, b.Items[i].ID)
			}
			dec, err := DecodePath(it.Href)
			if err != nil || dec != b.Items[i].Path {
				rt.Fatalf("item %d href %q decodes to %q (%v), want %q", i, it.Href, dec, err, b.Items[i].Path)
			}
			for _, ch := range it.Href {
				if ch <= ' ' || strings.ContainsRune(`<>"{}|\^`+"`", ch) {
					rt.Fatalf("item %d href %q contains a character that is illegal in a URL", i, it.Href)
				}
			}
			name := path.Join(path.Dir(opfPath), dec)
			data, ok := files[name]
			if ok == b.Items[i].Missing {
				rt.Fatalf("item %d (%s): present=%v Missing=%v", i, name, ok, b.Items[i].Missing)
			}
			if ok && (strings.HasSuffix(it.MT, "xml")) {
				texts, links := bodyTexts(t, name, data)
				if b.Items[i].Role == "" {
					if !reflect.DeepEqual(texts, b.Items[i].Chapter.Texts()) {
						rt.Fatalf("item %d texts %q, want %q", i, texts, b.Items[i].Chapter.Texts())
					}
				} else {
					// every toc link resolves (relative to the nav/ncx file) to an existing or declared-missing file
					for _, l := range links {
						dl, err := DecodePath(l)
						if err != nil {
							rt.Fatalf("toc link %q: %v", l, err)
						}
						target := path.Join(path.Dir(name), dl)
						found := false
						for j := range b.Items {
							found = found || b.ZipName(j) == target
						}
						if !found {
							rt.Fatalf("toc link %q of %s resolves to %q which is no manifest item", l, name, target)
						}
					}
				}
			}
		}
		for i, r := range opf.Spine.Refs {
			j, ok := byID[r.IDRef]
			if !ok || j != b.Spine[i].Item || r.Linear != b.Spine[i].Linear {
				rt.Fatalf("spine %d: idref %s -> %d linear %q, want item %d linear %q", i, r.IDRef, j, r.Linear, b.Spine[i].Item, b.Spine[i].Linear)
			}
		}
		if opf.Spine.Toc != "" {
			j, ok := byID[opf.Spine.Toc]
			if !ok || opf.Items[j].MT != "application/x-dtbncx+xml" {
				rt.Fatalf("spine toc %q does not name the NCX", opf.Spine.Toc)
			}
		}
		hrefs := string(files[opfPath])
		for _, d := range b.Decoys {
			if _, ok := files[d.Path]; !ok {
				rt.Fatalf("decoy %s not written", d.Path)
			}
			for i := range b.Items {
				if b.ZipName(i) == d.Path {
					rt.Fatalf("decoy %s is a manifest item", d.Path)
				}
			}
		}
		_ = hrefs
		if len(b.Encryption) > 0 {
			var e rbEnc
			if err := xml.Unmarshal(files["META-INF/encryption.xml"], &e); err != nil || len(e.Data) != len(b.Encryption) {
				rt.Fatalf("encryption.xml: %v (%d entries)", err, len(e.Data))
			}
			for i, en := range b.Encryption {
				if e.Data[i].Method.Alg != en.Algorithm || e.Data[i].Ref.URI != en.URI {
					rt.Fatalf("encryption entry %d: %+v, want %+v", i, e.Data[i], en)
				}
			}
			if !bytes.Equal(files["META-INF/rights.xml"], DefaultRights) {
				rt.Fatalf("rights.xml not written")
			}
		} else if _, ok := files["META-INF/encryption.xml"]; ok {
			rt.Fatalf("unexpected encryption.xml")
		}
		raw2, _ := b.Bytes()
		if !bytes.Equal(raw, raw2) {
			rt.Fatalf("output not reproducible")
		}
	})
}

func TestEncodeDecode(t *testing.T) {
	cases := map[string][4]string{
		"ch 1.xhtml":       {"ch%201.xhtml", "ch%201.xhtml", "ch%201.xhtml", "ch%201.xhtml"},
		"ch+1.xhtml":       {"ch+1.xhtml", "ch+1.xhtml", "ch+1.xhtml", "ch%2B1.xhtml"},
		"Text/é.xhtml":     {"Text/é.xhtml", "Text/%C3%A9.xhtml", "Text/%c3%a9.xhtml", "Text/%C3%A9.xhtml"},
		"a%b#c.xhtml":      {"a%25b%23c.xhtml", "a%25b%23c.xhtml", "a%25b%23c.xhtml", "a%25b%23c.xhtml"},
		"../Text/x&y.html": {"../Text/x&y.html", "../Text/x&y.html", "../Text/x&y.html", "../Text/x%26y.html"},
	}
	for p, want := range cases {
		for i, st := range []string{"", "uri", "lower", "full"} {
			got := EncodePath(p, st)
			if got != want[i] {
				t.Errorf("EncodePath(%q,%q) = %q, want %q", p, st, got, want[i])
			}
			if back, err := DecodePath(got); err != nil || back != p {
				t.Errorf("DecodePath(%q) = %q, %v", got, back, err)
			}
		}
	}
	if _, err := DecodePath("a%2"); err == nil {
		t.Errorf("truncated escape accepted")
	}
	if _, err := DecodePath("a%zz"); err == nil {
		t.Errorf("bad escape accepted")
	}
}

func TestRelPath(t *testing.T) {
	cases := [][3]string{
		{"OEBPS", "OEBPS/Text/ch1.xhtml", "Text/ch1.xhtml"},
		{"OEBPS/Text", "OEBPS/toc.ncx", "../toc.ncx"},
		{".", "Text/a.xhtml", "Text/a.xhtml"},
		{"a/b", "c/d.xhtml", "../../c/d.xhtml"},
	}
	for _, c := range cases {
		if got := relPath(c[0], c[1]); got != c[2] || path.Join(c[0], got) != c[1] {
			t.Errorf("relPath(%s,%s) = %s, want %s", c[0], c[1], got, c[2])
		}
	}
}
