package epubw

import (
	"fmt"
	"path"
	"strings"

	"pgregory.net/rapid"

	"verif/harness/gen/zipw"
)

// TextFn supplies the text of one text-bearing spot. Properties that need to
// recognise text again pass a function returning unique tokens.
type TextFn func(t *rapid.T, where string) string

var words = strings.Fields("alpha bravo charlie delta echo foxtrot golf hotel india juliet kilo lima mike november oscar papa quebec romeo sierra tango")

// Words is a TextFn drawing 1..5 ordinary words.
func Words(t *rapid.T, where string) string {
	return strings.Join(rapid.SliceOfN(rapid.SampledFrom(words), 1, 5).Draw(t, where), " ")
}

// OPFPaths are package document locations seen in the wild (the location is
// free: EPUB33 4.2.6.3.1).
var OPFPaths = []string{"content.opf", "OEBPS/content.opf", "OPS/package.opf", "EPUB/package.opf", "OEBPS/pkg/book.opf", "a/b/c/d.opf"}

// GenChapter draws a chapter: optional heading, 1..2 paragraphs.
func GenChapter(t *rapid.T, text TextFn) Chapter {
	var c Chapter
	if rapid.Bool().Draw(t, "hasHeading") {
		c.Heading = text(t, "heading")
	}
	for i, n := 0, rapid.IntRange(1, 2).Draw(t, "paras"); i < n; i++ {
		c.Paras = append(c.Paras, text(t, "para"))
	}
	return c
}

// nameForms: %d is the file number. Blanks, non-ASCII letters and sub-delimiters
// (notably '+') are legal in OCF file names (EPUB33 4.2.4) and must be matched
// after percent-decoding the href (EPUB33 4.2.5, RFC 3986 2.1).
var nameForms = []string{"ch%d", "ch%d", "chapter%d", "chapter %d", "ch+%d", "chapître%d", "第%d章", "c_%d-(a)", "ch%d&co", "Kapitel %d ä", "ch#%d", "part%d#final", "50%%off%d", "ch%%41x%d"}
var dirForms = []string{"", "", "Text/", "text/sub/", "xhtml/"}
var extForms = []string{".xhtml", ".xhtml", ".xhtml", ".html", ".htm", ".xml"}
var hrefStyles = []string{"", "", "uri", "lower", "full"}

// GenBook draws a complete publication of 1..maxChapters spine chapters whose
// spine order, manifest order, file numbering and ZIP member order are drawn
// independently, with optional nav/NCX, non-linear and missing spine items, a
// manifest item outside the spine, auxiliary resources and decoy files.
// Rights and Encryption are left empty.
func GenBook(t *rapid.T, maxChapters int, text TextFn) Book {
	if text == nil {
		text = Words
	}
	b := Book{
		Version: rapid.SampledFrom([]string{"2.0", "3.0", "3.0"}).Draw(t, "version"),
		OPFPath: rapid.SampledFrom(OPFPaths).Draw(t, "opfPath"),
	}
	opfDir := path.Dir(b.OPFPath)
	n := rapid.IntRange(1, maxChapters).Draw(t, "chapters")
	nDecoy := rapid.IntRange(0, 4).Draw(t, "decoys") - 2
	if nDecoy < 0 {
		nDecoy = 0
	}
	unlisted := rapid.IntRange(0, 3).Draw(t, "unlisted") == 0
	total := n + nDecoy + 1
	pool := make([]int, total+8)
	for i := range pool {
		pool[i] = i + 1
	}
	nums := pool[:total]
	if rapid.IntRange(0, 9).Draw(t, "identityNumbering") > 0 {
		nums = rapid.Permutation(pool).Draw(t, "fileNumbers")[:total]
	}
	dir := rapid.SampledFrom(dirForms).Draw(t, "dir")
	if opfDir != "." && rapid.IntRange(0, 5).Draw(t, "siblingDir") == 0 {
		dir = "../Text/" // content next to, not below, the package document's directory
	}
	usedPaths := map[string]bool{}
	mkPath := func(k int) string {
		d := dir
		if rapid.IntRange(0, 4).Draw(t, "ownDir") == 0 {
			d = rapid.SampledFrom(dirForms).Draw(t, "itemDir")
		}
		p := d + fmt.Sprintf(rapid.SampledFrom(nameForms).Draw(t, "nameForm"), k) + rapid.SampledFrom(extForms).Draw(t, "ext")
		for usedPaths[strings.ToLower(path.Join(opfDir, p))] {
			p = strings.Replace(p, ".", "x.", 1)
		}
		usedPaths[strings.ToLower(path.Join(opfDir, p))] = true
		return p
	}
	// chapters (spine candidates), in spine order for now
	var items []Item
	for i := 0; i < n; i++ {
		items = append(items, Item{Path: mkPath(nums[i]), HrefStyle: rapid.SampledFrom(hrefStyles).Draw(t, "hrefStyle"), Chapter: GenChapter(t, text)})
	}
	spineItems := n
	if b.Version == "3.0" {
		if rapid.IntRange(0, 9).Draw(t, "hasNav") < 8 {
			it := Item{Path: dir + "nav.xhtml", Role: "nav"}
			usedPaths[strings.ToLower(path.Join(opfDir, it.Path))] = true
			if rapid.IntRange(0, 2).Draw(t, "navInSpine") == 0 {
				it.Chapter.Heading = text(t, "navHeading")
				// insert at a random spine position
				pos := rapid.IntRange(0, n).Draw(t, "navPos")
				items = append(items[:pos], append([]Item{it}, items[pos:]...)...)
				spineItems++
			} else {
				it.Chapter.Heading = "Contents" // nav outside the spine: an ordinary fixed heading
				items = append(items, it)
			}
		}
	}
	if (b.Version == "2.0" && rapid.IntRange(0, 9).Draw(t, "hasNCX") < 8) || (b.Version == "3.0" && rapid.IntRange(0, 2).Draw(t, "hasNCX3") == 0) {
		items = append(items, Item{Path: rapid.SampledFrom([]string{"toc.ncx", dir + "toc.ncx"}).Draw(t, "ncxPath"), Role: "ncx"})
	}
	if unlisted {
		items = append(items, Item{Path: mkPath(nums[n+nDecoy]), Chapter: Chapter{Paras: []string{text(t, "unlisted")}}})
	}
	for i, k := 0, rapid.IntRange(0, 2).Draw(t, "resources"); i < k; i++ {
		switch i {
		case 0:
			items = append(items, Item{Path: "styles/main.css", MediaType: "text/css"})
		case 1:
			items = append(items, Item{Path: "fonts/f.otf", MediaType: "font/otf"})
		}
	}
	// ids: independent numbering
	idForm := rapid.SampledFrom([]string{"item%d", "id-%d", "x%d", "ch%d"}).Draw(t, "idForm")
	idNums := make([]int, len(items))
	for i := range idNums {
		idNums[i] = i + 1
	}
	idNums = rapid.Permutation(idNums).Draw(t, "idNumbers")
	for i := range items {
		items[i].ID = fmt.Sprintf(idForm, idNums[i])
		if items[i].Role == "ncx" && rapid.Bool().Draw(t, "ncxStdId") {
			items[i].ID = "ncx"
		}
	}
	// manifest order: a permutation; remember where the spine items went
	order := make([]int, len(items))
	for i := range order {
		order[i] = i
	}
	if rapid.IntRange(0, 9).Draw(t, "manifestInSpineOrder") > 0 {
		order = rapid.Permutation(order).Draw(t, "manifestOrder")
	}
	pos := make([]int, len(items)) // old index -> manifest position
	for p, old := range order {
		b.Items = append(b.Items, items[old])
		pos[old] = p
	}
	for i := 0; i < spineItems; i++ {
		ref := SpineRef{Item: pos[i]}
		switch rapid.IntRange(0, 9).Draw(t, "linear") {
		case 0:
			ref.Linear = "yes"
		case 1, 2:
			if spineItems > 1 {
				ref.Linear = "no"
			}
		}
		b.Spine = append(b.Spine, ref)
	}
	// EPUB33 5.7.2: at least one itemref must be linear
	allNo := true
	for _, s := range b.Spine {
		allNo = allNo && s.Linear == "no"
	}
	if allNo {
		b.Spine[0].Linear = ""
	}
	// missing files: at most all but one of the spine items
	if spineItems > 1 {
		for i, k := 0, rapid.IntRange(0, 5).Draw(t, "missing"); i < k-3 && i < spineItems-1; i++ {
			j := rapid.IntRange(0, spineItems-1).Draw(t, "missingIdx")
			b.Items[b.Spine[j].Item].Missing = true
		}
		readable := 0
		for _, s := range b.Spine {
			if !b.Items[s.Item].Missing {
				readable++
			}
		}
		if readable == 0 {
			b.Items[b.Spine[0].Item].Missing = false
		}
	}
	// decoy files: in the content directory with tempting names, or at the root
	for i := 0; i < nDecoy; i++ {
		p := path.Join(opfDir, dir+fmt.Sprintf("ch%d.xhtml", nums[n+i]))
		if rapid.IntRange(0, 3).Draw(t, "decoyAtRoot") == 0 {
			p = fmt.Sprintf("chapter%d.xhtml", nums[n+i])
		}
		for usedPaths[strings.ToLower(p)] || strings.HasPrefix(p, "../") {
			p = strings.TrimPrefix(strings.Replace(p, ".", "d.", 1), "../")
		}
		usedPaths[strings.ToLower(p)] = true
		b.Decoys = append(b.Decoys, File{Path: p, Data: Chapter{Heading: text(t, "decoyHeading"), Paras: []string{text(t, "decoy")}}.XHTML(b.Version)})
	}
	// a file name that holds a literal "%41": its href is spelled "%2541"; the name decoded once more ("A") is a
	// different file, and sometimes exists
	for _, it := range b.Items {
		if full := path.Join(opfDir, it.Path); strings.Contains(full, "%41") && !strings.HasPrefix(full, "../") {
			if p := strings.ReplaceAll(full, "%41", "A"); !usedPaths[strings.ToLower(p)] && rapid.Bool().Draw(t, "decodedTwiceDecoy") {
				usedPaths[strings.ToLower(p)] = true
				b.Decoys = append(b.Decoys, File{Path: p, Data: Chapter{Heading: text(t, "decoyHeading"), Paras: []string{text(t, "decoy")}}.XHTML(b.Version)})
			}
		}
	}
	b.Opt.Zip = zipw.GenOrder(t, "zip")
	if rapid.IntRange(0, 9).Draw(t, "opfPrefix") == 0 {
		b.Opt.OPFPrefix = "opf"
	}
	b.Opt.ExtraRootfile = rapid.IntRange(0, 7).Draw(t, "extraRootfile") == 0
	b.Opt.ExtraRootfileFirst = b.Opt.ExtraRootfile && rapid.Bool().Draw(t, "extraRootfileFirst")
	return b
}
