// Package docxw is an independent writer of WordprocessingML (DOCX) packages
// from the logical model in gen/wpmodel. It shares no code with tabula and is
// written from ECMA-376 Part 1 (5th ed.) "Office Open XML File Formats" and
// Part 2 "Open Packaging Conventions"; clause numbers are cited next to every
// construct. Real Word is not available in the sandbox, so the writer keeps to
// the plain spellings Word itself produces (cross-read against the sample
// files in /repo/docx/testdata) and is validated by reading the package back
// with archive/zip + encoding/xml in docxw_test.go.
//
// Logical content comes from wpmodel.Doc; everything physical (ZIP member
// order, namespace prefix, XML spelling, optional parts, noise elements) is in
// Options, so the same Doc can be written in many equivalent ways.
package docxw

import (
	"fmt"
	"strconv"
	"strings"

	"pgregory.net/rapid"

	"verif/harness/gen/wpmodel"
)

// Namespaces and relationship / content types (ECMA-376 Part 1 annex A, Part 2 §9-10).
const (
	NsW   = "http://schemas.openxmlformats.org/wordprocessingml/2006/main"
	NsR   = "http://schemas.openxmlformats.org/officeDocument/2006/relationships"
	NsRel = "http://schemas.openxmlformats.org/package/2006/relationships"
	NsCT  = "http://schemas.openxmlformats.org/package/2006/content-types"

	RelOfficeDocument = "http://schemas.openxmlformats.org/officeDocument/2006/relationships/officeDocument"
	RelStyles         = "http://schemas.openxmlformats.org/officeDocument/2006/relationships/styles"
	RelNumbering      = "http://schemas.openxmlformats.org/officeDocument/2006/relationships/numbering"
	RelHeader         = "http://schemas.openxmlformats.org/officeDocument/2006/relationships/header"
	RelFooter         = "http://schemas.openxmlformats.org/officeDocument/2006/relationships/footer"
	RelHyperlink      = "http://schemas.openxmlformats.org/officeDocument/2006/relationships/hyperlink"
	RelSettings       = "http://schemas.openxmlformats.org/officeDocument/2006/relationships/settings"
	RelCoreProps      = "http://schemas.openxmlformats.org/package/2006/relationships/metadata/core-properties"
	RelExtProps       = "http://schemas.openxmlformats.org/officeDocument/2006/relationships/extended-properties"

	CTMain      = "application/vnd.openxmlformats-officedocument.wordprocessingml.document.main+xml"
	CTStyles    = "application/vnd.openxmlformats-officedocument.wordprocessingml.styles+xml"
	CTNumbering = "application/vnd.openxmlformats-officedocument.wordprocessingml.numbering+xml"
	CTHeader    = "application/vnd.openxmlformats-officedocument.wordprocessingml.header+xml"
	CTFooter    = "application/vnd.openxmlformats-officedocument.wordprocessingml.footer+xml"
	CTSettings  = "application/vnd.openxmlformats-officedocument.wordprocessingml.settings+xml"
	CTCore      = "application/vnd.openxmlformats-package.core-properties+xml"
	CTApp       = "application/vnd.openxmlformats-officedocument.extended-properties+xml"
)

// Options are the physical choices of one package. The zero value is the
// spelling Word uses.
type Options struct {
	XML wpmodel.XMLStyle `json:"xml"`

	// Prefix bound to the WordprocessingML namespace ("" = "w"). Any NCName is
	// legal (Namespaces in XML 1.0 §3); "-" selects the default namespace for
	// elements (attributes keep the prefix "w", because unprefixed attributes
	// are in no namespace, ibid. §6.2).
	Prefix string `json:"prefix,omitempty"`

	// Order is applied to the canonical member list with wpmodel.Permute
	// (OPC §10.2 does not constrain ZIP item order).
	Order []int `json:"order,omitempty"`
	// StoreAll writes every member uncompressed (OPC §10.2.5 allows methods 0 and 8).
	StoreAll bool `json:"store_all,omitempty"`

	AlwaysStyles    bool `json:"always_styles,omitempty"`    // write word/styles.xml even when no block needs it
	AlwaysNumbering bool `json:"always_numbering,omitempty"` // write word/numbering.xml even without list items
	Settings        bool `json:"settings,omitempty"`         // add a word/settings.xml part
	SectPr          bool `json:"sect_pr,omitempty"`          // final w:sectPr even without header/footer (17.6.17; Word always writes it)

	Noise          bool `json:"noise,omitempty"`           // rsid attributes (17.3.1.22), w:proofErr (17.13.8.1), bookmarks (17.13.6.2), w:lastRenderedPageBreak (17.3.3.13), empty w:rPr
	JoinText       bool `json:"join_text,omitempty"`       // adjacent text/blank items of one run share a single w:t
	NoPreserve     bool `json:"no_preserve,omitempty"`     // omit xml:space="preserve" on w:t whose content has no leading/trailing blank (17.3.3.31: only needed to keep such blanks)
	BreakType      bool `json:"break_type,omitempty"`      // spell line breaks <w:br w:type="textWrapping"/> (17.3.3.1: the default type)
	VMergeContinue bool `json:"vmerge_continue,omitempty"` // continuation cells as <w:vMerge w:val="continue"/> instead of <w:vMerge/> (17.4.85: val defaults to continue)
	SpanOne        bool `json:"span_one,omitempty"`        // write <w:gridSpan w:val="1"/> on unmerged cells (17.4.17: 1 is the default)
	BulletPUA      bool `json:"bullet_pua,omitempty"`      // bullets as U+F0B7 in font Symbol (what Word writes) instead of U+2022
	LvlOrder       int  `json:"lvl_order,omitempty"`       // w:lvl elements of an abstractNum: 0 = levels 0..8, 1 = 8..0, 2 = only the levels in use
	NumIDShift     int  `json:"num_id_shift,omitempty"`    // numId of list i is i+1+NumIDShift (17.9.18: any positive integer)
	OmitIlvl0      bool `json:"omit_ilvl0,omitempty"`      // list items of depth 0 omit w:ilvl (17.9.3: level 0 is assumed when absent)
	NoTcPr         bool `json:"no_tc_pr,omitempty"`        // unmerged cells carry no w:tcPr at all (17.4.70: optional)
	TableStyle     bool `json:"table_style,omitempty"`     // tables reference a TableGrid style and carry w:tblLook
	ItemStyle      bool `json:"item_style,omitempty"`      // list paragraphs carry pStyle ListParagraph (as Word does)
	// GridAfter: see table()
	GridAfter bool `json:"grid_after,omitempty"`
	// NestedEmptyTable: the first cell of every table holds an empty 1x1 table behind its paragraphs
	NestedEmptyTable bool `json:"nested_empty_table,omitempty"`
	DirectStyled     bool `json:"direct_styled,omitempty"` // headings made by a direct w:outlineLvl also reference the non-heading style BodyText (17.3.1.20: the paragraph property overrides the style's for this paragraph only)

	// Extra members appended to the canonical list (theme, thumbnails, decoys).
	Extra []wpmodel.Member `json:"extra,omitempty"`
}

// GenOptions draws a set of physical options.
func GenOptions(t *rapid.T) Options {
	var o Options
	o.XML.Decl = rapid.SampledFrom([]string{"", "", "short", "none"}).Draw(t, "decl")
	o.XML.ExplicitEnd = rapid.Bool().Draw(t, "explicit_end")
	o.XML.AttrReverse = rapid.Bool().Draw(t, "attr_reverse")
	o.XML.SingleQuote = rapid.IntRange(0, 3).Draw(t, "squote") == 3
	o.XML.Pretty = rapid.IntRange(0, 3).Draw(t, "pretty") == 3
	o.XML.CharRefs = rapid.IntRange(0, 3).Draw(t, "charrefs") == 3
	o.Prefix = rapid.SampledFrom([]string{"", "", "ns0", "x", "-"}).Draw(t, "prefix")
	if rapid.Bool().Draw(t, "shuffle") {
		o.Order = rapid.Permutation([]int{0, 1, 2, 3, 4, 5, 6, 7, 8, 9, 10, 11}).Draw(t, "order")
	}
	o.StoreAll = rapid.IntRange(0, 3).Draw(t, "store") == 3
	o.AlwaysStyles = rapid.Bool().Draw(t, "always_styles")
	o.AlwaysNumbering = rapid.IntRange(0, 3).Draw(t, "always_numbering") == 3
	o.Settings = rapid.Bool().Draw(t, "settings")
	o.SectPr = rapid.Bool().Draw(t, "sectpr")
	o.Noise = rapid.Bool().Draw(t, "noise")
	o.JoinText = rapid.Bool().Draw(t, "join_text")
	o.NoPreserve = rapid.Bool().Draw(t, "no_preserve")
	o.BreakType = rapid.Bool().Draw(t, "break_type")
	o.VMergeContinue = rapid.Bool().Draw(t, "vmerge_continue")
	o.SpanOne = rapid.IntRange(0, 3).Draw(t, "span_one") == 3
	o.BulletPUA = rapid.Bool().Draw(t, "bullet_pua")
	o.NumIDShift = rapid.SampledFrom([]int{0, 0, 4, 10}).Draw(t, "numid_shift")
	o.LvlOrder = rapid.SampledFrom([]int{0, 0, 1, 2}).Draw(t, "lvl_order")
	o.OmitIlvl0 = rapid.Bool().Draw(t, "omit_ilvl0")
	o.NoTcPr = rapid.Bool().Draw(t, "no_tcpr")
	o.TableStyle = rapid.Bool().Draw(t, "table_style")
	o.ItemStyle = rapid.Bool().Draw(t, "item_style")
	o.NestedEmptyTable = rapid.IntRange(0, 3).Draw(t, "nested_empty_table") == 0
	o.GridAfter = rapid.Bool().Draw(t, "grid_after")
	o.DirectStyled = rapid.IntRange(0, 2).Draw(t, "direct_styled") == 0
	if rapid.IntRange(0, 3).Draw(t, "extras") == 3 {
		// parts Word writes besides the ones tabula reads, and a directory entry
		o.Extra = []wpmodel.Member{
			{Name: "word/theme/theme1.xml", Data: []byte(`<?xml version="1.0" encoding="UTF-8" standalone="yes"?><a:theme xmlns:a="http://schemas.openxmlformats.org/drawingml/2006/main" name="Office"/>`)},
			{Name: "docProps/thumbnail.jpeg", Data: []byte{0xFF, 0xD8, 0xFF, 0xD9}},
			{Name: "customXml/item1.xml", Data: []byte(`<?xml version="1.0"?><root><p>not a paragraph</p></root>`)},
			{Name: "customXml/"},
		}
		if o.Order != nil {
			o.Order = rapid.Permutation([]int{0, 1, 2, 3, 4, 5, 6, 7, 8, 9, 10, 11, 12, 13, 14, 15}).Draw(t, "order_extras")
		}
	}
	return o
}

// Write returns the bytes of a DOCX package holding d.
func Write(d wpmodel.Doc, o Options) ([]byte, error) {
	parts, err := Parts(d, o)
	if err != nil {
		return nil, err
	}
	if o.StoreAll {
		for i := range parts {
			parts[i].Store = true
		}
	}
	return wpmodel.Zip(wpmodel.Permute(parts, o.Order))
}

// Parts returns the package members in canonical order ([Content_Types].xml,
// _rels/.rels, word/document.xml, word/_rels/document.xml.rels, then the
// optional parts, then o.Extra) without applying o.Order, so callers can add,
// rename or drop members before zipping them with wpmodel.Zip.
func Parts(d wpmodel.Doc, o Options) ([]wpmodel.Member, error) {
	if err := d.Validate(); err != nil {
		return nil, err
	}
	w := &writer{d: d, o: o}
	return w.parts(), nil
}

// NumID is the w:numId written for list index i under the options.
func (o Options) NumID(i int) int { return i + 1 + o.NumIDShift }

// ---------------------------------------------------------------------------

type rel struct{ id, typ, target, mode string }

type writer struct {
	d     wpmodel.Doc
	o     Options
	rels  []rel // relationships of the main document part
	nlink int
	nbm   int
	nins  int
}

func (w *writer) pfx() string {
	if w.o.Prefix == "" || w.o.Prefix == "-" {
		return "w"
	}
	return w.o.Prefix
}

// e is the qualified name of a WordprocessingML element.
func (w *writer) e(local string) string {
	if w.o.Prefix == "-" {
		return local
	}
	return w.pfx() + ":" + local
}

// a is the qualified name of a WordprocessingML attribute (always prefixed).
func (w *writer) a(local string) string { return w.pfx() + ":" + local }

func (w *writer) rootAttrs() []string {
	kv := []string{}
	if w.o.Prefix == "-" {
		kv = append(kv, "xmlns", NsW)
	}
	kv = append(kv, "xmlns:"+w.pfx(), NsW, "xmlns:r", NsR)
	return kv
}

func (w *writer) needStyles() bool {
	if w.o.AlwaysStyles || w.o.TableStyle || w.o.ItemStyle || w.d.Header != nil || w.d.Footer != nil {
		return true
	}
	for _, b := range w.d.Blocks {
		if b.Kind == wpmodel.BHeading && (b.How != wpmodel.HowDirect || w.o.DirectStyled) {
			return true
		}
		if b.Kind == wpmodel.BPara && b.Style != "" {
			return true
		}
	}
	return false
}

func (w *writer) needNumbering() bool {
	if w.o.AlwaysNumbering {
		return true
	}
	for _, b := range w.d.Blocks {
		if b.Kind == wpmodel.BItem {
			return true
		}
	}
	return false
}

func (w *writer) parts() []wpmodel.Member {
	hasStyles, hasNum := w.needStyles(), w.needNumbering()
	// relationships first: ids are needed while the body is written
	if hasStyles {
		w.rels = append(w.rels, rel{"rId1", RelStyles, "styles.xml", ""})
	}
	if hasNum {
		w.rels = append(w.rels, rel{"rId2", RelNumbering, "numbering.xml", ""})
	}
	if w.d.Header != nil {
		w.rels = append(w.rels, rel{"rId3", RelHeader, "header1.xml", ""})
	}
	if w.d.Footer != nil {
		w.rels = append(w.rels, rel{"rId4", RelFooter, "footer1.xml", ""})
	}
	if w.o.Settings {
		w.rels = append(w.rels, rel{"rId5", RelSettings, "settings.xml", ""})
	}
	doc := w.document()

	type ov struct{ part, ct string }
	overrides := []ov{{"/word/document.xml", CTMain}}
	var members []wpmodel.Member
	members = append(members, wpmodel.Member{Name: "word/document.xml", Data: doc})
	if len(w.rels) > 0 {
		members = append(members, wpmodel.Member{Name: "word/_rels/document.xml.rels", Data: w.relsXML(w.rels)})
	}
	if hasStyles {
		members = append(members, wpmodel.Member{Name: "word/styles.xml", Data: w.styles()})
		overrides = append(overrides, ov{"/word/styles.xml", CTStyles})
	}
	if hasNum {
		members = append(members, wpmodel.Member{Name: "word/numbering.xml", Data: w.numbering()})
		overrides = append(overrides, ov{"/word/numbering.xml", CTNumbering})
	}
	if w.d.Header != nil {
		members = append(members, wpmodel.Member{Name: "word/header1.xml", Data: w.marginal("hdr", w.d.Header)})
		overrides = append(overrides, ov{"/word/header1.xml", CTHeader})
	}
	if w.d.Footer != nil {
		members = append(members, wpmodel.Member{Name: "word/footer1.xml", Data: w.marginal("ftr", w.d.Footer)})
		overrides = append(overrides, ov{"/word/footer1.xml", CTFooter})
	}
	if w.o.Settings {
		x := wpmodel.NewXW(w.o.XML)
		x.Open(w.e("settings"), w.rootAttrs()...)
		x.Empty(w.e("zoom"), w.a("percent"), "100")
		x.Empty(w.e("defaultTabStop"), w.a("val"), "720")
		x.Close(w.e("settings"))
		members = append(members, wpmodel.Member{Name: "word/settings.xml", Data: x.Bytes()})
		overrides = append(overrides, ov{"/word/settings.xml", CTSettings})
	}
	pkgRels := []rel{{"rId1", RelOfficeDocument, "word/document.xml", ""}}
	if w.d.Meta != nil {
		members = append(members, wpmodel.Member{Name: "docProps/core.xml", Data: w.core()}, wpmodel.Member{Name: "docProps/app.xml", Data: w.app()})
		overrides = append(overrides, ov{"/docProps/core.xml", CTCore}, ov{"/docProps/app.xml", CTApp})
		pkgRels = append(pkgRels, rel{"rId2", RelCoreProps, "docProps/core.xml", ""}, rel{"rId3", RelExtProps, "docProps/app.xml", ""})
	}

	// [Content_Types].xml (OPC §10.1.2.2): Default for the two extensions, Override per part
	ct := wpmodel.NewXW(w.o.XML)
	ct.Open("Types", "xmlns", NsCT)
	ct.Empty("Default", "Extension", "rels", "ContentType", "application/vnd.openxmlformats-package.relationships+xml")
	ct.Empty("Default", "Extension", "xml", "ContentType", "application/xml")
	seenExt := map[string]bool{"rels": true, "xml": true}
	for _, m := range w.o.Extra {
		// OPC §10.1.2.2.2: every part needs a content type; extras get a Default by extension
		if i := strings.LastIndex(m.Name, "."); i >= 0 && !strings.HasSuffix(m.Name, "/") && !seenExt[m.Name[i+1:]] {
			seenExt[m.Name[i+1:]] = true
			ct.Empty("Default", "Extension", m.Name[i+1:], "ContentType", "application/octet-stream")
		}
	}
	for _, v := range overrides {
		ct.Empty("Override", "PartName", v.part, "ContentType", v.ct)
	}
	ct.Close("Types")

	head := []wpmodel.Member{
		{Name: "[Content_Types].xml", Data: ct.Bytes()},
		{Name: "_rels/.rels", Data: w.relsXML(pkgRels)},
	}
	out := append(head, members...)
	return append(out, w.o.Extra...)
}

// relsXML writes a relationships part (OPC §9.3).
func (w *writer) relsXML(rs []rel) []byte {
	x := wpmodel.NewXW(w.o.XML)
	x.Open("Relationships", "xmlns", NsRel)
	for _, r := range rs {
		kv := []string{"Id", r.id, "Type", r.typ, "Target", r.target}
		if r.mode != "" {
			kv = append(kv, "TargetMode", r.mode)
		}
		x.Empty("Relationship", kv...)
	}
	x.Close("Relationships")
	return x.Bytes()
}

// ---- main document part (ECMA-376 Part 1 §17.2) ---------------------------

func (w *writer) document() []byte {
	x := wpmodel.NewXW(w.o.XML)
	x.Open(w.e("document"), w.rootAttrs()...)
	x.Open(w.e("body")) // 17.2.2: block-level content, optional final sectPr
	for i, b := range w.d.Blocks {
		switch b.Kind {
		case wpmodel.BTable:
			w.table(x, b.Table)
		default:
			w.paragraph(x, b, i)
		}
	}
	if w.o.SectPr || w.d.Header != nil || w.d.Footer != nil {
		x.Open(w.e("sectPr")) // 17.6.17
		if w.d.Header != nil {
			x.Empty(w.e("headerReference"), w.a("type"), "default", "r:id", "rId3") // 17.10.5
		}
		if w.d.Footer != nil {
			x.Empty(w.e("footerReference"), w.a("type"), "default", "r:id", "rId4") // 17.10.2
		}
		x.Empty(w.e("pgSz"), w.a("w"), "12240", w.a("h"), "15840")
		x.Close(w.e("sectPr"))
	}
	x.Close(w.e("body"))
	x.Close(w.e("document"))
	return x.Bytes()
}

// HeadingStyleID is the paragraph style id a heading block references ("" for
// the direct mechanism).
func HeadingStyleID(how string, level int) string {
	n := strconv.Itoa(level)
	switch how {
	case wpmodel.HowBuiltin:
		return "Heading" + n
	case wpmodel.HowLocalized:
		return "berschrift" + n // styleId of "Überschrift N" in a German Word; w:name stays "heading N"
	case wpmodel.HowCustom:
		return "ChapterTitle" + n
	case wpmodel.HowBased:
		return "SectionHead" + n
	case wpmodel.HowBased2:
		return "SectionSubHead" + n
	case wpmodel.HowOverride:
		return "Reassigned" + n
	}
	return ""
}

func paraStyleID(s string) string {
	switch s {
	case "body":
		return "BodyText"
	case "quote":
		return "Quote"
	case "lead":
		return "Lead" // based on a bold 16 pt style, with bold switched off again: an ordinary paragraph
	}
	return ""
}

func (w *writer) paragraph(x *wpmodel.XW, b wpmodel.Block, idx int) {
	var kv []string
	if w.o.Noise {
		kv = []string{w.a("rsidR"), "00A1B2C3", w.a("rsidRDefault"), "00A1B2C3"} // 17.3.1.22 attributes of CT_P
	}
	x.Open(w.e("p"), kv...)
	// w:pPr children in schema order (CT_PPrBase 17.3.1.26): pStyle, numPr, …, outlineLvl
	var style string
	var num, outline bool
	switch b.Kind {
	case wpmodel.BHeading:
		style = HeadingStyleID(b.How, b.Level)
		outline = b.How == wpmodel.HowDirect
		if outline && w.o.DirectStyled {
			style = "BodyText"
		}
		num = b.Numbered
	case wpmodel.BItem:
		num = true
		if w.o.ItemStyle {
			style = "ListParagraph"
		}
	case wpmodel.BPara:
		style = paraStyleID(b.Style)
	}
	numOff := b.NumOff && !num
	if style != "" || num || outline || numOff {
		x.Open(w.e("pPr"))
		if style != "" {
			x.Empty(w.e("pStyle"), w.a("val"), style) // 17.3.1.27
		}
		if num {
			x.Open(w.e("numPr")) // 17.3.1.19
			if b.Depth > 0 || !w.o.OmitIlvl0 {
				x.Empty(w.e("ilvl"), w.a("val"), strconv.Itoa(b.Depth))
			}
			x.Empty(w.e("numId"), w.a("val"), strconv.Itoa(w.o.NumID(b.List)))
			x.Close(w.e("numPr"))
		}
		if numOff {
			x.Open(w.e("numPr")) // numbering switched off for this paragraph (17.9.18: numId 0)
			if idx%2 == 0 {
				x.Empty(w.e("ilvl"), w.a("val"), "0")
			}
			x.Empty(w.e("numId"), w.a("val"), "0")
			x.Close(w.e("numPr"))
		}
		if outline {
			x.Empty(w.e("outlineLvl"), w.a("val"), strconv.Itoa(b.Level-1)) // 17.3.1.20: 0-based, 0..8 = heading levels 1..9
		}
		x.Close(w.e("pPr"))
	}
	w.runs(x, b.Runs, true)
	x.Close(w.e("p"))
}

// runs writes the inline content of a paragraph (17.3.2, 17.3.3).
func (w *writer) runs(x *wpmodel.XW, p wpmodel.Para, body bool) {
	noise := w.o.Noise && body
	if noise && len(p) > 0 {
		w.nbm++
		x.Empty(w.e("bookmarkStart"), w.a("id"), strconv.Itoa(w.nbm), w.a("name"), fmt.Sprintf("bm%d", w.nbm)) // 17.13.6.2
	}
	for ri, r := range p {
		if noise && ri == 1 {
			x.Empty(w.e("proofErr"), w.a("type"), "spellStart") // 17.13.8.1
		}
		end := ""
		switch r.Wrap {
		case wpmodel.WLink:
			if body {
				w.nlink++
				id := fmt.Sprintf("rId%d", 100+w.nlink)
				w.rels = append(w.rels, rel{id, RelHyperlink, fmt.Sprintf("https://example.org/%d", w.nlink), "External"})
				x.Open(w.e("hyperlink"), "r:id", id, w.a("history"), "1") // 17.16.22
			} else {
				x.Open(w.e("hyperlink"), w.a("anchor"), "top")
			}
			end = "hyperlink"
		case wpmodel.WIns:
			w.nins++
			x.Open(w.e("ins"), w.a("id"), strconv.Itoa(900+w.nins), w.a("author"), "Reviewer", w.a("date"), "2024-01-01T00:00:00Z") // 17.13.5.18
			end = "ins"
		case wpmodel.WSdt:
			x.Open(w.e("sdt")) // 17.5.2.31 (inline-level structured document tag)
			x.Open(w.e("sdtPr"))
			x.Empty(w.e("id"), w.a("val"), "12345")
			x.Close(w.e("sdtPr"))
			x.Open(w.e("sdtContent")) // 17.5.2.36
			end = "sdt"
		case wpmodel.WSmart:
			x.Open(w.e("smartTag"), w.a("uri"), "urn:schemas-microsoft-com:office:smarttags", w.a("element"), "place") // 17.5.1.9
			end = "smartTag"
		}
		w.run(x, r, noise && ri == 0)
		switch end {
		case "sdt":
			x.Close(w.e("sdtContent"))
			x.Close(w.e("sdt"))
		case "":
		default:
			x.Close(w.e(end))
		}
		if noise && ri == 1 {
			x.Empty(w.e("proofErr"), w.a("type"), "spellEnd")
		}
	}
	if noise && len(p) > 0 {
		x.Empty(w.e("bookmarkEnd"), w.a("id"), strconv.Itoa(w.nbm))
		x.Open(w.e("r")) // a run without content (17.3.2.25: all children optional)
		x.Empty(w.e("rPr"))
		x.Close(w.e("r"))
	}
}

// run writes one w:r (17.3.2.25). Its children appear in the order of the
// model's inline items (CT_R is a choice group repeated any number of times,
// so any interleaving of w:t, w:tab, w:br, w:sym is schema-valid).
func (w *writer) run(x *wpmodel.XW, r wpmodel.Run, pageMark bool) {
	var kv []string
	if w.o.Noise {
		kv = []string{w.a("rsidRPr"), "00D4E5F6"}
	}
	x.Open(w.e("r"), kv...)
	if r.Styled {
		// direct formatting; never bold together with >= 14 pt (see DESIGN.md §8)
		x.Open(w.e("rPr")) // 17.3.2.28, children in schema order: b, i, color, sz
		x.Empty(w.e("i"))
		x.Empty(w.e("color"), w.a("val"), "336699")
		x.Empty(w.e("sz"), w.a("val"), "20")
		x.Close(w.e("rPr"))
	} else if w.o.Noise {
		x.Empty(w.e("rPr"))
	}
	if pageMark {
		x.Empty(w.e("lastRenderedPageBreak")) // 17.3.3.13: carries no content
	}
	items := r.Items
	for i := 0; i < len(items); i++ {
		it := items[i]
		switch it.Kind {
		case wpmodel.KText, wpmodel.KSpace:
			s := it.String()
			if w.o.JoinText {
				for i+1 < len(items) && (items[i+1].Kind == wpmodel.KText || items[i+1].Kind == wpmodel.KSpace) {
					i++
					s += items[i].String()
				}
			}
			w.t(x, s)
		case wpmodel.KTab:
			x.Empty(w.e("tab")) // 17.3.3.32
		case wpmodel.KBreak:
			if w.o.BreakType {
				x.Empty(w.e("br"), w.a("type"), "textWrapping") // 17.3.3.1
			} else {
				x.Empty(w.e("br"))
			}
		case wpmodel.KSym:
			// 17.3.3.30: character w:char of font w:font. With a Unicode font the
			// code is the Unicode code point (no F000 symbol-font offset).
			x.Empty(w.e("sym"), w.a("font"), "Segoe UI Symbol", w.a("char"), fmt.Sprintf("%04X", []rune(it.Text)[0]))
		}
	}
	x.Close(w.e("r"))
}

// t writes a w:t (17.3.3.31). xml:space="preserve" is required only when the
// content starts or ends with white space; Word adds it in exactly that case.
func (w *writer) t(x *wpmodel.XW, s string) {
	edge := strings.HasPrefix(s, " ") || strings.HasSuffix(s, " ")
	if edge || !w.o.NoPreserve {
		x.Leaf(w.e("t"), s, "xml:space", "preserve")
	} else {
		x.Leaf(w.e("t"), s)
	}
}

// ---- tables (17.4) ----------------------------------------------------------

func (w *writer) table(x *wpmodel.XW, t *wpmodel.Table) {
	x.Open(w.e("tbl")) // 17.4.38
	x.Open(w.e("tblPr"))
	if w.o.TableStyle {
		x.Empty(w.e("tblStyle"), w.a("val"), "TableGrid")
	}
	x.Empty(w.e("tblW"), w.a("w"), "0", w.a("type"), "auto")
	if w.o.TableStyle {
		x.Empty(w.e("tblLook"), w.a("val"), "04A0")
	}
	x.Close(w.e("tblPr"))
	x.Open(w.e("tblGrid")) // 17.4.49: one gridCol per grid column
	for c := 0; c < t.Cols; c++ {
		x.Empty(w.e("gridCol"), w.a("w"), "1870")
	}
	x.Close(w.e("tblGrid"))
	g := t.Anchor()
	for r := 0; r < t.Rows; r++ {
		x.Open(w.e("tr")) // 17.4.79
		// GridAfter: an empty, unmerged last cell of the first row is not written; the row says that it leaves one
		// grid column unused behind its last cell (17.4.14 gridAfter). The row is shorter than the table is wide.
		skipLast := false
		if w.o.GridAfter && r == 0 && t.Cols >= 2 && t.Rows >= 2 {
			last := t.Cells[g[0][t.Cols-1]]
			empty := last.RS == 1 && last.CS == 1
			for _, p := range last.Paras {
				empty = empty && len(p) == 0
			}
			skipLast = empty
		}
		if r < t.HeaderRows || skipLast {
			x.Open(w.e("trPr"))
			if skipLast {
				x.Empty(w.e("gridAfter"), w.a("val"), "1")
			}
			if r < t.HeaderRows {
				x.Empty(w.e("tblHeader")) // 17.4.50
			}
			x.Close(w.e("trPr"))
		}
		for c := 0; c < t.Cols; {
			if skipLast && c == t.Cols-1 {
				break
			}
			cell := t.Cells[g[r][c]]
			x.Open(w.e("tc")) // 17.4.66
			plain := cell.CS == 1 && cell.RS == 1 && w.o.NoTcPr && !w.o.SpanOne
			if !plain {
				x.Open(w.e("tcPr"))
				x.Empty(w.e("tcW"), w.a("w"), strconv.Itoa(1870*cell.CS), w.a("type"), "dxa")
			}
			if cell.CS > 1 || w.o.SpanOne {
				x.Empty(w.e("gridSpan"), w.a("val"), strconv.Itoa(cell.CS)) // 17.4.17
			}
			if cell.RS > 1 {
				// 17.4.85: first cell of a vertically merged region "restart", every
				// following row carries a cell with vMerge (val omitted or "continue")
				if r == cell.R {
					x.Empty(w.e("vMerge"), w.a("val"), "restart")
				} else if w.o.VMergeContinue {
					x.Empty(w.e("vMerge"), w.a("val"), "continue")
				} else {
					x.Empty(w.e("vMerge"))
				}
			}
			if !plain {
				x.Close(w.e("tcPr"))
			}
			if r == cell.R {
				for _, p := range cell.Paras {
					x.Open(w.e("p"))
					w.runs(x, p, true)
					x.Close(w.e("p"))
				}
				if w.o.NestedEmptyTable && r == 0 && c == 0 {
					// an empty 1x1 table nested in the first cell (a layout remnant), and the paragraph that must
					// follow it (17.4.66): it adds no text; tables below w:body are the top-level ones
					x.Open(w.e("tbl"))
					x.Open(w.e("tblPr"))
					x.Empty(w.e("tblW"), w.a("w"), "0", w.a("type"), "auto")
					x.Close(w.e("tblPr"))
					x.Open(w.e("tblGrid"))
					x.Empty(w.e("gridCol"), w.a("w"), "900")
					x.Close(w.e("tblGrid"))
					x.Open(w.e("tr"))
					x.Open(w.e("tc"))
					x.Empty(w.e("p"))
					x.Close(w.e("tc"))
					x.Close(w.e("tr"))
					x.Close(w.e("tbl"))
					x.Empty(w.e("p"))
				}
			} else {
				x.Empty(w.e("p")) // 17.4.66: a cell must end with a paragraph; continuation cells are empty
			}
			x.Close(w.e("tc"))
			c += cell.CS
		}
		x.Close(w.e("tr"))
	}
	x.Close(w.e("tbl"))
}

// ---- header / footer parts (17.10.3, 17.10.4) ------------------------------

func (w *writer) marginal(root string, paras []wpmodel.Para) []byte {
	x := wpmodel.NewXW(w.o.XML)
	x.Open(w.e(root), w.rootAttrs()...)
	for _, p := range paras {
		x.Open(w.e("p"))
		x.Open(w.e("pPr"))
		if root == "hdr" {
			x.Empty(w.e("pStyle"), w.a("val"), "Header")
		} else {
			x.Empty(w.e("pStyle"), w.a("val"), "Footer")
		}
		x.Close(w.e("pPr"))
		w.runs(x, p, false)
		x.Close(w.e("p"))
	}
	x.Close(w.e(root))
	return x.Bytes()
}

// ---- styles part (17.7) ----------------------------------------------------

// StyleDef is one paragraph style of the styles part.
type StyleDef struct {
	ID, Name, BasedOn string
	Outline           int // w:outlineLvl value (0-based), -1 = none
	Bold              bool
	HalfPts           int // w:sz, 0 = none
	Italic            bool
	BoldOff           bool // <w:b w:val="0"/>: the style switches off the bold it inherits (17.3.2.1: a toggle property)
}

// StyleTable returns the paragraph styles the writer defines for d: the
// definitions needed by the heading mechanisms in use plus Normal, BodyText,
// Quote, ListParagraph, Header and Footer. Exposed for the unit tests and for
// checks that want to reason about the style part.
func StyleTable(d wpmodel.Doc) []StyleDef { return styleTable(d) }

func styleTable(d wpmodel.Doc) []StyleDef {
	defs := []StyleDef{
		{ID: "Normal", Name: "Normal", Outline: -1},
		// non-heading styles: never bold together with >= 14 pt
		{ID: "BodyText", Name: "Body Text", BasedOn: "Normal", Outline: -1, HalfPts: 22},
		{ID: "Quote", Name: "Quote", BasedOn: "Normal", Outline: -1, Italic: true, HalfPts: 24},
		{ID: "LeadBase", Name: "Lead Base", BasedOn: "Normal", Outline: -1, Bold: true, HalfPts: 32},
		{ID: "Lead", Name: "Lead", BasedOn: "LeadBase", Outline: -1, BoldOff: true},
		{ID: "ListParagraph", Name: "List Paragraph", BasedOn: "Normal", Outline: -1},
		{ID: "Header", Name: "header", BasedOn: "Normal", Outline: -1},
		{ID: "Footer", Name: "footer", BasedOn: "Normal", Outline: -1},
	}
	seen := map[string]bool{}
	add := func(s StyleDef) {
		if !seen[s.ID] {
			seen[s.ID] = true
			defs = append(defs, s)
		}
	}
	size := func(level int) int { // Word's defaults: 20, 16, 14, 12 … pt
		switch level {
		case 1:
			return 40
		case 2:
			return 32
		case 3:
			return 28
		}
		return 24
	}
	builtin := func(level int) {
		add(StyleDef{ID: "Heading" + strconv.Itoa(level), Name: "heading " + strconv.Itoa(level), BasedOn: "Normal", Outline: level - 1, Bold: true, HalfPts: size(level)})
	}
	for _, b := range d.Blocks {
		if b.Kind != wpmodel.BHeading {
			continue
		}
		n := strconv.Itoa(b.Level)
		id := HeadingStyleID(b.How, b.Level)
		switch b.How {
		case wpmodel.HowBuiltin:
			builtin(b.Level)
		case wpmodel.HowLocalized:
			// 17.7.4.9: w:name is the primary (English) name even in a localised UI
			add(StyleDef{ID: id, Name: "heading " + n, BasedOn: "Normal", Outline: b.Level - 1, Bold: true, HalfPts: size(b.Level)})
		case wpmodel.HowCustom:
			add(StyleDef{ID: id, Name: "Chapter Title L" + n, BasedOn: "Normal", Outline: b.Level - 1, HalfPts: 26})
		case wpmodel.HowBased:
			builtin(b.Level)
			add(StyleDef{ID: id, Name: "Section Head L" + n, BasedOn: "Heading" + n, Outline: -1})
		case wpmodel.HowBased2:
			builtin(b.Level)
			add(StyleDef{ID: "SectionHead" + n, Name: "Section Head L" + n, BasedOn: "Heading" + n, Outline: -1})
			add(StyleDef{ID: id, Name: "Section Sub Head L" + n, BasedOn: "SectionHead" + n, Outline: -1, Italic: true})
		case wpmodel.HowOverride:
			other := OverrideBase(b.Level)
			builtin(other)
			// 17.7.2: a property set in the style itself wins over the basedOn chain
			add(StyleDef{ID: id, Name: "Reassigned L" + n, BasedOn: "Heading" + strconv.Itoa(other), Outline: b.Level - 1})
		}
	}
	return defs
}

// OverrideBase is the level of the built-in heading style an "override" style
// for the given level is based on (always a different level).
func OverrideBase(level int) int {
	if level == 1 {
		return 2
	}
	return level - 1
}

func (w *writer) styles() []byte {
	x := wpmodel.NewXW(w.o.XML)
	x.Open(w.e("styles"), w.rootAttrs()...)
	x.Open(w.e("docDefaults")) // 17.7.5.1
	x.Open(w.e("rPrDefault"))
	x.Open(w.e("rPr"))
	x.Empty(w.e("rFonts"), w.a("ascii"), "Calibri", w.a("hAnsi"), "Calibri")
	x.Empty(w.e("sz"), w.a("val"), "22")
	x.Close(w.e("rPr"))
	x.Close(w.e("rPrDefault"))
	x.Close(w.e("docDefaults"))
	for _, s := range styleTable(w.d) {
		kv := []string{w.a("type"), "paragraph"}
		if s.ID == "Normal" {
			kv = append(kv, w.a("default"), "1")
		}
		kv = append(kv, w.a("styleId"), s.ID)
		x.Open(w.e("style"), kv...) // 17.7.4.17; children in schema order: name, basedOn, next, qFormat, pPr, rPr
		x.Empty(w.e("name"), w.a("val"), s.Name)
		if s.BasedOn != "" {
			x.Empty(w.e("basedOn"), w.a("val"), s.BasedOn) // 17.7.4.3
		}
		if s.Outline >= 0 {
			x.Empty(w.e("next"), w.a("val"), "Normal")
		}
		x.Empty(w.e("qFormat"))
		if s.Outline >= 0 {
			x.Open(w.e("pPr"))
			x.Empty(w.e("keepNext"))
			x.Empty(w.e("outlineLvl"), w.a("val"), strconv.Itoa(s.Outline)) // 17.3.1.20
			x.Close(w.e("pPr"))
		}
		if s.Bold || s.BoldOff || s.Italic || s.HalfPts > 0 {
			x.Open(w.e("rPr"))
			if s.Bold {
				x.Empty(w.e("b"))
			}
			if s.BoldOff {
				x.Empty(w.e("b"), w.a("val"), []string{"0", "false"}[len(s.ID)%2])
			}
			if s.Italic {
				x.Empty(w.e("i"))
			}
			if s.HalfPts > 0 {
				x.Empty(w.e("sz"), w.a("val"), strconv.Itoa(s.HalfPts))
			}
			x.Close(w.e("rPr"))
		}
		x.Close(w.e("style"))
	}
	if w.o.TableStyle {
		x.Open(w.e("style"), w.a("type"), "table", w.a("styleId"), "TableGrid")
		x.Empty(w.e("name"), w.a("val"), "Table Grid")
		x.Close(w.e("style"))
	}
	x.Close(w.e("styles"))
	return x.Bytes()
}

// ---- numbering part (17.9) -------------------------------------------------

// AbstractNumID is the abstractNumId list i is defined by (deliberately not
// the identity: w:num maps numId to abstractNumId, 17.9.15).
func AbstractNumID(i, nlists int) int { return nlists - 1 - i }

func (w *writer) numbering() []byte {
	x := wpmodel.NewXW(w.o.XML)
	x.Open(w.e("numbering"), w.rootAttrs()...)
	n := len(w.d.Lists)
	// 17.9.17: all abstractNum elements precede the num elements
	for a := 0; a < n; a++ {
		i := n - 1 - a // list whose abstractNumId is a
		x.Open(w.e("abstractNum"), w.a("abstractNumId"), strconv.Itoa(a))
		x.Empty(w.e("multiLevelType"), w.a("val"), "hybridMultilevel")
		kinds := w.d.Lists[i].Kinds
		// a level is identified by its w:ilvl (17.9.6), not by its place among the w:lvl elements, and none is
		// required: LvlOrder 1 writes the nine levels backwards, 2 only those an item (or numbered heading) uses
		lvls := []int{0, 1, 2, 3, 4, 5, 6, 7, 8}
		switch w.o.LvlOrder {
		case 1:
			lvls = []int{8, 7, 6, 5, 4, 3, 2, 1, 0}
		case 2:
			used := map[int]bool{}
			for _, b := range w.d.Blocks {
				if (b.Kind == wpmodel.BItem || (b.Kind == wpmodel.BHeading && b.Numbered)) && b.List == i {
					used[b.Depth] = true
				}
			}
			lvls = lvls[:0]
			for l := 0; l < 9; l++ {
				if used[l] {
					lvls = append(lvls, l)
				}
			}
		}
		for _, lvl := range lvls { // 17.9.6: up to nine levels
			k := kinds[lvl%len(kinds)]
			x.Open(w.e("lvl"), w.a("ilvl"), strconv.Itoa(lvl))
			x.Empty(w.e("start"), w.a("val"), "1")
			x.Empty(w.e("numFmt"), w.a("val"), k) // 17.9.17 / ST_NumberFormat 17.18.59
			if k == wpmodel.LBullet {
				if w.o.BulletPUA {
					x.Empty(w.e("lvlText"), w.a("val"), "\uF0B7")
				} else {
					x.Empty(w.e("lvlText"), w.a("val"), "•")
				}
			} else {
				x.Empty(w.e("lvlText"), w.a("val"), "%"+strconv.Itoa(lvl+1)+".")
			}
			x.Empty(w.e("lvlJc"), w.a("val"), "left")
			x.Open(w.e("pPr"))
			x.Empty(w.e("ind"), w.a("left"), strconv.Itoa(720*(lvl+1)), w.a("hanging"), "360")
			x.Close(w.e("pPr"))
			if k == wpmodel.LBullet && w.o.BulletPUA {
				x.Open(w.e("rPr"))
				x.Empty(w.e("rFonts"), w.a("ascii"), "Symbol", w.a("hAnsi"), "Symbol", w.a("hint"), "default")
				x.Close(w.e("rPr"))
			}
			x.Close(w.e("lvl"))
		}
		x.Close(w.e("abstractNum"))
	}
	for i := 0; i < n; i++ {
		x.Open(w.e("num"), w.a("numId"), strconv.Itoa(w.o.NumID(i))) // 17.9.15
		x.Empty(w.e("abstractNumId"), w.a("val"), strconv.Itoa(AbstractNumID(i, n)))
		x.Close(w.e("num"))
	}
	x.Close(w.e("numbering"))
	return x.Bytes()
}

// ---- document properties (Part 2 §11, Part 1 §22.2) ------------------------

func (w *writer) core() []byte {
	x := wpmodel.NewXW(w.o.XML)
	x.Open("cp:coreProperties",
		"xmlns:cp", "http://schemas.openxmlformats.org/package/2006/metadata/core-properties",
		"xmlns:dc", "http://purl.org/dc/elements/1.1/",
		"xmlns:dcterms", "http://purl.org/dc/terms/")
	x.Leaf("dc:title", w.d.Meta.Title)
	x.Leaf("dc:creator", w.d.Meta.Author)
	x.Close("cp:coreProperties")
	return x.Bytes()
}

func (w *writer) app() []byte {
	x := wpmodel.NewXW(w.o.XML)
	x.Open("Properties", "xmlns", "http://schemas.openxmlformats.org/officeDocument/2006/extended-properties")
	x.Leaf("Application", "verif docxw")
	x.Close("Properties")
	return x.Bytes()
}
