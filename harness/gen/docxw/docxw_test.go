package docxw

// The writer is validated by an inverse written from ECMA-376 only: the
// package is opened with archive/zip, every part is parsed with encoding/xml
// (through the small DOM in wpmodel), the body is interpreted by the rules of
// Part 1 §17 (style inheritance 17.7.2, outline levels 17.3.1.20, numbering
// 17.9, table grid 17.4) and the result must equal the logical model.

import (
	"archive/zip"
	"bytes"
	"io"
	"reflect"
	"strconv"
	"strings"
	"testing"

	"pgregory.net/rapid"

	"verif/harness/gen/wpmodel"
)

const nsXML = "http://www.w3.org/XML/1998/namespace"

type rbBlock struct {
	Kind    string
	Text    string
	Level   int
	Ordered bool
	ListFmt string
	NumID   string
	Depth   int
	Rows    int
	Cols    int
	Cells   []rbCell
	Wraps   []string
}

type rbCell struct {
	R, C, RS, CS int
	Paras        []string
}

type pkg struct {
	files map[string][]byte
	names []string
}

func openPkg(t testing.TB, data []byte) *pkg {
	zr, err := zip.NewReader(bytes.NewReader(data), int64(len(data)))
	if err != nil {
		t.Fatalf("zip: %v", err)
	}
	p := &pkg{files: map[string][]byte{}}
	for _, f := range zr.File {
		rc, err := f.Open()
		if err != nil {
			t.Fatalf("open %s: %v", f.Name, err)
		}
		b, err := io.ReadAll(rc)
		rc.Close()
		if err != nil {
			t.Fatalf("read %s: %v", f.Name, err)
		}
		if _, dup := p.files[f.Name]; dup {
			t.Fatalf("duplicate member %s", f.Name)
		}
		p.files[f.Name] = b
		p.names = append(p.names, f.Name)
	}
	return p
}

func (p *pkg) dom(t testing.TB, name string) *wpmodel.Node {
	b, ok := p.files[name]
	if !ok {
		t.Fatalf("missing part %s", name)
	}
	n, err := wpmodel.ParseXML(b)
	if err != nil {
		t.Fatalf("part %s is not well-formed: %v\n%s", name, err, b)
	}
	return n
}

// paraText interprets run content (17.3.3) in document order, descending into
// the inline containers 17.16.22 / 17.13.5.18 / 17.5.2.31 / 17.5.1.9.
func paraText(t testing.TB, p *wpmodel.Node, wraps *[]string) string {
	var sb strings.Builder
	var walk func(n *wpmodel.Node)
	walk = func(n *wpmodel.Node) {
		for _, k := range n.Elems() {
			if k.Space != NsW {
				t.Fatalf("foreign element %s in paragraph", k.Local)
			}
			switch k.Local {
			case "r":
				for _, c := range k.Elems() {
					switch c.Local {
					case "t":
						s := c.CharData()
						if c.A(nsXML, "space") != "preserve" {
							if s != strings.TrimSpace(s) {
								t.Fatalf("w:t with edge white space but without xml:space=preserve: %q", s)
							}
						}
						sb.WriteString(s)
					case "tab":
						sb.WriteString("\t")
					case "br":
						if ty := c.A(NsW, "type"); ty != "" && ty != "textWrapping" {
							t.Fatalf("unexpected break type %s", ty)
						}
						sb.WriteString("\n")
					case "sym":
						cp, err := strconv.ParseInt(c.A(NsW, "char"), 16, 32)
						if err != nil {
							t.Fatalf("sym char: %v", err)
						}
						sb.WriteRune(rune(cp))
					case "rPr", "lastRenderedPageBreak":
					default:
						t.Fatalf("unexpected run child %s", c.Local)
					}
				}
			case "hyperlink", "ins", "smartTag":
				if wraps != nil {
					*wraps = append(*wraps, k.Local)
				}
				walk(k)
			case "sdt":
				if wraps != nil {
					*wraps = append(*wraps, "sdt")
				}
				c := k.First("sdtContent")
				if c == nil {
					t.Fatalf("sdt without sdtContent")
				}
				walk(c)
			case "pPr", "bookmarkStart", "bookmarkEnd", "proofErr":
			default:
				t.Fatalf("unexpected paragraph child %s", k.Local)
			}
		}
	}
	walk(p)
	return sb.String()
}

type styleInfo struct {
	basedOn string
	outline int // -1 none
	name    string
}

func readBack(t testing.TB, data []byte) (blocks []rbBlock, header, footer []string, members []string) {
	p := openPkg(t, data)
	members = p.names

	// OPC: content types cover every part; package relationship leads to the main part
	ct := p.dom(t, "[Content_Types].xml")
	if ct.Space != NsCT || ct.Local != "Types" {
		t.Fatalf("content types root %s %s", ct.Space, ct.Local)
	}
	over := map[string]string{}
	for _, o := range ct.Elems("Override") {
		over[o.A("", "PartName")] = o.A("", "ContentType")
	}
	defaults := map[string]bool{}
	for _, o := range ct.Elems("Default") {
		defaults[o.A("", "Extension")] = true
	}
	for name := range p.files {
		if name == "[Content_Types].xml" || strings.HasSuffix(name, "/") {
			continue
		}
		ext := name[strings.LastIndex(name, ".")+1:]
		if _, ok := over["/"+name]; !ok && !defaults[ext] {
			t.Fatalf("part %s has no content type", name)
		}
	}
	rels := p.dom(t, "_rels/.rels")
	main := ""
	for _, r := range rels.Elems("Relationship") {
		if r.A("", "Type") == RelOfficeDocument {
			main = r.A("", "Target")
		}
	}
	if main != "word/document.xml" || over["/"+main] != CTMain {
		t.Fatalf("main part %q / content type %q", main, over["/"+main])
	}
	docRels := map[string][2]string{} // id -> type, target
	if _, ok := p.files["word/_rels/document.xml.rels"]; ok {
		for _, r := range p.dom(t, "word/_rels/document.xml.rels").Elems("Relationship") {
			docRels[r.A("", "Id")] = [2]string{r.A("", "Type"), r.A("", "Target")}
			if r.A("", "TargetMode") != "External" {
				if _, ok := p.files["word/"+r.A("", "Target")]; !ok {
					t.Fatalf("relationship target %s missing", r.A("", "Target"))
				}
			}
		}
	}
	relOfType := func(typ string) string {
		for _, v := range docRels {
			if v[0] == typ {
				return "word/" + v[1]
			}
		}
		return ""
	}

	// styles (17.7)
	styles := map[string]styleInfo{}
	if sp := relOfType(RelStyles); sp != "" {
		for _, s := range p.dom(t, sp).Elems("style") {
			si := styleInfo{outline: -1}
			if b := s.First("basedOn"); b != nil {
				si.basedOn = b.A(NsW, "val")
			}
			if n := s.First("name"); n != nil {
				si.name = n.A(NsW, "val")
			}
			if o := s.Path("pPr", "outlineLvl"); o != nil {
				si.outline, _ = strconv.Atoi(o.A(NsW, "val"))
			}
			styles[s.A(NsW, "styleId")] = si
		}
	}
	outlineOf := func(id string) int {
		for hops := 0; id != "" && hops < 20; hops++ {
			s, ok := styles[id]
			if !ok {
				return -1
			}
			if s.outline >= 0 {
				return s.outline
			}
			id = s.basedOn
		}
		return -1
	}
	// numbering (17.9)
	numFmt := map[string]map[string]string{} // numId -> ilvl -> numFmt
	if np := relOfType(RelNumbering); np != "" {
		n := p.dom(t, np)
		abs := map[string]map[string]string{}
		for _, a := range n.Elems("abstractNum") {
			m := map[string]string{}
			for _, l := range a.Elems("lvl") {
				m[l.A(NsW, "ilvl")] = l.First("numFmt").A(NsW, "val")
			}
			abs[a.A(NsW, "abstractNumId")] = m
		}
		for _, nm := range n.Elems("num") {
			numFmt[nm.A(NsW, "numId")] = abs[nm.First("abstractNumId").A(NsW, "val")]
		}
	}

	doc := p.dom(t, main)
	if doc.Space != NsW || doc.Local != "document" {
		t.Fatalf("document root")
	}
	body := doc.First("body")
	kids := body.Elems()
	var hdrPart, ftrPart string
	for i, k := range kids {
		switch k.Local {
		case "p":
			b := rbBlock{Kind: wpmodel.BPara}
			b.Text = paraText(t, k, &b.Wraps)
			ppr := k.First("pPr")
			lvl := -1
			if ppr != nil {
				if st := ppr.First("pStyle"); st != nil {
					id := st.A(NsW, "val")
					if _, ok := styles[id]; !ok {
						t.Fatalf("pStyle %s is not defined in the styles part", id)
					}
					lvl = outlineOf(id)
				}
				if o := ppr.First("outlineLvl"); o != nil {
					lvl, _ = strconv.Atoi(o.A(NsW, "val"))
				}
				if np := ppr.First("numPr"); np != nil && np.First("numId").A(NsW, "val") != "0" {
					b.Kind = wpmodel.BItem
					b.NumID = np.First("numId").A(NsW, "val")
					if il := np.First("ilvl"); il != nil {
						b.Depth, _ = strconv.Atoi(il.A(NsW, "val"))
					}
					f, ok := numFmt[b.NumID][strconv.Itoa(b.Depth)]
					if !ok {
						t.Fatalf("numId %s level %d not defined", b.NumID, b.Depth)
					}
					b.ListFmt = f
				}
			}
			if lvl >= 0 && lvl <= 8 {
				if b.Kind == wpmodel.BItem {
					t.Fatalf("paragraph is both heading and list item")
				}
				b.Kind = wpmodel.BHeading
				b.Level = lvl + 1
			}
			blocks = append(blocks, b)
		case "tbl":
			blocks = append(blocks, readTable(t, k))
		case "sectPr":
			if i != len(kids)-1 {
				t.Fatalf("sectPr is not the last body child")
			}
			if h := k.First("headerReference"); h != nil {
				hdrPart = "word/" + docRels[h.A(NsR, "id")][1]
			}
			if f := k.First("footerReference"); f != nil {
				ftrPart = "word/" + docRels[f.A(NsR, "id")][1]
			}
		default:
			t.Fatalf("unexpected body child %s", k.Local)
		}
	}
	marg := func(part, root string) []string {
		if part == "" {
			return nil
		}
		n := p.dom(t, part)
		if n.Local != root || n.Space != NsW {
			t.Fatalf("%s root is %s", part, n.Local)
		}
		out := []string{}
		for _, pp := range n.Elems("p") {
			out = append(out, paraText(t, pp, nil))
		}
		return out
	}
	return blocks, marg(hdrPart, "hdr"), marg(ftrPart, "ftr"), members
}

// readTable rebuilds the anchor cells from gridSpan / vMerge (17.4.17, 17.4.85).
func readTable(t testing.TB, tbl *wpmodel.Node) rbBlock {
	b := rbBlock{Kind: wpmodel.BTable}
	b.Cols = len(tbl.First("tblGrid").Elems("gridCol"))
	rows := tbl.Elems("tr")
	b.Rows = len(rows)
	open := map[int]int{} // grid column -> index in b.Cells of the vertical merge still open there
	for r, tr := range rows {
		c := 0
		nextOpen := map[int]int{}
		for _, tc := range tr.Elems("tc") {
			pr := tc.First("tcPr")
			if pr == nil {
				pr = &wpmodel.Node{}
			}
			span := 1
			if g := pr.First("gridSpan"); g != nil {
				span, _ = strconv.Atoi(g.A(NsW, "val"))
			}
			ps := tc.Elems("p")
			if len(ps) == 0 {
				t.Fatalf("cell without paragraph")
			}
			vm := pr.First("vMerge")
			cont := vm != nil && (vm.A(NsW, "val") == "" || vm.A(NsW, "val") == "continue")
			if cont {
				idx, ok := open[c]
				if !ok {
					t.Fatalf("vMerge continue without a cell above at row %d col %d", r, c)
				}
				if b.Cells[idx].CS != span {
					t.Fatalf("continuation cell span differs")
				}
				b.Cells[idx].RS++
				nextOpen[c] = idx
				for _, pp := range ps {
					if paraText(t, pp, nil) != "" {
						t.Fatalf("continuation cell has text")
					}
				}
			} else {
				cell := rbCell{R: r, C: c, RS: 1, CS: span}
				for _, pp := range ps {
					cell.Paras = append(cell.Paras, paraText(t, pp, &b.Wraps))
				}
				if len(tc.Elems("tbl")) > 0 && len(cell.Paras) > 1 && cell.Paras[len(cell.Paras)-1] == "" {
					// NestedEmptyTable: the empty paragraph that closes the cell behind the nested table
					cell.Paras = cell.Paras[:len(cell.Paras)-1]
				}
				b.Cells = append(b.Cells, cell)
				if vm != nil {
					nextOpen[c] = len(b.Cells) - 1
				}
			}
			c += span
		}
		if pr := tr.First("trPr"); pr != nil && pr.First("gridAfter") != nil {
			// grid columns left unused behind the last cell (17.4.14): the model has empty cells there
			n, _ := strconv.Atoi(pr.First("gridAfter").A(NsW, "val"))
			for k := 0; k < n; k++ {
				b.Cells = append(b.Cells, rbCell{R: r, C: c, RS: 1, CS: 1, Paras: []string{""}})
				c++
			}
		}
		if c != b.Cols {
			t.Fatalf("row %d covers %d grid columns, grid has %d", r, c, b.Cols)
		}
		open = nextOpen
	}
	return b
}

func expected(d wpmodel.Doc, o Options) []rbBlock {
	var out []rbBlock
	wrapName := map[string]string{wpmodel.WLink: "hyperlink", wpmodel.WIns: "ins", wpmodel.WSdt: "sdt", wpmodel.WSmart: "smartTag"}
	wrapsOf := func(p wpmodel.Para) []string {
		var ws []string
		for _, r := range p {
			if n, ok := wrapName[r.Wrap]; ok {
				ws = append(ws, n)
			}
		}
		return ws
	}
	for _, b := range d.Blocks {
		switch b.Kind {
		case wpmodel.BPara:
			out = append(out, rbBlock{Kind: wpmodel.BPara, Text: b.Runs.String(), Wraps: wrapsOf(b.Runs)})
		case wpmodel.BHeading:
			out = append(out, rbBlock{Kind: wpmodel.BHeading, Text: b.Runs.String(), Level: b.Level, Wraps: wrapsOf(b.Runs)})
		case wpmodel.BItem:
			out = append(out, rbBlock{Kind: wpmodel.BItem, Text: b.Runs.String(), Depth: b.Depth, NumID: strconv.Itoa(o.NumID(b.List)),
				ListFmt: d.Lists[b.List].Kinds[b.Depth], Wraps: wrapsOf(b.Runs)})
		case wpmodel.BTable:
			rb := rbBlock{Kind: wpmodel.BTable, Rows: b.Table.Rows, Cols: b.Table.Cols}
			for _, c := range b.Table.Cells {
				rc := rbCell{R: c.R, C: c.C, RS: c.RS, CS: c.CS}
				for _, p := range c.Paras {
					rc.Paras = append(rc.Paras, p.String())
					rb.Wraps = append(rb.Wraps, wrapsOf(p)...)
				}
				rb.Cells = append(rb.Cells, rc)
			}
			out = append(out, rb)
		}
	}
	return out
}

func paraStrings(ps []wpmodel.Para) []string {
	if ps == nil {
		return nil
	}
	out := []string{}
	for _, p := range ps {
		out = append(out, p.String())
	}
	return out
}

func TestRoundTrip(t *testing.T) {
	rapid.Check(t, func(rt *rapid.T) {
		d := wpmodel.GenDoc(rt, wpmodel.GenOpts{Wraps: []string{wpmodel.WLink, wpmodel.WIns, wpmodel.WSdt, wpmodel.WSmart}})
		o := GenOptions(rt)
		data, err := Write(d, o)
		if err != nil {
			rt.Fatalf("write: %v", err)
		}
		got, hdr, ftr, _ := readBack(t, data)
		want := expected(d, o)
		if len(got) != len(want) {
			rt.Fatalf("block count: got %d want %d", len(got), len(want))
		}
		for i := range want {
			if !reflect.DeepEqual(got[i], want[i]) {
				rt.Fatalf("block %d differs:\n got  %+v\n want %+v", i, got[i], want[i])
			}
		}
		if !reflect.DeepEqual(hdr, paraStrings(d.Header)) || !reflect.DeepEqual(ftr, paraStrings(d.Footer)) {
			rt.Fatalf("header/footer differ: %q %q", hdr, ftr)
		}
	})
}

func TestMemberOrderAndDeterminism(t *testing.T) {
	d := wpmodel.Doc{Blocks: []wpmodel.Block{{Kind: wpmodel.BPara, Runs: wpmodel.Para{{Items: []wpmodel.Inline{{Kind: wpmodel.KText, Text: "Tq0001"}}}}}},
		Header: []wpmodel.Para{{{Items: []wpmodel.Inline{{Kind: wpmodel.KText, Text: "Hq0001"}}}}}}
	a, err := Write(d, Options{Order: []int{4, 3, 2, 1, 0}})
	if err != nil {
		t.Fatal(err)
	}
	b, _ := Write(d, Options{Order: []int{4, 3, 2, 1, 0}})
	if !bytes.Equal(a, b) {
		t.Fatal("writer is not deterministic")
	}
	_, _, _, names := readBack(t, a)
	want := "word/styles.xml word/_rels/document.xml.rels word/document.xml _rels/.rels [Content_Types].xml word/header1.xml"
	if got := strings.Join(names, " "); got != want {
		t.Fatalf("member order:\n got  %s\n want %s", got, want)
	}
}

// The sample written with default options must look like what Word writes.
func TestPlainSpelling(t *testing.T) {
	d := wpmodel.Doc{Blocks: []wpmodel.Block{
		{Kind: wpmodel.BHeading, Level: 2, How: wpmodel.HowBuiltin, Runs: wpmodel.Para{{Items: []wpmodel.Inline{{Kind: wpmodel.KText, Text: "Tq0001"}}}}},
		{Kind: wpmodel.BPara, Runs: wpmodel.Para{{Items: []wpmodel.Inline{{Kind: wpmodel.KTab}, {Kind: wpmodel.KText, Text: "Tq0002 "}, {Kind: wpmodel.KBreak}, {Kind: wpmodel.KSym, Text: "→"}}}}},
	}}
	parts, err := Parts(d, Options{})
	if err != nil {
		t.Fatal(err)
	}
	var doc string
	for _, m := range parts {
		if m.Name == "word/document.xml" {
			doc = string(m.Data)
		}
	}
	want := `<w:p><w:pPr><w:pStyle w:val="Heading2"/></w:pPr><w:r><w:t xml:space="preserve">Tq0001</w:t></w:r></w:p>` +
		`<w:p><w:r><w:tab/><w:t xml:space="preserve">Tq0002 </w:t><w:br/><w:sym w:font="Segoe UI Symbol" w:char="2192"/></w:r></w:p>`
	if !strings.Contains(doc, want) {
		t.Fatalf("unexpected spelling:\n%s", doc)
	}
}
