package htmlw

import (
	"regexp"
	"strings"
	"unicode"
)

// Anc records which ancestors (or the element itself) of a text leaf could
// make a navigation filter drop it.
type Anc struct {
	Nav      bool `json:"nav,omitempty"`      // nav / aside element, or role=navigation|complementary
	NavDeep  bool `json:"nav_deep,omitempty"` // ... and that element lies inside a content element (td, li, blockquote), not on the block path
	HdrFtr   bool `json:"hdrftr,omitempty"`   // header / footer element, or role=banner|contentinfo, that is a child or grandchild of body ("top-level" at most there)
	Role     bool `json:"role,omitempty"`     // any other role attribute
	DeepHF   bool `json:"deep_hf,omitempty"`  // header / footer / role=banner|contentinfo further down: documented as kept
	ClassID  bool `json:"classid,omitempty"`  // any class or id attribute
	LinkBlk  bool `json:"linkblk,omitempty"`  // an element holding >= 4 <a> descendants or whose text is >= 30% link text
	Depth    int  `json:"depth"`              // elements between body and the leaf
	InAnchor bool `json:"in_a,omitempty"`     // inside <a>
}

// Leaf is one expected piece of text.
type Leaf struct {
	Tok string
	X   string // characters that must follow the token directly (references decoded)
	Anc Anc
}

// Cell is one table cell of a table unit.
type Cell struct {
	Leaves  []Leaf
	Header  bool // th, or any cell of a thead row
	RowSpan int
	ColSpan int
}

// Row is one table row.
type Row struct {
	Section string // thead | tbody | tfoot
	Cells   []Cell
}

// Unit is one content element as the HTML semantics define it: a heading, a
// paragraph, a list item (its own text, without the items of nested lists), a
// table, a preformatted/code block or a block quote. Units are listed in
// document order of their start tags; Leaves are in document order.
type Unit struct {
	Kind    string // h | p | li | table | code | quote
	Level   int    // h: 1-6; li: nesting depth, 0 = outermost list
	Ordered bool   // li: parent list is ol
	Leaves  []Leaf // every text leaf of the unit (for a table: all cells, row-major)
	Rows    []Row  // table only
	// Trailing is true for a list item that has text behind a nested list: its
	// leaves are then not contiguous in the document.
	Trailing bool
}

// Expect is everything the model says about the visible text of a document.
type Expect struct {
	Units     []Unit
	Forbidden []string // tokens inside script, style, template, comments, head
}

// Tokens lists the expected tokens unit by unit.
func (e *Expect) Tokens() []string {
	var out []string
	for _, u := range e.Units {
		for _, l := range u.Leaves {
			out = append(out, l.Tok)
		}
	}
	return out
}

var hiddenTags = map[string]bool{"script": true, "style": true, "template": true}

// linkStat measures an element the way a link-density heuristic would: the
// number of <a> descendants and the share of its visible text inside them.
func linkStat(n *Node) (links int, share float64) {
	total, linked := 0, 0
	n.Walk(func(m *Node, anc []*Node) {
		inA := m.Tag == "a"
		for _, a := range anc {
			if hiddenTags[a.Tag] {
				return
			}
			if a.Tag == "a" {
				inA = true
			}
		}
		if m.Tag == "a" {
			links++
		}
		if m.IsText() {
			l := len([]rune(strings.TrimSpace(m.leafText())))
			total += l
			if inA {
				linked += l
			}
		}
	})
	if total > 0 {
		share = float64(linked) / float64(total)
	}
	return
}

func ancWith(a Anc, n *Node, inUnit bool) Anc {
	a.Depth++
	role, hasRole := n.Get("role")
	if n.Tag == "nav" || n.Tag == "aside" || role == "navigation" || role == "complementary" {
		if !a.Nav && inUnit {
			a.NavDeep = true
		}
		a.Nav = true
	}
	// "<header> and <footer> are only skipped when they are direct children of <body> or a single top-level
	// wrapper element" (role=banner and role=contentinfo are their ARIA spellings): from the third level on they
	// are ordinary containers
	hf := n.Tag == "header" || n.Tag == "footer" || role == "banner" || role == "contentinfo"
	if hf && a.Depth <= 2 {
		a.HdrFtr = true
	} else if hf {
		a.DeepHF = true
	}
	if hasRole && role != "banner" && role != "contentinfo" {
		a.Role = true
	}
	if _, ok := n.Get("class"); ok {
		a.ClassID = true
	}
	if _, ok := n.Get("id"); ok {
		a.ClassID = true
	}
	// "Sections with very high link-to-text ratios are excluded" (Aggressive):
	// which elements count as sections, how high the ratio and how many links
	// it takes are left open, so every element that holds four links or whose
	// text is to a third or more link text counts as potentially excludable.
	if links, share := linkStat(n); links >= 4 || (links >= 1 && share >= 0.3) {
		a.LinkBlk = true
	}
	if n.Tag == "a" {
		a.InAnchor = true
	}
	return a
}

// collectUnit gathers the leaves of a content element n; n itself is on the
// block path (a filter sees it as an element of its own), its descendants are
// inside the unit.
func collectUnit(n *Node, a Anc, skipLists bool, out *[]Leaf, forb *[]string) {
	a = ancWith(a, n, false)
	for _, k := range n.Kids {
		if skipLists && (k.Tag == "ul" || k.Tag == "ol") {
			continue
		}
		collect(k, a, out, forb)
	}
}

// collect gathers every visible text leaf below n (n included in the ancestry).
func collect(n *Node, a Anc, out *[]Leaf, forb *[]string) {
	switch {
	case n.IsText():
		*out = append(*out, Leaf{Tok: n.Tok, X: n.X, Anc: a})
		return
	case n.IsComment():
		*forb = append(*forb, n.Tok)
		return
	case hiddenTags[n.Tag]:
		hidden(n, forb)
		return
	}
	a = ancWith(a, n, true)
	for _, k := range n.Kids {
		collect(k, a, out, forb)
	}
}

func hidden(n *Node, forb *[]string) {
	n.Walk(func(m *Node, _ []*Node) {
		if m.Tok != "" {
			*forb = append(*forb, m.Tok)
		}
	})
}

// Expect derives the expected units from the tree.
func (d *Doc) Expect() *Expect {
	e := &Expect{}
	for _, h := range d.Head {
		hidden(h, &e.Forbidden)
	}
	a := Anc{Depth: -1}
	e.block(d.Body, a, 0)
	return e
}

func (e *Expect) block(n *Node, a Anc, listLevel int) {
	switch {
	case n.IsText():
		// bare text between blocks is outside the model: the generator never
		// produces it; a hand-written tree that does gets it as a paragraph
		e.Units = append(e.Units, Unit{Kind: "p", Leaves: []Leaf{{Tok: n.Tok, X: n.X, Anc: a}}})
		return
	case n.IsComment():
		e.Forbidden = append(e.Forbidden, n.Tok)
		return
	case hiddenTags[n.Tag]:
		hidden(n, &e.Forbidden)
		return
	}
	switch n.Tag {
	case "h1", "h2", "h3", "h4", "h5", "h6":
		u := Unit{Kind: "h", Level: int(n.Tag[1] - '0')}
		collectUnit(n, a, false, &u.Leaves, &e.Forbidden)
		e.Units = append(e.Units, u)
	case "p":
		u := Unit{Kind: "p"}
		collectUnit(n, a, false, &u.Leaves, &e.Forbidden)
		e.Units = append(e.Units, u)
	case "pre":
		u := Unit{Kind: "code"}
		collectUnit(n, a, false, &u.Leaves, &e.Forbidden)
		e.Units = append(e.Units, u)
	case "blockquote":
		u := Unit{Kind: "quote"}
		collectUnit(n, a, false, &u.Leaves, &e.Forbidden)
		e.Units = append(e.Units, u)
	case "ul", "ol":
		la := ancWith(a, n, false)
		for _, li := range n.Kids {
			if li.Tag != "li" {
				e.block(li, la, listLevel) // comment / script between items
				continue
			}
			u := Unit{Kind: "li", Level: listLevel, Ordered: n.Tag == "ol"}
			collectUnit(li, la, true, &u.Leaves, &e.Forbidden)
			seenList := false
			for _, k := range li.Kids {
				if k.Tag == "ul" || k.Tag == "ol" {
					seenList = true
				} else if seenList && hasVisibleText(k) {
					u.Trailing = true
				}
			}
			e.Units = append(e.Units, u)
			lia := ancWith(la, li, false)
			for _, k := range li.Kids {
				if k.Tag == "ul" || k.Tag == "ol" {
					e.block(k, lia, listLevel+1)
				}
			}
		}
	case "table":
		u := Unit{Kind: "table"}
		ta := ancWith(a, n, false)
		for _, sec := range n.Kids {
			if sec.Tag == "caption" {
				// not a cell: a paragraph of its own in front of the table
				cu := Unit{Kind: "p"}
				collectUnit(sec, ta, false, &cu.Leaves, &e.Forbidden)
				e.Units = append(e.Units, cu)
				continue
			}
			if !isTag(sec, "thead", "tbody", "tfoot") {
				if sec.IsComment() {
					e.Forbidden = append(e.Forbidden, sec.Tok)
				}
				continue
			}
			sa := ancWith(ta, sec, true)
			for _, tr := range sec.Kids {
				if tr.Tag != "tr" {
					continue
				}
				ra := ancWith(sa, tr, true)
				row := Row{Section: sec.Tag}
				for _, c := range tr.Kids {
					if !isTag(c, "td", "th") {
						continue
					}
					cell := Cell{Header: c.Tag == "th" || sec.Tag == "thead", RowSpan: 1, ColSpan: 1}
					if v, ok := c.Get("rowspan"); ok {
						cell.RowSpan = atoiDefault(v, 1)
					}
					if v, ok := c.Get("colspan"); ok {
						cell.ColSpan = atoiDefault(v, 1)
					}
					if cell.RowSpan < 1 {
						cell.RowSpan = 1 // "0" is only written in the last row of a row group
					}
					if cell.ColSpan < 1 {
						cell.ColSpan = 1
					}
					collect(c, ra, &cell.Leaves, &e.Forbidden)
					u.Leaves = append(u.Leaves, cell.Leaves...)
					row.Cells = append(row.Cells, cell)
				}
				u.Rows = append(u.Rows, row)
			}
		}
		e.Units = append(e.Units, u)
	default:
		// body and the transparent wrappers: div, section, article, main,
		// nav, aside, header, footer
		wa := ancWith(a, n, false)
		for _, k := range n.Kids {
			e.block(k, wa, 0)
		}
	}
}

func hasVisibleText(n *Node) bool {
	var ls []Leaf
	var f []string
	collect(n, Anc{}, &ls, &f)
	return len(ls) > 0
}

func atoiDefault(s string, d int) int {
	n := 0
	if s == "" {
		return d
	}
	for _, r := range s {
		if r < '0' || r > '9' {
			return d
		}
		n = n*10 + int(r-'0')
	}
	return n
}

// ---------------------------------------------------------------------------
// reading tokens back from extracted text

// Found is one token occurrence in extracted text.
type Found struct {
	Tok   string
	After string // characters glued behind the token, up to white space or the next token
	Pos   int
}

var tokRe = regexp.MustCompile(`q[0-9]+z`)

// Scan finds every token occurrence in s, in order.
func Scan(s string) []Found {
	locs := tokRe.FindAllStringIndex(s, -1)
	out := make([]Found, 0, len(locs))
	for i, l := range locs {
		end := len(s)
		if i+1 < len(locs) {
			end = locs[i+1][0]
		}
		rest := s[l[1]:end]
		if j := strings.IndexFunc(rest, unicode.IsSpace); j >= 0 {
			rest = rest[:j]
		}
		out = append(out, Found{Tok: s[l[0]:l[1]], After: rest, Pos: l[0]})
	}
	return out
}
