package htmlw

import (
	"fmt"

	"pgregory.net/rapid"
)

// GenOpts switches generator features. The zero value generates nothing
// optional; use AllFeatures() and switch single features off.
type GenOpts struct {
	MaxLeaves int // budget of content elements (default 14)
	MaxWrap   int // nesting depth of wrapper elements (default 4)

	Chrome       bool // nav / aside / header / footer wrappers, ARIA roles
	Vocab        bool // class / id attributes from and near the exclusion vocabulary
	Links        bool // link-dense and link-sparse blocks
	Hidden       bool // script / style / template / comments with token-bearing text
	Lists        bool
	Tables       bool
	Spans        bool // rowspan / colspan
	Tfoot        bool // tfoot sections
	LiP          bool // <li><p>…</p></li>
	LiTrailing   bool // text behind a nested list inside an li
	ChromeInLeaf bool // nav / aside inside td, li, blockquote
	NestedTable  bool // a table inside a cell
	ABlock       bool // <a href> wrapping headings and paragraphs (transparent content model)
	Bare         bool // text and inline elements (span, b, a) standing directly in a wrapper, between its blocks
	Entities     bool // special characters behind tokens (Node.X)
	Spelling     bool // per-node spelling bits (omitted end tags, quoting, case)

	// Want, when set, is consulted each time the generator has drawn that it
	// wants one of the optional features "li-p", "li-trailing", "li-section-list", "tfoot",
	// "spans", "first-row-colspan", "chrome-in-leaf", "nested-table",
	// "a-block", "headerless-table", "bare-text", "caption"; returning false vetoes that
	// single use (the harness passes vr.Want to switch off features tied to a
	// known finding while counting the vetoed draws).
	Want func(feature string, drawn bool) bool `json:"-"`
}

// AllFeatures switches everything on.
func AllFeatures() GenOpts {
	return GenOpts{Chrome: true, Vocab: true, Links: true, Hidden: true, Lists: true, Tables: true, Spans: true,
		Tfoot: true, LiP: true, LiTrailing: true, ChromeInLeaf: true, NestedTable: true, ABlock: true, Bare: true, Entities: true, Spelling: true}
}

// Vocabulary of the navigation filter under test, taken from its documentation
// ("Patterns matched include: nav, navbar, navigation, menu, footer, sidebar,
// etc.") and names that merely contain or resemble those words.
var (
	VocabExact = []string{"nav", "navbar", "navigation", "menu", "topnav", "sidenav", "breadcrumb", "breadcrumbs",
		"site-header", "page-header", "masthead", "banner", "footer", "site-footer", "page-footer", "colophon",
		"sidebar", "widget-area", "widget", "aside", "main-nav", "nav_bar", "Nav", "top nav dark", "has-sidebar", "footer2",
		"MENU", "SideBar", "BreadCrumbs", "NavBar", "TopNav", "siteFooter"}
	VocabNear = []string{"navigate", "canvas", "asides", "menuitem", "footnotes", "unavailable", "bannerman", "widgets",
		"header", "footers", "enavant", "submenus", "sidebars", "mastheads", "navy"}
	VocabNeutral = []string{"content", "article-body", "post", "intro", "c1", "lead", "wrapper", "page", "text"}
	Roles        = []string{"navigation", "complementary", "banner", "contentinfo", "main", "note", "region", "Navigation", "nav"}
)

type gen struct {
	t       *rapid.T
	o       GenOpts
	tok     int
	budget  int
	hasMain bool
	noLinks int    // > 0 while generating inside an <a>: no nested links (HTML 4.5.1: no interactive descendants)
	shared  string // the neutral class name this document uses on many elements ("" = not drawn yet)
}

func (g *gen) bool(label string) bool { return rapid.Bool().Draw(g.t, label) }
func (g *gen) int(lo, hi int, label string) int {
	return rapid.IntRange(lo, hi).Draw(g.t, label)
}
func (g *gen) pick(xs []string, label string) string {
	return xs[g.int(0, len(xs)-1, label)]
}

func (g *gen) want(feature string, enabled, drawn bool) bool {
	if !enabled || !drawn {
		return false
	}
	if g.o.Want != nil {
		return g.o.Want(feature, true)
	}
	return true
}

// chance draws true with probability about 1/n; false shrinks first.
func (g *gen) chance(n int, label string) bool { return g.int(0, n-1, label) == n-1 }

func (g *gen) style(label string) uint8 {
	if !g.o.Spelling {
		return 0
	}
	return uint8(g.int(0, 15, label))
}

func (g *gen) text() *Node {
	g.tok++
	n := &Node{Tok: Token(g.tok)}
	if g.o.Entities && g.chance(3, "x?") {
		k := g.int(1, 3, "xn")
		for i := 0; i < k; i++ {
			n.X += string(Specials[g.int(0, len(Specials)-1, "xc")])
		}
	}
	if g.o.Spelling {
		n.S = uint8(g.int(0, 127, "ts"))
	}
	return n
}

func (g *gen) padded(words int) *Node {
	n := g.text()
	filler := []string{"lorem", "ipsum", "dolor", "sit", "amet", "consectetur", "adipiscing", "elit"}
	for i := 0; i < words; i++ {
		if i > 0 {
			n.Pad += " "
		}
		n.Pad += filler[i%len(filler)]
	}
	return n
}

func (g *gen) link(kids ...*Node) *Node {
	a := E("a", kids...).With("href", g.pick([]string{"/x", "#top", "https://example.com/a?b=1&c=2", "page.html"}, "href"))
	a.Attr[0].Q = uint8(g.int(0, 3, "q"))
	return a
}

// inline produces phrasing content with 1-3 text leaves.
func (g *gen) inline() []*Node {
	n := g.int(1, 3, "inl")
	var out []*Node
	for i := 0; i < n; i++ {
		switch k := g.int(0, 15, "ik"); {
		case k <= 8:
			out = append(out, g.text())
		case k <= 10:
			out = append(out, E(g.pick([]string{"b", "em", "strong", "i", "span"}, "fmt"), g.text()))
		case k == 11:
			// inline links are kept rare: four of them anywhere make the whole
			// body "potentially link-dense" for the Aggressive clause
			if g.noLinks > 0 {
				out = append(out, g.text())
			} else {
				out = append(out, g.link(g.text()))
			}
		case k <= 13:
			out = append(out, E("code", g.text()))
		default:
			out = append(out, g.text(), E("br"))
		}
	}
	if g.o.Hidden && g.chance(12, "inl-script") {
		out = append(out, E("script", g.text()))
	}
	if g.o.Hidden && g.chance(12, "inl-comment") {
		g.tok++
		out = append(out, &Node{Tag: "#comment", Tok: Token(g.tok)})
	}
	if g.o.Vocab && g.chance(10, "inl-attr") {
		for _, k := range out {
			if k.Tag == "a" || k.Tag == "span" {
				g.classID(k)
				break
			}
		}
	}
	return out
}

func (g *gen) classID(n *Node) {
	var pool []string
	switch g.int(0, 2, "vk") {
	case 0:
		pool = VocabExact
	case 1:
		pool = VocabNear
	default:
		pool = VocabNeutral
	}
	key := "class"
	if g.chance(3, "id?") {
		key = "id"
	}
	v := g.pick(pool, "name")
	if key == "class" && &pool[0] == &VocabNeutral[0] && g.bool("sharedClass") {
		// pages repeat one class attribute on many elements
		if g.shared == "" {
			g.shared = g.pick([]string{"panel", "card", "box", "item"}, "sharedName")
		}
		v = g.shared
	} else if key == "class" && g.chance(4, "cls2") {
		v = g.pick(VocabNeutral, "name2") + " " + v
	}
	n.Attr = append(n.Attr, Attr{K: key, V: v, Q: uint8(g.int(0, 3, "q"))})
	if g.chance(3, "both?") {
		// class and id on one element, each from its own pool (a neutral class shared by many elements next to an id
		// from the vocabulary, and the other way round)
		other := "id"
		if key == "id" {
			other = "class"
		}
		p2 := [][]string{VocabExact, VocabExact, VocabNear, VocabNeutral}[g.int(0, 3, "vk2")]
		v2 := g.pick(p2, "name3")
		if other == "class" && g.bool("sharedClass2") {
			if g.shared == "" {
				g.shared = g.pick([]string{"panel", "card", "box", "item"}, "sharedName")
			}
			v2 = g.shared
		}
		n.Attr = append(n.Attr, Attr{K: other, V: v2, Q: uint8(g.int(0, 3, "q"))})
	}
}

func (g *gen) maybeAttrs(n *Node, allowRole bool) {
	if g.o.Vocab && g.chance(3, "attr?") {
		g.classID(n)
	}
	if g.o.Chrome && allowRole && g.chance(8, "role?") {
		n.Attr = append(n.Attr, Attr{K: "role", V: g.pick(Roles, "role"), Q: uint8(g.int(0, 3, "q"))})
	}
}

type ctx struct {
	wrap     int  // wrapper nesting depth
	noHdrFtr bool // inside header/footer: no header, footer, main descendants (HTML 4.3.8/4.3.9 content models)
	noMain   bool // inside article, aside, footer, header, nav: no main (HTML 4.4.14)
	inTable  int  // table nesting
	inLeaf   bool // inside a content element (td/li/blockquote): only what may live there
	plain    bool // cells hold phrasing content or a paragraph only (a table inside a list item)
}

func (g *gen) el(tag string, kids ...*Node) *Node {
	n := E(tag, kids...)
	n.S = g.style("es")
	return n
}

func (g *gen) heading() *Node {
	n := g.el(fmt.Sprintf("h%d", g.int(1, 6, "hl")), g.inline()...)
	g.maybeAttrs(n, false)
	return n
}

func (g *gen) para() *Node {
	n := g.el("p", g.inline()...)
	g.maybeAttrs(n, false)
	return n
}

func (g *gen) pre() *Node {
	lines := g.int(1, 3, "prel")
	var kids []*Node
	for i := 0; i < lines; i++ {
		t := g.text()
		t.S = t.S&^(3<<3|3<<5) | 2<<5 // no leading space, newline behind each line
		if i == lines-1 {
			t.S &^= 3 << 5
		}
		kids = append(kids, t)
	}
	n := g.el("pre")
	switch g.int(0, 5, "preform") {
	case 0, 1:
		n.Kids = kids
	case 2, 3:
		n.Kids = []*Node{g.el("code", kids...)}
	case 4:
		// one <code> per line ("$ <code>ls</code> --color": text beside the code elements belongs to the block too)
		for _, k := range kids {
			n.Kids = append(n.Kids, g.el("code", k))
		}
	default:
		// text, then code, then text (a prompt in front of a command, its output behind)
		head := g.text()
		head.S = head.S&^(3<<3|3<<5) | 1<<5
		n.Kids = append(n.Kids, head, g.el("code", kids...))
		if g.bool("pretail") {
			tail := g.text()
			tail.S = tail.S&^(3<<3|3<<5) | 1<<3
			n.Kids = append(n.Kids, tail)
		}
	}
	return n
}

func (g *gen) quote(c ctx) *Node {
	n := g.el("blockquote")
	switch g.int(0, 4, "bq") {
	case 4:
		// text standing directly in the quote next to its paragraphs: a lead-in in front, an attribution behind
		if g.bool("bqLead") {
			n.Kids = append(n.Kids, g.text())
		}
		n.Kids = append(n.Kids, g.el("p", g.inline()...))
		if len(n.Kids) == 1 || g.bool("bqTail") {
			n.Kids = append(n.Kids, g.text(), g.el("cite", g.text()))
		}
	case 0:
		n.Kids = g.inline()
	case 1:
		n.Kids = []*Node{g.el("p", g.inline()...)}
		if g.bool("bq2") {
			n.Kids = append(n.Kids, g.el("p", g.inline()...))
		}
	case 2:
		n.Kids = []*Node{g.el("p", g.inline()...)}
		if g.o.Lists {
			n.Kids = append(n.Kids, g.list(ctx{inLeaf: true}, 3))
		}
	case 3:
		n.Kids = []*Node{g.el("p", g.inline()...)}
		if g.want("chrome-in-leaf", g.o.ChromeInLeaf && g.o.Chrome, true) {
			n.Kids = append(n.Kids, g.el(g.pick([]string{"nav", "aside"}, "leafchrome"), g.el("p", g.inline()...)))
		}
	}
	g.maybeAttrs(n, false)
	return n
}

// list generates ul/ol with nesting up to 4 levels (level 0..3).
func (g *gen) list(c ctx, level int) *Node {
	n := g.el(g.pick([]string{"ul", "ol"}, "lt"))
	items := g.int(1, 3, "items")
	for i := 0; i < items; i++ {
		li := g.el("li")
		switch {
		case g.want("li-p", g.o.LiP, g.chance(6, "li-p")):
			if g.bool("li-text-then-p") {
				li.Kids = g.inline()
			}
			li.Kids = append(li.Kids, g.el("p", g.inline()...))
			if g.bool("li-p2") {
				li.Kids = append(li.Kids, g.el("p", g.inline()...))
			}
		case g.want("chrome-in-leaf", g.o.ChromeInLeaf && g.o.Chrome, g.chance(14, "li-nav")):
			li.Kids = append(g.inline(), g.el(g.pick([]string{"nav", "aside"}, "leafchrome"), g.el("p", g.inline()...)))
		case g.want("li-table", g.o.Tables && c.inTable == 0 && !c.inLeaf && level == 0, g.chance(14, "li-table")):
			// a table inside a list item (a step of a procedure with its parameters); more items follow
			leaf := c
			leaf.inLeaf, leaf.inTable, leaf.plain = true, 1, true
			li.Kids = append(g.inline(), g.table(leaf))
			items = g.int(items, 3, "itemsAfterTable")
		default:
			li.Kids = g.inline()
		}
		if level < 3 && g.chance(3, "nest") {
			if g.chance(5, "li-only-nested") {
				li.Kids = nil // <li><ul>…</ul></li>: an item that is only a sub-list
			}
			sub := g.list(c, level+1)
			if g.want("li-section-list", g.o.Lists, g.chance(6, "li-section-list")) {
				// a "card" inside the item: the sub-list stands in a sectioning element, whose whole text is the item's
				sub = g.el(g.pick([]string{"section", "article"}, "card"), sub)
			}
			li.Kids = append(li.Kids, sub)
			if g.want("li-trailing", g.o.LiTrailing, g.chance(5, "li-trailing")) {
				li.Kids = append(li.Kids, g.text())
			}
		}
		if !c.inLeaf {
			g.maybeAttrs(li, false)
		}
		n.Kids = append(n.Kids, li)
		// malformed but common: the sub-list is a child of the list itself, not of an item
		// (<ul><li>a</li><ul><li>b</li></ul></ul>); the parser keeps it there
		if level < 3 && g.want("list-in-list", g.o.Lists && g.o.Spelling, g.chance(9, "list-in-list")) {
			n.Kids = append(n.Kids, g.list(c, level+1))
		}
	}
	if g.o.Hidden && g.chance(15, "list-comment") {
		g.tok++
		n.Kids = append(n.Kids, &Node{Tag: "#comment", Tok: Token(g.tok)})
	}
	if !c.inLeaf {
		g.maybeAttrs(n, true)
	}
	return n
}

// table builds sections from a slot grid so that spans never overlap and every
// row anchors at least one cell (HTML 4.9.12 table model: no overlapping
// cells, no row without cells; a rowspan never leaves its row group).
// noSection reports whether the table has no row group yet (a caption does not count).
func noSection(t *Node) bool {
	for _, k := range t.Kids {
		if k.Tag != "caption" {
			return false
		}
	}
	return true
}

func (g *gen) table(c ctx) *Node {
	t := g.el("table")
	if !c.plain && g.want("caption", g.o.Tables, g.chance(5, "caption")) {
		// the caption is the first child of the table (HTML 4.9.2); its text is content, in front of the rows
		t.Kids = append(t.Kids, g.el("caption", g.text()))
	}
	cols := g.int(1, 3, "cols")
	type secSpec struct {
		tag  string
		rows int
	}
	var secs []secSpec
	hasThead := g.bool("thead")
	// a table without thead and without th in its first row has no header at all
	forceTh := !hasThead && !g.want("headerless-table", true, true)
	if hasThead {
		secs = append(secs, secSpec{"thead", g.int(1, 2, "hr")})
	}
	nb := 1
	if g.chance(5, "tbody2") {
		nb = 2
	}
	for i := 0; i < nb; i++ {
		secs = append(secs, secSpec{"tbody", g.int(1, 3, "br")})
	}
	if g.want("tfoot", g.o.Tfoot, g.chance(4, "tfoot")) {
		secs = append(secs, secSpec{"tfoot", g.int(1, 2, "fr")})
	}
	for _, sp := range secs {
		sec := g.el(sp.tag)
		occ := make([][]bool, sp.rows)
		for r := range occ {
			occ[r] = make([]bool, cols)
		}
		for r := 0; r < sp.rows; r++ {
			tr := g.el("tr")
			for col := 0; col < cols; col++ {
				if occ[r][col] {
					continue
				}
				tag := "td"
				switch {
				case sp.tag == "thead":
					if !g.chance(6, "thead-td") { // td is allowed in thead too (HTML 4.9.6)
						tag = "th"
					}
				case forceTh && noSection(t) && r == 0:
					tag = "th"
				case g.chance(4, "th"):
					tag = "th"
				}
				cell := g.el(tag)
				cs, rs := 1, 1
				if g.want("spans", g.o.Spans, g.chance(3, "span")) {
					if col == 0 || r+1 >= sp.rows || g.bool("colspan") {
						for cs < 3 && col+cs < cols && !occ[r][col+cs] && g.bool("cs+") {
							cs++
						}
						// a colspan in the very first row makes later rows longer than the first
						if cs > 1 && noSection(t) && r == 0 && !g.want("first-row-colspan", true, true) {
							cs = 1
						}
					} else { // column 0 never row-spans: every row keeps an anchored cell
						rs = 2
						for rs < 3 && r+rs < sp.rows && g.bool("rs+") {
							rs++
						}
					}
				}
				for dr := 0; dr < rs; dr++ {
					for dc := 0; dc < cs; dc++ {
						occ[r+dr][col+dc] = true
					}
				}
				if cs > 1 {
					cell.Attr = append(cell.Attr, Attr{K: "colspan", V: fmt.Sprint(cs), Q: uint8(g.int(0, 3, "q"))})
				}
				if rs > 1 {
					cell.Attr = append(cell.Attr, Attr{K: "rowspan", V: fmt.Sprint(rs), Q: uint8(g.int(0, 3, "q"))})
				}
				if cs == 1 && rs == 1 && g.o.Spans && g.chance(10, "span0") {
					// rowspan="0": the cell spans to the end of its row group - in the group's last row that is one
					// row; colspan="0" is read as 1 (HTML 4.9.11, "algorithm for processing rows")
					if r+1 >= sp.rows && g.bool("rowspan0") {
						cell.Attr = append(cell.Attr, Attr{K: "rowspan", V: "0", Q: uint8(g.int(0, 3, "q"))})
					} else {
						cell.Attr = append(cell.Attr, Attr{K: "colspan", V: "0", Q: uint8(g.int(0, 3, "q"))})
					}
				}
				if g.chance(12, "empty-cell") && len(tr.Kids) > 0 {
					cell.Kids = nil // an empty cell
				} else {
					cell.Kids = g.cellContent(c)
				}
				if g.o.Vocab && g.chance(12, "cell-attr") {
					g.classID(cell)
				}
				tr.Kids = append(tr.Kids, cell)
			}
			sec.Kids = append(sec.Kids, tr)
		}
		t.Kids = append(t.Kids, sec)
	}
	if c.inTable == 0 {
		g.maybeAttrs(t, false)
	}
	return t
}

func (g *gen) cellContent(c ctx) []*Node {
	if c.plain {
		if g.bool("cellp") {
			return []*Node{g.el("p", g.inline()...)}
		}
		return g.inline()
	}
	switch g.int(0, 9, "cc") {
	case 0:
		return []*Node{g.el("p", g.inline()...)}
	case 1:
		if g.o.Lists {
			return append(g.inline(), g.list(ctx{inLeaf: true}, 3))
		}
	case 2:
		if g.want("nested-table", g.o.NestedTable && c.inTable == 0, true) {
			return append(g.inline(), g.table(ctx{inLeaf: true, inTable: 1}))
		}
	case 3:
		if g.want("chrome-in-leaf", g.o.ChromeInLeaf && g.o.Chrome, true) {
			return append(g.inline(), g.el(g.pick([]string{"nav", "aside"}, "leafchrome"), g.el("p", g.inline()...)))
		}
	}
	return g.inline()
}

// linkBlock generates a div/section/ul/ol holding >= 4 links, either dense
// (nearly all text inside <a>) or sparse (links drowned in plain text).
func (g *gen) linkBlock(c ctx) *Node {
	dense := g.bool("dense")
	links := g.int(4, 6, "nlinks")
	pad := 0
	if !dense {
		pad = g.int(3, 8, "pad")
	}
	var n *Node
	if g.o.Lists && g.bool("linklist") {
		n = g.el(g.pick([]string{"ul", "ol"}, "lt"))
		for i := 0; i < links; i++ {
			li := g.el("li", g.link(g.text()))
			if pad > 0 {
				li.Kids = append(li.Kids, g.padded(pad))
			}
			n.Kids = append(n.Kids, li)
		}
	} else {
		n = g.el(g.pick([]string{"div", "section"}, "lb"))
		if g.bool("lb-head") {
			n.Kids = append(n.Kids, g.heading())
		}
		per := g.int(1, 3, "per")
		for i := 0; i < links; {
			p := g.el("p")
			for j := 0; j < per && i < links; j++ {
				p.Kids = append(p.Kids, g.link(g.text()))
				i++
			}
			if pad > 0 {
				p.Kids = append(p.Kids, g.padded(pad))
			}
			n.Kids = append(n.Kids, p)
		}
	}
	g.maybeAttrs(n, true)
	return n
}

func (g *gen) hiddenBlock() *Node {
	// style is generated only inside <head>: its content model context is
	// "where metadata content is expected" (HTML 4.2.6)
	switch g.int(0, 2, "hk") {
	case 0:
		return E("script", g.text())
	case 1:
		return E("template", g.el("p", g.text()))
	default:
		g.tok++
		return &Node{Tag: "#comment", Tok: Token(g.tok)}
	}
}

// aBlock is the "card" pattern <a href><h3>…</h3><p>…</p></a>: the a element
// has a transparent content model, so flow content is allowed inside it as
// long as there is no interactive content (no nested a).
func (g *gen) aBlock() *Node {
	g.noLinks++
	defer func() { g.noLinks-- }()
	a := g.link()
	if g.bool("card-head") {
		a.Kids = append(a.Kids, g.heading())
	}
	a.Kids = append(a.Kids, g.para())
	return a
}

func (g *gen) wrapper(c ctx) *Node {
	var tag string
	sub := c
	sub.wrap++
	kind := g.int(0, 9, "wk")
	switch {
	case kind <= 3 || !g.o.Chrome:
		tag = g.pick([]string{"div", "section", "article"}, "wt")
		if tag == "article" {
			sub.noMain = true
		}
	case kind == 4 && !c.noMain && !g.hasMain && c.wrap <= 1:
		tag = "main" // at most one main, not inside article/aside/footer/header/nav
		g.hasMain = true
	case kind <= 6:
		tag = g.pick([]string{"nav", "aside"}, "chrome")
		sub.noMain = true
	default:
		if c.noHdrFtr {
			tag = "div"
		} else {
			tag = g.pick([]string{"header", "footer"}, "hf")
			sub.noHdrFtr, sub.noMain = true, true
		}
	}
	n := g.el(tag)
	k := g.int(1, 3, "wn")
	for i := 0; i < k; i++ {
		if g.want("bare-text", g.o.Bare, g.chance(5, "bare")) {
			n.Kids = append(n.Kids, g.bare())
		}
		n.Kids = append(n.Kids, g.block(sub))
	}
	if g.want("bare-text", g.o.Bare, g.chance(6, "bareTail")) {
		n.Kids = append(n.Kids, g.bare())
	}
	g.maybeAttrs(n, true)
	return n
}

// bare is inline content that stands directly in a wrapper: a text node, or text inside span, b or a
func (g *gen) bare() *Node {
	switch g.int(0, 3, "bareKind") {
	case 0:
		return g.el("span", g.text())
	case 1:
		return g.el("b", g.text())
	case 2:
		if g.o.Links && g.noLinks == 0 {
			return g.link(g.text())
		}
	}
	return g.text()
}

func (g *gen) block(c ctx) *Node {
	g.budget--
	hi := 13
	if c.wrap >= g.o.MaxWrap || g.budget <= 0 {
		hi = 8
	}
	switch g.int(0, hi, "bk") {
	case 0, 1:
		return g.para()
	case 2:
		return g.heading()
	case 3:
		if g.o.Lists {
			return g.list(c, 0)
		}
	case 4:
		if g.o.Tables {
			return g.table(c)
		}
	case 5:
		return g.pre()
	case 6:
		return g.quote(c)
	case 7:
		if g.o.Links && g.noLinks == 0 {
			return g.linkBlock(c)
		}
	case 8:
		if g.o.Hidden {
			return g.hiddenBlock()
		}
	case 9:
		if g.noLinks == 0 && g.want("a-block", g.o.ABlock, g.chance(3, "a-block")) {
			return g.aBlock()
		}
		return g.wrapper(c)
	default:
		return g.wrapper(c)
	}
	return g.para()
}

// GenSer draws document-level spelling choices.
func GenSer(t *rapid.T) Ser {
	s := Ser{}
	if rapid.IntRange(0, 5).Draw(t, "xhtml") == 5 {
		s.XHTML = true
		s.Indent = uint8(rapid.IntRange(0, 2).Draw(t, "indent"))
		return s
	}
	s.Doctype = uint8(rapid.IntRange(0, 3).Draw(t, "doctype"))
	s.OmitEnd = rapid.Bool().Draw(t, "omit_end")
	s.OmitRoot = rapid.Bool().Draw(t, "omit_root")
	s.TruncTail = rapid.IntRange(0, 3).Draw(t, "trunc") == 3
	if rapid.IntRange(0, 3).Draw(t, "stray?") == 3 {
		s.Stray = uint8(rapid.IntRange(1, 8).Draw(t, "stray"))
	}
	s.Indent = uint8(rapid.IntRange(0, 2).Draw(t, "indent"))
	return s
}

// GenTree draws a document: a DOM tree of content elements inside neutral and
// chrome wrappers, every text leaf with a unique token, plus spelling choices.
func GenTree(t *rapid.T, o GenOpts) *Doc {
	if o.MaxLeaves == 0 {
		o.MaxLeaves = 14
	}
	if o.MaxWrap == 0 {
		o.MaxWrap = 4
	}
	g := &gen{t: t, o: o, budget: o.MaxLeaves}
	d := &Doc{Body: &Node{Tag: "body"}}
	n := g.int(1, 5, "top")
	var kids []*Node
	for i := 0; i < n; i++ {
		kids = append(kids, g.block(ctx{wrap: 1}))
	}
	// the "single top-level wrapper" page shape: <body><div id=wrapper>…</div></body>
	if g.chance(4, "single-wrapper") {
		w := g.el("div", kids...)
		if g.bool("wrapper-id") {
			w.With("id", g.pick([]string{"wrapper", "page", "container"}, "wid"))
		}
		kids = []*Node{w}
	}
	d.Body.Kids = kids
	if o.Vocab && g.chance(10, "body-class") {
		g.classID(d.Body)
	}
	if o.Hidden && g.chance(3, "head-hidden") {
		d.Head = append(d.Head, E(g.pick([]string{"script", "style"}, "hh"), g.text()))
	}
	if o.Spelling {
		d.Ser = GenSer(t)
	}
	return d
}
