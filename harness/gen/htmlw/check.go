package htmlw

import (
	"bytes"
	"fmt"
	"strings"

	"golang.org/x/net/html"
)

// CheckParse confirms that the HTML5 tree-construction result of b (by
// golang.org/x/net/html) is the intended tree d: same elements, attributes
// and comments in the same order, same character data up to white space.
// It is the guard that makes "omitted end tag" and "truncated tail" cases have
// a well-defined expected answer.
func (d *Doc) CheckParse(b []byte) error {
	root, err := html.Parse(bytes.NewReader(b))
	if err != nil {
		return fmt.Errorf("x/net/html: %v", err)
	}
	var head, body *html.Node
	var find func(n *html.Node)
	find = func(n *html.Node) {
		if n.Type == html.ElementNode && n.Data == "head" && head == nil {
			head = n
		}
		if n.Type == html.ElementNode && n.Data == "body" && body == nil {
			body = n
		}
		for c := n.FirstChild; c != nil; c = c.NextSibling {
			if body == nil {
				find(c)
			}
		}
	}
	find(root)
	if body == nil || head == nil {
		return fmt.Errorf("no head/body in parse result")
	}
	// head: skip meta and title, which the writer always adds
	var headKids []*html.Node
	for c := head.FirstChild; c != nil; c = c.NextSibling {
		if c.Type == html.ElementNode && (c.Data == "meta" || c.Data == "title") {
			continue
		}
		headKids = append(headKids, c)
	}
	if err := sameKids("head", d.Head, headKids, "head"); err != nil {
		return err
	}
	if err := sameAttrs("body", d.Body, body); err != nil {
		return err
	}
	return sameKids("body", d.Body.Kids, kidsOf(body), "body")
}

func kidsOf(n *html.Node) []*html.Node {
	var out []*html.Node
	for c := n.FirstChild; c != nil; c = c.NextSibling {
		out = append(out, c)
	}
	return out
}

type flat struct {
	text string // merged, white-space-normalised character data (kind 't')
	kind byte   // 't' text, 'e' element, 'c' comment
	m    *Node
	p    *html.Node
}

func flattenModel(kids []*Node, parentTag string) []flat {
	var out []flat
	for _, k := range kids {
		switch {
		case k.IsText():
			s := k.leafText()
			if isRawText(parentTag) {
				s = rawText(parentTag, k, false)
			}
			if len(out) > 0 && out[len(out)-1].kind == 't' {
				out[len(out)-1].text += s
			} else {
				out = append(out, flat{kind: 't', text: s})
			}
		case k.IsComment():
			out = append(out, flat{kind: 'c', text: k.Tok, m: k})
		default:
			out = append(out, flat{kind: 'e', m: k})
		}
	}
	return normFlat(out)
}

func flattenParsed(kids []*html.Node) []flat {
	var out []flat
	for _, k := range kids {
		switch k.Type {
		case html.TextNode:
			if len(out) > 0 && out[len(out)-1].kind == 't' {
				out[len(out)-1].text += k.Data
			} else {
				out = append(out, flat{kind: 't', text: k.Data})
			}
		case html.CommentNode:
			out = append(out, flat{kind: 'c', text: strings.TrimSpace(k.Data), p: k})
		case html.ElementNode:
			out = append(out, flat{kind: 'e', p: k})
		}
	}
	return normFlat(out)
}

func normFlat(in []flat) []flat {
	out := in[:0]
	for _, f := range in {
		if f.kind == 't' {
			f.text = normWS(f.text)
			if f.text == "" {
				continue
			}
		}
		out = append(out, f)
	}
	return out
}

func sameAttrs(path string, m *Node, p *html.Node) error {
	if len(m.Attr) != len(p.Attr) {
		return fmt.Errorf("%s: %d attributes intended, %d parsed (%v)", path, len(m.Attr), len(p.Attr), p.Attr)
	}
	for i, a := range m.Attr {
		if p.Attr[i].Key != a.K || p.Attr[i].Val != a.V {
			return fmt.Errorf("%s: attribute %d intended %s=%q, parsed %s=%q", path, i, a.K, a.V, p.Attr[i].Key, p.Attr[i].Val)
		}
	}
	return nil
}

func sameKids(path string, model []*Node, parsed []*html.Node, parentTag string) error {
	a, b := flattenModel(model, parentTag), flattenParsed(parsed)
	// XHTML spelling writes raw text without '<' and '&'; accept either form
	for i := 0; i < len(a) || i < len(b); i++ {
		if i >= len(a) {
			return fmt.Errorf("%s: parse has extra child #%d %s", path, i, descP(b[i]))
		}
		if i >= len(b) {
			return fmt.Errorf("%s: intended child #%d %s missing in parse", path, i, descM(a[i]))
		}
		if a[i].kind != b[i].kind {
			return fmt.Errorf("%s: child #%d intended %s, parsed %s", path, i, descM(a[i]), descP(b[i]))
		}
		switch a[i].kind {
		case 't', 'c':
			if a[i].text != b[i].text {
				if isRawText(parentTag) && len(model) == 1 && b[i].text == normWS(rawText(parentTag, model[0], true)) {
					continue
				}
				return fmt.Errorf("%s: child #%d text intended %q, parsed %q", path, i, a[i].text, b[i].text)
			}
		case 'e':
			if a[i].m.Tag != b[i].p.Data {
				return fmt.Errorf("%s: child #%d intended <%s>, parsed <%s>", path, i, a[i].m.Tag, b[i].p.Data)
			}
			sub := fmt.Sprintf("%s>%s[%d]", path, a[i].m.Tag, i)
			if err := sameAttrs(sub, a[i].m, b[i].p); err != nil {
				return err
			}
			if err := sameKids(sub, a[i].m.Kids, kidsOf(b[i].p), a[i].m.Tag); err != nil {
				return err
			}
		}
	}
	return nil
}

func descM(f flat) string {
	switch f.kind {
	case 't':
		return fmt.Sprintf("text %q", f.text)
	case 'c':
		return fmt.Sprintf("comment %q", f.text)
	}
	return "<" + f.m.Tag + ">"
}

func descP(f flat) string {
	switch f.kind {
	case 't':
		return fmt.Sprintf("text %q", f.text)
	case 'c':
		return fmt.Sprintf("comment %q", f.text)
	}
	return "<" + f.p.Data + ">"
}
