package htmlw

import (
	"fmt"
	"strings"
)

// named character references used by the writer (HTML 13.5; all of them end in
// ';', legacy forms without it are not written).
var namedRef = map[rune]string{
	'&': "amp", '<': "lt", '>': "gt", '"': "quot", '\'': "apos",
	'é': "eacute", 'ü': "uuml", '—': "mdash", '€': "euro", '©': "copy", '…': "hellip",
}

// xmlRef are the five references predefined by XML 1.0 section 4.6.
var xmlRef = map[rune]bool{'&': true, '<': true, '>': true, '"': true, '\'': true}

// Specials is the alphabet of Node.X: characters that need or allow a
// character reference. None is white space, a letter a-z, a digit, '|' or '\'.
var Specials = []rune{'&', '<', '>', '"', '\'', 'é', 'ü', '—', '€', '©', '…', 0x1F600}

func encodeText(s string, style uint8, xhtml bool) string {
	var b strings.Builder
	form := style & 3
	literal := style&4 != 0
	for _, r := range s {
		special := false
		for _, sp := range Specials {
			if r == sp {
				special = true
			}
		}
		if !special {
			b.WriteRune(r)
			continue
		}
		// HTML 13.1.3: text must not contain '<' nor an ambiguous ampersand;
		// every other character may be written literally in a UTF-8 document.
		if literal && r != '&' && r != '<' {
			b.WriteRune(r)
			continue
		}
		name, hasName := namedRef[r]
		if xhtml && !xmlRef[r] {
			hasName = false
		}
		switch {
		case form == 0 && hasName:
			b.WriteString("&" + name + ";")
		case form == 2:
			fmt.Fprintf(&b, "&#x%x;", r)
		case form == 3 && !xhtml: // XML requires the lower-case 'x'
			fmt.Fprintf(&b, "&#X%X;", r)
		case form == 3:
			fmt.Fprintf(&b, "&#x%X;", r)
		default:
			fmt.Fprintf(&b, "&#%d;", r)
		}
	}
	return b.String()
}

func unquotable(v string) bool {
	if v == "" {
		return false
	}
	// HTML 13.1.2.3: no white space, " ' = < > ` in an unquoted value
	return !strings.ContainsAny(v, " \t\n\f\r\"'=<>`")
}

func writeAttr(b *strings.Builder, a Attr, upper, xhtml bool) {
	k := a.K
	if upper && !xhtml {
		k = strings.ToUpper(k)
	}
	v := strings.ReplaceAll(a.V, "&", "&amp;")
	q := a.Q & 3
	if xhtml && (q == 2 || q == 3) {
		q = 0
	}
	b.WriteByte(' ')
	switch {
	case q == 1:
		b.WriteString(k + "='" + strings.ReplaceAll(v, "'", "&#39;") + "'")
	case q == 2 && unquotable(a.V) && !strings.Contains(a.V, "&"):
		b.WriteString(k + "=" + v)
	case q == 3:
		b.WriteString(k + " = \"" + strings.ReplaceAll(v, "\"", "&quot;") + "\"")
	default:
		b.WriteString(k + "=\"" + strings.ReplaceAll(v, "\"", "&quot;") + "\"")
	}
}

type piece struct {
	s      string
	endTag string // non-empty: this piece is the end tag of that element
}

type writer struct {
	ser    Ser
	pieces []piece
}

func (w *writer) put(s string)         { w.pieces = append(w.pieces, piece{s: s}) }
func (w *writer) putEnd(tag, s string) { w.pieces = append(w.pieces, piece{s: s, endTag: tag}) }

var voidTags = map[string]bool{"br": true, "hr": true, "meta": true, "img": true}

// elements whose children may be separated by inter-element white space
// without changing any content element's text
var containerTags = map[string]bool{
	"body": true, "div": true, "section": true, "article": true, "main": true, "nav": true, "aside": true,
	"header": true, "footer": true, "ul": true, "ol": true, "table": true, "thead": true, "tbody": true,
	"tfoot": true, "tr": true, "template": true,
}

// start tags that close an open p element (HTML 13.1.2.4, p end tag omission)
var closesP = map[string]bool{
	"address": true, "article": true, "aside": true, "blockquote": true, "details": true, "div": true, "dl": true,
	"fieldset": true, "figcaption": true, "figure": true, "footer": true, "form": true, "h1": true, "h2": true,
	"h3": true, "h4": true, "h5": true, "h6": true, "header": true, "hgroup": true, "hr": true, "main": true,
	"menu": true, "nav": true, "ol": true, "p": true, "pre": true, "section": true, "table": true, "ul": true,
}

func isTag(n *Node, tags ...string) bool {
	if n == nil {
		return false
	}
	for _, t := range tags {
		if n.Tag == t {
			return true
		}
	}
	return false
}

// omitsEnd decides whether n's end tag is left out (HTML 13.1.2.4 "Optional
// tags"). next is the following sibling node, nil when n is the last child.
func (w *writer) omitsEnd(n, parent, next *Node) bool {
	if w.ser.XHTML || !w.ser.OmitEnd || n.S&SOmitEnd == 0 {
		return false
	}
	switch n.Tag {
	case "li":
		return next == nil || isTag(next, "li")
	case "p":
		if next == nil {
			// "...or if there is no more content in the parent element and the
			// parent element is an HTML element that is not an a, audio, del,
			// ins, map, noscript, or video element"
			return !isTag(parent, "a", "audio", "del", "ins", "map", "noscript", "video")
		}
		if next.IsText() || next.IsComment() || !closesP[next.Tag] {
			return false
		}
		if next.Tag == "table" && w.ser.Doctype >= 2 {
			// quirks mode: <table> does not close <p>. Doctype 2 is no-quirks by
			// the standard, but x/net/html compares the doctype name "HTML"
			// case-sensitively and takes it for quirks; writing </p> gives the
			// same tree under both readings.
			return false
		}
		return true
	case "td", "th":
		return next == nil || isTag(next, "td", "th")
	case "tr":
		return next == nil || isTag(next, "tr")
	case "thead":
		return isTag(next, "tbody", "tfoot")
	case "tbody":
		return next == nil || isTag(next, "tbody", "tfoot")
	case "tfoot":
		return next == nil
	}
	return false
}

// omitsTbodyStart: "A tbody element's start tag can be omitted if the first
// thing inside the tbody element is a tr element, and if the element is not
// immediately preceded by a tbody, thead, or tfoot element whose end tag has
// been omitted."
func (w *writer) omitsTbodyStart(n, parent *Node, idx int) bool {
	if w.ser.XHTML || !w.ser.OmitEnd || n.S&SOmitEnd == 0 || n.Tag != "tbody" || len(n.Attr) > 0 {
		return false
	}
	if len(n.Kids) == 0 || n.Kids[0].Tag != "tr" {
		return false
	}
	if idx > 0 {
		prev := parent.Kids[idx-1]
		if !isTag(prev, "thead", "tbody", "tfoot") {
			return false // a comment or the like: keep the tag
		}
		if w.omitsEnd(prev, parent, n) {
			return false
		}
	}
	return true
}

func (w *writer) startTag(n *Node) string {
	var b strings.Builder
	name := n.Tag
	upper := n.S&SUpper != 0 && !w.ser.XHTML
	if upper {
		name = strings.ToUpper(name)
	}
	b.WriteString("<" + name)
	for _, a := range n.Attr {
		writeAttr(&b, a, upper, w.ser.XHTML)
	}
	if voidTags[n.Tag] && w.ser.XHTML {
		b.WriteString("/>")
		return b.String()
	}
	if n.S&STagSpace != 0 {
		b.WriteString(" ")
	}
	b.WriteString(">")
	return b.String()
}

func (w *writer) endTag(n *Node) string {
	name := n.Tag
	if n.S&SUpper != 0 && !w.ser.XHTML {
		name = strings.ToUpper(name)
	}
	return "</" + name + ">"
}

func (w *writer) sep(depth int) {
	switch w.ser.Indent {
	case 1:
		w.put("\n")
	case 2:
		w.put("\n" + strings.Repeat("\t", depth))
	}
}

func (w *writer) node(n, parent *Node, idx, depth int) {
	var next *Node
	if parent != nil && idx+1 < len(parent.Kids) {
		next = parent.Kids[idx+1]
	}
	switch {
	case n.IsText():
		if parent != nil && isRawText(parent.Tag) {
			w.put(rawText(parent.Tag, n, w.ser.XHTML))
			return
		}
		w.put(encodeText(n.leafText(), n.S, w.ser.XHTML))
		return
	case n.IsComment():
		// HTML 13.1.6: comment text must not start with '>' or '->', nor
		// contain '<!--', '-->' or '--!>'; a token fulfils that.
		w.put("<!-- " + n.Tok + " -->")
		return
	}
	if !w.omitsTbodyStart(n, parent, idx) {
		w.put(w.startTag(n))
	}
	if voidTags[n.Tag] {
		return
	}
	if n.Tag == "pre" && n.S&SNewline != 0 {
		w.put("\n")
	}
	for i, k := range n.Kids {
		if containerTags[n.Tag] && !k.IsText() {
			w.sep(depth + 1)
		}
		w.node(k, n, i, depth+1)
	}
	if containerTags[n.Tag] && len(n.Kids) > 0 {
		w.sep(depth)
	}
	if !w.omitsEnd(n, parent, next) {
		w.putEnd(n.Tag, w.endTag(n))
	}
}

// HTML serialises the document with its own spelling choices.
func (d *Doc) HTML() []byte { return d.Render(d.Ser) }

// Strict returns the spelling with nothing omitted (HTML syntax).
func Strict() Ser { return Ser{} }

// Render serialises the document with the given spelling choices.
func (d *Doc) Render(s Ser) []byte {
	if s.XHTML {
		s = Ser{XHTML: true, Indent: s.Indent}
	}
	w := &writer{ser: s}
	if s.XHTML {
		w.put("<?xml version=\"1.0\" encoding=\"UTF-8\"?>\n")
	}
	switch s.Doctype {
	case 0:
		w.put("<!DOCTYPE html>")
	case 1:
		w.put("<!doctype html>")
	case 2:
		w.put(`<!DOCTYPE HTML PUBLIC "-//W3C//DTD HTML 4.01//EN" "http://www.w3.org/TR/html4/strict.dtd">`)
	}
	body := d.Body
	// html, head, body start and end tags may all be omitted when the elements
	// carry no attributes and are not followed/started by a comment or white
	// space; <body> additionally not when its first child is meta, link,
	// script, style, template or noscript (HTML 13.1.2.4).
	omitRoot := s.OmitRoot && !s.XHTML
	omitBody := omitRoot && len(body.Attr) == 0 && len(body.Kids) > 0 &&
		!body.Kids[0].IsText() && !body.Kids[0].IsComment() &&
		!isTag(body.Kids[0], "script", "style", "template", "meta", "link", "noscript")
	if !omitRoot {
		if s.Indent > 0 {
			w.put("\n")
		}
		if s.XHTML {
			w.put(`<html xmlns="http://www.w3.org/1999/xhtml">`)
		} else {
			w.put(`<html lang="en">`)
		}
		w.put("<head>")
	}
	if s.XHTML {
		w.put(`<meta charset="utf-8"/>`)
	} else {
		w.put(`<meta charset="utf-8">`)
	}
	w.put("<title>doc</title>")
	head := &Node{Tag: "head", Kids: d.Head}
	for i, k := range d.Head {
		w.node(k, head, i, 1)
	}
	if !omitRoot {
		w.put("</head>")
	}
	if omitBody {
		// no white space before the first body child: it would end up as the
		// body's first child and is what forbids the omission
		for i, k := range body.Kids {
			if i > 0 && !k.IsText() {
				w.sep(1)
			}
			w.node(k, body, i, 1)
			w.stray(i, len(body.Kids))
		}
	} else {
		w.put(w.startTag(body))
		for i, k := range body.Kids {
			if !k.IsText() {
				w.sep(1)
			}
			w.node(k, body, i, 1)
			w.stray(i, len(body.Kids))
		}
		if len(body.Kids) > 0 {
			w.sep(0)
		}
		if !omitRoot {
			w.putEnd("body", "</body>")
		}
	}
	if !omitRoot {
		w.putEnd("html", "</html>")
	}
	if s.TruncTail && !s.XHTML {
		// End-of-file closes every open element (HTML 13.2.6.4.7 "an
		// end-of-file token ... stop parsing"); not inside raw text or a
		// template, where end-of-file is handled differently.
		for len(w.pieces) > 0 {
			p := w.pieces[len(w.pieces)-1]
			if p.endTag != "" && !isRawText(p.endTag) && p.endTag != "template" {
				w.pieces = w.pieces[:len(w.pieces)-1]
				continue
			}
			if strings.TrimSpace(p.s) == "" {
				w.pieces = w.pieces[:len(w.pieces)-1]
				continue
			}
			break
		}
	} else if s.Indent > 0 {
		w.put("\n")
	}
	var b strings.Builder
	for _, p := range w.pieces {
		b.WriteString(p.s)
	}
	return []byte(b.String())
}

// stray writes an end tag that matches no open element: "If the stack of open
// elements does not have an element in scope that is an HTML element with the
// same tag name as that of the token, then this is a parse error; ignore the
// token." (HTML 13.2.6.4.7). address elements are never generated.
func (w *writer) stray(i, n int) {
	if w.ser.Stray == 0 || w.ser.XHTML || n == 0 {
		return
	}
	if int(w.ser.Stray-1)%n == i {
		w.put("</address>")
	}
}
