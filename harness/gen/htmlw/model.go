// Package htmlw is an independent HTML writer for the verification harness: a
// small DOM-tree model whose text leaves each carry a unique token, a
// serialiser with the spelling freedoms HTML grants (entity forms, omitted
// optional tags, attribute quoting, truncated tail) and a rapid generator.
//
// It shares nothing with tabula. The model is the oracle: Units() derives,
// from the tree alone and by the HTML element semantics, which text belongs to
// which content element (heading, paragraph, list item, table cell, code
// block, block quote), which text may never surface (script, style, template,
// comments) and which ancestors of a leaf could make a navigation filter drop
// it. golang.org/x/net/html is used only by CheckParse, to confirm that a
// serialisation with omitted tags parses back to the intended tree.
package htmlw

import (
	"fmt"
	"strings"
)

// Attr is one attribute. Q selects the spelling: 0 k="v", 1 k='v',
// 2 k=v (when v allows it, HTML 13.1.2.3 "unquoted attribute value syntax"),
// 3 k = "v" (white space around '=' is allowed by the same section).
type Attr struct {
	K string `json:"k"`
	V string `json:"v"`
	Q uint8  `json:"q,omitempty"`
}

// Node is an element (Tag = element name), a comment (Tag "#comment") or a
// text leaf (Tag ""). A text leaf reads  Tok + X [+ " " + Pad]  surrounded by
// the white space selected in S.
type Node struct {
	Tag  string  `json:"t,omitempty"`
	Attr []Attr  `json:"a,omitempty"`
	Kids []*Node `json:"k,omitempty"`

	Tok string `json:"tok,omitempty"` // unique token q<n>z (text leaves, comments)
	X   string `json:"x,omitempty"`   // special characters glued behind the token; written as character references
	Pad string `json:"pad,omitempty"` // lower-case filler words behind the token (no token syntax inside)

	// S holds spelling bits.
	// Elements: SOmitEnd, SUpper, STagSpace, SNewline.
	// Text: bits 0-1 reference form (named, decimal, hex, HEX), bit 2 literal
	// where HTML allows the character itself, bits 3-4 leading and 5-6
	// trailing white space (none, space, newline, tab).
	S uint8 `json:"s,omitempty"`
}

// Element spelling bits.
const (
	SOmitEnd  = 1 << iota // omit the end tag (and an optional tbody start tag) where HTML 13.1.2.4 allows it
	SUpper                // upper-case tag and attribute names
	STagSpace             // white space before '>' of the start tag
	SNewline              // a newline directly behind <pre> (dropped by the parser, HTML 13.1.2.5)
)

// Ser holds the document-level spelling choices.
type Ser struct {
	// XHTML writes a well-formed XML serialisation (EPUB content documents):
	// every end tag present, attributes quoted, only numeric and the five
	// predefined references, lower-case names. It overrides the switches below.
	XHTML bool `json:"xhtml,omitempty"`
	// Doctype: 0 "<!DOCTYPE html>", 1 "<!doctype html>", 2 HTML 4.01 strict,
	// 3 none (quirks mode). For 2 and 3 the writer never relies on <table>
	// closing an open <p>, which quirks mode does not do.
	Doctype uint8 `json:"doctype,omitempty"`
	// OmitEnd honours the per-node SOmitEnd bits.
	OmitEnd bool `json:"omit_end,omitempty"`
	// OmitRoot omits the html/head/body tags where HTML 13.1.2.4 allows it.
	OmitRoot bool `json:"omit_root,omitempty"`
	// TruncTail drops the run of end tags at the very end of the file (a
	// truncated download; end-of-file closes every open element).
	TruncTail bool `json:"trunc_tail,omitempty"`
	// Stray > 0 puts an unmatched </address> behind body child (Stray-1) mod n;
	// the tree builder ignores an end tag with no matching element in scope.
	Stray uint8 `json:"stray,omitempty"`
	// Indent: 0 no white space between blocks, 1 newline, 2 newline + tab.
	Indent uint8 `json:"indent,omitempty"`
}

// Doc is one generated document.
type Doc struct {
	Head []*Node `json:"head,omitempty"` // script / style / comment nodes inside <head>
	Body *Node   `json:"body"`           // Tag "body"
	Ser  Ser     `json:"ser"`
}

// ---------------------------------------------------------------------------
// constructors (handy for hand-written probes and other generators)

// T makes a text leaf.
func T(tok string) *Node { return &Node{Tok: tok} }

// E makes an element.
func E(tag string, kids ...*Node) *Node { return &Node{Tag: tag, Kids: kids} }

// With adds attributes (key, value pairs) and returns n.
func (n *Node) With(kv ...string) *Node {
	for i := 0; i+1 < len(kv); i += 2 {
		n.Attr = append(n.Attr, Attr{K: kv[i], V: kv[i+1]})
	}
	return n
}

// Get returns an attribute value.
func (n *Node) Get(k string) (string, bool) {
	for _, a := range n.Attr {
		if a.K == k {
			return a.V, true
		}
	}
	return "", false
}

// IsText reports whether n is a text leaf.
func (n *Node) IsText() bool { return n.Tag == "" }

// IsComment reports whether n is a comment.
func (n *Node) IsComment() bool { return n.Tag == "#comment" }

// Token builds the n-th token. No token is a substring of another: each ends
// in the only 'z' and starts with the only 'q'.
func Token(n int) string { return fmt.Sprintf("q%dz", n) }

// leafText is the character data of a text leaf (references resolved).
func (n *Node) leafText() string {
	ws := [4]string{"", " ", "\n", "\t"}
	s := ws[(n.S>>3)&3] + n.Tok + n.X
	if n.Pad != "" {
		s += " " + n.Pad
	}
	return s + ws[(n.S>>5)&3]
}

// Raw-text elements: their content is not parsed for markup or references.
func isRawText(tag string) bool { return tag == "script" || tag == "style" }

// rawText is the content written into a script or style element for a leaf.
func rawText(tag string, leaf *Node, xhtml bool) string {
	alt := leaf.S&1 == 1 && !xhtml // '<' and '&' would make an XML serialisation ill-formed
	switch tag {
	case "script":
		if alt {
			return "/* " + leaf.Tok + " */ if (1<2 && 3>2) { f(\"" + leaf.Tok + "\"); }"
		}
		return "var s=\"" + leaf.Tok + "\";"
	default: // style
		if alt {
			return "/* " + leaf.Tok + " */ p>b{margin:0}"
		}
		return "." + leaf.Tok + "{color:red}"
	}
}

// Walk visits n and every descendant in document order.
func (n *Node) Walk(f func(n *Node, anc []*Node)) {
	var rec func(n *Node, anc []*Node)
	rec = func(n *Node, anc []*Node) {
		f(n, anc)
		anc = append(anc, n)
		for _, k := range n.Kids {
			rec(k, anc)
		}
	}
	rec(n, nil)
}

// CountTag counts descendant-or-self elements with the given tag.
func (n *Node) CountTag(tag string) int {
	c := 0
	n.Walk(func(m *Node, _ []*Node) {
		if m.Tag == tag {
			c++
		}
	})
	return c
}

func normWS(s string) string { return strings.Join(strings.Fields(s), " ") }
