package htmlw

import (
	"fmt"
	"sort"
	"strings"
)

func inList(xs []string, v string) bool {
	for _, x := range xs {
		if x == v {
			return true
		}
	}
	return false
}

// Features lists the generator classes a document falls in (evidence labels).
func (d *Doc) Features() []string {
	set := map[string]bool{}
	maxList := 0
	d.Body.Walk(func(n *Node, anc []*Node) {
		parent := (*Node)(nil)
		if len(anc) > 0 {
			parent = anc[len(anc)-1]
		}
		inUnit := false
		lists := 0
		for _, a := range anc {
			if isTag(a, "td", "th", "li", "blockquote") {
				inUnit = true
			}
			if isTag(a, "ul", "ol") {
				lists++
			}
		}
		if isTag(n, "div", "section", "article", "main", "nav", "aside", "header", "footer") {
			for _, k := range n.Kids {
				if k.IsText() || isTag(k, "span", "b") || (k.Tag == "a" && len(k.Kids) == 1 && k.Kids[0].IsText()) {
					set["bare-text-in-wrapper"] = true
				}
			}
		}
		switch n.Tag {
		case "":
			if n.X != "" {
				set["entities"] = true
			}
			return
		case "#comment":
			set["comment"] = true
			return
		case "nav", "aside":
			set[n.Tag] = true
			if inUnit {
				set["chrome-in-leaf"] = true
			}
		case "header", "footer", "main", "pre", "blockquote", "script", "template", "thead", "tfoot":
			set[n.Tag] = true
		case "p":
			if isTag(parent, "li") {
				set["li-p"] = true
			}
		case "ul", "ol":
			if lists+1 > maxList {
				maxList = lists + 1
			}
		case "table":
			for _, a := range anc {
				if a.Tag == "table" {
					set["nested-table"] = true
				}
			}
			set["table"] = true
			headerless := n.CountTag("thead") == 0
			secs := n.Kids
			if len(secs) > 0 && secs[0].Tag == "caption" {
				set["caption"] = true
				secs = secs[1:]
			}
			if headerless && len(secs) > 0 && len(secs[0].Kids) > 0 {
				for _, c := range secs[0].Kids[0].Kids {
					if c.Tag == "th" {
						headerless = false
					}
				}
			}
			if headerless {
				set["headerless-table"] = true
			}
		case "li":
			seen := false
			for _, k := range n.Kids {
				if isTag(k, "ul", "ol") {
					seen = true
				} else if seen && k.IsText() {
					set["li-trailing"] = true
				}
			}
		case "h1", "h2", "h3", "h4", "h5", "h6":
			set["heading"] = true
		case "a":
			for _, k := range n.Kids {
				if isTag(k, "p", "h1", "h2", "h3", "h4", "h5", "h6") {
					set["a-block"] = true
				}
			}
		}
		for _, a := range n.Attr {
			switch a.K {
			case "rowspan":
				set["rowspan"] = true
			case "colspan":
				set["colspan"] = true
			case "role":
				set["role"] = true
				if a.V == "navigation" || a.V == "complementary" {
					set["role-chrome"] = true
				}
			case "class", "id":
				last := a.V
				if i := strings.LastIndex(last, " "); i >= 0 && !inList(VocabExact, a.V) {
					last = last[i+1:]
				}
				switch {
				case inList(VocabExact, a.V) || inList(VocabExact, last):
					set["vocab-exact"] = true
				case inList(VocabNear, last):
					set["vocab-near"] = true
				default:
					set["vocab-neutral"] = true
				}
			}
		}
		if links, share := linkStat(n); links >= 4 && isTag(n, "div", "section", "ul", "ol") {
			if share > 0.6 {
				set["link-dense"] = true
			} else {
				set["link-sparse"] = true
			}
		}
	})
	if maxList > 0 {
		set[fmt.Sprintf("list-depth-%d", maxList)] = true
	}
	if len(d.Head) > 0 {
		set["head-hidden"] = true
	}
	if len(d.Body.Kids) == 1 && isTag(d.Body.Kids[0], "div", "main") {
		set["single-wrapper"] = true
	}
	s := d.Ser
	switch {
	case s.XHTML:
		set["ser-xhtml"] = true
	default:
		if s.OmitEnd && string(d.Render(s)) != string(d.Render(Ser{Doctype: s.Doctype, OmitRoot: s.OmitRoot, TruncTail: s.TruncTail, Stray: s.Stray, Indent: s.Indent})) {
			set["ser-omitted-end-tags"] = true
		}
		if s.OmitRoot {
			set["ser-omit-root"] = true
		}
		if s.TruncTail {
			set["ser-trunc-tail"] = true
		}
		if s.Stray > 0 {
			set["ser-stray-end-tag"] = true
		}
		if s.Doctype == 3 {
			set["ser-quirks"] = true
		}
	}
	out := make([]string, 0, len(set))
	for k := range set {
		out = append(out, k)
	}
	sort.Strings(out)
	return out
}

// MaxDepth returns the deepest element nesting below body.
func (d *Doc) MaxDepth() int {
	max := 0
	d.Body.Walk(func(n *Node, anc []*Node) {
		if !n.IsText() && !n.IsComment() && len(anc) > max {
			max = len(anc)
		}
	})
	return max
}
