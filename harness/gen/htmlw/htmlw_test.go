package htmlw

import (
	"testing"

	"pgregory.net/rapid"
)

// Every spelling the writer can produce must parse back (x/net/html) to the
// intended tree, and the expected-unit derivation must list every visible
// token exactly once.
func TestRoundTrip(t *testing.T) {
	rapid.Check(t, func(rt *rapid.T) {
		d := GenTree(rt, AllFeatures())
		b := d.HTML()
		if err := d.CheckParse(b); err != nil {
			rt.Fatalf("parse-back: %v\n%s", err, b)
		}
		x := d.Render(Ser{XHTML: true})
		if err := d.CheckParse(x); err != nil {
			rt.Fatalf("xhtml parse-back: %v\n%s", err, x)
		}
		e := d.Expect()
		seen := map[string]bool{}
		for _, tok := range append(e.Tokens(), e.Forbidden...) {
			if seen[tok] {
				rt.Fatalf("token %s listed twice", tok)
			}
			seen[tok] = true
		}
		n := 0
		d.Body.Walk(func(m *Node, _ []*Node) {
			if m.Tok != "" {
				n++
			}
		})
		for _, h := range d.Head {
			h.Walk(func(m *Node, _ []*Node) {
				if m.Tok != "" {
					n++
				}
			})
		}
		if n != len(seen) {
			rt.Fatalf("%d tokens in the tree, %d in Expect", n, len(seen))
		}
	})
}

func TestScan(t *testing.T) {
	f := Scan("a q1z&<q22z x\nq3z q4z| ")
	want := []Found{{"q1z", "&<", 2}, {"q22z", "", 7}, {"q3z", "", 14}, {"q4z", "|", 19}}
	if len(f) != len(want) {
		t.Fatalf("%v", f)
	}
	for i := range f {
		if f[i].Tok != want[i].Tok || f[i].After != want[i].After {
			t.Fatalf("%d: %+v want %+v", i, f[i], want[i])
		}
	}
}
