// Package pptxw writes PresentationML packages (.pptx) from a logical model plus
// explicit physical options. It is an independent writer: no code is shared
// with tabula; its unit tests read the packages back with archive/zip +
// encoding/xml.
//
// References are to ECMA-376 Part 1 (PresentationML clause 19, DrawingML
// clauses 20/21) and Part 2 (Open Packaging Conventions).
//
// # Logical model
//
// A Deck is the list of Slides in presentation order, i.e. the order of the
// <p:sldId> children of <p:sldIdLst> in ppt/presentation.xml (19.2.1.34
// sldIdLst: "the order of the slides in the list is the order in which they are
// presented"). Every sldId names its slide part through a relationship id
// (19.2.1.33 sldId, attribute r:id) that is resolved in
// ppt/_rels/presentation.xml.rels. Neither the part name of a slide nor the
// position of its ZIP member has any meaning.
//
// A Slide holds text in the usual places: title / centred title and subtitle
// placeholders, a body placeholder with levelled paragraphs, free text boxes,
// tables (graphic frames), the footer / date / slide-number placeholders and
// an optional notes slide (19.3.1.26 notes) reached through the slide part's
// relationships.
//
// # Physical options
//
// Part names of slides and notes, relative or absolute relationship targets,
// sldId values, relationship ids and their order, unreferenced decoy slide
// parts (ppt/slides/slideN.xml members that no sldId refers to), optional
// parts (layout/master/theme, docProps, slide rels) and the ZIP member order.
package pptxw

import (
	"fmt"
	"path"
	"strings"

	"verif/harness/gen/zipw"
)

// Para is one paragraph (21.1.2.2.6 a:p). Runs, when present, split Text into
// several <a:r> elements (their concatenation must equal Text).
type Para struct {
	Text   string   `json:"text"`
	Runs   []string `json:"runs,omitempty"`
	Level  int      `json:"level,omitempty"`  // a:pPr lvl, 0..8
	Bullet string   `json:"bullet,omitempty"` // "" inherited, "char" <a:buChar>, "auto" <a:buAutoNum>, "none" <a:buNone>
}

// Table is a DrawingML table (21.1.3.13 a:tbl); all rows have the same length.
type Table struct {
	Rows [][]string `json:"rows"`
}

// Notes is the notes slide of a slide.
type Notes struct {
	Part  string   `json:"part,omitempty"` // "" = ppt/notesSlides/notesSlide<k>.xml, k = position of the slide (1-based)
	Paras []string `json:"paras"`
	// SlideNum, when non-empty, adds the slide-number placeholder PowerPoint
	// puts on notes pages: an <a:fld type="slidenum"> whose cached text is SlideNum.
	SlideNum string `json:"slide_num,omitempty"`
	// AbsTarget spells the notesSlide relationship target of the slide as an
	// absolute part name ("/ppt/notesSlides/…") instead of a relative reference.
	AbsTarget bool `json:"abs_target,omitempty"`
}

// Slide is one slide part.
type Slide struct {
	Title     string   `json:"title,omitempty"`
	TitleType string   `json:"title_type,omitempty"` // "title" (default) or "ctrTitle" (19.7.10 ST_PlaceholderType)
	Subtitle  string   `json:"subtitle,omitempty"`   // type="subTitle"
	Body      []Para   `json:"body,omitempty"`       // body placeholder, idx=1
	BodyTyped bool     `json:"body_typed,omitempty"` // write <p:ph type="body" idx="1"/> instead of <p:ph idx="1"/>
	TextBoxes [][]Para `json:"text_boxes,omitempty"` // non-placeholder shapes (txBox="1")
	Tables    []Table  `json:"tables,omitempty"`
	Footer    string   `json:"footer,omitempty"`    // type="ftr"
	Date      string   `json:"date,omitempty"`      // type="dt", text carried by an <a:fld type="datetime1">
	SlideNum  string   `json:"slide_num,omitempty"` // type="sldNum", text carried by an <a:fld type="slidenum">
	// GroupFooters puts the footer, date and slide-number shapes into one group shape (19.3.1.22 grpSp): grouping
	// changes neither their text nor their placeholder roles.
	GroupFooters bool `json:"group_footers,omitempty"`
	// FootersFirst writes the footer, date and slide-number shapes in front of the body and the text boxes (the
	// order of the shape tree is the stacking order, nothing ties placeholders to its end)
	FootersFirst bool   `json:"footers_first,omitempty"`
	Notes        *Notes `json:"notes,omitempty"`

	// Part is the part name without leading slash; "" = ppt/slides/slide<k>.xml
	// with k = position in presentation order (1-based).
	Part string `json:"part,omitempty"`
	// AbsTarget spells the relationship target as "/ppt/…".
	AbsTarget bool `json:"abs_target,omitempty"`
	// SldID is the id attribute of <p:sldId> (19.2.1.33: 256 <= id < 2147483648, unique); 0 = 256+position.
	SldID int `json:"sld_id,omitempty"`
	// Missing: declared and related, but the part is not written.
	Missing bool `json:"missing,omitempty"`
	// Dangling (only with Missing): the slide list entry's r:id has no relationship at all - the other way a
	// declared slide can be unreadable.
	Dangling bool `json:"dangling,omitempty"`
	// NoRels omits the slide's relationship part (only honoured when the slide
	// has no notes; the slide then lacks its slideLayout relationship, which
	// consumers that only read text do not need).
	NoRels bool `json:"no_rels,omitempty"`
	// NotesRelFirst puts the notesSlide relationship before the slideLayout one.
	NotesRelFirst bool `json:"notes_rel_first,omitempty"`
}

// Options are deck-level physical choices.
type Options struct {
	Zip zipw.Order `json:"zip,omitempty"`
	// RelSeed != 0 permutes ids and order of the relationships of presentation.xml.
	RelSeed uint64 `json:"rel_seed,omitempty"`
	// Minimal omits slide master, slide layout and theme (and the
	// sldMasterIdLst); only presentation.xml, its rels and the slides remain.
	Minimal    bool `json:"minimal,omitempty"`
	NoDocProps bool `json:"no_doc_props,omitempty"`
	// MasterText is the prompt text of the title placeholders of the slide
	// master and the slide layout ("" = "Click to edit Master title style", what
	// PowerPoint writes). It is not slide content.
	MasterText string `json:"master_text,omitempty"`
	// Extra members are appended verbatim.
	Extra []zipw.Member `json:"extra,omitempty"`
	// RIDFirst writes the attributes of <p:sldId> as r:id, id instead of id, r:id
	// (the order of attribute specifications is not significant, XML 1.0 3.1).
	RIDFirst bool `json:"rid_first,omitempty"`
}

// Deck is the whole package.
type Deck struct {
	Slides []Slide `json:"slides"`
	// Decoys are slide parts present in the ZIP (Part mandatory) that no sldId
	// and no relationship refers to, e.g. the leftover of a deleted slide.
	Decoys []Slide `json:"decoys,omitempty"`
	Opt    Options `json:"opt,omitempty"`
}

const (
	nsP     = "http://schemas.openxmlformats.org/presentationml/2006/main"
	nsA     = "http://schemas.openxmlformats.org/drawingml/2006/main"
	nsR     = "http://schemas.openxmlformats.org/officeDocument/2006/relationships"
	nsPkg   = "http://schemas.openxmlformats.org/package/2006/relationships"
	nsCT    = "http://schemas.openxmlformats.org/package/2006/content-types"
	relBase = "http://schemas.openxmlformats.org/officeDocument/2006/relationships/"
	ctBase  = "application/vnd.openxmlformats-officedocument.presentationml."
	xmlDecl = `<?xml version="1.0" encoding="UTF-8" standalone="yes"?>` + "\n"
	nsDecl  = ` xmlns:a="` + nsA + `" xmlns:r="` + nsR + `" xmlns:p="` + nsP + `"`
)

func (d Deck) masterText() string {
	if d.Opt.MasterText != "" {
		return d.Opt.MasterText
	}
	return "Click to edit Master title style"
}

// PartName of slide i (0-based presentation order).
func (d Deck) PartName(i int) string {
	if p := d.Slides[i].Part; p != "" {
		return p
	}
	return fmt.Sprintf("ppt/slides/slide%d.xml", i+1)
}

// NotesPartName of slide i; "" when the slide has no notes.
func (d Deck) NotesPartName(i int) string {
	n := d.Slides[i].Notes
	if n == nil {
		return ""
	}
	if n.Part != "" {
		return n.Part
	}
	return fmt.Sprintf("ppt/notesSlides/notesSlide%d.xml", i+1)
}

// Texts returns every text string the slide part itself carries, in document
// order of the writer: title, subtitle, body paragraphs, text boxes, footer,
// date, slide number, then table cells (graphic frames are written after the
// shapes).
func (s Slide) Texts() []string {
	var out []string
	add := func(x string) {
		if x != "" {
			out = append(out, x)
		}
	}
	add(s.Title)
	add(s.Subtitle)
	for _, p := range s.Body {
		add(p.Text)
	}
	for _, tb := range s.TextBoxes {
		for _, p := range tb {
			add(p.Text)
		}
	}
	add(s.Footer)
	add(s.Date)
	add(s.SlideNum)
	for _, t := range s.Tables {
		for _, r := range t.Rows {
			for _, c := range r {
				add(c)
			}
		}
	}
	return out
}

// NotesTexts returns the text of the notes slide (without the slide-number field).
func (s Slide) NotesTexts() []string {
	if s.Notes == nil {
		return nil
	}
	var out []string
	for _, p := range s.Notes.Paras {
		if p != "" {
			out = append(out, p)
		}
	}
	return out
}

func validPart(p string) error {
	// any extension is a legal part name (OPC 6.2.2): the content type comes from the Override entry written for
	// every slide part, not from the name
	if p == "" || strings.HasPrefix(p, "/") || path.Clean(p) != p || strings.ContainsAny(p, " %\\?#") || strings.HasSuffix(p, "/") || path.Ext(p) == "" {
		return fmt.Errorf("illegal part name %q", p)
	}
	return nil
}

// Validate checks the model against the cited clauses.
func (d Deck) Validate() error {
	if len(d.Slides) == 0 {
		return fmt.Errorf("pptxw: no slides")
	}
	parts, ids := map[string]bool{}, map[int]bool{}
	use := func(p string) error {
		if err := validPart(p); err != nil {
			return err
		}
		if parts[strings.ToLower(p)] {
			return fmt.Errorf("duplicate part name %q (Part 2, 6.2.2.3)", p)
		}
		parts[strings.ToLower(p)] = true
		return nil
	}
	for i, s := range d.Slides {
		if err := use(d.PartName(i)); err != nil {
			return fmt.Errorf("pptxw: slide %d: %v", i, err)
		}
		if np := d.NotesPartName(i); np != "" {
			if err := use(np); err != nil {
				return fmt.Errorf("pptxw: slide %d notes: %v", i, err)
			}
		}
		id := s.SldID
		if id == 0 {
			id = 256 + i
		}
		if id < 256 || id >= 2147483648 || ids[id] {
			return fmt.Errorf("pptxw: slide %d: sldId id %d out of range or duplicate (19.2.1.33)", i, id)
		}
		ids[id] = true
		if err := s.validate(); err != nil {
			return fmt.Errorf("pptxw: slide %d: %v", i, err)
		}
	}
	for i, s := range d.Decoys {
		if err := use(s.Part); err != nil {
			return fmt.Errorf("pptxw: decoy %d: %v", i, err)
		}
		if s.Notes != nil {
			return fmt.Errorf("pptxw: decoy %d: decoys carry no notes", i)
		}
		if err := s.validate(); err != nil {
			return fmt.Errorf("pptxw: decoy %d: %v", i, err)
		}
	}
	return nil
}

func (s Slide) validate() error {
	if s.TitleType != "" && s.TitleType != "title" && s.TitleType != "ctrTitle" {
		return fmt.Errorf("title type %q", s.TitleType)
	}
	chk := func(ps []Para) error {
		for _, p := range ps {
			if p.Level < 0 || p.Level > 8 {
				return fmt.Errorf("paragraph level %d (21.1.2.2.7 pPr lvl: 0..8)", p.Level)
			}
			if len(p.Runs) > 0 && strings.Join(p.Runs, "") != p.Text {
				return fmt.Errorf("runs %q do not concatenate to %q", p.Runs, p.Text)
			}
			switch p.Bullet {
			case "", "char", "auto", "none":
			default:
				return fmt.Errorf("bullet %q", p.Bullet)
			}
		}
		return nil
	}
	if err := chk(s.Body); err != nil {
		return err
	}
	for _, tb := range s.TextBoxes {
		if err := chk(tb); err != nil {
			return err
		}
	}
	for _, t := range s.Tables {
		if len(t.Rows) == 0 || len(t.Rows[0]) == 0 {
			return fmt.Errorf("empty table")
		}
		for _, r := range t.Rows {
			if len(r) != len(t.Rows[0]) {
				return fmt.Errorf("ragged table")
			}
		}
	}
	return nil
}

func esc(s string) string {
	r := strings.NewReplacer("&", "&amp;", "<", "&lt;", ">", "&gt;", `"`, "&quot;", "\t", "&#9;", "\n", "&#10;")
	return r.Replace(s)
}

func paraXML(sb *strings.Builder, p Para) {
	sb.WriteString("<a:p>")
	if p.Level != 0 || p.Bullet != "" {
		sb.WriteString("<a:pPr")
		if p.Level != 0 {
			fmt.Fprintf(sb, ` lvl="%d"`, p.Level)
		}
		switch p.Bullet {
		case "char":
			sb.WriteString(`><a:buFont typeface="Arial"/><a:buChar char="•"/></a:pPr>`)
		case "auto":
			sb.WriteString(`><a:buFont typeface="+mj-lt"/><a:buAutoNum type="arabicPeriod"/></a:pPr>`)
		case "none":
			sb.WriteString(`><a:buNone/></a:pPr>`)
		default:
			sb.WriteString(`/>`)
		}
	}
	runs := p.Runs
	if len(runs) == 0 && p.Text != "" {
		runs = []string{p.Text}
	}
	for i, r := range runs {
		if i%2 == 0 {
			fmt.Fprintf(sb, `<a:r><a:rPr lang="en-US" dirty="0"/><a:t>%s</a:t></a:r>`, esc(r))
		} else {
			fmt.Fprintf(sb, `<a:r><a:rPr lang="en-US" b="1" dirty="0"/><a:t>%s</a:t></a:r>`, esc(r))
		}
	}
	sb.WriteString(`<a:endParaRPr lang="en-US" dirty="0"/></a:p>`)
}

func fieldPara(sb *strings.Builder, typ, text string) {
	fmt.Fprintf(sb, `<a:p><a:fld id="{B6F15528-21DE-4FAA-801E-634DDDAF4B2B}" type="%s"><a:rPr lang="en-US"/><a:t>%s</a:t></a:fld><a:endParaRPr lang="en-US"/></a:p>`, typ, esc(text))
}

type shapeID struct{ n int }

func (s *shapeID) next() int { s.n++; return s.n }

func spOpen(sb *strings.Builder, id int, name, ph string, txBox bool) {
	fmt.Fprintf(sb, `<p:sp><p:nvSpPr><p:cNvPr id="%d" name="%s"/>`, id, name)
	if txBox {
		sb.WriteString(`<p:cNvSpPr txBox="1"/><p:nvPr/></p:nvSpPr><p:spPr><a:xfrm><a:off x="1000000" y="2000000"/><a:ext cx="3000000" cy="400000"/></a:xfrm><a:prstGeom prst="rect"><a:avLst/></a:prstGeom></p:spPr>`)
	} else {
		fmt.Fprintf(sb, `<p:cNvSpPr><a:spLocks noGrp="1"/></p:cNvSpPr><p:nvPr>%s</p:nvPr></p:nvSpPr><p:spPr/>`, ph)
	}
	sb.WriteString(`<p:txBody><a:bodyPr/><a:lstStyle/>`)
}

const spClose = `</p:txBody></p:sp>`

func slideXML(s Slide) []byte {
	var sb strings.Builder
	ids := &shapeID{1}
	sb.WriteString(xmlDecl)
	sb.WriteString(`<p:sld` + nsDecl + `><p:cSld><p:spTree><p:nvGrpSpPr><p:cNvPr id="1" name=""/><p:cNvGrpSpPr/><p:nvPr/></p:nvGrpSpPr><p:grpSpPr><a:xfrm><a:off x="0" y="0"/><a:ext cx="0" cy="0"/><a:chOff x="0" y="0"/><a:chExt cx="0" cy="0"/></a:xfrm></p:grpSpPr>`)
	if s.Title != "" {
		tt := s.TitleType
		if tt == "" {
			tt = "title"
		}
		id := ids.next()
		spOpen(&sb, id, fmt.Sprintf("Title %d", id-1), `<p:ph type="`+tt+`"/>`, false)
		paraXML(&sb, Para{Text: s.Title})
		sb.WriteString(spClose)
	}
	if s.Subtitle != "" {
		id := ids.next()
		spOpen(&sb, id, fmt.Sprintf("Subtitle %d", id-1), `<p:ph type="subTitle" idx="1"/>`, false)
		paraXML(&sb, Para{Text: s.Subtitle})
		sb.WriteString(spClose)
	}
	writeBody := func() {
		if len(s.Body) > 0 {
			id := ids.next()
			ph := `<p:ph idx="1"/>`
			if s.BodyTyped {
				ph = `<p:ph type="body" idx="1"/>`
			}
			spOpen(&sb, id, fmt.Sprintf("Content Placeholder %d", id-1), ph, false)
			for _, p := range s.Body {
				paraXML(&sb, p)
			}
			sb.WriteString(spClose)
		}
		for _, tb := range s.TextBoxes {
			id := ids.next()
			spOpen(&sb, id, fmt.Sprintf("TextBox %d", id-1), "", true)
			for _, p := range tb {
				paraXML(&sb, p)
			}
			sb.WriteString(spClose)
		}
	}
	writeFooters := func() {
		grouped := s.GroupFooters && (s.Footer != "" || s.Date != "" || s.SlideNum != "")
		if grouped {
			id := ids.next()
			fmt.Fprintf(&sb, `<p:grpSp><p:nvGrpSpPr><p:cNvPr id="%d" name="Group %d"/><p:cNvGrpSpPr/><p:nvPr/></p:nvGrpSpPr><p:grpSpPr><a:xfrm><a:off x="0" y="6356350"/><a:ext cx="9144000" cy="365125"/><a:chOff x="0" y="6356350"/><a:chExt cx="9144000" cy="365125"/></a:xfrm></p:grpSpPr>`, id, id-1)
		}
		if s.Footer != "" {
			id := ids.next()
			spOpen(&sb, id, fmt.Sprintf("Footer Placeholder %d", id-1), `<p:ph type="ftr" sz="quarter" idx="11"/>`, false)
			paraXML(&sb, Para{Text: s.Footer})
			sb.WriteString(spClose)
		}
		if s.Date != "" {
			id := ids.next()
			spOpen(&sb, id, fmt.Sprintf("Date Placeholder %d", id-1), `<p:ph type="dt" sz="half" idx="10"/>`, false)
			fieldPara(&sb, "datetime1", s.Date)
			sb.WriteString(spClose)
		}
		if s.SlideNum != "" {
			id := ids.next()
			spOpen(&sb, id, fmt.Sprintf("Slide Number Placeholder %d", id-1), `<p:ph type="sldNum" sz="quarter" idx="12"/>`, false)
			fieldPara(&sb, "slidenum", s.SlideNum)
			sb.WriteString(spClose)
		}
		if grouped {
			sb.WriteString(`</p:grpSp>`)
		}
	}
	if s.FootersFirst {
		writeFooters()
		writeBody()
	} else {
		writeBody()
		writeFooters()
	}
	for _, t := range s.Tables {
		id := ids.next()
		// 19.3.1.21 graphicFrame with a:graphicData uri = …/drawingml/2006/table (21.1.3.13 tbl)
		fmt.Fprintf(&sb, `<p:graphicFrame><p:nvGraphicFramePr><p:cNvPr id="%d" name="Table %d"/><p:cNvGraphicFramePr><a:graphicFrameLocks noGrp="1"/></p:cNvGraphicFramePr><p:nvPr/></p:nvGraphicFramePr><p:xfrm><a:off x="1524000" y="1397000"/><a:ext cx="6096000" cy="741680"/></p:xfrm><a:graphic><a:graphicData uri="http://schemas.openxmlformats.org/drawingml/2006/table"><a:tbl><a:tblPr firstRow="1" bandRow="1"/><a:tblGrid>`, id, id-1)
		for range t.Rows[0] {
			sb.WriteString(`<a:gridCol w="2032000"/>`)
		}
		sb.WriteString(`</a:tblGrid>`)
		for _, r := range t.Rows {
			sb.WriteString(`<a:tr h="370840">`)
			for _, c := range r {
				sb.WriteString(`<a:tc><a:txBody><a:bodyPr/><a:lstStyle/>`)
				paraXML(&sb, Para{Text: c})
				sb.WriteString(`</a:txBody><a:tcPr/></a:tc>`)
			}
			sb.WriteString(`</a:tr>`)
		}
		sb.WriteString(`</a:tbl></a:graphicData></a:graphic></p:graphicFrame>`)
	}
	sb.WriteString(`</p:spTree></p:cSld><p:clrMapOvr><a:masterClrMapping/></p:clrMapOvr></p:sld>`)
	return []byte(sb.String())
}

func notesXML(n *Notes) []byte {
	var sb strings.Builder
	sb.WriteString(xmlDecl)
	sb.WriteString(`<p:notes` + nsDecl + `><p:cSld><p:spTree><p:nvGrpSpPr><p:cNvPr id="1" name=""/><p:cNvGrpSpPr/><p:nvPr/></p:nvGrpSpPr><p:grpSpPr/>`)
	// the slide image placeholder carries no text body
	sb.WriteString(`<p:sp><p:nvSpPr><p:cNvPr id="2" name="Slide Image Placeholder 1"/><p:cNvSpPr><a:spLocks noGrp="1" noRot="1" noChangeAspect="1"/></p:cNvSpPr><p:nvPr><p:ph type="sldImg"/></p:nvPr></p:nvSpPr><p:spPr/></p:sp>`)
	spOpen(&sb, 3, "Notes Placeholder 2", `<p:ph type="body" idx="1"/>`, false)
	for _, p := range n.Paras {
		paraXML(&sb, Para{Text: p})
	}
	sb.WriteString(spClose)
	if n.SlideNum != "" {
		spOpen(&sb, 4, "Slide Number Placeholder 3", `<p:ph type="sldNum" sz="quarter" idx="5"/>`, false)
		fieldPara(&sb, "slidenum", n.SlideNum)
		sb.WriteString(spClose)
	}
	sb.WriteString(`</p:spTree></p:cSld><p:clrMapOvr><a:masterClrMapping/></p:clrMapOvr></p:notes>`)
	return []byte(sb.String())
}

type rel struct{ id, typ, target string }

func relsXML(rs []rel) []byte {
	var sb strings.Builder
	sb.WriteString(xmlDecl)
	fmt.Fprintf(&sb, `<Relationships xmlns="%s">`, nsPkg)
	for _, r := range rs {
		fmt.Fprintf(&sb, `<Relationship Id="%s" Type="%s" Target="%s"/>`, r.id, r.typ, esc(r.target))
	}
	sb.WriteString(`</Relationships>`)
	return []byte(sb.String())
}

// relTarget spells the reference from a part in directory fromDir to part
// (Part 2, 8.3.3.1 Target: relative reference resolved against the source part,
// or an absolute part name).
func relTarget(fromDir, part string, abs bool) string {
	if abs {
		return "/" + part
	}
	from := strings.Split(fromDir, "/")
	to := strings.Split(part, "/")
	i := 0
	for i < len(from) && i < len(to)-1 && from[i] == to[i] {
		i++
	}
	return strings.Repeat("../", len(from)-i) + strings.Join(to[i:], "/")
}

func relsPartOf(part string) string {
	return path.Join(path.Dir(part), "_rels", path.Base(part)+".rels")
}

// SlideRelID returns the relationship id used for slide i in presentation.xml.rels.
func (d Deck) SlideRelID(i int) string { return d.relIDs()[i] }

func (d Deck) relIDs() []string {
	n := len(d.Slides) + 3
	p := zipw.Perm(n, d.Opt.RelSeed)
	ids := make([]string, n)
	for i := range ids {
		ids[i] = fmt.Sprintf("rId%d", p[i]+1)
	}
	return ids
}

// Members returns the package as ZIP members in their final order.
func (d Deck) Members() ([]zipw.Member, error) {
	if err := d.Validate(); err != nil {
		return nil, err
	}
	n := len(d.Slides)
	ids := d.relIDs()
	var ms []zipw.Member
	var overrides []string
	add := func(name string, data []byte, ct string) {
		ms = append(ms, zipw.Member{Name: name, Data: data})
		if ct != "" {
			overrides = append(overrides, fmt.Sprintf(`<Override PartName="/%s" ContentType="%s"/>`, name, ct))
		}
	}
	add("[Content_Types].xml", nil, "")
	rootRels := []rel{{"rId1", relBase + "officeDocument", "ppt/presentation.xml"}}
	if !d.Opt.NoDocProps {
		rootRels = append(rootRels,
			rel{"rId2", "http://schemas.openxmlformats.org/package/2006/relationships/metadata/core-properties", "docProps/core.xml"},
			rel{"rId3", relBase + "extended-properties", "docProps/app.xml"})
	}
	add("_rels/.rels", relsXML(rootRels), "")

	// ppt/presentation.xml (19.2.1.26 presentation): sldMasterIdLst, notesMasterIdLst, …, sldIdLst, sldSz, notesSz
	var pr strings.Builder
	pr.WriteString(xmlDecl)
	pr.WriteString(`<p:presentation` + nsDecl + `>`)
	var rels []rel
	if !d.Opt.Minimal {
		fmt.Fprintf(&pr, `<p:sldMasterIdLst><p:sldMasterId id="2147483648" r:id="%s"/></p:sldMasterIdLst>`, ids[n])
		rels = append(rels, rel{ids[n], relBase + "slideMaster", "slideMasters/slideMaster1.xml"})
	}
	pr.WriteString(`<p:sldIdLst>`)
	for i, s := range d.Slides {
		id := s.SldID
		if id == 0 {
			id = 256 + i
		}
		if d.Opt.RIDFirst {
			fmt.Fprintf(&pr, `<p:sldId r:id="%s" id="%d"/>`, ids[i], id)
		} else {
			fmt.Fprintf(&pr, `<p:sldId id="%d" r:id="%s"/>`, id, ids[i])
		}
		if s.Missing && s.Dangling {
			continue // declared, but neither the relationship nor the part exists
		}
		rels = append(rels, rel{ids[i], relBase + "slide", relTarget("ppt", d.PartName(i), s.AbsTarget)})
	}
	pr.WriteString(`</p:sldIdLst><p:sldSz cx="9144000" cy="6858000" type="screen4x3"/><p:notesSz cx="6858000" cy="9144000"/></p:presentation>`)
	if !d.Opt.Minimal {
		rels = append(rels, rel{ids[n+1], relBase + "theme", "theme/theme1.xml"})
	}
	if d.Opt.RelSeed != 0 {
		p := zipw.Perm(len(rels), d.Opt.RelSeed^0x5A5A)
		out := make([]rel, len(rels))
		for i, j := range p {
			out[i] = rels[j]
		}
		rels = out
	}
	add("ppt/presentation.xml", []byte(pr.String()), ctBase+"presentation.main+xml")
	add("ppt/_rels/presentation.xml.rels", relsXML(rels), "")

	writeSlide := func(part string, s Slide, notesPart string) {
		add(part, slideXML(s), ctBase+"slide+xml")
		var rs []rel
		if !d.Opt.Minimal {
			rs = append(rs, rel{"rId1", relBase + "slideLayout", relTarget(path.Dir(part), "ppt/slideLayouts/slideLayout1.xml", false)})
		}
		if notesPart != "" {
			nr := rel{"rId2", relBase + "notesSlide", relTarget(path.Dir(part), notesPart, s.Notes.AbsTarget)}
			if s.NotesRelFirst {
				rs = append([]rel{nr}, rs...)
			} else {
				rs = append(rs, nr)
			}
		}
		if len(rs) > 0 && !(s.NoRels && notesPart == "") {
			add(relsPartOf(part), relsXML(rs), "")
		}
		if notesPart != "" {
			add(notesPart, notesXML(s.Notes), ctBase+"notesSlide+xml")
			add(relsPartOf(notesPart), relsXML([]rel{{"rId1", relBase + "slide", relTarget(path.Dir(notesPart), part, false)}}), "")
		}
	}
	for i, s := range d.Slides {
		if s.Missing {
			continue
		}
		writeSlide(d.PartName(i), s, d.NotesPartName(i))
	}
	for _, s := range d.Decoys {
		writeSlide(s.Part, s, "")
	}
	if !d.Opt.Minimal {
		// Master and layout carry the prompt texts PowerPoint puts there; they
		// are not slide content.
		add("ppt/slideMasters/slideMaster1.xml", []byte(xmlDecl+`<p:sldMaster`+nsDecl+`><p:cSld><p:spTree><p:nvGrpSpPr><p:cNvPr id="1" name=""/><p:cNvGrpSpPr/><p:nvPr/></p:nvGrpSpPr><p:grpSpPr/><p:sp><p:nvSpPr><p:cNvPr id="2" name="Title Placeholder 1"/><p:cNvSpPr><a:spLocks noGrp="1"/></p:cNvSpPr><p:nvPr><p:ph type="title"/></p:nvPr></p:nvSpPr><p:spPr/><p:txBody><a:bodyPr/><a:lstStyle/><a:p><a:r><a:rPr lang="en-US"/><a:t>`+esc(d.masterText())+`</a:t></a:r></a:p></p:txBody></p:sp></p:spTree></p:cSld><p:clrMap bg1="lt1" tx1="dk1" bg2="lt2" tx2="dk2" accent1="accent1" accent2="accent2" accent3="accent3" accent4="accent4" accent5="accent5" accent6="accent6" hlink="hlink" folHlink="folHlink"/><p:sldLayoutIdLst><p:sldLayoutId id="2147483649" r:id="rId1"/></p:sldLayoutIdLst></p:sldMaster>`), ctBase+"slideMaster+xml")
		add("ppt/slideMasters/_rels/slideMaster1.xml.rels", relsXML([]rel{{"rId1", relBase + "slideLayout", "../slideLayouts/slideLayout1.xml"}, {"rId2", relBase + "theme", "../theme/theme1.xml"}}), "")
		add("ppt/slideLayouts/slideLayout1.xml", []byte(xmlDecl+`<p:sldLayout`+nsDecl+` type="obj"><p:cSld name="Title and Content"><p:spTree><p:nvGrpSpPr><p:cNvPr id="1" name=""/><p:cNvGrpSpPr/><p:nvPr/></p:nvGrpSpPr><p:grpSpPr/><p:sp><p:nvSpPr><p:cNvPr id="2" name="Title 1"/><p:cNvSpPr><a:spLocks noGrp="1"/></p:cNvSpPr><p:nvPr><p:ph type="title"/></p:nvPr></p:nvSpPr><p:spPr/><p:txBody><a:bodyPr/><a:lstStyle/><a:p><a:r><a:rPr lang="en-US"/><a:t>`+esc(d.masterText())+`</a:t></a:r></a:p></p:txBody></p:sp></p:spTree></p:cSld><p:clrMapOvr><a:masterClrMapping/></p:clrMapOvr></p:sldLayout>`), ctBase+"slideLayout+xml")
		add("ppt/slideLayouts/_rels/slideLayout1.xml.rels", relsXML([]rel{{"rId1", relBase + "slideMaster", "../slideMasters/slideMaster1.xml"}}), "")
		add("ppt/theme/theme1.xml", []byte(xmlDecl+`<a:theme xmlns:a="`+nsA+`" name="Office Theme"><a:themeElements/></a:theme>`), "application/vnd.openxmlformats-officedocument.theme+xml")
	}
	if !d.Opt.NoDocProps {
		add("docProps/core.xml", []byte(xmlDecl+`<cp:coreProperties xmlns:cp="http://schemas.openxmlformats.org/package/2006/metadata/core-properties" xmlns:dc="http://purl.org/dc/elements/1.1/"><dc:title>Generated deck</dc:title><dc:creator>pptxw</dc:creator></cp:coreProperties>`), "application/vnd.openxmlformats-package.core-properties+xml")
		add("docProps/app.xml", []byte(xmlDecl+fmt.Sprintf(`<Properties xmlns="http://schemas.openxmlformats.org/officeDocument/2006/extended-properties"><Application>pptxw</Application><Slides>%d</Slides></Properties>`, n)), "application/vnd.openxmlformats-officedocument.extended-properties+xml")
	}
	var ct strings.Builder
	ct.WriteString(xmlDecl)
	fmt.Fprintf(&ct, `<Types xmlns="%s"><Default Extension="rels" ContentType="application/vnd.openxmlformats-package.relationships+xml"/><Default Extension="xml" ContentType="application/xml"/>`, nsCT)
	for _, o := range overrides {
		ct.WriteString(o)
	}
	ct.WriteString(`</Types>`)
	ms[0].Data = []byte(ct.String())
	ms = append(ms, d.Opt.Extra...)
	return zipw.Arrange(ms, d.Opt.Zip), nil
}

// Bytes returns the .pptx file.
func (d Deck) Bytes() ([]byte, error) {
	ms, err := d.Members()
	if err != nil {
		return nil, err
	}
	return zipw.Bytes(ms)
}
