package pptxw

import (
	"archive/zip"
	"bytes"
	"encoding/xml"
	"io"
	"path"
	"reflect"
	"strings"
	"testing"

	"pgregory.net/rapid"
)

type rbRel struct {
	ID     string `xml:"Id,attr"`
	Type   string `xml:"Type,attr"`
	Target string `xml:"Target,attr"`
}
type rbRels struct {
	Rel []rbRel `xml:"Relationship"`
}
type rbPres struct {
	Slides []struct {
		ID  string `xml:"id,attr"`
		RID string `xml:"http://schemas.openxmlformats.org/officeDocument/2006/relationships id,attr"`
	} `xml:"http://schemas.openxmlformats.org/presentationml/2006/main sldIdLst>sldId"`
}

func unzip(t testing.TB, b []byte) map[string][]byte {
	zr, err := zip.NewReader(bytes.NewReader(b), int64(len(b)))
	if err != nil {
		t.Fatalf("zip: %v", err)
	}
	m := map[string][]byte{}
	for _, f := range zr.File {
		rc, _ := f.Open()
		d, _ := io.ReadAll(rc)
		rc.Close()
		if _, dup := m[f.Name]; dup {
			t.Fatalf("duplicate member %s", f.Name)
		}
		m[f.Name] = d
	}
	return m
}

func resolve(base, target string) string {
	if strings.HasPrefix(target, "/") {
		return strings.TrimPrefix(path.Clean(target), "/")
	}
	return path.Join(path.Dir(base), target)
}

// aTexts returns the contents of all DrawingML <a:t> elements in document order,
// grouped per <a:p> (runs and fields of one paragraph concatenated).
func aTexts(t testing.TB, name string, data []byte) []string {
	d := xml.NewDecoder(bytes.NewReader(data))
	var out []string
	var cur strings.Builder
	inT := false
	for {
		tok, err := d.Token()
		if err == io.EOF {
			break
		}
		if err != nil {
			t.Fatalf("%s not well-formed: %v", name, err)
		}
		switch v := tok.(type) {
		case xml.StartElement:
			if v.Name.Space == nsA && v.Name.Local == "p" {
				cur.Reset()
			}
			inT = v.Name.Space == nsA && v.Name.Local == "t"
		case xml.EndElement:
			if v.Name.Space == nsA && v.Name.Local == "p" && cur.Len() > 0 {
				out = append(out, cur.String())
			}
			inT = false
		case xml.CharData:
			if inT {
				cur.Write(v)
			}
		}
	}
	return out
}

func TestRoundTrip(t *testing.T) {
	rapid.Check(t, func(rt *rapid.T) {
		d := GenDeck(rt, 6, nil)
		if len(d.Slides) > 1 && rapid.IntRange(0, 4).Draw(rt, "missing") == 0 {
			d.Slides[rapid.IntRange(0, len(d.Slides)-1).Draw(rt, "missingIdx")].Missing = true
		}
		b, err := d.Bytes()
		if err != nil {
			rt.Fatalf("write: %v", err)
		}
		files := unzip(t, b)
		for name, data := range files {
			if strings.HasSuffix(name, ".xml") || strings.HasSuffix(name, ".rels") {
				aTexts(t, name, data) // well-formedness
			}
		}
		var root rbRels
		if err := xml.Unmarshal(files["_rels/.rels"], &root); err != nil {
			rt.Fatalf("root rels: %v", err)
		}
		main := ""
		for _, r := range root.Rel {
			if strings.HasSuffix(r.Type, "/officeDocument") {
				main = resolve("", r.Target)
			}
		}
		var pres rbPres
		if err := xml.Unmarshal(files[main], &pres); err != nil {
			rt.Fatalf("presentation: %v", err)
		}
		var rels rbRels
		if err := xml.Unmarshal(files[relsPartOf(main)], &rels); err != nil {
			rt.Fatalf("presentation rels: %v", err)
		}
		byID := map[string]rbRel{}
		for _, r := range rels.Rel {
			if _, dup := byID[r.ID]; dup {
				rt.Fatalf("duplicate relationship id %s", r.ID)
			}
			byID[r.ID] = r
			if !strings.HasSuffix(r.Type, "/slide") {
				if _, ok := files[resolve(main, r.Target)]; !ok {
					rt.Fatalf("relationship %s -> missing %s", r.ID, r.Target)
				}
			}
		}
		if len(pres.Slides) != len(d.Slides) {
			rt.Fatalf("sldIdLst has %d entries, want %d", len(pres.Slides), len(d.Slides))
		}
		ct := string(files["[Content_Types].xml"])
		referenced := map[string]bool{}
		for i, s := range d.Slides {
			r, ok := byID[pres.Slides[i].RID]
			if !ok || !strings.HasSuffix(r.Type, "/slide") {
				rt.Fatalf("slide %d: bad relationship", i)
			}
			part := resolve(main, r.Target)
			if part != d.PartName(i) {
				rt.Fatalf("slide %d resolves to %s, want %s", i, part, d.PartName(i))
			}
			referenced[part] = true
			data, ok := files[part]
			if ok == s.Missing {
				rt.Fatalf("slide %d: present=%v, Missing=%v", i, ok, s.Missing)
			}
			if s.Missing {
				continue
			}
			if !strings.Contains(ct, `PartName="/`+part+`"`) {
				rt.Fatalf("no content type for %s", part)
			}
			if got := aTexts(t, part, data); !reflect.DeepEqual(got, s.Texts()) {
				rt.Fatalf("slide %d texts %q, want %q", i, got, s.Texts())
			}
			var srels rbRels
			if rd, ok := files[relsPartOf(part)]; ok {
				if err := xml.Unmarshal(rd, &srels); err != nil {
					rt.Fatalf("slide rels: %v", err)
				}
			}
			var notes []string
			for _, sr := range srels.Rel {
				tp := resolve(part, sr.Target)
				if _, ok := files[tp]; !ok {
					rt.Fatalf("slide %d: relationship %s -> missing %s", i, sr.ID, tp)
				}
				if strings.HasSuffix(sr.Type, "/notesSlide") {
					notes = aTexts(t, tp, files[tp])
				}
			}
			want := s.NotesTexts()
			if s.Notes != nil && s.Notes.SlideNum != "" {
				want = append(want, s.Notes.SlideNum)
			}
			if !reflect.DeepEqual(notes, want) {
				rt.Fatalf("slide %d notes %q, want %q", i, notes, want)
			}
		}
		all := string(files[relsPartOf(main)])
		for _, dc := range d.Decoys {
			if _, ok := files[dc.Part]; !ok {
				rt.Fatalf("decoy %s not written", dc.Part)
			}
			// (a decoy may share its base name with a slide in another directory on purpose: only resolution counts)
			_ = all
			if referenced[dc.Part] {
				rt.Fatalf("decoy %s is referenced", dc.Part)
			}
		}
		b2, _ := d.Bytes()
		if !bytes.Equal(b, b2) {
			rt.Fatalf("output not reproducible")
		}
	})
}

func TestRelTarget(t *testing.T) {
	cases := [][4]string{
		{"ppt", "ppt/slides/slide1.xml", "", "slides/slide1.xml"},
		{"ppt/slides", "ppt/notesSlides/notesSlide2.xml", "", "../notesSlides/notesSlide2.xml"},
		{"ppt/slides/sub", "ppt/slideLayouts/slideLayout1.xml", "", "../../slideLayouts/slideLayout1.xml"},
		{"ppt/deck", "ppt/deck/x.xml", "", "x.xml"},
		{"ppt", "ppt/slides/slide1.xml", "abs", "/ppt/slides/slide1.xml"},
	}
	for _, c := range cases {
		if got := relTarget(c[0], c[1], c[2] != ""); got != c[3] {
			t.Errorf("relTarget(%s,%s) = %s, want %s", c[0], c[1], got, c[3])
		}
		if c[2] == "" {
			if back := path.Join(c[0], c[3]); back != c[1] {
				t.Errorf("resolving %s from %s gives %s", c[3], c[0], back)
			}
		}
	}
}
