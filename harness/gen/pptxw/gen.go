package pptxw

import (
	"fmt"
	"strings"

	"pgregory.net/rapid"

	"verif/harness/gen/zipw"
)

// TextFn supplies the text of one text-bearing spot of a slide. Properties
// that need to recognise text again pass a function returning unique tokens.
type TextFn func(t *rapid.T, where string) string

var words = strings.Fields("alpha bravo charlie delta echo foxtrot golf hotel india juliet kilo lima mike november oscar papa quebec romeo sierra tango")

// Words is a TextFn drawing 1..4 ordinary words.
func Words(t *rapid.T, where string) string {
	return strings.Join(rapid.SliceOfN(rapid.SampledFrom(words), 1, 4).Draw(t, where), " ")
}

func genParas(t *rapid.T, text TextFn, where string, maxN int) []Para {
	n := rapid.IntRange(1, maxN).Draw(t, where+"N")
	var out []Para
	for i := 0; i < n; i++ {
		p := Para{Text: text(t, where)}
		if rapid.IntRange(0, 2).Draw(t, where+"Lvl") == 0 {
			p.Level = rapid.IntRange(1, 3).Draw(t, where+"Level")
		}
		p.Bullet = rapid.SampledFrom([]string{"", "", "char", "auto", "none"}).Draw(t, where+"Bullet")
		if len(p.Text) >= 2 && rapid.IntRange(0, 3).Draw(t, where+"Split") == 0 {
			// split at a rune boundary into two runs
			rs := []rune(p.Text)
			k := rapid.IntRange(1, len(rs)-1).Draw(t, where+"SplitAt")
			p.Runs = []string{string(rs[:k]), string(rs[k:])}
		}
		out = append(out, p)
	}
	return out
}

// GenSlide draws the logical content of a slide; at least one text-bearing
// element is present. Physical fields stay zero (see GenPhysical).
func GenSlide(t *rapid.T, text TextFn) Slide {
	var s Slide
	if rapid.IntRange(0, 3).Draw(t, "hasTitle") > 0 {
		s.Title = text(t, "title")
		s.TitleType = rapid.SampledFrom([]string{"", "title", "ctrTitle"}).Draw(t, "titleType")
		if s.TitleType == "ctrTitle" && rapid.Bool().Draw(t, "hasSubtitle") {
			s.Subtitle = text(t, "subtitle")
		}
	}
	if rapid.IntRange(0, 3).Draw(t, "hasBody") > 0 {
		s.Body = genParas(t, text, "body", 3)
		s.BodyTyped = rapid.Bool().Draw(t, "bodyTyped")
	}
	for i, k := 0, rapid.IntRange(0, 5).Draw(t, "textBoxes"); i < k-3; i++ {
		s.TextBoxes = append(s.TextBoxes, genParas(t, text, "textbox", 2))
	}
	if rapid.IntRange(0, 3).Draw(t, "hasTable") == 0 {
		r, c := rapid.IntRange(1, 3).Draw(t, "tblRows"), rapid.IntRange(1, 3).Draw(t, "tblCols")
		var tb Table
		for i := 0; i < r; i++ {
			var row []string
			for j := 0; j < c; j++ {
				row = append(row, text(t, "cell"))
			}
			tb.Rows = append(tb.Rows, row)
		}
		s.Tables = append(s.Tables, tb)
	}
	if rapid.IntRange(0, 3).Draw(t, "hasFooter") == 0 {
		s.Footer = text(t, "footer")
	}
	if rapid.IntRange(0, 4).Draw(t, "hasDate") == 0 {
		s.Date = text(t, "date")
	}
	if rapid.IntRange(0, 3).Draw(t, "hasSlideNum") == 0 {
		s.SlideNum = text(t, "slidenum")
	}
	s.GroupFooters = rapid.IntRange(0, 2).Draw(t, "groupFooters") == 0
	if len(s.Texts()) == 0 {
		s.Body = []Para{{Text: text(t, "body")}}
	}
	return s
}

// GenNotes draws a notes slide.
func GenNotes(t *rapid.T, text TextFn) *Notes {
	n := &Notes{}
	for i, k := 0, rapid.IntRange(1, 2).Draw(t, "notesParas"); i < k; i++ {
		n.Paras = append(n.Paras, text(t, "notes"))
	}
	return n
}

// GenPhysical draws all physical choices for a populated deck: slide part
// names (numbers drawn from a wider pool so that numeric order, lexicographic
// order, presentation order and ZIP order are all independent; some slides get
// renamed/nested part names), notes part numbering, relationship spelling,
// sldId values, deck options. Decoys always receive a conventional
// ppt/slides/slide<N>.xml name from the same pool.
func GenPhysical(t *rapid.T, d *Deck) {
	n, k := len(d.Slides), len(d.Decoys)
	pool := make([]int, n+k+9)
	for i := range pool {
		pool[i] = i + 1
	}
	style := rapid.SampledFrom([]string{"identity", "permuted", "permuted", "permuted", "renamed"}).Draw(t, "partStyle")
	nums := pool[:n+k]
	if style != "identity" {
		nums = rapid.Permutation(pool).Draw(t, "partNumbers")[:n+k]
	}
	used := map[string]bool{}
	for i := range d.Slides {
		s := &d.Slides[i]
		p := fmt.Sprintf("ppt/slides/slide%d.xml", nums[i])
		if style == "renamed" {
			switch rapid.IntRange(0, 5).Draw(t, "partForm") {
			case 5:
				// a directory named ppt below ppt/: the relative target "ppt/deck/s3.xml" names /ppt/ppt/deck/s3.xml
				p = fmt.Sprintf("ppt/ppt/deck/s%d.xml", nums[i])
			case 4:
				p = fmt.Sprintf("ppt/deck/intro%d.sld", nums[i]) // not an .xml name: typed by its Override entry
			case 0:
				p = fmt.Sprintf("ppt/slides/sub/slide%d.xml", nums[i])
			case 1:
				p = fmt.Sprintf("ppt/slides/s%d.xml", nums[i])
			case 2:
				p = fmt.Sprintf("ppt/deck/page_%d.xml", nums[i])
			}
		}
		s.Part = p
		used[p] = true
		s.AbsTarget = rapid.IntRange(0, 3).Draw(t, "absTarget") == 0
		s.NoRels = rapid.IntRange(0, 4).Draw(t, "noRels") == 0
		s.NotesRelFirst = rapid.Bool().Draw(t, "notesRelFirst")
	}
	for i := range d.Decoys {
		d.Decoys[i].Part = fmt.Sprintf("ppt/slides/slide%d.xml", nums[n+i])
		// an unreferenced part where a reader that takes "ppt/…" for a full part name would look
		for _, s := range d.Slides {
			if alt := strings.TrimPrefix(s.Part, "ppt/"); strings.HasPrefix(alt, "ppt/") && !used[alt] {
				d.Decoys[i].Part = alt
				used[alt] = true
				break
			}
		}
	}
	// notes numbering is independent of slide numbering
	var withNotes []int
	for i := range d.Slides {
		if d.Slides[i].Notes != nil {
			withNotes = append(withNotes, i)
		}
	}
	if len(withNotes) > 0 {
		nn := make([]int, len(withNotes))
		for i := range nn {
			nn[i] = i + 1
		}
		nn = rapid.Permutation(nn).Draw(t, "notesNumbers")
		for j, i := range withNotes {
			d.Slides[i].Notes.Part = fmt.Sprintf("ppt/notesSlides/notesSlide%d.xml", nn[j])
			d.Slides[i].Notes.AbsTarget = rapid.IntRange(0, 4).Draw(t, "notesAbsTarget") == 0
		}
	}
	ids := make([]int, n)
	for i := range ids {
		ids[i] = 256 + i
	}
	if rapid.Bool().Draw(t, "permuteSldIds") {
		ids = rapid.Permutation(ids).Draw(t, "sldIds")
		off := rapid.IntRange(0, 40).Draw(t, "sldIdOffset")
		for i := range ids {
			ids[i] += off
		}
	}
	for i := range d.Slides {
		d.Slides[i].SldID = ids[i]
	}
	o := &d.Opt
	o.Zip = zipw.GenOrder(t, "zip")
	if rapid.IntRange(0, 4).Draw(t, "relShuffle") < 3 {
		o.RelSeed = rapid.Uint64Range(1, 1<<32).Draw(t, "relSeed")
	}
	o.Minimal = rapid.IntRange(0, 3).Draw(t, "minimal") == 0
	o.NoDocProps = rapid.IntRange(0, 3).Draw(t, "noDocProps") == 0
	o.RIDFirst = rapid.IntRange(0, 3).Draw(t, "ridFirst") == 0
}

// GenDeck draws a complete deck of 1..maxSlides slides with ordinary words as
// text, optional notes, 0..2 decoys, and all physical options.
func GenDeck(t *rapid.T, maxSlides int, text TextFn) Deck {
	if text == nil {
		text = Words
	}
	var d Deck
	for i, n := 0, rapid.IntRange(1, maxSlides).Draw(t, "slides"); i < n; i++ {
		s := GenSlide(t, text)
		if rapid.IntRange(0, 2).Draw(t, "hasNotes") == 0 {
			s.Notes = GenNotes(t, text)
		}
		d.Slides = append(d.Slides, s)
	}
	for i, k := 0, rapid.IntRange(0, 4).Draw(t, "decoys"); i < k-2; i++ {
		d.Decoys = append(d.Decoys, GenSlide(t, text))
	}
	GenPhysical(t, &d)
	return d
}
