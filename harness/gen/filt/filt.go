// Package filt holds independent *encoders* for the PDF stream filters tabula
// decodes (ISO 32000-1 §7.4): Flate with PNG/TIFF predictors, ASCIIHex and
// ASCII85. They are written from the PDF, PNG and TIFF specifications and share
// no code with tabula; tabula contains no encoder at all.
package filt

import (
	"bytes"
	"compress/flate"
	"compress/zlib"
)

// ---- predictors (forward direction) ---------------------------------------

// PNGForward applies PNG filtering (PNG spec §9) to raw, which must consist of
// whole rows of rowLen bytes; bpp is the bytes-per-pixel distance (= Colors at
// 8 bits per component). tags[r%len(tags)] is the filter type of row r (0–4).
// The output has one tag byte in front of every row.
func PNGForward(raw []byte, rowLen, bpp int, tags []int) []byte {
	if rowLen <= 0 || len(raw)%rowLen != 0 {
		panic("filt.PNGForward: raw is not a whole number of rows")
	}
	rows := len(raw) / rowLen
	out := make([]byte, 0, len(raw)+rows)
	prev := make([]byte, rowLen) // the row above the first is all zero
	for r := 0; r < rows; r++ {
		cur := raw[r*rowLen : (r+1)*rowLen]
		tag := 0
		if len(tags) > 0 {
			tag = tags[r%len(tags)]
		}
		out = append(out, byte(tag))
		for i := 0; i < rowLen; i++ {
			var a, b, c int // left, up, upper-left
			if i >= bpp {
				a = int(cur[i-bpp])
				c = int(prev[i-bpp])
			}
			b = int(prev[i])
			var p int
			switch tag {
			case 0:
				p = 0
			case 1:
				p = a
			case 2:
				p = b
			case 3:
				p = (a + b) / 2
			case 4:
				p = paeth(a, b, c)
			default:
				p = 0 // an invalid tag: bytes are written unfiltered; used only by the error clause
			}
			out = append(out, byte(int(cur[i])-p))
		}
		prev = cur
	}
	return out
}

func paeth(a, b, c int) int {
	p := a + b - c
	pa, pb, pc := iabs(p-a), iabs(p-b), iabs(p-c)
	if pa <= pb && pa <= pc {
		return a
	}
	if pb <= pc {
		return b
	}
	return c
}

func iabs(x int) int {
	if x < 0 {
		return -x
	}
	return x
}

// TIFFForward applies TIFF predictor 2 (horizontal differencing, TIFF 6.0
// §14) at 8 bits per component: every sample is replaced by its difference to
// the same component of the pixel on its left.
func TIFFForward(raw []byte, rowLen, colors int) []byte {
	if rowLen <= 0 || len(raw)%rowLen != 0 {
		panic("filt.TIFFForward: raw is not a whole number of rows")
	}
	out := make([]byte, len(raw))
	for r := 0; r < len(raw)/rowLen; r++ {
		for i := 0; i < rowLen; i++ {
			k := r*rowLen + i
			if i < colors {
				out[k] = raw[k]
			} else {
				out[k] = raw[k] - raw[k-colors]
			}
		}
	}
	return out
}

// ---- Flate ---------------------------------------------------------------

// Zlib compresses with the given compress/flate level (-2 … 9).
func Zlib(data []byte, level int) []byte {
	var buf bytes.Buffer
	w, err := zlib.NewWriterLevel(&buf, level)
	if err != nil {
		w, _ = zlib.NewWriterLevel(&buf, flate.DefaultCompression)
	}
	_, _ = w.Write(data)
	_ = w.Close()
	return buf.Bytes()
}

// ---- ASCIIHex -------------------------------------------------------------

// HexOpts are the spelling freedoms ISO 32000-1 §7.4.2 gives an encoder.
type HexOpts struct {
	Upper    []bool // case of digit k is Upper[k%len] (letters only)
	WSEvery  int    // insert WS after every n-th digit (0 = never); may fall between the two digits of a byte
	WS       string // the white-space bytes to insert
	EOD      bool   // write '>'
	DropLast bool   // if the last digit is '0', leave it out (decoder must assume 0); needs EOD or end of data
	Trail    string // bytes after '>' (ignored by a decoder)
}

func HexEncode(data []byte, o HexOpts) []byte {
	const lo, up = "0123456789abcdef", "0123456789ABCDEF"
	digits := make([]byte, 0, 2*len(data))
	for _, b := range data {
		digits = append(digits, b>>4, b&15)
	}
	if o.DropLast && o.EOD && len(digits) > 0 && digits[len(digits)-1] == 0 {
		digits = digits[:len(digits)-1]
	}
	var out []byte
	for k, d := range digits {
		ch := lo[d]
		if len(o.Upper) > 0 && o.Upper[k%len(o.Upper)] {
			ch = up[d]
		}
		out = append(out, ch)
		if o.WSEvery > 0 && (k+1)%o.WSEvery == 0 && o.WS != "" {
			out = append(out, o.WS...)
		}
	}
	if o.EOD {
		out = append(out, '>')
		out = append(out, o.Trail...)
	}
	return out
}

// ---- ASCII85 --------------------------------------------------------------

// A85Opts are the spelling freedoms of §7.4.3.
type A85Opts struct {
	WSEvery int    // insert WS after every n-th output character (0 = never); may fall inside a group
	WS      string // white-space bytes to insert
	LeadWS  string // white space before the first group
	EOD     bool   // write "~>"
	Trail   string // bytes after "~>"
}

func A85Encode(data []byte, o A85Opts) []byte {
	var chars []byte
	for i := 0; i < len(data); i += 4 {
		n := len(data) - i
		if n > 4 {
			n = 4
		}
		var grp [4]byte
		copy(grp[:], data[i:i+n])
		v := uint32(grp[0])<<24 | uint32(grp[1])<<16 | uint32(grp[2])<<8 | uint32(grp[3])
		if n == 4 && v == 0 {
			chars = append(chars, 'z')
			continue
		}
		var d [5]byte
		for k := 4; k >= 0; k-- {
			d[k] = byte(v%85) + '!'
			v /= 85
		}
		chars = append(chars, d[:n+1]...)
	}
	out := []byte(o.LeadWS)
	for k, c := range chars {
		out = append(out, c)
		if o.WSEvery > 0 && (k+1)%o.WSEvery == 0 && o.WS != "" {
			out = append(out, o.WS...)
		}
	}
	if o.EOD {
		out = append(out, '~', '>')
		out = append(out, o.Trail...)
	}
	return out
}
