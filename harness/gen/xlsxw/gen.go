package xlsxw

import (
	"fmt"
	"sort"
	"strings"

	"pgregory.net/rapid"

	"verif/harness/gen/zipw"
)

// GenConfig bounds the logical content drawn by GenWorkbook / GenSheet.
// Zero values select the defaults given in the comments.
type GenConfig struct {
	MaxSheets int // 4
	MaxCells  int // per sheet, 20
	MaxRow    int // largest 0-based row index, 199
	MaxCol    int // largest 0-based column index, 701 (ZZ)
	// Wide allows characters that are significant to XML or Markdown
	// (& < > " ' * _ ` [ ] ~ \) in cell strings. '|' , tab, CR and LF are never drawn.
	Wide bool
	// MaxMerges per sheet, 3.
	MaxMerges int
}

func (c GenConfig) norm() GenConfig {
	if c.MaxSheets == 0 {
		c.MaxSheets = 4
	}
	if c.MaxCells == 0 {
		c.MaxCells = 20
	}
	if c.MaxRow == 0 {
		c.MaxRow = 199
	}
	if c.MaxCol == 0 {
		c.MaxCol = 701
	}
	if c.MaxMerges == 0 {
		c.MaxMerges = 3
	}
	return c
}

var (
	plainRunes = []rune("abcdefghijklmnopqrstuvwxyzABCDEFGHIJKLMNOPQRSTUVWXYZ0123456789      .,;()-+=%/éüßñЖ東京")
	wideRunes  = []rune("&<>\"'*_`[]~\\#!{}$^@:😀")
)

// GenText draws a cell string: 1..12 characters, at least one of them not a
// blank, no '|', tab, CR or LF. With wide=false the string has no character
// with a meaning in XML or in Markdown inline syntax.
func GenText(t *rapid.T, label string, wide bool) string {
	alpha := plainRunes
	if wide {
		alpha = append(append([]rune{}, plainRunes...), wideRunes...)
		alpha = append(alpha, wideRunes...)
	}
	rs := rapid.SliceOfN(rapid.SampledFrom(alpha), 1, 12).Draw(t, label)
	s := strings.Join(strings.Fields(string(rs)), " ") // no leading/trailing/double blanks
	if s == "" {
		s = "x"
	}
	switch rapid.IntRange(0, 19).Draw(t, label+"Pad") {
	case 0:
		s = " " + s
	case 1:
		s = s + " "
	case 2:
		s = strings.Replace(s, " ", "  ", 1)
	}
	return s
}

// GenNumber draws the lexical form of a numeric <v> the way Excel writes
// doubles: optional sign, digits, optional fraction, optional E+nn / E-nn.
func GenNumber(t *rapid.T, label string) string {
	switch rapid.IntRange(0, 5).Draw(t, label+"Class") {
	case 0:
		return fmt.Sprint(rapid.IntRange(0, 999).Draw(t, label))
	case 1:
		return fmt.Sprint(rapid.IntRange(-99999, -1).Draw(t, label))
	case 2:
		return fmt.Sprintf("%d.%d", rapid.IntRange(0, 9999).Draw(t, label), rapid.IntRange(1, 999).Draw(t, label+"Frac"))
	case 3:
		return fmt.Sprintf("%d.%dE%s%02d", rapid.IntRange(1, 9).Draw(t, label), rapid.IntRange(1, 99999).Draw(t, label+"Frac"),
			rapid.SampledFrom([]string{"+", "-"}).Draw(t, label+"Sign"), rapid.IntRange(1, 30).Draw(t, label+"Exp"))
	case 4:
		return rapid.SampledFrom([]string{"0", "0.1", "1.0000000000000001E-2", "1E+20", "123456789012", "-0.5", "44197", "0.30000000000000004"}).Draw(t, label)
	}
	return fmt.Sprint(rapid.Int64Range(1000, 99999999999).Draw(t, label))
}

var formulas = []string{`SUM(A1:A3)`, `A1&"x"`, `IF(B2<3,"lo","hi")`, `TODAY()`, `1/0`, `NA()`, `AND(A1>0,B1<>"")`, `Sheet2!A1`, `B1*2`, `VLOOKUP(A1,C:D,2,FALSE)`}
var phonetics = []string{"トウキョウ", "フリガナ", "カナ", "ニホンゴ"}

// GenCell draws a value-carrying cell at (row,col).
func GenCell(t *rapid.T, row, col int, wide bool) Cell {
	k := rapid.SampledFrom(Kinds).Draw(t, "kind")
	c := Cell{Row: row, Col: col, Kind: k}
	switch k {
	case Shared, Inline, FormulaStr:
		c.Text = GenText(t, "text", wide)
	case SharedRich:
		n := rapid.IntRange(1, 3).Draw(t, "runs")
		for i := 0; i < n; i++ {
			c.Runs = append(c.Runs, GenText(t, "run", wide))
		}
	case FormulaNum, Number:
		c.Text = GenNumber(t, "num")
		c.ExplicitN = rapid.IntRange(0, 4).Draw(t, "explicitN") == 0
	case Date:
		c.Text = rapid.SampledFrom([]string{"2024-01-31T00:00:00Z", "1999-12-31", "2024-02-29T13:45:10.250", "1900-03-01T00:00:00", "2031-07-04T23:59:59Z"}).Draw(t, "date")
	case Bool:
		c.Text = rapid.SampledFrom([]string{"0", "1"}).Draw(t, "bool")
	case Error:
		c.Text = rapid.SampledFrom(ErrorCodes).Draw(t, "err")
	}
	switch k {
	case FormulaStr, FormulaNum:
		c.Formula = rapid.SampledFrom(formulas).Draw(t, "formula")
	case Bool, Error, Inline:
		if rapid.Bool().Draw(t, "hasFormula") {
			c.Formula = rapid.SampledFrom(formulas).Draw(t, "formula")
		}
	case Shared, SharedRich:
		if rapid.IntRange(0, 2).Draw(t, "hasPhonetic") == 0 {
			c.Phonetic = rapid.SampledFrom(phonetics).Draw(t, "phonetic")
		}
	}
	if rapid.IntRange(0, 3).Draw(t, "styled") == 0 {
		c.Style = 1
	}
	return c
}

func distinctSorted(xs []int) []int {
	sort.Ints(xs)
	out := xs[:0]
	for i, x := range xs {
		if i == 0 || x != xs[i-1] {
			out = append(out, x)
		}
	}
	return out
}

// genAxis draws a set of 1..n distinct indices in [0,max] mixing small values,
// letter-count boundaries and arbitrary values, so that gaps are the rule.
func genAxis(t *rapid.T, label string, n, max int, boundaries []int) []int {
	k := rapid.IntRange(1, n).Draw(t, label+"N")
	var xs []int
	for i := 0; i < k; i++ {
		var v int
		switch rapid.IntRange(0, 3).Draw(t, label+"Class") {
		case 0:
			v = rapid.IntRange(0, 9).Draw(t, label)
		case 1:
			v = rapid.SampledFrom(boundaries).Draw(t, label)
		default:
			v = rapid.IntRange(0, max).Draw(t, label)
		}
		if v > max {
			v = max
		}
		xs = append(xs, v)
	}
	return distinctSorted(xs)
}

// GenSheet draws the logical content of one sheet (cells, merges, empty rows)
// and the emission order of its cells. The sheet has at least one cell with a
// non-empty displayed value. Physical fields are left zero; see GenPhysical.
func GenSheet(t *rapid.T, cfg GenConfig, name string) Sheet {
	cfg = cfg.norm()
	s := Sheet{Name: name}
	// extent class keeps most sheets small (readers allocate rows x cols)
	maxRow, maxCol := cfg.MaxRow, cfg.MaxCol
	switch rapid.IntRange(0, 9).Draw(t, "extent") {
	case 0, 1, 2, 3, 4:
		maxRow, maxCol = min(maxRow, 24), min(maxCol, 30)
	case 5, 6:
		maxRow = min(maxRow, 24)
	case 7:
		maxCol = min(maxCol, 30)
	}
	colB := []int{25, 26, 27, 51, 52, 53, 675, 676, 677, 700, 701, 702, 703, 18277}
	rowB := []int{8, 9, 10, 98, 99, 100, 198, 199, 998, 999}
	cols := genAxis(t, "col", 6, maxCol, colB)
	rows := genAxis(t, "row", 6, maxRow, rowB)
	if maxCol >= 26 && rapid.IntRange(0, 9).Draw(t, "forceMultiLetter") < 8 {
		cols = distinctSorted(append(cols, rapid.IntRange(26, maxCol).Draw(t, "multiLetterCol")))
	}
	type addr struct{ r, c int }
	var addrs []addr
	for _, r := range rows {
		for _, c := range cols {
			addrs = append(addrs, addr{r, c})
		}
	}
	// choose a subset of the product
	n := rapid.IntRange(1, min(cfg.MaxCells, len(addrs))).Draw(t, "cells")
	perm := rapid.Permutation(addrs).Draw(t, "addrPick")
	picked := perm[:n]
	sort.Slice(picked, func(i, j int) bool {
		if picked[i].r != picked[j].r {
			return picked[i].r < picked[j].r
		}
		return picked[i].c < picked[j].c
	})
	// merges: anchored at drawn addresses, never overlapping
	nm := rapid.IntRange(0, cfg.MaxMerges).Draw(t, "merges")
	for i := 0; i < nm; i++ {
		a := rapid.SampledFrom(addrs).Draw(t, "mergeRoot")
		h := rapid.IntRange(0, 3).Draw(t, "mergeH")
		w := rapid.IntRange(0, 3).Draw(t, "mergeW")
		if h == 0 && w == 0 {
			w = 1
		}
		m := Merge{R1: a.r, C1: a.c, R2: min(a.r+h, MaxRow), C2: min(a.c+w, MaxCol)}
		ok := true
		for _, o := range s.Merges {
			if m.R1 <= o.R2 && o.R1 <= m.R2 && m.C1 <= o.C2 && o.C1 <= m.C2 {
				ok = false
			}
		}
		if ok {
			s.Merges = append(s.Merges, m)
		}
	}
	for _, a := range picked {
		covered, root := false, false
		for _, m := range s.Merges {
			if m.Contains(a.r, a.c) {
				covered = true
				root = a.r == m.R1 && a.c == m.C1
			}
		}
		if covered && !root {
			// covered cells are absent or present without a value
			if rapid.Bool().Draw(t, "coveredBlank") {
				s.Cells = append(s.Cells, Cell{Row: a.r, Col: a.c, Kind: Blank, Style: 1})
			}
			continue
		}
		if !covered && rapid.IntRange(0, 14).Draw(t, "blank") == 0 {
			s.Cells = append(s.Cells, Cell{Row: a.r, Col: a.c, Kind: Blank, Style: 1})
			continue
		}
		s.Cells = append(s.Cells, GenCell(t, a.r, a.c, cfg.Wide))
	}
	// merge roots usually hold a value
	for _, m := range s.Merges {
		has := false
		for _, c := range s.Cells {
			has = has || (c.Row == m.R1 && c.Col == m.C1)
		}
		if !has && rapid.IntRange(0, 4).Draw(t, "rootValue") > 0 {
			s.Cells = append(s.Cells, GenCell(t, m.R1, m.C1, cfg.Wide))
		}
	}
	if len(s.Grid()) == 0 { // guarantee one displayed value
		a := picked[0]
		free := true
		for _, m := range s.Merges {
			if m.Contains(a.r, a.c) && !(a.r == m.R1 && a.c == m.C1) {
				free = false
			}
		}
		var keep []Cell
		for _, c := range s.Cells {
			if !(c.Row == a.r && c.Col == a.c) {
				keep = append(keep, c)
			}
		}
		s.Cells = keep
		if !free {
			s.Merges = nil
		}
		c := GenCell(t, a.r, a.c, cfg.Wide)
		if c.Display() == "" {
			c = Cell{Row: a.r, Col: a.c, Kind: Number, Text: "1"}
		}
		s.Cells = append(s.Cells, c)
	}
	// stale values in covered cells: a producer that merges cells without clearing them leaves the old values in
	// the file; a spreadsheet shows the top-left value only (18.3.1.55 mergeCell). Only inside the rectangle the
	// displayed values span, so that the used range stays what the displayed values say.
	if len(s.Merges) > 0 && rapid.IntRange(0, 3).Draw(t, "staleCovered") == 0 {
		g := s.Grid()
		if len(g) > 0 {
			minR, maxR, minC, maxC := MaxRow, 0, MaxCol, 0
			for k := range g {
				minR, maxR, minC, maxC = min(minR, k[0]), max(maxR, k[0]), min(minC, k[1]), max(maxC, k[1])
			}
			for _, m := range s.Merges {
				for r := m.R1; r <= m.R2; r++ {
					for c := m.C1; c <= m.C2; c++ {
						if (r == m.R1 && c == m.C1) || r < minR || r > maxR || c < minC || c > maxC || rapid.IntRange(0, 2).Draw(t, "stale") != 0 {
							continue
						}
						keep := s.Cells[:0:0]
						for _, x := range s.Cells {
							if !(x.Row == r && x.Col == c) {
								keep = append(keep, x)
							}
						}
						st := Cell{Row: r, Col: c, Kind: Number, Text: fmt.Sprintf("9%d%d", r%10, c%10), Stale: true}
						if rapid.Bool().Draw(t, "staleString") {
							st = Cell{Row: r, Col: c, Kind: Inline, Text: fmt.Sprintf("old%dx%d", r, c), Stale: true}
						}
						s.Cells = append(keep, st)
					}
				}
			}
		}
	}
	// empty <row/> elements between and after the data
	if rapid.IntRange(0, 3).Draw(t, "emptyRows") == 0 {
		used := map[int]bool{}
		for _, c := range s.Cells {
			used[c.Row] = true
		}
		for _, r := range genAxis(t, "emptyRow", 2, min(maxRow+3, MaxRow), rowB) {
			if !used[r] {
				s.EmptyRows = append(s.EmptyRows, r)
			}
		}
	}
	// emission order
	sort.SliceStable(s.Cells, func(i, j int) bool {
		if s.Cells[i].Row != s.Cells[j].Row {
			return s.Cells[i].Row < s.Cells[j].Row
		}
		return s.Cells[i].Col < s.Cells[j].Col
	})
	switch rapid.SampledFrom([]string{"sorted", "rows", "cells", "all", "all"}).Draw(t, "emission") {
	case "rows": // rows out of order, cells of a row in order
		var rs []int
		seen := map[int]bool{}
		for _, c := range s.Cells {
			if !seen[c.Row] {
				seen[c.Row] = true
				rs = append(rs, c.Row)
			}
		}
		rs = rapid.Permutation(rs).Draw(t, "rowOrder")
		rank := map[int]int{}
		for i, r := range rs {
			rank[r] = i
		}
		sort.SliceStable(s.Cells, func(i, j int) bool { return rank[s.Cells[i].Row] < rank[s.Cells[j].Row] })
	case "cells": // rows in order, cells of a row shuffled
		sh := rapid.Permutation(s.Cells).Draw(t, "cellOrder")
		sort.SliceStable(sh, func(i, j int) bool { return sh[i].Row < sh[j].Row })
		s.Cells = sh
	case "all":
		s.Cells = rapid.Permutation(s.Cells).Draw(t, "cellOrder")
	}
	return s
}

var nameRunes = []rune("abcdefghijklmnopqrstuvwxyzABCDEFGHIJKLMNOPQRSTUVWXYZ0123456789 -_.éÖ数")

// GenSheetNames draws n sheet names that are unique case-insensitively and
// legal (18.2.19: at most 31 characters; Excel forbids [ ] : * ? / \ and a
// leading or trailing apostrophe).
func GenSheetNames(t *rapid.T, n int) []string {
	var out []string
	seen := map[string]bool{}
	for i := 0; len(out) < n; i++ {
		var s string
		if rapid.IntRange(0, 2).Draw(t, "stdName") == 0 {
			s = fmt.Sprintf("Sheet%d", rapid.IntRange(1, 9).Draw(t, "sheetNo"))
		} else {
			s = strings.Join(strings.Fields(string(rapid.SliceOfN(rapid.SampledFrom(nameRunes), 1, 14).Draw(t, "sheetName"))), " ")
		}
		if s == "" || seen[strings.ToLower(s)] {
			s = fmt.Sprintf("%s%c%d", s, 'n', i)
		}
		if seen[strings.ToLower(s)] {
			continue
		}
		seen[strings.ToLower(s)] = true
		out = append(out, s)
	}
	return out
}

// exactDimension is the used range of the sheet (18.3.1.35).
func exactDimension(s Sheet) string {
	if len(s.Cells) == 0 {
		return "A1"
	}
	r1, c1, r2, c2 := s.Cells[0].Row, s.Cells[0].Col, s.Cells[0].Row, s.Cells[0].Col
	for _, c := range s.Cells {
		r1, r2 = min(r1, c.Row), max(r2, c.Row)
		c1, c2 = min(c1, c.Col), max(c2, c.Col)
	}
	if r1 == r2 && c1 == c2 {
		return Ref(c1, r1)
	}
	return Ref(c1, r1) + ":" + Ref(c2, r2)
}

var partWords = []string{"data", "q", "tab", "ws", "Blatt", "feuille"}

// GenPhysical draws every physical choice for an already populated workbook:
// part names (so that part-name order, workbook order and ZIP order are
// independent), relationship spelling, sheet ids, per-sheet XML spelling and
// the workbook options. Decoys without a Part receive one from the same
// numbering pool as the real sheets. Existing Missing flags are kept.
func GenPhysical(t *rapid.T, w *Workbook) {
	n, d := len(w.Sheets), len(w.Decoys)
	nums := make([]int, n+d)
	for i := range nums {
		nums[i] = i + 1
	}
	style := rapid.SampledFrom([]string{"identity", "permuted", "permuted", "renamed", "renamed"}).Draw(t, "partStyle")
	if style != "identity" {
		nums = rapid.Permutation(nums).Draw(t, "partNumbers")
	}
	used := map[string]bool{}
	pick := func(i int, decoy bool) string {
		k := nums[i]
		p := fmt.Sprintf("xl/worksheets/sheet%d.xml", k)
		if style == "renamed" && !decoy {
			switch rapid.IntRange(0, 5).Draw(t, "partForm") {
			case 5:
				// a part outside /xl: any part name is allowed (OPC §8.1.1); reachable only through the relationship,
				// written as an absolute target or relative to /xl/workbook.xml ("../parts/…")
				p = fmt.Sprintf("parts/%s%d.xml", rapid.SampledFrom(partWords).Draw(t, "partWord"), k)
			case 0:
				p = fmt.Sprintf("xl/worksheets/sub/%s%d.xml", rapid.SampledFrom(partWords).Draw(t, "partWord"), k)
			case 1:
				p = fmt.Sprintf("xl/%s/%s_%d.xml", rapid.SampledFrom(partWords).Draw(t, "partDir"), rapid.SampledFrom(partWords).Draw(t, "partWord"), k)
			case 2:
				p = fmt.Sprintf("xl/worksheets/%s%d.xml", rapid.SampledFrom(partWords).Draw(t, "partWord"), k)
			case 3:
				p = fmt.Sprintf("xl/s%d.xml", k)
			}
		}
		for used[strings.ToLower(p)] {
			p = strings.TrimSuffix(p, ".xml") + "x.xml"
		}
		used[strings.ToLower(p)] = true
		return p
	}
	ids := make([]int, n)
	for i := range ids {
		ids[i] = i + 1
	}
	if rapid.Bool().Draw(t, "permuteSheetIds") {
		ids = rapid.Permutation(ids).Draw(t, "sheetIds")
		off := rapid.IntRange(0, 5).Draw(t, "sheetIdOffset")
		for i := range ids {
			ids[i] += off
		}
	}
	for i := range w.Sheets {
		s := &w.Sheets[i]
		s.Part = pick(i, false)
		s.AbsTarget = rapid.IntRange(0, 3).Draw(t, "absTarget") == 0
		s.SheetID = ids[i]
		genSpelling(t, s)
	}
	for i := range w.Decoys {
		s := &w.Decoys[i]
		if s.Part == "" {
			s.Part = pick(n+i, true)
		} else {
			used[strings.ToLower(s.Part)] = true
		}
		genSpelling(t, s)
	}
	o := &w.Opt
	o.Zip = zipw.GenOrder(t, "zip")
	if rapid.IntRange(0, 4).Draw(t, "sstShuffle") < 3 {
		o.SSTSeed = rapid.Uint64Range(1, 1<<32).Draw(t, "sstSeed")
	}
	o.SSTNoDedupe = rapid.IntRange(0, 4).Draw(t, "sstNoDedupe") == 0
	for i, k := 0, rapid.IntRange(0, 3).Draw(t, "sstFiller"); i < k; i++ {
		o.SSTFiller = append(o.SSTFiller, fmt.Sprintf("filler-%d", i))
	}
	if rapid.IntRange(0, 2).Draw(t, "sstEmptyEntry") == 0 {
		// an empty string item <si><t></t></si> is a string like any other (18.4.8) and occupies an index
		o.SSTFiller = append(o.SSTFiller, "")
	}
	if rapid.IntRange(0, 11).Draw(t, "sstRenamed") == 0 {
		o.SSTPart = rapid.SampledFrom([]string{"xl/strings.xml", "xl/sst/sharedStrings1.xml", "xl/worksheets/strings.xml"}).Draw(t, "sstPart")
	}
	if rapid.IntRange(0, 4).Draw(t, "relShuffle") < 3 {
		o.RelSeed = rapid.Uint64Range(1, 1<<32).Draw(t, "relSeed")
	}
	o.NoStyles = rapid.IntRange(0, 6).Draw(t, "noStyles") == 0
	o.NoDocProps = rapid.IntRange(0, 3).Draw(t, "noDocProps") == 0
	o.NoTheme = rapid.IntRange(0, 2).Draw(t, "noTheme") == 0
	o.StaleRels = rapid.IntRange(0, 4).Draw(t, "staleRels") == 0
	o.SheetAttrOrder = rapid.SampledFrom([]int{0, 0, 0, 1, 2}).Draw(t, "sheetAttrOrder")
	o.Strict = rapid.IntRange(0, 3).Draw(t, "strict") == 0
	if rapid.IntRange(0, 9).Draw(t, "workbookPrefix") == 0 {
		o.WorkbookPrefix = "x"
	}
}

func genSpelling(t *rapid.T, s *Sheet) {
	switch rapid.IntRange(0, 9).Draw(t, "dimension") {
	case 0, 1, 2:
		s.Dimension = ""
	case 3:
		s.Dimension = "A1" // stale: the element is informational
	case 4:
		// stale in range form: smaller than the used range (rows and columns were added by a tool that left the
		// element alone), or larger
		s.Dimension = rapid.SampledFrom([]string{"A1:B2", "A1:A1", "B2:C3", "A1:XFD1048576", "C3:D4"}).Draw(t, "staleDimension")
	default:
		s.Dimension = exactDimension(*s)
	}
	if rapid.IntRange(0, 6).Draw(t, "prefix") == 0 {
		s.Prefix = "x"
	}
	s.RowSpans = rapid.IntRange(0, 2).Draw(t, "rowSpans") == 0
	omitRowR := rapid.IntRange(0, 6).Draw(t, "omitRowR")
	s.OmitRowR = omitRowR <= 1
	s.RowRFromCells = omitRowR == 1 // round 11: one draw, so that the cases of earlier rounds stay what they were
	s.OmitCellR = rapid.IntRange(0, 5).Draw(t, "omitCellR") == 0
	s.Noise = rapid.IntRange(0, 2).Draw(t, "noise") == 0
}

// GenWorkbook draws a complete workbook: 1..MaxSheets sheets of GenSheet
// content and all physical options. No decoys and no missing parts are
// generated here (those belong to the ordering property; add them to the model
// before calling GenPhysical).
func GenWorkbook(t *rapid.T, cfg GenConfig) Workbook {
	cfg = cfg.norm()
	n := rapid.IntRange(1, cfg.MaxSheets).Draw(t, "sheets")
	names := GenSheetNames(t, n)
	var w Workbook
	for i := 0; i < n; i++ {
		w.Sheets = append(w.Sheets, GenSheet(t, cfg, names[i]))
	}
	GenPhysical(t, &w)
	return w
}
