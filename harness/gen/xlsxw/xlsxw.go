// Package xlsxw writes SpreadsheetML packages (.xlsx) from a logical model
// plus explicit physical options. It is an independent writer: it shares no
// code with tabula and is validated by its own unit tests, which read the
// packages back with archive/zip + encoding/xml.
//
// References are to ECMA-376 Part 1 (5th ed., "Fundamentals and Markup Language
// Reference", transitional namespaces) and Part 2 (Open Packaging Conventions).
//
// # Logical model
//
// A Workbook is a list of Sheets in workbook order (the order of the <sheet>
// elements in xl/workbook.xml, 18.2.20 sheets / 18.2.19 sheet, which is the
// tab order). A Sheet is a sparse set of addressed Cells (0-based Row/Col) plus
// merged ranges. The displayed value of a cell is Cell.Display().
//
// # Physical options
//
// Everything that may vary without changing the meaning of the workbook is an
// explicit field: part names of the sheet parts (reachable only through
// xl/_rels/workbook.xml.rels, Part 2 clause 8.3 "Relationships"; targets may be
// relative to /xl/ or absolute "/xl/…", Part 2 8.3.3.1 Target attribute),
// unreferenced decoy parts, relationship ids and their order, sheetId values,
// the order of <row> and <c> elements, the presence of <dimension>, the
// namespace prefix, the shared-string table order, filler entries, phonetic
// runs, and the order of the ZIP members.
//
// The order of Sheet.Cells is the emission order: rows are written in the order
// of the first appearance of a cell of that row, cells of a row in list order.
// Every <c> always carries its r attribute (18.3.1.4 c, attribute r).
package xlsxw

import (
	"fmt"
	"path"
	"strconv"
	"strings"

	"verif/harness/gen/zipw"
)

// Kind is the storage form of a cell (18.18.11 ST_CellType plus the formula
// element 18.3.1.40 f).
type Kind string

const (
	Shared     Kind = "shared" // t="s", <v> = index into the shared string table, plain <si><t> (18.4.8 si, 18.4.12 t)
	SharedRich Kind = "rich"   // t="s", the <si> holds rich text runs <r><rPr/><t> (18.4.4 r); displayed value = concatenation of the runs
	Inline     Kind = "inline" // t="inlineStr", <is><t> (18.3.1.53 is)
	FormulaStr Kind = "fstr"   // t="str": <f> + cached string in <v>
	FormulaNum Kind = "fnum"   // <f> + cached number in <v> (t absent or "n")
	Bool       Kind = "bool"   // t="b", <v> 1|0 ; displayed TRUE|FALSE
	Error      Kind = "error"  // t="e", <v> = error code (18.18.11: "e" cell containing an error)
	Number     Kind = "num"    // t absent (default "n"); <v> = the number's lexical form
	Blank      Kind = "blank"  // <c r=".." s=".."/> : a formatted cell without a value
	Date       Kind = "date"   // t="d": <v> = a date in ISO 8601 form (18.18.11 "d"); displayed as written
)

// Kinds lists the value-carrying kinds (everything except Blank).
var Kinds = []Kind{Shared, SharedRich, Inline, FormulaStr, FormulaNum, Bool, Error, Number, Date}

// ErrorCodes are the error values of 18.17.3 (error values) as Excel spells them.
var ErrorCodes = []string{"#DIV/0!", "#N/A", "#NAME?", "#NULL!", "#NUM!", "#REF!", "#VALUE!"}

// Cell is one addressed cell.
type Cell struct {
	Row  int  `json:"row"` // 0-based; the r attribute is Ref(Col,Row)
	Col  int  `json:"col"`
	Kind Kind `json:"kind"`
	// Text: string kinds: the string; FormulaNum/Number: the exact text of <v>;
	// Bool: "1" or "0"; Error: the error code. Unused for SharedRich and Blank.
	Text string `json:"text,omitempty"`
	// Runs: SharedRich only; each run is non-empty.
	Runs []string `json:"runs,omitempty"`
	// Phonetic: Shared/SharedRich only; when non-empty the <si> also carries a
	// phonetic run <rPh sb eb><t>…</t></rPh> and <phoneticPr/> (18.4.6 rPh,
	// 18.4.3 phoneticPr). Phonetic text is a reading hint, not part of the
	// cell's value.
	Phonetic string `json:"phonetic,omitempty"`
	// Formula: text of <f> (without "="). Required for FormulaStr/FormulaNum,
	// optional for Bool/Error.
	Formula string `json:"formula,omitempty"`
	// Style: the s attribute (index into cellXfs; the writer's styles.xml
	// defines indices 0 and 1, both with the General number format).
	Style int `json:"style,omitempty"`
	// ExplicitN writes t="n" on FormulaNum/Number cells instead of relying on the default.
	ExplicitN bool `json:"explicit_n,omitempty"`
	// Stale marks a value left behind in a covered (non-top-left) cell of a merged range. It is written like any
	// other value but a spreadsheet does not display it ("only the top-left value is shown", 18.3.1.55).
	Stale bool `json:"stale,omitempty"`
}

// Display returns the value a spreadsheet shows for the cell under the General
// number format with no locale transformation: strings as they are, the
// number's stored text, TRUE/FALSE, the error code, "" for a blank cell.
func (c Cell) Display() string {
	switch c.Kind {
	case SharedRich:
		return strings.Join(c.Runs, "")
	case Bool:
		if c.Text == "1" {
			return "TRUE"
		}
		return "FALSE"
	case Blank:
		return ""
	}
	return c.Text
}

// Merge is a merged range, 0-based inclusive (18.3.1.55 mergeCell).
type Merge struct {
	R1 int `json:"r1"`
	C1 int `json:"c1"`
	R2 int `json:"r2"`
	C2 int `json:"c2"`
}

// Contains reports whether (r,c) lies in the range.
func (m Merge) Contains(r, c int) bool { return r >= m.R1 && r <= m.R2 && c >= m.C1 && c <= m.C2 }

// Sheet is one worksheet: logical content first, physical spelling after.
type Sheet struct {
	Name   string  `json:"name"`
	Cells  []Cell  `json:"cells"`
	Merges []Merge `json:"merges,omitempty"`
	// EmptyRows are written (after the rows that have cells, in list order) as
	// <row r="N"/> elements without cells; 0-based.
	EmptyRows []int `json:"empty_rows,omitempty"`

	// Part is the part name without the leading slash, e.g.
	// "xl/worksheets/sub/q7.xml". "" selects xl/worksheets/sheet<k>.xml with
	// k = position in workbook order (1-based).
	Part string `json:"part,omitempty"`
	// AbsTarget writes the relationship target as "/xl/…" (absolute part name)
	// instead of a path relative to /xl/workbook.xml.
	AbsTarget bool `json:"abs_target,omitempty"`
	// SheetID is the sheetId attribute (unique, >= 1); 0 selects position+1.
	SheetID int `json:"sheet_id,omitempty"`
	// Missing: the sheet is declared and has a relationship but its part is not
	// written to the package (an unreadable part).
	Missing bool `json:"missing,omitempty"`
	// Dimension: "" = no <dimension> element (optional per CT_Worksheet);
	// otherwise the literal ref (18.3.1.35). It is informational; the writer does
	// not check it against the cells.
	Dimension string `json:"dimension,omitempty"`
	// Prefix: namespace prefix bound to the main SpreadsheetML namespace
	// ("" = default namespace, "x" as written by the Open XML SDK).
	Prefix string `json:"prefix,omitempty"`
	// RowSpans adds the optional spans attribute to rows (18.3.1.73).
	RowSpans bool `json:"row_spans,omitempty"`
	// OmitRowR omits the optional r attribute of a <row> (18.3.1.73: r is
	// optional) whenever the row's index equals the index of the preceding
	// <row> element plus one (or 1 for the first element), which is the value a
	// consumer infers for it. Cells keep their r.
	OmitRowR bool `json:"omit_row_r,omitempty"`
	// RowRFromCells (with OmitRowR) also omits the r of a <row> whose first
	// <c> carries its own r, wherever the row stands: the cell reference names
	// the row (round 11). The row after it, if written without r, is the one
	// after the row its cells named.
	RowRFromCells bool `json:"row_r_from_cells,omitempty"`
	// OmitCellR omits the optional r attribute of a <c> (18.3.1.4) whenever the
	// cell stands in the column after the cell written before it in its <row>
	// element (column A for the first one), which is where a consumer puts it.
	OmitCellR bool `json:"omit_cell_r,omitempty"`
	// Noise adds the optional siblings Excel writes (sheetViews, sheetFormatPr,
	// cols, pageMargins) in schema order.
	Noise bool `json:"noise,omitempty"`
}

// Options are workbook-level physical choices.
type Options struct {
	Zip zipw.Order `json:"zip,omitempty"`
	// SSTSeed != 0 permutes the shared string table (entries are otherwise in
	// order of first use).
	SSTSeed uint64 `json:"sst_seed,omitempty"`
	// SSTNoDedupe gives every shared cell its own <si> even when texts repeat.
	SSTNoDedupe bool `json:"sst_no_dedupe,omitempty"`
	// SSTFiller are extra, unused plain entries of the shared string table.
	SSTFiller []string `json:"sst_filler,omitempty"`
	// SSTPart is the part name of the shared string table; "" selects the
	// conventional xl/sharedStrings.xml. Like every part other than the package
	// root relationships it is found through its relationship (type
	// …/relationships/sharedStrings), not by name (Part 2, 8.3; Part 1, 12.3.15
	// Shared String Table Part).
	SSTPart string `json:"sst_part,omitempty"`
	// RelSeed != 0 permutes the relationship ids and the order of the
	// <Relationship> elements of workbook.xml.rels.
	RelSeed    uint64 `json:"rel_seed,omitempty"`
	NoStyles   bool   `json:"no_styles,omitempty"`    // omit xl/styles.xml (all s attributes are then omitted too)
	NoDocProps bool   `json:"no_doc_props,omitempty"` // omit docProps/core.xml and app.xml
	NoTheme    bool   `json:"no_theme,omitempty"`     // omit xl/theme/theme1.xml
	// StaleRels adds xl/_rels/workbook.rels, the relationships part of a non-existent part xl/workbook, with the
	// ids of the real one bound to other worksheet parts
	StaleRels bool `json:"stale_rels,omitempty"`
	// WorkbookPrefix: namespace prefix for xl/workbook.xml ("" or e.g. "x").
	WorkbookPrefix string `json:"workbook_prefix,omitempty"`
	// Extra members are appended verbatim (decoys for the detection property).
	Extra []zipw.Member `json:"extra,omitempty"`
	// Strict writes the workbook in the Strict conformance class (namespaces, relationship types).
	Strict bool `json:"strict,omitempty"`
	// SheetAttrOrder permutes the attributes of <sheet>: 0 name, sheetId, r:id (what Excel writes);
	// 1 r:id, sheetId, name; 2 sheetId, r:id, name (attribute order is not significant, XML 1.0 3.1).
	SheetAttrOrder int `json:"sheet_attr_order,omitempty"`
}

// Workbook is the whole package: sheets in workbook order, decoy parts, options.
type Workbook struct {
	Sheets []Sheet `json:"sheets"`
	// Decoys are worksheet parts that exist in the ZIP (Part is mandatory) but
	// are neither listed in <sheets> nor the target of any relationship, e.g. a
	// leftover xl/worksheets/sheet2.xml. A consumer that follows the
	// relationships (Part 2, 8.3) never sees them.
	Decoys []Sheet `json:"decoys,omitempty"`
	Opt    Options `json:"opt,omitempty"`
}

const (
	nsMain  = "http://schemas.openxmlformats.org/spreadsheetml/2006/main"
	nsRel   = "http://schemas.openxmlformats.org/officeDocument/2006/relationships"
	nsPkg   = "http://schemas.openxmlformats.org/package/2006/relationships"
	nsCT    = "http://schemas.openxmlformats.org/package/2006/content-types"
	relBase = "http://schemas.openxmlformats.org/officeDocument/2006/relationships/"
	ctBase  = "application/vnd.openxmlformats-officedocument.spreadsheetml."
	xmlDecl = `<?xml version="1.0" encoding="UTF-8" standalone="yes"?>` + "\n"

	// MaxRow / MaxCol: 18.3.1.73 (rows 1..1048576) and the XFD column limit.
	MaxRow = 1048575
	MaxCol = 16383
)

// ColName converts a 0-based column index to letters (A, …, Z, AA, …): the
// bijective base-26 numeral. Implemented by first fixing the length, then
// writing ordinary base-26 digits.
func ColName(col int) string {
	if col < 0 {
		return ""
	}
	n, span := 1, 26
	for col >= span {
		col -= span
		span *= 26
		n++
	}
	b := make([]byte, n)
	for i := n - 1; i >= 0; i-- {
		b[i] = byte('A' + col%26)
		col /= 26
	}
	return string(b)
}

// ColIndex is the inverse of ColName for upper- or lower-case letters; -1 for
// anything else.
func ColIndex(s string) int {
	if s == "" {
		return -1
	}
	off, span, v := 0, 1, 0
	for i := 0; i < len(s); i++ {
		ch := s[i] | 0x20
		if ch < 'a' || ch > 'z' {
			return -1
		}
		if i > 0 {
			off += span
		}
		span *= 26
		v = v*26 + int(ch-'a')
	}
	return off + v
}

// Ref is the A1 reference of 0-based (col,row) (18.18.62 ST_Ref / ST_CellRef).
func Ref(col, row int) string { return ColName(col) + strconv.Itoa(row+1) }

// RangeRef is "A1:B2".
func (m Merge) RangeRef() string { return Ref(m.C1, m.R1) + ":" + Ref(m.C2, m.R2) }

func (w Workbook) sstPart() string {
	if w.Opt.SSTPart != "" {
		return w.Opt.SSTPart
	}
	return "xl/sharedStrings.xml"
}

// PartName returns the part name of sheet i (0-based position in workbook order).
func (w Workbook) PartName(i int) string {
	if p := w.Sheets[i].Part; p != "" {
		return p
	}
	return fmt.Sprintf("xl/worksheets/sheet%d.xml", i+1)
}

// Grid returns the displayed, non-empty values of the sheet keyed by {row,col}.
func (s Sheet) Grid() map[[2]int]string {
	g := map[[2]int]string{}
	for _, c := range s.Cells {
		if d := c.Display(); d != "" && !c.Stale {
			g[[2]int{c.Row, c.Col}] = d
		}
	}
	return g
}

// DeclaredRows is 1 + the largest row index that has a <row> element (0 for a
// sheet without rows).
func (s Sheet) DeclaredRows() int {
	n := 0
	for _, c := range s.Cells {
		if c.Row+1 > n {
			n = c.Row + 1
		}
	}
	for _, r := range s.EmptyRows {
		if r+1 > n {
			n = r + 1
		}
	}
	return n
}

// Validate checks that the model is a legal workbook under the clauses cited
// above, so that a generator bug cannot turn into a false alarm.
func (w Workbook) Validate() error {
	if len(w.Sheets) == 0 {
		return fmt.Errorf("xlsxw: a workbook needs at least one sheet (18.2.20)")
	}
	names, ids, parts := map[string]bool{}, map[int]bool{}, map[string]bool{}
	for i, s := range w.Sheets {
		ln := strings.ToLower(s.Name)
		if s.Name == "" || len([]rune(s.Name)) > 31 || strings.ContainsAny(s.Name, `[]:*?/\`) || names[ln] {
			return fmt.Errorf("xlsxw: sheet %d: illegal or duplicate name %q (18.2.19 name: unique, max 31 characters)", i, s.Name)
		}
		names[ln] = true
		id := s.SheetID
		if id == 0 {
			id = i + 1
		}
		if id < 1 || ids[id] {
			return fmt.Errorf("xlsxw: sheet %d: duplicate or illegal sheetId %d", i, id)
		}
		ids[id] = true
		p := w.PartName(i)
		if parts[strings.ToLower(p)] {
			return fmt.Errorf("xlsxw: sheet %d: duplicate part name %q (Part 2, 6.2.2.3 part name equivalence)", i, p)
		}
		parts[strings.ToLower(p)] = true
		if err := s.validate(p); err != nil {
			return fmt.Errorf("xlsxw: sheet %d (%s): %v", i, s.Name, err)
		}
	}
	if w.Opt.SSTPart != "" {
		if err := validPart(w.Opt.SSTPart); err != nil || parts[strings.ToLower(w.Opt.SSTPart)] {
			return fmt.Errorf("xlsxw: illegal or duplicate shared string part name %q", w.Opt.SSTPart)
		}
		parts[strings.ToLower(w.Opt.SSTPart)] = true
	}
	for i, d := range w.Decoys {
		if d.Part == "" || parts[strings.ToLower(d.Part)] {
			return fmt.Errorf("xlsxw: decoy %d: missing or duplicate part name %q", i, d.Part)
		}
		parts[strings.ToLower(d.Part)] = true
		if err := d.validate(d.Part); err != nil {
			return fmt.Errorf("xlsxw: decoy %d: %v", i, err)
		}
	}
	return nil
}

func validPart(p string) error {
	if p == "" || strings.HasPrefix(p, "/") || strings.HasSuffix(p, "/") || path.Clean(p) != p || strings.ContainsAny(p, " %\\?#") {
		return fmt.Errorf("illegal part name %q", p)
	}
	if !strings.HasSuffix(p, ".xml") {
		return fmt.Errorf("part name %q does not end in .xml (the content type Default for xml is relied upon)", p)
	}
	return nil
}

func (s Sheet) validate(part string) error {
	if err := validPart(part); err != nil {
		return err
	}
	seen := map[[2]int]bool{}
	for i, c := range s.Cells {
		if c.Row < 0 || c.Row > MaxRow || c.Col < 0 || c.Col > MaxCol {
			return fmt.Errorf("cell %d: address (%d,%d) outside the sheet", i, c.Row, c.Col)
		}
		k := [2]int{c.Row, c.Col}
		if seen[k] {
			return fmt.Errorf("cell %d: address %s used twice", i, Ref(c.Col, c.Row))
		}
		seen[k] = true
		switch c.Kind {
		case SharedRich:
			if len(c.Runs) == 0 {
				return fmt.Errorf("cell %s: rich text without runs", Ref(c.Col, c.Row))
			}
			for _, r := range c.Runs {
				if r == "" {
					return fmt.Errorf("cell %s: empty rich text run", Ref(c.Col, c.Row))
				}
			}
		case FormulaStr, FormulaNum:
			if c.Formula == "" {
				return fmt.Errorf("cell %s: formula kind without formula", Ref(c.Col, c.Row))
			}
		case Bool:
			if c.Text != "0" && c.Text != "1" {
				return fmt.Errorf("cell %s: boolean value %q", Ref(c.Col, c.Row), c.Text)
			}
		case Error:
			ok := false
			for _, e := range ErrorCodes {
				ok = ok || e == c.Text
			}
			if !ok {
				return fmt.Errorf("cell %s: unknown error code %q", Ref(c.Col, c.Row), c.Text)
			}
		case Shared, Inline, Blank:
		case Date:
			if len(c.Text) < 10 {
				return fmt.Errorf("cell %s: %q is no ISO 8601 date", Ref(c.Col, c.Row), c.Text)
			}
		case Number:
		default:
			return fmt.Errorf("cell %s: unknown kind %q", Ref(c.Col, c.Row), c.Kind)
		}
		if c.Kind == Number || c.Kind == FormulaNum {
			if _, err := strconv.ParseFloat(c.Text, 64); err != nil || strings.TrimSpace(c.Text) != c.Text {
				return fmt.Errorf("cell %s: %q is not an xsd:double lexical form", Ref(c.Col, c.Row), c.Text)
			}
		}
		if c.Phonetic != "" && c.Kind != Shared && c.Kind != SharedRich {
			return fmt.Errorf("cell %s: phonetic run on a non shared-string cell", Ref(c.Col, c.Row))
		}
		if c.Style < 0 || c.Style > 1 {
			return fmt.Errorf("cell %s: style %d not defined by the writer's styles part", Ref(c.Col, c.Row), c.Style)
		}
		for _, str := range append([]string{c.Text, c.Phonetic, c.Formula}, c.Runs...) {
			if !xmlSafe(str) {
				return fmt.Errorf("cell %s: text contains a character that XML 1.0 cannot carry", Ref(c.Col, c.Row))
			}
		}
	}
	for i, m := range s.Merges {
		if m.R1 > m.R2 || m.C1 > m.C2 || (m.R1 == m.R2 && m.C1 == m.C2) || m.R1 < 0 || m.C1 < 0 || m.R2 > MaxRow || m.C2 > MaxCol {
			return fmt.Errorf("merge %d: illegal range %+v", i, m)
		}
		for j := 0; j < i; j++ {
			o := s.Merges[j]
			if m.R1 <= o.R2 && o.R1 <= m.R2 && m.C1 <= o.C2 && o.C1 <= m.C2 {
				return fmt.Errorf("merges %d and %d overlap (18.3.1.55: merged ranges shall not overlap)", j, i)
			}
		}
		for _, c := range s.Cells {
			if m.Contains(c.Row, c.Col) && !(c.Row == m.R1 && c.Col == m.C1) && c.Display() != "" && !c.Stale {
				return fmt.Errorf("merge %d: covered cell %s holds a value", i, Ref(c.Col, c.Row))
			}
		}
	}
	for _, r := range s.EmptyRows {
		if r < 0 || r > MaxRow {
			return fmt.Errorf("empty row %d outside the sheet", r)
		}
		for _, c := range s.Cells {
			if c.Row == r {
				return fmt.Errorf("row %d listed as empty but has cells", r)
			}
		}
	}
	return nil
}

// xmlSafe: XML 1.0 production [2] Char, minus CR (which a parser normalises
// to LF, XML 1.0 section 2.11) so that every string has exactly one reading.
func xmlSafe(s string) bool {
	for _, r := range s {
		switch {
		case r == '\t' || r == '\n':
		case r < 0x20 || r == 0xFFFE || r == 0xFFFF:
			return false
		}
	}
	return strings.ToValidUTF8(s, "") == s
}

func esc(s string) string {
	var b strings.Builder
	for _, r := range s {
		switch r {
		case '&':
			b.WriteString("&amp;")
		case '<':
			b.WriteString("&lt;")
		case '>':
			b.WriteString("&gt;")
		case '"':
			b.WriteString("&quot;")
		case '\t':
			b.WriteString("&#9;")
		case '\n':
			b.WriteString("&#10;")
		default:
			b.WriteRune(r)
		}
	}
	return b.String()
}

// tElem writes a <t> element; xml:space="preserve" when the text starts or
// ends with white space or contains a run of blanks, as Excel does (18.4.12).
func tElem(p, s string) string {
	attr := ""
	if s != strings.TrimSpace(s) || strings.Contains(s, "  ") || strings.ContainsAny(s, "\t\n") {
		attr = ` xml:space="preserve"`
	}
	return "<" + p + "t" + attr + ">" + esc(s) + "</" + p + "t>"
}

type sstEntry struct {
	plain    string
	runs     []string
	phonetic string
}

func (e sstEntry) key() string {
	return e.plain + "\x00" + strings.Join(e.runs, "\x01") + "\x00" + e.phonetic + fmt.Sprintf("\x00%d", len(e.runs))
}

// build collects the shared string table and assigns every shared cell its index.
type builder struct {
	w     Workbook
	sst   []sstEntry
	index map[*Cell]int
}

func (w Workbook) allSheets() []*Sheet {
	var out []*Sheet
	for i := range w.Sheets {
		out = append(out, &w.Sheets[i])
	}
	for i := range w.Decoys {
		out = append(out, &w.Decoys[i])
	}
	return out
}

func (b *builder) collect() {
	b.index = map[*Cell]int{}
	byKey := map[string]int{}
	for _, s := range b.w.allSheets() {
		for i := range s.Cells {
			c := &s.Cells[i]
			if c.Kind != Shared && c.Kind != SharedRich {
				continue
			}
			e := sstEntry{phonetic: c.Phonetic}
			if c.Kind == Shared {
				e.plain = c.Text
			} else {
				e.runs = c.Runs
			}
			if !b.w.Opt.SSTNoDedupe {
				if j, ok := byKey[e.key()]; ok {
					b.index[c] = j
					continue
				}
			}
			byKey[e.key()] = len(b.sst)
			b.index[c] = len(b.sst)
			b.sst = append(b.sst, e)
		}
	}
	for _, f := range b.w.Opt.SSTFiller {
		b.sst = append(b.sst, sstEntry{plain: f})
	}
	if b.w.Opt.SSTSeed != 0 {
		p := zipw.Perm(len(b.sst), b.w.Opt.SSTSeed) // new position i holds old entry p[i]
		inv := make([]int, len(p))
		out := make([]sstEntry, len(p))
		for i, j := range p {
			out[i] = b.sst[j]
			inv[j] = i
		}
		b.sst = out
		for c, j := range b.index {
			b.index[c] = inv[j]
		}
	}
}

func (b *builder) sstXML() []byte {
	var sb strings.Builder
	sb.WriteString(xmlDecl)
	refs := len(b.index)
	fmt.Fprintf(&sb, `<sst xmlns="%s" count="%d" uniqueCount="%d">`, nsMain, refs, len(b.sst))
	for _, e := range b.sst {
		sb.WriteString("<si>")
		if len(e.runs) > 0 {
			for i, r := range e.runs {
				sb.WriteString("<r>")
				if i%2 == 1 { // Excel leaves the first run of a rich string without properties when it uses the cell font
					sb.WriteString(`<rPr><b/><sz val="11"/><color rgb="FFFF0000"/><rFont val="Calibri"/><family val="2"/></rPr>`)
				}
				sb.WriteString(tElem("", r))
				sb.WriteString("</r>")
			}
		} else {
			sb.WriteString(tElem("", e.plain))
		}
		if e.phonetic != "" {
			// 18.4.6 rPh: sb/eb are zero-based character offsets into the base text
			n := len([]rune(e.plain + strings.Join(e.runs, "")))
			fmt.Fprintf(&sb, `<rPh sb="0" eb="%d">%s</rPh><phoneticPr fontId="1" type="noConversion"/>`, n, tElem("", e.phonetic))
		}
		sb.WriteString("</si>")
	}
	sb.WriteString("</sst>")
	return []byte(sb.String())
}

func (b *builder) sheetXML(s *Sheet) []byte {
	p := ""
	var sb strings.Builder
	sb.WriteString(xmlDecl)
	if s.Prefix != "" {
		p = s.Prefix + ":"
		fmt.Fprintf(&sb, `<%sworksheet xmlns:%s="%s" xmlns:r="%s">`, p, s.Prefix, nsMain, nsRel)
	} else {
		fmt.Fprintf(&sb, `<worksheet xmlns="%s" xmlns:r="%s">`, nsMain, nsRel)
	}
	// CT_Worksheet child order (18.3.1.99): sheetPr, dimension, sheetViews, sheetFormatPr, cols, sheetData, …, mergeCells, …, pageMargins
	if s.Dimension != "" {
		fmt.Fprintf(&sb, `<%sdimension ref="%s"/>`, p, s.Dimension)
	}
	if s.Noise {
		fmt.Fprintf(&sb, `<%[1]ssheetViews><%[1]ssheetView workbookViewId="0"><%[1]sselection activeCell="B2" sqref="B2"/></%[1]ssheetView></%[1]ssheetViews><%[1]ssheetFormatPr defaultRowHeight="15"/><%[1]scols><%[1]scol min="2" max="3" width="12.5" customWidth="1"/></%[1]scols>`, p)
	}
	// group cells into rows in order of first appearance
	var order []int
	rows := map[int][]*Cell{}
	for i := range s.Cells {
		c := &s.Cells[i]
		if _, ok := rows[c.Row]; !ok {
			order = append(order, c.Row)
		}
		rows[c.Row] = append(rows[c.Row], c)
	}
	type rowOut struct {
		r     int
		cells []*Cell
	}
	var outRows []rowOut
	for _, r := range order {
		outRows = append(outRows, rowOut{r, rows[r]})
	}
	for _, r := range s.EmptyRows {
		outRows = append(outRows, rowOut{r, nil})
	}
	if len(outRows) == 0 {
		fmt.Fprintf(&sb, `<%ssheetData/>`, p)
	} else {
		fmt.Fprintf(&sb, `<%ssheetData>`, p)
		prev := -1 // 0-based index of the preceding <row> element
		for _, ro := range outRows {
			sb.WriteString("<" + p + "row")
			named := s.OmitRowR && s.RowRFromCells && len(ro.cells) > 0 && !(s.OmitCellR && ro.cells[0].Col == 0)
			if !(s.OmitRowR && ro.r == prev+1 && len(ro.cells) > 0) && !named {
				fmt.Fprintf(&sb, ` r="%d"`, ro.r+1)
			}
			prev = ro.r
			if s.RowSpans && len(ro.cells) > 0 {
				lo, hi := ro.cells[0].Col, ro.cells[0].Col
				for _, c := range ro.cells {
					if c.Col < lo {
						lo = c.Col
					}
					if c.Col > hi {
						hi = c.Col
					}
				}
				fmt.Fprintf(&sb, ` spans="%d:%d"`, lo+1, hi+1)
			}
			if len(ro.cells) == 0 {
				sb.WriteString(` ht="18" customHeight="1"/>`)
				continue
			}
			sb.WriteString(">")
			nextCol := 0
			for _, c := range ro.cells {
				b.cellXML(&sb, p, c, s.OmitCellR && c.Col == nextCol)
				nextCol = c.Col + 1
			}
			sb.WriteString("</" + p + "row>")
		}
		fmt.Fprintf(&sb, `</%ssheetData>`, p)
	}
	if len(s.Merges) > 0 {
		fmt.Fprintf(&sb, `<%smergeCells count="%d">`, p, len(s.Merges))
		for _, m := range s.Merges {
			fmt.Fprintf(&sb, `<%smergeCell ref="%s"/>`, p, m.RangeRef())
		}
		fmt.Fprintf(&sb, `</%smergeCells>`, p)
	}
	if s.Noise {
		fmt.Fprintf(&sb, `<%spageMargins left="0.7" right="0.7" top="0.75" bottom="0.75" header="0.3" footer="0.3"/>`, p)
	}
	fmt.Fprintf(&sb, `</%sworksheet>`, p)
	return []byte(sb.String())
}

func (b *builder) cellXML(sb *strings.Builder, p string, c *Cell, omitR bool) {
	if omitR {
		fmt.Fprintf(sb, `<%sc`, p)
	} else {
		fmt.Fprintf(sb, `<%sc r="%s"`, p, Ref(c.Col, c.Row))
	}
	if c.Style != 0 && !b.w.Opt.NoStyles {
		fmt.Fprintf(sb, ` s="%d"`, c.Style)
	}
	v := func(s string) string { return "<" + p + "v>" + esc(s) + "</" + p + "v>" }
	f := ""
	if c.Formula != "" {
		f = "<" + p + "f>" + esc(c.Formula) + "</" + p + "f>"
	}
	switch c.Kind {
	case Shared, SharedRich:
		fmt.Fprintf(sb, ` t="s">%s`, v(strconv.Itoa(b.index[c])))
	case Inline:
		// CT_Cell: f, v, is in this order; an inline string may carry the formula it was computed from
		fmt.Fprintf(sb, ` t="inlineStr">%[3]s<%[1]sis>%[2]s</%[1]sis>`, p, tElem(p, c.Text), f)
	case FormulaStr:
		fmt.Fprintf(sb, ` t="str">%s%s`, f, v(c.Text))
	case FormulaNum, Number:
		if c.ExplicitN {
			sb.WriteString(` t="n"`)
		}
		if c.Kind == FormulaNum {
			fmt.Fprintf(sb, `>%s%s`, f, v(c.Text))
		} else {
			fmt.Fprintf(sb, `>%s`, v(c.Text))
		}
	case Date:
		fmt.Fprintf(sb, ` t="d">%s`, v(c.Text))
	case Bool:
		fmt.Fprintf(sb, ` t="b">%s%s`, f, v(c.Text))
	case Error:
		fmt.Fprintf(sb, ` t="e">%s%s`, f, v(c.Text))
	case Blank:
		sb.WriteString("/>")
		return
	}
	sb.WriteString("</" + p + "c>")
}

// relTarget spells the target of a relationship whose source part lives in
// directory fromDir ("xl"): relative reference or absolute part name
// (Part 2, 8.3.3.1: Target is a URI reference resolved against the source part).
func relTarget(fromDir, part string, abs bool) string {
	if abs {
		return "/" + part
	}
	if strings.HasPrefix(part, fromDir+"/") {
		return strings.TrimPrefix(part, fromDir+"/")
	}
	up := strings.Repeat("../", strings.Count(fromDir, "/")+1)
	return up + part
}

type rel struct {
	id, typ, target string
}

func relsXML(rs []rel) []byte {
	var sb strings.Builder
	sb.WriteString(xmlDecl)
	fmt.Fprintf(&sb, `<Relationships xmlns="%s">`, nsPkg)
	for _, r := range rs {
		fmt.Fprintf(&sb, `<Relationship Id="%s" Type="%s" Target="%s"/>`, r.id, r.typ, esc(r.target))
	}
	sb.WriteString(`</Relationships>`)
	return []byte(sb.String())
}

// SheetRelID returns the relationship id the writer uses for sheet i; it is a
// pure function of the model (needed by read-back tests).
func (w Workbook) SheetRelID(i int) string { return w.relIDs()[i] }

// relIDs numbers the workbook relationships: sheets first, then sharedStrings,
// styles, theme; RelSeed permutes the numbers.
func (w Workbook) relIDs() []string {
	n := len(w.Sheets) + 3
	p := zipw.Perm(n, w.Opt.RelSeed)
	ids := make([]string, n)
	for i := range ids {
		ids[i] = fmt.Sprintf("rId%d", p[i]+1)
	}
	return ids
}

// Members returns the package as ZIP members in their final order.
func (w Workbook) Members() ([]zipw.Member, error) {
	if err := w.Validate(); err != nil {
		return nil, err
	}
	b := &builder{w: w}
	b.collect()
	ids := w.relIDs()
	n := len(w.Sheets)

	var overrides []string
	ov := func(part, ct string) {
		overrides = append(overrides, fmt.Sprintf(`<Override PartName="/%s" ContentType="%s"/>`, part, ct))
	}
	var ms []zipw.Member
	add := func(name string, data []byte) { ms = append(ms, zipw.Member{Name: name, Data: data}) }

	// xl/workbook.xml (18.2.27 workbook)
	wp := ""
	var wb strings.Builder
	wb.WriteString(xmlDecl)
	if w.Opt.WorkbookPrefix != "" {
		wp = w.Opt.WorkbookPrefix + ":"
		fmt.Fprintf(&wb, `<%sworkbook xmlns:%s="%s" xmlns:r="%s">`, wp, w.Opt.WorkbookPrefix, nsMain, nsRel)
	} else {
		fmt.Fprintf(&wb, `<workbook xmlns="%s" xmlns:r="%s">`, nsMain, nsRel)
	}
	fmt.Fprintf(&wb, `<%[1]sbookViews><%[1]sworkbookView xWindow="0" yWindow="0" windowWidth="16000" windowHeight="9000"/></%[1]sbookViews><%[1]ssheets>`, wp)
	var rels []rel
	for i, s := range w.Sheets {
		id := s.SheetID
		if id == 0 {
			id = i + 1
		}
		switch w.Opt.SheetAttrOrder {
		case 1:
			fmt.Fprintf(&wb, `<%ssheet r:id="%s" sheetId="%d" name="%s"/>`, wp, ids[i], id, esc(s.Name))
		case 2:
			fmt.Fprintf(&wb, `<%ssheet sheetId="%d" r:id="%s" name="%s"/>`, wp, id, ids[i], esc(s.Name))
		default:
			fmt.Fprintf(&wb, `<%ssheet name="%s" sheetId="%d" r:id="%s"/>`, wp, esc(s.Name), id, ids[i])
		}
		rels = append(rels, rel{ids[i], relBase + "worksheet", relTarget("xl", w.PartName(i), s.AbsTarget)})
	}
	fmt.Fprintf(&wb, `</%[1]ssheets><%[1]scalcPr calcId="0"/></%[1]sworkbook>`, wp)

	hasSST := len(b.sst) > 0
	if hasSST {
		rels = append(rels, rel{ids[n], relBase + "sharedStrings", relTarget("xl", w.sstPart(), false)})
	}
	if !w.Opt.NoStyles {
		rels = append(rels, rel{ids[n+1], relBase + "styles", "styles.xml"})
	}
	if !w.Opt.NoTheme {
		rels = append(rels, rel{ids[n+2], relBase + "theme", "theme/theme1.xml"})
	}
	if w.Opt.RelSeed != 0 {
		p := zipw.Perm(len(rels), w.Opt.RelSeed^0xA5A5)
		out := make([]rel, len(rels))
		for i, j := range p {
			out[i] = rels[j]
		}
		rels = out
	}

	// canonical member order: the order Excel itself writes
	rootRels := []rel{{"rId1", relBase + "officeDocument", "xl/workbook.xml"}}
	if !w.Opt.NoDocProps {
		rootRels = append(rootRels,
			rel{"rId2", "http://schemas.openxmlformats.org/package/2006/relationships/metadata/core-properties", "docProps/core.xml"},
			rel{"rId3", relBase + "extended-properties", "docProps/app.xml"})
	}
	ov("xl/workbook.xml", ctBase+"sheet.main+xml")

	ctIdx := len(ms)
	add("[Content_Types].xml", nil) // filled below
	add("_rels/.rels", relsXML(rootRels))
	add("xl/workbook.xml", []byte(wb.String()))
	add("xl/_rels/workbook.xml.rels", relsXML(rels))
	if w.Opt.StaleRels {
		// the relationships part of a part "xl/workbook" that does not exist (a leftover): the same ids, the
		// worksheet targets moved on by one - nothing refers to it, it belongs to no part of the package
		var ws []int
		for i, r := range rels {
			if r.typ == relBase+"worksheet" {
				ws = append(ws, i)
			}
		}
		stale := append([]rel{}, rels...)
		for k, i := range ws {
			stale[i].target = rels[ws[(k+1)%len(ws)]].target
			if len(ws) == 1 && len(w.Decoys) > 0 {
				stale[i].target = relTarget("xl", w.Decoys[0].Part, false)
			}
		}
		add("xl/_rels/workbook.rels", relsXML(stale))
	}
	for i := range w.Sheets {
		if w.Sheets[i].Missing {
			continue
		}
		add(w.PartName(i), b.sheetXML(&w.Sheets[i]))
		ov(w.PartName(i), ctBase+"worksheet+xml")
	}
	for i := range w.Decoys {
		add(w.Decoys[i].Part, b.sheetXML(&w.Decoys[i]))
		ov(w.Decoys[i].Part, ctBase+"worksheet+xml")
	}
	if !w.Opt.NoTheme {
		add("xl/theme/theme1.xml", []byte(xmlDecl+`<a:theme xmlns:a="http://schemas.openxmlformats.org/drawingml/2006/main" name="Office"><a:themeElements/></a:theme>`))
		ov("xl/theme/theme1.xml", "application/vnd.openxmlformats-officedocument.theme+xml")
	}
	if !w.Opt.NoStyles {
		add("xl/styles.xml", []byte(xmlDecl+`<styleSheet xmlns="`+nsMain+`"><fonts count="2"><font><sz val="11"/><name val="Calibri"/></font><font><b/><sz val="11"/><name val="Calibri"/></font></fonts><fills count="2"><fill><patternFill patternType="none"/></fill><fill><patternFill patternType="gray125"/></fill></fills><borders count="1"><border><left/><right/><top/><bottom/><diagonal/></border></borders><cellStyleXfs count="1"><xf numFmtId="0" fontId="0" fillId="0" borderId="0"/></cellStyleXfs><cellXfs count="2"><xf numFmtId="0" fontId="0" fillId="0" borderId="0" xfId="0"/><xf numFmtId="0" fontId="1" fillId="0" borderId="0" xfId="0" applyFont="1"/></cellXfs></styleSheet>`))
		ov("xl/styles.xml", ctBase+"styles+xml")
	}
	if hasSST { // the shared string table part is optional (18.4.9 sst); Excel omits it when no cell uses it
		add(w.sstPart(), b.sstXML())
		ov(w.sstPart(), ctBase+"sharedStrings+xml")
	}
	if !w.Opt.NoDocProps {
		add("docProps/core.xml", []byte(xmlDecl+`<cp:coreProperties xmlns:cp="http://schemas.openxmlformats.org/package/2006/metadata/core-properties" xmlns:dc="http://purl.org/dc/elements/1.1/" xmlns:dcterms="http://purl.org/dc/terms/" xmlns:xsi="http://www.w3.org/2001/XMLSchema-instance"><dc:title>Generated workbook</dc:title><dc:creator>xlsxw</dc:creator></cp:coreProperties>`))
		ov("docProps/core.xml", "application/vnd.openxmlformats-package.core-properties+xml")
		add("docProps/app.xml", []byte(xmlDecl+`<Properties xmlns="http://schemas.openxmlformats.org/officeDocument/2006/extended-properties"><Application>xlsxw</Application></Properties>`))
		ov("docProps/app.xml", "application/vnd.openxmlformats-officedocument.extended-properties+xml")
	}
	// [Content_Types].xml (Part 2, 10.1.2.2): Default for rels and xml, Override per part
	var ct strings.Builder
	ct.WriteString(xmlDecl)
	fmt.Fprintf(&ct, `<Types xmlns="%s"><Default Extension="rels" ContentType="application/vnd.openxmlformats-package.relationships+xml"/><Default Extension="xml" ContentType="application/xml"/>`, nsCT)
	for _, o := range overrides {
		ct.WriteString(o)
	}
	ct.WriteString(`</Types>`)
	ms[ctIdx].Data = []byte(ct.String())
	if w.Opt.Strict {
		// ISO/IEC 29500 Strict: the main and the relationships namespaces (also the prefix of the relationship
		// types) are the purl.oclc.org ones and the workbook says conformance="strict" (Part 1, 18.2.27, Annex A);
		// the package-level namespaces (OPC relationships, content types) are the same in both conformance classes
		for i := range ms {
			if !strings.HasSuffix(ms[i].Name, ".xml") && !strings.HasSuffix(ms[i].Name, ".rels") {
				continue
			}
			d := string(ms[i].Data)
			d = strings.ReplaceAll(d, nsMain, "http://purl.oclc.org/ooxml/spreadsheetml/main")
			d = strings.ReplaceAll(d, nsRel, "http://purl.oclc.org/ooxml/officeDocument/relationships")
			d = strings.Replace(d, "workbook xmlns", `workbook conformance="strict" xmlns`, 1)
			ms[i].Data = []byte(d)
		}
	}
	ms = append(ms, w.Opt.Extra...)
	return zipw.Arrange(ms, w.Opt.Zip), nil
}

// Bytes returns the .xlsx file.
func (w Workbook) Bytes() ([]byte, error) {
	ms, err := w.Members()
	if err != nil {
		return nil, err
	}
	return zipw.Bytes(ms)
}
