package xlsxw

import (
	"archive/zip"
	"bytes"
	"encoding/xml"
	"fmt"
	"io"
	"path"
	"strconv"
	"strings"
	"testing"

	"pgregory.net/rapid"
)

// The read-back below is a deliberately naive consumer written against the
// standard: package relationships -> workbook -> sheets via relationship ids ->
// cells by their r attribute -> shared strings. It shares nothing with tabula.

type rbRel struct {
	ID     string `xml:"Id,attr"`
	Type   string `xml:"Type,attr"`
	Target string `xml:"Target,attr"`
}
type rbRels struct {
	Rel []rbRel `xml:"Relationship"`
}
type rbWorkbook struct {
	Sheets []struct {
		Name string `xml:"name,attr"`
		ID   string `xml:"sheetId,attr"`
		RID  string `xml:"http://schemas.openxmlformats.org/officeDocument/2006/relationships id,attr"`
	} `xml:"http://schemas.openxmlformats.org/spreadsheetml/2006/main sheets>sheet"`
}
type rbT struct {
	Text string `xml:",chardata"`
}
type rbSI struct {
	T *rbT `xml:"t"`
	R []struct {
		T rbT `xml:"t"`
	} `xml:"r"`
	RPh []struct {
		T rbT `xml:"t"`
	} `xml:"rPh"`
}
type rbSST struct {
	SI []rbSI `xml:"http://schemas.openxmlformats.org/spreadsheetml/2006/main si"`
}
type rbCell struct {
	R  string `xml:"r,attr"`
	T  string `xml:"t,attr"`
	V  *rbT   `xml:"v"`
	F  *rbT   `xml:"f"`
	Is *rbSI  `xml:"is"`
}
type rbSheet struct {
	XMLName xml.Name
	Rows    []struct {
		R     string   `xml:"r,attr"`
		Cells []rbCell `xml:"c"`
	} `xml:"http://schemas.openxmlformats.org/spreadsheetml/2006/main sheetData>row"`
	Merges []struct {
		Ref string `xml:"ref,attr"`
	} `xml:"http://schemas.openxmlformats.org/spreadsheetml/2006/main mergeCells>mergeCell"`
}

func unzip(t testing.TB, b []byte) (map[string][]byte, []string) {
	zr, err := zip.NewReader(bytes.NewReader(b), int64(len(b)))
	if err != nil {
		t.Fatalf("zip: %v", err)
	}
	m := map[string][]byte{}
	var order []string
	for _, f := range zr.File {
		rc, err := f.Open()
		if err != nil {
			t.Fatalf("zip open %s: %v", f.Name, err)
		}
		d, _ := io.ReadAll(rc)
		rc.Close()
		if _, dup := m[f.Name]; dup {
			t.Fatalf("duplicate ZIP member %s", f.Name)
		}
		m[f.Name] = d
		order = append(order, f.Name)
	}
	return m, order
}

func resolve(base, target string) string {
	if strings.HasPrefix(target, "/") {
		return strings.TrimPrefix(path.Clean(target), "/")
	}
	return path.Join(path.Dir(base), target)
}

func siText(si rbSI) string {
	if si.T != nil {
		return si.T.Text
	}
	var sb strings.Builder
	for _, r := range si.R {
		sb.WriteString(r.T.Text)
	}
	return sb.String()
}

// readBack returns, per declared sheet, its name, whether the part exists and
// the displayed non-empty values by address.
func readBack(t testing.TB, b []byte) (names []string, present []bool, grids []map[[2]int]string, merges [][]string, files map[string][]byte) {
	files, _ = unzip(t, b)
	for name, data := range files {
		if strings.HasSuffix(name, ".xml") || strings.HasSuffix(name, ".rels") {
			d := xml.NewDecoder(bytes.NewReader(data))
			for {
				if _, err := d.Token(); err == io.EOF {
					break
				} else if err != nil {
					t.Fatalf("%s is not well-formed: %v\n%s", name, err, data)
				}
			}
		}
	}
	// a Strict workbook (purl.oclc.org namespaces, conformance="strict") is read with the same structures: the two
	// conformance classes differ in these URIs only
	strict := false
	for name, data := range files {
		if bytes.Contains(data, []byte("http://purl.oclc.org/ooxml/")) {
			strict = true
			d := strings.ReplaceAll(string(data), "http://purl.oclc.org/ooxml/spreadsheetml/main", nsMain)
			d = strings.ReplaceAll(d, "http://purl.oclc.org/ooxml/officeDocument/relationships", nsRel)
			files[name] = []byte(d)
		}
	}
	if strict {
		wbFound := false
		for _, data := range files {
			wbFound = wbFound || bytes.Contains(data, []byte(`workbook conformance="strict"`))
		}
		if !wbFound {
			t.Fatalf("Strict namespaces without conformance=\"strict\" on the workbook element")
		}
	}
	var root rbRels
	if err := xml.Unmarshal(files["_rels/.rels"], &root); err != nil {
		t.Fatalf("_rels/.rels: %v", err)
	}
	main := ""
	for _, r := range root.Rel {
		if strings.HasSuffix(r.Type, "/officeDocument") {
			main = resolve("", r.Target)
		}
	}
	if main == "" {
		t.Fatalf("no officeDocument relationship")
	}
	var wb rbWorkbook
	if err := xml.Unmarshal(files[main], &wb); err != nil {
		t.Fatalf("workbook: %v", err)
	}
	var rels rbRels
	if err := xml.Unmarshal(files[path.Join(path.Dir(main), "_rels", path.Base(main)+".rels")], &rels); err != nil {
		t.Fatalf("workbook rels: %v", err)
	}
	byID := map[string]rbRel{}
	for _, r := range rels.Rel {
		if _, dup := byID[r.ID]; dup {
			t.Fatalf("duplicate relationship id %s", r.ID)
		}
		byID[r.ID] = r
	}
	var sst rbSST
	for _, r := range rels.Rel {
		if strings.HasSuffix(r.Type, "/sharedStrings") {
			if err := xml.Unmarshal(files[resolve(main, r.Target)], &sst); err != nil {
				t.Fatalf("sst: %v", err)
			}
		} else if !strings.HasSuffix(r.Type, "/worksheet") {
			if _, ok := files[resolve(main, r.Target)]; !ok {
				t.Fatalf("relationship %s points to a missing part %s", r.ID, r.Target)
			}
		}
	}
	ct := string(files["[Content_Types].xml"])
	for _, s := range wb.Sheets {
		r, ok := byID[s.RID]
		if !ok || !strings.HasSuffix(r.Type, "/worksheet") {
			t.Fatalf("sheet %q: relationship %q missing or of the wrong type", s.Name, s.RID)
		}
		part := resolve(main, r.Target)
		names = append(names, s.Name)
		data, ok := files[part]
		present = append(present, ok)
		g := map[[2]int]string{}
		var mr []string
		if ok {
			if !strings.Contains(ct, `PartName="/`+part+`"`) {
				t.Fatalf("part %s has no content type override", part)
			}
			var sh rbSheet
			if err := xml.Unmarshal(data, &sh); err != nil {
				t.Fatalf("%s: %v", part, err)
			}
			if sh.XMLName.Space != nsMain || sh.XMLName.Local != "worksheet" {
				t.Fatalf("%s: root element %v", part, sh.XMLName)
			}
			prev := 0
			for _, row := range sh.Rows {
				rn := prev + 1 // inferred when r is absent
				if row.R != "" {
					rn, _ = strconv.Atoi(row.R)
				}
				prev = rn
				nextCol := 0
				for _, c := range row.Cells {
					if c.R == "" { // inferred: the column after the previous cell of the row element
						c.R = Ref(nextCol, rn-1)
					}
					i := 0
					for i < len(c.R) && c.R[i] >= 'A' && c.R[i] <= 'Z' {
						i++
					}
					col := ColIndex(c.R[:i])
					rr, err := strconv.Atoi(c.R[i:])
					if col < 0 || err != nil {
						t.Fatalf("bad cell ref %q", c.R)
					}
					nextCol = col + 1
					if rr != rn {
						t.Fatalf("cell %s sits in row element %d", c.R, rn)
					}
					v := ""
					if c.V != nil {
						v = c.V.Text
					}
					var disp string
					switch c.T {
					case "s":
						idx, err := strconv.Atoi(v)
						if err != nil || idx < 0 || idx >= len(sst.SI) {
							t.Fatalf("cell %s: bad shared string index %q", c.R, v)
						}
						disp = siText(sst.SI[idx])
					case "inlineStr":
						disp = siText(*c.Is)
					case "b":
						disp = map[string]string{"1": "TRUE", "0": "FALSE"}[v]
					case "str", "e", "n", "", "d":
						disp = v
					default:
						t.Fatalf("cell %s: unknown type %q", c.R, c.T)
					}
					k := [2]int{rr - 1, col}
					if _, dup := g[k]; dup {
						t.Fatalf("cell %s written twice", c.R)
					}
					if disp != "" {
						g[k] = disp
					}
				}
			}
			for _, m := range sh.Merges {
				mr = append(mr, m.Ref)
			}
		}
		grids = append(grids, g)
		merges = append(merges, mr)
	}
	return
}

func genWithDecoys(t *rapid.T) Workbook {
	cfg := GenConfig{Wide: rapid.Bool().Draw(t, "wide")}
	n := rapid.IntRange(1, 4).Draw(t, "sheets")
	names := GenSheetNames(t, n)
	var w Workbook
	for i := 0; i < n; i++ {
		w.Sheets = append(w.Sheets, GenSheet(t, cfg, names[i]))
	}
	for i, k := 0, rapid.IntRange(0, 2).Draw(t, "decoys"); i < k; i++ {
		w.Decoys = append(w.Decoys, GenSheet(t, cfg, fmt.Sprintf("decoy%d", i)))
	}
	if n > 1 && rapid.IntRange(0, 4).Draw(t, "missing") == 0 {
		w.Sheets[rapid.IntRange(0, n-1).Draw(t, "missingIdx")].Missing = true
	}
	GenPhysical(t, &w)
	return w
}

func TestRoundTrip(t *testing.T) {
	rapid.Check(t, func(rt *rapid.T) {
		w := genWithDecoys(rt)
		b, err := w.Bytes()
		if err != nil {
			rt.Fatalf("write: %v", err)
		}
		names, present, grids, merges, files := readBack(t, b)
		if len(names) != len(w.Sheets) {
			rt.Fatalf("sheet count %d, want %d", len(names), len(w.Sheets))
		}
		for i, s := range w.Sheets {
			if names[i] != s.Name {
				rt.Fatalf("sheet %d name %q, want %q", i, names[i], s.Name)
			}
			if present[i] == s.Missing {
				rt.Fatalf("sheet %d present=%v but Missing=%v", i, present[i], s.Missing)
			}
			if s.Missing {
				continue
			}
			want := s.Grid()
			for _, c := range s.Cells { // the read-back sees stored values, also those a merged range hides
				if c.Stale {
					want[[2]int{c.Row, c.Col}] = c.Display()
				}
			}
			if len(want) != len(grids[i]) {
				rt.Fatalf("sheet %d: %d displayed cells, want %d", i, len(grids[i]), len(want))
			}
			for k, v := range want {
				if grids[i][k] != v {
					rt.Fatalf("sheet %d cell %s: %q, want %q", i, Ref(k[1], k[0]), grids[i][k], v)
				}
			}
			if len(merges[i]) != len(s.Merges) {
				rt.Fatalf("sheet %d: merges %v, want %v", i, merges[i], s.Merges)
			}
			for j, m := range s.Merges {
				if merges[i][j] != m.RangeRef() {
					rt.Fatalf("sheet %d merge %d: %s, want %s", i, j, merges[i][j], m.RangeRef())
				}
			}
		}
		// decoys exist but nothing refers to them
		rels := string(files["xl/_rels/workbook.xml.rels"]) + string(files["xl/workbook.xml"])
		for _, d := range w.Decoys {
			if _, ok := files[d.Part]; !ok {
				rt.Fatalf("decoy part %s not written", d.Part)
			}
			if strings.Contains(rels, strings.TrimPrefix(d.Part, "xl/")+`"`) {
				rt.Fatalf("decoy part %s is referenced", d.Part)
			}
		}
		// byte reproducibility
		b2, _ := w.Bytes()
		if !bytes.Equal(b, b2) {
			rt.Fatalf("output is not reproducible")
		}
	})
}

func TestColCodec(t *testing.T) {
	want := map[int]string{0: "A", 25: "Z", 26: "AA", 27: "AB", 51: "AZ", 52: "BA", 701: "ZZ", 702: "AAA", 16383: "XFD", 18277: "ZZZ"}
	for i, s := range want {
		if ColName(i) != s || ColIndex(s) != i || ColIndex(strings.ToLower(s)) != i {
			t.Fatalf("codec: %d <-> %s: got %s / %d", i, s, ColName(i), ColIndex(s))
		}
	}
	prev := ""
	for i := 0; i <= 20000; i++ {
		s := ColName(i)
		if ColIndex(s) != i {
			t.Fatalf("ColIndex(ColName(%d)) = %d", i, ColIndex(s))
		}
		if i > 0 && !(len(s) > len(prev) || (len(s) == len(prev) && s > prev)) {
			t.Fatalf("not shortlex increasing at %d: %s after %s", i, s, prev)
		}
		prev = s
	}
}

func TestValidateRejects(t *testing.T) {
	bad := []Workbook{
		{},
		{Sheets: []Sheet{{Name: "a/b", Cells: []Cell{{Kind: Number, Text: "1"}}}}},
		{Sheets: []Sheet{{Name: "a", Cells: []Cell{{Kind: Number, Text: "1"}, {Kind: Number, Text: "2"}}}}},
		{Sheets: []Sheet{{Name: "a", Cells: []Cell{{Kind: Number, Text: "x"}}}}},
		{Sheets: []Sheet{{Name: "a", Cells: []Cell{{Kind: Number, Text: "1"}, {Col: 1, Kind: Number, Text: "2"}}, Merges: []Merge{{0, 0, 0, 1}}}}},
		{Sheets: []Sheet{{Name: "a", Merges: []Merge{{0, 0, 1, 1}, {1, 1, 2, 2}}}}},
		{Sheets: []Sheet{{Name: "a"}, {Name: "A"}}},
	}
	for i, w := range bad {
		if err := w.Validate(); err == nil {
			t.Errorf("case %d: illegal model accepted", i)
		}
	}
}
