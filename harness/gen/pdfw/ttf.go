package pdfw

import (
	"bytes"
	"encoding/binary"
)

// MinimalTTF builds a small, structurally valid TrueType font program (sfnt
// offset table + table directory + head, hhea, maxp, hmtx, cmap format 4) with
// numGlyphs glyphs of advance 600. Glyph outlines are absent (no glyf/loca):
// text extraction never needs them. It is used as an embedded /FontFile2.
// Layout (OpenType spec, "Organization of an OpenType Font"): 12-byte offset
// table, then one 16-byte record per table {tag, checksum, offset, length}.
func MinimalTTF(numGlyphs int) []byte {
	be := binary.BigEndian
	head := make([]byte, 54)
	be.PutUint32(head[0:], 0x00010000)  // version
	be.PutUint32(head[12:], 0x5F0F3CF5) // magic number
	be.PutUint16(head[18:], 1000)       // unitsPerEm
	be.PutUint16(head[50:], 0)          // indexToLocFormat
	hhea := make([]byte, 36)
	be.PutUint32(hhea[0:], 0x00010000)
	be.PutUint16(hhea[4:], 800)                // ascender
	be.PutUint16(hhea[6:], 0xFF38)             // descender -200
	be.PutUint16(hhea[34:], uint16(numGlyphs)) // numberOfHMetrics
	maxp := make([]byte, 6)
	be.PutUint32(maxp[0:], 0x00005000)
	be.PutUint16(maxp[4:], uint16(numGlyphs))
	hmtx := make([]byte, 4*numGlyphs)
	for i := 0; i < numGlyphs; i++ {
		be.PutUint16(hmtx[4*i:], 600)
	}
	// cmap: one subtable (platform 3, encoding 1, format 4) mapping U+0020..U+007E to glyphs 1..95
	var sub bytes.Buffer
	segs := [][3]uint16{{0x0020, 0x007E, uint16(0x10000 - 0x20 + 1)}, {0xFFFF, 0xFFFF, 1}}
	segCount := uint16(len(segs))
	w16 := func(v uint16) { binary.Write(&sub, be, v) }
	w16(4)               // format
	w16(16 + 8*segCount) // length
	w16(0)               // language
	w16(segCount * 2)    // segCountX2
	w16(4)               // searchRange
	w16(1)               // entrySelector
	w16(0)               // rangeShift
	for _, s := range segs {
		w16(s[1]) // endCode
	}
	w16(0) // reservedPad
	for _, s := range segs {
		w16(s[0]) // startCode
	}
	for _, s := range segs {
		w16(s[2]) // idDelta
	}
	for range segs {
		w16(0) // idRangeOffset
	}
	cmap := make([]byte, 12)
	be.PutUint16(cmap[2:], 1) // numTables
	be.PutUint16(cmap[4:], 3) // platform
	be.PutUint16(cmap[6:], 1) // encoding
	be.PutUint32(cmap[8:], 12)
	cmap = append(cmap, sub.Bytes()...)

	tables := []struct {
		tag  string
		data []byte
	}{{"cmap", cmap}, {"head", head}, {"hhea", hhea}, {"hmtx", hmtx}, {"maxp", maxp}}
	out := make([]byte, 12+16*len(tables))
	be.PutUint32(out[0:], 0x00010000)
	be.PutUint16(out[4:], uint16(len(tables)))
	be.PutUint16(out[6:], 64)
	be.PutUint16(out[8:], 2)
	be.PutUint16(out[10:], uint16(len(tables)*16-64))
	for i, t := range tables {
		for len(out)%4 != 0 {
			out = append(out, 0)
		}
		rec := out[12+16*i:]
		copy(rec[0:4], t.tag)
		be.PutUint32(rec[8:], uint32(len(out)))
		be.PutUint32(rec[12:], uint32(len(t.data)))
		out = append(out, t.data...)
	}
	return out
}

// TTFDirectoryFields lists the byte offsets (inside the font program) of the
// 32-bit offset and length fields of the table directory, and of the 16-bit
// table count.
func TTFDirectoryFields(font []byte) (fields32 []int, numTablesOff int) {
	n := int(binary.BigEndian.Uint16(font[4:]))
	for i := 0; i < n; i++ {
		fields32 = append(fields32, 12+16*i+8, 12+16*i+12)
	}
	return fields32, 4
}
