// Package pdfw is an independent PDF *writer*: it turns a logical document
// (pages -> lines -> (font, string bytes, position)) plus a vector of
// physical-layout choices into file bytes. tabula contains no writer; nothing
// here shares code with it. Every construct emitted is cited from ISO 32000-1.
//
// The writer works on a symbolic object graph. Each revision of the logical
// document is lowered to a set of (symbolic id -> object); revision k > 0 is
// written as an incremental update (§7.5.6) containing only the objects whose
// serialisation changed, free entries for those that disappeared, and a
// cross-reference section of the requested kind chained by /Prev.
package pdfw

// ---------------------------------------------------------------------------
// logical document

// MapEnt maps one character code of a font with a ToUnicode CMap to its text.
type MapEnt struct {
	Code int    `json:"code"`
	Text string `json:"text"`
}

// FontSpec describes one font resource.
//
//	t1std  Type1, standard-14 BaseFont, no /Encoding  => StandardEncoding (§9.6.6.1, Annex D.2)
//	t1win  Type1 with /Encoding /WinAnsiEncoding       t1mac  … /MacRomanEncoding
//	ttwin  TrueType with /Encoding /WinAnsiEncoding    ttmac  … /MacRomanEncoding
//	tu1    simple font (1-byte codes) with /ToUnicode (§9.10.3) and a deliberately different /Encoding
//	type0  Type0 /Identity-H with CIDFontType2 descendant and 2-byte /ToUnicode (§9.7)
//	tu1bad TrueType with /ToUnicode and an embedded /FontFile2 that is no readable font program
//	t1dstd Type1, standard-14 BaseFont, /Encoding dictionary with /Differences only => StandardEncoding is the base (Table 114)
//	t1dwin … /Encoding << /BaseEncoding /WinAnsiEncoding /Differences […] >>   t1dmac … /MacRomanEncoding
type FontSpec struct {
	Res  string    `json:"res"`  // resource name without slash, e.g. F1
	Kind string    `json:"kind"` // see above
	Base string    `json:"base"` // BaseFont
	Map  []MapEnt  `json:"map,omitempty"`
	Diff []DiffEnt `json:"diff,omitempty"` // /Differences of the t1d* kinds
}

// DiffEnt is one entry of a /Differences array: the code now selects the named glyph (§9.6.6.1).
type DiffEnt struct {
	Code  int    `json:"code"`
	Glyph string `json:"glyph"` // Adobe Glyph List name
	Text  string `json:"text"`
}

// Line is one self-contained text object: BT /Res Size Tf X Y Td <string> Tj ET.
type Line struct {
	Font  int     `json:"font"`
	Size  float64 `json:"size"`
	X     float64 `json:"x"`
	Y     float64 `json:"y"`
	Bytes []byte  `json:"bytes"` // the string operand (character codes)
	Hex   bool    `json:"hex"`   // write as hexadecimal string (§7.3.4.3) instead of literal (§7.3.4.2)
	Text  string  `json:"text"`  // the Unicode the font defines for Bytes
	// Saved: the text object stands between q and Q, so the font it selects is gone again behind it (the font and
	// its size are graphics state parameters, 9.3.1 / 8.4.1)
	Saved bool `json:"saved,omitempty"`
	// Inherit: the text object selects no font; Font and Size name the ones in effect (those of the nearest line
	// before it that is not Saved)
	Inherit bool `json:"inherit,omitempty"`
}

// Page is one page leaf. ID is stable across revisions.
type Page struct {
	ID       int        `json:"id"`
	MediaBox [4]float64 `json:"mediabox"`
	Rotate   int        `json:"rotate"`
	Lines    []Line     `json:"lines"`
	// Trailer: operators written behind the lines, outside any q ... Q (white-space separated tokens, e.g.
	// "1 0 0 1 3 -2 cm 0.5 Tc"): they change the graphics state for the rest of this page's content only -
	// every page starts from the initial state (§8.4.1).
	Trailer string `json:"trailer,omitempty"`
}

// Doc is one revision of the logical document.
type Doc struct {
	Fonts []FontSpec `json:"fonts"`
	Pages []Page     `json:"pages"`
}

// ---------------------------------------------------------------------------
// physical layout

// Layout holds every physical choice. The zero value is the plainest file:
// classic xref table, no object streams, no filters, direct lengths, one
// content stream per page, flat page tree, attributes on the page, LF.
type Layout struct {
	// XRef[k] is the cross-reference kind of revision k: "table" (§7.5.4) or "stream" (§7.5.8).
	// Missing entries repeat the last one; empty = all "table".
	XRef []string `json:"xref,omitempty"`
	// ObjStm: in stream-xref revisions, pack eligible objects into object streams (§7.5.7).
	ObjStm        bool `json:"objstm,omitempty"`
	ObjStmCount   int  `json:"objstm_count,omitempty"`   // number of object streams per revision (>=1)
	ObjStmExtends bool `json:"objstm_extends,omitempty"` // later object streams carry /Extends (Table 16)
	ObjStmKeep    int  `json:"objstm_keep,omitempty"`    // every n-th eligible object stays outside (0 = pack all)
	ObjStmFlate   bool `json:"objstm_flate,omitempty"`
	XRefFlate     bool `json:"xref_flate,omitempty"`
	XRefPredictor bool `json:"xref_predictor,omitempty"` // /DecodeParms << /Predictor 12 /Columns sum(W) >> as most producers write

	// Filters[j%len] is the filter chain (decode order) of the j-th content stream; names as in §7.4.
	Filters   [][]string `json:"filters,omitempty"`
	Predictor bool       `json:"predictor,omitempty"` // Flate stages use PNG predictor 12, Columns 4 (data padded with blanks)
	TIFFPred  bool       `json:"tiff_pred,omitempty"` // with Predictor: TIFF predictor 2, Columns 8, instead of PNG predictor 12
	// PredColors (with Predictor, without TIFFPred): 0 = one component per sample; 2..4 = /Predictor 15 /Colors n
	PredColors int `json:"pred_colors,omitempty"`
	// Length: "direct", "before" (indirect, the integer object precedes the stream in the file),
	// "after" (follows it) — §7.3.8.2 allows an indirect /Length.
	Length         string `json:"length,omitempty"`
	LengthInObjStm bool   `json:"length_in_objstm,omitempty"`
	// Split: number of content streams per page (>=1); cut points fall on token boundaries (§7.8.2).
	Split            int  `json:"split,omitempty"`
	SplitTight       bool `json:"split_tight,omitempty"`       // no white space at the cut: the token boundary IS the stream boundary
	EmptyPart        bool `json:"empty_part,omitempty"`        // every page has one more content stream with no data at all (/Length 0)
	Unbalanced       bool `json:"unbalanced,omitempty"`        // page leaves also hang directly below inner /Pages nodes (first and last page of each subtree): leaves at different depths
	ContentsIndirect bool `json:"contents_indirect,omitempty"` // /Contents refers to an array object instead of holding the array
	// Pad: white space (legal between any two tokens, §7.2.2) appended to the first content stream of
	// every page until it is at least this long — long streams exercise buffered reading.
	Pad int `json:"pad,omitempty"`

	// Page tree (§7.7.3): Depth levels of /Pages nodes above the leaves (>=1), at most FanOut kids per node.
	Depth  int `json:"depth,omitempty"`
	FanOut int `json:"fanout,omitempty"`
	// Inheritable attributes (§7.7.3.4) are written on the ancestor this many levels above the leaf (0 = leaf).
	BoxLevel int `json:"box_level,omitempty"`
	ResLevel int `json:"res_level,omitempty"`
	RotLevel int `json:"rot_level,omitempty"`
	// Shadow: every ancestor ABOVE the node that carries an inheritable attribute carries a different decoy
	// value for it, which the nearer definition must override (§7.7.3.4: "the value is inherited from an
	// ancestor" only when the node itself does not define it).
	Shadow bool `json:"shadow,omitempty"`
	// FilterArray1: a single filter is written as a one-element array (with its parameters still a dictionary)
	FilterArray1 bool  `json:"filter_array1,omitempty"`
	ResIndirect  bool  `json:"res_indirect,omitempty"` // /Resources is a reference
	FontDictInd  bool  `json:"fontdict_ind,omitempty"` // /Font sub-dictionary is a reference
	CIDInfoInd   bool  `json:"cidinfo_ind,omitempty"`  // /CIDSystemInfo and /Encoding dictionaries of fonts are references
	XRefW3Zero   bool  `json:"xref_w3_zero,omitempty"` // cross-reference streams without third field (/W [1 n 0]) where every entry has the default there
	ToUniFlate   bool  `json:"touni_flate,omitempty"`  // ToUnicode streams are Flate-compressed
	ReuseFreed   bool  `json:"reuse_freed,omitempty"`  // new objects take freed numbers with generation+1 (§7.5.4)
	FreeDeleted  bool  `json:"free_deleted,omitempty"` // objects that disappear are marked free (otherwise just left unreferenced)
	OrderKeys    []int `json:"order_keys,omitempty"`   // sort keys permuting file order of objects
	NumberKeys   []int `json:"number_keys,omitempty"`  // sort keys permuting object numbering

	EOL             string `json:"eol,omitempty"`               // "\n" (default), "\r\n", "\r" (§7.2.3)
	StreamCRLF      bool   `json:"stream_crlf,omitempty"`       // "stream" followed by CRLF instead of LF (§7.3.8.1)
	BinaryComment   bool   `json:"binary_comment,omitempty"`    // second line comment with bytes >= 128 (§7.5.2)
	Compact         bool   `json:"compact,omitempty"`           // minimal white space inside dictionaries/arrays
	TrailerSameLine bool   `json:"trailer_same_line,omitempty"` // "trailer << … >>" on one line
	Version         string `json:"version,omitempty"`           // header version, default 1.7
	// Patches are deliberate faults applied to single objects (robustness property only).
	Patches    []Patch     `json:"patches,omitempty"`
	ObjStmHead []HeadFault `json:"objstm_head,omitempty"` // faults in object-stream headers (robustness catalogue only)
}

// Patch replaces Len bytes at offset Off of the serialised body of object ID by New before the file is laid
// out, so that the fault is the only thing wrong with the file (all cross-reference offsets stay right).
type Patch struct {
	ID  string `json:"id"`
	Off int    `json:"off"`
	Len int    `json:"len"`
	New string `json:"new"`
}

// HeadFault replaces one number of the header of an object stream ("num off num off …", §7.5.7) by New.
// Stm is the stream's symbolic id ("objstm:<rev>:<k>"), Index the pair, Field 0 the object number and 1 the
// offset. /First, /N, /Length and the cross-reference entries stay consistent with the faulty header.
type HeadFault struct {
	Stm   string `json:"stm"`
	Index int    `json:"index"`
	Field int    `json:"field"`
	New   string `json:"new"`
}

func (l Layout) xrefKind(rev int) string {
	if len(l.XRef) == 0 {
		return "table"
	}
	if rev >= len(l.XRef) {
		return l.XRef[len(l.XRef)-1]
	}
	return l.XRef[rev]
}

func (l Layout) eol() string {
	if l.EOL == "" {
		return "\n"
	}
	return l.EOL
}

func (l Layout) key(keys []int, i int) int {
	if len(keys) == 0 {
		return 0
	}
	return keys[i%len(keys)]
}

// ---------------------------------------------------------------------------
// syntactic object model used by the serialiser

type (
	Name string
	Ref  string                 // symbolic id of an indirect object
	NRef struct{ Num, Gen int } // numeric indirect reference (raw writer)
	Int  int64
	Real float64
	Str  struct {
		B   []byte
		Hex bool
	}
	Arr []any
	KV  struct {
		K string
		V any
	}
	Dict   []KV
	Stream struct {
		D    Dict // without /Length, /Filter, /DecodeParms: the writer adds them
		Data []byte
		// Chain is the filter chain in decode order; nil = unfiltered.
		Chain []string
		Pred  bool
		Pred2 bool // TIFF predictor 2 instead of PNG predictor 12
		// PredColors > 1 (with Pred, without Pred2): PNG predictor 15 over samples of that many components (/Colors)
		PredColors int
		// Array1: a single filter is written as a one-element array
		Array1 bool
		// NoIndirectLength forces a direct /Length (object streams and xref streams, §7.5.7/§7.5.8.2).
		NoIndirectLength bool
	}
)

func (d Dict) with(k string, v any) Dict { return append(d, KV{k, v}) }
