package pdfw

import (
	"bytes"
	"fmt"
	"sort"
	"strconv"

	"verif/harness/gen/filt"
)

// Mark records where a syntactic element of interest was written (used by the
// structural fault catalogue of the robustness property).
type Mark struct {
	Off  int    `json:"off"`
	Len  int    `json:"len"`
	Role string `json:"role"` // int | ref | name | delim | streamdata | objhead | xrefentry | startxref | keyword
}

// Result is what Write returns.
type Result struct {
	Bytes []byte
	Marks []Mark
	// ObjNum maps symbolic ids to (number, generation) in the final revision.
	ObjNum map[string][2]int
	// ObjMarks holds, per written object (symbolic id; "objstm:<rev>:<k>" and "xref:<rev>" for the containers),
	// the marks of its serialised body relative to the body's first byte. Together with Layout.Patches they allow
	// a fault to be applied to one object while every offset of the file stays consistent.
	ObjMarks map[string][]Mark
	// StmMembers: number of objects packed into each object stream (by symbolic id).
	StmMembers map[string]int
}

type numbering struct {
	num  map[string]int
	gen  map[string]int
	next int
	free []freed // freed numbers available for reuse
}

type freed struct{ num, gen int }

type writer struct {
	l          Layout
	objMarks   map[string][]Mark
	stmMembers map[string]int
	buf        bytes.Buffer
	marks      []Mark
	nb         *numbering
	eol        string
}

func (w *writer) mark(off, n int, role string) { w.marks = append(w.marks, Mark{off, n, role}) }

// patched records the body's marks under id and applies the layout's patches for id (from the back, so that
// earlier offsets stay valid).
func (w *writer) patched(id string, body []byte, marks []Mark) []byte {
	if w.objMarks == nil {
		w.objMarks = map[string][]Mark{}
	}
	w.objMarks[id] = marks
	var ps []Patch
	for _, p := range w.l.Patches {
		if p.ID == id && p.Off >= 0 && p.Off+p.Len <= len(body) {
			ps = append(ps, p)
		}
	}
	sort.SliceStable(ps, func(a, b int) bool { return ps[a].Off > ps[b].Off })
	for _, p := range ps {
		nb := make([]byte, 0, len(body)+len(p.New))
		nb = append(nb, body[:p.Off]...)
		nb = append(nb, p.New...)
		body = append(nb, body[p.Off+p.Len:]...)
	}
	return body
}

// ---------------------------------------------------------------------------
// object serialisation (ISO 32000-1 §7.3)

func serString(s Str) []byte {
	var b bytes.Buffer
	if s.Hex {
		b.WriteByte('<')
		for _, c := range s.B {
			fmt.Fprintf(&b, "%02X", c)
		}
		b.WriteByte('>')
		return b.Bytes()
	}
	b.WriteByte('(')
	for _, c := range s.B {
		switch c {
		case '(', ')', '\\':
			b.WriteByte('\\')
			b.WriteByte(c)
		case '\r':
			b.WriteString("\\r") // a raw CR inside a literal string would be read back as LF (§7.3.4.2)
		case '\n':
			b.WriteString("\\n")
		default:
			b.WriteByte(c)
		}
	}
	b.WriteByte(')')
	return b.Bytes()
}

func serName(n string) []byte {
	var b bytes.Buffer
	b.WriteByte('/')
	for i := 0; i < len(n); i++ {
		c := n[i]
		if c <= ' ' || c >= 127 || c == '#' || bytes.IndexByte([]byte("()<>[]{}/%"), c) >= 0 {
			fmt.Fprintf(&b, "#%02X", c)
		} else {
			b.WriteByte(c)
		}
	}
	return b.Bytes()
}

// ser writes o at the current position of out; base is the absolute file offset of out[0]
// (marks are only recorded when rec is true: objects inside object streams have no file offsets).
func (w *writer) ser(out *bytes.Buffer, o any, base int, rec bool) {
	sp := " "
	if w.l.Compact {
		sp = ""
	}
	at := func() int { return base + out.Len() }
	switch v := o.(type) {
	case nil:
		out.WriteString("null")
	case bool:
		if v {
			out.WriteString("true")
		} else {
			out.WriteString("false")
		}
	case Int:
		s := strconv.FormatInt(int64(v), 10)
		if rec {
			w.mark(at(), len(s), "int")
		}
		out.WriteString(s)
	case Real:
		out.WriteString(fmtNum(float64(v)))
	case Name:
		out.Write(serName(string(v)))
	case Str:
		out.Write(serString(v))
	case NRef:
		s := fmt.Sprintf("%d %d R", v.Num, v.Gen)
		if rec {
			w.mark(at(), len(s), "ref")
		}
		out.WriteString(s)
	case Ref:
		n, ok := w.nb.num[string(v)]
		if !ok {
			panic("pdfw: reference to unknown object " + string(v))
		}
		s := fmt.Sprintf("%d %d R", n, w.nb.gen[string(v)])
		if rec {
			w.mark(at(), len(s), "ref")
		}
		out.WriteString(s)
	case Arr:
		if rec {
			w.mark(at(), 1, "delim")
		}
		out.WriteByte('[')
		for i, e := range v {
			if i > 0 {
				out.WriteByte(' ')
			} else {
				out.WriteString(sp)
			}
			w.ser(out, e, base, rec)
		}
		out.WriteString(sp)
		if rec {
			w.mark(at(), 1, "delim")
		}
		out.WriteByte(']')
	case Dict:
		if rec {
			w.mark(at(), 2, "delim")
		}
		out.WriteString("<<")
		for i, kv := range v {
			if i > 0 || sp != "" {
				out.WriteString(sp)
			}
			out.Write(serName(kv.K))
			// a name may be followed directly by a delimiter; other tokens need white space
			switch kv.V.(type) {
			case Arr, Dict, Str, Name:
				out.WriteString(sp)
			default:
				out.WriteByte(' ')
			}
			w.ser(out, kv.V, base, rec)
		}
		out.WriteString(sp)
		if rec {
			w.mark(at(), 2, "delim")
		}
		out.WriteString(">>")
	default:
		panic(fmt.Sprintf("pdfw: cannot serialise %T", o))
	}
}

// encodeStream applies the filter chain in the encoding direction and returns
// the data plus the /Filter and /DecodeParms entries.
func encodeStream(s *Stream) ([]byte, Dict) {
	data := s.Data
	if len(s.Chain) == 0 {
		return data, nil
	}
	parms := make(Arr, len(s.Chain))
	anyParm := false
	for i := len(s.Chain) - 1; i >= 0; i-- {
		switch s.Chain[i] {
		case "FlateDecode", "Fl":
			if s.Pred2 {
				// TIFF predictor 2 (§7.4.4.4): 8-bit samples, one colour, rows of 8 bytes
				const cols = 8
				for len(data)%cols != 0 {
					data = append(append([]byte(nil), data...), ' ')
				}
				data = filt.TIFFForward(data, cols, 1)
				parms[i] = Dict{{"Predictor", Int(2)}, {"Columns", Int(cols)}}
				anyParm = true
			} else if s.Pred && s.PredColors > 1 {
				// rows of 4 samples of PredColors components: the neighbour "to the left" is PredColors bytes away
				const cols = 4
				row := cols * s.PredColors
				for len(data)%row != 0 {
					data = append(append([]byte(nil), data...), ' ')
				}
				data = filt.PNGForward(data, row, s.PredColors, []int{2, 1, 4, 3, 0})
				parms[i] = Dict{{"Predictor", Int(15)}, {"Colors", Int(s.PredColors)}, {"Columns", Int(cols)}}
				anyParm = true
			} else if s.Pred {
				const cols = 4
				for len(data)%cols != 0 {
					data = append(append([]byte(nil), data...), ' ')
				}
				data = filt.PNGForward(data, cols, 1, []int{2, 1, 4, 3, 0})
				parms[i] = Dict{{"Predictor", Int(12)}, {"Columns", Int(cols)}}
				anyParm = true
			}
			data = filt.Zlib(data, 6)
		case "ASCIIHexDecode", "AHx":
			data = filt.HexEncode(data, filt.HexOpts{Upper: []bool{true}, WSEvery: 64, WS: "\n", EOD: true})
		case "ASCII85Decode", "A85":
			data = filt.A85Encode(data, filt.A85Opts{WSEvery: 72, WS: "\n", EOD: true})
		default:
			panic("pdfw: unknown filter " + s.Chain[i])
		}
	}
	var d Dict
	if len(s.Chain) == 1 && s.Array1 {
		d = d.with("Filter", Arr{Name(s.Chain[0])})
		if anyParm {
			d = d.with("DecodeParms", parms[0])
		}
	} else if len(s.Chain) == 1 {
		d = d.with("Filter", Name(s.Chain[0]))
		if anyParm {
			d = d.with("DecodeParms", parms[0])
		}
	} else {
		names := Arr{}
		for _, n := range s.Chain {
			names = append(names, Name(n))
		}
		d = d.with("Filter", names)
		if anyParm {
			d = d.with("DecodeParms", parms) // nil entries are written as null (Table 5)
		}
	}
	return data, d
}

// ---------------------------------------------------------------------------
// file assembly

type pending struct {
	id    string
	body  []byte // serialised object value (for streams: dict + stream … endstream), no "n g obj" wrapper
	marks []Mark // relative to body
	// isStream: cannot live in an object stream (§7.5.7)
	isStream bool
}

// Write serialises the revisions docs[0], docs[1], … into one file.
func Write(docs []Doc, l Layout) Result {
	w := &writer{l: l, eol: l.eol(), nb: &numbering{num: map[string]int{}, gen: map[string]int{}, next: 1}}
	ver := l.Version
	if ver == "" {
		ver = "1.7"
	}
	w.buf.WriteString("%PDF-" + ver + w.eol)
	if l.BinaryComment {
		w.buf.WriteString("%\xE2\xE3\xCF\xD3" + w.eol)
	}

	prevSer := map[string][]byte{} // id -> last written serialisation (with numbering resolved)
	live := map[string]bool{}
	var prevXRef int = -1
	size := 1 // highest object number + 1

	for rev, doc := range docs {
		objs := lower(doc, l)
		// indirect /Length objects
		var all []symObj
		for _, o := range objs {
			all = append(all, o)
			if s, ok := o.Obj.(*Stream); ok && l.Length != "" && l.Length != "direct" && !s.NoIndirectLength {
				all = append(all, symObj{"len:" + o.ID, nil}) // value filled in after encoding
			}
		}
		// ---- numbering of new ids (permuted) ---------------------------------
		var fresh []string
		for _, o := range all {
			if _, ok := w.nb.num[o.ID]; !ok {
				fresh = append(fresh, o.ID)
			}
		}
		order := make([]int, len(fresh))
		for i := range order {
			order[i] = i
		}
		sort.SliceStable(order, func(a, b int) bool { return l.key(l.NumberKeys, order[a]+rev*7) < l.key(l.NumberKeys, order[b]+rev*7) })
		for _, k := range order {
			id := fresh[k]
			if l.ReuseFreed && len(w.nb.free) > 0 {
				f := w.nb.free[0]
				w.nb.free = w.nb.free[1:]
				w.nb.num[id], w.nb.gen[id] = f.num, f.gen+1
			} else {
				w.nb.num[id], w.nb.gen[id] = w.nb.next, 0
				w.nb.next++
			}
		}
		if w.nb.next > size {
			size = w.nb.next
		}

		// ---- serialise every object of this revision ------------------------
		var pend []pending
		lengths := map[string]int{}
		for _, o := range objs {
			var b bytes.Buffer
			saved := w.marks
			w.marks = nil
			switch v := o.Obj.(type) {
			case *Stream:
				data, fd := encodeStream(v)
				d := append(Dict{}, v.D...)
				if l.Length != "" && l.Length != "direct" && !v.NoIndirectLength {
					d = d.with("Length", Ref("len:"+o.ID))
					lengths["len:"+o.ID] = len(data)
				} else {
					d = d.with("Length", Int(len(data)))
				}
				d = append(d, fd...)
				w.ser(&b, d, 0, true)
				b.WriteString(w.eol + "stream")
				if l.StreamCRLF || w.eol == "\r" || w.eol == "\r\n" {
					b.WriteString("\r\n")
				} else {
					b.WriteString("\n")
				}
				w.mark(b.Len(), len(data), "streamdata")
				b.Write(data)
				b.WriteString(w.eol + "endstream")
				pend = append(pend, pending{o.ID, w.patched(o.ID, b.Bytes(), w.marks), w.marks, true})
			default:
				w.ser(&b, o.Obj, 0, true)
				pend = append(pend, pending{o.ID, w.patched(o.ID, b.Bytes(), w.marks), w.marks, false})
			}
			w.marks = saved
		}
		var lenIDs []string
		for id := range lengths {
			lenIDs = append(lenIDs, id)
		}
		sort.Strings(lenIDs)
		for _, id := range lenIDs {
			sv := strconv.Itoa(lengths[id])
			lm := []Mark{{0, len(sv), "int"}}
			pend = append(pend, pending{id, w.patched(id, []byte(sv), lm), lm, false})
		}

		// ---- what changed? ---------------------------------------------------
		now := map[string]bool{}
		var changed []pending
		for _, p := range pend {
			now[p.id] = true
			if old, ok := prevSer[p.id]; !ok || !bytes.Equal(old, p.body) {
				changed = append(changed, p)
			}
			prevSer[p.id] = p.body
		}
		var gone []string
		for id := range live {
			if !now[id] {
				gone = append(gone, id)
			}
		}
		sort.Strings(gone)
		live = now

		// ---- file order of the changed objects -------------------------------
		ord := make([]int, len(changed))
		for i := range ord {
			ord[i] = i
		}
		sort.SliceStable(ord, func(a, b int) bool { return l.key(l.OrderKeys, ord[a]+rev*5) < l.key(l.OrderKeys, ord[b]+rev*5) })
		var seq []pending
		for _, k := range ord {
			seq = append(seq, changed[k])
		}
		// place indirect length objects before / after their stream
		if l.Length == "before" || l.Length == "after" {
			var body, lens []pending
			for _, p := range seq {
				if len(p.id) > 4 && p.id[:4] == "len:" {
					lens = append(lens, p)
				} else {
					body = append(body, p)
				}
			}
			if l.Length == "before" {
				seq = append(lens, body...)
			} else {
				seq = append(body, lens...)
			}
		}

		// ---- object streams ---------------------------------------------------
		kind := l.xrefKind(rev)
		type xent struct {
			typ    int // 0 free, 1 offset, 2 compressed
			f1, f2 int
			num    int
		}
		var entries []xent
		var plain []pending
		var packed []pending
		if kind == "stream" && l.ObjStm {
			n := 0
			for _, p := range seq {
				isLen := len(p.id) > 4 && p.id[:4] == "len:"
				eligible := !p.isStream && w.nb.gen[p.id] == 0 && (!isLen || l.LengthInObjStm)
				if eligible {
					n++
					if l.ObjStmKeep > 0 && n%l.ObjStmKeep == 0 {
						eligible = false
					}
				}
				if eligible {
					packed = append(packed, p)
				} else {
					plain = append(plain, p)
				}
			}
		} else {
			plain = seq
		}

		writeObj := func(num, gen int, body []byte, marks []Mark) int {
			off := w.buf.Len()
			head := fmt.Sprintf("%d %d obj", num, gen)
			w.mark(off, len(head), "objhead")
			w.buf.WriteString(head + w.eol)
			for _, m := range marks {
				w.mark(w.buf.Len()+m.Off, m.Len, m.Role)
			}
			w.buf.Write(body)
			w.buf.WriteString(w.eol + "endobj" + w.eol)
			return off
		}

		// object streams are written first or last depending on the order keys
		var objstms []pending
		if len(packed) > 0 {
			cnt := l.ObjStmCount
			if cnt < 1 {
				cnt = 1
			}
			if cnt > len(packed) {
				cnt = len(packed)
			}
			var prevStm string
			for s := 0; s < cnt; s++ {
				members := packed[s*len(packed)/cnt : (s+1)*len(packed)/cnt]
				sid := fmt.Sprintf("objstm:%d:%d", rev, s)
				w.nb.num[sid], w.nb.gen[sid] = w.nb.next, 0
				w.nb.next++
				var head, body bytes.Buffer
				for k, m := range members {
					hn, ho := strconv.Itoa(w.nb.num[m.id]), strconv.Itoa(body.Len())
					for _, hf := range l.ObjStmHead {
						if hf.Stm == sid && hf.Index == k {
							if hf.Field == 0 {
								hn = hf.New
							} else {
								ho = hf.New
							}
						}
					}
					fmt.Fprintf(&head, "%s %s ", hn, ho)
					body.Write(m.body)
					body.WriteString(" ")
					entries = append(entries, xent{2, w.nb.num[sid], k, w.nb.num[m.id]})
				}
				d := Dict{{"Type", Name("ObjStm")}, {"N", Int(len(members))}, {"First", Int(head.Len())}}
				if l.ObjStmExtends && prevStm != "" {
					d = d.with("Extends", Ref(prevStm))
				}
				prevStm = sid
				st := &Stream{D: d, Data: append(head.Bytes(), body.Bytes()...), NoIndirectLength: true}
				if l.ObjStmFlate {
					st.Chain = []string{"FlateDecode"}
				}
				data, fd := encodeStream(st)
				dd := append(append(Dict{}, d...), KV{"Length", Int(len(data))})
				dd = append(dd, fd...)
				var b bytes.Buffer
				saved := w.marks
				w.marks = nil
				w.ser(&b, dd, 0, true)
				b.WriteString(w.eol + "stream\n")
				w.mark(b.Len(), len(data), "streamdata")
				b.Write(data)
				b.WriteString(w.eol + "endstream")
				if w.stmMembers == nil {
					w.stmMembers = map[string]int{}
				}
				w.stmMembers[sid] = len(members)
				objstms = append(objstms, pending{sid, w.patched(sid, b.Bytes(), w.marks), w.marks, true})
				w.marks = saved
			}
		}
		if w.nb.next > size {
			size = w.nb.next
		}
		toWrite := append(append([]pending{}, plain...), objstms...)
		if l.key(l.OrderKeys, rev)%2 == 1 {
			toWrite = append(append([]pending{}, objstms...), plain...)
		}
		for _, p := range toWrite {
			off := writeObj(w.nb.num[p.id], w.nb.gen[p.id], p.body, p.marks)
			entries = append(entries, xent{1, off, w.nb.gen[p.id], w.nb.num[p.id]})
		}
		// free entries for deleted objects
		firstFree := 0
		if l.FreeDeleted {
			// the freed entries of this revision form a linked list headed by object 0 (§7.5.4)
			var nums []int
			for _, id := range gone {
				nums = append(nums, w.nb.num[id])
			}
			sort.Ints(nums)
			next := map[int]int{}
			for i, n := range nums {
				if i+1 < len(nums) {
					next[n] = nums[i+1]
				}
			}
			if len(nums) > 0 {
				firstFree = nums[0]
			}
			for _, id := range gone {
				n, g := w.nb.num[id], w.nb.gen[id]
				entries = append(entries, xent{0, next[n], g + 1, n})
				w.nb.free = append(w.nb.free, freed{n, g})
				delete(w.nb.num, id)
				delete(w.nb.gen, id)
				delete(prevSer, id)
			}
		} else {
			for _, id := range gone {
				delete(prevSer, id) // stays in the file, unreferenced; if it comes back it is rewritten
			}
		}
		if rev == 0 || len(gone) > 0 && l.FreeDeleted {
			// object 0 heads the free list (§7.5.4)
			entries = append(entries, xent{0, firstFree, 65535, 0})
		}

		// ---- cross-reference section ----------------------------------------
		xrefOff := w.buf.Len()
		trailer := Dict{{"Size", Int(size)}, {"Root", Ref("catalog")}}
		if prevXRef >= 0 {
			trailer = trailer.with("Prev", Int(prevXRef))
		}
		if kind == "stream" {
			xid := fmt.Sprintf("xref:%d", rev)
			w.nb.num[xid], w.nb.gen[xid] = w.nb.next, 0
			w.nb.next++
			size = w.nb.next
			trailer[0].V = Int(size)
			entries = append(entries, xent{1, xrefOff, 0, w.nb.num[xid]})
			sort.Slice(entries, func(a, b int) bool { return entries[a].num < entries[b].num })
			// field widths: type 1 byte, field 2 as wide as the largest offset/number, field 3 2 bytes
			w2 := 1
			for _, e := range entries {
				for (1 << (8 * uint(w2))) <= e.f1 {
					w2++
				}
			}
			w3 := 2
			if l.XRefW3Zero {
				// Table 17: a width of 0 means the field is absent and takes its default (generation 0 / index 0);
				// possible when no in-use object has a generation and no compressed entry an index other than 0
				w3 = 0
				for _, e := range entries {
					if e.typ != 0 && e.f2 != 0 {
						w3 = 2
					}
				}
			}
			var data bytes.Buffer
			index := Arr{}
			for i := 0; i < len(entries); {
				j := i
				for j+1 < len(entries) && entries[j+1].num == entries[j].num+1 {
					j++
				}
				index = append(index, Int(entries[i].num), Int(j-i+1))
				for k := i; k <= j; k++ {
					e := entries[k]
					data.WriteByte(byte(e.typ))
					for b := w2 - 1; b >= 0; b-- {
						data.WriteByte(byte(e.f1 >> (8 * uint(b))))
					}
					for b := w3 - 1; b >= 0; b-- {
						data.WriteByte(byte(e.f2 >> (8 * uint(b))))
					}
				}
				i = j + 1
			}
			d := Dict{{"Type", Name("XRef")}}
			d = append(d, trailer...)
			d = d.with("W", Arr{Int(1), Int(w2), Int(w3)}).with("Index", index)
			payload := data.Bytes()
			if l.XRefFlate {
				if l.XRefPredictor {
					cols := 1 + w2 + w3
					payload = filt.PNGForward(payload, cols, 1, []int{2})
					d = d.with("DecodeParms", Dict{{"Columns", Int(cols)}, {"Predictor", Int(12)}})
				}
				payload = filt.Zlib(payload, 6)
				d = d.with("Filter", Name("FlateDecode"))
			}
			d = d.with("Length", Int(len(payload)))
			head := fmt.Sprintf("%d 0 obj", w.nb.num[xid])
			w.mark(w.buf.Len(), len(head), "objhead")
			w.buf.WriteString(head + w.eol)
			var xb bytes.Buffer
			savedX := w.marks
			w.marks = nil
			w.ser(&xb, d, 0, true)
			xb.WriteString(w.eol + "stream\n")
			w.mark(xb.Len(), len(payload), "streamdata")
			xb.Write(payload)
			xmarks := w.marks
			w.marks = savedX
			for _, m := range xmarks {
				w.mark(w.buf.Len()+m.Off, m.Len, m.Role)
			}
			w.buf.Write(w.patched(xid, xb.Bytes(), xmarks))
			w.buf.WriteString(w.eol + "endstream" + w.eol + "endobj" + w.eol)
		} else {
			sort.Slice(entries, func(a, b int) bool { return entries[a].num < entries[b].num })
			w.buf.WriteString("xref" + w.eol)
			// each entry is exactly 20 bytes including a 2-byte end-of-line (§7.5.4)
			eol2 := " \n"
			switch w.eol {
			case "\r\n":
				eol2 = "\r\n"
			case "\r":
				eol2 = " \r"
			}
			for i := 0; i < len(entries); {
				j := i
				for j+1 < len(entries) && entries[j+1].num == entries[j].num+1 {
					j++
				}
				fmt.Fprintf(&w.buf, "%d %d%s", entries[i].num, j-i+1, w.eol)
				for k := i; k <= j; k++ {
					e := entries[k]
					flag := "n"
					if e.typ == 0 {
						flag = "f"
					}
					w.mark(w.buf.Len(), 18, "xrefentry")
					fmt.Fprintf(&w.buf, "%010d %05d %s%s", e.f1, e.f2, flag, eol2)
				}
				i = j + 1
			}
			if l.TrailerSameLine {
				w.buf.WriteString("trailer ")
			} else {
				w.buf.WriteString("trailer" + w.eol)
			}
			w.ser(&w.buf, trailer, 0, true)
			w.buf.WriteString(w.eol)
		}
		w.buf.WriteString("startxref" + w.eol)
		s := strconv.Itoa(xrefOff)
		w.mark(w.buf.Len(), len(s), "startxref")
		w.buf.WriteString(s + w.eol + "%%EOF" + w.eol)
		prevXRef = xrefOff
	}

	res := Result{Bytes: w.buf.Bytes(), Marks: w.marks, ObjNum: map[string][2]int{}, ObjMarks: w.objMarks, StmMembers: w.stmMembers}
	for id, n := range w.nb.num {
		res.ObjNum[id] = [2]int{n, w.nb.gen[id]}
	}
	return res
}
