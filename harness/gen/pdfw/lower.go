package pdfw

import (
	"bytes"
	"fmt"
	"strconv"
	"strings"
	"unicode/utf16"
)

// symObj is one indirect object of a revision, addressed by a symbolic id
// that is stable across revisions.
type symObj struct {
	ID  string
	Obj any
}

type node struct {
	id     string
	level  int // 1 = lowest /Pages level
	kids   []*node
	leaves []int // indices into doc.Pages (only at level 1)
	before []int // unbalanced trees: page leaves that are direct kids of an inner node, in front of its subtrees ...
	after  []int // ... and behind them
	all    []int // every leaf below
	parent *node
}

func num(f float64) any {
	if f == float64(int64(f)) {
		return Int(int64(f))
	}
	return Real(f)
}

func box(b [4]float64) Arr { return Arr{num(b[0]), num(b[1]), num(b[2]), num(b[3])} }

// buildTree arranges the page indices under `depth` levels of /Pages nodes.
func buildTree(id string, idx []int, level, fanout int, parent *node, unbalanced bool) *node {
	n := &node{id: id, level: level, all: idx, parent: parent}
	if level <= 1 {
		n.leaves = idx
		return n
	}
	if fanout < 1 {
		fanout = 1
	}
	if unbalanced && len(idx) >= 3 {
		// the first and the last page of this subtree hang directly below this node: leaves at different depths
		n.before, n.after = idx[:1], idx[len(idx)-1:]
		idx = idx[1 : len(idx)-1]
	}
	chunk := (len(idx) + fanout - 1) / fanout
	if chunk < 1 {
		chunk = 1
	}
	k := 0
	for s := 0; s < len(idx); s += chunk {
		e := s + chunk
		if e > len(idx) {
			e = len(idx)
		}
		n.kids = append(n.kids, buildTree(fmt.Sprintf("%s.%d", id, k), idx[s:e], level-1, fanout, n, unbalanced))
		k++
	}
	return n
}

// lower turns one revision of the logical document into its object set.
func lower(doc Doc, l Layout) []symObj {
	var out []symObj
	add := func(id string, o any) { out = append(out, symObj{id, o}) }

	depth := l.Depth
	if depth < 1 {
		depth = 1
	}
	idx := make([]int, len(doc.Pages))
	for i := range idx {
		idx[i] = i
	}
	root := buildTree("node:r", idx, depth, l.FanOut, nil, l.Unbalanced)

	add("catalog", Dict{{"Type", Name("Catalog")}, {"Pages", Ref(root.id)}})

	// ---- resources ------------------------------------------------------
	fontDict := Dict{}
	for i, f := range doc.Fonts {
		fontDict = fontDict.with(f.Res, Ref(fmt.Sprintf("font:%d", i)))
	}
	var fontEntry any = fontDict
	if l.FontDictInd {
		fontEntry = Ref("fontdict")
	}
	resDict := Dict{{"Font", fontEntry}, {"ProcSet", Arr{Name("PDF"), Name("Text")}}}
	var resEntry any = resDict
	if l.ResIndirect {
		resEntry = Ref("resources")
	}

	// ---- inheritable attributes (§7.7.3.4) -------------------------------
	type attrs struct{ box, res, rot bool }
	nodeAttr := map[string]*attrs{}
	leafAttr := make([]attrs, len(doc.Pages))
	var walk func(n *node)
	var nodes []*node
	walk = func(n *node) {
		nodes = append(nodes, n)
		for _, k := range n.kids {
			walk(k)
		}
	}
	walk(root)
	capLevel := func(h int) int {
		if h > depth {
			return depth
		}
		return h
	}
	bl, rl, ol := capLevel(l.BoxLevel), capLevel(l.ResLevel), capLevel(l.RotLevel)
	for _, n := range nodes {
		a := &attrs{}
		nodeAttr[n.id] = a
		if n.level == bl {
			a.box = true
		}
		if n.level == rl {
			a.res = true
		}
		if n.level == ol {
			a.rot = true
		}
	}
	for i := range doc.Pages {
		leafAttr[i] = attrs{box: bl == 0, res: rl == 0, rot: ol == 0 && (doc.Pages[i].Rotate != 0 || l.Shadow)}
	}
	// a page that hangs directly below an inner node has no ancestor of a lower level: an attribute that lives
	// further down the tree must stand on the page itself
	for _, n := range nodes {
		for _, i := range append(append([]int{}, n.before...), n.after...) {
			if bl > 0 && bl < n.level {
				leafAttr[i].box = true
			}
			if rl > 0 && rl < n.level {
				leafAttr[i].res = true
			}
			if ol > 0 && ol < n.level {
				leafAttr[i].rot = true
			}
		}
	}
	// a leaf whose value differs from the inherited one overrides it
	for _, n := range nodes {
		a := nodeAttr[n.id]
		if len(n.all) == 0 {
			continue
		}
		first := doc.Pages[n.all[0]]
		for _, i := range n.all {
			if a.box && doc.Pages[i].MediaBox != first.MediaBox {
				leafAttr[i].box = true
			}
			if a.rot && doc.Pages[i].Rotate != first.Rotate {
				leafAttr[i].rot = true
			}
		}
	}

	// ---- page tree nodes -------------------------------------------------
	needDecoy := false
	for _, n := range nodes {
		d := Dict{{"Type", Name("Pages")}}
		if n.parent != nil {
			d = d.with("Parent", Ref(n.parent.id))
		}
		kids := Arr{}
		for _, i := range n.before {
			kids = append(kids, Ref(fmt.Sprintf("page:%d", doc.Pages[i].ID)))
		}
		for _, k := range n.kids {
			kids = append(kids, Ref(k.id))
		}
		for _, i := range n.leaves {
			kids = append(kids, Ref(fmt.Sprintf("page:%d", doc.Pages[i].ID)))
		}
		for _, i := range n.after {
			kids = append(kids, Ref(fmt.Sprintf("page:%d", doc.Pages[i].ID)))
		}
		d = d.with("Kids", kids).with("Count", Int(len(n.all)))
		a := nodeAttr[n.id]
		if len(n.all) > 0 {
			first := doc.Pages[n.all[0]]
			if a.box {
				d = d.with("MediaBox", box(first.MediaBox))
			}
			if a.rot {
				d = d.with("Rotate", Int(first.Rotate))
			}
		}
		if a.res {
			d = d.with("Resources", resEntry)
		}
		if l.Shadow && len(n.all) > 0 {
			first := doc.Pages[n.all[0]]
			if n.level > bl {
				d = d.with("MediaBox", Arr{Int(0), Int(0), Int(100), Int(100)})
			}
			if n.level > ol {
				d = d.with("Rotate", Int((first.Rotate+90)%360))
			}
			if n.level > rl {
				needDecoy = true
				df := Dict{}
				for _, f := range doc.Fonts {
					df = df.with(f.Res, Ref("font:decoy"))
				}
				d = d.with("Resources", Dict{{"Font", df}})
			}
		}
		add(n.id, d)
	}
	if needDecoy {
		// a font that decodes every printable code to '#': text read through it is recognisably wrong
		var m []MapEnt
		for c := 0x20; c <= 0xFF; c++ {
			m = append(m, MapEnt{c, "#"})
		}
		add("tu:decoy", &Stream{Data: ToUnicodeCMap(m, 1)})
		add("font:decoy", Dict{{"Type", Name("Font")}, {"Subtype", Name("Type1")}, {"BaseFont", Name("Courier")}, {"ToUnicode", Ref("tu:decoy")}})
	}

	// ---- pages and their content streams --------------------------------
	var leafParent func(n *node, m map[int]string)
	parentOf := map[int]string{}
	leafParent = func(n *node, m map[int]string) {
		for _, i := range append(append(append([]int{}, n.leaves...), n.before...), n.after...) {
			m[i] = n.id
		}
		for _, k := range n.kids {
			leafParent(k, m)
		}
	}
	leafParent(root, parentOf)

	split := l.Split
	if split < 1 {
		split = 1
	}
	streamNo := 0
	for i, p := range doc.Pages {
		pid := fmt.Sprintf("page:%d", p.ID)
		d := Dict{{"Type", Name("Page")}, {"Parent", Ref(parentOf[i])}}
		if leafAttr[i].box {
			d = d.with("MediaBox", box(p.MediaBox))
		}
		if leafAttr[i].res {
			d = d.with("Resources", resEntry)
		}
		if leafAttr[i].rot {
			d = d.with("Rotate", Int(p.Rotate))
		}
		parts := contentParts(doc, p, split, l.SplitTight)
		if l.Pad > len(parts[0]) {
			pad := make([]byte, 0, l.Pad)
			for len(pad)+len(parts[0]) < l.Pad {
				pad = append(pad, "   \n"[len(pad)%4])
			}
			parts[0] = append(pad, parts[0]...)
		}
		emptyAt := -1
		if l.EmptyPart {
			// one more content stream without any data (/Length 0, no filter): legal, the streams of the array
			// are concatenated (§7.8.2) and a stream may be empty (§7.3.8.2: Length = number of bytes, 0 allowed)
			emptyAt = p.ID % (len(parts) + 1)
			parts = append(parts[:emptyAt:emptyAt], append([][]byte{{}}, parts[emptyAt:]...)...)
		}
		refs := Arr{}
		for j, part := range parts {
			cid := fmt.Sprintf("content:%d:%d", p.ID, j)
			var chain []string
			if len(l.Filters) > 0 && j != emptyAt {
				chain = l.Filters[streamNo%len(l.Filters)]
			}
			streamNo++
			add(cid, &Stream{Data: part, Chain: chain, Pred: l.Predictor, Pred2: l.Predictor && l.TIFFPred, PredColors: l.PredColors, Array1: l.FilterArray1})
			refs = append(refs, Ref(cid))
		}
		switch {
		case len(refs) == 1 && !l.ContentsIndirect:
			d = d.with("Contents", refs[0])
		case l.ContentsIndirect:
			aid := fmt.Sprintf("contents:%d", p.ID)
			add(aid, refs)
			d = d.with("Contents", Ref(aid))
		default:
			d = d.with("Contents", refs)
		}
		add(pid, d)
	}

	// ---- fonts -----------------------------------------------------------
	if l.ResIndirect {
		add("resources", resDict)
	}
	if l.FontDictInd {
		add("fontdict", fontDict)
	}
	for i, f := range doc.Fonts {
		for _, o := range lowerFont(i, f, l) {
			out = append(out, o)
		}
	}
	return out
}

// contentParts renders the page's content stream and cuts it into k parts at token boundaries.
func contentParts(doc Doc, p Page, k int, tight bool) [][]byte {
	var toks []string
	for _, ln := range p.Lines {
		if ln.Saved {
			toks = append(toks, "q")
		}
		toks = append(toks, "BT")
		if !ln.Inherit {
			toks = append(toks, "/"+doc.Fonts[ln.Font].Res, fmtNum(ln.Size), "Tf")
		}
		toks = append(toks, fmtNum(ln.X), fmtNum(ln.Y), "Td", string(serString(Str{ln.Bytes, ln.Hex})), "Tj", "ET")
		if ln.Saved {
			toks = append(toks, "Q")
		}
	}
	toks = append(toks, strings.Fields(p.Trailer)...)
	if k > len(toks) {
		k = len(toks)
	}
	if k < 1 {
		k = 1
	}
	var parts [][]byte
	for j := 0; j < k; j++ {
		s, e := j*len(toks)/k, (j+1)*len(toks)/k
		var b bytes.Buffer
		for t := s; t < e; t++ {
			if t > s {
				if toks[t] == "BT" {
					b.WriteByte('\n')
				} else {
					b.WriteByte(' ')
				}
			}
			b.WriteString(toks[t])
		}
		if !tight {
			b.WriteByte('\n')
		}
		parts = append(parts, b.Bytes())
	}
	return parts
}

func fmtNum(f float64) string {
	if f == float64(int64(f)) {
		return strconv.FormatInt(int64(f), 10)
	}
	return strconv.FormatFloat(f, 'f', -1, 64)
}

var widths224 = func() Arr {
	a := Arr{}
	for i := 0; i < 224; i++ {
		a = append(a, Int(500))
	}
	return a
}()

func descriptor(name string, flags int) Dict {
	// Table 122: required entries of a font descriptor (the font program itself is optional, §9.9)
	return Dict{{"Type", Name("FontDescriptor")}, {"FontName", Name(name)}, {"Flags", Int(flags)},
		{"FontBBox", Arr{Int(-665), Int(-325), Int(2000), Int(1006)}}, {"ItalicAngle", Int(0)}, {"Ascent", Int(905)},
		{"Descent", Int(-212)}, {"CapHeight", Int(716)}, {"StemV", Int(80)}}
}

func lowerFont(i int, f FontSpec, l Layout) []symObj {
	id := fmt.Sprintf("font:%d", i)
	var out []symObj
	tt := func(enc string) Dict {
		out = append(out, symObj{fmt.Sprintf("fd:%d", i), descriptor(f.Base, 32)})
		return Dict{{"Type", Name("Font")}, {"Subtype", Name("TrueType")}, {"BaseFont", Name(f.Base)},
			{"FirstChar", Int(32)}, {"LastChar", Int(255)}, {"Widths", widths224},
			{"FontDescriptor", Ref(fmt.Sprintf("fd:%d", i))}, {"Encoding", Name(enc)}}
	}
	t1 := func(enc string) Dict {
		d := Dict{{"Type", Name("Font")}, {"Subtype", Name("Type1")}, {"BaseFont", Name(f.Base)}}
		if enc != "" {
			d = d.with("Encoding", Name(enc))
		}
		return d
	}
	tu := func(width int) {
		var chain []string
		if l.ToUniFlate {
			chain = []string{"FlateDecode"}
		}
		out = append(out, symObj{fmt.Sprintf("tu:%d", i), &Stream{Data: ToUnicodeCMap(f.Map, width), Chain: chain}})
	}
	encDict := func(base string) any {
		d := Dict{{"Type", Name("Encoding")}}
		if base != "" {
			d = d.with("BaseEncoding", Name(base))
		}
		if len(f.Diff) > 0 {
			// §9.6.6.1: a code followed by the names for that and the following codes
			a := Arr{}
			for k, e := range f.Diff {
				if k == 0 || f.Diff[k-1].Code+1 != e.Code {
					a = append(a, Int(e.Code))
				}
				a = append(a, Name(e.Glyph))
			}
			d = d.with("Differences", a)
		}
		if l.CIDInfoInd {
			out = append(out, symObj{fmt.Sprintf("enc:%d", i), d})
			return Ref(fmt.Sprintf("enc:%d", i))
		}
		return d
	}
	switch f.Kind {
	case "t1dstd":
		out = append(out, symObj{id, t1("").with("Encoding", encDict(""))})
	case "t1dwin":
		out = append(out, symObj{id, t1("").with("Encoding", encDict("WinAnsiEncoding"))})
	case "t1dmac":
		out = append(out, symObj{id, t1("").with("Encoding", encDict("MacRomanEncoding"))})
	case "t1std":
		out = append(out, symObj{id, t1("")})
	case "t1win":
		out = append(out, symObj{id, t1("WinAnsiEncoding")})
	case "t1mac":
		out = append(out, symObj{id, t1("MacRomanEncoding")})
	case "ttwin":
		out = append(out, symObj{id, tt("WinAnsiEncoding")})
	case "ttmac":
		out = append(out, symObj{id, tt("MacRomanEncoding")})
	case "ttembed":
		// TrueType with an embedded font program (/FontFile2, Table 126) and WinAnsiEncoding
		d := tt("WinAnsiEncoding")
		font := MinimalTTF(96)
		fd := out[len(out)-1].Obj.(Dict)
		out[len(out)-1].Obj = fd.with("FontFile2", Ref(fmt.Sprintf("fontfile:%d", i)))
		out = append(out, symObj{fmt.Sprintf("fontfile:%d", i), &Stream{D: Dict{{"Length1", Int(len(font))}}, Data: font}})
		out = append(out, symObj{id, d})
	case "tu1bad":
		// TrueType with /ToUnicode and an embedded font program that cannot be read (truncated, or written by a
		// broken subsetter): the text is defined by the ToUnicode map all the same (§9.10.2)
		d := tt("MacRomanEncoding").with("ToUnicode", Ref(fmt.Sprintf("tu:%d", i)))
		fd := out[len(out)-1].Obj.(Dict)
		out[len(out)-1].Obj = fd.with("FontFile2", Ref(fmt.Sprintf("fontfile:%d", i)))
		junk := []byte("\x00\x01\x00\x00\x00\x02 this is not a TrueType table directory, the file was cut here")
		out = append(out, symObj{fmt.Sprintf("fontfile:%d", i), &Stream{D: Dict{{"Length1", Int(len(junk))}}, Data: junk}})
		tu(1)
		out = append(out, symObj{id, d})
	case "tu1":
		var d Dict
		if i%2 == 0 {
			d = t1("WinAnsiEncoding")
		} else {
			d = tt("MacRomanEncoding")
		}
		d = d.with("ToUnicode", Ref(fmt.Sprintf("tu:%d", i)))
		tu(1)
		out = append(out, symObj{id, d})
	case "type0":
		out = append(out, symObj{fmt.Sprintf("fd:%d", i), descriptor(f.Base, 4)})
		var sysInfo any = Dict{{"Registry", Str{B: []byte("Adobe")}}, {"Ordering", Str{B: []byte("Identity")}}, {"Supplement", Int(0)}}
		if l.CIDInfoInd {
			out = append(out, symObj{fmt.Sprintf("cidinfo:%d", i), sysInfo})
			sysInfo = Ref(fmt.Sprintf("cidinfo:%d", i))
		}
		out = append(out, symObj{fmt.Sprintf("cid:%d", i), Dict{{"Type", Name("Font")}, {"Subtype", Name("CIDFontType2")},
			{"BaseFont", Name(f.Base)},
			{"CIDSystemInfo", sysInfo},
			{"FontDescriptor", Ref(fmt.Sprintf("fd:%d", i))}, {"DW", Int(1000)}}})
		tu(2)
		out = append(out, symObj{id, Dict{{"Type", Name("Font")}, {"Subtype", Name("Type0")}, {"BaseFont", Name(f.Base)},
			{"Encoding", Name("Identity-H")}, {"DescendantFonts", Arr{Ref(fmt.Sprintf("cid:%d", i))}},
			{"ToUnicode", Ref(fmt.Sprintf("tu:%d", i))}}})
	default:
		panic("pdfw: unknown font kind " + f.Kind)
	}
	return out
}

// ToUnicodeCMap renders a code->text map as a ToUnicode CMap (§9.10.3, Adobe
// Technical Note #5411) using bfchar sections of at most 100 entries, one
// entry per line. width is the code length in bytes.
func ToUnicodeCMap(m []MapEnt, width int) []byte {
	var b strings.Builder
	b.WriteString("/CIDInit /ProcSet findresource begin\n12 dict begin\nbegincmap\n")
	b.WriteString("/CIDSystemInfo << /Registry (Adobe) /Ordering (UCS) /Supplement 0 >> def\n")
	b.WriteString("/CMapName /Adobe-Identity-UCS def\n/CMapType 2 def\n1 begincodespacerange\n")
	if width == 1 {
		b.WriteString("<00> <FF>\n")
	} else {
		b.WriteString("<0000> <FFFF>\n")
	}
	b.WriteString("endcodespacerange\n")
	for s := 0; s < len(m); s += 100 {
		e := s + 100
		if e > len(m) {
			e = len(m)
		}
		fmt.Fprintf(&b, "%d beginbfchar\n", e-s)
		for _, ent := range m[s:e] {
			fmt.Fprintf(&b, "<%0*X> <", 2*width, ent.Code)
			for _, u := range utf16.Encode([]rune(ent.Text)) {
				fmt.Fprintf(&b, "%04X", u)
			}
			b.WriteString(">\n")
		}
		b.WriteString("endbfchar\n")
	}
	b.WriteString("endcmap\nCMapName currentdict /CMap defineresource pop\nend\nend\n")
	return []byte(b.String())
}
