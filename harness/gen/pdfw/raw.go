package pdfw

import (
	"bytes"
	"fmt"
	"sort"
	"strconv"
	"strings"

	"verif/harness/gen/filt"
)

// RawObj is one cross-reference event of a revision in the raw (object-level)
// writer used by the revision-history property.
type RawObj struct {
	Num  int  `json:"num"`
	Gen  int  `json:"gen"`
	Free bool `json:"free,omitempty"` // mark Num free in this revision (Gen = generation for reuse)
	// Value of the object (ignored when Free): pdfw object model restricted to
	// Int, Str, Name, Arr, Dict, NRef; when Data != nil the object is a stream
	// whose dictionary is Value (a Dict, possibly nil) plus /Length.
	Value      any    `json:"-"`
	Data       []byte `json:"-"`
	LengthRef  *NRef  `json:"-"` // stream /Length given by reference to this object
	InObjStm   bool   `json:"in_objstm,omitempty"`
	AfterFirst bool   `json:"-"`
}

// RawRevision is one incremental section.
type RawRevision struct {
	XRef      string   `json:"xref"` // table | stream
	Objs      []RawObj `json:"objs"`
	ObjStmNum int      `json:"objstm_num"` // object number used for this revision's object stream (if any member)
	XRefNum   int      `json:"xref_num"`   // object number of the xref stream (stream kind)
	Flate     bool     `json:"flate,omitempty"`
	// TightHead: no blank between the last number of the object-stream header and the first object, when that
	// object starts with a delimiter ("(", "[", "<"): /First is the offset of the first object, nothing requires
	// white space in front of it (§7.5.7).
	TightHead bool `json:"tight_head,omitempty"`
	// TightTail: the data of the object stream end with the last byte of the last object (no end-of-line behind it)
	TightTail bool `json:"tight_tail,omitempty"`
	// W1 (stream kind): width in bytes of the type field of the entries, /W [W1 n 2]; 0 stands for 1. Table 17 puts
	// no limit on a field's width: the fields are big-endian numbers of the stated width
	W1 int `json:"w1,omitempty"`
}

// WriteRaw writes the revisions as one file. root is the catalog's object number; size the /Size value.
func WriteRaw(revs []RawRevision, root NRef, size int, eol string) []byte {
	return WriteRawOrdered(revs, root, size, eol, nil)
}

// WriteRawOrdered is WriteRaw with a physical order: revs is the logical history (oldest first, each section's
// /Prev names its predecessor in this list), order lists the indices of revs in the sequence in which the
// sections are laid out in the file (nil = logical order). The startxref at the end of the file names the
// logically newest section wherever it lies - cross-reference sections are found through offsets only, as in
// a linearized file, whose first-page section stands in front of the main one it names by /Prev (Annex F).
// A /Prev that refers forward is written with leading zeros and filled in once the target has been written.
func WriteRawOrdered(revs []RawRevision, root NRef, size int, eol string, order []int) []byte {
	if eol == "" {
		eol = "\n"
	}
	if len(order) != len(revs) {
		order = make([]int, len(revs))
		for i := range order {
			order[i] = i
		}
	}
	xoffOf := make([]int, len(revs))
	written := make([]bool, len(revs))
	type fix struct{ from, to, target int }
	var fixes []fix
	w := &writer{eol: eol, nb: &numbering{num: map[string]int{}, gen: map[string]int{}}}
	w.buf.WriteString("%PDF-1.7" + eol + "%\xE2\xE3\xCF\xD3" + eol)
	for _, li := range order {
		rv := revs[li]
		secStart := w.buf.Len()
		prev := -1
		forward := false
		if li > 0 {
			if written[li-1] {
				prev = xoffOf[li-1]
			} else {
				prev, forward = 8000000000+li, true // ten digits, replaced below
			}
		}
		type xent struct{ typ, f1, f2, num int }
		var entries []xent
		var members []RawObj
		body := func(o RawObj) []byte {
			var b bytes.Buffer
			if o.Data != nil {
				d := Dict{}
				if v, ok := o.Value.(Dict); ok {
					d = append(d, v...)
				}
				if o.LengthRef != nil {
					d = d.with("Length", *o.LengthRef)
				} else {
					d = d.with("Length", Int(len(o.Data)))
				}
				w.ser(&b, d, 0, false)
				b.WriteString(eol + "stream\n")
				b.Write(o.Data)
				b.WriteString(eol + "endstream")
			} else {
				w.ser(&b, o.Value, 0, false)
			}
			return b.Bytes()
		}
		for _, o := range rv.Objs {
			switch {
			case o.Free:
				entries = append(entries, xent{0, 0, o.Gen, o.Num})
			case o.InObjStm && rv.XRef == "stream" && o.Data == nil && o.Gen == 0:
				members = append(members, o)
			default:
				off := w.buf.Len()
				fmt.Fprintf(&w.buf, "%d %d obj%s", o.Num, o.Gen, eol)
				w.buf.Write(body(o))
				w.buf.WriteString(eol + "endobj" + eol)
				entries = append(entries, xent{1, off, o.Gen, o.Num})
			}
		}
		if len(members) > 0 {
			var head, data bytes.Buffer
			for k, m := range members {
				fmt.Fprintf(&head, "%d %d ", m.Num, data.Len())
				data.Write(body(m))
				data.WriteByte('\n')
				entries = append(entries, xent{2, rv.ObjStmNum, k, m.Num})
			}
			hb := head.Bytes()
			if rv.TightHead && data.Len() > 0 && strings.IndexByte("([<", data.Bytes()[0]) >= 0 {
				hb = hb[:len(hb)-1]
			}
			db := data.Bytes()
			if rv.TightTail && len(db) > 0 {
				db = db[:len(db)-1]
			}
			payload := append(append([]byte{}, hb...), db...)
			d := Dict{{"Type", Name("ObjStm")}, {"N", Int(len(members))}, {"First", Int(len(hb))}}
			if rv.Flate {
				payload = filt.Zlib(payload, 6)
				d = d.with("Filter", Name("FlateDecode"))
			}
			d = d.with("Length", Int(len(payload)))
			off := w.buf.Len()
			fmt.Fprintf(&w.buf, "%d 0 obj%s", rv.ObjStmNum, eol)
			w.ser(&w.buf, d, 0, false)
			w.buf.WriteString(eol + "stream\n")
			w.buf.Write(payload)
			w.buf.WriteString(eol + "endstream" + eol + "endobj" + eol)
			entries = append(entries, xent{1, off, 0, rv.ObjStmNum})
		}
		xoff := w.buf.Len()
		trailer := Dict{{"Size", Int(size)}, {"Root", root}}
		if prev >= 0 {
			trailer = trailer.with("Prev", Int(prev))
		}
		if rv.XRef == "stream" {
			entries = append(entries, xent{1, xoff, 0, rv.XRefNum})
		}
		if li == 0 {
			entries = append(entries, xent{0, 0, 65535, 0})
		}
		sort.SliceStable(entries, func(a, b int) bool { return entries[a].num < entries[b].num })
		// a number mentioned twice in one section keeps its last event
		var uniq []xent
		for i, e := range entries {
			if i+1 < len(entries) && entries[i+1].num == e.num {
				continue
			}
			uniq = append(uniq, e)
		}
		entries = uniq
		if rv.XRef == "stream" {
			w2 := 1
			for _, e := range entries {
				for (1 << (8 * uint(w2))) <= e.f1 {
					w2++
				}
			}
			w1 := rv.W1
			if w1 <= 0 {
				w1 = 1
			}
			var data bytes.Buffer
			index := Arr{}
			for i := 0; i < len(entries); {
				j := i
				for j+1 < len(entries) && entries[j+1].num == entries[j].num+1 {
					j++
				}
				index = append(index, Int(entries[i].num), Int(j-i+1))
				for k := i; k <= j; k++ {
					e := entries[k]
					for b := w1 - 1; b >= 0; b-- {
						data.WriteByte(byte(e.typ >> (8 * uint(b))))
					}
					for b := w2 - 1; b >= 0; b-- {
						data.WriteByte(byte(e.f1 >> (8 * uint(b))))
					}
					data.WriteByte(byte(e.f2 >> 8))
					data.WriteByte(byte(e.f2))
				}
				i = j + 1
			}
			payload := data.Bytes()
			d := append(Dict{{"Type", Name("XRef")}}, trailer...)
			d = d.with("W", Arr{Int(w1), Int(w2), Int(2)}).with("Index", index)
			if rv.Flate {
				payload = filt.Zlib(payload, 6)
				d = d.with("Filter", Name("FlateDecode"))
			}
			d = d.with("Length", Int(len(payload)))
			fmt.Fprintf(&w.buf, "%d 0 obj%s", rv.XRefNum, eol)
			w.ser(&w.buf, d, 0, false)
			w.buf.WriteString(eol + "stream\n")
			w.buf.Write(payload)
			w.buf.WriteString(eol + "endstream" + eol + "endobj" + eol)
		} else {
			eol2 := " \n"
			switch eol {
			case "\r\n":
				eol2 = "\r\n"
			case "\r":
				eol2 = " \r"
			}
			w.buf.WriteString("xref" + eol)
			for i := 0; i < len(entries); {
				j := i
				for j+1 < len(entries) && entries[j+1].num == entries[j].num+1 {
					j++
				}
				fmt.Fprintf(&w.buf, "%d %d%s", entries[i].num, j-i+1, eol)
				for k := i; k <= j; k++ {
					e := entries[k]
					flag := "n"
					if e.typ == 0 {
						flag = "f"
					}
					fmt.Fprintf(&w.buf, "%010d %05d %s%s", e.f1, e.f2, flag, eol2)
				}
				i = j + 1
			}
			w.buf.WriteString("trailer" + eol)
			w.ser(&w.buf, trailer, 0, false)
			w.buf.WriteString(eol)
		}
		xoffOf[li], written[li] = xoff, true
		if forward {
			fixes = append(fixes, fix{secStart, w.buf.Len(), li})
		}
		w.buf.WriteString("startxref" + eol + strconv.Itoa(xoff) + eol + "%%EOF" + eol)
	}
	out := w.buf.Bytes()
	for _, f := range fixes {
		marker := []byte(strconv.Itoa(8000000000 + f.target))
		if i := bytes.LastIndex(out[f.from:f.to], marker); i >= 0 {
			copy(out[f.from+i:], fmt.Sprintf("%010d", xoffOf[f.target-1]))
		}
	}
	if last := len(revs) - 1; last >= 0 && order[len(order)-1] != last {
		// the file ends with the pointer to the logically newest section
		out = append(out, []byte("startxref"+eol+strconv.Itoa(xoffOf[last])+eol+"%%EOF"+eol)...)
	}
	return out
}
