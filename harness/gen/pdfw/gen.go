package pdfw

import (
	"fmt"
	"sort"

	"golang.org/x/text/unicode/norm"
	"pgregory.net/rapid"
)

// Repertoires: codes whose Unicode value is undisputed between the Adobe
// glyph list, pdf.js and x/text (see /verif/refdata): printable ASCII (minus
// the two quote codes StandardEncoding assigns differently) plus a few
// well-known high codes per encoding.
var ascii = func() []MapEnt {
	var m []MapEnt
	for c := 0x20; c <= 0x7E; c++ {
		if c == 0x27 || c == 0x60 {
			continue
		}
		m = append(m, MapEnt{c, string(rune(c))})
	}
	return m
}()

var repertoire = map[string][]MapEnt{
	"WinAnsiEncoding": append(append([]MapEnt{}, ascii...), MapEnt{0x27, "'"}, MapEnt{0x60, "`"},
		MapEnt{0x80, "€"}, MapEnt{0x85, "…"}, MapEnt{0x91, "‘"}, MapEnt{0x92, "’"}, MapEnt{0x93, "“"}, MapEnt{0x94, "”"},
		MapEnt{0x96, "–"}, MapEnt{0x97, "—"}, MapEnt{0xA9, "©"}, MapEnt{0xC4, "Ä"}, MapEnt{0xDF, "ß"}, MapEnt{0xE9, "é"},
		MapEnt{0xF1, "ñ"}, MapEnt{0xFC, "ü"}),
	"MacRomanEncoding": append(append([]MapEnt{}, ascii...), MapEnt{0x27, "'"}, MapEnt{0x60, "`"},
		MapEnt{0x80, "Ä"}, MapEnt{0x8E, "é"}, MapEnt{0x96, "ñ"}, MapEnt{0x9F, "ü"}, MapEnt{0xA7, "ß"}, MapEnt{0xA9, "©"},
		MapEnt{0xC9, "…"}, MapEnt{0xD0, "–"}, MapEnt{0xD1, "—"}, MapEnt{0xD2, "“"}, MapEnt{0xD3, "”"}, MapEnt{0xD4, "‘"},
		MapEnt{0xD5, "’"}),
	"StandardEncoding": append(append([]MapEnt{}, ascii...), MapEnt{0x27, "’"}, MapEnt{0x60, "‘"},
		MapEnt{0xA1, "¡"}, MapEnt{0xA2, "¢"}, MapEnt{0xA3, "£"}, MapEnt{0xA7, "§"}, MapEnt{0xAA, "“"}, MapEnt{0xBA, "”"},
		MapEnt{0xB1, "–"}, MapEnt{0xD0, "—"}, MapEnt{0xE1, "Æ"}, MapEnt{0xF1, "æ"}, MapEnt{0xFA, "œ"}, MapEnt{0xFB, "ß"}),
}

// EncodingOf returns the base encoding name of a simple font kind.
func EncodingOf(kind string) string {
	switch kind {
	case "t1std", "t1dstd":
		return "StandardEncoding"
	case "t1win", "ttwin", "ttembed", "t1dwin":
		return "WinAnsiEncoding"
	case "t1mac", "ttmac", "t1dmac":
		return "MacRomanEncoding"
	}
	return ""
}

// targets for ToUnicode fonts: BMP Latin/Greek/Cyrillic/CJK, supplementary plane, multi-character
// (ligature expansions, base + combining mark). None starts with U+FEFF; no right-to-left scripts
// (tabula documents visual reordering for those, which is not this property's subject).
var tuTargets = []string{"A", "b", "z", "0", " ", "é", "ß", "Ω", "λ", "Ж", "я", "中", "文", "あ", "한", "€", "—",
	"\U0001F600", "\U0001D11E", "\U00020000", "ffi", "fl", "é", "ä", "ñ", "Å", "ﬁ", "(", ")", "\\", "<", ">"}

var stdBases = []string{"Helvetica", "Times-Roman", "Courier", "Helvetica-Bold", "Times-Italic"}
var ttBases = []string{"Arial", "ABCDEF+Verdana", "TimesNewRomanPSMT"}

// GenFonts draws 1–3 fonts.
func GenFonts(t *rapid.T) []FontSpec {
	n := rapid.IntRange(1, 3).Draw(t, "nFonts")
	var fonts []FontSpec
	for i := 0; i < n; i++ {
		kind := rapid.SampledFrom([]string{"t1std", "t1win", "t1mac", "ttwin", "ttmac", "ttembed", "tu1", "type0", "t1dstd", "t1dwin", "t1dmac", "tu1bad"}).Draw(t, "fontKind")
		f := FontSpec{Res: fmt.Sprintf("F%d", i+1), Kind: kind}
		switch kind {
		case "t1dstd", "t1dwin", "t1dmac":
			f.Base = rapid.SampledFrom(stdBases).Draw(t, "base")
			f.Diff = genDiff(t)
		case "t1std", "t1win", "t1mac":
			f.Base = rapid.SampledFrom(stdBases).Draw(t, "base")
		case "ttwin", "ttmac", "ttembed":
			f.Base = rapid.SampledFrom(ttBases).Draw(t, "base")
		case "tu1bad":
			f.Base = rapid.SampledFrom(ttBases).Draw(t, "base")
			f.Map = genMap(t, 1)
		case "tu1":
			if i%2 == 0 {
				f.Base = rapid.SampledFrom(stdBases).Draw(t, "base")
			} else {
				f.Base = rapid.SampledFrom(ttBases).Draw(t, "base")
			}
			f.Map = genMap(t, 1)
		case "type0":
			f.Base = "ABCDEF+NotoSans"
			f.Map = genMap(t, 2)
		}
		fonts = append(fonts, f)
	}
	return fonts
}

// glyph names of the Adobe Glyph List with their one-to-one Unicode values
var diffGlyphs = []DiffEnt{{0, "Euro", "€"}, {0, "eacute", "é"}, {0, "adieresis", "ä"}, {0, "ntilde", "ñ"}, {0, "bullet", "•"},
	{0, "quotesingle", "'"}, {0, "grave", "`"}, {0, "endash", "–"}, {0, "emdash", "—"}, {0, "Agrave", "À"}, {0, "ccedilla", "ç"},
	{0, "section", "§"}, {0, "copyright", "©"}, {0, "germandbls", "ß"}, {0, "oe", "œ"}, {0, "AE", "Æ"}, {0, "quoteright", "’"},
	{0, "quotedblleft", "“"}, {0, "Zcaron", "Ž"}, {0, "yen", "¥"}}

// codes a /Differences array may re-assign here: not the letters and digits of the line markers
var diffCodes = []int{0x27, 0x60, 0x7E, 0x5E, 0x80, 0x85, 0x8E, 0x91, 0x96, 0xA1, 0xA7, 0xA9, 0xAA, 0xB1, 0xC4, 0xD0, 0xDF, 0xE1, 0xE9, 0xF1, 0xFA, 0xFC}

// genDiff draws 0-6 re-assigned codes (none: the dictionary only selects the base encoding).
func genDiff(t *rapid.T) []DiffEnt {
	n := rapid.IntRange(0, 6).Draw(t, "nDiff")
	seen := map[int]bool{}
	var d []DiffEnt
	for len(d) < n {
		c := rapid.SampledFrom(diffCodes).Draw(t, "diffCode")
		if seen[c] {
			continue
		}
		seen[c] = true
		g := rapid.SampledFrom(diffGlyphs).Draw(t, "diffGlyph")
		d = append(d, DiffEnt{c, g.Glyph, g.Text})
	}
	sort.Slice(d, func(i, j int) bool { return d[i].Code < d[j].Code })
	return d
}

// Repertoire returns the codes a line in this font is drawn from, with the text each stands for.
func Repertoire(f FontSpec) []MapEnt {
	base := repertoire[EncodingOf(f.Kind)]
	if len(f.Diff) == 0 {
		return base
	}
	over := map[int]string{}
	for _, d := range f.Diff {
		over[d.Code] = d.Text
	}
	var rep []MapEnt
	for _, e := range base {
		if _, ok := over[e.Code]; !ok {
			rep = append(rep, e)
		}
	}
	for _, d := range f.Diff {
		rep = append(rep, MapEnt{d.Code, d.Text}, MapEnt{d.Code, d.Text}) // twice: drawn more often
	}
	return rep
}

func genMap(t *rapid.T, width int) []MapEnt {
	n := rapid.IntRange(3, 40).Draw(t, "mapLen")
	if rapid.IntRange(0, 19).Draw(t, "bigMap") == 0 {
		n = rapid.IntRange(101, 230).Draw(t, "mapLenBig") // more than one bfchar section
	}
	max := 0xFF
	if width == 2 {
		max = 0xFFFF
	}
	seen := map[int]bool{}
	var m []MapEnt
	for len(m) < n {
		c := rapid.IntRange(1, max).Draw(t, "code")
		for seen[c] {
			c = c%max + 1
		}
		seen[c] = true
		var tgt string
		if rapid.IntRange(0, 3).Draw(t, "tgtKind") == 0 {
			// any assigned-looking BMP scalar outside surrogates, controls and RTL blocks
			r := rune(rapid.IntRange(0x00A1, 0x04FF).Draw(t, "bmp"))
			tgt = string(r)
		} else {
			tgt = rapid.SampledFrom(tuTargets).Draw(t, "tgt")
		}
		m = append(m, MapEnt{c, tgt})
	}
	return m
}

// GenLine draws the string of one line from the font's repertoire and gives it a unique marker.
func GenLine(t *rapid.T, fonts []FontSpec, fi int, marker string) (bytes []byte, text string) {
	f := fonts[fi]
	n := rapid.IntRange(1, 12).Draw(t, "lineLen")
	switch f.Kind {
	case "tu1", "tu1bad", "type0":
		for i := 0; i < n; i++ {
			e := f.Map[rapid.IntRange(0, len(f.Map)-1).Draw(t, "ent")]
			if f.Kind == "type0" {
				bytes = append(bytes, byte(e.Code>>8), byte(e.Code))
			} else {
				bytes = append(bytes, byte(e.Code))
			}
			text += e.Text
		}
	default:
		rep := Repertoire(f)
		// the marker (ASCII letters/digits: identical in all three encodings) makes the line unique
		for _, c := range []byte(marker) {
			bytes = append(bytes, c)
			text += string(rune(c))
		}
		for i := 0; i < n; i++ {
			e := rep[rapid.IntRange(0, len(rep)-1).Draw(t, "ent")]
			bytes = append(bytes, byte(e.Code))
			text += e.Text
		}
	}
	return bytes, norm.NFC.String(text)
}

// GenPage draws one page with 1–8 lines at distinct positions at least 20 pt apart.
func GenPage(t *rapid.T, fonts []FontSpec, id int) Page {
	p := Page{ID: id}
	p.MediaBox = rapid.SampledFrom([][4]float64{{0, 0, 612, 792}, {0, 0, 595, 842}, {0, 0, 595.28, 841.89}, {-10, -10, 602, 782}}).Draw(t, "mediabox")
	p.Rotate = rapid.SampledFrom([]int{0, 0, 0, 90, 180, 270}).Draw(t, "rotate")
	n := rapid.IntRange(1, 8).Draw(t, "nLines")
	curFont, curSize := -1, 0.0 // the font in effect outside any q ... Q
	for i := 0; i < n; i++ {
		inherit := curFont >= 0 && rapid.IntRange(0, 3).Draw(t, "inheritFont") == 0
		fi := curFont
		if !inherit {
			fi = rapid.IntRange(0, len(fonts)-1).Draw(t, "font")
		}
		b, txt := GenLine(t, fonts, fi, fmt.Sprintf("p%dl%dx", id, i))
		ln := Line{Font: fi, Bytes: b, Text: txt, Hex: rapid.Bool().Draw(t, "hex"), Inherit: inherit}
		if inherit {
			ln.Size = curSize
		} else {
			ln.Size = rapid.SampledFrom([]float64{8, 10, 12, 12, 14, 9.5}).Draw(t, "size")
			ln.Saved = rapid.IntRange(0, 3).Draw(t, "saved") == 0
			if !ln.Saved {
				curFont, curSize = fi, ln.Size
			}
		}
		ln.X = float64(rapid.IntRange(36, 300).Draw(t, "x"))
		ln.Y = float64(740 - 40*i - rapid.IntRange(0, 15).Draw(t, "dy"))
		p.Lines = append(p.Lines, ln)
	}
	return p
}

// GenDocs draws a base document and 0–3 later revisions (each an edit of the previous one).
func GenDocs(t *rapid.T, maxRev int) []Doc {
	fonts := GenFonts(t)
	np := rapid.IntRange(1, 6).Draw(t, "nPages")
	nextID := 1
	d := Doc{Fonts: fonts}
	for i := 0; i < np; i++ {
		d.Pages = append(d.Pages, GenPage(t, fonts, nextID))
		nextID++
	}
	docs := []Doc{d}
	r := rapid.IntRange(0, maxRev).Draw(t, "revisions")
	for k := 0; k < r; k++ {
		prev := docs[len(docs)-1]
		nd := Doc{Fonts: prev.Fonts, Pages: append([]Page{}, prev.Pages...)}
		edit := rapid.SampledFrom([]string{"replace", "replace", "add", "delete", "insert"}).Draw(t, "edit")
		if edit == "delete" && len(nd.Pages) == 1 {
			edit = "replace"
		}
		switch edit {
		case "replace": // new content for an existing page (same page object, new stream data)
			i := rapid.IntRange(0, len(nd.Pages)-1).Draw(t, "page")
			np := GenPage(t, fonts, nextID)
			nextID++
			np.ID = nd.Pages[i].ID
			// markers keep the fresh id so that old and new text are distinguishable
			nd.Pages[i] = np
		case "add":
			nd.Pages = append(nd.Pages, GenPage(t, fonts, nextID))
			nextID++
		case "insert":
			i := rapid.IntRange(0, len(nd.Pages)-1).Draw(t, "at")
			pg := GenPage(t, fonts, nextID)
			nextID++
			nd.Pages = append(nd.Pages[:i], append([]Page{pg}, nd.Pages[i:]...)...)
		case "delete":
			i := rapid.IntRange(0, len(nd.Pages)-1).Draw(t, "page")
			nd.Pages = append(nd.Pages[:i], nd.Pages[i+1:]...)
		}
		docs = append(docs, nd)
	}
	return docs
}

var filterChains = [][]string{nil, {"FlateDecode"}, {"ASCIIHexDecode"}, {"ASCII85Decode"}, {"ASCII85Decode", "FlateDecode"},
	{"ASCIIHexDecode", "FlateDecode"}, {"Fl"}, {"A85", "Fl"}, {"AHx"}, {"FlateDecode", "FlateDecode"}, {"ASCII85Decode", "ASCIIHexDecode", "FlateDecode"}}

// GenLayout draws the physical layout vector for a file with nRev revisions.
func GenLayout(t *rapid.T, nRev int) Layout {
	var l Layout
	b := func(name string) bool { return rapid.Bool().Draw(t, name) }
	for k := 0; k < nRev; k++ {
		l.XRef = append(l.XRef, rapid.SampledFrom([]string{"table", "stream"}).Draw(t, "xref"))
	}
	l.ObjStm = b("objstm")
	l.ObjStmCount = rapid.IntRange(1, 3).Draw(t, "objstmCount")
	l.ObjStmExtends = b("objstmExtends")
	l.ObjStmKeep = rapid.SampledFrom([]int{0, 0, 2, 3}).Draw(t, "objstmKeep")
	l.ObjStmFlate = b("objstmFlate")
	l.XRefFlate = b("xrefFlate")
	l.XRefPredictor = b("xrefPredictor")
	nf := rapid.IntRange(0, 3).Draw(t, "nFilterChains")
	for i := 0; i < nf; i++ {
		l.Filters = append(l.Filters, rapid.SampledFrom(filterChains).Draw(t, "chain"))
	}
	l.Predictor = b("predictor")
	l.TIFFPred = b("tiffPredictor")
	if l.Predictor && !l.TIFFPred && b("predColors") {
		l.PredColors = rapid.IntRange(2, 4).Draw(t, "colors")
	}
	l.Length = rapid.SampledFrom([]string{"direct", "direct", "before", "after"}).Draw(t, "length")
	l.LengthInObjStm = b("lengthInObjStm")
	l.Split = rapid.IntRange(1, 3).Draw(t, "split")
	l.SplitTight = b("splitTight")
	l.EmptyPart = rapid.IntRange(0, 3).Draw(t, "emptyPart") == 0
	l.ContentsIndirect = b("contentsIndirect")
	l.Pad = rapid.SampledFrom([]int{0, 0, 0, 3000, 4200, 9000, 20000}).Draw(t, "pad")
	l.Depth = rapid.IntRange(1, 4).Draw(t, "depth")
	l.FanOut = rapid.IntRange(1, 3).Draw(t, "fanout")
	l.Unbalanced = rapid.Bool().Draw(t, "unbalanced")
	l.BoxLevel = rapid.IntRange(0, 4).Draw(t, "boxLevel")
	l.ResLevel = rapid.IntRange(0, 4).Draw(t, "resLevel")
	l.RotLevel = rapid.IntRange(0, 4).Draw(t, "rotLevel")
	l.Shadow = b("shadow")
	l.FilterArray1 = b("filterArray1")
	l.ResIndirect = b("resIndirect")
	l.FontDictInd = b("fontDictInd")
	l.CIDInfoInd = b("cidInfoInd")
	l.XRefW3Zero = b("xrefW3Zero")
	l.ToUniFlate = b("toUniFlate")
	l.ReuseFreed = b("reuseFreed")
	l.FreeDeleted = b("freeDeleted")
	if b("permute") {
		l.OrderKeys = rapid.SliceOfN(rapid.IntRange(0, 9), 1, 12).Draw(t, "orderKeys")
		l.NumberKeys = rapid.SliceOfN(rapid.IntRange(0, 9), 1, 12).Draw(t, "numberKeys")
	}
	l.EOL = rapid.SampledFrom([]string{"\n", "\n", "\r\n", "\r"}).Draw(t, "eol")
	l.StreamCRLF = b("streamCRLF")
	l.BinaryComment = b("binaryComment")
	l.Compact = b("compact")
	l.TrailerSameLine = b("trailerSameLine")
	l.Version = rapid.SampledFrom([]string{"1.4", "1.5", "1.7", "2.0"}).Draw(t, "version")
	return l
}

// Knobs lists the layout dimensions in which l differs from the plainest layout
// (the only one the repository's own tests use).
func (l Layout) Knobs(nRev int) []string {
	var k []string
	for i := 0; i < nRev; i++ {
		if l.xrefKind(i) == "stream" {
			k = append(k, "xref-stream")
			if l.ObjStm {
				k = append(k, "objstm")
			}
			break
		}
	}
	if nRev > 1 {
		k = append(k, "incremental")
	}
	for _, c := range l.Filters {
		if len(c) > 0 {
			k = append(k, "filter")
			break
		}
	}
	if l.Length == "before" || l.Length == "after" {
		k = append(k, "indirect-length")
	}
	if l.EmptyPart {
		k = append(k, "empty-part")
	}
	if l.Unbalanced && l.Depth > 1 {
		k = append(k, "unbalanced-tree")
	}
	if l.Split > 1 {
		k = append(k, "split")
	}
	if l.Pad > 4000 {
		k = append(k, "long-stream")
	}
	if l.Depth > 1 {
		k = append(k, "deep-tree")
	}
	if l.BoxLevel > 0 || l.ResLevel > 0 || l.RotLevel > 0 {
		k = append(k, "inherit")
	}
	if l.EOL == "\r\n" || l.EOL == "\r" {
		k = append(k, "eol")
	}
	if len(l.OrderKeys) > 0 {
		k = append(k, "permuted")
	}
	return k
}
