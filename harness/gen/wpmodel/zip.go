package wpmodel

import (
	"archive/zip"
	"bytes"
	"hash/crc32"
)

// Member is one ZIP member of a package. The order of a []Member is the order
// of the local file headers and of the central directory.
type Member struct {
	Name  string `json:"name"`
	Data  []byte `json:"data"`
	Store bool   `json:"store,omitempty"` // true: method 0 (stored); false: method 8 (deflate)
}

// Zip writes the members in the given order. Names ending in "/" become
// directory entries. Timestamps are left at the ZIP epoch so that equal input
// gives equal bytes.
func Zip(members []Member) ([]byte, error) {
	var buf bytes.Buffer
	zw := zip.NewWriter(&buf)
	for _, m := range members {
		if m.Store || len(m.Data) == 0 {
			// stored members are written "raw": sizes and CRC in the local header,
			// no data descriptor and no extra field - the form ODF 1.2 part 3 §3.3
			// requires for the leading "mimetype" member
			h := &zip.FileHeader{Name: m.Name, Method: zip.Store,
				CRC32: crc32.ChecksumIEEE(m.Data), CompressedSize64: uint64(len(m.Data)), UncompressedSize64: uint64(len(m.Data))}
			w, err := zw.CreateRaw(h)
			if err != nil {
				return nil, err
			}
			if _, err := w.Write(m.Data); err != nil {
				return nil, err
			}
			continue
		}
		w, err := zw.CreateHeader(&zip.FileHeader{Name: m.Name, Method: zip.Deflate})
		if err != nil {
			return nil, err
		}
		if _, err := w.Write(m.Data); err != nil {
			return nil, err
		}
	}
	if err := zw.Close(); err != nil {
		return nil, err
	}
	return buf.Bytes(), nil
}

// Permute returns members reordered by perm: result[i] = members[perm[i]].
// Indices outside the slice and duplicates are skipped; members not mentioned
// are appended in their original order, so any []int is acceptable.
func Permute(members []Member, perm []int) []Member {
	used := make([]bool, len(members))
	out := make([]Member, 0, len(members))
	for _, p := range perm {
		if p >= 0 && p < len(members) && !used[p] {
			used[p] = true
			out = append(out, members[p])
		}
	}
	for i, m := range members {
		if !used[i] {
			out = append(out, m)
		}
	}
	return out
}
