package wpmodel

import (
	"fmt"

	"pgregory.net/rapid"
)

// GenOpts restricts GenDoc. The zero value generates every feature class.
type GenOpts struct {
	MaxBlocks int      // upper bound of body block groups (default 7)
	Hows      []string // heading mechanisms to choose from (default: all)
	Wraps     []string // inline containers to choose from (default: none)
	Inline    []string // inline kinds besides text to choose from (default: tab, br, sym, sp)
	MaxLevel  int      // highest heading level (default 9)

	NoHeadings       bool
	NoLists          bool
	NoTables         bool
	NoMerges         bool // tables without spans
	NoMultiPara      bool // every cell has exactly one paragraph
	NoCellInline     bool // cell paragraphs hold text items only
	NoLevelJumps     bool // lists start at depth 0 and deepen by at most one level per item
	NoMixedLists     bool // all levels of a list definition are ordered, or all are bullets
	NoHeaderFooter   bool
	NoHeaderRows     bool
	NoEmptyParas     bool
	NoStyledRuns     bool
	NoAdjacentBreaks bool // never two line breaks with nothing but blanks and tabs between them
	NoEdgeWhite      bool // the first and last inline item of every paragraph is a text token or symbol

	NumberedHeadings bool // some headings carry list numbering (numbered headings)
	NumOff           bool // some paragraphs and headings carry numPr with numId 0 (numbering removed)
}

// AllHows lists every heading mechanism.
var AllHows = []string{HowBuiltin, HowLocalized, HowCustom, HowBased, HowBased2, HowDirect, HowOverride}

// AllListKinds lists the per-level list kinds.
var AllListKinds = []string{LBullet, LDecimal, LLowerLetter, LUpperLetter, LLowerRoman, LUpperRoman}

// Symbols drawn for KSym items: BMP, outside the private use area, no
// Markdown meaning, present in common Unicode fonts.
// (three of them above U+7FFF: w:char is a four-digit hexadecimal number, ST_ShortHexNumber, up to FFFF)
var Symbols = []string{"→", "★", "✓", "©", "§", "€", "Ω", "±", "＋", "￥", "가"}

type genState struct {
	t    *rapid.T
	o    GenOpts
	next int
	pfx  string
}

func (g *genState) token() string {
	g.next++
	return fmt.Sprintf("%s%04d", g.pfx, g.next)
}

// Token prefixes: every body text leaf is "Tq" + 4 digits, header leaves "Hq…",
// footer leaves "Fq…". Fixed width: no token is a substring of another.
const (
	BodyPrefix   = "Tq"
	HeaderPrefix = "Hq"
	FooterPrefix = "Fq"
)

// GenDoc draws a document. Every text leaf is a fresh token, so an oracle can
// locate each leaf in any output.
func GenDoc(t *rapid.T, o GenOpts) Doc {
	if o.MaxBlocks <= 0 {
		o.MaxBlocks = 7
	}
	if len(o.Hows) == 0 {
		o.Hows = AllHows
	}
	if o.Inline == nil {
		o.Inline = []string{KTab, KBreak, KSym, KSpace}
	}
	if o.MaxLevel <= 0 || o.MaxLevel > 9 {
		o.MaxLevel = 9
	}
	g := &genState{t: t, o: o, pfx: BodyPrefix}
	var d Doc

	// numbering definitions (DOCX: abstractNum/num, ODT: text:list-style)
	if !o.NoLists {
		n := rapid.IntRange(1, 3).Draw(t, "nlists")
		for i := 0; i < n; i++ {
			d.Lists = append(d.Lists, g.listDef(i))
		}
	}

	kinds := []string{BPara, BPara}
	if !o.NoHeadings {
		kinds = append(kinds, BHeading, BHeading)
	}
	if !o.NoLists {
		kinds = append(kinds, BItem)
	}
	if !o.NoTables {
		kinds = append(kinds, BTable, BTable)
	}
	ngroups := rapid.IntRange(1, o.MaxBlocks).Draw(t, "ngroups")
	for i := 0; i < ngroups; i++ {
		switch rapid.SampledFrom(kinds).Draw(t, "kind") {
		case BPara:
			b := Block{Kind: BPara}
			if o.NoEmptyParas || rapid.IntRange(0, 9).Draw(t, "empty") < 9 {
				b.Runs = g.para(false, 3)
			}
			b.Style = rapid.SampledFrom([]string{"", "", "body", "quote", "lead"}).Draw(t, "pstyle")
			if o.NumOff && len(b.Runs) > 0 && rapid.IntRange(0, 4).Draw(t, "numOff") == 0 {
				b.NumOff = true
			}
			d.Blocks = append(d.Blocks, b)
		case BHeading:
			h := Block{
				Kind:  BHeading,
				Level: g.level(),
				How:   rapid.SampledFrom(o.Hows).Draw(t, "how"),
				Runs:  g.para(false, 2),
			}
			if o.NumberedHeadings && len(d.Lists) > 0 && rapid.IntRange(0, 3).Draw(t, "numberedHeading") == 0 {
				h.Numbered = true
				h.List = rapid.IntRange(0, len(d.Lists)-1).Draw(t, "headingList")
				h.Depth = rapid.IntRange(0, len(d.Lists[h.List].Kinds)-1).Draw(t, "headingListLevel")
			} else if o.NumOff && rapid.IntRange(0, 4).Draw(t, "numOffHeading") == 0 {
				h.NumOff = true
			}
			d.Blocks = append(d.Blocks, h)
		case BItem:
			list := rapid.IntRange(0, len(d.Lists)-1).Draw(t, "list")
			n := rapid.IntRange(1, 5).Draw(t, "nitems")
			prev := -1
			maxDepth := len(d.Lists[list].Kinds) - 1
			for k := 0; k < n; k++ {
				hi := maxDepth
				if o.NoLevelJumps && prev+1 < hi {
					hi = prev + 1
				}
				depth := rapid.IntRange(0, hi).Draw(t, "depth")
				prev = depth
				d.Blocks = append(d.Blocks, Block{Kind: BItem, List: list, Depth: depth, Runs: g.para(false, 2)})
			}
		case BTable:
			d.Blocks = append(d.Blocks, Block{Kind: BTable, Table: g.table()})
		}
	}

	if !o.NoHeaderFooter {
		if rapid.Bool().Draw(t, "header") {
			g.pfx, g.next = HeaderPrefix, 0
			d.Header = g.marginal()
		}
		if rapid.Bool().Draw(t, "footer") {
			g.pfx, g.next = FooterPrefix, 0
			d.Footer = g.marginal()
		}
	}
	if rapid.Bool().Draw(t, "meta") {
		d.Meta = &Meta{Title: "Generated title", Author: "Generated author"}
	}
	return d
}

func (g *genState) level() int {
	// levels 1-6 are the common ones; 7-9 exist in both formats
	if g.o.MaxLevel > 6 && rapid.IntRange(0, 5).Draw(g.t, "deep") == 5 {
		return rapid.IntRange(7, g.o.MaxLevel).Draw(g.t, "level")
	}
	hi := g.o.MaxLevel
	if hi > 6 {
		hi = 6
	}
	return rapid.IntRange(1, hi).Draw(g.t, "level")
}

func (g *genState) listDef(i int) ListDef {
	t := g.t
	var ld ListDef
	uniform := g.o.NoMixedLists || rapid.IntRange(0, 2).Draw(t, "mixed") < 2
	// bullets are half of all lists; the five numbered kinds share the rest
	pick := func() string {
		if rapid.Bool().Draw(t, "numbered") {
			return rapid.SampledFrom(AllListKinds[1:]).Draw(t, "lkind")
		}
		return LBullet
	}
	first := pick()
	for lvl := 0; lvl < 4; lvl++ {
		k := first
		if lvl > 0 {
			k = pick()
			if uniform && Ordered(k) != Ordered(first) {
				if Ordered(first) {
					k = LDecimal
				} else {
					k = LBullet
				}
			}
		}
		ld.Kinds = append(ld.Kinds, k)
	}
	return ld
}

// marginal draws the paragraphs of a header or footer part.
func (g *genState) marginal() []Para {
	n := rapid.IntRange(1, 2).Draw(g.t, "nmarg")
	out := make([]Para, 0, n)
	for i := 0; i < n; i++ {
		out = append(out, g.para(true, 2))
	}
	return out
}

// para draws the inline content of a non-empty paragraph with at least one
// text token. plain: text items only.
func (g *genState) para(plain bool, maxRuns int) Para {
	t := g.t
	o := g.o
	nruns := rapid.IntRange(1, maxRuns).Draw(t, "nruns")
	var p Para
	hasText := false
	lastBreak := false // last non-blank item was a break
	for r := 0; r < nruns; r++ {
		var run Run
		nitems := rapid.IntRange(1, 3).Draw(t, "nitems")
		for i := 0; i < nitems; i++ {
			kind := KText
			if !plain && len(o.Inline) > 0 && rapid.IntRange(0, 9).Draw(t, "ikind") >= 5 {
				kind = rapid.SampledFrom(o.Inline).Draw(t, "inline")
			}
			if kind == KBreak && lastBreak && o.NoAdjacentBreaks {
				kind = KText
			}
			it := Inline{Kind: kind}
			switch kind {
			case KText:
				lead := ""
				trail := ""
				if !plain {
					switch rapid.IntRange(0, 5).Draw(t, "blank") {
					case 4:
						lead = " "
					case 5:
						trail = " "
					}
				}
				it.Text = lead + g.token() + trail
				hasText = true
				lastBreak = false
			case KSym:
				it.Text = rapid.SampledFrom(Symbols).Draw(t, "sym")
				lastBreak = false
			case KSpace:
				it.N = rapid.IntRange(1, 3).Draw(t, "nsp")
			case KBreak:
				lastBreak = true
			case KTab:
				// a tab leaves lastBreak unchanged: a line holding only blanks and
				// tabs is a blank line for NoAdjacentBreaks
			}
			run.Items = append(run.Items, it)
		}
		if !o.NoStyledRuns {
			run.Styled = rapid.Bool().Draw(t, "styled")
		}
		if !plain && len(o.Wraps) > 0 && rapid.IntRange(0, 3).Draw(t, "wrapped") == 3 {
			run.Wrap = rapid.SampledFrom(o.Wraps).Draw(t, "wrap")
			if run.Wrap == WNest {
				run.Styled = true
			}
		}
		p = append(p, run)
	}
	if !hasText {
		p = append(p, Run{Items: []Inline{{Kind: KText, Text: g.token()}}})
	}
	if o.NoEdgeWhite {
		first := &p[0]
		if k := first.Items[0].Kind; k != KText && k != KSym {
			first.Items = append([]Inline{{Kind: KText, Text: g.token()}}, first.Items...)
		} else if k == KText && first.Items[0].Text[0] == ' ' {
			first.Items[0].Text = first.Items[0].Text[1:]
		}
		last := &p[len(p)-1]
		li := len(last.Items) - 1
		if k := last.Items[li].Kind; k != KText && k != KSym {
			last.Items = append(last.Items, Inline{Kind: KText, Text: g.token()})
		} else if s := last.Items[li].Text; k == KText && s[len(s)-1] == ' ' {
			last.Items[li].Text = s[:len(s)-1]
		}
	}
	return p
}

// table draws a grid and tiles it with anchor cells.
func (g *genState) table() *Table {
	t := g.t
	o := g.o
	tb := &Table{Rows: rapid.IntRange(1, 5).Draw(t, "rows"), Cols: rapid.IntRange(1, 5).Draw(t, "cols")}
	owner := make([][]int, tb.Rows) // 0 = free unit cell, k>0 = merge number k
	for r := range owner {
		owner[r] = make([]int, tb.Cols)
	}
	type rect struct{ r, c, rs, cs int }
	var merges []rect
	if !o.NoMerges && tb.Rows*tb.Cols > 1 {
		attempts := rapid.IntRange(0, 3).Draw(t, "merges")
		for a := 0; a < attempts; a++ {
			r := rapid.IntRange(0, tb.Rows-1).Draw(t, "mr")
			c := rapid.IntRange(0, tb.Cols-1).Draw(t, "mc")
			rs := rapid.IntRange(1, min(3, tb.Rows-r)).Draw(t, "mrs")
			cs := rapid.IntRange(1, min(3, tb.Cols-c)).Draw(t, "mcs")
			if rs*cs == 1 {
				continue
			}
			free := true
			for i := r; i < r+rs; i++ {
				for j := c; j < c+cs; j++ {
					if owner[i][j] != 0 {
						free = false
					}
				}
			}
			if !free {
				continue
			}
			merges = append(merges, rect{r, c, rs, cs})
			for i := r; i < r+rs; i++ {
				for j := c; j < c+cs; j++ {
					owner[i][j] = len(merges)
				}
			}
		}
	}
	for r := 0; r < tb.Rows; r++ {
		for c := 0; c < tb.Cols; c++ {
			cell := Cell{R: r, C: c, RS: 1, CS: 1}
			if k := owner[r][c]; k > 0 {
				m := merges[k-1]
				if m.r != r || m.c != c {
					continue // covered
				}
				cell.RS, cell.CS = m.rs, m.cs
			}
			np := 1
			if !o.NoMultiPara && rapid.IntRange(0, 3).Draw(t, "multi") == 3 {
				np = rapid.IntRange(2, 3).Draw(t, "nparas")
			}
			for k := 0; k < np; k++ {
				if np == 1 && rapid.IntRange(0, 7).Draw(t, "emptycell") == 7 {
					cell.Paras = append(cell.Paras, nil) // empty cell: one empty paragraph
					continue
				}
				cell.Paras = append(cell.Paras, g.para(o.NoCellInline, 2))
			}
			tb.Cells = append(tb.Cells, cell)
		}
	}
	if !o.NoHeaderRows && tb.Rows > 1 && rapid.IntRange(0, 3).Draw(t, "hdrrows") == 3 {
		// a header block must not cut a vertical merge
		h := 1
		ok := true
		for _, c := range tb.Cells {
			if c.R < h && c.R+c.RS > h {
				ok = false
			}
		}
		if ok {
			tb.HeaderRows = h
		}
	}
	return tb
}
