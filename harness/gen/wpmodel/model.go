// Package wpmodel is the logical (format independent) model of a
// word-processor document used by the independent DOCX and ODT writers
// (gen/docxw, gen/odtw) and by the checks that need such documents
// (C16 first; C02, C03, C11, C15, C20 reuse it).
//
// The model describes WHAT the document says - a sequence of blocks with their
// inline content - and nothing about HOW it is spelled in a package; the
// physical choices (ZIP member order, namespace prefixes, self-closing forms…)
// are the Options of each writer.
//
// The model is plain data and JSON-serialisable so a whole Doc can live in a
// replay file. It shares nothing with tabula.
package wpmodel

import (
	"fmt"
	"strings"
)

// Inline item kinds.
const (
	KText  = "text" // Text: the characters (a unique token, possibly with one leading/trailing blank)
	KTab   = "tab"  // a tab stop            (DOCX w:tab, ODT text:tab)            -> "\t"
	KBreak = "br"   // a line break          (DOCX w:br,  ODT text:line-break)     -> "\n"
	KSym   = "sym"  // Text: exactly one rune (DOCX w:sym with a Unicode font, ODT: the literal character)
	KSpace = "sp"   // N >= 1 blanks          (DOCX w:t xml:space=preserve, ODT text:s text:c=N)
)

// Inline is one inline item of a run.
type Inline struct {
	Kind string `json:"k"`
	Text string `json:"t,omitempty"`
	N    int    `json:"n,omitempty"`
}

// Inline container kinds (Run.Wrap). A container wraps the whole run.
const (
	WLink  = "link"  // DOCX w:hyperlink (ECMA-376 17.16.22), ODT text:a (ODF 1.2 6.1.8)
	WIns   = "ins"   // DOCX w:ins tracked insertion (17.13.5.18); ODT: not a container -> written plain
	WSdt   = "sdt"   // DOCX inline w:sdt/w:sdtContent content control (17.5.2.31); ODT: written plain
	WSmart = "smart" // DOCX w:smartTag (17.5.1.9); ODT: written plain
	WNest  = "nest"  // ODT text:span inside text:span (6.1.7); DOCX: written plain
)

// Run is a formatting run: DOCX w:r; ODT either direct paragraph content
// (Styled=false) or a text:span (Styled=true).
type Run struct {
	Items  []Inline `json:"items"`
	Styled bool     `json:"styled,omitempty"` // DOCX: the run carries w:rPr direct formatting; ODT: wrapped in text:span
	Wrap   string   `json:"wrap,omitempty"`   // inline container around the run ("" = none)
}

// Para is the inline content of one paragraph.
type Para []Run

// Heading "how" values: the mechanism that makes the paragraph a heading.
const (
	HowBuiltin   = "builtin"   // DOCX pStyle HeadingN (style "heading N", outlineLvl N-1); ODT text:h + style Heading_20_N
	HowLocalized = "localized" // DOCX built-in style of a localised Word: styleId "berschriftN", w:name "heading N"; ODT = builtin
	HowCustom    = "custom"    // custom style carrying the outline level itself
	HowBased     = "based"     // custom style that only inherits from a heading style (DOCX basedOn, ODT parent-style-name)
	HowBased2    = "based2"    // two inheritance steps
	HowDirect    = "direct"    // no style: DOCX direct w:outlineLvl in w:pPr; ODT text:h without style-name
	HowOverride  = "override"  // DOCX: style based on HeadingM that sets its own outlineLvl N-1; ODT: text:h outline-level N with a style whose default-outline-level is M != N
)

// Block kinds.
const (
	BPara    = "para"
	BHeading = "heading"
	BItem    = "item"
	BTable   = "table"
)

// Block is one body-level element.
type Block struct {
	Kind  string `json:"kind"`
	Runs  Para   `json:"runs,omitempty"`  // para, heading, item
	Level int    `json:"level,omitempty"` // heading: 1..9
	How   string `json:"how,omitempty"`   // heading
	Style string `json:"style,omitempty"` // para: optional non-heading paragraph style ("" | "body" | "quote" | "lead": DOCX style that inherits bold 16 pt and switches bold off)
	List  int    `json:"list,omitempty"`  // item: index into Doc.Lists
	Depth int    `json:"depth,omitempty"` // item: 0-based nesting depth
	Table *Table `json:"table,omitempty"`
	// Numbered (heading, DOCX): the heading paragraph also carries the numbering of list List at level Depth
	// ("1.2 Scope"); it is a heading all the same
	Numbered bool `json:"numbered,omitempty"`
	// NumOff (paragraph or heading that is not Numbered, DOCX): the paragraph carries <w:numPr> with numId 0, which
	// removes numbering (17.9.18: 0 never names a numbering definition); it is no list item
	NumOff bool `json:"num_off,omitempty"`
}

// List kinds (per level).
const (
	LBullet      = "bullet"
	LDecimal     = "decimal"
	LLowerLetter = "lowerLetter"
	LUpperLetter = "upperLetter"
	LLowerRoman  = "lowerRoman"
	LUpperRoman  = "upperRoman"
)

// Ordered reports whether a list kind numbers its items.
func Ordered(kind string) bool { return kind != LBullet }

// ListDef is one numbering definition: the kind of every level (0-based).
type ListDef struct {
	Kinds []string `json:"kinds"`
}

// Cell is an anchor cell of a table: it occupies rows R..R+RS-1 and columns
// C..C+CS-1. The anchor cells of a table tile its grid exactly.
type Cell struct {
	R     int    `json:"r"`
	C     int    `json:"c"`
	RS    int    `json:"rs"`
	CS    int    `json:"cs"`
	Paras []Para `json:"paras"` // >= 1 paragraph (DOCX requires one, ECMA-376 17.4.66); may be empty paragraphs
}

// Table is a Rows x Cols grid tiled by anchor cells (row-major order of their
// top-left corner).
type Table struct {
	Rows       int    `json:"rows"`
	Cols       int    `json:"cols"`
	Cells      []Cell `json:"cells"`
	HeaderRows int    `json:"header_rows,omitempty"` // leading rows marked as repeating header rows
}

// Meta is the optional document metadata part.
type Meta struct {
	Title  string `json:"title,omitempty"`
	Author string `json:"author,omitempty"`
}

// Doc is a whole document.
type Doc struct {
	Blocks []Block   `json:"blocks"`
	Lists  []ListDef `json:"lists,omitempty"`
	Header []Para    `json:"header,omitempty"` // nil = no header part
	Footer []Para    `json:"footer,omitempty"` // nil = no footer part
	Meta   *Meta     `json:"meta,omitempty"`
}

// ---------------------------------------------------------------------------
// derived views used by oracles

// String is the text a paragraph denotes: text verbatim, tab -> "\t",
// break -> "\n", symbol -> its rune, space item -> N blanks.
func (p Para) String() string {
	var sb strings.Builder
	for _, r := range p {
		for _, it := range r.Items {
			sb.WriteString(it.String())
		}
	}
	return sb.String()
}

func (it Inline) String() string {
	switch it.Kind {
	case KText, KSym:
		return it.Text
	case KTab:
		return "\t"
	case KBreak:
		return "\n"
	case KSpace:
		return strings.Repeat(" ", it.N)
	}
	return ""
}

// Kinds returns the set of inline kinds used in the paragraph.
func (p Para) Kinds() map[string]bool {
	m := map[string]bool{}
	for _, r := range p {
		for _, it := range r.Items {
			m[it.Kind] = true
		}
	}
	return m
}

// Wraps returns the set of inline containers used in the paragraph.
func (p Para) Wraps() map[string]bool {
	m := map[string]bool{}
	for _, r := range p {
		if r.Wrap != "" {
			m[r.Wrap] = true
		}
	}
	return m
}

// Text of a cell: its paragraphs joined by sep.
func (c Cell) Text(sep string) string {
	parts := make([]string, 0, len(c.Paras))
	for _, p := range c.Paras {
		parts = append(parts, p.String())
	}
	return strings.Join(parts, sep)
}

// Anchor returns the grid of anchor indices: Anchor()[r][c] is the index in
// t.Cells of the cell covering (r,c).
func (t *Table) Anchor() [][]int {
	g := make([][]int, t.Rows)
	for r := range g {
		g[r] = make([]int, t.Cols)
		for c := range g[r] {
			g[r][c] = -1
		}
	}
	for i, cell := range t.Cells {
		for r := cell.R; r < cell.R+cell.RS && r < t.Rows; r++ {
			for c := cell.C; c < cell.C+cell.CS && c < t.Cols; c++ {
				if r >= 0 && c >= 0 {
					g[r][c] = i
				}
			}
		}
	}
	return g
}

// AllParas calls f for every paragraph of the body in document order
// (table cells in row-major anchor order).
func (d *Doc) AllParas(f func(p Para)) {
	for _, b := range d.Blocks {
		if b.Kind == BTable {
			for _, c := range b.Table.Cells {
				for _, p := range c.Paras {
					f(p)
				}
			}
		} else {
			f(b.Runs)
		}
	}
}

// Validate checks the structural invariants the writers rely on.
func (d *Doc) Validate() error {
	checkPara := func(where string, p Para) error {
		for _, r := range p {
			switch r.Wrap {
			case "", WLink, WIns, WSdt, WSmart, WNest:
			default:
				return fmt.Errorf("%s: unknown wrap %q", where, r.Wrap)
			}
			for _, it := range r.Items {
				switch it.Kind {
				case KText:
					if it.Text == "" {
						return fmt.Errorf("%s: empty text item", where)
					}
				case KSym:
					if len([]rune(it.Text)) != 1 {
						return fmt.Errorf("%s: symbol must be one rune", where)
					}
				case KSpace:
					if it.N < 1 {
						return fmt.Errorf("%s: space item with N<1", where)
					}
				case KTab, KBreak:
				default:
					return fmt.Errorf("%s: unknown inline kind %q", where, it.Kind)
				}
			}
		}
		return nil
	}
	for i, b := range d.Blocks {
		where := fmt.Sprintf("block %d", i)
		switch b.Kind {
		case BPara:
		case BHeading:
			if b.Level < 1 || b.Level > 9 {
				return fmt.Errorf("%s: heading level %d", where, b.Level)
			}
			if b.Numbered && (b.List < 0 || b.List >= len(d.Lists) || b.Depth < 0 || b.Depth >= len(d.Lists[b.List].Kinds)) {
				return fmt.Errorf("%s: numbered heading without a list level", where)
			}
		case BItem:
			if b.List < 0 || b.List >= len(d.Lists) {
				return fmt.Errorf("%s: list index %d", where, b.List)
			}
			if b.Depth < 0 || b.Depth >= len(d.Lists[b.List].Kinds) {
				return fmt.Errorf("%s: depth %d outside list definition", where, b.Depth)
			}
		case BTable:
			t := b.Table
			if t == nil || t.Rows < 1 || t.Cols < 1 {
				return fmt.Errorf("%s: bad table", where)
			}
			cover := make([]int, t.Rows*t.Cols)
			for _, c := range t.Cells {
				if c.RS < 1 || c.CS < 1 || c.R < 0 || c.C < 0 || c.R+c.RS > t.Rows || c.C+c.CS > t.Cols {
					return fmt.Errorf("%s: cell outside grid", where)
				}
				if len(c.Paras) < 1 {
					return fmt.Errorf("%s: cell without paragraph", where)
				}
				for r := c.R; r < c.R+c.RS; r++ {
					for cc := c.C; cc < c.C+c.CS; cc++ {
						cover[r*t.Cols+cc]++
					}
				}
				for _, p := range c.Paras {
					if err := checkPara(where, p); err != nil {
						return err
					}
				}
			}
			for _, n := range cover {
				if n != 1 {
					return fmt.Errorf("%s: anchor cells do not tile the grid", where)
				}
			}
			for k := 1; k < len(t.Cells); k++ {
				a, c := t.Cells[k-1], t.Cells[k]
				if a.R > c.R || (a.R == c.R && a.C >= c.C) {
					return fmt.Errorf("%s: cells not in row-major order", where)
				}
			}
			if t.HeaderRows < 0 || t.HeaderRows > t.Rows {
				return fmt.Errorf("%s: header rows", where)
			}
			continue
		default:
			return fmt.Errorf("%s: unknown kind %q", where, b.Kind)
		}
		if err := checkPara(where, b.Runs); err != nil {
			return err
		}
	}
	for _, hp := range [][]Para{d.Header, d.Footer} {
		for _, p := range hp {
			if err := checkPara("header/footer", p); err != nil {
				return err
			}
		}
	}
	return nil
}
