package wpmodel

import (
	"fmt"
	"strings"
)

// XMLStyle holds the spelling choices shared by the XML writers. Every choice
// is neutral for a conforming XML 1.0 processor.
type XMLStyle struct {
	Decl        string `json:"decl,omitempty"`         // "" = <?xml version="1.0" encoding="UTF-8" standalone="yes"?>, "short" = without standalone, "none" = no declaration (XML 1.0 §2.8: optional)
	ExplicitEnd bool   `json:"explicit_end,omitempty"` // <a></a> instead of <a/> (XML 1.0 §3.1: equivalent)
	AttrReverse bool   `json:"attr_reverse,omitempty"` // attributes in reverse order (XML 1.0 §3.1: order not significant)
	SingleQuote bool   `json:"single_quote,omitempty"` // attribute values in '…' (XML 1.0 §2.3 AttValue)
	Pretty      bool   `json:"pretty,omitempty"`       // newline + indentation between elements of element-only content
	CharRefs    bool   `json:"char_refs,omitempty"`    // the first character of every text node as &#xHH; (XML 1.0 §4.1)
}

// XW is a minimal XML writer honouring an XMLStyle. Element and attribute
// names are written as given (prefix handling is the caller's business).
type XW struct {
	sb    strings.Builder
	st    XMLStyle
	depth int
}

// NewXW starts a document (writes the XML declaration).
func NewXW(st XMLStyle) *XW {
	x := &XW{st: st}
	switch st.Decl {
	case "none":
	case "short":
		x.sb.WriteString(`<?xml version="1.0" encoding="UTF-8"?>`)
		x.sb.WriteString("\n")
	default:
		x.sb.WriteString(`<?xml version="1.0" encoding="UTF-8" standalone="yes"?>`)
		x.sb.WriteString("\n")
	}
	return x
}

func escAttr(s string, q byte) string {
	var sb strings.Builder
	for _, r := range s {
		switch r {
		case '&':
			sb.WriteString("&amp;")
		case '<':
			sb.WriteString("&lt;")
		case '"':
			if q == '"' {
				sb.WriteString("&quot;")
			} else {
				sb.WriteRune(r)
			}
		case '\'':
			if q == '\'' {
				sb.WriteString("&apos;")
			} else {
				sb.WriteRune(r)
			}
		case '\t':
			sb.WriteString("&#9;")
		case '\n':
			sb.WriteString("&#10;")
		default:
			sb.WriteRune(r)
		}
	}
	return sb.String()
}

func (x *XW) attrs(kv []string) {
	if len(kv)%2 != 0 {
		panic("XW: odd attribute list")
	}
	n := len(kv) / 2
	q := byte('"')
	if x.st.SingleQuote {
		q = '\''
	}
	for i := 0; i < n; i++ {
		j := i
		if x.st.AttrReverse {
			j = n - 1 - i
		}
		x.sb.WriteByte(' ')
		x.sb.WriteString(kv[2*j])
		x.sb.WriteByte('=')
		x.sb.WriteByte(q)
		x.sb.WriteString(escAttr(kv[2*j+1], q))
		x.sb.WriteByte(q)
	}
}

func (x *XW) indent() {
	if x.st.Pretty {
		x.sb.WriteByte('\n')
		x.sb.WriteString(strings.Repeat("  ", x.depth))
	}
}

// Open writes a start tag. Use only where the parent has element-only content
// (indentation may be inserted before it); inside mixed content use OpenInline.
func (x *XW) Open(name string, kv ...string) {
	x.indent()
	x.OpenInline(name, kv...)
}

// OpenInline writes a start tag without any surrounding white space.
func (x *XW) OpenInline(name string, kv ...string) {
	x.sb.WriteByte('<')
	x.sb.WriteString(name)
	x.attrs(kv)
	x.sb.WriteByte('>')
	x.depth++
}

// Close writes an end tag preceded by indentation (element-only content).
func (x *XW) Close(name string) {
	x.depth--
	x.indent()
	x.sb.WriteString("</" + name + ">")
}

// CloseInline writes an end tag without white space (after text content).
func (x *XW) CloseInline(name string) {
	x.depth--
	x.sb.WriteString("</" + name + ">")
}

// Empty writes an empty element in element-only content.
func (x *XW) Empty(name string, kv ...string) {
	x.indent()
	x.EmptyInline(name, kv...)
}

// EmptyInline writes an empty element without surrounding white space.
func (x *XW) EmptyInline(name string, kv ...string) {
	x.sb.WriteByte('<')
	x.sb.WriteString(name)
	x.attrs(kv)
	if x.st.ExplicitEnd {
		x.sb.WriteString("></" + name + ">")
	} else {
		x.sb.WriteString("/>")
	}
}

// Text writes character data.
func (x *XW) Text(s string) {
	first := true
	for _, r := range s {
		switch {
		case first && x.st.CharRefs && r != ' ':
			fmt.Fprintf(&x.sb, "&#x%X;", r)
		case r == '&':
			x.sb.WriteString("&amp;")
		case r == '<':
			x.sb.WriteString("&lt;")
		case r == '>':
			x.sb.WriteString("&gt;")
		default:
			x.sb.WriteRune(r)
		}
		first = false
	}
}

// Leaf writes <name attrs>text</name> as one unit in element-only content.
func (x *XW) Leaf(name, text string, kv ...string) {
	x.indent()
	x.OpenInline(name, kv...)
	x.Text(text)
	x.CloseInline(name)
}

// Raw appends s verbatim.
func (x *XW) Raw(s string) { x.sb.WriteString(s) }

// Bytes returns the document.
func (x *XW) Bytes() []byte { return []byte(x.sb.String()) }
