package wpmodel

import (
	"bytes"
	"encoding/xml"
	"io"
)

// Node is an element of a small namespace-resolved DOM used to read generated
// packages back (writer unit tests, independent inverses in checks).
type Node struct {
	Space, Local string
	Attr         map[string]string // key: "{namespace}local" or "local" for attributes in no namespace
	Kids         []*Node           // element children and text nodes in document order
	Text         string            // for text nodes (Local == "")
}

// IsText reports whether n is a character-data node.
func (n *Node) IsText() bool { return n.Local == "" }

// A returns the attribute with the given namespace and local name.
func (n *Node) A(space, local string) string {
	if space == "" {
		return n.Attr[local]
	}
	return n.Attr["{"+space+"}"+local]
}

// Has reports whether the attribute is present.
func (n *Node) Has(space, local string) bool {
	k := local
	if space != "" {
		k = "{" + space + "}" + local
	}
	_, ok := n.Attr[k]
	return ok
}

// Elems returns the element children, optionally filtered by local name.
func (n *Node) Elems(local ...string) []*Node {
	var out []*Node
	for _, k := range n.Kids {
		if k.IsText() {
			continue
		}
		if len(local) == 0 {
			out = append(out, k)
			continue
		}
		for _, l := range local {
			if k.Local == l {
				out = append(out, k)
				break
			}
		}
	}
	return out
}

// First returns the first element child with the local name, or nil.
func (n *Node) First(local string) *Node {
	if n == nil {
		return nil
	}
	for _, k := range n.Kids {
		if k.Local == local {
			return k
		}
	}
	return nil
}

// Path descends through First for every name.
func (n *Node) Path(locals ...string) *Node {
	cur := n
	for _, l := range locals {
		cur = cur.First(l)
		if cur == nil {
			return nil
		}
	}
	return cur
}

// CharData concatenates the direct text children.
func (n *Node) CharData() string {
	var b bytes.Buffer
	for _, k := range n.Kids {
		if k.IsText() {
			b.WriteString(k.Text)
		}
	}
	return b.String()
}

// ParseXML reads a document into a DOM (strict encoding/xml decoder: a
// document that is not well-formed is an error).
func ParseXML(data []byte) (*Node, error) {
	dec := xml.NewDecoder(bytes.NewReader(data))
	root := &Node{Local: "#document"}
	stack := []*Node{root}
	for {
		tok, err := dec.Token()
		if err == io.EOF {
			break
		}
		if err != nil {
			return nil, err
		}
		top := stack[len(stack)-1]
		switch t := tok.(type) {
		case xml.StartElement:
			n := &Node{Space: t.Name.Space, Local: t.Name.Local, Attr: map[string]string{}}
			for _, a := range t.Attr {
				if a.Name.Space == "xmlns" || (a.Name.Space == "" && a.Name.Local == "xmlns") {
					continue
				}
				k := a.Name.Local
				if a.Name.Space != "" {
					k = "{" + a.Name.Space + "}" + a.Name.Local
				}
				n.Attr[k] = a.Value
			}
			top.Kids = append(top.Kids, n)
			stack = append(stack, n)
		case xml.EndElement:
			stack = stack[:len(stack)-1]
		case xml.CharData:
			top.Kids = append(top.Kids, &Node{Text: string(t)})
		}
	}
	es := root.Elems()
	if len(es) != 1 {
		return nil, io.ErrUnexpectedEOF
	}
	return es[0], nil
}
