// Package rawpdf writes small hand-made PDF files from literal object bodies
// (classic cross-reference table, one revision). It is used where a check needs
// a structure outside the vocabulary of gen/pdfw: Form XObjects, shared
// resources, private operators.
package rawpdf

import (
	"bytes"
	"fmt"
	"sort"
)

// Build writes the numbered object bodies and a trailer whose /Root is root.
func Build(objs map[int]string, root int) []byte {
	nums := make([]int, 0, len(objs))
	for n := range objs {
		nums = append(nums, n)
	}
	sort.Ints(nums)
	max := nums[len(nums)-1]
	var b bytes.Buffer
	b.WriteString("%PDF-1.7\n%\xe2\xe3\xcf\xd3\n")
	off := map[int]int{}
	for _, n := range nums {
		off[n] = b.Len()
		fmt.Fprintf(&b, "%d 0 obj\n%s\nendobj\n", n, objs[n])
	}
	x := b.Len()
	fmt.Fprintf(&b, "xref\n0 %d\n0000000000 65535 f \n", max+1)
	for n := 1; n <= max; n++ {
		if o, ok := off[n]; ok {
			fmt.Fprintf(&b, "%010d 00000 n \n", o)
		} else {
			b.WriteString("0000000000 00000 f \n")
		}
	}
	fmt.Fprintf(&b, "trailer\n<< /Size %d /Root %d 0 R >>\nstartxref\n%d\n%%%%EOF\n", max+1, root, x)
	return b.Bytes()
}

// Stream returns a stream object body: the dictionary entries in dict plus /Length, and the data.
func Stream(dict, data string) string {
	return fmt.Sprintf("<< %s /Length %d >>\nstream\n%s\nendstream", dict, len(data), data)
}
