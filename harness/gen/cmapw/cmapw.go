// Package cmapw is an independent writer of ToUnicode CMap programs
// (ISO 32000-1 §9.10.3; Adobe Technical Note 5014 "CMap and CIDFont Files
// Specification" §6; Adobe Technical Note 5411 "ToUnicode Mapping File
// Tutorial").
//
// The logical content is a list of Blocks, each a run of code -> text
// mappings together with the form it is to be written in (bfchar, bfrange
// with an offset target, bfrange with an array of targets). Format collects
// the purely typographical choices. Write renders both into bytes; Lookup
// gives the mapping the bytes must mean. Nothing here is shared with tabula.
package cmapw

import (
	"fmt"
	"strings"
	"unicode/utf16"
	"unicode/utf8"
)

// Kind is the form a block is written in.
type Kind string

const (
	BfChar      Kind = "bfchar"       // <code> <target> per mapping
	RangeOffset Kind = "range-offset" // <lo> <hi> <target of lo>; the last byte of the target counts up
	RangeArray  Kind = "range-array"  // <lo> <hi> [<target> <target> …]
)

// Block is a run of mappings written in one form. For the two range forms
// Codes are consecutive and differ only in their last byte (TN 5014: a range
// may not cross a last-byte boundary).
type Block struct {
	Kind  Kind     `json:"kind"`
	Codes []uint32 `json:"codes"`
	Texts []string `json:"texts"` // the Unicode text each code maps to, len == len(Codes)
}

// CMap is the logical content of a ToUnicode CMap.
type CMap struct {
	Width  int     `json:"width"`  // bytes per code, 1-4 (one code-space width per CMap)
	Blocks []Block `json:"blocks"` // codes are distinct over all blocks
}

// Format holds the typographical decisions.
type Format struct {
	EOL        string `json:"eol"`          // "\n", "\r\n" or "\r"
	Layout     string `json:"layout"`       // "lines": one entry per line; "one-line": a whole section on one line including its keywords; "tokens": every token on its own line
	Gap        string `json:"gap"`          // blanks between the tokens of an entry: "", " ", "  ", "\t"
	Lower      bool   `json:"lower"`        // hexadecimal digits in lower case
	Header     string `json:"header"`       // "full" (the boilerplate of TN 5411) or "minimal"
	ArrayPad   bool   `json:"array_pad"`    // blanks inside the brackets of an array: [ <0041> <0042> ]
	MaxPerSect int    `json:"max_per_sect"` // entries per section, 1-100 (TN 5014: at most 100)
	SplitKinds bool   `json:"split_kinds"`  // start a new bfrange section whenever the range form changes
	CodeSpaces int    `json:"code_spaces"`  // 1 or 2: the code space as one range or split into two ranges of the same width
}

// DefaultFormat is what most producers write.
func DefaultFormat() Format {
	return Format{EOL: "\n", Layout: "lines", Gap: " ", Header: "full", MaxPerSect: 100, CodeSpaces: 1}
}

// UTF16BE returns the UTF-16BE code units of s.
func UTF16BE(s string) []uint16 { return utf16.Encode([]rune(s)) }

func textFromUnits(u []uint16) string { return string(utf16.Decode(u)) }

// RangeTexts derives the targets of a bfrange with an offset target: the
// last byte of the first target is incremented once per code (TN 5411 §1.4.2).
// ok is false when the last byte would overflow or a derived target is not
// well-formed UTF-16.
func RangeTexts(first string, n int) (texts []string, ok bool) {
	u := UTF16BE(first)
	if len(u) == 0 {
		return nil, false
	}
	last := u[len(u)-1]
	if int(last&0xFF)+n-1 > 0xFF {
		return nil, false
	}
	for i := 0; i < n; i++ {
		v := append([]uint16{}, u...)
		v[len(v)-1] = last + uint16(i)
		s := textFromUnits(v)
		if !utf8.ValidString(s) || strings.ContainsRune(s, utf8.RuneError) {
			return nil, false
		}
		texts = append(texts, s)
	}
	return texts, true
}

// Validate checks the structural rules the writer relies on.
func (c CMap) Validate() error {
	if c.Width < 1 || c.Width > 4 {
		return fmt.Errorf("width %d", c.Width)
	}
	seen := map[uint32]bool{}
	max := uint64(1)<<(8*uint(c.Width)) - 1
	for bi, b := range c.Blocks {
		if len(b.Codes) == 0 || len(b.Codes) != len(b.Texts) {
			return fmt.Errorf("block %d: %d codes, %d texts", bi, len(b.Codes), len(b.Texts))
		}
		for i, code := range b.Codes {
			if uint64(code) > max {
				return fmt.Errorf("block %d: code %X wider than %d bytes", bi, code, c.Width)
			}
			if seen[code] {
				return fmt.Errorf("block %d: code %X mapped twice", bi, code)
			}
			seen[code] = true
			t := b.Texts[i]
			if t == "" || !utf8.ValidString(t) {
				return fmt.Errorf("block %d: bad target %q", bi, t)
			}
			if strings.HasPrefix(t, "\uFEFF") {
				return fmt.Errorf("block %d: target starts with U+FEFF", bi)
			}
			if b.Kind != BfChar && i > 0 {
				if code != b.Codes[i-1]+1 || code>>8 != b.Codes[0]>>8 {
					return fmt.Errorf("block %d: range codes not consecutive within one last-byte row", bi)
				}
			}
		}
		if b.Kind == RangeOffset {
			want, ok := RangeTexts(b.Texts[0], len(b.Codes))
			if !ok {
				return fmt.Errorf("block %d: offset range breaks the last-byte rule", bi)
			}
			for i := range want {
				if want[i] != b.Texts[i] {
					return fmt.Errorf("block %d: text %d is not first+%d", bi, i, i)
				}
			}
		}
	}
	return nil
}

// Lookup is the meaning of the CMap.
func (c CMap) Lookup() map[uint32]string {
	m := map[uint32]string{}
	for _, b := range c.Blocks {
		for i, code := range b.Codes {
			m[code] = b.Texts[i]
		}
	}
	return m
}

// Entries returns all mappings in block order.
func (c CMap) Entries() (codes []uint32, texts []string) {
	for _, b := range c.Blocks {
		codes = append(codes, b.Codes...)
		texts = append(texts, b.Texts...)
	}
	return
}

// CodeBytes encodes a code as Width big-endian bytes.
func (c CMap) CodeBytes(code uint32) []byte {
	out := make([]byte, c.Width)
	for i := c.Width - 1; i >= 0; i-- {
		out[i] = byte(code)
		code >>= 8
	}
	return out
}

type writer struct {
	sb strings.Builder
	f  Format
	w  int
}

func (w *writer) hex(b []byte) string {
	const up, lo = "0123456789ABCDEF", "0123456789abcdef"
	d := up
	if w.f.Lower {
		d = lo
	}
	var sb strings.Builder
	sb.WriteByte('<')
	for _, c := range b {
		sb.WriteByte(d[c>>4])
		sb.WriteByte(d[c&15])
	}
	sb.WriteByte('>')
	return sb.String()
}

func (w *writer) code(code uint32) string {
	b := make([]byte, w.w)
	for i := w.w - 1; i >= 0; i-- {
		b[i] = byte(code)
		code >>= 8
	}
	return w.hex(b)
}

func (w *writer) target(s string) string {
	u := UTF16BE(s)
	b := make([]byte, 0, 2*len(u))
	for _, x := range u {
		b = append(b, byte(x>>8), byte(x))
	}
	return w.hex(b)
}

// entry is one line of a section: its tokens.
type entry []string

func (w *writer) section(keyword string, entries []entry) {
	eol := w.f.EOL
	begin := fmt.Sprintf("%d begin%s", len(entries), keyword)
	end := "end" + keyword
	switch w.f.Layout {
	case "one-line":
		parts := []string{begin}
		for _, e := range entries {
			parts = append(parts, strings.Join(e, w.f.Gap))
		}
		parts = append(parts, end)
		// between entries at least the gap; keywords need a blank unless they touch a delimiter
		w.sb.WriteString(parts[0] + " ")
		for i := 1; i < len(parts)-1; i++ {
			w.sb.WriteString(parts[i])
			if i < len(parts)-2 {
				w.sb.WriteString(w.f.Gap)
			}
		}
		w.sb.WriteString(" " + end + eol)
	case "tokens":
		w.sb.WriteString(begin + eol)
		for _, e := range entries {
			for _, tok := range e {
				w.sb.WriteString(tok + eol)
			}
		}
		w.sb.WriteString(end + eol)
	default:
		w.sb.WriteString(begin + eol)
		for _, e := range entries {
			w.sb.WriteString(strings.Join(e, w.f.Gap) + eol)
		}
		w.sb.WriteString(end + eol)
	}
}

func (w *writer) arrayTokens(texts []string) []string {
	// the array is a sequence of tokens so that the "tokens" layout can break inside it
	var toks []string
	open, close := "[", "]"
	for i, t := range texts {
		s := w.target(t)
		if i == 0 {
			if w.f.ArrayPad {
				toks = append(toks, open, s)
			} else {
				s = open + s
				toks = append(toks, s)
			}
		} else {
			toks = append(toks, s)
		}
	}
	if w.f.ArrayPad {
		toks = append(toks, close)
	} else {
		toks[len(toks)-1] += close
	}
	return toks
}

// Write renders the CMap program.
func Write(c CMap, f Format) []byte {
	if f.EOL == "" {
		f.EOL = "\n"
	}
	if f.MaxPerSect < 1 || f.MaxPerSect > 100 {
		f.MaxPerSect = 100
	}
	w := &writer{f: f, w: c.Width}
	eol := f.EOL
	if f.Header == "minimal" {
		w.sb.WriteString("/CIDInit /ProcSet findresource begin" + eol + "12 dict begin" + eol + "begincmap" + eol)
		w.sb.WriteString("/CMapType 2 def" + eol)
	} else {
		w.sb.WriteString("/CIDInit /ProcSet findresource begin" + eol + "12 dict begin" + eol + "begincmap" + eol)
		w.sb.WriteString("/CIDSystemInfo" + eol + "<< /Registry (Adobe)" + eol + "/Ordering (UCS)" + eol + "/Supplement 0" + eol + ">> def" + eol)
		w.sb.WriteString("/CMapName /Adobe-Identity-UCS def" + eol + "/CMapType 2 def" + eol)
	}
	// code space: one width; optionally split in two adjacent ranges of that width
	lo := make([]byte, c.Width)
	hi := make([]byte, c.Width)
	for i := range hi {
		hi[i] = 0xFF
	}
	var cs []entry
	if f.CodeSpaces == 2 {
		mid1 := append([]byte{}, hi...)
		mid1[0] = 0x7F
		mid2 := append([]byte{}, lo...)
		mid2[0] = 0x80
		cs = []entry{{w.hex(lo), w.hex(mid1)}, {w.hex(mid2), w.hex(hi)}}
	} else {
		cs = []entry{{w.hex(lo), w.hex(hi)}}
	}
	w.section("codespacerange", cs)

	// group blocks into sections
	var chars, ranges []entry
	var lastRangeKind Kind
	flushChars := func() {
		for len(chars) > 0 {
			n := len(chars)
			if n > f.MaxPerSect {
				n = f.MaxPerSect
			}
			w.section("bfchar", chars[:n])
			chars = chars[n:]
		}
	}
	flushRanges := func() {
		for len(ranges) > 0 {
			n := len(ranges)
			if n > f.MaxPerSect {
				n = f.MaxPerSect
			}
			w.section("bfrange", ranges[:n])
			ranges = ranges[n:]
		}
		lastRangeKind = ""
	}
	for _, b := range c.Blocks {
		switch b.Kind {
		case BfChar:
			flushRanges()
			for i, code := range b.Codes {
				chars = append(chars, entry{w.code(code), w.target(b.Texts[i])})
			}
		case RangeOffset:
			flushChars()
			if f.SplitKinds && lastRangeKind != "" && lastRangeKind != b.Kind {
				flushRanges()
			}
			ranges = append(ranges, entry{w.code(b.Codes[0]), w.code(b.Codes[len(b.Codes)-1]), w.target(b.Texts[0])})
			lastRangeKind = b.Kind
		case RangeArray:
			flushChars()
			if f.SplitKinds && lastRangeKind != "" && lastRangeKind != b.Kind {
				flushRanges()
			}
			e := entry{w.code(b.Codes[0]), w.code(b.Codes[len(b.Codes)-1])}
			e = append(e, w.arrayTokens(b.Texts)...)
			ranges = append(ranges, e)
			lastRangeKind = b.Kind
		}
	}
	flushChars()
	flushRanges()
	w.sb.WriteString("endcmap" + eol + "CMapName currentdict /CMap defineresource pop" + eol + "end" + eol + "end" + eol)
	return []byte(w.sb.String())
}
