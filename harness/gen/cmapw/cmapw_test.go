package cmapw

import (
	"fmt"
	"strconv"
	"strings"
	"testing"
	"unicode/utf16"

	"pgregory.net/rapid"
)

// a small reference reader of the CMap subset the writer produces (PostScript tokens)
func refTokens(b []byte) ([]string, error) {
	var toks []string
	i := 0
	isWS := func(c byte) bool { return c == ' ' || c == '\t' || c == '\n' || c == '\r' || c == '\f' || c == 0 }
	for i < len(b) {
		c := b[i]
		switch {
		case isWS(c):
			i++
		case c == '<' && i+1 < len(b) && b[i+1] == '<':
			toks = append(toks, "<<")
			i += 2
		case c == '>' && i+1 < len(b) && b[i+1] == '>':
			toks = append(toks, ">>")
			i += 2
		case c == '<':
			j := i + 1
			for j < len(b) && b[j] != '>' {
				j++
			}
			if j >= len(b) {
				return nil, fmt.Errorf("unterminated hex string")
			}
			toks = append(toks, string(b[i:j+1]))
			i = j + 1
		case c == '[' || c == ']':
			toks = append(toks, string(c))
			i++
		case c == '(':
			j := i + 1
			for j < len(b) && b[j] != ')' {
				j++
			}
			toks = append(toks, string(b[i:j+1]))
			i = j + 1
		default:
			j := i
			if c == '/' {
				j++
			}
			for j < len(b) && !isWS(b[j]) && !strings.ContainsRune("<>[]()/", rune(b[j])) {
				j++
			}
			toks = append(toks, string(b[i:j]))
			i = j
		}
	}
	return toks, nil
}

func hexBytes(tok string) ([]byte, error) {
	h := tok[1 : len(tok)-1]
	if len(h)%2 != 0 {
		return nil, fmt.Errorf("odd hex %q", tok)
	}
	out := make([]byte, len(h)/2)
	for i := range out {
		v, err := strconv.ParseUint(h[2*i:2*i+2], 16, 8)
		if err != nil {
			return nil, err
		}
		out[i] = byte(v)
	}
	return out, nil
}

func codeOf(b []byte) uint32 {
	var v uint32
	for _, c := range b {
		v = v<<8 | uint32(c)
	}
	return v
}

func textOf(b []byte) string {
	u := make([]uint16, len(b)/2)
	for i := range u {
		u[i] = uint16(b[2*i])<<8 | uint16(b[2*i+1])
	}
	return string(utf16.Decode(u))
}

func refRead(b []byte) (map[uint32]string, int, error) {
	toks, err := refTokens(b)
	if err != nil {
		return nil, 0, err
	}
	m := map[uint32]string{}
	width := 0
	for i := 0; i < len(toks); i++ {
		switch toks[i] {
		case "begincodespacerange":
			n, _ := strconv.Atoi(toks[i-1])
			for k := 0; k < n; k++ {
				lo, err := hexBytes(toks[i+1+2*k])
				if err != nil {
					return nil, 0, err
				}
				width = len(lo)
			}
			if toks[i+1+2*n] != "endcodespacerange" {
				return nil, 0, fmt.Errorf("codespace count mismatch")
			}
		case "beginbfchar":
			n, _ := strconv.Atoi(toks[i-1])
			if n < 1 || n > 100 {
				return nil, 0, fmt.Errorf("bfchar count %d", n)
			}
			for k := 0; k < n; k++ {
				cb, err := hexBytes(toks[i+1+2*k])
				if err != nil {
					return nil, 0, err
				}
				tb, err := hexBytes(toks[i+2+2*k])
				if err != nil {
					return nil, 0, err
				}
				if len(cb) != width {
					return nil, 0, fmt.Errorf("code width")
				}
				m[codeOf(cb)] = textOf(tb)
			}
			if toks[i+1+2*n] != "endbfchar" {
				return nil, 0, fmt.Errorf("bfchar count mismatch at %q", toks[i+1+2*n])
			}
		case "beginbfrange":
			n, _ := strconv.Atoi(toks[i-1])
			if n < 1 || n > 100 {
				return nil, 0, fmt.Errorf("bfrange count %d", n)
			}
			j := i + 1
			for k := 0; k < n; k++ {
				lo, err := hexBytes(toks[j])
				if err != nil {
					return nil, 0, err
				}
				hi, err := hexBytes(toks[j+1])
				if err != nil {
					return nil, 0, err
				}
				if len(lo) != width || len(hi) != width {
					return nil, 0, fmt.Errorf("code width")
				}
				l, h := codeOf(lo), codeOf(hi)
				j += 2
				if toks[j] == "[" {
					j++
					for c := uint64(l); ; c++ {
						if toks[j] == "]" {
							if c != uint64(h)+1 {
								return nil, 0, fmt.Errorf("array length")
							}
							j++
							break
						}
						tb, err := hexBytes(toks[j])
						if err != nil {
							return nil, 0, err
						}
						m[uint32(c)] = textOf(tb)
						j++
					}
				} else {
					tb, err := hexBytes(toks[j])
					if err != nil {
						return nil, 0, err
					}
					j++
					for d := uint32(0); d <= h-l; d++ {
						t2 := append([]byte{}, tb...)
						if int(t2[len(t2)-1])+int(d) > 255 {
							return nil, 0, fmt.Errorf("last-byte overflow")
						}
						t2[len(t2)-1] += byte(d)
						m[l+d] = textOf(t2)
						if d == 255 {
							break
						}
					}
				}
			}
			if toks[j] != "endbfrange" {
				return nil, 0, fmt.Errorf("bfrange count mismatch at %q", toks[j])
			}
		}
	}
	return m, width, nil
}

func TestWriteReadBack(t *testing.T) {
	rapid.Check(t, func(t *rapid.T) {
		c, _ := Gen(t, GenOpts{})
		if err := c.Validate(); err != nil {
			t.Fatalf("generated CMap invalid: %v\n%+v", err, c)
		}
		f := GenFormat(t)
		b := Write(c, f)
		m, w, err := refRead(b)
		if err != nil {
			t.Fatalf("written CMap does not read back: %v\n%s", err, b)
		}
		if w != c.Width {
			t.Fatalf("width %d, want %d", w, c.Width)
		}
		want := c.Lookup()
		if len(m) != len(want) {
			t.Fatalf("read back %d mappings, want %d\n%s", len(m), len(want), b)
		}
		for k, v := range want {
			if m[k] != v {
				t.Fatalf("code %X reads back %q, want %q\n%s", k, m[k], v, b)
			}
		}
	})
}
