package cmapw

import (
	"strings"
	"unicode/utf8"

	"pgregory.net/rapid"
)

// GenOpts bounds and restricts the random CMaps.
type GenOpts struct {
	MaxBlocks int // default 6
	MaxRun    int // longest range / bfchar run, default 12
	Width     int // 0 = draw 1-4
	// NoMultiUnitOffset: a bfrange with an offset target only gets targets of
	// exactly one UTF-16 code unit (no surrogate pair, no multi-character text).
	NoMultiUnitOffset bool
	// NoArray / NoOffset remove one of the range forms.
	NoArray  bool
	NoOffset bool
}

// text classes ---------------------------------------------------------------

var multiTexts = []string{"ff", "fi", "ffi", "ffl", "st", "é", "Å", "가", "क्ष", "ạ̈", "\U0001F468‍\U0001F469", "\U0001F1E9\U0001F1EA", "1/2", "TM", "של", "ก้"}
var bmpStarts = []rune{0x00C0, 0x0100, 0x0391, 0x0410, 0x05D0, 0x0627, 0x0905, 0x0E01, 0x1100, 0x1E00, 0x2010, 0x20AC, 0x2190, 0x2200, 0x2500, 0x3041, 0x4E00, 0x9FA0, 0xAC00, 0xD7A0, 0xE000, 0xF900, 0xFB00, 0xFF01, 0xFFE0}
var suppStarts = []rune{0x10000, 0x10400, 0x1D400, 0x1F300, 0x1F600, 0x1F900, 0x20000, 0x2F800, 0xE0100, 0x10FF00, 0x10FFF0}

// GenText draws one target: 1-4 code points, never a surrogate, never
// U+FFFD, never starting with U+FEFF (DESIGN §8), never empty.
func GenText(t *rapid.T) (s string, class string) {
	switch rapid.IntRange(0, 9).Draw(t, "textClass") {
	case 0, 1:
		return string(rune(rapid.IntRange(0x20, 0x7E).Draw(t, "ascii"))), "ascii"
	case 2:
		return string(rune(rapid.IntRange(0xA0, 0xFF).Draw(t, "latin1"))), "latin1"
	case 3, 4:
		r := rapid.SampledFrom(bmpStarts).Draw(t, "bmpBase") + rune(rapid.IntRange(0, 0x5F).Draw(t, "bmpOff"))
		return string(r), "bmp"
	case 5:
		// combining mark on its own: normalisation may fuse it with the previous entry's text
		r := rune(rapid.SampledFrom([]int{0x0300, 0x0301, 0x0302, 0x0303, 0x0308, 0x030A, 0x0327, 0x0323, 0x3099, 0x309A, 0x1161, 0x11A8, 0x0653, 0x093C}).Draw(t, "mark"))
		return string(r), "combining"
	case 6, 7:
		r := rapid.SampledFrom(suppStarts).Draw(t, "suppBase") + rune(rapid.IntRange(0, 0xF).Draw(t, "suppOff"))
		return string(r), "supplementary"
	case 8:
		return rapid.SampledFrom(multiTexts).Draw(t, "multi"), "multi"
	default:
		// 2-4 arbitrary scalar values
		n := rapid.IntRange(2, 4).Draw(t, "nRunes")
		var sb strings.Builder
		for i := 0; i < n; i++ {
			var r rune
			if rapid.Bool().Draw(t, "runeSupp") {
				r = rune(rapid.IntRange(0x10000, 0x10FFFF).Draw(t, "rune"))
			} else {
				r = rune(rapid.IntRange(0x20, 0xD7FF).Draw(t, "rune"))
			}
			if i == 0 && r == 0xFEFF {
				r = 'x'
			}
			sb.WriteRune(r)
		}
		return sb.String(), "multi"
	}
}

func okText(s string) bool {
	return s != "" && utf8.ValidString(s) && !strings.ContainsRune(s, utf8.RuneError) && !strings.HasPrefix(s, "\uFEFF")
}

// Gen draws a CMap by blocks; codes never collide. It returns the classes of
// text used, for labels.
func Gen(t *rapid.T, o GenOpts) (CMap, []string) {
	if o.MaxBlocks == 0 {
		o.MaxBlocks = 6
	}
	if o.MaxRun == 0 {
		o.MaxRun = 12
	}
	c := CMap{Width: o.Width}
	if c.Width == 0 {
		c.Width = rapid.SampledFrom([]int{1, 1, 2, 2, 2, 3, 4}).Draw(t, "width")
	}
	used := map[uint32]bool{}
	classes := map[string]bool{}
	nBlocks := rapid.IntRange(1, o.MaxBlocks).Draw(t, "nBlocks")
	rows := uint32(1)
	if c.Width > 1 {
		rows = 1 << (8 * uint(c.Width-1)) // number of last-byte rows (0 when width is 4 -> handled below)
	}
	drawRow := func() uint32 {
		if c.Width == 1 {
			return 0
		}
		if c.Width == 4 {
			return rapid.Uint32Range(0, 0xFFFFFF).Draw(t, "row")
		}
		// favour low rows and the extremes
		if rapid.IntRange(0, 3).Draw(t, "rowEdge") == 0 {
			return rapid.SampledFrom([]uint32{0, 1, rows - 1, rows / 2}).Draw(t, "rowPick")
		}
		return rapid.Uint32Range(0, rows-1).Draw(t, "row")
	}
	for bi := 0; bi < nBlocks; bi++ {
		kinds := []Kind{BfChar, BfChar}
		if !o.NoOffset {
			kinds = append(kinds, RangeOffset, RangeOffset)
		}
		if !o.NoArray {
			kinds = append(kinds, RangeArray)
		}
		kind := rapid.SampledFrom(kinds).Draw(t, "kind")
		n := rapid.IntRange(1, o.MaxRun).Draw(t, "runLen")
		if rapid.IntRange(0, 30).Draw(t, "longRun") == 0 {
			n = rapid.SampledFrom([]int{100, 101, 130, 200, 256}).Draw(t, "longRunLen") // crosses the 100-entries-per-section limit for bfchar; 256 = a whole last-byte row
		}
		b := Block{Kind: kind}
		switch kind {
		case BfChar:
			for i := 0; i < n; i++ {
				code := drawRow()<<8 | uint32(rapid.IntRange(0, 255).Draw(t, "low"))
				if c.Width == 1 {
					code &= 0xFF
				}
				if used[code] {
					continue
				}
				used[code] = true
				s, cl := GenText(t)
				classes[cl] = true
				b.Codes = append(b.Codes, code)
				b.Texts = append(b.Texts, s)
			}
		default:
			row := drawRow()
			lo := uint32(rapid.IntRange(0, 255).Draw(t, "rangeLow"))
			if n > 256-int(lo) {
				n = 256 - int(lo)
			}
			// shrink to the free prefix
			k := 0
			for k < n && !used[row<<8|(lo+uint32(k))] {
				k++
			}
			n = k
			if n == 0 {
				continue
			}
			if kind == RangeOffset {
				first, cl := GenText(t)
				if o.NoMultiUnitOffset {
					for len(UTF16BE(first)) != 1 {
						first = string(rune(rapid.IntRange(0x20, 0xD7FF).Draw(t, "bmpTarget")))
						cl = "bmp"
					}
				}
				// move the last code unit's low byte so that n targets fit (last-byte rule)
				u := UTF16BE(first)
				last := u[len(u)-1]
				start := uint16(rapid.IntRange(0, 256-n).Draw(t, "targetLow"))
				u[len(u)-1] = last&0xFF00 | start
				first = textFromUnits(u)
				texts, ok := RangeTexts(first, n)
				if ok {
					for _, s := range texts {
						if !okText(s) {
							ok = false
						}
					}
				}
				if !ok {
					kind = RangeArray // cannot be expressed with an offset target
					b.Kind = kind
					if o.NoArray {
						b.Kind = BfChar
					}
				} else {
					classes[cl] = true
					if len(u) > 1 {
						classes["offset-multiunit"] = true
					}
					b.Texts = texts
				}
			}
			for i := 0; i < n; i++ {
				b.Codes = append(b.Codes, row<<8|(lo+uint32(i)))
				used[row<<8|(lo+uint32(i))] = true
			}
			if b.Texts == nil {
				for i := 0; i < n; i++ {
					s, cl := GenText(t)
					classes[cl] = true
					b.Texts = append(b.Texts, s)
				}
			}
		}
		if len(b.Codes) > 0 {
			c.Blocks = append(c.Blocks, b)
		}
		// a second range right behind an offset range (next code), whose targets start again at the character the
		// first one ended on: adjacent in the codes, not a continuation in the targets
		if b.Kind == RangeOffset && len(b.Codes) > 0 && !o.NoOffset && rapid.IntRange(0, 3).Draw(t, "adjacentRange") == 0 {
			next := b.Codes[len(b.Codes)-1] + 1
			m := rapid.IntRange(1, 4).Draw(t, "adjacentLen")
			if int(next&0xFF)+m <= 256 && next&0xFF != 0 {
				if texts, ok := RangeTexts(b.Texts[len(b.Texts)-1], m); ok {
					nb := Block{Kind: RangeOffset}
					for i := 0; i < m && ok; i++ {
						ok = ok && !used[next+uint32(i)] && okText(texts[i])
					}
					if ok {
						for i := 0; i < m; i++ {
							used[next+uint32(i)] = true
							nb.Codes = append(nb.Codes, next+uint32(i))
						}
						nb.Texts = texts
						c.Blocks = append(c.Blocks, nb)
						classes["adjacent-range-same-target"] = true
					}
				}
			}
		}
	}
	if len(c.Blocks) == 0 {
		c.Blocks = []Block{{Kind: BfChar, Codes: []uint32{0x41}, Texts: []string{"A"}}}
	}
	var cls []string
	for k := range classes {
		cls = append(cls, k)
	}
	return c, cls
}

// GenFormat draws the typography.
func GenFormat(t *rapid.T) Format {
	return Format{
		EOL:        rapid.SampledFrom([]string{"\n", "\n", "\r\n", "\r"}).Draw(t, "eol"),
		Layout:     rapid.SampledFrom([]string{"lines", "lines", "one-line", "tokens"}).Draw(t, "layout"),
		Gap:        rapid.SampledFrom([]string{" ", " ", "", "  ", "\t"}).Draw(t, "gap"),
		Lower:      rapid.Bool().Draw(t, "lower"),
		Header:     rapid.SampledFrom([]string{"full", "minimal"}).Draw(t, "header"),
		ArrayPad:   rapid.Bool().Draw(t, "arrayPad"),
		MaxPerSect: rapid.SampledFrom([]int{100, 100, 1, 2, 7, 50}).Draw(t, "maxPerSect"),
		SplitKinds: rapid.Bool().Draw(t, "splitKinds"),
		CodeSpaces: rapid.SampledFrom([]int{1, 1, 1, 2}).Draw(t, "codeSpaces"),
	}
}
