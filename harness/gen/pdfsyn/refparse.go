package pdfsyn

import (
	"fmt"
	"strings"
)

// A deliberately small reference reader for the syntax the Writer produces,
// written from ISO 32000-1 §7.2-7.3 and §7.8.2. It exists to test the Writer
// (every spelling must read back to the tree it was made from) so that a
// disagreement between tabula and a generated case cannot be blamed on an
// illegal spelling. It is strict: anything outside the grammar is an error.

type refParser struct {
	b   []byte
	pos int
}

func (p *refParser) skip() {
	for p.pos < len(p.b) {
		c := p.b[p.pos]
		if isWhite(c) {
			p.pos++
			continue
		}
		if c == '%' { // §7.2.3
			for p.pos < len(p.b) && p.b[p.pos] != '\r' && p.b[p.pos] != '\n' {
				p.pos++
			}
			continue
		}
		return
	}
}

func isRegular(c byte) bool { return !isWhite(c) && !isDelim(c) }

func (p *refParser) regularToken() string {
	s := p.pos
	for p.pos < len(p.b) && isRegular(p.b[p.pos]) {
		p.pos++
	}
	return string(p.b[s:p.pos])
}

func hexVal(c byte) (byte, bool) {
	switch {
	case c >= '0' && c <= '9':
		return c - '0', true
	case c >= 'a' && c <= 'f':
		return c - 'a' + 10, true
	case c >= 'A' && c <= 'F':
		return c - 'A' + 10, true
	}
	return 0, false
}

// parseNumber classifies a regular token as integer or real.
func parseNumber(tok string) (Obj, bool) {
	s := tok
	neg := false
	if strings.HasPrefix(s, "+") {
		s = s[1:]
	} else if strings.HasPrefix(s, "-") {
		neg, s = true, s[1:]
	}
	if s == "" {
		return Obj{}, false
	}
	dots := strings.Count(s, ".")
	if dots > 1 || s == "." {
		return Obj{}, false
	}
	for _, c := range s {
		if c != '.' && (c < '0' || c > '9') {
			return Obj{}, false
		}
	}
	if dots == 0 {
		var v int64
		for _, c := range s {
			if v > (1<<62)/10 {
				return Obj{}, false
			}
			v = v*10 + int64(c-'0')
		}
		if neg {
			v = -v
		}
		return IntObj(v), true
	}
	ip, fp, _ := strings.Cut(s, ".")
	return RealObj(neg, ip, fp), true
}

func (p *refParser) object() (Obj, error) {
	p.skip()
	if p.pos >= len(p.b) {
		return Obj{}, fmt.Errorf("unexpected end at %d", p.pos)
	}
	c := p.b[p.pos]
	switch {
	case c == '(':
		return p.literal()
	case c == '<':
		if p.pos+1 < len(p.b) && p.b[p.pos+1] == '<' {
			return p.dict()
		}
		return p.hex()
	case c == '/':
		p.pos++
		n, err := p.name()
		return Obj{K: Name, S: n}, err
	case c == '[':
		p.pos++
		a := Obj{K: Array}
		for {
			p.skip()
			if p.pos >= len(p.b) {
				return Obj{}, fmt.Errorf("unterminated array")
			}
			if p.b[p.pos] == ']' {
				p.pos++
				return a, nil
			}
			e, err := p.object()
			if err != nil {
				return Obj{}, err
			}
			a.A = append(a.A, e)
		}
	case isRegular(c):
		save := p.pos
		tok := p.regularToken()
		switch tok {
		case "null":
			return NullObj(), nil
		case "true":
			return BoolObj(true), nil
		case "false":
			return BoolObj(false), nil
		}
		n, ok := parseNumber(tok)
		if !ok {
			p.pos = save
			return Obj{}, fmt.Errorf("not an object: %q at %d", tok, save)
		}
		if n.K == Int && n.I >= 0 {
			// indirect reference: integer integer R
			after := p.pos
			p.skip()
			t2 := p.regularToken()
			if g, ok := parseNumber(t2); ok && g.K == Int && g.I >= 0 && !strings.ContainsAny(t2, "+-") {
				p.skip()
				if p.regularToken() == "R" && !strings.ContainsAny(tok, "+-") {
					return RefObj(n.I, g.I), nil
				}
			}
			p.pos = after
		}
		return n, nil
	}
	return Obj{}, fmt.Errorf("unexpected %q at %d", c, p.pos)
}

func (p *refParser) name() (Bytes, error) {
	out := Bytes{}
	for p.pos < len(p.b) && isRegular(p.b[p.pos]) {
		c := p.b[p.pos]
		if c == '#' {
			if p.pos+2 >= len(p.b) {
				return nil, fmt.Errorf("truncated # escape")
			}
			h, ok1 := hexVal(p.b[p.pos+1])
			l, ok2 := hexVal(p.b[p.pos+2])
			if !ok1 || !ok2 {
				return nil, fmt.Errorf("bad # escape at %d", p.pos)
			}
			out = append(out, h<<4|l)
			p.pos += 3
			continue
		}
		out = append(out, c)
		p.pos++
	}
	return out, nil
}

func (p *refParser) dict() (Obj, error) {
	p.pos += 2
	d := Obj{K: Dict}
	for {
		p.skip()
		if p.pos+1 < len(p.b) && p.b[p.pos] == '>' && p.b[p.pos+1] == '>' {
			p.pos += 2
			return d, nil
		}
		if p.pos >= len(p.b) || p.b[p.pos] != '/' {
			return Obj{}, fmt.Errorf("dictionary key expected at %d", p.pos)
		}
		p.pos++
		k, err := p.name()
		if err != nil {
			return Obj{}, err
		}
		v, err := p.object()
		if err != nil {
			return Obj{}, err
		}
		d.D = append(d.D, Entry{Key: k, Val: v})
	}
}

func (p *refParser) hex() (Obj, error) {
	p.pos++
	var nib []byte
	for {
		if p.pos >= len(p.b) {
			return Obj{}, fmt.Errorf("unterminated hex string")
		}
		c := p.b[p.pos]
		p.pos++
		if c == '>' {
			break
		}
		if isWhite(c) {
			continue
		}
		v, ok := hexVal(c)
		if !ok {
			return Obj{}, fmt.Errorf("bad hex digit %q", c)
		}
		nib = append(nib, v)
	}
	if len(nib)%2 == 1 {
		nib = append(nib, 0) // §7.3.4.3: final digit assumed 0
	}
	out := Bytes{}
	for i := 0; i < len(nib); i += 2 {
		out = append(out, nib[i]<<4|nib[i+1])
	}
	return Obj{K: String, S: out}, nil
}

func (p *refParser) literal() (Obj, error) {
	p.pos++
	depth := 1
	out := Bytes{}
	for {
		if p.pos >= len(p.b) {
			return Obj{}, fmt.Errorf("unterminated literal string")
		}
		c := p.b[p.pos]
		p.pos++
		switch c {
		case '(':
			depth++
			out = append(out, c)
		case ')':
			depth--
			if depth == 0 {
				return Obj{K: String, S: out}, nil
			}
			out = append(out, c)
		case '\r': // §7.3.4.2: an end-of-line marker of any kind reads as 0A
			if p.pos < len(p.b) && p.b[p.pos] == '\n' {
				p.pos++
			}
			out = append(out, '\n')
		case '\\':
			if p.pos >= len(p.b) {
				return Obj{}, fmt.Errorf("dangling backslash")
			}
			e := p.b[p.pos]
			p.pos++
			switch e {
			case 'n':
				out = append(out, '\n')
			case 'r':
				out = append(out, '\r')
			case 't':
				out = append(out, '\t')
			case 'b':
				out = append(out, '\b')
			case 'f':
				out = append(out, '\f')
			case '(', ')', '\\':
				out = append(out, e)
			case '\r':
				if p.pos < len(p.b) && p.b[p.pos] == '\n' {
					p.pos++
				}
			case '\n':
			default:
				if e >= '0' && e <= '7' {
					v := int(e - '0')
					for i := 0; i < 2 && p.pos < len(p.b) && p.b[p.pos] >= '0' && p.b[p.pos] <= '7'; i++ {
						v = v*8 + int(p.b[p.pos]-'0')
						p.pos++
					}
					out = append(out, byte(v))
				} else {
					out = append(out, e) // backslash ignored
				}
			}
		default:
			out = append(out, c)
		}
	}
}

// ParseObject reads one object from b with the reference reader and returns
// the number of bytes consumed.
func ParseObject(b []byte) (Obj, int, error) {
	p := &refParser{b: b}
	o, err := p.object()
	return o, p.pos, err
}

// ParseProgram reads a whole content stream with the reference reader.
func ParseProgram(b []byte) ([]Op, error) {
	p := &refParser{b: b}
	var ops []Op
	var operands []Obj
	for {
		p.skip()
		if p.pos >= len(p.b) {
			if len(operands) > 0 {
				return nil, fmt.Errorf("operands without operator at end")
			}
			return ops, nil
		}
		save := p.pos
		o, err := p.object()
		if err == nil {
			operands = append(operands, o)
			continue
		}
		p.pos = save
		if !isRegular(p.b[p.pos]) {
			return nil, err
		}
		tok := p.regularToken()
		ops = append(ops, Op{Operands: operands, Operator: tok})
		operands = nil
	}
}

// Equal compares two trees; dictionaries are compared as maps.
func Equal(a, b Obj) bool {
	if a.K != b.K {
		return false
	}
	switch a.K {
	case Null:
		return true
	case Bool:
		return a.B == b.B
	case Int:
		return a.I == b.I
	case Ref:
		return a.I == b.I && a.G == b.G
	case Real:
		return a.R == b.R
	case String, Name:
		return string(a.S) == string(b.S)
	case Array:
		if len(a.A) != len(b.A) {
			return false
		}
		for i := range a.A {
			if !Equal(a.A[i], b.A[i]) {
				return false
			}
		}
		return true
	case Dict:
		if len(a.D) != len(b.D) {
			return false
		}
		m := map[string]Obj{}
		for _, e := range b.D {
			m[string(e.Key)] = e.Val
		}
		for _, e := range a.D {
			v, ok := m[string(e.Key)]
			if !ok || !Equal(e.Val, v) {
				return false
			}
		}
		return true
	}
	return false
}
