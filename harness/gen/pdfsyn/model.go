// Package pdfsyn is an independent serialiser for PDF object syntax
// (ISO 32000-1 §7.2 lexical conventions, §7.3 objects, §7.8.2 content streams).
//
// It has two halves:
//
//   - a small logical object model (Obj: the eight basic types plus indirect
//     references; Op: an operator with its operands), JSON-serialisable so a
//     generated case can be replayed from its file alone;
//   - a Writer that spells objects and operators as bytes under a spelling
//     Policy. Every decision the policy leaves open (which white-space bytes,
//     whether a comment goes between two tokens, literal vs hexadecimal vs
//     octal-escaped strings, #-escapes in names, number spellings …) is taken
//     from a Chooser, so that a property-based test can drive it from rapid
//     draws and a file writer can drive it from fixed choices.
//
// The package shares no code with tabula. Every knob emits only constructs
// that are legal PDF; the clause that makes it legal is cited next to it.
package pdfsyn

import (
	"encoding/json"
	"fmt"
	"strconv"
	"strings"
)

// Bytes is a byte string that marshals to a readable JSON string: every byte
// becomes the code point of the same value (Latin-1), so ASCII stays ASCII
// and arbitrary bytes survive the round trip exactly.
type Bytes []byte

func (b Bytes) MarshalJSON() ([]byte, error) {
	rs := make([]rune, len(b))
	for i, c := range b {
		rs[i] = rune(c)
	}
	return json.Marshal(string(rs))
}

func (b *Bytes) UnmarshalJSON(data []byte) error {
	var s string
	if err := json.Unmarshal(data, &s); err != nil {
		return err
	}
	out := make([]byte, 0, len(s))
	for _, r := range s {
		if r > 0xFF {
			return fmt.Errorf("pdfsyn.Bytes: code point U+%04X is not a byte", r)
		}
		out = append(out, byte(r))
	}
	*b = out
	return nil
}

// Kind names one of the object types of ISO 32000-1 §7.3.
type Kind string

const (
	Null   Kind = "null"
	Bool   Kind = "bool"
	Int    Kind = "int"
	Real   Kind = "real"
	String Kind = "str"
	Name   Kind = "name"
	Array  Kind = "array"
	Dict   Kind = "dict"
	Ref    Kind = "ref"
)

// Obj is one node of a logical object tree.
type Obj struct {
	K Kind `json:"k"`
	// Bool
	B bool `json:"b,omitempty"`
	// Int: the value. Ref: object number.
	I int64 `json:"i,omitempty"`
	// Ref: generation number.
	G int64 `json:"g,omitempty"`
	// Real: the canonical decimal, matching -?[0-9]+\.[0-9]+ ; the value of
	// the object is the float64 nearest to that decimal (see RealValue).
	R string `json:"r,omitempty"`
	// String: the bytes. Name: the bytes after the solidus (no NUL).
	S Bytes `json:"s,omitempty"`
	// Array elements.
	A []Obj `json:"a,omitempty"`
	// Dict entries in writing order; keys are distinct.
	D []Entry `json:"d,omitempty"`
}

// Entry is one key/value pair of a dictionary.
type Entry struct {
	Key Bytes `json:"key"`
	Val Obj   `json:"val"`
}

// Op is one content-stream operation: the operands followed by the operator.
type Op struct {
	Operands []Obj  `json:"operands,omitempty"`
	Operator string `json:"op"`
}

// Constructors ---------------------------------------------------------------

func NullObj() Obj           { return Obj{K: Null} }
func BoolObj(b bool) Obj     { return Obj{K: Bool, B: b} }
func IntObj(i int64) Obj     { return Obj{K: Int, I: i} }
func StringObj(b []byte) Obj { return Obj{K: String, S: Bytes(b)} }
func NameObj(b []byte) Obj   { return Obj{K: Name, S: Bytes(b)} }
func NameStr(s string) Obj   { return Obj{K: Name, S: Bytes(s)} }
func ArrayObj(a ...Obj) Obj  { return Obj{K: Array, A: a} }
func DictObj(e ...Entry) Obj { return Obj{K: Dict, D: e} }
func RefObj(n, g int64) Obj  { return Obj{K: Ref, I: n, G: g} }

// RealObj builds a real from its parts: sign, integer digits, fraction digits.
// Digits strings may be empty or carry redundant zeros; the canonical form is
// stored.
func RealObj(neg bool, intDigits, fracDigits string) Obj {
	return Obj{K: Real, R: canonReal(neg, intDigits, fracDigits)}
}

// RealFloat builds a real whose canonical decimal is the shortest decimal
// that round-trips v (no exponent).
func RealFloat(v float64) Obj {
	s := strconv.FormatFloat(v, 'f', -1, 64)
	neg := strings.HasPrefix(s, "-")
	s = strings.TrimPrefix(s, "-")
	ip, fp, _ := strings.Cut(s, ".")
	return RealObj(neg, ip, fp)
}

// Num builds the natural PDF number for v: an integer object when v is
// integral and small, a real otherwise.
func Num(v float64) Obj {
	if v == float64(int64(v)) && v > -1e15 && v < 1e15 {
		return IntObj(int64(v))
	}
	return RealFloat(v)
}

func canonReal(neg bool, ip, fp string) string {
	ip = strings.TrimLeft(ip, "0")
	if ip == "" {
		ip = "0"
	}
	fp = strings.TrimRight(fp, "0")
	if fp == "" {
		fp = "0"
	}
	if neg && ip == "0" && fp == "0" {
		neg = false // -0.0 and 0.0 are the same number
	}
	if neg {
		return "-" + ip + "." + fp
	}
	return ip + "." + fp
}

// RealParts splits the canonical decimal.
func (o Obj) RealParts() (neg bool, ip, fp string) {
	s := o.R
	if strings.HasPrefix(s, "-") {
		neg = true
		s = s[1:]
	}
	ip, fp, _ = strings.Cut(s, ".")
	return
}

// RealValue is the value of a Real: the float64 nearest to the canonical decimal.
func (o Obj) RealValue() float64 {
	v, _ := strconv.ParseFloat(o.R, 64)
	return v
}

// NumValue returns the numeric value of an Int or Real.
func (o Obj) NumValue() float64 {
	if o.K == Int {
		return float64(o.I)
	}
	return o.RealValue()
}

// Depth is 1 for scalars, 1 + max child depth for containers.
func (o Obj) Depth() int {
	d := 0
	switch o.K {
	case Array:
		for _, e := range o.A {
			if x := e.Depth(); x > d {
				d = x
			}
		}
	case Dict:
		for _, e := range o.D {
			if x := e.Val.Depth(); x > d {
				d = x
			}
		}
	}
	return d + 1
}

// HasRef reports whether the tree contains an indirect reference.
func (o Obj) HasRef() bool {
	switch o.K {
	case Ref:
		return true
	case Array:
		for _, e := range o.A {
			if e.HasRef() {
				return true
			}
		}
	case Dict:
		for _, e := range o.D {
			if e.Val.HasRef() {
				return true
			}
		}
	}
	return false
}

// Walk calls f on o and every descendant.
func (o Obj) Walk(f func(Obj)) {
	f(o)
	switch o.K {
	case Array:
		for _, e := range o.A {
			e.Walk(f)
		}
	case Dict:
		for _, e := range o.D {
			f(Obj{K: Name, S: e.Key})
			e.Val.Walk(f)
		}
	}
}

// Canonical returns the single-space canonical spelling of o (literal strings
// with the minimum of escapes, names with the minimum of # escapes, canonical
// numbers, LF never needed). It is the form the non-triviality rule of C06
// compares against.
func Canonical(o Obj) []byte {
	w := NewWriter(CanonicalPolicy(), Fixed(0))
	w.Obj(o)
	return w.Bytes()
}
