package pdfsyn

import (
	"encoding/json"
	"testing"

	"pgregory.net/rapid"
)

// Every spelling of every tree reads back to the tree with the reference reader.
func TestSpellReadBack(t *testing.T) {
	rapid.Check(t, func(t *rapid.T) {
		o := GenObj(t, GenOpts{})
		p := GenPolicy(t)
		w := NewWriter(p, Rapid(t))
		s, e := w.Obj(o)
		w.Trailer()
		b := w.Bytes()
		got, _, err := ParseObject(b)
		if err != nil {
			t.Fatalf("spelling %q of %+v does not parse: %v", b, o, err)
		}
		if !Equal(got, o) {
			t.Fatalf("spelling %q reads back as %+v, want %+v", b, got, o)
		}
		// the object's own span parses to the same thing
		got2, n, err := ParseObject(b[s:e])
		if err != nil || !Equal(got2, o) || n != e-s {
			t.Fatalf("span %q of %q: %+v %v (consumed %d of %d)", b[s:e], b, got2, err, n, e-s)
		}
	})
}

func TestProgramReadBack(t *testing.T) {
	rapid.Check(t, func(t *rapid.T) {
		ops := GenProgram(t, ProgOpts{})
		p := GenPolicy(t)
		w := NewWriter(p, Rapid(t))
		spans := w.Program(ops)
		w.Trailer()
		b := w.Bytes()
		got, err := ParseProgram(b)
		if err != nil {
			t.Fatalf("program %q does not parse: %v", b, err)
		}
		if len(got) != len(ops) {
			t.Fatalf("program %q: %d operations, want %d", b, len(got), len(ops))
		}
		for i := range ops {
			if got[i].Operator != ops[i].Operator || len(got[i].Operands) != len(ops[i].Operands) {
				t.Fatalf("program %q: operation %d = %+v, want %+v", b, i, got[i], ops[i])
			}
			for j := range ops[i].Operands {
				if !Equal(got[i].Operands[j], ops[i].Operands[j]) {
					t.Fatalf("program %q: operand %d.%d = %+v, want %+v", b, i, j, got[i].Operands[j], ops[i].Operands[j])
				}
				sp := spans[i][j]
				o2, _, err := ParseObject(b[sp[0]:sp[1]])
				if err != nil || !Equal(o2, ops[i].Operands[j]) {
					t.Fatalf("program %q: span %q of operand %d.%d reads %+v %v", b, b[sp[0]:sp[1]], i, j, o2, err)
				}
			}
		}
	})
}

func TestCanonical(t *testing.T) {
	o := DictObj(Entry{Key: Bytes("A B"), Val: ArrayObj(IntObj(1), RealObj(true, "0", "50"), StringObj([]byte("a(b)\\\r\n")), RefObj(3, 0), NullObj(), BoolObj(true), NameStr(""))})
	got := string(Canonical(o))
	want := "<< /A#20B [ 1 -0.5 (a(b)\\\\\\r\\n) 3 0 R null true / ] >>"
	if got != want {
		t.Fatalf("canonical = %s\nwant        %s", got, want)
	}
}

func TestJSONRoundTrip(t *testing.T) {
	rapid.Check(t, func(t *rapid.T) {
		o := GenObj(t, GenOpts{})
		b, err := json.Marshal(o)
		if err != nil {
			t.Fatal(err)
		}
		var back Obj
		if err := json.Unmarshal(b, &back); err != nil {
			t.Fatal(err)
		}
		if !Equal(o, back) {
			t.Fatalf("json round trip: %s -> %+v, want %+v", b, back, o)
		}
	})
}
