package pdfsyn

import (
	"strings"

	"pgregory.net/rapid"
)

// GenOpts bounds the random object trees.
type GenOpts struct {
	MaxDepth int  // depth of the tree (1 = scalar only); default 4
	MaxLen   int  // maximum number of elements of an array / entries of a dictionary; default 4
	NoRefs   bool // no indirect references (content streams: §7.8.2 forbids them)
	NoBare   bool // top level is never null/true/false
}

func (o GenOpts) norm() GenOpts {
	if o.MaxDepth == 0 {
		o.MaxDepth = 4
	}
	if o.MaxLen == 0 {
		o.MaxLen = 4
	}
	return o
}

// GenInt draws an integer, weighted towards the limits of Annex C (32-bit).
func GenInt(t *rapid.T) int64 {
	switch rapid.IntRange(0, 6).Draw(t, "intClass") {
	case 0:
		return rapid.SampledFrom([]int64{0, 1, -1, 2147483647, -2147483647, -2147483648, 10, 255, 65535, 2147483646}).Draw(t, "intEdge")
	case 6: // beyond Annex C, but integers all the same: the limits of the 64-bit representation and of 32 bits unsigned
		return rapid.SampledFrom([]int64{9223372036854775807, -9223372036854775808, -9223372036854775807, 4294967295, 4294967296, -4294967296,
			9007199254740993, -9007199254740993}).Draw(t, "intEdge64")
	case 1, 2:
		return int64(rapid.IntRange(-1000, 1000).Draw(t, "intSmall"))
	default:
		return int64(rapid.Int32().Draw(t, "int32"))
	}
}

func digits(t *rapid.T, label string, min, max int) string {
	n := rapid.IntRange(min, max).Draw(t, label+"Len")
	var sb strings.Builder
	for i := 0; i < n; i++ {
		sb.WriteByte(byte('0' + rapid.IntRange(0, 9).Draw(t, label)))
	}
	return sb.String()
}

// GenReal draws a real as a canonical decimal: up to 38 integer digits
// (Annex C: largest real about 3.403e38) and up to 45 fraction digits
// (smallest about 1.175e-38).
func GenReal(t *rapid.T) Obj {
	neg := rapid.Bool().Draw(t, "realNeg")
	switch rapid.IntRange(0, 7).Draw(t, "realClass") {
	case 0: // integral value written as a real: 4.0
		return RealObj(neg, digits(t, "ip", 1, 4), "0")
	case 1: // pure fraction: 0.002
		return RealObj(neg, "0", digits(t, "fp", 1, 6))
	case 2: // very small
		return RealObj(neg, "0", strings.Repeat("0", rapid.IntRange(8, 40).Draw(t, "tinyZeros"))+digits(t, "fp", 1, 5))
	case 3: // very large
		return RealObj(neg, "1"+digits(t, "ip", 10, 37), digits(t, "fp", 1, 3))
	case 4: // the limits themselves
		return rapid.SampledFrom([]Obj{
			RealObj(neg, "340282346638528859811704183484516925440", "0"),
			RealObj(neg, "0", "000000000000000000000000000000000000011754943508222875"),
			RealObj(false, "0", "0"),
			RealObj(neg, "2147483647", "5"),
			RealObj(neg, "32767", "0"),
			RealObj(neg, "0", "5"),
			RealObj(neg, "17", "25"),
		}).Draw(t, "realEdge")
	default:
		return RealObj(neg, digits(t, "ip", 1, 6), digits(t, "fp", 1, 6))
	}
}

var asciiWords = []string{"Hello", "World", "Tj", "abc", "A", "x y", "0", "12", "7up", "a(b)c", "a\\b", "50%", "#1", "<tag>", "[x]", "{y}", "q/Q"}

// GenStringBytes draws the content of a string object: arbitrary bytes with
// classes that stress escapes, nested parentheses, end-of-line bytes and the
// octal/digit ambiguity.
func GenStringBytes(t *rapid.T) []byte {
	switch rapid.IntRange(0, 40).Draw(t, "strClass") % 11 {
	case 10: // longer than a 4 KiB read buffer: a short pattern repeated
		pat := rapid.SliceOfN(rapid.Byte(), 1, 7).Draw(t, "hugePattern")
		n := rapid.IntRange(4000, 5000).Draw(t, "hugeLen")
		b := make([]byte, n)
		for i := range b {
			b[i] = pat[i%len(pat)]
		}
		return b
	case 0:
		return []byte{}
	case 1:
		if rapid.IntRange(0, 2).Draw(t, "keywordString") == 0 {
			return []byte(rapid.SampledFrom(keywordWords).Draw(t, "keyword")) // (stream) is a string, not the keyword
		}
		return []byte(rapid.SampledFrom(asciiWords).Draw(t, "word"))
	case 2: // parentheses: balanced, nested, unbalanced
		return []byte(rapid.SampledFrom([]string{"()", "(())", "a(b(c)d)e", ")(", "(", ")", "(()", "())", "((", "))(("}).Draw(t, "parens"))
	case 3: // end-of-line bytes and other named escapes
		return rapid.SliceOfN(rapid.SampledFrom([]byte{'\n', '\r', '\t', '\b', '\f', 'a', ' ', '\\', '\n', '\r'}), 1, 6).Draw(t, "eols")
	case 4: // a control/high byte followed by digits (short octal forms must not swallow them)
		b := rapid.SliceOfN(rapid.SampledFrom([]byte{0, 1, 5, 7, 8, 27, 31, 127, 128, 255, '0', '1', '7', '8', '9', '3'}), 1, 8).Draw(t, "octmix")
		return b
	case 5: // UTF-16BE text string with BOM
		return append([]byte{0xFE, 0xFF}, rapid.SliceOfN(rapid.Byte(), 0, 8).Draw(t, "u16")...)
	case 6: // long
		return rapid.SliceOfN(rapid.Byte(), 40, 120).Draw(t, "long")
	default:
		return rapid.SliceOfN(rapid.Byte(), 1, 12).Draw(t, "bytes")
	}
}

var commonNames = []string{"Type", "F1", "Font", "A", "Length", "GS0", "Im1", "Name.With.Dots", "A;Name_With-Various***Characters?", "1.2", "$$", "@pattern", ".notdef", "a+b", "true", "null", "R", "Tj",
	// words that are keywords when they stand alone: as a name or inside a string they are ordinary data
	"stream", "endstream", "obj", "endobj", "xref", "trailer", "startxref", "false", "BI", "ID", "EI", "BT", "ET", "Do"}

var keywordWords = []string{"stream", "endstream", "obj", "endobj", "xref", "trailer", "startxref", "true", "false", "null", "R", "BI", "ID", "EI", "BT", "Tj"}

// GenNameBytes draws the bytes of a name (§7.3.5: any bytes except NUL).
func GenNameBytes(t *rapid.T) []byte {
	switch rapid.IntRange(0, 7).Draw(t, "nameClass") {
	case 0, 1, 2:
		return []byte(rapid.SampledFrom(commonNames).Draw(t, "nameWord"))
	case 3:
		return []byte{} // "/" alone is a valid name
	case 4: // delimiters, white space, number sign
		return rapid.SliceOfN(rapid.SampledFrom([]byte{'#', '(', ')', '<', '>', '[', ']', '{', '}', '/', '%', ' ', '\t', '\n', '\r', '\f', 'A', 'b', '1'}), 1, 6).Draw(t, "nameSpecial")
	case 5: // long (Annex C: 127 bytes)
		return rapid.SliceOfN(rapid.ByteRange(1, 255), 60, 127).Draw(t, "nameLong")
	default:
		return rapid.SliceOfN(rapid.ByteRange(1, 255), 1, 10).Draw(t, "nameBytes")
	}
}

func genScalar(t *rapid.T, o GenOpts, top bool) Obj {
	for {
		k := rapid.IntRange(0, 9).Draw(t, "scalarKind")
		switch k {
		case 0:
			if top && o.NoBare {
				continue
			}
			return NullObj()
		case 1:
			if top && o.NoBare {
				continue
			}
			return BoolObj(rapid.Bool().Draw(t, "bool"))
		case 2, 3:
			return IntObj(GenInt(t))
		case 4, 5:
			return GenReal(t)
		case 6, 7:
			return StringObj(GenStringBytes(t))
		case 8:
			return NameObj(GenNameBytes(t))
		default:
			if o.NoRefs {
				return NameObj(GenNameBytes(t))
			}
			// §7.3.10: object number positive, generation non-negative (max 65535)
			return RefObj(int64(rapid.IntRange(1, 99999).Draw(t, "refNum")),
				int64(rapid.SampledFrom([]int{0, 0, 0, 1, 7, 65535}).Draw(t, "refGen")))
		}
	}
}

// GenObj draws an object tree of depth <= o.MaxDepth.
func GenObj(t *rapid.T, o GenOpts) Obj {
	o = o.norm()
	return genObj(t, o, o.MaxDepth, true)
}

func genObj(t *rapid.T, o GenOpts, depth int, top bool) Obj {
	if depth <= 1 || rapid.IntRange(0, 9).Draw(t, "leaf") < 4 {
		return genScalar(t, o, top)
	}
	n := rapid.IntRange(0, o.MaxLen).Draw(t, "len")
	if rapid.Bool().Draw(t, "isDict") {
		d := Obj{K: Dict}
		seen := map[string]bool{}
		for i := 0; i < n; i++ {
			k := GenNameBytes(t)
			if seen[string(k)] {
				continue // keys are distinct (§7.3.7)
			}
			seen[string(k)] = true
			d.D = append(d.D, Entry{Key: k, Val: genObj(t, o, depth-1, false)})
		}
		return d
	}
	a := Obj{K: Array}
	for i := 0; i < n; i++ {
		a.A = append(a.A, genObj(t, o, depth-1, false))
	}
	return a
}

// GenPolicy draws a spelling policy (without any No… switch set).
func GenPolicy(t *rapid.T) Policy {
	return Policy{
		WS:       rapid.SampledFrom([]WSMode{WSSingle, WSMinimal, WSMaximal, WSMixed}).Draw(t, "ws"),
		EOL:      rapid.SampledFrom([]EOLMode{EOLLF, EOLCR, EOLCRLF, EOLMixed}).Draw(t, "eol"),
		Comments: rapid.IntRange(0, 2).Draw(t, "comments") == 0,
		Str:      rapid.SampledFrom([]StrMode{StrLiteral, StrHex, StrOctal, StrMixed, StrMixed}).Draw(t, "str"),
		Names:    rapid.SampledFrom([]NameMode{NameMinimal, NameAll, NameMixed}).Draw(t, "names"),
		Num:      rapid.SampledFrom([]NumMode{NumCanonical, NumVariants}).Draw(t, "num"),
	}
}

// Content-stream operators ---------------------------------------------------

// OperatorSig describes the operands an operator usually takes, as a string
// of type letters: n number, i integer, s string, N name, a array of
// numbers, t TJ array (strings and numbers), d dictionary, p property list
// (name or dictionary), * zero to four numbers, then optionally a name.
type OperatorSig struct {
	Op  string
	Sig string
}

// Operators is ISO 32000-1 Table 51 without the inline-image operators
// BI/ID/EI (a different lexical mode, outside C06).
var Operators = []OperatorSig{
	{"b", ""}, {"B", ""}, {"b*", ""}, {"B*", ""}, {"BDC", "Np"}, {"BMC", "N"}, {"BT", ""}, {"BX", ""},
	{"c", "nnnnnn"}, {"cm", "nnnnnn"}, {"CS", "N"}, {"cs", "N"}, {"d", "an"}, {"d0", "nn"}, {"d1", "nnnnnn"},
	{"Do", "N"}, {"DP", "Np"}, {"EMC", ""}, {"ET", ""}, {"EX", ""}, {"f", ""}, {"F", ""}, {"f*", ""},
	{"G", "n"}, {"g", "n"}, {"gs", "N"}, {"h", ""}, {"i", "n"}, {"j", "i"}, {"J", "i"}, {"K", "nnnn"}, {"k", "nnnn"},
	{"l", "nn"}, {"m", "nn"}, {"M", "n"}, {"MP", "N"}, {"n", ""}, {"q", ""}, {"Q", ""}, {"re", "nnnn"},
	{"RG", "nnn"}, {"rg", "nnn"}, {"ri", "N"}, {"s", ""}, {"S", ""}, {"SC", "*"}, {"sc", "*"}, {"SCN", "*"}, {"scn", "*"},
	{"sh", "N"}, {"T*", ""}, {"Tc", "n"}, {"Td", "nn"}, {"TD", "nn"}, {"Tf", "Nn"}, {"Tj", "s"}, {"TJ", "t"}, {"TL", "n"},
	{"Tm", "nnnnnn"}, {"Tr", "i"}, {"Ts", "n"}, {"Tw", "n"}, {"Tz", "n"}, {"v", "nnnn"}, {"w", "n"}, {"W", ""}, {"W*", ""},
	{"y", "nnnn"}, {"'", "s"}, {"\"", "nns"},
}

// ProgOpts restricts the random programs.
type ProgOpts struct {
	MaxOps        int  // default 12
	NoQuoteOps    bool // never ' or "
	NoDigitOps    bool // never d0 / d1
	NoBareKeys    bool // null/true/false never appear as direct operands
	NoDictOperand bool // no dictionary operands (BDC/DP use a name)
}

func genNumber(t *rapid.T) Obj {
	if rapid.Bool().Draw(t, "numIsInt") {
		return IntObj(GenInt(t))
	}
	return GenReal(t)
}

func genPropertyDict(t *rapid.T) Obj {
	return genObj(t, GenOpts{MaxDepth: 3, MaxLen: 3, NoRefs: true}.norm(), 3, false)
}

// GenOp draws one operation. Two modes: operands that follow the operator's
// signature, or arbitrary direct objects (any operand list is lexically legal:
// §7.8.2 "an operand is a direct object belonging to any of the basic PDF data
// types except a stream").
func GenOp(t *rapid.T, po ProgOpts) Op {
	var sig OperatorSig
	for {
		sig = Operators[rapid.IntRange(0, len(Operators)-1).Draw(t, "operator")]
		if po.NoQuoteOps && (sig.Op == "'" || sig.Op == "\"") {
			continue
		}
		if po.NoDigitOps && (sig.Op == "d0" || sig.Op == "d1") {
			continue
		}
		break
	}
	op := Op{Operator: sig.Op}
	if rapid.IntRange(0, 5).Draw(t, "arbitraryOperands") == 0 {
		n := rapid.IntRange(0, 4).Draw(t, "nOperands")
		for i := 0; i < n; i++ {
			op.Operands = append(op.Operands, GenObj(t, GenOpts{MaxDepth: 3, MaxLen: 3, NoRefs: true, NoBare: po.NoBareKeys}))
		}
		return op
	}
	for _, c := range sig.Sig {
		switch c {
		case 'n':
			op.Operands = append(op.Operands, genNumber(t))
		case 'i':
			op.Operands = append(op.Operands, IntObj(int64(rapid.IntRange(0, 7).Draw(t, "smallInt"))))
		case 's':
			op.Operands = append(op.Operands, StringObj(GenStringBytes(t)))
		case 'N':
			op.Operands = append(op.Operands, NameObj(GenNameBytes(t)))
		case 'a':
			a := Obj{K: Array}
			for i, n := 0, rapid.IntRange(0, 4).Draw(t, "dashLen"); i < n; i++ {
				a.A = append(a.A, genNumber(t))
			}
			op.Operands = append(op.Operands, a)
		case 't':
			a := Obj{K: Array}
			for i, n := 0, rapid.IntRange(0, 6).Draw(t, "tjLen"); i < n; i++ {
				if rapid.Bool().Draw(t, "tjIsString") {
					a.A = append(a.A, StringObj(GenStringBytes(t)))
				} else {
					a.A = append(a.A, genNumber(t))
				}
			}
			op.Operands = append(op.Operands, a)
		case 'p':
			if po.NoDictOperand || rapid.Bool().Draw(t, "propIsName") {
				op.Operands = append(op.Operands, NameObj(GenNameBytes(t)))
			} else {
				d := genPropertyDict(t)
				if d.K != Dict {
					d = DictObj(Entry{Key: Bytes("MCID"), Val: d})
				}
				op.Operands = append(op.Operands, d)
			}
		case '*':
			for i, n := 0, rapid.IntRange(0, 4).Draw(t, "scLen"); i < n; i++ {
				op.Operands = append(op.Operands, genNumber(t))
			}
			if rapid.Bool().Draw(t, "scName") {
				op.Operands = append(op.Operands, NameObj(GenNameBytes(t)))
			}
		}
	}
	return op
}

// GenProgram draws a sequence of operations.
func GenProgram(t *rapid.T, po ProgOpts) []Op {
	if po.MaxOps == 0 {
		po.MaxOps = 12
	}
	n := rapid.IntRange(1, po.MaxOps).Draw(t, "nOps")
	ops := make([]Op, 0, n)
	for i := 0; i < n; i++ {
		ops = append(ops, GenOp(t, po))
	}
	return ops
}
