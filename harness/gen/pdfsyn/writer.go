package pdfsyn

import (
	"fmt"
	"strconv"
	"strings"

	"pgregory.net/rapid"
)

// Chooser takes the decisions a Policy leaves open. Choose returns a value in
// [0, n). Option 0 is always the plainest alternative, so Fixed(0) yields a
// conservative spelling.
type Chooser interface {
	Choose(n int, label string) int
}

type fixedChooser int

func (f fixedChooser) Choose(n int, _ string) int {
	if int(f) >= n {
		return n - 1
	}
	return int(f)
}

// Fixed returns a Chooser that always picks option k (clamped).
func Fixed(k int) Chooser { return fixedChooser(k) }

type rapidChooser struct{ t *rapid.T }

func (r rapidChooser) Choose(n int, label string) int {
	if n <= 1 {
		return 0
	}
	return rapid.IntRange(0, n-1).Draw(r.t, label)
}

// Rapid returns a Chooser that takes every decision from rapid draws.
func Rapid(t *rapid.T) Chooser { return rapidChooser{t} }

// Spelling modes -------------------------------------------------------------

type WSMode string

const (
	WSSingle  WSMode = "single"  // exactly one SPACE between any two tokens (canonical form)
	WSMinimal WSMode = "minimal" // nothing unless two regular characters would touch, then one byte
	WSMaximal WSMode = "maximal" // a run of 1-4 bytes drawn from all six white-space bytes in every gap
	WSMixed   WSMode = "mixed"   // every gap chooses on its own
)

type EOLMode string

const (
	EOLLF    EOLMode = "lf"
	EOLCR    EOLMode = "cr"
	EOLCRLF  EOLMode = "crlf"
	EOLMixed EOLMode = "mixed"
)

type StrMode string

const (
	StrLiteral StrMode = "literal" // literal string, minimum of escapes
	StrHex     StrMode = "hex"     // hexadecimal string
	StrOctal   StrMode = "octal"   // literal string, every byte as \ddd
	StrMixed   StrMode = "mixed"   // per string: literal with per-byte choices | hex | octal
)

type NameMode string

const (
	NameMinimal NameMode = "minimal" // #xx only where required
	NameAll     NameMode = "all"     // #xx for every byte
	NameMixed   NameMode = "mixed"   // per byte
)

type NumMode string

const (
	NumCanonical NumMode = "canonical"
	NumVariants  NumMode = "variants" // + sign, leading zeros, .5, 4., trailing zeros
)

// Policy selects the spelling. The No… switches remove single constructs; a
// test harness uses them to keep a construct with a recorded defect out of
// the search (one switch per construct).
type Policy struct {
	WS       WSMode   `json:"ws"`
	EOL      EOLMode  `json:"eol"`
	Comments bool     `json:"comments"` // comments may appear in any gap between two tokens
	Str      StrMode  `json:"str"`
	Names    NameMode `json:"names"`
	Num      NumMode  `json:"num"`

	NoCommentInRef     bool     `json:"no_comment_in_ref,omitempty"`    // no comment between the three tokens of "n g R"
	NoOddHex           bool     `json:"no_odd_hex,omitempty"`           // never drop the final 0 digit of a hex string
	NoWSInHex          bool     `json:"no_ws_in_hex,omitempty"`         // no white space inside hex strings
	NoRawEOLInString   bool     `json:"no_raw_eol_in_string,omitempty"` // byte 0A is never written as a raw end-of-line
	NoRawCRForLF       bool     `json:"no_raw_cr_for_lf,omitempty"`     // a raw end-of-line standing for 0A is always a bare LF
	NoLineContinuation bool     `json:"no_line_continuation,omitempty"` // no "\" EOL inside literal strings
	NoIgnoredBackslash bool     `json:"no_ignored_backslash,omitempty"` // no "\x" for a character x without escape meaning
	NoKeywordAtDelim   bool     `json:"no_keyword_at_delim,omitempty"`  // true/false/null are always followed by white space
	NoRawHighName      bool     `json:"no_raw_high_name,omitempty"`     // bytes >= 0x80 in names are always #xx
	NoNULWhitespace    bool     `json:"no_nul_whitespace,omitempty"`    // NUL is not used as white space
	NoFFWhitespace     bool     `json:"no_ff_whitespace,omitempty"`     // FORM FEED is not used as white space
	NoSignedZeroPadInt bool     `json:"no_signed_zero_pad,omitempty"`   // integers are always canonical
	NoBareDotReal      bool     `json:"no_bare_dot_real,omitempty"`     // reals keep a digit on both sides of the point
	CommentTexts       []string `json:"comment_texts,omitempty"`        // pool of comment bodies (no CR/LF); nil = built-in pool
}

// CanonicalPolicy is the single-space canonical form.
func CanonicalPolicy() Policy {
	return Policy{WS: WSSingle, EOL: EOLLF, Str: StrLiteral, Names: NameMinimal, Num: NumCanonical}
}

// IsCanonical reports whether p can only produce the canonical form.
func (p Policy) IsCanonical() bool {
	return p.WS == WSSingle && !p.Comments && p.Str == StrLiteral && p.Names == NameMinimal && p.Num == NumCanonical
}

var defaultComments = []string{"", " comment", "c", " (", " )", " <<", " ]", " >", " endobj", " 1 0 R", " /Name", " \\", " true", "\x80\xff", "%", " stream", " [ 1 2", "\t\x00\x0c"}

// Writer spells tokens into a buffer, inserting legal separators.
type Writer struct {
	p   Policy
	c   Chooser
	buf []byte
	// prevRegular: the last token ended with a regular character (ISO 32000-1
	// §7.2.2), so a following token that starts with a regular character must
	// be separated from it by white space or a comment.
	prevRegular bool
	// first: nothing written yet (no gap needed, but one may be written)
	first bool
	// Used counts the spelling features that actually occurred, for labels.
	Used map[string]int
}

func NewWriter(p Policy, c Chooser) *Writer {
	if p.WS == "" {
		p.WS = WSSingle
	}
	if p.EOL == "" {
		p.EOL = EOLLF
	}
	if p.Str == "" {
		p.Str = StrLiteral
	}
	if p.Names == "" {
		p.Names = NameMinimal
	}
	if p.Num == "" {
		p.Num = NumCanonical
	}
	return &Writer{p: p, c: c, first: true, Used: map[string]int{}}
}

func (w *Writer) Bytes() []byte { return w.buf }
func (w *Writer) Len() int      { return len(w.buf) }

func (w *Writer) use(f string) { w.Used[f]++ }

// pick draws an index with the given weights; index 0 must have weight > 0.
func (w *Writer) pick(label string, weights ...int) int {
	total := 0
	for _, x := range weights {
		total += x
	}
	r := w.c.Choose(total, label)
	for i, x := range weights {
		if r < x {
			return i
		}
		r -= x
	}
	return 0
}

func (w *Writer) eol() string {
	switch w.p.EOL {
	case EOLCR:
		return "\r"
	case EOLCRLF:
		return "\r\n"
	case EOLMixed:
		return []string{"\n", "\r", "\r\n"}[w.pick("eol", 1, 1, 1)]
	}
	return "\n"
}

// wsByte draws one white-space byte (ISO 32000-1 Table 1: NUL, HT, LF, FF, CR, SP).
func (w *Writer) wsByte() byte {
	opts := []byte{' ', '\n', '\r', '\t'}
	if !w.p.NoFFWhitespace {
		opts = append(opts, '\f')
	}
	if !w.p.NoNULWhitespace {
		opts = append(opts, 0)
	}
	b := opts[w.c.Choose(len(opts), "wsByte")]
	switch b {
	case 0:
		w.use("ws:nul")
	case '\f':
		w.use("ws:ff")
	case '\r':
		w.use("ws:cr")
	case '\t':
		w.use("ws:tab")
	case '\n':
		w.use("ws:lf")
	}
	return b
}

func (w *Writer) wsRun() {
	n := 1 + w.c.Choose(4, "wsRunLen")
	for i := 0; i < n; i++ {
		w.buf = append(w.buf, w.wsByte())
	}
}

func (w *Writer) comment() {
	pool := w.p.CommentTexts
	if pool == nil {
		pool = defaultComments
	}
	body := pool[w.c.Choose(len(pool), "commentBody")]
	// §7.2.3: a comment runs from % to the end of the line and is treated as
	// a single white-space character.
	w.buf = append(w.buf, '%')
	w.buf = append(w.buf, body...)
	w.buf = append(w.buf, w.eol()...)
	w.use("gap:comment")
}

// gap writes the separator before a token that starts with a regular
// character (nextRegular) or with a delimiter. allowComment=false suppresses
// comments in this gap.
func (w *Writer) gap(nextRegular, allowComment bool) {
	required := w.prevRegular && nextRegular && !w.first
	wasFirst := w.first
	w.first = false
	comments := w.p.Comments && allowComment
	mode := w.p.WS
	if mode == WSMixed {
		mode = []WSMode{WSSingle, WSMinimal, WSMaximal}[w.pick("gapMode", 2, 2, 2)]
	}
	if wasFirst && mode == WSSingle {
		// no leading space in canonical form
		if comments && w.pick("leadComment", 3, 1) == 1 {
			w.comment()
		}
		return
	}
	switch mode {
	case WSSingle:
		if comments && w.pick("gapComment", 2, 1) == 1 {
			w.buf = append(w.buf, ' ')
			w.comment()
			return
		}
		w.buf = append(w.buf, ' ')
	case WSMinimal:
		if comments && w.pick("gapComment", 2, 1) == 1 {
			w.comment() // a comment separates on its own: "12%c<EOL>34" are two tokens
			return
		}
		if required {
			w.buf = append(w.buf, ' ')
		} else if !wasFirst {
			w.use("gap:none")
		}
	case WSMaximal:
		w.wsRun()
		if comments {
			for w.pick("gapComment", 2, 1) == 1 {
				w.comment()
				if w.pick("wsAfterComment", 1, 1) == 1 {
					w.wsRun()
				}
			}
		}
	}
}

// token appends raw token bytes after the proper gap.
func (w *Writer) token(b []byte, startsRegular, endsRegular, allowComment bool) (start, end int) {
	w.gap(startsRegular, allowComment)
	start = len(w.buf)
	w.buf = append(w.buf, b...)
	w.prevRegular = endsRegular
	return start, len(w.buf)
}

// Keyword writes a keyword or operator made of regular characters
// (true, obj, endobj, R, Tj, T*, ', " …).
func (w *Writer) Keyword(k string) (start, end int) {
	return w.token([]byte(k), true, true, true)
}

// Operator is Keyword under its content-stream name.
func (w *Writer) Operator(op string) (start, end int) { return w.Keyword(op) }

// Raw appends bytes verbatim (stream data, hand-made tokens); the next token
// is treated as if it followed a delimiter.
func (w *Writer) Raw(b []byte) {
	w.buf = append(w.buf, b...)
	w.prevRegular = false
	w.first = false
}

// EOL appends one end-of-line marker per the policy.
func (w *Writer) EOL() {
	w.buf = append(w.buf, w.eol()...)
	w.prevRegular = false
	w.first = false
}

// Sep forces white space here.
func (w *Writer) Sep() {
	if w.p.WS == WSMaximal {
		w.wsRun()
	} else {
		w.buf = append(w.buf, ' ')
	}
	w.prevRegular = false
	w.first = false
}

// Obj writes one object (recursively) and returns the byte range of the
// object itself, without the gap that precedes it.
func (w *Writer) Obj(o Obj) (start, end int) {
	switch o.K {
	case Null:
		return w.keywordObj("null")
	case Bool:
		if o.B {
			return w.keywordObj("true")
		}
		return w.keywordObj("false")
	case Int:
		return w.token([]byte(w.spellInt(o.I)), true, true, true)
	case Real:
		return w.token([]byte(w.spellReal(o)), true, true, true)
	case String:
		return w.token(w.spellString(o.S), false, false, true)
	case Name:
		// a name ends with regular characters; even the empty name "/" would
		// absorb a following regular character, so it counts as regular-ended
		return w.token(w.spellName(o.S), false, true, true)
	case Array:
		start, _ = w.token([]byte("["), false, false, true)
		for _, e := range o.A {
			w.Obj(e)
		}
		_, end = w.token([]byte("]"), false, false, true)
		return start, end
	case Dict:
		start, _ = w.token([]byte("<<"), false, false, true)
		for _, e := range o.D {
			w.token(w.spellName(e.Key), false, true, true)
			w.Obj(e.Val)
		}
		_, end = w.token([]byte(">>"), false, false, true)
		return start, end
	case Ref:
		// §7.3.10: object number, generation number, keyword R, separated by white space
		start, _ = w.token([]byte(strconv.FormatInt(o.I, 10)), true, true, true)
		inRef := !w.p.NoCommentInRef
		w.token([]byte(strconv.FormatInt(o.G, 10)), true, true, inRef)
		_, end = w.token([]byte("R"), true, true, inRef)
		return start, end
	}
	panic(fmt.Sprintf("pdfsyn: unknown kind %q", o.K))
}

func (w *Writer) keywordObj(k string) (start, end int) {
	start, end = w.token([]byte(k), true, true, true)
	if w.p.NoKeywordAtDelim {
		// force white space after the keyword whatever follows
		w.buf = append(w.buf, ' ')
		w.prevRegular = false
	}
	return start, end
}

// Program writes a content-stream program and returns, per operation, the
// byte ranges of its operands.
func (w *Writer) Program(ops []Op) [][][2]int {
	spans := make([][][2]int, len(ops))
	for i, op := range ops {
		for _, o := range op.Operands {
			s, e := w.Obj(o)
			spans[i] = append(spans[i], [2]int{s, e})
		}
		w.Operator(op.Operator)
	}
	return spans
}

// Trailer writes an optional final gap (white space / comment after the last token).
func (w *Writer) Trailer() {
	switch w.p.WS {
	case WSSingle:
		if w.p.Comments && w.pick("trailComment", 3, 1) == 1 {
			w.buf = append(w.buf, ' ')
			w.comment()
		}
	case WSMinimal:
		if w.p.Comments && w.pick("trailComment", 3, 1) == 1 {
			w.comment()
		}
	default:
		if w.pick("trailWS", 1, 1) == 1 {
			w.wsRun()
			if w.p.Comments && w.pick("trailComment", 2, 1) == 1 {
				w.comment()
			}
		}
	}
	w.prevRegular = false
}

// numbers ----------------------------------------------------------------------

// spellInt: §7.3.3 "one or more decimal digits with an optional sign".
func (w *Writer) spellInt(v int64) string {
	s := strconv.FormatInt(v, 10)
	if w.p.Num != NumVariants || w.p.NoSignedZeroPadInt {
		return s
	}
	neg := v < 0
	digits := strings.TrimPrefix(s, "-")
	switch w.pick("intForm", 3, 1, 1, 1) {
	case 0:
		return s
	case 1: // explicit plus sign
		if !neg {
			w.use("num:plus")
			return "+" + digits
		}
		return s
	case 2: // leading zeros
		w.use("num:leadzero")
		z := strings.Repeat("0", 1+w.c.Choose(3, "intZeros"))
		if neg {
			return "-" + z + digits
		}
		return z + digits
	default: // signed zero / plus with zeros
		if v == 0 {
			w.use("num:negzero")
			return "-0"
		}
		if !neg {
			w.use("num:plus")
			return "+0" + digits
		}
		return s
	}
}

// spellReal: §7.3.3 "one or more decimal digits with an optional sign and a
// leading, trailing, or embedded PERIOD": 34.5 -3.62 +123.6 4. -.002 0.0
func (w *Writer) spellReal(o Obj) string {
	neg, ip, fp := o.RealParts()
	sign := ""
	if neg {
		sign = "-"
	}
	if w.p.Num != NumVariants {
		return sign + ip + "." + fp
	}
	if !neg && w.pick("realPlus", 4, 1) == 1 {
		sign = "+"
		w.use("num:plus")
	}
	if neg == false && ip == "0" && fp == "0" && w.pick("realNegZero", 4, 1) == 1 {
		sign = "-" // -0.0 is the number zero
		w.use("num:negzero")
	}
	// integer part
	switch {
	case ip == "0" && fp != "0" && !w.p.NoBareDotReal && w.pick("realDropInt", 1, 1) == 1:
		ip = "" // .5
		w.use("num:.5")
	case w.pick("realLeadZero", 4, 1) == 1:
		ip = strings.Repeat("0", 1+w.c.Choose(3, "realZeros")) + ip
		w.use("num:leadzero")
	}
	// fraction part
	switch {
	case fp == "0" && ip != "" && !w.p.NoBareDotReal && w.pick("realDropFrac", 1, 1) == 1:
		fp = "" // 4.
		w.use("num:4.")
	case w.pick("realTrailZero", 4, 1) == 1:
		fp = fp + strings.Repeat("0", 1+w.c.Choose(3, "realTZeros"))
		w.use("num:trailzero")
	}
	return sign + ip + "." + fp
}

// names ------------------------------------------------------------------------

func isWhite(b byte) bool {
	return b == 0 || b == '\t' || b == '\n' || b == '\f' || b == '\r' || b == ' '
}

func isDelim(b byte) bool {
	switch b {
	case '(', ')', '<', '>', '[', ']', '{', '}', '/', '%':
		return true
	}
	return false
}

const hexUpper = "0123456789ABCDEF"
const hexLower = "0123456789abcdef"

func (w *Writer) hexDigit(n byte, label string) byte {
	if w.pick(label, 1, 1) == 1 {
		return hexLower[n]
	}
	return hexUpper[n]
}

// spellName: §7.3.5. "#" + two hex digits may stand for any byte except NUL
// and must be used for white space, delimiters and "#"; bytes outside
// 21h-7Eh "should" use it (so a raw high byte is tolerated syntax: it is a
// regular character).
func (w *Writer) spellName(b []byte) []byte {
	out := []byte{'/'}
	for _, c := range b {
		must := isWhite(c) || isDelim(c) || c == '#' || c < 0x21 || c == 0x7F
		if c >= 0x80 {
			must = w.p.NoRawHighName || w.p.Names != NameMixed
			if !must {
				must = w.pick("nameHighRaw", 3, 1) == 0
				if !must {
					w.use("name:rawhigh")
				}
			}
		}
		esc := must
		if !must {
			switch w.p.Names {
			case NameAll:
				esc = true
			case NameMixed:
				esc = w.pick("nameEsc", 2, 1) == 1
			}
		}
		if esc {
			w.use("name:#xx")
			out = append(out, '#', w.hexDigit(c>>4, "nameHexCase"), w.hexDigit(c&15, "nameHexCase"))
		} else {
			out = append(out, c)
		}
	}
	if len(b) == 0 {
		w.use("name:empty")
	}
	return out
}

// strings ----------------------------------------------------------------------

func (w *Writer) spellString(s []byte) []byte {
	mode := w.p.Str
	perByte := false
	if mode == StrMixed {
		switch w.pick("strForm", 3, 2, 1) {
		case 0:
			mode, perByte = StrLiteral, true
		case 1:
			mode = StrHex
		default:
			mode = StrOctal
		}
	}
	switch mode {
	case StrHex:
		return w.spellHex(s)
	case StrOctal:
		w.use("str:octal")
		return w.spellLiteral(s, false, true)
	}
	w.use("str:literal")
	return w.spellLiteral(s, perByte, false)
}

// spellHex: §7.3.4.3. White space inside is ignored; a missing final digit is
// taken as 0.
func (w *Writer) spellHex(s []byte) []byte {
	w.use("str:hex")
	out := []byte{'<'}
	var digits []byte
	for _, c := range s {
		digits = append(digits, c>>4, c&15)
	}
	if n := len(digits); n > 0 && digits[n-1] == 0 && !w.p.NoOddHex && w.pick("hexOdd", 1, 1) == 1 {
		digits = digits[:n-1]
		w.use("str:hex-odd")
	}
	ws := !w.p.NoWSInHex && (w.p.WS == WSMaximal || w.p.WS == WSMixed)
	lower := w.pick("hexCase", 1, 1, 1) // upper | lower | mixed
	for i, d := range digits {
		if ws && w.pick("hexWS", 4, 1) == 1 {
			out = append(out, w.wsByte())
			w.use("str:hex-ws")
			// a run of white space (CR LF, a line break and its indentation), also between the two digits of a byte
			for w.pick("hexWSRun", 2, 1) == 1 {
				out = append(out, w.wsByte())
				w.use("str:hex-ws-run")
			}
		}
		switch lower {
		case 0:
			out = append(out, hexUpper[d])
		case 1:
			out = append(out, hexLower[d])
		default:
			out = append(out, w.hexDigit(d, "hexDigitCase"))
		}
		_ = i
	}
	if ws && w.pick("hexWS", 4, 1) == 1 {
		out = append(out, w.wsByte())
		w.use("str:hex-ws")
	}
	return append(out, '>')
}

// spellLiteral: §7.3.4.2. perByte=false, allOctal=false gives the minimum of
// escapes. The result denotes exactly s:
//   - "(" and ")" may be raw only where they pair up; otherwise \( \) or octal;
//   - "\" is always escaped (\\ or \134);
//   - byte 0D is always escaped: a raw end-of-line of any kind denotes 0A;
//   - byte 0A may be a raw end-of-line (LF, CR or CRLF all denote one 0A);
//   - \ddd with fewer than three digits is only used when the next character
//     of the file is not a digit ("three octal digits shall be used … if the
//     next character of the string is also a digit");
//   - "\" + end-of-line (line continuation) denotes nothing;
//   - "\x" for an x without escape meaning denotes x.
func (w *Writer) spellLiteral(s []byte, perByte, allOctal bool) []byte {
	// which parentheses pair up
	// raw[i]: the parenthesis at i has a partner; partner[i] is its index.
	// Both parentheses of a pair are written raw or both are escaped.
	raw := make([]bool, len(s))
	partner := make([]int, len(s))
	var stack []int
	for i, c := range s {
		switch c {
		case '(':
			stack = append(stack, i)
		case ')':
			if n := len(stack); n > 0 {
				raw[stack[n-1]], raw[i] = true, true
				partner[stack[n-1]], partner[i] = i, stack[n-1]
				stack = stack[:n-1]
			}
		}
	}
	type piece struct {
		b        []byte
		shortOct bool // \d or \dd: must be padded when a digit follows
		rawLF    bool // begins with a raw LF byte
		endsCR   bool // ends with a raw CR byte
	}
	var pieces []piece
	named := map[byte]byte{'\n': 'n', '\r': 'r', '\t': 't', '\b': 'b', '\f': 'f', '(': '(', ')': ')', '\\': '\\'}
	octal := func(c byte) piece {
		full := []byte{'\\', '0' + c>>6, '0' + (c>>3)&7, '0' + c&7}
		if perByte && w.pick("octShort", 1, 1) == 1 {
			// strip leading zeros: \5 \53
			d := full[1:]
			for len(d) > 1 && d[0] == '0' {
				d = d[1:]
			}
			if len(d) < 3 {
				w.use("str:octal-short")
				return piece{b: append([]byte{'\\'}, d...), shortOct: true}
			}
		}
		return piece{b: full}
	}
	cont := func() {
		if perByte && !w.p.NoLineContinuation && w.pick("lineCont", 9, 1) == 1 {
			e := w.eol()
			pieces = append(pieces, piece{b: append([]byte{'\\'}, e...), endsCR: strings.HasSuffix(e, "\r")})
			w.use("str:line-continuation")
		}
	}
	for i, c := range s {
		cont()
		if allOctal {
			pieces = append(pieces, octal(c))
			continue
		}
		var p piece
		switch {
		case c == '(' || c == ')':
			if raw[i] && c == '(' && perByte && w.pick("parenRaw", 2, 1) == 1 {
				raw[i], raw[partner[i]] = false, false // escape the whole pair
			}
			if raw[i] {
				p = piece{b: []byte{c}}
				if perByte {
					w.use("str:raw-paren")
				}
			} else if perByte && w.pick("parenOct", 2, 1) == 1 {
				p = octal(c)
			} else {
				p = piece{b: []byte{'\\', c}}
				w.use("str:esc-paren")
			}
		case c == '\\':
			if perByte && w.pick("bsOct", 2, 1) == 1 {
				p = octal(c)
			} else {
				p = piece{b: []byte{'\\', '\\'}}
			}
		case c == '\r':
			if perByte && w.pick("crOct", 1, 1) == 1 {
				p = octal(c)
			} else {
				p = piece{b: []byte{'\\', 'r'}}
			}
		case c == '\n':
			k := 0
			if perByte {
				if w.p.NoRawEOLInString {
					k = w.pick("lfForm", 2, 1)
				} else {
					k = w.pick("lfForm", 2, 1, 2)
				}
			}
			switch k {
			case 0:
				p = piece{b: []byte{'\\', 'n'}}
			case 1:
				p = octal(c)
			default:
				// raw end-of-line marker
				e := "\n"
				if !w.p.NoRawCRForLF {
					e = w.eol()
				}
				p = piece{b: []byte(e), rawLF: e[0] == '\n', endsCR: strings.HasSuffix(e, "\r")}
				if e == "\n" {
					w.use("str:raw-lf")
				} else {
					w.use("str:raw-cr-for-lf")
				}
			}
		case c == '\t' || c == '\b' || c == '\f':
			k := 0
			if perByte {
				k = w.pick("ctlForm", 2, 1, 1)
			}
			switch k {
			case 0:
				p = piece{b: []byte{'\\', named[c]}}
			case 1:
				p = octal(c)
			default:
				p = piece{b: []byte{c}}
			}
		default:
			k := 0
			if perByte {
				k = w.pick("byteForm", 5, 1, 1)
			}
			switch {
			case k == 1:
				p = octal(c)
			case k == 2 && !w.p.NoIgnoredBackslash && c > 0x20 && c < 0x7F && !strings.ContainsRune("nrtbf()\\01234567", rune(c)):
				// Table 3 note: the backslash is ignored before any other character
				p = piece{b: []byte{'\\', c}}
				w.use("str:ignored-backslash")
			default:
				p = piece{b: []byte{c}}
				if c >= 0x80 || c < 0x20 {
					w.use("str:raw-binary")
				}
			}
		}
		pieces = append(pieces, p)
	}
	cont()
	// fix-ups that depend on the neighbour
	for i := 1; i < len(pieces); i++ {
		if pieces[i].rawLF && pieces[i-1].endsCR {
			// CR LF would read as one end-of-line: escape this LF instead
			pieces[i] = piece{b: []byte{'\\', 'n'}}
		}
	}
	out := []byte{'('}
	for i, p := range pieces {
		b := p.b
		if p.shortOct {
			next := byte(')')
			if i+1 < len(pieces) {
				next = pieces[i+1].b[0]
			}
			if next >= '0' && next <= '9' {
				d := b[1:]
				for len(d) < 3 {
					d = append([]byte{'0'}, d...)
				}
				b = append([]byte{'\\'}, d...)
			}
		}
		out = append(out, b...)
	}
	return append(out, ')')
}

// Spell is a convenience: one object under a policy.
func Spell(o Obj, p Policy, c Chooser) []byte {
	w := NewWriter(p, c)
	w.Obj(o)
	return w.Bytes()
}
