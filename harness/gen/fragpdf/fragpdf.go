// Package fragpdf lowers the synthetic pages of gen/frag to a PDF through
// gen/pdfw: one text object per fragment at its reported position, Courier
// metrics (advance 600/1000 em, the generator's metric).
package fragpdf

import (
	"fmt"
	"sort"
	"strings"

	"verif/harness/gen/frag"
	"verif/harness/gen/pdfw"
)

// Lower writes the pages as a PDF. Texts that fit WinAnsi use Courier /
// Courier-Bold (advance 600/1000 em, the generator's metric); other texts use a
// simple font with a ToUnicode CMap built for the document.
func Lower(pages []frag.Page) ([]byte, error) {
	runes := map[rune]int{}
	ascii := true
	for _, p := range pages {
		for _, f := range p.Frags {
			for _, r := range f.T {
				if r < 0x20 || r > 0x7E {
					ascii = false
				}
				if _, ok := runes[r]; !ok {
					runes[r] = len(runes) + 1
				}
			}
		}
	}
	if len(runes) > 250 {
		return nil, fmt.Errorf("too many distinct characters for a one-byte font: %d", len(runes))
	}
	doc := pdfw.Doc{}
	if ascii {
		doc.Fonts = []pdfw.FontSpec{{Res: "F1", Kind: "t1win", Base: "Courier"}, {Res: "F2", Kind: "t1win", Base: "Courier-Bold"}}
	} else {
		var m []pdfw.MapEnt
		for r, c := range runes {
			m = append(m, pdfw.MapEnt{Code: c, Text: string(r)})
		}
		sort.Slice(m, func(i, j int) bool { return m[i].Code < m[j].Code })
		doc.Fonts = []pdfw.FontSpec{{Res: "F1", Kind: "tu1", Base: "Courier", Map: m}, {Res: "F2", Kind: "tu1", Base: "Courier", Map: m}}
	}
	for i, p := range pages {
		w, h := p.Box()
		pg := pdfw.Page{ID: i + 1, MediaBox: [4]float64{0, 0, w, h}}
		for _, tf := range p.Fragments() { // reported coordinates (scale / flip applied)
			var b []byte
			for _, r := range tf.Text {
				if ascii {
					b = append(b, byte(r))
				} else {
					b = append(b, byte(runes[r]))
				}
			}
			font := 0
			if strings.Contains(tf.FontName, "Bold") {
				font = 1
			}
			pg.Lines = append(pg.Lines, pdfw.Line{Font: font, Size: tf.FontSize, X: tf.X, Y: tf.Y, Bytes: b, Text: tf.Text})
		}
		doc.Pages = append(doc.Pages, pg)
	}
	return pdfw.Write([]pdfw.Doc{doc}, pdfw.Layout{}).Bytes, nil
}
