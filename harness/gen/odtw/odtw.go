// Package odtw is an independent writer of OpenDocument Text (ODT) packages
// from the logical model in gen/wpmodel. It shares no code with tabula and is
// written from "Open Document Format for Office Applications (OpenDocument)
// Version 1.2", part 1 (schema; cited as §n) and part 3 (packages; cited as
// P3 §n). LibreOffice is not available in the sandbox, so the writer keeps to
// the spellings LibreOffice produces (cross-read against
// /repo/odt/testdata/sample1.odt) and is validated by reading the package back
// with archive/zip + encoding/xml in odtw_test.go.
//
// Logical content comes from wpmodel.Doc; everything physical is in Options.
package odtw

import (
	"fmt"
	"strconv"

	"pgregory.net/rapid"

	"verif/harness/gen/wpmodel"
)

// Namespace URIs (ODF 1.2 part 1 §1.3, table 1).
const (
	NsOffice   = "urn:oasis:names:tc:opendocument:xmlns:office:1.0"
	NsStyle    = "urn:oasis:names:tc:opendocument:xmlns:style:1.0"
	NsText     = "urn:oasis:names:tc:opendocument:xmlns:text:1.0"
	NsTable    = "urn:oasis:names:tc:opendocument:xmlns:table:1.0"
	NsFO       = "urn:oasis:names:tc:opendocument:xmlns:xsl-fo-compatible:1.0"
	NsXLink    = "http://www.w3.org/1999/xlink"
	NsDC       = "http://purl.org/dc/elements/1.1/"
	NsMeta     = "urn:oasis:names:tc:opendocument:xmlns:meta:1.0"
	NsManifest = "urn:oasis:names:tc:opendocument:xmlns:manifest:1.0"

	MimeType = "application/vnd.oasis.opendocument.text"
)

// Options are the physical choices of one package. The zero value is the
// spelling LibreOffice uses.
type Options struct {
	// XML.Pretty only indents between block-level elements; nothing is ever
	// inserted inside text:p / text:h (mixed content, §6.1.2).
	XML wpmodel.XMLStyle `json:"xml"`

	AltPrefixes bool `json:"alt_prefixes,omitempty"` // bind the namespaces to o, s, t, tb, f, xl instead of the conventional prefixes (Namespaces in XML §3)

	// Order permutes the members after "mimetype", which always stays first and
	// stored (P3 §3.3).
	Order    []int `json:"order,omitempty"`
	StoreAll bool  `json:"store_all,omitempty"`

	AlwaysStyles     bool `json:"always_styles,omitempty"`      // write styles.xml even when nothing refers to it
	ListStylesNamed  bool `json:"list_styles_named,omitempty"`  // text:list-style in styles.xml <office:styles> (§16.30) instead of content.xml <office:automatic-styles>
	NestedStyleName  bool `json:"nested_style_name,omitempty"`  // nested text:list elements repeat text:style-name (§19.880: optional there)
	NoDefaultOutline bool `json:"no_default_outline,omitempty"` // heading styles without style:default-outline-level (§19.470: optional; absent in ODF 1.0 files)
	SpacesAsS        bool `json:"spaces_as_s,omitempty"`        // every blank of a KSpace item as text:s (§6.1.3) even where a literal blank would survive
	SOmitC           bool `json:"s_omit_c,omitempty"`           // <text:s/> without text:c for one blank (§19.763: default 1)
	SpanOne          bool `json:"span_one,omitempty"`           // table:number-columns-spanned="1" / rows-spanned="1" on unmerged cells (§19.676/§19.678: default 1)
	ColumnsRepeated  bool `json:"columns_repeated,omitempty"`   // one table:table-column with table:number-columns-repeated (§19.675)
	Noise            bool `json:"noise,omitempty"`              // text:sequence-decls, text:soft-page-break (§5.6), text:bookmark (§6.2.1.2), office:forms
	Version11        bool `json:"version11,omitempty"`          // office:version="1.1"
	// ShadowAutoStyles: the <office:automatic-styles> of styles.xml hold styles with the names content.xml uses for
	// its own automatic styles (list styles with bullets and numbers swapped, heading-based paragraph styles without
	// a parent, T1). They format the header and footer of the master page only (§3.15.3): automatic styles of the
	// two files are separate name spaces.
	ShadowAutoStyles bool `json:"shadow_auto_styles,omitempty"`

	Extra []wpmodel.Member `json:"extra,omitempty"`
}

// GenOptions draws a set of physical options.
func GenOptions(t *rapid.T) Options {
	var o Options
	o.XML.Decl = rapid.SampledFrom([]string{"", "short", "short", "none"}).Draw(t, "decl")
	o.XML.ExplicitEnd = rapid.Bool().Draw(t, "explicit_end")
	o.XML.AttrReverse = rapid.Bool().Draw(t, "attr_reverse")
	o.XML.SingleQuote = rapid.IntRange(0, 3).Draw(t, "squote") == 3
	o.XML.Pretty = rapid.IntRange(0, 3).Draw(t, "pretty") == 3
	o.XML.CharRefs = rapid.IntRange(0, 3).Draw(t, "charrefs") == 3
	o.AltPrefixes = rapid.IntRange(0, 2).Draw(t, "altprefix") == 2
	if rapid.Bool().Draw(t, "shuffle") {
		o.Order = rapid.Permutation([]int{0, 1, 2, 3, 4, 5, 6}).Draw(t, "order")
	}
	o.StoreAll = rapid.IntRange(0, 3).Draw(t, "store") == 3
	o.AlwaysStyles = rapid.Bool().Draw(t, "always_styles")
	o.ShadowAutoStyles = rapid.IntRange(0, 3).Draw(t, "shadow_auto_styles") == 0
	o.ListStylesNamed = rapid.Bool().Draw(t, "list_styles_named")
	o.NestedStyleName = rapid.Bool().Draw(t, "nested_style_name")
	o.NoDefaultOutline = rapid.IntRange(0, 2).Draw(t, "no_default_outline") == 2
	o.SpacesAsS = rapid.Bool().Draw(t, "spaces_as_s")
	o.SOmitC = rapid.Bool().Draw(t, "s_omit_c")
	o.SpanOne = rapid.IntRange(0, 3).Draw(t, "span_one") == 3
	o.ColumnsRepeated = rapid.Bool().Draw(t, "columns_repeated")
	o.Noise = rapid.Bool().Draw(t, "noise")
	o.Version11 = rapid.IntRange(0, 3).Draw(t, "v11") == 3
	if rapid.IntRange(0, 3).Draw(t, "extras") == 3 {
		// members LibreOffice writes besides the ones tabula reads
		o.Extra = []wpmodel.Member{
			{Name: "settings.xml", Data: []byte(`<?xml version="1.0" encoding="UTF-8"?><office:document-settings xmlns:office="` + NsOffice + `" office:version="1.2"/>`)},
			{Name: "Thumbnails/thumbnail.png", Data: []byte{0x89, 'P', 'N', 'G'}},
			{Name: "Configurations2/"},
			{Name: "layout-cache", Data: []byte{1, 2, 3}},
		}
		if o.Order != nil {
			o.Order = rapid.Permutation([]int{0, 1, 2, 3, 4, 5, 6, 7, 8, 9, 10}).Draw(t, "order_extras")
		}
	}
	return o
}

// Write returns the bytes of an ODT package holding d.
func Write(d wpmodel.Doc, o Options) ([]byte, error) {
	parts, err := Parts(d, o)
	if err != nil {
		return nil, err
	}
	rest := wpmodel.Permute(parts[1:], o.Order)
	if o.StoreAll {
		for i := range rest {
			rest[i].Store = true
		}
	}
	return wpmodel.Zip(append(parts[:1:1], rest...))
}

// Parts returns the package members in canonical order: mimetype (stored),
// content.xml, styles.xml (when needed), meta.xml (when d.Meta is set),
// META-INF/manifest.xml, o.Extra. o.Order is not applied.
func Parts(d wpmodel.Doc, o Options) ([]wpmodel.Member, error) {
	if err := d.Validate(); err != nil {
		return nil, err
	}
	w := &writer{d: d, o: o}
	w.prefixes()
	return w.parts(), nil
}

// ---------------------------------------------------------------------------

type writer struct {
	d wpmodel.Doc
	o Options
	// prefixes
	office, style, text, table, fo, xlink string
	nlink, nbm                            int
}

func (w *writer) prefixes() {
	if w.o.AltPrefixes {
		w.office, w.style, w.text, w.table, w.fo, w.xlink = "o", "s", "t", "tb", "f", "xl"
	} else {
		w.office, w.style, w.text, w.table, w.fo, w.xlink = "office", "style", "text", "table", "fo", "xlink"
	}
}

func (w *writer) nsAttrs() []string {
	return []string{
		"xmlns:" + w.office, NsOffice, "xmlns:" + w.style, NsStyle, "xmlns:" + w.text, NsText,
		"xmlns:" + w.table, NsTable, "xmlns:" + w.fo, NsFO, "xmlns:" + w.xlink, NsXLink,
		"xmlns:dc", NsDC, "xmlns:meta", NsMeta,
		w.office + ":version", w.version(),
	}
}

func (w *writer) version() string {
	if w.o.Version11 {
		return "1.1"
	}
	return "1.2"
}

func (w *writer) needStyles() bool {
	if w.o.AlwaysStyles || w.o.ShadowAutoStyles || w.d.Header != nil || w.d.Footer != nil {
		return true
	}
	if w.o.ListStylesNamed && len(w.d.Lists) > 0 {
		return true
	}
	for _, b := range w.d.Blocks {
		if b.Kind == wpmodel.BHeading && b.How != wpmodel.HowDirect {
			return true
		}
		if b.Kind == wpmodel.BPara && b.Style != "" {
			return true
		}
	}
	return false
}

func (w *writer) parts() []wpmodel.Member {
	members := []wpmodel.Member{{Name: "mimetype", Data: []byte(MimeType), Store: true}}
	members = append(members, wpmodel.Member{Name: "content.xml", Data: w.content()})
	entries := []string{"content.xml"}
	if w.needStyles() {
		members = append(members, wpmodel.Member{Name: "styles.xml", Data: w.stylesXML()})
		entries = append(entries, "styles.xml")
	}
	if w.d.Meta != nil {
		members = append(members, wpmodel.Member{Name: "meta.xml", Data: w.meta()})
		entries = append(entries, "meta.xml")
	}
	// P3 §4: META-INF/manifest.xml lists every file except mimetype and itself
	x := wpmodel.NewXW(w.o.XML)
	x.Open("manifest:manifest", "xmlns:manifest", NsManifest, "manifest:version", w.version())
	x.Empty("manifest:file-entry", "manifest:full-path", "/", "manifest:version", w.version(), "manifest:media-type", MimeType)
	for _, e := range entries {
		x.Empty("manifest:file-entry", "manifest:full-path", e, "manifest:media-type", "text/xml")
	}
	for _, e := range w.o.Extra {
		x.Empty("manifest:file-entry", "manifest:full-path", e.Name, "manifest:media-type", "")
	}
	x.Close("manifest:manifest")
	members = append(members, wpmodel.Member{Name: "META-INF/manifest.xml", Data: x.Bytes()})
	return append(members, w.o.Extra...)
}

// ---- names ------------------------------------------------------------------

// HeadingStyleName is the text:style-name a heading block carries ("" = none).
func HeadingStyleName(how string, level int) string {
	n := strconv.Itoa(level)
	switch how {
	case wpmodel.HowBuiltin, wpmodel.HowLocalized:
		return "Heading_20_" + n // style:name is an NCName: the blank of "Heading 1" is encoded _20_ (§19.498.2)
	case wpmodel.HowCustom:
		return "Chapter_20_Title_20_L" + n
	case wpmodel.HowBased:
		return "PH" + n // automatic style derived from Heading_20_n (what LibreOffice writes for a directly formatted heading)
	case wpmodel.HowBased2:
		return "PS" + n // automatic style derived from a named style derived from Heading_20_n
	case wpmodel.HowOverride:
		return "Heading_20_" + strconv.Itoa(OverrideStyleLevel(level))
	}
	return ""
}

// OverrideStyleLevel is the level whose built-in heading style an "override"
// heading of the given level carries (always a different level); the text:h
// element's own text:outline-level is authoritative (§19.844.4).
func OverrideStyleLevel(level int) int {
	if level == 1 {
		return 2
	}
	return level - 1
}

func paraStyleName(s string) string {
	switch s {
	case "body":
		return "Text_20_body"
	case "lead":
		return "Text_20_body" // (the bold-off derivation is a DOCX matter; ODT: an ordinary body style)
	case "quote":
		return "Quotations"
	}
	return ""
}

// ListStyleName is the text:style-name of list index i.
func ListStyleName(i int) string { return "L" + strconv.Itoa(i+1) }

func numFormat(kind string) string {
	switch kind {
	case wpmodel.LLowerLetter:
		return "a"
	case wpmodel.LUpperLetter:
		return "A"
	case wpmodel.LLowerRoman:
		return "i"
	case wpmodel.LUpperRoman:
		return "I"
	}
	return "1"
}

// ---- content.xml --------------------------------------------------------------

func (w *writer) content() []byte {
	x := wpmodel.NewXW(w.o.XML)
	x.Open(w.office+":document-content", w.nsAttrs()...) // §3.1.3.2
	if w.o.Noise {
		x.Empty(w.office + ":scripts")
		x.Empty(w.office + ":font-face-decls")
	}
	x.Open(w.office + ":automatic-styles") // §3.15.3
	// text style for styled runs, outer style for nested spans
	x.Open(w.style+":style", w.style+":name", "T1", w.style+":family", "text")
	x.Empty(w.style+":text-properties", w.fo+":font-style", "italic", w.fo+":color", "#336699")
	x.Close(w.style + ":style")
	seen := map[string]bool{}
	for _, b := range w.d.Blocks {
		if b.Kind != wpmodel.BHeading {
			continue
		}
		n := strconv.Itoa(b.Level)
		name := HeadingStyleName(b.How, b.Level)
		if seen[name] {
			continue
		}
		switch b.How {
		case wpmodel.HowBased:
			seen[name] = true
			x.Open(w.style+":style", w.style+":name", name, w.style+":family", "paragraph", w.style+":parent-style-name", "Heading_20_"+n)
			x.Empty(w.style+":paragraph-properties", w.fo+":text-align", "center")
			x.Close(w.style + ":style")
		case wpmodel.HowBased2:
			seen[name] = true
			x.Open(w.style+":style", w.style+":name", name, w.style+":family", "paragraph", w.style+":parent-style-name", "Section_20_Head_20_L"+n)
			x.Empty(w.style+":paragraph-properties", w.fo+":text-align", "end")
			x.Close(w.style + ":style")
		}
	}
	if !w.o.ListStylesNamed {
		w.listStyles(x)
	}
	x.Close(w.office + ":automatic-styles")
	x.Open(w.office + ":body")
	x.Open(w.office + ":text") // §3.4
	if w.o.Noise {
		x.Empty(w.office + ":forms")
		x.Open(w.text + ":sequence-decls") // §7.4.11
		x.Empty(w.text+":sequence-decl", w.text+":display-outline-level", "0", w.text+":name", "Table")
		x.Close(w.text + ":sequence-decls")
	}
	bs := w.d.Blocks
	for i := 0; i < len(bs); {
		b := bs[i]
		switch b.Kind {
		case wpmodel.BPara:
			var kv []string
			if s := paraStyleName(b.Style); s != "" {
				kv = []string{w.text + ":style-name", s}
			}
			w.para(x, w.text+":p", kv, b.Runs, i%3 == 1)
			i++
		case wpmodel.BHeading:
			// §5.1.2 text:h; §19.844.4 text:outline-level is the heading's level
			var kv []string
			if s := HeadingStyleName(b.How, b.Level); s != "" {
				kv = append(kv, w.text+":style-name", s)
			}
			kv = append(kv, w.text+":outline-level", strconv.Itoa(b.Level))
			w.para(x, w.text+":h", kv, b.Runs, false)
			i++
		case wpmodel.BItem:
			j := i
			for j < len(bs) && bs[j].Kind == wpmodel.BItem && bs[j].List == b.List {
				j++
			}
			w.list(x, b.List, bs[i:j])
			i = j
		case wpmodel.BTable:
			w.tbl(x, b.Table, i)
			if w.o.Noise {
				x.Empty(w.text + ":soft-page-break") // §5.6: allowed between blocks
			}
			i++
		}
	}
	x.Close(w.office + ":text")
	x.Close(w.office + ":body")
	x.Close(w.office + ":document-content")
	return x.Bytes()
}

// listStyles writes one text:list-style per list definition (§16.30) with ten
// levels (§19.828: 1-based text:level).
func (w *writer) listStyles(x *wpmodel.XW) { w.listStylesAs(x, false) }

// listStylesAs writes the list styles; swapped exchanges bullets and numbers (decoys for ShadowAutoStyles).
func (w *writer) listStylesAs(x *wpmodel.XW, swapped bool) {
	for i, ld := range w.d.Lists {
		x.Open(w.text+":list-style", w.style+":name", ListStyleName(i))
		for lvl := 0; lvl < 10; lvl++ {
			k := ld.Kinds[lvl%len(ld.Kinds)]
			if swapped {
				if k == wpmodel.LBullet {
					k = wpmodel.LDecimal
				} else {
					k = wpmodel.LBullet
				}
			}
			if k == wpmodel.LBullet {
				x.Open(w.text+":list-level-style-bullet", w.text+":level", strconv.Itoa(lvl+1), w.text+":bullet-char", "•") // §16.31.3
				x.Empty(w.style + ":list-level-properties")
				x.Close(w.text + ":list-level-style-bullet")
			} else {
				x.Open(w.text+":list-level-style-number", w.text+":level", strconv.Itoa(lvl+1), w.style+":num-suffix", ".", w.style+":num-format", numFormat(k)) // §16.31.2, §19.500
				x.Empty(w.style + ":list-level-properties")
				x.Close(w.text + ":list-level-style-number")
			}
		}
		x.Close(w.text + ":list-style")
	}
}

// list writes one text:list (§5.3.1) for a maximal run of items of one list.
// The nesting depth of an item is the number of text:list ancestors minus one;
// a nested text:list is a child of a text:list-item (§5.3.3). Where the model
// jumps more than one level down (or starts below depth 0) the intermediate
// text:list-item elements have no paragraph of their own, which §5.3.3 allows
// (its content model is (text:number?, (text:p|text:h|text:list|text:soft-page-break)*)).
func (w *writer) list(x *wpmodel.XW, list int, items []wpmodel.Block) {
	lst, item := w.text+":list", w.text+":list-item"
	openList := func(depth int) {
		if depth == 0 || w.o.NestedStyleName {
			x.Open(lst, w.text+":style-name", ListStyleName(list))
		} else {
			x.Open(lst)
		}
	}
	// state: cur = depth of the innermost open text:list (-1 none); itemOpen[d]
	// = a text:list-item is open at depth d
	cur := -1
	itemOpen := make([]bool, 12)
	for _, it := range items {
		d := it.Depth
		// close deeper levels
		for cur > d {
			if itemOpen[cur] {
				x.Close(item)
				itemOpen[cur] = false
			}
			x.Close(lst)
			cur--
		}
		if cur == d && itemOpen[cur] {
			x.Close(item)
			itemOpen[cur] = false
		}
		// open down to d
		for cur < d {
			if cur >= 0 && !itemOpen[cur] {
				x.Open(item) // item without own paragraph that only carries the nested list
				itemOpen[cur] = true
			}
			cur++
			openList(cur)
		}
		x.Open(item)
		itemOpen[cur] = true
		w.para(x, w.text+":p", nil, it.Runs, false)
	}
	for cur >= 0 {
		if itemOpen[cur] {
			x.Close(item)
			itemOpen[cur] = false
		}
		x.Close(lst)
		cur--
	}
}

// para writes a paragraph-like element with mixed content. No white space is
// written inside it except the model's own.
func (w *writer) para(x *wpmodel.XW, name string, kv []string, p wpmodel.Para, bookmark bool) {
	if len(p) == 0 {
		x.Empty(name, kv...)
		return
	}
	x.Open(name, kv...)
	// §6.1.2: white space is collapsed; a blank survives only directly after a
	// non-white-space character. prevSolid tracks that condition over the whole
	// paragraph (element boundaries do not matter for collapsing).
	prevSolid := false
	blanks := func(n int, forceS bool) {
		if n <= 0 {
			return
		}
		if prevSolid && !forceS {
			x.Text(" ")
			n--
			prevSolid = false
		}
		if n > 0 {
			// §6.1.3 text:s: text:c blanks (default 1)
			if n == 1 && w.o.SOmitC {
				x.EmptyInline(w.text + ":s")
			} else {
				x.EmptyInline(w.text+":s", w.text+":c", strconv.Itoa(n))
			}
			prevSolid = false
		}
	}
	for ri, r := range p {
		var ends []string
		switch r.Wrap {
		case wpmodel.WLink:
			w.nlink++
			x.OpenInline(w.text+":a", w.xlink+":type", "simple", w.xlink+":href", fmt.Sprintf("https://example.org/%d", w.nlink)) // §6.1.8
			ends = append(ends, w.text+":a")
		case wpmodel.WNest:
			x.OpenInline(w.text+":span", w.text+":style-name", "Strong_20_Emphasis") // §6.1.7: text:span may contain text:span
			ends = append(ends, w.text+":span")
		}
		if r.Styled || r.Wrap == wpmodel.WNest {
			x.OpenInline(w.text+":span", w.text+":style-name", "T1")
			ends = append(ends, w.text+":span")
		}
		if w.o.Noise && bookmark && ri == 0 {
			w.nbm++
			x.EmptyInline(w.text+":bookmark", w.text+":name", fmt.Sprintf("bm%d", w.nbm)) // §6.2.1.2: no content
		}
		for _, it := range r.Items {
			switch it.Kind {
			case wpmodel.KText:
				s := it.Text
				if s[0] == ' ' {
					blanks(1, false)
					s = s[1:]
				}
				trail := false
				if s[len(s)-1] == ' ' {
					trail = true
					s = s[:len(s)-1]
				}
				x.Text(s)
				prevSolid = true
				if trail {
					blanks(1, false)
				}
			case wpmodel.KSym:
				x.Text(it.Text)
				prevSolid = true
			case wpmodel.KSpace:
				blanks(it.N, w.o.SpacesAsS)
			case wpmodel.KTab:
				x.EmptyInline(w.text + ":tab") // §6.1.4
				prevSolid = false
			case wpmodel.KBreak:
				x.EmptyInline(w.text + ":line-break") // §6.1.5
				prevSolid = false
			}
		}
		if w.o.Noise && ri == 0 && len(p) > 1 && name == w.text+":p" {
			x.EmptyInline(w.text + ":soft-page-break") // §5.6: allowed inside text:p, no content
		}
		for k := len(ends) - 1; k >= 0; k-- {
			x.CloseInline(ends[k])
		}
	}
	if w.o.Noise && len(p) > 1 {
		x.EmptyInline(w.text+":span", w.text+":style-name", "T1") // an empty span (§6.1.7: content optional)
	}
	x.CloseInline(name)
}

// tbl writes a table:table (§9.1.2).
func (w *writer) tbl(x *wpmodel.XW, t *wpmodel.Table, idx int) {
	name := "Table" + strconv.Itoa(idx+1)
	x.Open(w.table+":table", w.table+":name", name)
	if w.o.ColumnsRepeated && t.Cols > 2 && idx%2 == 1 {
		// a repeated declaration for all columns but the last, which has one of its own (as when the last column
		// differs in width)
		x.Empty(w.table+":table-column", w.table+":number-columns-repeated", strconv.Itoa(t.Cols-1))
		x.Empty(w.table + ":table-column")
	} else if w.o.ColumnsRepeated && t.Cols > 1 {
		x.Empty(w.table+":table-column", w.table+":number-columns-repeated", strconv.Itoa(t.Cols)) // §9.1.6, §19.675
	} else {
		for c := 0; c < t.Cols; c++ {
			x.Empty(w.table + ":table-column")
		}
	}
	g := t.Anchor()
	row := func(r int) {
		x.Open(w.table + ":table-row") // §9.1.3
		for c := 0; c < t.Cols; c++ {
			cell := t.Cells[g[r][c]]
			if cell.R != r || cell.C != c {
				x.Empty(w.table + ":covered-table-cell") // §9.1.5: one per covered grid position
				continue
			}
			kv := []string{w.office + ":value-type", "string"}
			if cell.CS > 1 || w.o.SpanOne {
				kv = append(kv, w.table+":number-columns-spanned", strconv.Itoa(cell.CS)) // §19.676
			}
			if cell.RS > 1 || w.o.SpanOne {
				kv = append(kv, w.table+":number-rows-spanned", strconv.Itoa(cell.RS)) // §19.678
			}
			x.Open(w.table+":table-cell", kv...) // §9.1.4
			for _, p := range cell.Paras {
				w.para(x, w.text+":p", nil, p, false)
			}
			x.Close(w.table + ":table-cell")
		}
		x.Close(w.table + ":table-row")
	}
	r := 0
	if t.HeaderRows > 0 {
		x.Open(w.table + ":table-header-rows") // §9.1.7: precedes the other rows
		for ; r < t.HeaderRows; r++ {
			row(r)
		}
		x.Close(w.table + ":table-header-rows")
	}
	for ; r < t.Rows; r++ {
		row(r)
	}
	x.Close(w.table + ":table")
}

// ---- styles.xml -----------------------------------------------------------------

// NamedStyle is one paragraph style of styles.xml <office:styles>.
type NamedStyle struct {
	Name, Display, Parent string
	OutlineLevel          int // style:default-outline-level, 0 = none
	Bold                  bool
	SizePt                int
}

// NamedStyles returns the paragraph styles written to styles.xml for d.
func NamedStyles(d wpmodel.Doc) []NamedStyle {
	defs := []NamedStyle{
		{Name: "Standard"},
		{Name: "Text_20_body", Display: "Text body", Parent: "Standard"},
		{Name: "Quotations", Parent: "Standard"},
		{Name: "Heading", Parent: "Standard", SizePt: 14},
		{Name: "Header", Parent: "Standard"},
		{Name: "Footer", Parent: "Standard"},
	}
	seen := map[string]bool{}
	add := func(s NamedStyle) {
		if !seen[s.Name] {
			seen[s.Name] = true
			defs = append(defs, s)
		}
	}
	builtin := func(level int) {
		n := strconv.Itoa(level)
		add(NamedStyle{Name: "Heading_20_" + n, Display: "Heading " + n, Parent: "Heading", OutlineLevel: level, Bold: true, SizePt: 20 - level})
	}
	for _, b := range d.Blocks {
		if b.Kind != wpmodel.BHeading {
			continue
		}
		n := strconv.Itoa(b.Level)
		switch b.How {
		case wpmodel.HowBuiltin, wpmodel.HowLocalized, wpmodel.HowBased:
			builtin(b.Level)
		case wpmodel.HowCustom:
			add(NamedStyle{Name: "Chapter_20_Title_20_L" + n, Display: "Chapter Title L" + n, Parent: "Standard", OutlineLevel: b.Level, SizePt: 13})
		case wpmodel.HowBased2:
			builtin(b.Level)
			add(NamedStyle{Name: "Section_20_Head_20_L" + n, Display: "Section Head L" + n, Parent: "Heading_20_" + n})
		case wpmodel.HowOverride:
			builtin(OverrideStyleLevel(b.Level))
		}
	}
	return defs
}

func (w *writer) stylesXML() []byte {
	x := wpmodel.NewXW(w.o.XML)
	x.Open(w.office+":document-styles", w.nsAttrs()...) // §3.1.3.3
	x.Open(w.office + ":styles")
	for _, s := range NamedStyles(w.d) {
		kv := []string{w.style + ":name", s.Name}
		if s.Display != "" {
			kv = append(kv, w.style+":display-name", s.Display)
		}
		kv = append(kv, w.style+":family", "paragraph")
		if s.Parent != "" {
			kv = append(kv, w.style+":parent-style-name", s.Parent)
		}
		if s.OutlineLevel > 0 && !w.o.NoDefaultOutline {
			kv = append(kv, w.style+":default-outline-level", strconv.Itoa(s.OutlineLevel)) // §19.470
		}
		kv = append(kv, w.style+":class", "text")
		if s.Bold || s.SizePt > 0 {
			x.Open(w.style+":style", kv...)
			tp := []string{}
			if s.SizePt > 0 {
				tp = append(tp, w.fo+":font-size", strconv.Itoa(s.SizePt)+"pt")
			}
			if s.Bold {
				tp = append(tp, w.fo+":font-weight", "bold")
			}
			x.Empty(w.style+":text-properties", tp...)
			x.Close(w.style + ":style")
		} else {
			x.Empty(w.style+":style", kv...)
		}
	}
	x.Empty(w.style+":style", w.style+":name", "Strong_20_Emphasis", w.style+":display-name", "Strong Emphasis", w.style+":family", "text")
	if w.o.ListStylesNamed {
		w.listStyles(x)
	}
	x.Close(w.office + ":styles")
	x.Open(w.office + ":automatic-styles")
	x.Open(w.style+":page-layout", w.style+":name", "pm1") // §16.5
	x.Empty(w.style+":page-layout-properties", w.fo+":page-width", "21cm", w.fo+":page-height", "29.7cm")
	x.Close(w.style + ":page-layout")
	if w.o.ShadowAutoStyles {
		x.Empty(w.style+":style", w.style+":name", "T1", w.style+":family", "text")
		seen := map[string]bool{}
		for _, b := range w.d.Blocks {
			if b.Kind != wpmodel.BHeading || (b.How != wpmodel.HowBased && b.How != wpmodel.HowBased2) {
				continue
			}
			if name := HeadingStyleName(b.How, b.Level); !seen[name] {
				seen[name] = true
				x.Empty(w.style+":style", w.style+":name", name, w.style+":family", "paragraph", w.style+":parent-style-name", "Standard")
			}
		}
		if !w.o.ListStylesNamed {
			w.listStylesAs(x, true)
		}
	}
	x.Close(w.office + ":automatic-styles")
	x.Open(w.office + ":master-styles")
	x.Open(w.style+":master-page", w.style+":name", "Standard", w.style+":page-layout-name", "pm1") // §16.9
	if w.d.Header != nil {
		x.Open(w.style + ":header") // §16.10
		for _, p := range w.d.Header {
			w.para(x, w.text+":p", []string{w.text + ":style-name", "Header"}, p, false)
		}
		x.Close(w.style + ":header")
	}
	if w.d.Footer != nil {
		x.Open(w.style + ":footer") // §16.11
		for _, p := range w.d.Footer {
			w.para(x, w.text+":p", []string{w.text + ":style-name", "Footer"}, p, false)
		}
		x.Close(w.style + ":footer")
	}
	x.Close(w.style + ":master-page")
	x.Close(w.office + ":master-styles")
	x.Close(w.office + ":document-styles")
	return x.Bytes()
}

// ---- meta.xml (§3.1.3.4, §4.3) ------------------------------------------------

func (w *writer) meta() []byte {
	x := wpmodel.NewXW(w.o.XML)
	x.Open(w.office+":document-meta", "xmlns:"+w.office, NsOffice, "xmlns:dc", NsDC, "xmlns:meta", NsMeta, w.office+":version", w.version())
	x.Open(w.office + ":meta")
	x.Leaf("dc:title", w.d.Meta.Title)
	x.Leaf("meta:initial-creator", w.d.Meta.Author)
	x.Leaf("dc:creator", w.d.Meta.Author)
	x.Leaf("meta:generator", "verif odtw")
	x.Close(w.office + ":meta")
	x.Close(w.office + ":document-meta")
	return x.Bytes()
}
