package odtw

// The writer is validated by an inverse written from ODF 1.2 only: the package
// is opened with archive/zip (P3 §3.3 mimetype rules, P3 §4 manifest), the
// parts are parsed with encoding/xml, office:text is interpreted by part 1
// (§5.1 paragraphs/headings, §5.3 lists, §9.1 tables, §6.1.2 white-space
// processing, §6.1.3-6.1.5 text:s / text:tab / text:line-break) and the result
// must equal the logical model.

import (
	"archive/zip"
	"bytes"
	"encoding/binary"
	"io"
	"reflect"
	"strconv"
	"strings"
	"testing"

	"pgregory.net/rapid"

	"verif/harness/gen/wpmodel"
)

type rbBlock struct {
	Kind    string
	Text    string
	Level   int
	Depth   int
	ListFmt string // "bullet" or num-format
	Rows    int
	Cols    int
	Cells   []rbCell
	Wraps   []string
}

type rbCell struct {
	R, C, RS, CS int
	Paras        []string
}

// paraText applies §6.1.2: collapse white-space runs in character data to one
// blank, drop it at the paragraph start and after text:s/text:tab/
// text:line-break; expand those elements.
func paraText(t testing.TB, p *wpmodel.Node, wraps *[]string) string {
	var sb strings.Builder
	prevWhite := true // paragraph start counts as preceded by white space
	var walk func(n *wpmodel.Node, depth int)
	walk = func(n *wpmodel.Node, depth int) {
		for _, k := range n.Kids {
			if k.IsText() {
				for _, r := range k.Text {
					if r == ' ' || r == '\t' || r == '\n' || r == '\r' {
						if !prevWhite {
							sb.WriteByte(' ')
							prevWhite = true
						}
						continue
					}
					sb.WriteRune(r)
					prevWhite = false
				}
				continue
			}
			if k.Space != NsText {
				t.Fatalf("foreign element %s in paragraph", k.Local)
			}
			switch k.Local {
			case "s":
				c := 1
				if k.Has(NsText, "c") {
					c, _ = strconv.Atoi(k.A(NsText, "c"))
				}
				sb.WriteString(strings.Repeat(" ", c))
				prevWhite = true
			case "tab":
				sb.WriteString("\t")
				prevWhite = true
			case "line-break":
				sb.WriteString("\n")
				prevWhite = true
			case "span":
				if depth > 0 && wraps != nil && n.Local == "span" {
					*wraps = append(*wraps, "nest")
				}
				walk(k, depth+1)
			case "a":
				if wraps != nil {
					*wraps = append(*wraps, "a")
				}
				if k.A(NsXLink, "href") == "" {
					t.Fatalf("text:a without href")
				}
				walk(k, depth+1)
			case "soft-page-break", "bookmark":
			default:
				t.Fatalf("unexpected inline element %s", k.Local)
			}
		}
	}
	walk(p, 0)
	return sb.String()
}

type listLevels map[string]string // 1-based level -> "bullet" | num-format

func readListStyles(n *wpmodel.Node, into map[string]listLevels) {
	if n == nil {
		return
	}
	for _, ls := range n.Elems("list-style") {
		m := listLevels{}
		for _, l := range ls.Elems("list-level-style-bullet") {
			m[l.A(NsText, "level")] = "bullet"
		}
		for _, l := range ls.Elems("list-level-style-number") {
			m[l.A(NsText, "level")] = l.A(NsStyle, "num-format")
		}
		into[ls.A(NsStyle, "name")] = m
	}
}

func readBack(t testing.TB, data []byte) (blocks []rbBlock, header, footer []string, names []string) {
	// P3 §3.3: first member "mimetype", stored, no extra field; its content at offset 38
	if len(data) < 38+len(MimeType) || string(data[30:38]) != "mimetype" || string(data[38:38+len(MimeType)]) != MimeType {
		t.Fatalf("mimetype member is not at the start of the package")
	}
	if binary.LittleEndian.Uint16(data[8:10]) != 0 || binary.LittleEndian.Uint16(data[28:30]) != 0 || binary.LittleEndian.Uint16(data[6:8])&8 != 0 {
		t.Fatalf("mimetype member must be stored, without extra field and data descriptor")
	}
	zr, err := zip.NewReader(bytes.NewReader(data), int64(len(data)))
	if err != nil {
		t.Fatalf("zip: %v", err)
	}
	files := map[string][]byte{}
	for _, f := range zr.File {
		rc, _ := f.Open()
		b, err := io.ReadAll(rc)
		rc.Close()
		if err != nil {
			t.Fatalf("read %s: %v", f.Name, err)
		}
		files[f.Name] = b
		names = append(names, f.Name)
	}
	dom := func(name string) *wpmodel.Node {
		n, err := wpmodel.ParseXML(files[name])
		if err != nil {
			t.Fatalf("%s not well-formed: %v\n%s", name, err, files[name])
		}
		return n
	}
	man := dom("META-INF/manifest.xml")
	listed := map[string]bool{}
	for _, e := range man.Elems("file-entry") {
		listed[e.A(NsManifest, "full-path")] = true
	}
	for n := range files {
		if n != "mimetype" && n != "META-INF/manifest.xml" && !listed[n] {
			t.Fatalf("%s is not in the manifest", n)
		}
	}
	if !listed["/"] {
		t.Fatalf("manifest lacks the root entry")
	}

	lists := map[string]listLevels{}
	styleParent := map[string]string{}
	var styles *wpmodel.Node
	if _, ok := files["styles.xml"]; ok {
		styles = dom("styles.xml")
		if styles.Space != NsOffice || styles.Local != "document-styles" {
			t.Fatalf("styles root")
		}
		readListStyles(styles.First("styles"), lists)
		for _, s := range styles.First("styles").Elems("style") {
			styleParent[s.A(NsStyle, "name")] = s.A(NsStyle, "parent-style-name")
		}
	}
	content := dom("content.xml")
	if content.Space != NsOffice || content.Local != "document-content" {
		t.Fatalf("content root")
	}
	readListStyles(content.First("automatic-styles"), lists)
	for _, s := range content.First("automatic-styles").Elems("style") {
		styleParent[s.A(NsStyle, "name")] = s.A(NsStyle, "parent-style-name")
	}
	checkStyle := func(n *wpmodel.Node) {
		if sn := n.A(NsText, "style-name"); sn != "" {
			for hops := 0; sn != ""; hops++ {
				p, ok := styleParent[sn]
				if !ok || hops > 10 {
					t.Fatalf("style %s (chain of %s) undefined", sn, n.A(NsText, "style-name"))
				}
				sn = p
			}
		}
	}

	text := content.Path("body", "text")
	if text == nil || text.Space != NsOffice {
		t.Fatalf("no office:text")
	}
	var readList func(l *wpmodel.Node, style string, depth int)
	readList = func(l *wpmodel.Node, style string, depth int) {
		if sn := l.A(NsText, "style-name"); sn != "" {
			style = sn
		}
		for _, it := range l.Elems() {
			if it.Local != "list-item" {
				t.Fatalf("unexpected list child %s", it.Local)
			}
			for _, c := range it.Elems() {
				switch c.Local {
				case "p":
					b := rbBlock{Kind: wpmodel.BItem, Depth: depth}
					b.Text = paraText(t, c, &b.Wraps)
					f, ok := lists[style][strconv.Itoa(depth+1)]
					if !ok {
						t.Fatalf("list style %s level %d undefined", style, depth+1)
					}
					b.ListFmt = f
					blocks = append(blocks, b)
				case "list":
					readList(c, style, depth+1)
				default:
					t.Fatalf("unexpected list-item child %s", c.Local)
				}
			}
		}
	}
	for _, k := range text.Elems() {
		switch k.Local {
		case "p":
			checkStyle(k)
			b := rbBlock{Kind: wpmodel.BPara}
			b.Text = paraText(t, k, &b.Wraps)
			blocks = append(blocks, b)
		case "h":
			checkStyle(k)
			b := rbBlock{Kind: wpmodel.BHeading}
			b.Text = paraText(t, k, &b.Wraps)
			b.Level, _ = strconv.Atoi(k.A(NsText, "outline-level"))
			blocks = append(blocks, b)
		case "list":
			readList(k, "", 0)
		case "table":
			blocks = append(blocks, readTable(t, k))
		case "sequence-decls", "forms", "soft-page-break":
		default:
			t.Fatalf("unexpected body child %s", k.Local)
		}
	}
	if styles != nil {
		mp := styles.Path("master-styles", "master-page")
		rd := func(n *wpmodel.Node) []string {
			if n == nil {
				return nil
			}
			out := []string{}
			for _, p := range n.Elems("p") {
				out = append(out, paraText(t, p, nil))
			}
			return out
		}
		header, footer = rd(mp.First("header")), rd(mp.First("footer"))
	}
	return
}

func readTable(t testing.TB, tbl *wpmodel.Node) rbBlock {
	b := rbBlock{Kind: wpmodel.BTable}
	for _, c := range tbl.Elems("table-column") {
		n := 1
		if c.Has(NsTable, "number-columns-repeated") {
			n, _ = strconv.Atoi(c.A(NsTable, "number-columns-repeated"))
		}
		b.Cols += n
	}
	var rows []*wpmodel.Node
	for _, k := range tbl.Elems() {
		switch k.Local {
		case "table-header-rows":
			if len(rows) > 0 {
				t.Fatalf("header rows after body rows")
			}
			rows = append(rows, k.Elems("table-row")...)
		case "table-row":
			rows = append(rows, k)
		}
	}
	b.Rows = len(rows)
	covered := make([][]bool, b.Rows)
	declared := make([][]bool, b.Rows)
	for r := range covered {
		covered[r] = make([]bool, b.Cols)
		declared[r] = make([]bool, b.Cols)
	}
	for r, row := range rows {
		c := 0
		for _, cell := range row.Elems() {
			if c >= b.Cols {
				t.Fatalf("row %d has too many cells", r)
			}
			switch cell.Local {
			case "covered-table-cell":
				declared[r][c] = true
			case "table-cell":
				rc := rbCell{R: r, C: c, RS: 1, CS: 1}
				if cell.Has(NsTable, "number-columns-spanned") {
					rc.CS, _ = strconv.Atoi(cell.A(NsTable, "number-columns-spanned"))
				}
				if cell.Has(NsTable, "number-rows-spanned") {
					rc.RS, _ = strconv.Atoi(cell.A(NsTable, "number-rows-spanned"))
				}
				for i := r; i < r+rc.RS; i++ {
					for j := c; j < c+rc.CS; j++ {
						if i != r || j != c {
							covered[i][j] = true
						}
					}
				}
				for _, p := range cell.Elems("p") {
					rc.Paras = append(rc.Paras, paraText(t, p, &b.Wraps))
				}
				b.Cells = append(b.Cells, rc)
			default:
				t.Fatalf("unexpected row child %s", cell.Local)
			}
			c++
		}
		if c != b.Cols {
			t.Fatalf("row %d has %d cells, table has %d columns", r, c, b.Cols)
		}
	}
	if !reflect.DeepEqual(covered, declared) {
		t.Fatalf("covered-table-cell elements do not match the spans")
	}
	return b
}

func expected(d wpmodel.Doc) []rbBlock {
	wrapsOf := func(p wpmodel.Para) []string {
		var ws []string
		for _, r := range p {
			switch r.Wrap {
			case wpmodel.WLink:
				ws = append(ws, "a")
			case wpmodel.WNest:
				ws = append(ws, "nest")
			}
		}
		return ws
	}
	var out []rbBlock
	for _, b := range d.Blocks {
		switch b.Kind {
		case wpmodel.BPara:
			out = append(out, rbBlock{Kind: wpmodel.BPara, Text: b.Runs.String(), Wraps: wrapsOf(b.Runs)})
		case wpmodel.BHeading:
			out = append(out, rbBlock{Kind: wpmodel.BHeading, Text: b.Runs.String(), Level: b.Level, Wraps: wrapsOf(b.Runs)})
		case wpmodel.BItem:
			f := "bullet"
			if k := d.Lists[b.List].Kinds[b.Depth]; k != wpmodel.LBullet {
				f = numFormat(k)
			}
			out = append(out, rbBlock{Kind: wpmodel.BItem, Text: b.Runs.String(), Depth: b.Depth, ListFmt: f, Wraps: wrapsOf(b.Runs)})
		case wpmodel.BTable:
			rb := rbBlock{Kind: wpmodel.BTable, Rows: b.Table.Rows, Cols: b.Table.Cols}
			for _, c := range b.Table.Cells {
				rc := rbCell{R: c.R, C: c.C, RS: c.RS, CS: c.CS}
				for _, p := range c.Paras {
					rc.Paras = append(rc.Paras, p.String())
					rb.Wraps = append(rb.Wraps, wrapsOf(p)...)
				}
				rb.Cells = append(rb.Cells, rc)
			}
			out = append(out, rb)
		}
	}
	return out
}

func paraStrings(ps []wpmodel.Para) []string {
	if ps == nil {
		return nil
	}
	out := []string{}
	for _, p := range ps {
		out = append(out, p.String())
	}
	return out
}

func TestRoundTrip(t *testing.T) {
	rapid.Check(t, func(rt *rapid.T) {
		d := wpmodel.GenDoc(rt, wpmodel.GenOpts{Wraps: []string{wpmodel.WLink, wpmodel.WNest}})
		o := GenOptions(rt)
		data, err := Write(d, o)
		if err != nil {
			rt.Fatalf("write: %v", err)
		}
		got, hdr, ftr, _ := readBack(t, data)
		want := expected(d)
		if len(got) != len(want) {
			rt.Fatalf("block count: got %d want %d", len(got), len(want))
		}
		for i := range want {
			if !reflect.DeepEqual(got[i], want[i]) {
				rt.Fatalf("block %d differs:\n got  %+v\n want %+v", i, got[i], want[i])
			}
		}
		if !reflect.DeepEqual(hdr, paraStrings(d.Header)) || !reflect.DeepEqual(ftr, paraStrings(d.Footer)) {
			rt.Fatalf("header/footer differ: %q %q want %q %q", hdr, ftr, paraStrings(d.Header), paraStrings(d.Footer))
		}
	})
}

func TestPlainSpelling(t *testing.T) {
	tx := func(s string) wpmodel.Inline { return wpmodel.Inline{Kind: wpmodel.KText, Text: s} }
	d := wpmodel.Doc{
		Lists: []wpmodel.ListDef{{Kinds: []string{wpmodel.LDecimal, wpmodel.LBullet, wpmodel.LBullet, wpmodel.LBullet}}},
		Blocks: []wpmodel.Block{
			{Kind: wpmodel.BHeading, Level: 3, How: wpmodel.HowBuiltin, Runs: wpmodel.Para{{Items: []wpmodel.Inline{tx("Tq0001")}}}},
			{Kind: wpmodel.BPara, Runs: wpmodel.Para{{Items: []wpmodel.Inline{tx("Tq0002 ")}}, {Styled: true, Items: []wpmodel.Inline{tx("Tq0003"), {Kind: wpmodel.KSpace, N: 3}, {Kind: wpmodel.KTab}, {Kind: wpmodel.KBreak}, tx(" Tq0004")}}}},
			{Kind: wpmodel.BItem, List: 0, Depth: 0, Runs: wpmodel.Para{{Items: []wpmodel.Inline{tx("Tq0005")}}}},
			{Kind: wpmodel.BItem, List: 0, Depth: 1, Runs: wpmodel.Para{{Items: []wpmodel.Inline{tx("Tq0006")}}}},
			{Kind: wpmodel.BItem, List: 0, Depth: 0, Runs: wpmodel.Para{{Items: []wpmodel.Inline{tx("Tq0007")}}}},
		}}
	parts, err := Parts(d, Options{})
	if err != nil {
		t.Fatal(err)
	}
	doc := string(parts[1].Data)
	want := `<text:h text:style-name="Heading_20_3" text:outline-level="3">Tq0001</text:h>` +
		`<text:p>Tq0002 <text:span text:style-name="T1">Tq0003 <text:s text:c="2"/><text:tab/><text:line-break/><text:s text:c="1"/>Tq0004</text:span></text:p>` +
		`<text:list text:style-name="L1"><text:list-item><text:p>Tq0005</text:p><text:list><text:list-item><text:p>Tq0006</text:p></text:list-item></text:list></text:list-item><text:list-item><text:p>Tq0007</text:p></text:list-item></text:list>`
	if !strings.Contains(doc, want) {
		t.Fatalf("unexpected spelling:\n%s", doc)
	}
}
