// Package vr is the shared runtime of the verification harness: evidence
// counters, the known-findings protocol, replay files and the glue that turns
// a (generator, oracle) pair into a rapid property.
//
// Every property package registers its checks with Register in an init
// function, calls Main from TestMain, and runs generated cases through Prop or
// Enumerate. The driver (/verif/vcheck) talks to the test binary through
// environment variables only:
//
//	VERIF_PROP        property id (C01 …)
//	VERIF_TIER        quick | thorough
//	VERIF_SEED        integer given by the caller (default 1)
//	VERIF_SHARD       index of this process, VERIF_SHARDS = number of processes
//	VERIF_EV_OUT      path of the evidence fragment to write at exit
//	VERIF_REPLAY_OUT  path prefix for failing-case files
//	VERIF_REPLAY      when set: run only the replay of that file
//	VERIF_KF          path of known_findings.json
package vr

import (
	"encoding/json"
	"flag"
	"fmt"
	"hash/fnv"
	"os"
	"runtime/debug"
	"sort"
	"strconv"
	"strings"
	"sync"
	"testing"
	"time"

	"pgregory.net/rapid"
)

// ---------------------------------------------------------------------------
// environment

var (
	PropID    = getenv("VERIF_PROP", "C00")
	Tier      = getenv("VERIF_TIER", "quick")
	Seed      = atoi(getenv("VERIF_SEED", "1"), 1)
	Shard     = atoi(getenv("VERIF_SHARD", "0"), 0)
	Shards    = atoi(getenv("VERIF_SHARDS", "1"), 1)
	evOut     = os.Getenv("VERIF_EV_OUT")
	replayOut = os.Getenv("VERIF_REPLAY_OUT")
	replayIn  = os.Getenv("VERIF_REPLAY")
	kfPath    = getenv("VERIF_KF", "/verif/known_findings.json")
)

func getenv(k, d string) string {
	if v := os.Getenv(k); v != "" {
		return v
	}
	return d
}

func atoi(s string, d int) int {
	n, err := strconv.Atoi(s)
	if err != nil {
		return d
	}
	return n
}

// Thorough reports whether the thorough tier was requested.
func Thorough() bool { return Tier == "thorough" }

// N picks a per-shard case count: q in the quick tier, t in the thorough tier.
// The total over all shards is roughly the requested number.
func N(q, t int) int {
	n := q
	if Thorough() {
		n = t
	}
	n = (n + Shards - 1) / Shards
	if n < 1 {
		n = 1
	}
	return n
}

// Mine reports whether enumeration index i belongs to this shard.
func Mine(i int) bool { return i%Shards == Shard }

// ---------------------------------------------------------------------------
// check registry

// CheckFn runs the oracle on a JSON-encoded case and returns nil when the
// property holds on it.
type CheckFn func(raw json.RawMessage) error

var registry = map[string]CheckFn{}

// Register makes a check available to replay files and known-finding probes.
func Register[C any](name string, check func(C) error) {
	registry[name] = func(raw json.RawMessage) error {
		var c C
		if err := json.Unmarshal(raw, &c); err != nil {
			return fmt.Errorf("replay: cannot decode case for %s: %v", name, err)
		}
		return Safe(check, c)
	}
}

// Safe runs check and converts a panic into an error (a panic inside tabula on
// a generated, valid input is a wrong answer for every property).
func Safe[C any](check func(C) error, c C) (err error) {
	defer func() {
		if r := recover(); r != nil {
			st := string(debug.Stack())
			err = fmt.Errorf("panic: %v\n%s", r, trimStack(st))
		}
	}()
	return check(c)
}

func trimStack(s string) string {
	lines := strings.Split(s, "\n")
	var out []string
	for i := 0; i < len(lines) && len(out) < 24; i++ {
		if strings.Contains(lines[i], "tsawler/tabula") || strings.Contains(lines[i], "/repo/") {
			out = append(out, lines[i])
		}
	}
	return strings.Join(out, "\n")
}

// ---------------------------------------------------------------------------
// replay files

// ReplayFile is the on-disk form of one failing (or probe) case.
type ReplayFile struct {
	Property string          `json:"property"`
	Check    string          `json:"check"`
	Error    string          `json:"error,omitempty"`
	Case     json.RawMessage `json:"case"`
}

func writeReplay(check string, c any, err error) string {
	if replayOut == "" {
		return ""
	}
	raw, jerr := json.MarshalIndent(c, "", " ")
	if jerr != nil {
		raw, _ = json.Marshal(fmt.Sprintf("unserialisable case: %v", jerr))
	}
	rf := ReplayFile{Property: PropID, Check: check, Error: err.Error(), Case: raw}
	b, _ := json.MarshalIndent(rf, "", " ")
	path := fmt.Sprintf("%s.%s.json", replayOut, check)
	_ = os.WriteFile(path, b, 0o644)
	return path
}

// LoadReplay reads a replay file.
func LoadReplay(path string) (*ReplayFile, error) {
	b, err := os.ReadFile(path)
	if err != nil {
		return nil, err
	}
	var rf ReplayFile
	if err := json.Unmarshal(b, &rf); err != nil {
		return nil, err
	}
	return &rf, nil
}

// RunReplay executes the registered check named in the file.
func RunReplay(rf *ReplayFile) error {
	fn, ok := registry[rf.Check]
	if !ok {
		return fmt.Errorf("replay: unknown check %q", rf.Check)
	}
	return fn(rf.Case)
}

// ---------------------------------------------------------------------------
// known findings

type Finding struct {
	Property string `json:"property"`
	ID       string `json:"id"`
	Feature  string `json:"feature"` // generator feature switched off while the probe fails
	Probe    string `json:"probe"`   // replay file, relative to /verif
	What     string `json:"what"`
}

type kfFile struct {
	Findings []Finding        `json:"findings"`
	Fixed    []map[string]any `json:"fixed"`
}

var (
	offMu    sync.Mutex
	off      = map[string]bool{}
	excluded = map[string]int{}
	knownOut []string
)

// Off reports whether a generator feature is switched off because a listed
// known finding's probe still fails on the current tree. Each time a
// generator wanted the feature and had to do without, call Excluded.
func Off(feature string) bool {
	offMu.Lock()
	defer offMu.Unlock()
	return off[feature]
}

// Want is the usual generator idiom: the generator drew `want`; if the feature
// is off, the draw is overridden and counted.
func Want(feature string, want bool) bool {
	if !want {
		return false
	}
	offMu.Lock()
	defer offMu.Unlock()
	if off[feature] {
		excluded[feature]++
		return false
	}
	return true
}

func kfRoot() string {
	if i := strings.LastIndex(kfPath, "/"); i >= 0 {
		return kfPath[:i]
	}
	return "."
}

func loadFindings() {
	var all []Finding
	paths := []string{kfPath}
	// while several people work on the harness at once, per-property fragments live in known_findings.d/
	if ents, err := os.ReadDir(kfRoot() + "/known_findings.d"); err == nil {
		for _, e := range ents {
			if strings.HasSuffix(e.Name(), ".json") {
				paths = append(paths, kfRoot()+"/known_findings.d/"+e.Name())
			}
		}
	}
	for _, p := range paths {
		b, err := os.ReadFile(p)
		if err != nil {
			continue
		}
		var f kfFile
		if err := json.Unmarshal(b, &f); err != nil {
			fmt.Printf("INFRA: cannot parse %s: %v\n", p, err)
			os.Exit(3)
		}
		all = append(all, f.Findings...)
	}
	for _, k := range all {
		if k.Property != PropID {
			continue
		}
		rf, err := LoadReplay(kfRoot() + "/" + k.Probe)
		if err != nil {
			fmt.Printf("INFRA: known finding %s: %v\n", k.ID, err)
			os.Exit(3)
		}
		if perr := RunReplay(rf); perr != nil {
			// still fails on this tree: report, exclude from the search
			if Shard == 0 {
				fmt.Printf("KNOWN-FINDING: property=%s id=%s %s\n", PropID, k.ID, k.What)
			}
			knownOut = append(knownOut, k.ID)
			if k.Feature != "" {
				off[k.Feature] = true
			}
		}
	}
}

// ---------------------------------------------------------------------------
// evidence

type evState struct {
	mu       sync.Mutex
	evals    int
	nontriv  map[uint64]struct{}
	labels   map[string]int
	samples  []any
	perCheck map[string]int
	exh      map[string]bool
	start    time.Time
}

var evs = evState{nontriv: map[uint64]struct{}{}, labels: map[string]int{}, perCheck: map[string]int{}, exh: map[string]bool{}, start: time.Now()}

const maxSamples = 4

// Meta describes one generated case for the evidence file.
type Meta struct {
	FP         string   // fingerprint: equal FP <=> same case
	NonTrivial bool     // by the property's stated rule
	Labels     []string // generator classes this case falls in
}

func hash64(s string) uint64 {
	h := fnv.New64a()
	h.Write([]byte(s))
	return h.Sum64()
}

// Count records one executed case.
func Count(check string, m Meta, sample func() any) {
	evs.mu.Lock()
	defer evs.mu.Unlock()
	evs.evals++
	evs.perCheck[check]++
	for _, l := range m.Labels {
		evs.labels[l]++
	}
	if m.NonTrivial {
		h := hash64(check + "\x00" + m.FP)
		if _, ok := evs.nontriv[h]; !ok {
			evs.nontriv[h] = struct{}{}
			// keep samples spread over the run: the 1st, 10th, 100th, 1000th distinct non-trivial case
			n := len(evs.nontriv)
			if sample != nil && len(evs.samples) < maxSamples && (n == 1 || n == 10 || n == 100 || n == 1000) {
				evs.samples = append(evs.samples, map[string]any{"check": check, "case": sample()})
			}
		}
	}
}

// Label bumps a free-form counter.
func Label(l string) {
	evs.mu.Lock()
	evs.labels[l]++
	evs.mu.Unlock()
}

// Exhaustive marks a sub-space as completely enumerated by this run.
func Exhaustive(name string) {
	evs.mu.Lock()
	evs.exh[name] = true
	evs.mu.Unlock()
}

type fragment struct {
	Property   string         `json:"property"`
	Shard      int            `json:"shard"`
	Evals      int            `json:"evaluations"`
	NonTrivial []uint64       `json:"nontrivial_hashes"`
	Labels     map[string]int `json:"labels"`
	PerCheck   map[string]int `json:"per_check"`
	Samples    []any          `json:"samples"`
	Excluded   map[string]int `json:"excluded_by_known_finding"`
	Known      []string       `json:"known_findings_still_failing"`
	Exhaustive []string       `json:"exhaustive_subspaces"`
	WallS      float64        `json:"wall_s"`
}

func flush() {
	if evOut == "" {
		return
	}
	evs.mu.Lock()
	defer evs.mu.Unlock()
	fr := fragment{Property: PropID, Shard: Shard, Evals: evs.evals, Labels: evs.labels, PerCheck: evs.perCheck,
		Samples: evs.samples, Excluded: excluded, Known: knownOut, WallS: time.Since(evs.start).Seconds()}
	for h := range evs.nontriv {
		fr.NonTrivial = append(fr.NonTrivial, h)
	}
	sort.Slice(fr.NonTrivial, func(i, j int) bool { return fr.NonTrivial[i] < fr.NonTrivial[j] })
	for k := range evs.exh {
		fr.Exhaustive = append(fr.Exhaustive, k)
	}
	sort.Strings(fr.Exhaustive)
	b, _ := json.Marshal(fr)
	_ = os.WriteFile(evOut, b, 0o644)
}

// ---------------------------------------------------------------------------
// running

var atExit []func()

// AtExit registers a clean-up function that Main runs before the process exits.
func AtExit(f func()) { atExit = append(atExit, f) }

func exit(code int) {
	for _, f := range atExit {
		f()
	}
	os.Exit(code)
}

// Main is called from TestMain of every property package.
func Main(m *testing.M) {
	flag.Parse()
	if replayIn != "" {
		rf, err := LoadReplay(replayIn)
		if err != nil {
			fmt.Printf("INFRA: %v\n", err)
			exit(3)
		}
		if err := RunReplay(rf); err != nil {
			fmt.Printf("REPLAY-FAIL check=%s: %v\n", rf.Check, err)
			exit(1)
		}
		fmt.Printf("REPLAY-PASS check=%s\n", rf.Check)
		exit(0)
	}
	loadFindings()
	code := m.Run()
	flush()
	exit(code)
}

// rapidSeed derives the per-shard PRNG value (never 0: rapid treats 0 as random).
func rapidSeed(check string) uint64 {
	s := uint64(Seed)*1000003 + uint64(Shard)*7919 + hash64(check)%1000 + 1
	if s == 0 {
		s = 1
	}
	return s
}

// Prop runs `checks` generated cases of one (generator, oracle) pair.
// gen must take every random choice from t; check must be a pure function of
// the case.
func Prop[C any](t *testing.T, name string, checks int, gen func(*rapid.T) C, meta func(C) Meta, check func(C) error) {
	t.Helper()
	_ = flag.Set("rapid.checks", strconv.Itoa(checks))
	_ = flag.Set("rapid.seed", strconv.FormatUint(rapidSeed(name), 10))
	_ = flag.Set("rapid.nofailfile", "true")
	rapid.Check(t, func(rt *rapid.T) {
		c := gen(rt)
		m := meta(c)
		Count(name, m, func() any { return c })
		if err := Safe(check, c); err != nil {
			p := writeReplay(name, c, err)
			rt.Fatalf("property %s violated (%s): %v\nreplay file: %s", PropID, name, err, p)
		}
	})
}

// One runs a single enumerated case (no rapid): used by exhaustive loops.
// It returns false after recording the failure; the caller should stop.
func One[C any](t *testing.T, name string, c C, m Meta, check func(C) error) bool {
	t.Helper()
	Count(name, m, func() any { return c })
	if err := Safe(check, c); err != nil {
		p := writeReplay(name, c, err)
		t.Errorf("property %s violated (%s): %v\nreplay file: %s", PropID, name, err, p)
		return false
	}
	return true
}
