// C13 — Splitting respects the size limit and never corrupts text.
//
// Three (generator, oracle) pairs, all over texts from gen/txt:
//
//	split    rag.SizeCalculator.SplitToSize(text, nil) and the same text as the only
//	         paragraph of a document through rag.ChunkDocumentWithConfig
//	overlap  rag.OverlapGenerator.GenerateOverlap and rag.ApplyOverlapToChunks
//	layout   rag.Chunker.Chunk / ChunkWithOverlapEnabled (sentence packing of oversized
//	         paragraphs, overlap derived from ChunkerConfig)
//
// Oracle clauses (statement of C13): termination; the pieces contain exactly the
// non-white-space characters of the input, in order; every piece is valid UTF-8
// (inputs always are); in the sub-domain the statement names (hard maximum in
// characters or estimated tokens, >= 200, a U+0020 at least every 50 bytes) no
// piece is longer than the maximum, counted in runes — the weakest reading of
// "characters"; overlap text is a suffix of the previous chunk's own content
// (white space aside), valid UTF-8, at most MaxOverlap runes, and the chunk
// still ends with its own content.
package c13

import (
	"encoding/json"
	"errors"
	"fmt"
	"os"
	"reflect"
	"runtime/debug"
	"strings"
	"syscall"
	"testing"
	"time"
	"unicode"
	"unicode/utf8"

	"github.com/tsawler/tabula/model"
	"github.com/tsawler/tabula/rag"
	"pgregory.net/rapid"

	"verif/harness/gen/txt"
	"verif/harness/vr"
)

func TestMain(m *testing.M) { vr.Main(m) }

func first(bs []rag.Boundary) any {
	if len(bs) == 0 {
		return nil
	}
	return bs[0]
}

// ---------------------------------------------------------------------------
// helpers shared by the oracles

// squeeze removes every white-space rune ("white space aside" in the statement).
func squeeze(s string) string {
	return strings.Map(func(r rune) rune {
		if unicode.IsSpace(r) {
			return -1
		}
		return r
	}, s)
}

// maxGap is the longest run of bytes of s without a U+0020 (including the run
// before the first and after the last space).
func maxGap(s string) int {
	gap, best := 0, 0
	for i := 0; i < len(s); i++ {
		if s[i] == ' ' {
			gap = 0
			continue
		}
		gap++
		if gap > best {
			best = gap
		}
	}
	return best
}

func hasMultibyte(s string) bool {
	for i := 0; i < len(s); i++ {
		if s[i] >= 0x80 {
			return true
		}
	}
	return false
}

func clip(s string) string {
	if len(s) > 60 {
		return fmt.Sprintf("%q…(%d bytes)", s[:60], len(s))
	}
	return fmt.Sprintf("%q", s)
}

// cpuBudget converts a non-terminating call into a failure. It is measured in
// CPU time of this process (getrusage), not in wall time, so a busy machine
// cannot make it fire. The generator bounds the cost of a terminating call
// (SplitToSize re-measures the whole remaining text for every piece, i.e. it
// is quadratic in len(text)/piece size) to well under a second of CPU.
const cpuBudget = 15 * time.Second

func cpuNow() time.Duration {
	var ru syscall.Rusage
	if err := syscall.Getrusage(syscall.RUSAGE_SELF, &ru); err != nil {
		return 0
	}
	return time.Duration(ru.Utime.Nano() + ru.Stime.Nano())
}

// hangError marks a call that did not come back.
type hangError struct{ msg string }

func (e *hangError) Error() string { return e.msg }

// guarded runs f and reports non-termination or a panic as an error.
func guarded(what string, inputLen int, f func()) (err error) {
	done := make(chan error, 1)
	go func() {
		defer func() {
			if r := recover(); r != nil {
				done <- fmt.Errorf("%s panicked: %v\n%s", what, r, tabulaFrames(string(debug.Stack())))
			}
		}()
		f()
		done <- nil
	}()
	start := cpuNow()
	for {
		select {
		case e := <-done:
			return e
		case <-time.After(50 * time.Millisecond):
			if used := cpuNow() - start; used > cpuBudget {
				return &hangError{fmt.Sprintf("%s did not terminate within %v of CPU time on a %d-byte input", what, cpuBudget, inputLen)}
			}
		}
	}
}

// dieOnHang ends the process at once when a call did not terminate: the
// spinning goroutine cannot be killed and may allocate without bound, so
// neither shrinking nor the remaining tests can run in this process. The
// failing case is saved in the runtime's replay format first (same path and
// layout as vr.Prop uses), so the driver reports it as the violation it is.
// In replay mode the error is simply returned.
func dieOnHang(check string, c any, err error) error {
	var h *hangError
	if !errors.As(err, &h) || os.Getenv("VERIF_REPLAY") != "" {
		return err
	}
	if out := os.Getenv("VERIF_REPLAY_OUT"); out != "" {
		raw, _ := json.MarshalIndent(c, "", " ")
		b, _ := json.MarshalIndent(vr.ReplayFile{Property: vr.PropID, Check: check, Error: err.Error(), Case: raw}, "", " ")
		_ = os.WriteFile(fmt.Sprintf("%s.%s.json", out, check), b, 0o644)
	}
	fmt.Printf("--- FAIL: property %s violated (%s): %v\n", vr.PropID, check, err)
	os.Exit(1)
	return err
}

// tabulaFrames keeps the stack lines that lie inside tabula.
func tabulaFrames(st string) string {
	var out []string
	for _, l := range strings.Split(st, "\n") {
		if (strings.Contains(l, "tsawler/tabula") || strings.Contains(l, "/rag/")) && len(out) < 12 {
			out = append(out, strings.TrimSpace(l))
		}
	}
	return strings.Join(out, "\n")
}

// diffAt describes the first difference of two squeezed strings.
func diffAt(got, want string) string {
	n := len(got)
	if len(want) < n {
		n = len(want)
	}
	i := 0
	for i < n && got[i] == want[i] {
		i++
	}
	lo := i - 12
	if lo < 0 {
		lo = 0
	}
	g, w := got[lo:], want[lo:]
	if len(g) > 40 {
		g = g[:40]
	}
	if len(w) > 40 {
		w = w[:40]
	}
	return fmt.Sprintf("first difference at squeezed byte %d: got …%q, want …%q (lengths %d / %d)", i, g, w, len(got), len(want))
}

// ---------------------------------------------------------------------------
// size configuration

type SizeSpec struct {
	Preset   string  `json:"preset,omitempty"` // "" = custom fields below
	A        int     `json:"a,omitempty"`      // preset arguments (TokenBased / Semantic)
	B        int     `json:"b,omitempty"`
	Unit     int     `json:"unit"` // rag.SizeUnit 0..4
	Max      int     `json:"max"`
	Hard     bool    `json:"hard"`
	Target   int     `json:"target"`
	Min      int     `json:"min"`
	TPC      float64 `json:"tokens_per_char"`
	Semantic bool    `json:"semantic"`
}

func (s SizeSpec) build() rag.SizeConfig {
	switch s.Preset {
	case "default":
		return rag.DefaultSizeConfig()
	case "small":
		return rag.SmallChunkConfig()
	case "medium":
		return rag.MediumChunkConfig()
	case "large":
		return rag.LargeChunkConfig()
	case "cohere":
		return rag.CohereEmbeddingConfig()
	case "openai":
		return rag.OpenAIEmbeddingConfig()
	case "claude":
		return rag.ClaudeContextConfig()
	case "tokenbased":
		return rag.TokenBasedSizeConfig(s.A, s.B)
	case "semantic":
		return rag.SemanticSizeConfig(s.A, s.B)
	}
	lt := rag.LimitTypeSoft
	if s.Hard {
		lt = rag.LimitTypeHard
	}
	u := rag.SizeUnit(s.Unit)
	return rag.SizeConfig{
		Target:                      rag.SizeLimit{Value: s.Target, Unit: u, Type: rag.LimitTypeSoft},
		Min:                         rag.SizeLimit{Value: s.Min, Unit: u, Type: rag.LimitTypeSoft},
		Max:                         rag.SizeLimit{Value: s.Max, Unit: u, Type: lt},
		TokensPerChar:               s.TPC,
		AllowExceedForAtomicContent: true,
		MergeSmallChunks:            true,
		SplitAtSemanticBoundaries:   s.Semantic,
	}
}

var unitNames = []string{"characters", "tokens", "words", "sentences", "paragraphs"}

// ratio is the documented token estimate: TokensPerChar, 0.25 when unset
// (size_config.go: "TokensPerChar is the ratio of tokens to characters (default: 0.25)").
func ratio(c rag.SizeConfig) float64 {
	if c.TokensPerChar <= 0 {
		return 0.25
	}
	return c.TokensPerChar
}

// approxMaxBytes is only used for the non-trivial rule and labels.
func approxMaxBytes(c rag.SizeConfig) int {
	switch c.Max.Unit {
	case rag.SizeUnitTokens:
		return int(float64(c.Max.Value) / ratio(c))
	case rag.SizeUnitWords:
		return c.Max.Value * 6
	case rag.SizeUnitSentences:
		return c.Max.Value * 80
	case rag.SizeUnitParagraphs:
		return c.Max.Value * 400
	}
	return c.Max.Value
}

// inBoundDomain: the sub-domain in which the statement promises the size bound.
func inBoundDomain(c rag.SizeConfig, text string) bool {
	if c.Max.Type != rag.LimitTypeHard || c.Max.Value < 200 {
		return false
	}
	if c.Max.Unit != rag.SizeUnitCharacters && c.Max.Unit != rag.SizeUnitTokens {
		return false
	}
	return maxGap(text) <= 50
}

// checkPieces is the oracle for a list of pieces produced from text.
func checkPieces(what string, pieces []string, text string, c rag.SizeConfig) error {
	if len(pieces) > len(text)+1 {
		return fmt.Errorf("%s: %d pieces from a %d-byte text", what, len(pieces), len(text))
	}
	for i, p := range pieces {
		if !utf8.ValidString(p) {
			return fmt.Errorf("%s: piece %d of %d is not valid UTF-8 (input is): %s", what, i, len(pieces), clip(p))
		}
	}
	got, want := squeeze(strings.Join(pieces, " ")), squeeze(text)
	if got != want {
		return fmt.Errorf("%s: non-white-space characters not conserved: %s", what, diffAt(got, want))
	}
	if inBoundDomain(c, text) {
		for i, p := range pieces {
			// measured without leading/trailing white space ("white space aside"): SplitToSize returns
			// the last piece untrimmed, and a trailing blank is not content
			n := utf8.RuneCountInString(strings.TrimSpace(p))
			size := n
			if c.Max.Unit == rag.SizeUnitTokens {
				size = int(float64(n) * ratio(c))
			}
			if size > c.Max.Value {
				return fmt.Errorf("%s: piece %d of %d has %d %s (%d runes, %d bytes) > hard maximum %d although the text has a space every %d bytes at most: %s",
					what, i, len(pieces), size, unitNames[c.Max.Unit], n, len(p), c.Max.Value, maxGap(text), clip(p))
			}
		}
	}
	return nil
}

// ---------------------------------------------------------------------------
// check "split"

type SplitCase struct {
	Text   string   `json:"text"`
	Size   SizeSpec `json:"size"`
	Labels []string `json:"labels,omitempty"`
}

func checkSplitInner(c SplitCase) error {
	if !utf8.ValidString(c.Text) {
		return fmt.Errorf("generator bug: input is not valid UTF-8")
	}
	cfg := c.Size.build()
	var pieces []string
	if err := guarded("SplitToSize", len(c.Text), func() {
		pieces = rag.NewSizeCalculatorWithConfig(cfg).SplitToSize(c.Text, nil)
	}); err != nil {
		return err
	}
	if err := checkPieces("SplitToSize", pieces, c.Text, cfg); err != nil {
		return err
	}
	// the same text with the semantic boundaries tabula's own detector finds in it (paragraph blocks joined by
	// blank lines, exactly the layout DetectBoundaries assumes): the statement's clauses hold whatever hints the
	// splitter is given
	if cfg.SplitAtSemanticBoundaries {
		var blocks []rag.ContentBlock
		for i, para := range strings.Split(c.Text, "\n\n") {
			blocks = append(blocks, rag.ContentBlock{Type: model.ElementTypeParagraph, Text: para, Page: 1, Index: i})
		}
		var bounded, again []string
		var bs, before []rag.Boundary
		if err := guarded("SplitToSize with boundaries", len(c.Text), func() {
			bs = rag.NewBoundaryDetector().DetectBoundaries(blocks)
			before = append([]rag.Boundary(nil), bs...)
			bounded = rag.NewSizeCalculatorWithConfig(cfg).SplitToSize(c.Text, bs)
			// the boundaries are the caller's: computed once, they serve every further call
			again = rag.NewSizeCalculatorWithConfig(cfg).SplitToSize(c.Text, bs)
		}); err != nil {
			return err
		}
		if err := checkPieces("SplitToSize with detected boundaries", bounded, c.Text, cfg); err != nil {
			return err
		}
		if !reflect.DeepEqual(bs, before) {
			return fmt.Errorf("SplitToSize changed the boundaries it was given (%d boundaries; e.g. first now %+v, was %+v)", len(bs), first(bs), first(before))
		}
		if !reflect.DeepEqual(again, bounded) {
			return fmt.Errorf("SplitToSize called twice with the same text, limits and boundary slice gives different pieces: %d pieces %.80q ..., then %d pieces %.80q ...", len(bounded), bounded, len(again), again)
		}
	}
	// the same text as the only paragraph of a one-page document
	var col *rag.ChunkCollection
	if err := guarded("ChunkDocumentWithConfig", len(c.Text), func() {
		doc := model.NewDocument()
		p := model.NewPage(612, 792)
		p.AddElement(&model.Paragraph{Text: c.Text})
		doc.AddPage(p)
		col = rag.ChunkDocumentWithConfig(doc, rag.DefaultChunkerConfig(), cfg)
	}); err != nil {
		return err
	}
	var texts []string
	for _, ch := range col.Chunks {
		texts = append(texts, ch.Text)
	}
	return checkPieces("ChunkDocumentWithConfig", texts, c.Text, cfg)
}

var spacedClasses = []string{"prose", "nopunct", "cjk-spaced", "dense", "latin"}

func genSize(t *rapid.T, bound bool) SizeSpec {
	if bound {
		s := SizeSpec{Hard: true}
		s.Unit = rapid.SampledFrom([]int{0, 0, 1}).Draw(t, "unit")
		s.Max = rapid.SampledFrom([]int{200, 200, 201, 250, 256, 300, 400, 512, 800, 1000, 2000}).Draw(t, "max")
		if rapid.Bool().Draw(t, "oddMax") {
			s.Max = rapid.IntRange(200, 1500).Draw(t, "maxv")
		}
		s.TPC = rapid.SampledFrom([]float64{0, 0.25, 0.25, 0.5, 1, 0.3, 0.75}).Draw(t, "tpc")
		if s.Unit == 1 && rapid.IntRange(0, 3).Draw(t, "oddTpc") == 0 {
			s.TPC = rapid.Float64Range(0.2, 1).Draw(t, "tpcv")
		}
		if s.Unit == 1 {
			// keep the byte budget of a token limit in the range the texts reach
			for float64(s.Max)/ratioOf(s.TPC) > 4000 && s.Max > 200 {
				s.Max = 200 + (s.Max-200)/2
			}
		}
		s.Target = s.Max / 2
		s.Min = s.Max / 10
		s.Semantic = rapid.Bool().Draw(t, "semantic")
		if rapid.IntRange(0, 5).Draw(t, "usePreset") == 0 {
			s.Preset = rapid.SampledFrom([]string{"default", "small", "medium", "cohere", "tokenbased"}).Draw(t, "preset")
			s.A = rapid.IntRange(100, 400).Draw(t, "presetA")
			s.B = rapid.IntRange(200, 600).Draw(t, "presetB")
		}
		return s
	}
	s := SizeSpec{}
	s.Unit = rapid.IntRange(0, 4).Draw(t, "unit")
	s.Hard = rapid.Bool().Draw(t, "hard")
	s.Max = rapid.SampledFrom([]int{1, 1, 2, 3, 4, 5, 7, 10, 16, 50, 100, 199, 200, 333, 800, 2000, 5000}).Draw(t, "max")
	if rapid.Bool().Draw(t, "oddMax") {
		s.Max = rapid.IntRange(1, 5000).Draw(t, "maxv")
	}
	s.Target = rapid.IntRange(0, s.Max).Draw(t, "target")
	s.Min = rapid.IntRange(0, s.Max).Draw(t, "min")
	s.TPC = rapid.SampledFrom([]float64{0, 0, 0.25, 0.1, 0.5, 1}).Draw(t, "tpc")
	if rapid.IntRange(0, 3).Draw(t, "oddTpc") == 0 {
		s.TPC = rapid.Float64Range(0.01, 1).Draw(t, "tpcv")
	}
	s.Semantic = rapid.Bool().Draw(t, "semantic")
	if rapid.IntRange(0, 7).Draw(t, "usePreset") == 0 {
		s.Preset = rapid.SampledFrom([]string{"default", "small", "medium", "large", "cohere", "openai", "claude", "tokenbased", "semantic"}).Draw(t, "preset")
		s.A = rapid.IntRange(1, 300).Draw(t, "presetA")
		s.B = rapid.IntRange(1, 600).Draw(t, "presetB")
	}
	return s
}

// capCost shortens text (on a character boundary) so that len(text)^2 / piece size stays
// below 2e7 byte visits and len(text) below 16 KiB: the cost bound behind cpuBudget.
func capCost(text string, pieceBytes int) string {
	if pieceBytes < 1 {
		pieceBytes = 1
	}
	limit := 16 << 10
	for limit > 64 && float64(limit)*float64(limit)/float64(pieceBytes) > 2e7 {
		limit = limit * 3 / 4
	}
	if len(text) <= limit {
		return text
	}
	for limit > 0 && !utf8.RuneStart(text[limit]) {
		limit--
	}
	return text[:limit]
}

func ratioOf(tpc float64) float64 {
	if tpc <= 0 {
		return 0.25
	}
	return tpc
}

func genSplit(t *rapid.T) SplitCase {
	bound := rapid.IntRange(0, 9).Draw(t, "domain") < 4
	c := SplitCase{Size: genSize(t, bound)}
	var classes []string
	if bound {
		// texts with a space at least every 50 bytes, long enough to need several pieces
		n := rapid.IntRange(1, 5).Draw(t, "segs")
		var sb strings.Builder
		seen := map[string]bool{}
		for i := 0; i < n; i++ {
			cl := rapid.SampledFrom(spacedClasses).Draw(t, "class")
			s := txt.GenSeg(t, "seg", cl, 260)
			part := s.Expand()
			if maxGap(part) > 50 {
				continue // e.g. "latin" drew several separator-less words in a row; not counted, not used
			}
			sb.WriteString(part)
			sb.WriteByte(' ')
			if !seen[cl] {
				seen[cl] = true
				classes = append(classes, cl)
			}
		}
		c.Text = sb.String()
	} else {
		cl := ""
		if rapid.Bool().Draw(t, "pure") {
			cl = rapid.SampledFrom(txt.Classes).Draw(t, "class")
		}
		c.Text, classes = txt.Gen(t, "txt", cl, 5, 220)
	}
	cfg := c.Size.build()
	c.Text = capCost(c.Text, approxMaxBytes(cfg))
	c.Labels = append(c.Labels, "unit:"+unitNames[cfg.Max.Unit])
	for _, cl := range classes {
		c.Labels = append(c.Labels, "class:"+cl)
	}
	if len(classes) > 1 {
		c.Labels = append(c.Labels, "class:mixed")
	}
	if c.Size.Preset != "" {
		c.Labels = append(c.Labels, "preset:"+c.Size.Preset)
	}
	if cfg.TokensPerChar == 0 {
		c.Labels = append(c.Labels, "tpc:0")
	}
	switch {
	case cfg.Max.Value <= 3:
		c.Labels = append(c.Labels, "max:1-3")
	case cfg.Max.Value < 200:
		c.Labels = append(c.Labels, "max:4-199")
	default:
		c.Labels = append(c.Labels, "max:>=200")
	}
	if inBoundDomain(cfg, c.Text) {
		c.Labels = append(c.Labels, "bound-domain")
		if len(c.Text) > approxMaxBytes(cfg) {
			c.Labels = append(c.Labels, "bound-domain:needs-split")
		}
	}
	if len(c.Text) > approxMaxBytes(cfg) {
		c.Labels = append(c.Labels, "needs-split")
	}
	if c.Text == "" {
		c.Labels = append(c.Labels, "empty-text")
	}
	return c
}

func metaSplit(c SplitCase) vr.Meta {
	cfg := c.Size.build()
	nt := len(c.Text) > approxMaxBytes(cfg) && (hasMultibyte(c.Text) || maxGap(c.Text) > 100)
	return vr.Meta{FP: fmt.Sprintf("%s|%+v", c.Text, c.Size), NonTrivial: nt, Labels: c.Labels}
}

func checkSplit(c SplitCase) error { return dieOnHang("split", c, checkSplitInner(c)) }

func init() { vr.Register("split", checkSplit) }

func TestSplit(t *testing.T) {
	vr.Prop(t, "split", vr.N(14000, 300000), genSplit, metaSplit, checkSplit)
}

// ---------------------------------------------------------------------------
// check "overlap"

type OverlapSpec struct {
	Strategy      int  `json:"strategy"` // rag.OverlapStrategy 0..3
	Size          int  `json:"size"`
	Min           int  `json:"min"`
	Max           int  `json:"max"`
	PreserveWords bool `json:"preserve_words"`
	Heading       bool `json:"include_heading"`
}

func (o OverlapSpec) build() rag.OverlapConfig {
	return rag.OverlapConfig{Strategy: rag.OverlapStrategy(o.Strategy), Size: o.Size, MinOverlap: o.Min, MaxOverlap: o.Max,
		PreserveWords: o.PreserveWords, IncludeHeadingContext: o.Heading}
}

type OverlapCase struct {
	Texts   []string    `json:"texts"`  // the chunks' own texts, in order
	Titles  []string    `json:"titles"` // section title per chunk ("" = none)
	Overlap OverlapSpec `json:"overlap"`
	Labels  []string    `json:"labels,omitempty"`
}

var strategyNames = []string{"none", "character", "sentence", "paragraph"}

// checkOverlapText: the clauses for one overlap string taken from `own`.
func checkOverlapText(what, ov, own string, maxOverlap int) error {
	if !utf8.ValidString(ov) {
		return fmt.Errorf("%s: overlap is not valid UTF-8 (source text is): %s", what, clip(ov))
	}
	if !strings.HasSuffix(squeeze(own), squeeze(ov)) {
		return fmt.Errorf("%s: overlap %s is not a suffix of the previous chunk's own content %s (white space aside)", what, clip(ov), clipTail(own))
	}
	if n := utf8.RuneCountInString(ov); n > maxOverlap {
		return fmt.Errorf("%s: overlap has %d runes (%d bytes) > MaxOverlap %d: %s", what, n, len(ov), maxOverlap, clip(ov))
	}
	return nil
}

func clipTail(s string) string {
	if len(s) > 80 {
		t := s[len(s)-80:]
		for len(t) > 0 && !utf8.RuneStart(t[0]) {
			t = t[1:]
		}
		return fmt.Sprintf("…%q(%d bytes)", t, len(s))
	}
	return fmt.Sprintf("%q", s)
}

// checkApplied: the clauses for the result of ApplyOverlapToChunks / ChunkWithOverlapEnabled.
func checkApplied(what string, out []*rag.ChunkWithOverlap, own, titles []string, strategy rag.OverlapStrategy, maxOverlap int, heading bool) error {
	if len(out) != len(own) {
		return fmt.Errorf("%s: %d chunks in, %d out", what, len(own), len(out))
	}
	for i, o := range out {
		if o == nil || o.Chunk == nil {
			return fmt.Errorf("%s: chunk %d is nil", what, i)
		}
		w := fmt.Sprintf("%s chunk %d/%d", what, i, len(out))
		if !utf8.ValidString(o.Text) {
			return fmt.Errorf("%s: text is not valid UTF-8: %s", w, clip(o.Text))
		}
		if !o.HasOverlapPrefix {
			if o.OverlapPrefix != "" {
				return fmt.Errorf("%s: OverlapPrefix %s set without HasOverlapPrefix", w, clip(o.OverlapPrefix))
			}
			if o.Text != own[i] {
				return fmt.Errorf("%s: no overlap reported but the text changed from %s to %s", w, clip(own[i]), clip(o.Text))
			}
			continue
		}
		if i == 0 {
			return fmt.Errorf("%s: the first chunk reports an overlap prefix %s", w, clip(o.OverlapPrefix))
		}
		if strategy == rag.OverlapNone {
			return fmt.Errorf("%s: overlap %s although the strategy is none", w, clip(o.OverlapPrefix))
		}
		if err := checkOverlapText(w, o.OverlapPrefix, own[i-1], maxOverlap); err != nil {
			return err
		}
		// the text is [optional "[title]"] + overlap + own content, white space aside
		got := squeeze(o.Text)
		plain := squeeze(o.OverlapPrefix) + squeeze(own[i])
		ok := got == plain
		if heading && titles[i] != "" && got == squeeze("["+titles[i]+"]")+plain {
			ok = true
		}
		if !ok {
			if !strings.HasSuffix(got, squeeze(own[i])) {
				return fmt.Errorf("%s: the text no longer ends with the chunk's own content: %s", w, diffAt(got, plain))
			}
			return fmt.Errorf("%s: text added in front of the own content is not the reported overlap %s: %s", w, clip(o.OverlapPrefix), diffAt(got, plain))
		}
	}
	return nil
}

func checkOverlapInner(c OverlapCase) error {
	cfg := c.Overlap.build()
	for i, s := range c.Texts {
		if !utf8.ValidString(s) {
			return fmt.Errorf("generator bug: text %d is not valid UTF-8", i)
		}
	}
	// 1. the generator on each text
	for i, s := range c.Texts {
		var res *rag.OverlapResult
		if err := guarded("GenerateOverlap", len(s), func() {
			res = rag.NewOverlapGeneratorWithConfig(cfg).GenerateOverlap(s)
		}); err != nil {
			return err
		}
		if res == nil {
			return fmt.Errorf("GenerateOverlap(text %d) returned nil", i)
		}
		if (cfg.Strategy == rag.OverlapNone || cfg.Size <= 0) && res.Text != "" {
			return fmt.Errorf("GenerateOverlap(text %d): overlap %s although overlap is disabled", i, clip(res.Text))
		}
		if err := checkOverlapText(fmt.Sprintf("GenerateOverlap(text %d)", i), res.Text, s, cfg.MaxOverlap); err != nil {
			return err
		}
	}
	// 2. applied to a chunk sequence
	chunks := make([]*rag.Chunk, len(c.Texts))
	for i, s := range c.Texts {
		chunks[i] = rag.NewChunk(fmt.Sprintf("c%d", i), s, rag.ChunkMetadata{SectionTitle: c.Titles[i], ChunkIndex: i})
	}
	var out []*rag.ChunkWithOverlap
	total := 0
	for _, s := range c.Texts {
		total += len(s)
	}
	if err := guarded("ApplyOverlapToChunks", total, func() { out = rag.ApplyOverlapToChunks(chunks, cfg) }); err != nil {
		return err
	}
	if len(c.Texts) == 0 {
		if len(out) != 0 {
			return fmt.Errorf("ApplyOverlapToChunks(no chunks) returned %d chunks", len(out))
		}
		return nil
	}
	return checkApplied("ApplyOverlapToChunks", out, c.Texts, c.Titles, cfg.Strategy, cfg.MaxOverlap, cfg.IncludeHeadingContext)
}

func genOverlapSpec(t *rapid.T) OverlapSpec {
	o := OverlapSpec{}
	o.Strategy = rapid.SampledFrom([]int{0, 1, 1, 1, 2, 2, 2, 3, 3}).Draw(t, "strategy")
	if o.Strategy == 1 {
		o.Size = rapid.SampledFrom([]int{0, 1, 2, 3, 5, 10, 20, 50, 100, 200, 500}).Draw(t, "size")
	} else {
		o.Size = rapid.IntRange(0, 5).Draw(t, "size")
	}
	o.Min = rapid.SampledFrom([]int{0, 1, 20, 50, 100}).Draw(t, "min")
	o.Max = rapid.SampledFrom([]int{0, 1, 2, 3, 5, 10, 20, 40, 60, 100, 150, 300, 500, 1000, 100000}).Draw(t, "max")
	o.PreserveWords = rapid.Bool().Draw(t, "preserveWords")
	o.Heading = rapid.Bool().Draw(t, "heading")
	return o
}

func genOverlap(t *rapid.T) OverlapCase {
	c := OverlapCase{Overlap: genOverlapSpec(t)}
	n := rapid.IntRange(0, 5).Draw(t, "chunks")
	seen := map[string]bool{}
	for i := 0; i < n; i++ {
		cl := ""
		if rapid.IntRange(0, 2).Draw(t, "pure") > 0 {
			cl = rapid.SampledFrom([]string{"prose", "prose", "dense", "latin", "cjk", "cjk-spaced", "emoji", "combining", "longtoken", "whitespace", "nopunct"}).Draw(t, "class")
		}
		s, used := txt.Gen(t, "txt", cl, 3, 40)
		if rapid.IntRange(0, 3).Draw(t, "trim") > 0 {
			s = strings.TrimSpace(s) // chunk texts are normally trimmed
		}
		c.Texts = append(c.Texts, s)
		title := ""
		if rapid.Bool().Draw(t, "hasTitle") {
			title = txt.Tame(t, "title", 1, 8)
			if rapid.IntRange(0, 3).Draw(t, "wildTitle") == 0 {
				title = txt.Field(t, "titleF", 4)
			}
		}
		c.Titles = append(c.Titles, title)
		for _, u := range used {
			if !seen[u] {
				seen[u] = true
				c.Labels = append(c.Labels, "class:"+u)
			}
		}
	}
	c.Labels = append(c.Labels, "strategy:"+strategyNames[c.Overlap.Strategy], fmt.Sprintf("chunks:%d", n))
	if c.Overlap.Max == 0 {
		c.Labels = append(c.Labels, "maxoverlap:0")
	}
	return c
}

func metaOverlap(c OverlapCase) vr.Meta {
	nt := false
	for _, s := range c.Texts {
		if hasMultibyte(s) || maxGap(s) > 100 {
			nt = true
		}
	}
	nt = nt && len(c.Texts) >= 2 && c.Overlap.Strategy != 0 && c.Overlap.Size > 0
	return vr.Meta{FP: fmt.Sprintf("%q|%q|%+v", c.Texts, c.Titles, c.Overlap), NonTrivial: nt, Labels: c.Labels}
}

func checkOverlap(c OverlapCase) error { return dieOnHang("overlap", c, checkOverlapInner(c)) }

func init() { vr.Register("overlap", checkOverlap) }

func TestOverlap(t *testing.T) {
	vr.Prop(t, "overlap", vr.N(12000, 200000), genOverlap, metaOverlap, checkOverlap)
}

// ---------------------------------------------------------------------------
// check "layout": the layout-based Chunker (sentence packing, overlap from ChunkerConfig)

type LayoutCase struct {
	Heading          string   `json:"heading"` // "" = no heading; otherwise one H1 before the paragraphs
	Paras            []string `json:"paras"`
	Max              int      `json:"max_chunk_size"`
	Min              int      `json:"min_chunk_size"`
	OverlapSize      int      `json:"overlap_size"`
	OverlapSentences bool     `json:"overlap_sentences"`
	SectionContext   bool     `json:"include_section_context"`
	Labels           []string `json:"labels,omitempty"`
	// Lists: bullet lists that follow the paragraphs (items of a few plain words; the last item of a list, like a
	// paragraph, may end with a colon - an introduction to what follows). LooseLists switches
	// PreserveListCoherence off: lists are ordinary content and MaxChunkSize binds them too.
	Lists      [][]string `json:"lists,omitempty"`
	LooseLists bool       `json:"loose_lists,omitempty"`
}

func (c LayoutCase) config() rag.ChunkerConfig {
	cfg := rag.DefaultChunkerConfig()
	cfg.MaxChunkSize = c.Max
	cfg.MinChunkSize = c.Min
	cfg.TargetChunkSize = c.Max / 2
	cfg.OverlapSize = c.OverlapSize
	cfg.OverlapSentences = c.OverlapSentences
	cfg.IncludeSectionContext = c.SectionContext
	if c.LooseLists {
		cfg.PreserveListCoherence = false
	}
	return cfg
}

func (c LayoutCase) doc() *model.Document {
	doc := model.NewDocument()
	p := model.NewPage(612, 792)
	p.Layout = &model.PageLayout{}
	if c.Heading != "" {
		p.Layout.Headings = append(p.Layout.Headings, model.HeadingInfo{Level: 1, Text: c.Heading})
	}
	for _, s := range c.Paras {
		p.Layout.Paragraphs = append(p.Layout.Paragraphs, model.ParagraphInfo{Text: s})
	}
	for _, l := range c.Lists {
		li := model.ListInfo{Type: model.ListTypeBullet}
		for _, it := range l {
			li.Items = append(li.Items, model.ListItem{Text: it})
		}
		p.Layout.Lists = append(p.Layout.Lists, li)
	}
	doc.AddPage(p)
	return doc
}

// content is the text the chunks have to hold: the paragraphs, then the items of the lists.
func (c LayoutCase) content() string {
	all := strings.Join(c.Paras, "\n\n")
	for _, l := range c.Lists {
		for _, it := range l {
			all += "\n- " + it
		}
	}
	return all
}

func checkLayoutInner(c LayoutCase) error {
	all := c.content()
	if !utf8.ValidString(all) {
		return fmt.Errorf("generator bug: input is not valid UTF-8")
	}
	cfg := c.config()
	var base *rag.ChunkResult
	var berr error
	if err := guarded("Chunker.Chunk", len(all), func() { base, berr = rag.NewChunkerWithConfig(cfg).Chunk(c.doc()) }); err != nil {
		return err
	}
	if berr != nil {
		return fmt.Errorf("Chunker.Chunk: %v", berr)
	}
	var own, titles []string
	for _, ch := range base.Chunks {
		own = append(own, ch.Text)
		titles = append(titles, ch.Metadata.SectionTitle)
	}
	// conservation / UTF-8 / size bound (MaxChunkSize: "the hard limit for chunk size in characters")
	sc := rag.SizeConfig{Max: rag.SizeLimit{Value: c.Max, Unit: rag.SizeUnitCharacters, Type: rag.LimitTypeHard}}
	boundText := all
	for _, s := range c.Paras {
		if maxGap(s) > 50 {
			boundText = strings.Repeat("x", 51) // outside the sub-domain
		}
	}
	if len(own) > len(all)+1 {
		return fmt.Errorf("Chunker.Chunk: %d chunks from a %d-byte text", len(own), len(all))
	}
	for i, p := range own {
		if !utf8.ValidString(p) {
			return fmt.Errorf("Chunker.Chunk: chunk %d of %d is not valid UTF-8 (input is): %s", i, len(own), clip(p))
		}
	}
	// the heading is normally carried by SectionTitle only; a section without any content may
	// instead be emitted as a chunk holding the heading text (C12 accepts both) — that chunk is set aside
	content := own
	if c.Heading != "" && len(own) > 0 && strings.TrimSpace(own[0]) == c.Heading && squeeze(all) == "" {
		content = own[1:]
	}
	if got, want := squeeze(strings.Join(content, " ")), squeeze(all); got != want {
		return fmt.Errorf("Chunker.Chunk: non-white-space characters not conserved: %s", diffAt(got, want))
	}
	if inBoundDomain(sc, boundText) && (len(c.Lists) == 0 || c.LooseLists) {
		for i, p := range content {
			if n := utf8.RuneCountInString(strings.TrimSpace(p)); n > c.Max {
				return fmt.Errorf("Chunker.Chunk: chunk %d of %d has %d runes (%d bytes) > MaxChunkSize %d although every paragraph has a space every 50 bytes at most: %s",
					i, len(own), n, len(p), c.Max, clip(p))
			}
		}
	}
	// overlap derived from the ChunkerConfig (chunker.go: ChunkWithOverlapEnabled)
	var wo *rag.ChunkWithOverlapResult
	if err := guarded("ChunkWithOverlapEnabled", len(all), func() { wo, berr = rag.NewChunkerWithConfig(cfg).ChunkWithOverlapEnabled(c.doc()) }); err != nil {
		return err
	}
	if berr != nil {
		return fmt.Errorf("ChunkWithOverlapEnabled: %v", berr)
	}
	strategy := rag.OverlapNone
	if c.OverlapSize > 0 {
		strategy = rag.OverlapCharacter
		if c.OverlapSentences {
			strategy = rag.OverlapSentence
		}
	}
	maxOverlap := c.OverlapSize * 3 // chunker.go: "MaxOverlap: c.config.OverlapSize * 3"
	if maxOverlap < 0 {
		maxOverlap = 0
	}
	if len(own) == 0 {
		if len(wo.Chunks) != 0 {
			return fmt.Errorf("ChunkWithOverlapEnabled: %d chunks, Chunk: none", len(wo.Chunks))
		}
		return nil
	}
	return checkApplied("ChunkWithOverlapEnabled", wo.Chunks, own, titles, strategy, maxOverlap, c.SectionContext)
}

func genLayout(t *rapid.T) LayoutCase {
	c := LayoutCase{}
	bound := rapid.Bool().Draw(t, "boundDomain")
	if bound {
		c.Max = rapid.SampledFrom([]int{200, 200, 250, 300, 400, 512, 800, 2000}).Draw(t, "max")
	} else {
		c.Max = rapid.SampledFrom([]int{10, 20, 50, 100, 199, 200, 500, 2000}).Draw(t, "max")
	}
	c.Min = rapid.SampledFrom([]int{0, 10, 50, 100}).Draw(t, "min")
	if c.Min > c.Max {
		c.Min = c.Max
	}
	c.OverlapSize = rapid.SampledFrom([]int{0, 1, 2, 5, 10, 11, 30, 100}).Draw(t, "overlapSize")
	c.OverlapSentences = rapid.Bool().Draw(t, "overlapSentences")
	c.SectionContext = rapid.Bool().Draw(t, "sectionContext")
	if rapid.Bool().Draw(t, "hasHeading") {
		c.Heading = "Title " + txt.Tame(t, "heading", 1, 6)
	}
	n := rapid.IntRange(1, 4).Draw(t, "paras")
	seen := map[string]bool{}
	for i := 0; i < n; i++ {
		var s string
		var used []string
		if bound {
			cl := rapid.SampledFrom(spacedClasses).Draw(t, "class")
			seg := txt.GenSeg(t, "seg", cl, 200)
			s, used = strings.TrimSpace(seg.Expand()), []string{cl}
			if maxGap(s) > 50 {
				s, used = "short words only", nil
			}
		} else {
			cl := ""
			if rapid.Bool().Draw(t, "pure") {
				cl = rapid.SampledFrom(txt.Classes).Draw(t, "class")
			}
			s, used = txt.Gen(t, "txt", cl, 3, 120)
		}
		c.Paras = append(c.Paras, s)
		for _, u := range used {
			if !seen[u] {
				seen[u] = true
				c.Labels = append(c.Labels, "class:"+u)
			}
		}
	}
	if rapid.IntRange(0, 2).Draw(t, "hasLists") == 0 {
		colon := func(label string) string {
			if rapid.IntRange(0, 4).Draw(t, label) < 2 {
				return ":"
			}
			return ""
		}
		if last := len(c.Paras) - 1; !strings.HasSuffix(c.Paras[last], ":") {
			c.Paras[last] += colon("introParagraph")
		}
		for l, nl := 0, rapid.IntRange(1, 3).Draw(t, "lists"); l < nl; l++ {
			var items []string
			for k, ni := 0, rapid.IntRange(1, 5).Draw(t, "items"); k < ni; k++ {
				w := rapid.IntRange(1, 9).Draw(t, "itemWords")
				var ws []string
				for j := 0; j < w; j++ {
					ws = append(ws, txt.Tame(t, "itemWord", 2, 9))
				}
				items = append(items, strings.Join(ws, " "))
			}
			items[len(items)-1] += colon("introItem")
			c.Lists = append(c.Lists, items)
		}
		c.LooseLists = rapid.Bool().Draw(t, "looseLists")
		c.Labels = append(c.Labels, "lists")
		if c.LooseLists {
			c.Labels = append(c.Labels, "lists:not-atomic")
		}
	}
	if bound {
		c.Labels = append(c.Labels, "bound-domain")
	}
	over := false
	for _, s := range c.Paras {
		if len(s) > c.Max {
			over = true
		}
	}
	if over {
		c.Labels = append(c.Labels, "oversized-paragraph")
	}
	switch {
	case c.OverlapSize == 0:
		c.Labels = append(c.Labels, "overlap:none")
	case c.OverlapSentences:
		c.Labels = append(c.Labels, "overlap:sentence")
	default:
		c.Labels = append(c.Labels, "overlap:character")
	}
	return c
}

func metaLayout(c LayoutCase) vr.Meta {
	nt := false
	for _, s := range c.Paras {
		if len(s) > c.Max && (hasMultibyte(s) || maxGap(s) > 100) {
			nt = true
		}
	}
	return vr.Meta{FP: fmt.Sprintf("%q|%q|%d|%d|%d|%v|%v", c.Heading, c.Paras, c.Max, c.Min, c.OverlapSize, c.OverlapSentences, c.SectionContext),
		NonTrivial: nt, Labels: c.Labels}
}

func checkLayout(c LayoutCase) error { return dieOnHang("layout", c, checkLayoutInner(c)) }

func init() { vr.Register("layout", checkLayout) }

func TestLayout(t *testing.T) {
	vr.Prop(t, "layout", vr.N(8000, 120000), genLayout, metaLayout, checkLayout)
}
