// C16 — Word-processor documents keep their order and structure.
//
// Generator: a logical document (gen/wpmodel.GenDoc: paragraphs with mixed
// inline items, headings by six mechanisms, multi-level lists, tables with
// merged and multi-paragraph cells, header/footer parts, every text leaf a
// unique token) lowered to a DOCX package by gen/docxw or to an ODT package by
// gen/odtw under randomly drawn physical options (ZIP order, XML spelling…).
//
// Oracle (the logical model is the reference; tabula is never compared with
// itself except in the marked metamorphic clause):
//
//	(1) Text():       body paragraphs appear in source order with their inline
//	                  string (tab -> \t, break -> \n, symbols, blanks) intact;
//	                  no token lost, invented or duplicated
//	(2) Document():   element sequence = model (heading level, list item depth
//	                  and kind, table grid with merged and multi-paragraph cells)
//	(3) ToMarkdown(): the same through the independent GFM parser oracle/mdparse
//	(4) no header/footer-part token in any of the three; requesting the
//	    exclusion does not change the body (metamorphic)
package c16

import (
	"crypto/sha1"
	"fmt"
	"os"
	"regexp"
	"sort"
	"strings"
	"testing"

	"github.com/tsawler/tabula"
	"github.com/tsawler/tabula/model"
	"pgregory.net/rapid"

	"verif/harness/gen/docxw"
	"verif/harness/gen/odtw"
	"verif/harness/gen/wpmodel"
	"verif/harness/oracle/mdparse"
	"verif/harness/vr"
)

func TestMain(m *testing.M) { vr.Main(m) }

// Case holds everything the oracle needs; the package bytes are regenerated
// from (Doc, options) by the deterministic writers.
type Case struct {
	Format string         `json:"format"` // docx | odt
	Doc    wpmodel.Doc    `json:"doc"`
	Docx   *docxw.Options `json:"docx,omitempty"`
	Odt    *odtw.Options  `json:"odt,omitempty"`
}

func (c Case) bytes() ([]byte, error) {
	switch c.Format {
	case "docx":
		o := docxw.Options{}
		if c.Docx != nil {
			o = *c.Docx
		}
		return docxw.Write(c.Doc, o)
	case "odt":
		o := odtw.Options{}
		if c.Odt != nil {
			o = *c.Odt
		}
		return odtw.Write(c.Doc, o)
	}
	return nil, fmt.Errorf("unknown format %q", c.Format)
}

// ---------------------------------------------------------------------------
// expectation derived from the model

type xElem struct {
	Kind    string // para | heading | item | table
	Raw     string // inline string of the paragraph (not for tables)
	Level   int    // heading level
	Depth   int    // item depth
	Ordered bool   // item: kind of its level
	Uniform bool   // item: every level of its list definition has the same orderedness
	Jumpy   bool   // item: belongs to a run of items that starts below depth 0 or deepens by more than one level
	Table   *wpmodel.Table
	Plain   bool // para, heading: carries no numbering, so nothing stands in front of it on its line
}

func norm(s string) string { return strings.Join(strings.Fields(s), " ") }

func expect(d wpmodel.Doc) []xElem {
	var out []xElem
	bs := d.Blocks
	for i := 0; i < len(bs); i++ {
		b := bs[i]
		switch b.Kind {
		case wpmodel.BPara:
			if norm(b.Runs.String()) == "" {
				continue // empty paragraphs are vertical white space (free)
			}
			out = append(out, xElem{Kind: "para", Raw: b.Runs.String(), Plain: true})
		case wpmodel.BHeading:
			out = append(out, xElem{Kind: "heading", Raw: b.Runs.String(), Level: b.Level, Plain: !b.Numbered})
		case wpmodel.BItem:
			// maximal run of adjacent items of the same list
			j := i
			jumpy := false
			prev := -1
			for j < len(bs) && bs[j].Kind == wpmodel.BItem && bs[j].List == b.List {
				if bs[j].Depth > prev+1 {
					jumpy = true
				}
				prev = bs[j].Depth
				j++
			}
			kinds := d.Lists[b.List].Kinds
			uniform := true
			for _, k := range kinds {
				if wpmodel.Ordered(k) != wpmodel.Ordered(kinds[0]) {
					uniform = false
				}
			}
			for k := i; k < j; k++ {
				out = append(out, xElem{Kind: "item", Raw: bs[k].Runs.String(), Depth: bs[k].Depth,
					Ordered: wpmodel.Ordered(kinds[bs[k].Depth]), Uniform: uniform, Jumpy: jumpy})
			}
			i = j - 1
		case wpmodel.BTable:
			out = append(out, xElem{Kind: "table", Table: b.Table})
		}
	}
	return out
}

var tokenRe = regexp.MustCompile(`[THF]q[0-9]{4}`)

func tokensOf(s string) []string { return tokenRe.FindAllString(s, -1) }

// ---------------------------------------------------------------------------
// the oracle

func checkCase(c Case) error {
	data, err := c.bytes()
	if err != nil {
		return fmt.Errorf("generator: %v", err) // never expected: the model is validated
	}
	f, err := os.CreateTemp("", "c16-*."+c.Format)
	if err != nil {
		return fmt.Errorf("infrastructure: %v", err)
	}
	name := f.Name()
	defer os.Remove(name)
	if _, err := f.Write(data); err != nil {
		f.Close()
		return fmt.Errorf("infrastructure: %v", err)
	}
	f.Close()

	exp := expect(c.Doc)

	text, _, err := tabula.Open(name).Text()
	if err != nil {
		return fmt.Errorf("Text() failed on a conforming %s package: %v", c.Format, err)
	}
	if err := checkText(c, exp, text); err != nil {
		return fmt.Errorf("Text(): %v\n--- Text() output ---\n%s", err, clip(text))
	}
	doc, _, err := tabula.Open(name).Document()
	if err != nil {
		return fmt.Errorf("Document() failed on a conforming %s package: %v", c.Format, err)
	}
	if err := checkDocument(exp, doc); err != nil {
		return fmt.Errorf("Document(): %v", err)
	}
	md, _, err := tabula.Open(name).ToMarkdown()
	if err != nil {
		return fmt.Errorf("ToMarkdown() failed on a conforming %s package: %v", c.Format, err)
	}
	if err := checkMarkdown(exp, md); err != nil {
		return fmt.Errorf("ToMarkdown(): %v\n--- Markdown output ---\n%s", err, clip(md))
	}

	// (4) metamorphic: no body paragraph equals a header/footer line (all
	// leaves are unique tokens), so asking for the exclusion must not change
	// anything.
	text2, _, err := tabula.Open(name).ExcludeHeadersAndFooters().Text()
	if err != nil {
		return fmt.Errorf("Text() with header/footer exclusion failed: %v", err)
	}
	if text2 != text {
		return fmt.Errorf("ExcludeHeadersAndFooters() changed Text() although no body paragraph equals a header or footer line:\n--- without ---\n%s\n--- with ---\n%s", clip(text), clip(text2))
	}
	md2, _, err := tabula.Open(name).ExcludeHeadersAndFooters().ToMarkdown()
	if err != nil {
		return fmt.Errorf("ToMarkdown() with header/footer exclusion failed: %v", err)
	}
	if md2 != md {
		return fmt.Errorf("ExcludeHeadersAndFooters() changed ToMarkdown() although no body paragraph equals a header or footer line")
	}
	return nil
}

func clip(s string) string {
	if len(s) > 1500 {
		return s[:1500] + "…"
	}
	return s
}

// tokenAudit: every body token exactly once (tokens of merged cells may be
// repeated once per covered grid position: "covered cells empty or repeated"),
// nothing invented, no header/footer token.
func tokenAudit(d wpmodel.Doc, out, where string) error {
	maxCount := map[string]int{}
	add := func(p wpmodel.Para, n int) {
		for _, tk := range tokensOf(p.String()) {
			maxCount[tk] = n
		}
	}
	for _, b := range d.Blocks {
		if b.Kind == wpmodel.BTable {
			for _, cell := range b.Table.Cells {
				for _, p := range cell.Paras {
					add(p, cell.RS*cell.CS)
				}
			}
		} else {
			add(b.Runs, 1)
		}
	}
	got := map[string]int{}
	for _, tk := range tokensOf(out) {
		got[tk]++
	}
	keys := make([]string, 0, len(got))
	for k := range got {
		keys = append(keys, k)
	}
	sort.Strings(keys)
	for _, k := range keys {
		switch {
		case k[0] == 'H':
			return fmt.Errorf("header-part token %s leaked into %s", k, where)
		case k[0] == 'F':
			return fmt.Errorf("footer-part token %s leaked into %s", k, where)
		case maxCount[k] == 0:
			return fmt.Errorf("token %s in %s does not exist in the source body", k, where)
		case got[k] > maxCount[k]:
			return fmt.Errorf("token %s occurs %d times in %s (source: once)", k, got[k], where)
		}
	}
	want := make([]string, 0, len(maxCount))
	for k := range maxCount {
		want = append(want, k)
	}
	sort.Strings(want)
	for _, k := range want {
		if got[k] == 0 {
			return fmt.Errorf("token %s of the source body is missing from %s", k, where)
		}
	}
	return nil
}

// (1) Text()
func checkText(c Case, exp []xElem, out string) error {
	if err := tokenAudit(c.Doc, out, "Text()"); err != nil {
		return err
	}
	pos := 0
	for i, e := range exp {
		if e.Kind == "table" {
			// Cells are laid out on one line per row, so line breaks inside a cell
			// cannot survive as "\n" and tabs are ambiguous with the column
			// separator: inside cells only the order of the non-blank chunks is
			// demanded (white space between them free).
			for _, cell := range e.Table.Cells {
				for pi, p := range cell.Paras {
					fields := strings.Fields(p.String())
					if len(fields) == 0 {
						continue
					}
					for k := range fields {
						fields[k] = regexp.QuoteMeta(fields[k])
					}
					re := regexp.MustCompile(strings.Join(fields, `\s+`))
					loc := re.FindStringIndex(out[pos:])
					if loc == nil {
						return fmt.Errorf("element %d (table): paragraph %d of the cell at row %d col %d (%q) not found in order after offset %d", i, pi, cell.R, cell.C, p.String(), pos)
					}
					pos += loc[1]
				}
			}
			continue
		}
		// white space at the edges of a paragraph is indistinguishable from the
		// (free) white space between blocks
		want := strings.TrimSpace(e.Raw)
		k := strings.Index(out[pos:], want)
		if k < 0 {
			return fmt.Errorf("element %d (%s): inline string %q not found in order after offset %d", i, e.Kind, want, pos)
		}
		if e.Plain && want != "" {
			// a paragraph without numbering is no list item: nothing (no marker) stands in front of it on its line
			start := pos + k
			line := start - 1
			for line >= 0 && out[line] != '\n' {
				line--
			}
			if pre := strings.TrimSpace(out[line+1 : start]); pre != "" {
				return fmt.Errorf("element %d: the %s %q is shown with %q in front of it on its line; it is not a list item", i, e.Kind, want, pre)
			}
		}
		pos += k + len(want)
	}
	return nil
}

// ---- (2) Document() --------------------------------------------------------

type gElem struct {
	Kind    string
	Text    string
	Level   int
	Ordered bool
	Table   *model.Table
}

func flattenDoc(doc *model.Document) ([]gElem, error) {
	var out []gElem
	for _, pg := range doc.Pages {
		for _, el := range pg.Elements {
			switch v := el.(type) {
			case *model.Heading:
				out = append(out, gElem{Kind: "heading", Text: v.Text, Level: v.Level})
			case *model.Paragraph:
				if norm(v.Text) == "" {
					continue
				}
				out = append(out, gElem{Kind: "para", Text: v.Text})
			case *model.List:
				for _, it := range v.Items {
					out = append(out, gElem{Kind: "item", Text: it.Text, Level: it.Level, Ordered: v.Ordered})
				}
			case *model.Table:
				out = append(out, gElem{Kind: "table", Table: v})
			default:
				return nil, fmt.Errorf("unexpected element type %T in the document model", el)
			}
		}
	}
	return out, nil
}

func describe(kind, text string) string {
	return fmt.Sprintf("%s %q", kind, norm(text))
}

func checkDocument(exp []xElem, doc *model.Document) error {
	got, err := flattenDoc(doc)
	if err != nil {
		return err
	}
	for i := 0; i < len(exp) || i < len(got); i++ {
		if i >= len(got) {
			return fmt.Errorf("element %d missing: want %s (model has %d elements, source %d)", i, descX(exp[i]), len(got), len(exp))
		}
		if i >= len(exp) {
			return fmt.Errorf("extra element %d: %s (source has %d elements)", i, describe(got[i].Kind, got[i].Text), len(exp))
		}
		e, g := exp[i], got[i]
		if e.Kind != g.Kind {
			return fmt.Errorf("element %d: want %s, got %s", i, descX(e), describe(g.Kind, g.Text))
		}
		switch e.Kind {
		case "para", "heading", "item":
			if norm(e.Raw) != norm(g.Text) {
				return fmt.Errorf("element %d: want %s, got %s", i, descX(e), describe(g.Kind, g.Text))
			}
		}
		switch e.Kind {
		case "heading":
			// model.Heading documents Level as 1-6: levels 7-9 may be reported as is or as 6
			if g.Level != e.Level && !(e.Level > 6 && g.Level == 6) {
				return fmt.Errorf("element %d: heading %q has level %d, authored level %d", i, norm(g.Text), g.Level, e.Level)
			}
		case "item":
			if g.Level != e.Depth {
				return fmt.Errorf("element %d: list item %q has depth %d, authored depth %d", i, norm(g.Text), g.Level, e.Depth)
			}
			// model.List carries one Ordered flag per list; it is only decidable for
			// lists whose levels are all numbered or all bulleted
			if e.Uniform && g.Ordered != e.Ordered {
				return fmt.Errorf("element %d: list item %q is in a list with Ordered=%v, authored ordered=%v", i, norm(g.Text), g.Ordered, e.Ordered)
			}
		case "table":
			if err := checkModelTable(e.Table, g.Table); err != nil {
				return fmt.Errorf("element %d (table): %v", i, err)
			}
		}
	}
	return nil
}

func descX(e xElem) string {
	switch e.Kind {
	case "table":
		return fmt.Sprintf("table %dx%d", e.Table.Rows, e.Table.Cols)
	case "heading":
		return fmt.Sprintf("heading(level %d) %q", e.Level, norm(e.Raw))
	case "item":
		return fmt.Sprintf("item(depth %d) %q", e.Depth, norm(e.Raw))
	}
	return fmt.Sprintf("%s %q", e.Kind, norm(e.Raw))
}

func checkModelTable(t *wpmodel.Table, g *model.Table) error {
	if len(g.Rows) != t.Rows {
		return fmt.Errorf("%d rows, authored %d", len(g.Rows), t.Rows)
	}
	for r, row := range g.Rows {
		if len(row) != t.Cols {
			return fmt.Errorf("row %d has %d cells, authored grid has %d columns", r, len(row), t.Cols)
		}
	}
	for _, cell := range t.Cells {
		want := norm(cell.Text(" "))
		a := g.Rows[cell.R][cell.C]
		if norm(a.Text) != want {
			return fmt.Errorf("cell at row %d col %d: got %q, want %q", cell.R, cell.C, norm(a.Text), want)
		}
		// merged region: either the anchor reports the authored spans and the
		// covered positions are empty (or repeat the text), or every position
		// repeats the text with unit spans
		repeated := true
		for r := cell.R; r < cell.R+cell.RS; r++ {
			for cc := cell.C; cc < cell.C+cell.CS; cc++ {
				if r == cell.R && cc == cell.C {
					continue
				}
				ct := norm(g.Rows[r][cc].Text)
				if ct != want {
					repeated = false
				}
				if ct != "" && ct != want {
					return fmt.Errorf("covered position row %d col %d of the cell at row %d col %d holds %q (want empty or %q)", r, cc, cell.R, cell.C, ct, want)
				}
			}
		}
		rs, cs := a.RowSpan, a.ColSpan
		if rs < 1 {
			rs = 1
		}
		if cs < 1 {
			cs = 1
		}
		spansOK := rs == cell.RS && cs == cell.CS
		unitRepeated := rs == 1 && cs == 1 && repeated && want != ""
		if !spansOK && !unitRepeated {
			return fmt.Errorf("cell at row %d col %d reports RowSpan=%d ColSpan=%d, authored %dx%d", cell.R, cell.C, a.RowSpan, a.ColSpan, cell.RS, cell.CS)
		}
	}
	return nil
}

// ---- (3) ToMarkdown() ---------------------------------------------------------

func checkMarkdown(exp []xElem, md string) error {
	// token order first (independent of any Markdown parsing)
	var wantTok []string
	leadingWhite := false
	for _, e := range exp {
		if e.Kind == "table" {
			for _, cell := range e.Table.Cells {
				wantTok = append(wantTok, tokensOf(cell.Text(" "))...)
			}
			continue
		}
		wantTok = append(wantTok, tokensOf(e.Raw)...)
		if e.Raw != strings.TrimLeft(e.Raw, " \t\n") {
			leadingWhite = true
		}
	}
	jumpy := false
	for _, e := range exp {
		if e.Jumpy {
			jumpy = true
		}
	}
	gotTok := dedupAdjacentRuns(tokensOf(md), exp)
	if strings.Join(gotTok, " ") != strings.Join(wantTok, " ") {
		return fmt.Errorf("token sequence differs:\n got  %v\n want %v", gotTok, wantTok)
	}
	if leadingWhite || jumpy {
		// (a) A paragraph that starts with a tab or several blanks is an indented
		// code block (or changes list-item structure) in Markdown; whether and
		// how to avoid that is a rendering decision the statement leaves open.
		// (b) A run of list items that starts below the top level or skips a
		// level has no Markdown representation at all (an item can only be one
		// level deeper than its parent; deeper indentation is a code block or
		// continuation text).
		// Only the token order is demanded for such documents.
		return nil
	}
	blocks := mdparse.Parse(md)
	var got []mdparse.Block
	for _, b := range blocks {
		if (b.Kind == "para" || b.Kind == "item") && norm(b.Text) == "" {
			continue
		}
		got = append(got, b)
	}
	for i := 0; i < len(exp) || i < len(got); i++ {
		if i >= len(got) {
			return fmt.Errorf("block %d missing: want %s (Markdown has %d blocks, source %d)", i, descX(exp[i]), len(got), len(exp))
		}
		if i >= len(exp) {
			return fmt.Errorf("extra block %d: %s", i, describe(got[i].Kind, got[i].Text))
		}
		e, g := exp[i], got[i]
		if e.Kind != g.Kind {
			return fmt.Errorf("block %d: want %s, got %s", i, descX(e), describe(g.Kind, g.Text))
		}
		if e.Kind != "table" && norm(e.Raw) != norm(g.Text) {
			return fmt.Errorf("block %d: want %s, got %s", i, descX(e), describe(g.Kind, g.Text))
		}
		switch e.Kind {
		case "heading":
			want := e.Level
			if want > 6 {
				want = 6 // Markdown has six heading levels
			}
			if g.Level != want {
				return fmt.Errorf("block %d: heading %q has level %d, authored level %d", i, norm(g.Text), g.Level, e.Level)
			}
		case "item":
			if g.Level != e.Depth {
				return fmt.Errorf("block %d: list item %q has depth %d, authored depth %d", i, norm(g.Text), g.Level, e.Depth)
			}
			if g.Ordered != e.Ordered {
				return fmt.Errorf("block %d: list item %q ordered=%v, authored ordered=%v", i, norm(g.Text), g.Ordered, e.Ordered)
			}
		case "table":
			if err := checkMdTable(e.Table, g.Rows); err != nil {
				return fmt.Errorf("block %d (table): %v", i, err)
			}
		}
	}
	return nil
}

// dedupAdjacentRuns removes repetitions of merged-cell tokens (a covered
// position may repeat the anchor's text): a token that already occurred and
// belongs to a merged cell is dropped.
func dedupAdjacentRuns(toks []string, exp []xElem) []string {
	merged := map[string]bool{}
	for _, e := range exp {
		if e.Kind != "table" {
			continue
		}
		for _, cell := range e.Table.Cells {
			if cell.RS*cell.CS > 1 {
				for _, tk := range tokensOf(cell.Text(" ")) {
					merged[tk] = true
				}
			}
		}
	}
	seen := map[string]bool{}
	var out []string
	for _, tk := range toks {
		if merged[tk] && seen[tk] {
			continue
		}
		seen[tk] = true
		out = append(out, tk)
	}
	return out
}

func checkMdTable(t *wpmodel.Table, rows [][]string) error {
	if len(rows) != t.Rows {
		return fmt.Errorf("%d rows, authored %d", len(rows), t.Rows)
	}
	for r, row := range rows {
		if len(row) != t.Cols {
			return fmt.Errorf("row %d has %d cells, authored grid has %d columns", r, len(row), t.Cols)
		}
	}
	for _, cell := range t.Cells {
		want := norm(cell.Text(" "))
		for r := cell.R; r < cell.R+cell.RS; r++ {
			for cc := cell.C; cc < cell.C+cell.CS; cc++ {
				got := norm(rows[r][cc])
				if r == cell.R && cc == cell.C {
					if got != want {
						return fmt.Errorf("cell at row %d col %d: got %q, want %q", r, cc, got, want)
					}
				} else if got != "" && got != want {
					return fmt.Errorf("covered position row %d col %d of the cell at row %d col %d holds %q (want empty or %q)", r, cc, cell.R, cell.C, got, want)
				}
			}
		}
	}
	return nil
}

func init() {
	vr.Register("docx", checkCase)
	vr.Register("odt", checkCase)
}

// ---------------------------------------------------------------------------
// generator

// Generator features that are switched off while a listed known finding's
// probe still fails (DESIGN.md §2.7). One switch per root cause.
const (
	featDocxContainers = "docx-inline-containers" // w:hyperlink / w:ins / w:sdt / w:smartTag around runs
	featOdtContainers  = "odt-inline-containers"  // text:a and nested text:span
)

func genFormat(t *rapid.T, format string) Case {
	var o wpmodel.GenOpts
	o.NoAdjacentBreaks = true // two breaks in a row are a paragraph boundary in Markdown (see NOTES.md)
	o.NoEdgeWhite = rapid.IntRange(0, 3).Draw(t, "edge_white") < 3
	o.NoLevelJumps = !rapid.Bool().Draw(t, "level_jumps")
	o.NumberedHeadings = format == "docx"
	o.NumOff = format == "docx"
	wantWraps := rapid.IntRange(0, 2).Draw(t, "containers") == 2
	switch format {
	case "docx":
		if vr.Want(featDocxContainers, wantWraps) {
			o.Wraps = []string{wpmodel.WLink, wpmodel.WIns, wpmodel.WSdt, wpmodel.WSmart}
		}
	case "odt":
		if vr.Want(featOdtContainers, wantWraps) {
			o.Wraps = []string{wpmodel.WLink, wpmodel.WNest}
		}
	}
	c := Case{Format: format, Doc: wpmodel.GenDoc(t, o)}
	switch format {
	case "docx":
		po := docxw.GenOptions(t)
		c.Docx = &po
	case "odt":
		po := odtw.GenOptions(t)
		c.Odt = &po
	}
	return c
}

func meta(c Case) vr.Meta {
	labels := []string{"format:" + c.Format}
	nt := false
	seen := map[string]bool{}
	add := func(l string) {
		if !seen[l] {
			seen[l] = true
			labels = append(labels, l)
		}
	}
	bs := c.Doc.Blocks
	prevTable := false
	for i, b := range bs {
		switch b.Kind {
		case wpmodel.BTable:
			add("table")
			if i < len(bs)-1 {
				add("table-not-last")
				nt = true
			}
			if i == 0 {
				add("table-first")
			}
			if prevTable {
				add("tables-adjacent")
			}
			if b.Table.HeaderRows > 0 {
				add("table-header-rows")
			}
			for _, cell := range b.Table.Cells {
				if len(cell.Paras) > 1 {
					add("cell-multi-para")
					nt = true
				}
				if cell.RS > 1 {
					add("cell-rowspan")
					nt = true
				}
				if cell.CS > 1 {
					add("cell-colspan")
					nt = true
				}
				if cell.RS > 1 && cell.CS > 1 {
					add("cell-span-both")
				}
				for _, p := range cell.Paras {
					if len(p.Kinds()) >= 2 {
						add("cell-inline-mixed")
					}
				}
			}
		case wpmodel.BHeading:
			add("heading:" + b.How)
			if b.Level > 6 {
				add("heading-level-7-9")
			}
			if b.How == wpmodel.HowBased || b.How == wpmodel.HowBased2 || b.How == wpmodel.HowOverride {
				nt = true
			}
		case wpmodel.BItem:
			add("list")
			if b.Depth > 0 {
				add("list-nested")
			}
			if b.Depth > 1 {
				add("list-depth>=2")
			}
			if wpmodel.Ordered(c.Doc.Lists[b.List].Kinds[b.Depth]) {
				add("list-ordered")
			} else {
				add("list-bullet")
			}
		}
		prevTable = b.Kind == wpmodel.BTable
	}
	c.Doc.AllParas(func(p wpmodel.Para) {
		ks := p.Kinds()
		if len(ks) >= 2 {
			add("inline-mixed")
			nt = true
		}
		for k := range ks {
			if k != wpmodel.KText {
				add("inline:" + k)
			}
		}
		for wname := range p.Wraps() {
			add("wrap:" + wname)
		}
		if len(p) >= 2 {
			add("multi-run")
		}
		if s := p.String(); s != "" && s != strings.TrimLeft(s, " \t\n") {
			add("leading-white")
		}
	})
	for _, e := range expect(c.Doc) {
		if e.Jumpy {
			add("list-level-jump")
		}
		if e.Kind == "item" && !e.Uniform {
			add("list-mixed-kinds")
		}
	}
	if c.Doc.Header != nil {
		add("header-part")
	}
	if c.Doc.Footer != nil {
		add("footer-part")
	}
	if c.Docx != nil {
		if c.Docx.Order != nil {
			add("zip-shuffled")
		}
		if c.Docx.Prefix != "" {
			add("docx-prefix:" + c.Docx.Prefix)
		}
		if c.Docx.VMergeContinue {
			add("docx-vmerge-continue")
		}
		if c.Docx.Noise {
			add("docx-noise")
		}
		if c.Docx.XML.Pretty {
			add("xml-pretty")
		}
	}
	if c.Odt != nil {
		if c.Odt.Order != nil {
			add("zip-shuffled")
		}
		if c.Odt.AltPrefixes {
			add("odt-alt-prefixes")
		}
		if c.Odt.NoDefaultOutline {
			add("odt-no-default-outline")
		}
		if c.Odt.Noise {
			add("odt-noise")
		}
		if c.Odt.XML.Pretty {
			add("xml-pretty")
		}
	}
	data, _ := c.bytes()
	return vr.Meta{FP: fmt.Sprintf("%s|%x", c.Format, sha1.Sum(data)), NonTrivial: nt, Labels: labels}
}

func TestDocx(t *testing.T) {
	vr.Prop(t, "docx", vr.N(1200, 20000), func(rt *rapid.T) Case { return genFormat(rt, "docx") }, meta, checkCase)
}

func TestOdt(t *testing.T) {
	vr.Prop(t, "odt", vr.N(1200, 20000), func(rt *rapid.T) Case { return genFormat(rt, "odt") }, meta, checkCase)
}
