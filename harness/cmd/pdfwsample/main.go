// pdfwsample writes N random pdfw cases (file + expected JSON) into a directory.
// Development aid for cross-validating the writer with an independent reader.
package main

import (
	"encoding/json"
	"fmt"
	"os"
	"strconv"

	"pgregory.net/rapid"

	"verif/harness/gen/pdfw"
)

type expect struct {
	Pages  [][]string  `json:"pages"`
	Boxes  [][4]float64 `json:"boxes"`
	Layout pdfw.Layout `json:"layout"`
	Docs   []pdfw.Doc  `json:"docs"`
}

func main() {
	dir := os.Args[1]
	n, _ := strconv.Atoi(os.Args[2])
	g := rapid.Custom(func(t *rapid.T) expect {
		docs := pdfw.GenDocs(t, 3)
		l := pdfw.GenLayout(t, len(docs))
		e := expect{Layout: l, Docs: docs}
		for _, p := range docs[len(docs)-1].Pages {
			var ls []string
			for _, ln := range p.Lines {
				ls = append(ls, ln.Text)
			}
			e.Pages = append(e.Pages, ls)
			e.Boxes = append(e.Boxes, p.MediaBox)
		}
		return e
	})
	for i := 0; i < n; i++ {
		e := g.Example(i + 1)
		res := pdfw.Write(e.Docs, e.Layout)
		os.WriteFile(fmt.Sprintf("%s/%04d.pdf", dir, i), res.Bytes, 0o644)
		j, _ := json.Marshal(e)
		os.WriteFile(fmt.Sprintf("%s/%04d.json", dir, i), j, 0o644)
	}
}
