// pdfwreplay writes the PDF of a C01/C04-style replay file (case.docs + case.layout) to stdout.
package main

import (
	"encoding/json"
	"os"

	"verif/harness/gen/pdfw"
)

func main() {
	b, _ := os.ReadFile(os.Args[1])
	var rf struct {
		Case struct {
			Docs   []pdfw.Doc  `json:"docs"`
			Layout pdfw.Layout `json:"layout"`
		} `json:"case"`
	}
	if err := json.Unmarshal(b, &rf); err != nil {
		panic(err)
	}
	os.Stdout.Write(pdfw.Write(rf.Case.Docs, rf.Case.Layout).Bytes)
}
