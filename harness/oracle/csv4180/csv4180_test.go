package csv4180

import (
	"reflect"
	"testing"
)

func TestParse(t *testing.T) {
	ok := []struct {
		in   string
		d    byte
		want [][]string
	}{
		{"", ',', nil},
		{"a,b\n", ',', [][]string{{"a", "b"}}},
		{"a,b", ',', [][]string{{"a", "b"}}},
		{"a,b\r\nc,d\r\n", ',', [][]string{{"a", "b"}, {"c", "d"}}},
		{"\"a\r\nb\",c\n", ',', [][]string{{"a\r\nb", "c"}}},
		{"\"a\"\"b\",\"\"\n", ',', [][]string{{"a\"b", ""}}},
		{"a,\n", ',', [][]string{{"a", ""}}},
		{",\n,\n", ',', [][]string{{"", ""}, {"", ""}}},
		{"a\tb,c\n", '\t', [][]string{{"a", "b,c"}}},
		{"a\x00b,é😀\n", ',', [][]string{{"a\x00b", "é😀"}}},
		{"\"x,y\",\"\n\"\n", ',', [][]string{{"x,y", "\n"}}},
		{"a\n\n", ',', [][]string{{"a"}, {""}}},
	}
	for _, c := range ok {
		got, err := Parse([]byte(c.in), c.d)
		if err != nil || !reflect.DeepEqual(got, c.want) {
			t.Errorf("Parse(%q) = %q, %v; want %q", c.in, got, err, c.want)
		}
	}
	bad := []string{"a\"b,c\n", "\"a\"b,c\n", "\"abc\n", "a\rb\n", "a,b\nc\n", "a,b\n\n", "\"a\" ,b\n"}
	for _, in := range bad {
		if got, err := Parse([]byte(in), ','); err == nil {
			t.Errorf("Parse(%q) = %q, want an error", in, got)
		}
	}
}
