// Package csv4180 is a strict reader for the CSV grammar of RFC 4180 §2,
// written from the RFC text and independent of encoding/csv:
//
//	file        = record *(EOL record) [EOL]
//	record      = field *(DELIM field)
//	field       = escaped / non-escaped
//	escaped     = DQUOTE *(TEXTDATA / DELIM / CR / LF / 2DQUOTE) DQUOTE
//	non-escaped = *TEXTDATA
//
// Deliberate readings (recorded in c14/NOTES.md):
//   - EOL is CRLF (the RFC's line break) or a bare LF (what almost every
//     producer, including encoding/csv, writes). A bare CR outside quotes is an
//     error.
//   - TEXTDATA is every byte except DELIM, DQUOTE, CR and LF: the RFC's
//     %x20-7E range is widened to all other bytes, because the RFC predates
//     UTF-8 CSV and says nothing about it; control bytes such as NUL are kept
//     verbatim.
//   - The delimiter is a parameter (',' for CSV, TAB for the TSV dialect that
//     uses the same quoting rules).
//   - Nothing is trimmed, CRLF inside a quoted field is preserved as CRLF
//     (encoding/csv's reader would turn it into LF), a quote inside a
//     non-escaped field is an error, text after a closing quote is an error,
//     an unterminated quoted field is an error.
//   - "Each line should contain the same number of fields": a different field
//     count is an error.
//   - An empty input has zero records. An empty line is a record with one
//     empty field (and therefore an error unless every record has one field).
package csv4180

import "fmt"

// Parse reads data as RFC 4180 CSV with the given single-byte delimiter.
func Parse(data []byte, delim byte) ([][]string, error) {
	if delim == '"' || delim == '\r' || delim == '\n' {
		return nil, fmt.Errorf("csv4180: illegal delimiter %q", delim)
	}
	var recs [][]string
	var rec []string
	i, n := 0, len(data)
	line := 1
	if n == 0 {
		return nil, nil
	}
	for {
		// parse one field starting at i
		var field []byte
		if i < n && data[i] == '"' {
			i++
			closed := false
			for i < n {
				c := data[i]
				if c == '"' {
					if i+1 < n && data[i+1] == '"' {
						field = append(field, '"')
						i += 2
						continue
					}
					i++
					closed = true
					break
				}
				if c == '\n' {
					line++
				}
				field = append(field, c)
				i++
			}
			if !closed {
				return nil, fmt.Errorf("csv4180: record %d: unterminated quoted field", len(recs)+1)
			}
			if i < n && data[i] != delim && data[i] != '\n' && data[i] != '\r' {
				return nil, fmt.Errorf("csv4180: record %d (line %d): byte %q after closing quote", len(recs)+1, line, data[i])
			}
		} else {
			for i < n {
				c := data[i]
				if c == delim || c == '\n' || c == '\r' {
					break
				}
				if c == '"' {
					return nil, fmt.Errorf("csv4180: record %d (line %d): quote inside a non-escaped field", len(recs)+1, line)
				}
				field = append(field, c)
				i++
			}
		}
		rec = append(rec, string(field))
		// what follows the field?
		if i < n && data[i] == delim {
			i++
			continue // next field of the same record (possibly empty, possibly at EOF)
		}
		// end of record
		if i < n && data[i] == '\r' {
			if i+1 < n && data[i+1] == '\n' {
				i += 2
			} else {
				return nil, fmt.Errorf("csv4180: record %d (line %d): bare CR outside a quoted field", len(recs)+1, line)
			}
		} else if i < n && data[i] == '\n' {
			i++
		}
		line++
		if len(recs) > 0 && len(rec) != len(recs[0]) {
			return nil, fmt.Errorf("csv4180: record %d has %d fields, record 1 has %d", len(recs)+1, len(rec), len(recs[0]))
		}
		recs = append(recs, rec)
		rec = nil
		if i >= n {
			return recs, nil
		}
	}
}
