// Package mdparse turns Markdown into a flat list of structural blocks using
// goldmark v1.4.13 with the GFM extension (vendored under third_party). It is
// the independent "GitHub-flavoured-Markdown parser" the properties refer to.
package mdparse

import (
	"strings"

	"verif/harness/third_party/goldmark"
	"verif/harness/third_party/goldmark/ast"
	"verif/harness/third_party/goldmark/extension"
	east "verif/harness/third_party/goldmark/extension/ast"
	"verif/harness/third_party/goldmark/text"
	"verif/harness/third_party/goldmark/util"
)

// Block is one structural element in document order.
type Block struct {
	Kind    string     `json:"kind"`            // heading | para | table | item | code | quote | hr | html
	Level   int        `json:"level,omitempty"` // heading level; list item depth (0 = top level)
	Ordered bool       `json:"ordered,omitempty"`
	Text    string     `json:"text,omitempty"` // plain text (inline markup removed, soft breaks -> space)
	Rows    [][]string `json:"rows,omitempty"` // table: header row first
}

var md = goldmark.New(goldmark.WithExtensions(extension.GFM))

// Parse returns the blocks of src in document order. List items are reported
// individually with their nesting depth; a paragraph directly inside a list
// item is folded into the item's Text (first paragraph) or reported as a
// para block (later ones).
func Parse(src string) []Block {
	b := []byte(src)
	doc := md.Parser().Parse(text.NewReader(b))
	var out []Block
	walkBlocks(doc, b, 0, &out)
	return out
}

func walkBlocks(n ast.Node, src []byte, depth int, out *[]Block) {
	for c := n.FirstChild(); c != nil; c = c.NextSibling() {
		switch v := c.(type) {
		case *ast.Heading:
			*out = append(*out, Block{Kind: "heading", Level: v.Level, Text: inlineText(v, src)})
		case *ast.Paragraph:
			*out = append(*out, Block{Kind: "para", Text: inlineText(v, src)})
		case *ast.TextBlock:
			*out = append(*out, Block{Kind: "para", Text: inlineText(v, src)})
		case *east.Table:
			var rows [][]string
			for r := v.FirstChild(); r != nil; r = r.NextSibling() {
				var cells []string
				for cell := r.FirstChild(); cell != nil; cell = cell.NextSibling() {
					cells = append(cells, inlineText(cell, src))
				}
				rows = append(rows, cells)
			}
			*out = append(*out, Block{Kind: "table", Rows: rows})
		case *ast.List:
			for it := v.FirstChild(); it != nil; it = it.NextSibling() {
				item := Block{Kind: "item", Level: depth, Ordered: v.IsOrdered()}
				// first text-ish child becomes the item's text
				first := it.FirstChild()
				if first != nil {
					switch first.(type) {
					case *ast.Paragraph, *ast.TextBlock:
						item.Text = inlineText(first, src)
					}
				}
				*out = append(*out, item)
				// remaining children (nested lists, further paragraphs, tables …)
				rest := &restNode{it: it, skipFirst: item.Text != "" || isTextish(first)}
				rest.walk(src, depth+1, out)
			}
		case *ast.FencedCodeBlock:
			*out = append(*out, Block{Kind: "code", Text: linesText(v, src)})
		case *ast.CodeBlock:
			*out = append(*out, Block{Kind: "code", Text: linesText(v, src)})
		case *ast.Blockquote:
			var inner []Block
			walkBlocks(v, src, depth, &inner)
			var parts []string
			for _, b := range inner {
				parts = append(parts, b.Text)
			}
			*out = append(*out, Block{Kind: "quote", Text: strings.Join(parts, "\n")})
		case *ast.ThematicBreak:
			*out = append(*out, Block{Kind: "hr"})
		case *ast.HTMLBlock:
			*out = append(*out, Block{Kind: "html", Text: linesText(v, src)})
		default:
			walkBlocks(c, src, depth, out)
		}
	}
}

func isTextish(n ast.Node) bool {
	switch n.(type) {
	case *ast.Paragraph, *ast.TextBlock:
		return true
	}
	return false
}

type restNode struct {
	it        ast.Node
	skipFirst bool
}

func (r *restNode) walk(src []byte, depth int, out *[]Block) {
	first := true
	for c := r.it.FirstChild(); c != nil; c = c.NextSibling() {
		if first && r.skipFirst {
			first = false
			continue
		}
		first = false
		// wrap the single child in a throw-away parent so walkBlocks can iterate it
		tmp := &oneChild{n: c}
		tmp.walk(src, depth, out)
	}
}

type oneChild struct{ n ast.Node }

func (o *oneChild) walk(src []byte, depth int, out *[]Block) {
	switch v := o.n.(type) {
	case *ast.List:
		// nested list: its items are one level deeper than the enclosing item
		for it := v.FirstChild(); it != nil; it = it.NextSibling() {
			item := Block{Kind: "item", Level: depth, Ordered: v.IsOrdered()}
			f := it.FirstChild()
			if isTextish(f) {
				item.Text = inlineText(f, src)
			}
			*out = append(*out, item)
			(&restNode{it: it, skipFirst: isTextish(f)}).walk(src, depth+1, out)
		}
	case *ast.Paragraph:
		*out = append(*out, Block{Kind: "para", Text: inlineText(v, src)})
	case *ast.TextBlock:
		*out = append(*out, Block{Kind: "para", Text: inlineText(v, src)})
	default:
		// tables, code blocks, quotes … inside an item: reuse the block walker on a synthetic parent
		holder := ast.NewDocument()
		// cannot re-parent without detaching; handle the common kinds directly
		switch w := o.n.(type) {
		case *east.Table:
			var rows [][]string
			for r := w.FirstChild(); r != nil; r = r.NextSibling() {
				var cells []string
				for cell := r.FirstChild(); cell != nil; cell = cell.NextSibling() {
					cells = append(cells, inlineText(cell, src))
				}
				rows = append(rows, cells)
			}
			*out = append(*out, Block{Kind: "table", Rows: rows})
		case *ast.FencedCodeBlock:
			*out = append(*out, Block{Kind: "code", Text: linesText(w, src)})
		case *ast.CodeBlock:
			*out = append(*out, Block{Kind: "code", Text: linesText(w, src)})
		default:
			_ = holder
			walkBlocks(o.n, src, depth, out)
		}
	}
}

// inlineText flattens the inline content of a block to plain text.
func inlineText(n ast.Node, src []byte) string {
	var sb strings.Builder
	var rec func(ast.Node)
	rec = func(x ast.Node) {
		for c := x.FirstChild(); c != nil; c = c.NextSibling() {
			switch v := c.(type) {
			case *ast.Text:
				// Text nodes hold raw source; backslash escapes are resolved at render time
				sb.Write(util.UnescapePunctuations(v.Segment.Value(src)))
				if v.HardLineBreak() {
					sb.WriteByte('\n')
				} else if v.SoftLineBreak() {
					sb.WriteByte(' ')
				}
			case *ast.String:
				sb.Write(v.Value)
			case *ast.CodeSpan:
				for cc := v.FirstChild(); cc != nil; cc = cc.NextSibling() {
					if tx, ok := cc.(*ast.Text); ok {
						sb.Write(tx.Segment.Value(src))
					}
				}
			case *ast.RawHTML:
				for i := 0; i < v.Segments.Len(); i++ {
					s := v.Segments.At(i)
					sb.Write(s.Value(src))
				}
			case *ast.AutoLink:
				sb.Write(v.Label(src))
			default:
				rec(c)
			}
		}
	}
	rec(n)
	return sb.String()
}

func linesText(n ast.Node, src []byte) string {
	var sb strings.Builder
	l := n.Lines()
	for i := 0; i < l.Len(); i++ {
		s := l.At(i)
		sb.Write(s.Value(src))
	}
	return sb.String()
}

// Norm collapses runs of white space to single blanks and trims.
func Norm(s string) string { return strings.Join(strings.Fields(s), " ") }
