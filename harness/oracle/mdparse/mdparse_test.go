package mdparse

import (
	"encoding/json"
	"testing"
)

func TestParseShapes(t *testing.T) {
	src := "# T\n\npara one\nstill\n\n| a | b |\n|---|---|\n| x\\|y |  |\n\n- i1\n  - n1\n    1. o1\n- i2\n\n1. one\n2. two\n\n```\ncode\n```\n\n> quote\n"
	bs := Parse(src)
	j, _ := json.Marshal(bs)
	want := `[{"kind":"heading","level":1,"text":"T"},{"kind":"para","text":"para one still"},{"kind":"table","rows":[["a","b"],["x|y",""]]},{"kind":"item","text":"i1"},{"kind":"item","level":1,"text":"n1"},{"kind":"item","level":2,"ordered":true,"text":"o1"},{"kind":"item","text":"i2"},{"kind":"item","ordered":true,"text":"one"},{"kind":"item","ordered":true,"text":"two"},{"kind":"code","text":"code\n"},{"kind":"quote","text":"quote"}]`
	if string(j) != want {
		t.Fatalf("got  %s\nwant %s", j, want)
	}
}
