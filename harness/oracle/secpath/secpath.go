// Package secpath is the reference model of "the chain of headings enclosing
// a position" (property C12): a stack of (level, title); a new heading pops
// every entry whose level is >= its own level and is then pushed. It is the
// usual outline rule (HTML5 outline algorithm / Word navigation pane /
// Markdown TOC generators): a heading of level L closes every open section of
// level >= L, whatever levels were skipped on the way down.
package secpath

// Entry is one open section.
type Entry struct {
	Level int
	Title string
}

// Stack is the chain of open sections, outermost first.
type Stack []Entry

// Push returns the stack after a heading (level, title); the receiver is not
// modified and shares no memory with the result.
func (s Stack) Push(level int, title string) Stack {
	n := len(s)
	for n > 0 && s[n-1].Level >= level {
		n--
	}
	out := make(Stack, n, n+1)
	copy(out, s[:n])
	return append(out, Entry{Level: level, Title: title})
}

// Titles returns the titles, outermost first (never nil).
func (s Stack) Titles() []string {
	out := make([]string, len(s))
	for i, e := range s {
		out[i] = e.Title
	}
	return out
}
