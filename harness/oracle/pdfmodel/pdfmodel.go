// Package pdfmodel is a reference implementation of the part of the PDF
// imaging model that decides where text lands: ISO 32000-1 §8.3 (coordinate
// systems, transformation matrices), §8.4 (graphics state, q/Q, cm), §9.3
// (text state) and §9.4 (text objects, text-positioning and text-showing
// operators). It shares nothing with tabula.
//
// Conventions (ISO 32000-1 §8.3.3, §8.3.4): a point is a row vector [x y 1]
// and a transformation [a b c d e f] is the matrix
//
//	a b 0
//	c d 0
//	e f 1
//
// applied as p' = p x M. "Concatenating" M to the CTM pre-multiplies:
//
//	cm      CTM' = M x CTM                          (§8.4.4, Table 57)
//	Td      Tlm' = [1 0 0 1 tx ty] x Tlm, Tm = Tlm  (§9.4.2, Table 108)
//	TD      TL = -ty, then Td
//	T*      Td with (0, -TL)
//	Tm      Tm = Tlm = operands
//	BT      Tm = Tlm = identity                     (§9.4.1)
//	'       T* then show;  "  sets Tw, Tc, then '   (§9.4.3, Table 109)
//	q / Q   push / pop the graphics state: CTM and all text-state parameters
//	        (Tc Tw Th TL Tf Tfs …, §8.4.1 Table 52, §9.3.1); Tm and Tlm are not
//	        part of it (they only exist inside a text object)
//
// A glyph origin in text space (0,0) is shown at (0,0) x Tm x CTM; the text
// rendering matrix is Trm = [Tfs*Th 0 0 Tfs 0 Trise] x Tm x CTM (§9.4.4).
package pdfmodel

import (
	"fmt"
	"math"
)

// Matrix is [a b c d e f].
type Matrix [6]float64

func Identity() Matrix { return Matrix{1, 0, 0, 1, 0, 0} }

// Mul returns m x n (first m, then n).
func (m Matrix) Mul(n Matrix) Matrix {
	return Matrix{
		m[0]*n[0] + m[1]*n[2],
		m[0]*n[1] + m[1]*n[3],
		m[2]*n[0] + m[3]*n[2],
		m[2]*n[1] + m[3]*n[3],
		m[4]*n[0] + m[5]*n[2] + n[4],
		m[4]*n[1] + m[5]*n[3] + n[5],
	}
}

// Apply maps the point (x, y).
func (m Matrix) Apply(x, y float64) (float64, float64) {
	return x*m[0] + y*m[2] + m[4], x*m[1] + y*m[3] + m[5]
}

func (m Matrix) abs() Matrix {
	var r Matrix
	for i, v := range m {
		r[i] = math.Abs(v)
	}
	return r
}

// Det is the determinant of the linear part.
func (m Matrix) Det() float64 { return m[0]*m[3] - m[1]*m[2] }

// SingularValues returns the smallest and largest stretch of the linear part.
func (m Matrix) SingularValues() (min, max float64) {
	a, b, c, d := m[0], m[1], m[2], m[3]
	s1 := a*a + b*b + c*c + d*d
	s2 := math.Sqrt((a*a+b*b-c*c-d*d)*(a*a+b*b-c*c-d*d) + 4*(a*c+b*d)*(a*c+b*d))
	max = math.Sqrt((s1 + s2) / 2)
	lo := (s1 - s2) / 2
	if lo < 0 {
		lo = 0
	}
	min = math.Sqrt(lo)
	return
}

// IsSimilarity reports whether the linear part stretches equally in all
// directions (rotation, reflection, uniform scale), within a relative eps.
func (m Matrix) IsSimilarity(eps float64) bool {
	lo, hi := m.SingularValues()
	return hi-lo <= eps*hi
}

// Op is one operator with its operands.
type Op struct {
	Name string    `json:"op"`
	Args []float64 `json:"args,omitempty"` // numeric operands
	Font string    `json:"font,omitempty"` // Tf: resource name without the solidus
	Text string    `json:"text,omitempty"` // Tj ' ": the string shown; Do: the XObject name
}

// Form is a form XObject: a content stream with its /Matrix (§8.10.1).
type Form struct {
	Matrix Matrix `json:"matrix"`
	Ops    []Op   `json:"ops"`
}

// Shown describes one text-showing operation.
type Shown struct {
	Text string
	// Position of the text-space origin in device (default user) space
	X, Y float64
	// Bound on the sum of the absolute values of the terms that make up X and Y:
	// the natural scale for a floating-point tolerance.
	Scale float64
	// Comparable: this is the first text-showing operator after a positioning
	// step (BT, Tm, Td, TD, T*) or an operator that repositions by itself (' "),
	// so X/Y do not depend on glyph widths.
	Comparable bool
	// Smallest and largest stretch of [Tfs*Th 0 0 Tfs] x Tm x CTM and of
	// [Tfs 0 0 Tfs] x Tm x CTM: every reasonable definition of "the size the
	// text appears at" lies in between.
	SizeMin, SizeMax float64
	// Trm is the text rendering matrix without rise.
	Trm Matrix
}

// Segment is a stroked straight line in device space (for the second observer).
type Segment struct {
	X0, Y0, X1, Y1 float64
	Scale          float64
}

type gstate struct {
	ctm, ctmAbs Matrix
	tc, tw, th  float64 // th as a factor (Tz/100)
	tl, tfs     float64
	font        string
	fontSet     bool
}

// Machine executes operators.
type Machine struct {
	gs        gstate
	stack     []gstate
	tm, tlm   Matrix
	tmAbs     Matrix // element-wise bound for tolerance computation
	tlmAbs    Matrix
	inText    bool
	fresh     bool // a positioning step happened since the last show
	forms     map[string]Form
	depth     int
	path      [][2]float64 // current subpath points in device space (transformed when constructed, §8.5.2.1)
	pathScale []float64
	Shown     []Shown
	Lines     []Segment
}

// New returns a machine in the initial state of a page: CTM identity (the
// default user space is the device space of this model), Tc = Tw = 0, Th = 1,
// TL = 0, no font.
func New(forms map[string]Form) *Machine {
	return &Machine{gs: gstate{ctm: Identity(), ctmAbs: Identity(), th: 1}, tm: Identity(), tlm: Identity(), tmAbs: Identity(), tlmAbs: Identity(), forms: forms}
}

// accessors used by generators to stay inside the grammar
func (m *Machine) InText() bool     { return m.inText }
func (m *Machine) Depth() int       { return len(m.stack) }
func (m *Machine) FontSet() bool    { return m.gs.fontSet }
func (m *Machine) CTM() Matrix      { return m.gs.ctm }
func (m *Machine) Tm() Matrix       { return m.tm }
func (m *Machine) Leading() float64 { return m.gs.tl }

func need(op Op, n int) error {
	if len(op.Args) != n {
		return fmt.Errorf("%s: %d operands, want %d", op.Name, len(op.Args), n)
	}
	return nil
}

func mat(a []float64) Matrix { return Matrix{a[0], a[1], a[2], a[3], a[4], a[5]} }

func (m *Machine) td(tx, ty float64) {
	t := Matrix{1, 0, 0, 1, tx, ty}
	m.tlm = t.Mul(m.tlm)
	m.tlmAbs = t.abs().Mul(m.tlmAbs)
	m.tm, m.tmAbs = m.tlm, m.tlmAbs
	m.fresh = true
}

func (m *Machine) show(text string, always bool) {
	x, y := m.tm.Apply(0, 0)
	dx, dy := m.gs.ctm.Apply(x, y)
	ax, ay := m.tmAbs.Apply(0, 0)
	sx, sy := m.gs.ctmAbs.Apply(ax, ay)
	font := Matrix{m.gs.tfs * m.gs.th, 0, 0, m.gs.tfs, 0, 0}
	trm := font.Mul(m.tm).Mul(m.gs.ctm)
	lo, hi := trm.SingularValues()
	// "combined scaling of font size, text matrix and CTM": horizontal scaling
	// (Tz) may or may not be counted, so the range also covers Tfs x Tm x CTM
	plain := Matrix{m.gs.tfs, 0, 0, m.gs.tfs, 0, 0}.Mul(m.tm).Mul(m.gs.ctm)
	plo, phi := plain.SingularValues()
	lo, hi = math.Min(lo, plo), math.Max(hi, phi)
	m.Shown = append(m.Shown, Shown{Text: text, X: dx, Y: dy, Scale: math.Max(sx, sy), Comparable: always || m.fresh, SizeMin: lo, SizeMax: hi, Trm: trm})
	m.fresh = false
}

// Exec runs one operator. It returns an error for anything outside the
// grammar the model covers (Figure 9: which operators are allowed where).
func (m *Machine) Exec(op Op) error {
	switch op.Name {
	case "q":
		// Figure 9 does not allow q, Q and cm inside a text object, yet files contain them and every consumer
		// gives them their usual meaning there: the graphics state (CTM, text state parameters) is saved and
		// restored, the text matrices - which are not part of it (§9.4.1) - are left alone. Whether Q also puts
		// the text matrix back is where consumers differ; generators avoid showing text after a Q inside a text
		// object before the text line matrix has been used again (Td, TD, T*, ', ").
		m.stack = append(m.stack, m.gs)
	case "Q":
		if len(m.stack) == 0 {
			return fmt.Errorf("Q without q")
		}
		m.gs = m.stack[len(m.stack)-1]
		m.stack = m.stack[:len(m.stack)-1]
	case "cm":
		if err := need(op, 6); err != nil {
			return err
		}
		mm := mat(op.Args)
		m.gs.ctm = mm.Mul(m.gs.ctm)
		m.gs.ctmAbs = mm.abs().Mul(m.gs.ctmAbs)
	case "BT":
		// (a BT inside a text object - not in Figure 9 either - starts over like any BT: the matrices are reset)
		m.inText = true
		m.tm, m.tlm, m.tmAbs, m.tlmAbs = Identity(), Identity(), Identity(), Identity()
		m.fresh = true
	case "ET":
		if !m.inText {
			return fmt.Errorf("ET without BT")
		}
		m.inText = false
	case "Tf":
		if err := need(op, 1); err != nil {
			return err
		}
		m.gs.font, m.gs.tfs, m.gs.fontSet = op.Font, op.Args[0], true
	case "TL":
		if err := need(op, 1); err != nil {
			return err
		}
		m.gs.tl = op.Args[0]
	case "Tc":
		if err := need(op, 1); err != nil {
			return err
		}
		m.gs.tc = op.Args[0]
	case "Tw":
		if err := need(op, 1); err != nil {
			return err
		}
		m.gs.tw = op.Args[0]
	case "Tz":
		if err := need(op, 1); err != nil {
			return err
		}
		m.gs.th = op.Args[0] / 100
	case "Tm":
		if !m.inText {
			return fmt.Errorf("Tm outside a text object")
		}
		if err := need(op, 6); err != nil {
			return err
		}
		m.tm = mat(op.Args)
		m.tlm = m.tm
		m.tmAbs = m.tm.abs()
		m.tlmAbs = m.tmAbs
		m.fresh = true
	case "Td":
		if !m.inText {
			return fmt.Errorf("Td outside a text object")
		}
		if err := need(op, 2); err != nil {
			return err
		}
		m.td(op.Args[0], op.Args[1])
	case "TD":
		if !m.inText {
			return fmt.Errorf("TD outside a text object")
		}
		if err := need(op, 2); err != nil {
			return err
		}
		m.gs.tl = -op.Args[1]
		m.td(op.Args[0], op.Args[1])
	case "T*":
		if !m.inText {
			return fmt.Errorf("T* outside a text object")
		}
		m.td(0, -m.gs.tl)
	case "Tj":
		if !m.inText || !m.gs.fontSet {
			return fmt.Errorf("Tj outside a text object or without a font")
		}
		m.show(op.Text, false)
	case "'":
		if !m.inText || !m.gs.fontSet {
			return fmt.Errorf("' outside a text object or without a font")
		}
		m.td(0, -m.gs.tl)
		m.show(op.Text, true)
	case "\"":
		if !m.inText || !m.gs.fontSet {
			return fmt.Errorf("\" outside a text object or without a font")
		}
		if err := need(op, 2); err != nil {
			return err
		}
		m.gs.tw, m.gs.tc = op.Args[0], op.Args[1]
		m.td(0, -m.gs.tl)
		m.show(op.Text, true)
	case "Do":
		if m.inText {
			return fmt.Errorf("Do inside a text object")
		}
		f, ok := m.forms[op.Text]
		if !ok {
			return fmt.Errorf("Do: unknown XObject %q", op.Text)
		}
		if m.depth >= 8 {
			return fmt.Errorf("form nesting too deep")
		}
		// §8.10.1: save the graphics state, concatenate /Matrix, paint, restore
		saved := m.gs
		savedStack := m.stack
		m.stack = nil
		m.gs.ctm = f.Matrix.Mul(m.gs.ctm)
		m.gs.ctmAbs = f.Matrix.abs().Mul(m.gs.ctmAbs)
		m.depth++
		for _, o := range f.Ops {
			if err := m.Exec(o); err != nil {
				return fmt.Errorf("in form %s: %w", op.Text, err)
			}
		}
		m.depth--
		if m.inText || len(m.stack) != 0 {
			return fmt.Errorf("form %s leaves a text object or q open", op.Text)
		}
		m.gs, m.stack = saved, savedStack
	case "m", "l":
		if m.inText {
			return fmt.Errorf("path construction inside a text object")
		}
		if err := need(op, 2); err != nil {
			return err
		}
		if op.Name == "m" {
			m.path, m.pathScale = m.path[:0], m.pathScale[:0]
		} else if len(m.path) == 0 {
			return fmt.Errorf("l without current point")
		}
		x, y := m.gs.ctm.Apply(op.Args[0], op.Args[1])
		sx, sy := m.gs.ctmAbs.Apply(math.Abs(op.Args[0]), math.Abs(op.Args[1]))
		m.path = append(m.path, [2]float64{x, y})
		m.pathScale = append(m.pathScale, math.Max(sx, sy))
	case "S":
		for i := 1; i < len(m.path); i++ {
			m.Lines = append(m.Lines, Segment{m.path[i-1][0], m.path[i-1][1], m.path[i][0], m.path[i][1], math.Max(m.pathScale[i-1], m.pathScale[i])})
		}
		m.path, m.pathScale = m.path[:0], m.pathScale[:0]
	default:
		return fmt.Errorf("operator %q is outside the model", op.Name)
	}
	return nil
}

// Run executes a whole program on a fresh machine.
func Run(ops []Op, forms map[string]Form) (*Machine, error) {
	m := New(forms)
	for i, op := range ops {
		if err := m.Exec(op); err != nil {
			return m, fmt.Errorf("operator %d: %w", i, err)
		}
	}
	if m.inText {
		return m, fmt.Errorf("text object left open")
	}
	if len(m.stack) != 0 {
		return m, fmt.Errorf("%d q left open", len(m.stack))
	}
	return m, nil
}
