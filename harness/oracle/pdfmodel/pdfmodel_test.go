package pdfmodel

import (
	"math"
	"testing"
)

func n(name string, a ...float64) Op { return Op{Name: name, Args: a} }
func tf(size float64) Op             { return Op{Name: "Tf", Font: "F1", Args: []float64{size}} }
func tj(s string) Op                 { return Op{Name: "Tj", Text: s} }

// The four ground-truth rows recorded from Mozilla pdf.js 2.14.305
// (/verif/devtools/README.md): item transform = Tfs x Tm x CTM.
func TestAgainstPDFJSGroundTruth(t *testing.T) {
	type want struct {
		text string
		m    [6]float64
	}
	cases := []struct {
		ops  []Op
		want []want
	}{
		{[]Op{n("cm", 1, 0, 0, 1, 100, 100), n("cm", 2, 0, 0, 2, 0, 0), n("BT"), tf(12), n("Td", 10, 10), tj("Hi"), n("ET")},
			[]want{{"Hi", [6]float64{24, 0, 0, 24, 120, 120}}}},
		{[]Op{n("BT"), tf(1), n("Tm", 12, 0, 0, 12, 72, 700), tj("A"), n("Td", 0, -1.2), tj("B"), n("ET")},
			[]want{{"A", [6]float64{12, 0, 0, 12, 72, 700}}, {"B", [6]float64{12, 0, 0, 12, 72, 685.6}}}},
		{[]Op{n("q"), n("cm", 0, 1, -1, 0, 300, 100), n("BT"), tf(10), n("Tm", 2, 0, 0, 3, 5, 7), n("TL", 4), tj("A"), n("T*"), tj("B"),
			{Name: "'", Text: "C"}, n("ET"), n("Q"), n("BT"), tf(10), n("Td", 50, 50), tj("D"), n("ET")},
			[]want{{"A", [6]float64{0, 20, -30, 0, 293, 105}}, {"B", [6]float64{0, 20, -30, 0, 305, 105}}, {"C", [6]float64{0, 20, -30, 0, 317, 105}}, {"D", [6]float64{10, 0, 0, 10, 50, 50}}}},
		{[]Op{n("BT"), tf(10), n("Tm", 1, 0.5, 0.25, 1, 100, 200), n("TD", 10, 20), tj("A"), n("T*"), tj("B"), n("ET")},
			[]want{{"A", [6]float64{10, 5, 2.5, 10, 115, 225}}, {"B", [6]float64{10, 5, 2.5, 10, 120, 245}}}},
	}
	for ci, c := range cases {
		m, err := Run(c.ops, nil)
		if err != nil {
			t.Fatalf("case %d: %v", ci, err)
		}
		if len(m.Shown) != len(c.want) {
			t.Fatalf("case %d: %d shown, want %d", ci, len(m.Shown), len(c.want))
		}
		for i, w := range c.want {
			s := m.Shown[i]
			if s.Text != w.text || !s.Comparable {
				t.Errorf("case %d item %d: %+v", ci, i, s)
			}
			for k := 0; k < 6; k++ {
				if math.Abs(s.Trm[k]-w.m[k]) > 1e-9 {
					t.Errorf("case %d item %d (%s): Trm = %v, pdf.js says %v", ci, i, w.text, s.Trm, w.m)
					break
				}
			}
			if math.Abs(s.X-w.m[4]) > 1e-9 || math.Abs(s.Y-w.m[5]) > 1e-9 {
				t.Errorf("case %d item %d: position (%v,%v), pdf.js says (%v,%v)", ci, i, s.X, s.Y, w.m[4], w.m[5])
			}
		}
	}
}

func TestSingularValues(t *testing.T) {
	lo, hi := Matrix{0, 20, -30, 0, 0, 0}.SingularValues()
	if math.Abs(lo-20) > 1e-9 || math.Abs(hi-30) > 1e-9 {
		t.Fatalf("got %v %v", lo, hi)
	}
	if !(Matrix{0, 2, -2, 0, 5, 5}).IsSimilarity(1e-9) || (Matrix{1, 0.5, 0.25, 1, 0, 0}).IsSimilarity(1e-9) {
		t.Fatal("similarity test wrong")
	}
}

func TestFormAndGrammar(t *testing.T) {
	forms := map[string]Form{"Fm1": {Matrix: Matrix{2, 0, 0, 2, 10, 10}, Ops: []Op{n("BT"), tf(5), n("Td", 1, 1), tj("x"), n("ET")}}}
	m, err := Run([]Op{n("cm", 1, 0, 0, 1, 100, 0), {Name: "Do", Text: "Fm1"}, n("BT"), tf(7), tj("y"), n("ET")}, forms)
	if err != nil {
		t.Fatal(err)
	}
	if m.Shown[0].X != 112 || m.Shown[0].Y != 12 || m.Shown[1].X != 100 || m.Shown[1].Y != 0 {
		t.Fatalf("%+v", m.Shown)
	}
	if _, err := Run([]Op{n("BT"), n("cm", 1, 0, 0, 1, 0, 0), n("ET")}, nil); err == nil {
		t.Fatal("cm inside BT accepted")
	}
	if _, err := Run([]Op{n("Q")}, nil); err == nil {
		t.Fatal("Q underflow accepted")
	}
}
