// Package iso runs code under test in isolated child processes, because the
// failures the robustness property is about cannot be observed in-process:
// stack exhaustion and out-of-memory are fatal in Go, and a goroutine that
// loops forever cannot be killed.
//
// The child is the test binary itself, re-executed with VERIF_WORKER=1. The
// parent sends (entry, payload) frames over stdin and reads one verdict line
// per frame from stdout. The parent meters the child's CPU time through
// /proc/<pid>/stat; wall time is only used as a generous stall detector.
package iso

import (
	"bufio"
	"bytes"
	"encoding/binary"
	"encoding/json"
	"fmt"
	"io"
	"os"
	"os/exec"
	"regexp"
	"runtime"
	"runtime/debug"
	"strconv"
	"strings"
	"sync"
	"syscall"
	"time"
)

// Verdict is the outcome of one isolated execution.
type Verdict struct {
	Kind string `json:"kind"` // ok | error | panic | abort | hang | memory | race | infra
	Msg  string `json:"msg,omitempty"`
	Site string `json:"site,omitempty"` // top-most tabula function on the failing stack
	Out  string `json:"out,omitempty"`  // entry-specific result (used for baselines)
}

// Bad reports whether the verdict violates "returns a value or an error in bounded time and memory".
func (v Verdict) Bad() bool {
	return v.Kind == "panic" || v.Kind == "abort" || v.Kind == "hang" || v.Kind == "memory" || v.Kind == "race"
}

// Signature identifies the root cause coarsely: kind + site.
func (v Verdict) Signature() string { return v.Kind + "@" + v.Site }

// Entry is a function the child can run. It returns an entry-specific output string.
type Entry func(payload []byte) (string, error)

// magic prefixes verdict lines so that stray output of the code under test cannot be mistaken for one.
const magic = "@@VERDICT "

// Limits of one execution.
var (
	CPULimit   = 10 * time.Second // CPU time of the child for one case (normal cases take 0.1–5 ms)
	StallLimit = 60 * time.Second // wall time without an answer while the child burns no CPU
	HeapLimit  = uint64(768 << 20)
	// AddressSpaceLimit is the RLIMIT_AS of a worker (0 = none; the race detector needs none).
	AddressSpaceLimit = uint64(6 << 30)
)

// ---------------------------------------------------------------------------
// child side

// IsWorker reports whether this process was started as a worker.
func IsWorker() bool { return os.Getenv("VERIF_WORKER") == "1" }

var tabulaFrame = regexp.MustCompile(`(github\.com/tsawler/tabula[^\s(]*(?:\([^)]*\))?[^\s(]*)\(`)

// SiteOf extracts the top-most tabula function from a stack dump.
func SiteOf(stack string) string {
	for _, line := range strings.Split(stack, "\n") {
		if strings.Contains(line, "github.com/tsawler/tabula") && !strings.HasPrefix(strings.TrimSpace(line), "/") {
			l := strings.TrimSpace(line)
			if i := strings.LastIndex(l, "("); i > 0 {
				l = l[:i]
			}
			l = strings.TrimPrefix(l, "created by ")
			return l
		}
	}
	return ""
}

// WorkerMain serves requests until stdin closes. It never returns.
func WorkerMain(entries map[string]Entry) {
	debug.SetMaxStack(64 << 20) // runaway recursion dies fast instead of eating 1 GiB
	// hard ceiling on the address space: a single allocation sized from a hostile number fails inside the
	// worker ("fatal error: runtime: out of memory", reported as an abort) instead of taking the machine down
	if lim := AddressSpaceLimit; lim > 0 {
		_ = syscall.Setrlimit(syscall.RLIMIT_AS, &syscall.Rlimit{Cur: lim, Max: lim})
	}
	debug.SetTraceback("all")
	go func() { // memory watchdog
		var ms runtime.MemStats
		for {
			time.Sleep(20 * time.Millisecond)
			runtime.ReadMemStats(&ms)
			if ms.HeapAlloc > HeapLimit {
				buf := make([]byte, 1<<16)
				n := runtime.Stack(buf, true)
				fmt.Fprintf(os.Stderr, "VERIF-MEMORY heap=%d\n%s\n", ms.HeapAlloc, buf[:n])
				os.Exit(97)
			}
		}
	}()
	in := bufio.NewReader(os.Stdin)
	out := bufio.NewWriter(os.Stdout)
	for {
		name, err := readFrame(in)
		if err != nil {
			os.Exit(0)
		}
		payload, err := readFrame(in)
		if err != nil {
			os.Exit(0)
		}
		v := runEntry(entries, string(name), payload)
		b, _ := json.Marshal(v)
		out.WriteString(magic)
		out.Write(b)
		out.WriteByte('\n')
		out.Flush()
	}
}

func runEntry(entries map[string]Entry, name string, payload []byte) (v Verdict) {
	fn, ok := entries[name]
	if !ok {
		return Verdict{Kind: "infra", Msg: "unknown entry " + name}
	}
	defer func() {
		if r := recover(); r != nil {
			st := string(debug.Stack())
			v = Verdict{Kind: "panic", Msg: fmt.Sprint(r), Site: SiteOf(st)}
		}
	}()
	s, err := fn(payload)
	if err != nil {
		return Verdict{Kind: "error", Msg: clip(err.Error(), 300), Out: s}
	}
	return Verdict{Kind: "ok", Out: s}
}

func clip(s string, n int) string {
	if len(s) > n {
		return s[:n]
	}
	return s
}

func readFrame(r *bufio.Reader) ([]byte, error) {
	var n uint32
	if err := binary.Read(r, binary.LittleEndian, &n); err != nil {
		return nil, err
	}
	b := make([]byte, n)
	_, err := io.ReadFull(r, b)
	return b, err
}

func writeFrame(w io.Writer, b []byte) error {
	if err := binary.Write(w, binary.LittleEndian, uint32(len(b))); err != nil {
		return err
	}
	_, err := w.Write(b)
	return err
}

// ---------------------------------------------------------------------------
// parent side

type worker struct {
	cmd    *exec.Cmd
	stdin  io.WriteCloser
	stdout *bufio.Reader
	stderr *lockedBuf
}

type lockedBuf struct {
	mu sync.Mutex
	b  bytes.Buffer
}

func (l *lockedBuf) Write(p []byte) (int, error) {
	l.mu.Lock()
	defer l.mu.Unlock()
	if l.b.Len() > 4<<20 {
		l.b.Reset()
	}
	return l.b.Write(p)
}

func (l *lockedBuf) String() string {
	l.mu.Lock()
	defer l.mu.Unlock()
	return l.b.String()
}

// Pool is a set of worker processes.
type Pool struct {
	bin  string
	env  []string
	free chan *worker
	size int
}

// NewPool starts n workers running the binary bin (normally os.Args[0]).
func NewPool(bin string, n int, extraEnv ...string) (*Pool, error) {
	p := &Pool{bin: bin, free: make(chan *worker, n), size: n, env: extraEnv}
	for i := 0; i < n; i++ {
		w, err := p.spawn()
		if err != nil {
			return nil, err
		}
		p.free <- w
	}
	return p, nil
}

func (p *Pool) spawn() (*worker, error) {
	cmd := exec.Command(p.bin, "-test.run=^$")
	cmd.Env = append(append(os.Environ(), "VERIF_WORKER=1", "GOTRACEBACK=all", "GOMAXPROCS=2"), p.env...)
	stdin, err := cmd.StdinPipe()
	if err != nil {
		return nil, err
	}
	stdout, err := cmd.StdoutPipe()
	if err != nil {
		return nil, err
	}
	eb := &lockedBuf{}
	cmd.Stderr = eb
	if err := cmd.Start(); err != nil {
		return nil, err
	}
	return &worker{cmd: cmd, stdin: stdin, stdout: bufio.NewReaderSize(stdout, 1<<20), stderr: eb}, nil
}

// Close stops all workers.
func (p *Pool) Close() {
	for i := 0; i < p.size; i++ {
		select {
		case w := <-p.free:
			w.stdin.Close()
			w.cmd.Process.Kill()
			w.cmd.Wait()
		default:
		}
	}
}

func cpuTime(pid int) (time.Duration, bool) {
	b, err := os.ReadFile("/proc/" + strconv.Itoa(pid) + "/stat")
	if err != nil {
		return 0, false
	}
	// fields after the command name in parentheses
	s := string(b)
	i := strings.LastIndex(s, ")")
	if i < 0 {
		return 0, false
	}
	f := strings.Fields(s[i+1:])
	if len(f) < 13 {
		return 0, false
	}
	ut, _ := strconv.ParseInt(f[11], 10, 64)
	st, _ := strconv.ParseInt(f[12], 10, 64)
	return time.Duration(ut+st) * (time.Second / 100), true // USER_HZ = 100
}

// Run executes one entry on a free worker and returns its verdict. A worker
// that dies or hangs is replaced.
func (p *Pool) Run(entry string, payload []byte) Verdict {
	w := <-p.free
	v, healthy := p.runOn(w, entry, payload)
	if !healthy {
		w.stdin.Close()
		w.cmd.Process.Kill()
		w.cmd.Wait()
		nw, err := p.spawn()
		if err != nil {
			// give the slot back with a dead worker replaced lazily next time
			p.free <- w
			return Verdict{Kind: "infra", Msg: "cannot respawn worker: " + err.Error()}
		}
		w = nw
	}
	p.free <- w
	return v
}

func (p *Pool) runOn(w *worker, entry string, payload []byte) (Verdict, bool) {
	start, _ := cpuTime(w.cmd.Process.Pid)
	if err := writeFrame(w.stdin, []byte(entry)); err != nil {
		return p.dead(w, "write: "+err.Error()), false
	}
	if err := writeFrame(w.stdin, payload); err != nil {
		return p.dead(w, "write: "+err.Error()), false
	}
	type reply struct {
		line []byte
		err  error
	}
	ch := make(chan reply, 1)
	go func() {
		for {
			line, err := w.stdout.ReadBytes('\n')
			if err != nil || bytes.HasPrefix(line, []byte(magic)) {
				ch <- reply{bytes.TrimPrefix(line, []byte(magic)), err}
				return
			}
			// anything else on stdout is chatter of the code under test
		}
	}()
	lastCPU := start
	lastProgress := time.Now()
	tick := time.NewTicker(50 * time.Millisecond)
	defer tick.Stop()
	for {
		select {
		case r := <-ch:
			if r.err != nil {
				return p.dead(w, "worker exited"), false
			}
			var v Verdict
			if err := json.Unmarshal(r.line, &v); err != nil {
				return Verdict{Kind: "infra", Msg: "bad reply: " + clip(string(r.line), 200)}, false
			}
			return v, true
		case <-tick.C:
			now, ok := cpuTime(w.cmd.Process.Pid)
			if !ok {
				continue
			}
			if now > lastCPU {
				lastCPU = now
				lastProgress = time.Now()
			}
			if now-start > CPULimit {
				return p.hung(w, fmt.Sprintf("more than %v CPU time", CPULimit)), false
			}
			if time.Since(lastProgress) > StallLimit {
				return p.hung(w, fmt.Sprintf("no answer and no CPU progress for %v", StallLimit)), false
			}
		}
	}
}

// hung asks the runtime for a goroutine dump (SIGQUIT) to learn where the worker is spinning.
func (p *Pool) hung(w *worker, why string) Verdict {
	w.cmd.Process.Signal(syscall.SIGQUIT)
	done := make(chan struct{})
	go func() { w.cmd.Wait(); close(done) }()
	select {
	case <-done:
	case <-time.After(5 * time.Second):
		w.cmd.Process.Kill()
		<-done
	}
	st := w.stderr.String()
	return Verdict{Kind: "hang", Msg: why, Site: SiteOf(st)}
}

func (p *Pool) dead(w *worker, why string) Verdict {
	done := make(chan struct{})
	go func() { w.cmd.Wait(); close(done) }()
	select {
	case <-done:
	case <-time.After(5 * time.Second):
		w.cmd.Process.Kill()
		<-done
	}
	st := w.stderr.String()
	switch {
	case strings.Contains(st, "WARNING: DATA RACE"):
		// a worker built with -race and run with GORACE=halt_on_error=1
		return Verdict{Kind: "race", Msg: clip(st[strings.Index(st, "WARNING: DATA RACE"):], 1200), Site: SiteOf(st)}
	case strings.Contains(st, "VERIF-MEMORY"):
		return Verdict{Kind: "memory", Msg: firstLine(st, "VERIF-MEMORY"), Site: SiteOf(st[strings.Index(st, "VERIF-MEMORY"):])}
	case strings.Contains(st, "fatal error:") || strings.Contains(st, "goroutine stack exceeds") || strings.Contains(st, "panic:"):
		return Verdict{Kind: "abort", Msg: firstLine(st, "fatal error:", "runtime: goroutine stack exceeds", "panic:"), Site: SiteOf(st)}
	}
	return Verdict{Kind: "infra", Msg: why + ": " + clip(st, 300)}
}

func firstLine(s string, keys ...string) string {
	for _, line := range strings.Split(s, "\n") {
		for _, k := range keys {
			if strings.Contains(line, k) {
				return clip(line, 200)
			}
		}
	}
	return ""
}
