package c08

// Development-time cross-validation of the reference machine oracle/pdfmodel
// against Mozilla pdf.js (an independent implementation of the imaging model).
// It is NOT part of the registered check: it runs only when VERIF_PDFJS_NODE
// names a node binary (node and pdf.js are not guaranteed tools), e.g.
//
//	cd /verif/harness && VERIF_PDFJS_NODE=/root/.nvm/versions/node/v20.20.2/bin/node \
//	  go test -count=1 ./c08 -run TestPDFJSCrossCheck -rapid.checks=300
//
// Generated programs are written as pages of one PDF (forms as XObjects);
// pdf.js's text item transforms must equal the model's text rendering matrix
// at every comparable text-showing operator.

import (
	"bytes"
	"encoding/json"
	"fmt"
	"math"
	"os"
	"os/exec"
	"sort"
	"testing"

	"pgregory.net/rapid"

	"verif/harness/oracle/pdfmodel"
)

type pdfBuilder struct {
	buf  bytes.Buffer
	offs []int
}

func (b *pdfBuilder) obj(n int, body string) {
	for len(b.offs) <= n {
		b.offs = append(b.offs, 0)
	}
	b.offs[n] = b.buf.Len()
	fmt.Fprintf(&b.buf, "%d 0 obj\n%s\nendobj\n", n, body)
}

func (b *pdfBuilder) stream(n int, dict string, data []byte) {
	b.obj(n, fmt.Sprintf("<< %s /Length %d >>\nstream\n%s\nendstream", dict, len(data), data))
}

// pdf.js without standard font data drops the digit glyphs of the non-embedded
// Helvetica, so the labels are rewritten with letters only (0-9 -> a-j).
func lettersOnly(ops []pdfmodel.Op) []pdfmodel.Op {
	out := make([]pdfmodel.Op, len(ops))
	for i, op := range ops {
		out[i] = op
		if op.Name == "Tj" || op.Name == "'" || op.Name == "\"" {
			out[i].Text = letterLabel(op.Text)
		}
	}
	return out
}

func letterLabel(s string) string {
	b := []byte(s)
	for i, c := range b {
		if c >= '0' && c <= '9' {
			b[i] = 'a' + (c - '0')
		}
	}
	return "x" + string(b) + "x"
}

func matStr(m pdfmodel.Matrix) string {
	s := ""
	for _, v := range m {
		s += string(spellNum(v)) + " "
	}
	return s
}

func spellNum(v float64) []byte {
	return spell([]pdfmodel.Op{{Name: "w", Args: []float64{v}}})[:len(spell([]pdfmodel.Op{{Name: "w", Args: []float64{v}}}))-2]
}

func TestPDFJSCrossCheck(t *testing.T) {
	node := os.Getenv("VERIF_PDFJS_NODE")
	if node == "" {
		t.Skip("development aid: set VERIF_PDFJS_NODE to a node binary")
	}
	var cases []Case
	rapid.Check(t, func(rt *rapid.T) {
		c := genCase(rt)
		// pdf.js drops text outside the page box: shift everything into a huge box
		c.Ops = append([]pdfmodel.Op{{Name: "cm", Args: []float64{1, 0, 0, 1, 1000000, 1000000}}}, c.Ops...)
		cases = append(cases, c)
	})

	b := &pdfBuilder{}
	b.buf.WriteString("%PDF-1.7\n")
	next := 4
	var kids []string
	font := "<< /Type /Font /Subtype /Type1 /BaseFont /Helvetica >>"
	b.obj(3, font)
	fontRes := "/Font << /F1 3 0 R /F2 3 0 R /TT0 3 0 R >>"
	for _, c := range cases {
		names := make([]string, 0, len(c.Forms))
		for n := range c.Forms {
			names = append(names, n)
		}
		sort.Strings(names)
		xo := ""
		ids := map[string]int{}
		for _, n := range names {
			ids[n] = next
			next++
			xo += fmt.Sprintf("/%s %d 0 R ", n, ids[n])
		}
		res := fmt.Sprintf("<< %s /XObject << %s>> >>", fontRes, xo)
		for _, n := range names {
			f := c.Forms[n]
			b.stream(ids[n], fmt.Sprintf("/Type /XObject /Subtype /Form /BBox [-100000 -100000 100000 100000] /Matrix [%s] /Resources %s", matStr(f.Matrix), res), spell(lettersOnly(f.Ops)))
		}
		content, page := next, next+1
		next += 2
		b.stream(content, "", spell(lettersOnly(c.Ops)))
		b.obj(page, fmt.Sprintf("<< /Type /Page /Parent 2 0 R /MediaBox [0 0 2000000 2000000] /Resources %s /Contents %d 0 R >>", res, content))
		kids = append(kids, fmt.Sprintf("%d 0 R", page))
	}
	kidStr := ""
	for _, k := range kids {
		kidStr += k + " "
	}
	b.obj(2, fmt.Sprintf("<< /Type /Pages /Count %d /Kids [%s] >>", len(kids), kidStr))
	b.obj(1, "<< /Type /Catalog /Pages 2 0 R >>")
	xref := b.buf.Len()
	fmt.Fprintf(&b.buf, "xref\n0 %d\n0000000000 65535 f \n", next)
	for i := 1; i < next; i++ {
		fmt.Fprintf(&b.buf, "%010d 00000 n \n", b.offs[i])
	}
	fmt.Fprintf(&b.buf, "trailer\n<< /Size %d /Root 1 0 R >>\nstartxref\n%d\n%%%%EOF\n", next, xref)
	path := os.TempDir() + "/c08-pdfjs.pdf"
	if err := os.WriteFile(path, b.buf.Bytes(), 0o644); err != nil {
		t.Fatal(err)
	}
	out, err := exec.Command(node, "/verif/devtools/pdfjs_text.js", path).Output()
	if err != nil {
		t.Fatalf("pdf.js: %v\n%s", err, out)
	}
	var res struct {
		Pages int
		Items [][][2]json.RawMessage
	}
	if err := json.Unmarshal(out, &res); err != nil {
		t.Fatalf("pdf.js output: %v\n%.300s", err, out)
	}
	if res.Pages != len(cases) {
		t.Fatalf("pdf.js sees %d pages, want %d", res.Pages, len(cases))
	}
	compared, pagesOK, inconclusive := 0, 0, 0
	for pi, c := range cases {
		m, err := pdfmodel.Run(c.Ops, c.Forms)
		if err != nil {
			t.Fatal(err)
		}
		// pdf.js merges consecutive chunks into one item whose transform is that
		// of its first chunk: an item vouches for the shown string it starts with
		got := map[string][6]float64{}
		for _, it := range res.Items[pi] {
			var str string
			var tr [6]float64
			_ = json.Unmarshal(it[0], &str)
			_ = json.Unmarshal(it[1], &tr)
			for _, sh := range m.Shown {
				if l := letterLabel(sh.Text); len(str) >= len(l) && str[:len(l)] == l {
					got[l] = tr
				}
			}
		}
		ok := true
		for _, s := range m.Shown {
			if !s.Comparable {
				continue
			}
			g, found := got[letterLabel(s.Text)]
			if !found {
				// pdf.js merges or drops items by its own layout heuristics (overlapping
				// chunks, text outside the page box); such items say nothing about the model
				inconclusive++
				continue
			}
			compared++
			for k := 0; k < 6; k++ {
				tolk := 1e-6 * math.Max(1, s.Scale)
				if math.Abs(g[k]-s.Trm[k]) > tolk {
					t.Errorf("page %d item %q: pdf.js transform %v, model Trm %v (program %q%s)", pi, s.Text, g, s.Trm, spell(c.Ops), formNote(c))
					ok = false
					break
				}
			}
		}
		if ok {
			pagesOK++
		}
	}
	t.Logf("pdf.js agrees with oracle/pdfmodel on %d comparable text items (%d more were merged or dropped by pdf.js's own heuristics) in %d/%d generated programs", compared, inconclusive, pagesOK, len(cases))
}
