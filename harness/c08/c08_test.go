// C08 — Fragment positions follow the PDF imaging model.
//
// Generator: operator programs over {q Q cm BT ET Tf Tm Td TD T* TL Tc Tw Tz Tj ' "}
// (plus Do of form XObjects with /Matrix and, for the second observer, m l S)
// that obey the content-stream grammar; the grammar state is tracked with the
// reference machine oracle/pdfmodel. Oracle: the same machine, an
// implementation of ISO 32000-1 §8.3-8.4 and §9.4 written from the
// specification and checked against pdf.js ground truth.
//
//	position: at every text-showing operator that directly follows a
//	          positioning step (or repositions by itself: ' "), fragment (X, Y)
//	          == (0,0) x Tm x CTM;
//	size:     FontSize within [sigma_min, sigma_max] of [Tfs*Th 0 0 Tfs] x Tm x CTM
//	          (equal for similarity transforms, hence strict there);
//	lines:    graphicsstate.GraphicsExtractor segment end points == points x CTM.
package c08

import (
	"fmt"
	"math"
	"sort"
	"strings"
	"testing"

	"github.com/tsawler/tabula/core"
	"github.com/tsawler/tabula/graphicsstate"
	"github.com/tsawler/tabula/text"
	"pgregory.net/rapid"

	"verif/harness/gen/pdfsyn"
	"verif/harness/oracle/pdfmodel"
	"verif/harness/vr"
)

func TestMain(m *testing.M) { vr.Main(m) }

type Case struct {
	Ops    []pdfmodel.Op            `json:"ops"`
	Forms  map[string]pdfmodel.Form `json:"forms,omitempty"`
	// Scoped: every content stream names the forms it paints X1, X2, ... through its own /Resources (the page's
	// dictionary for the page, the form's own for a form), so one name stands for different forms in different scopes
	Scoped bool `json:"scoped,omitempty"`
	Labels []string                 `json:"labels"`
}

// ---------------------------------------------------------------------------
// writing the program

func toSyn(ops []pdfmodel.Op) []pdfsyn.Op {
	out := make([]pdfsyn.Op, 0, len(ops))
	for _, op := range ops {
		so := pdfsyn.Op{Operator: op.Name}
		nums := func() {
			for _, a := range op.Args {
				so.Operands = append(so.Operands, pdfsyn.Num(a))
			}
		}
		switch op.Name {
		case "Tf":
			so.Operands = append(so.Operands, pdfsyn.NameStr(op.Font))
			nums()
		case "Tj", "'":
			so.Operands = append(so.Operands, pdfsyn.StringObj([]byte(op.Text)))
		case "\"":
			nums()
			so.Operands = append(so.Operands, pdfsyn.StringObj([]byte(op.Text)))
		case "Do":
			so.Operands = append(so.Operands, pdfsyn.NameStr(op.Text))
		default:
			nums()
		}
		out = append(out, so)
	}
	return out
}

func spell(ops []pdfmodel.Op) []byte {
	w := pdfsyn.NewWriter(pdfsyn.CanonicalPolicy(), pdfsyn.Fixed(0))
	w.Program(toSyn(ops))
	return w.Bytes()
}

func numObj(v float64) core.Object {
	if v == math.Trunc(v) && math.Abs(v) < 1e15 {
		return core.Int(int64(v))
	}
	return core.Real(v)
}

// ---------------------------------------------------------------------------
// oracle

func tol(scale float64) float64 { return 1e-6 * math.Max(1, scale) }

func checkCase(c Case) error {
	m, err := pdfmodel.Run(c.Ops, c.Forms)
	if err != nil {
		return fmt.Errorf("generator produced a program outside the grammar: %v", err)
	}
	// scoped names: rename the Do operands of one content stream to X1, X2, ... in order of first use
	alias := func(ops []pdfmodel.Op) ([]pdfmodel.Op, map[string]string) {
		if !c.Scoped {
			return ops, nil
		}
		local := map[string]string{} // alias -> form
		byForm := map[string]string{}
		out := append([]pdfmodel.Op{}, ops...)
		for i, op := range out {
			if op.Name == "Do" {
				if _, ok := byForm[op.Text]; !ok {
					byForm[op.Text] = fmt.Sprintf("X%d", len(byForm)+1)
					local[byForm[op.Text]] = op.Text
				}
				out[i].Text = byForm[op.Text]
			}
		}
		return out, local
	}
	pageOps, pageAlias := alias(c.Ops)
	prog := spell(pageOps)

	newExtractor := func() *text.Extractor {
		ex := text.NewExtractor()
		if len(c.Forms) > 0 {
			objs := map[int]core.Object{}
			xobj := core.Dict{}
			names := make([]string, 0, len(c.Forms))
			for name := range c.Forms {
				names = append(names, name)
			}
			sort.Strings(names)
			num := map[string]int{}
			for i, name := range names {
				num[name] = 10 + i
			}
			for i, name := range names {
				f := c.Forms[name]
				fops, falias := alias(f.Ops)
				data := spell(fops)
				mat := core.Array{}
				for _, v := range f.Matrix {
					mat = append(mat, numObj(v))
				}
				d := core.Dict{
					"Type": core.Name("XObject"), "Subtype": core.Name("Form"),
					"BBox":   core.Array{core.Int(-10000), core.Int(-10000), core.Int(10000), core.Int(10000)},
					"Matrix": mat, "Length": core.Int(len(data)),
				}
				if c.Scoped {
					sub := core.Dict{}
					for a, target := range falias {
						sub[a] = core.IndirectRef{Number: num[target]}
					}
					d["Resources"] = core.Dict{"XObject": sub}
				}
				objs[10+i] = &core.Stream{Dict: d, Data: data}
				xobj[name] = core.IndirectRef{Number: 10 + i}
			}
			if c.Scoped {
				xobj = core.Dict{}
				for a, target := range pageAlias {
					xobj[a] = core.IndirectRef{Number: num[target]}
				}
			}
			ex.SetResourceContext(core.Dict{"XObject": xobj}, func(r core.IndirectRef) (core.Object, error) {
				if o, ok := objs[r.Number]; ok {
					return o, nil
				}
				return nil, fmt.Errorf("no object %d", r.Number)
			})
		}
		return ex
	}
	frags, err := newExtractor().ExtractFromBytes(prog)
	if err != nil {
		return fmt.Errorf("ExtractFromBytes fails on %q: %v", prog, err)
	}
	if len(frags) != len(m.Shown) {
		return fmt.Errorf("%d fragments for %d text-showing operators in %q", len(frags), len(m.Shown), prog)
	}
	for i, s := range m.Shown {
		f := frags[i]
		if f.Text != s.Text {
			return fmt.Errorf("fragment %d is %q, want %q (order of fragments) in %q", i, f.Text, s.Text, prog)
		}
		if s.Comparable {
			if d := math.Max(math.Abs(f.X-s.X), math.Abs(f.Y-s.Y)); !(d <= tol(s.Scale)) {
				return fmt.Errorf("fragment %q at (%.6f, %.6f), imaging model says (%.6f, %.6f) [Tm x CTM = %v] in %q%s",
					s.Text, f.X, f.Y, s.X, s.Y, s.Trm, prog, formNote(c))
			}
		}
		lo, hi := s.SizeMin*(1-1e-6), s.SizeMax*(1+1e-6)
		if !(f.FontSize >= lo && f.FontSize <= hi) {
			return fmt.Errorf("fragment %q has font size %.6f, outside [%.6f, %.6f] = stretch range of [Tfs*Th 0 0 Tfs] x Tm x CTM = %v in %q%s",
				s.Text, f.FontSize, s.SizeMin, s.SizeMax, s.Trm, prog, formNote(c))
		}
	}

	// where the text rendering matrix neither turns nor shears (b = c = 0) there is no choice of reading: the glyphs
	// are |d| units high - a size between the two stretch factors (their geometric mean, say) is not "the" size
	for i, s := range m.Shown {
		mx := math.Max(math.Abs(s.Trm[0]), math.Abs(s.Trm[3]))
		if math.Abs(s.Trm[1]) <= 1e-12*mx && math.Abs(s.Trm[2]) <= 1e-12*mx && s.Trm[3] != 0 {
			want := math.Abs(s.Trm[3])
			if d := math.Abs(frags[i].FontSize - want); !(d <= 1e-6*math.Max(1, want)) {
				return fmt.Errorf("fragment %q has font size %.6f; the text rendering matrix %v is axis-aligned and makes the glyphs %.6f high, in %q%s",
					s.Text, frags[i].FontSize, s.Trm, want, prog, formNote(c))
			}
		}
	}

	// the reported size is a scale: turning the whole page by a quarter, a half or three quarters of a turn (an
	// exact matrix, concatenated in front of the program) changes positions but no size
	for _, turn := range []string{"0 1 -1 0 0 0 cm\n", "-1 0 0 -1 0 0 cm\n", "0 -1 1 0 0 0 cm\n"} {
		tf, err := newExtractor().ExtractFromBytes(append([]byte(turn), prog...))
		if err != nil || len(tf) != len(frags) {
			return fmt.Errorf("the program turned by %q: %d fragments (err %v), %d without the turn, in %q", turn, len(tf), err, len(frags), prog)
		}
		for i := range frags {
			if d := math.Abs(tf[i].FontSize - frags[i].FontSize); !(d <= 1e-6*math.Max(1, frags[i].FontSize)) {
				return fmt.Errorf("fragment %q has font size %.6f, and %.6f when the whole page is turned by %q: a rotation does not scale (Tm x CTM = %v) in %q%s",
					frags[i].Text, frags[i].FontSize, tf[i].FontSize, strings.TrimSpace(turn), m.Shown[i].Trm, prog, formNote(c))
			}
		}
	}

	// second observer: stroked segments
	ge := graphicsstate.NewGraphicsExtractor()
	if err := ge.ExtractFromBytes(prog); err != nil {
		return fmt.Errorf("GraphicsExtractor fails on %q: %v", prog, err)
	}
	lines := ge.GetLines()
	want := topLevelLines(c)
	if len(lines) != len(want) {
		return fmt.Errorf("GraphicsExtractor found %d lines, want %d in %q", len(lines), len(want), prog)
	}
	for i, w := range want {
		l := lines[i]
		d := math.Max(math.Max(math.Abs(l.Start.X-w.X0), math.Abs(l.Start.Y-w.Y0)), math.Max(math.Abs(l.End.X-w.X1), math.Abs(l.End.Y-w.Y1)))
		if !(d <= tol(w.Scale)) {
			return fmt.Errorf("line %d from (%.6f, %.6f) to (%.6f, %.6f), imaging model says (%.6f, %.6f) to (%.6f, %.6f) in %q",
				i, l.Start.X, l.Start.Y, l.End.X, l.End.Y, w.X0, w.Y0, w.X1, w.Y1, prog)
		}
	}
	return nil
}

func formNote(c Case) string {
	if len(c.Forms) == 0 {
		return ""
	}
	s := " with forms"
	names := make([]string, 0, len(c.Forms))
	for n := range c.Forms {
		names = append(names, n)
	}
	sort.Strings(names)
	for _, n := range names {
		s += fmt.Sprintf(" %s{Matrix %v: %q}", n, c.Forms[n].Matrix, spell(c.Forms[n].Ops))
	}
	return s
}

// topLevelLines: the GraphicsExtractor does not descend into form XObjects, so
// only segments stroked by the page's own stream are compared. Paths are
// generated at the top level only, so the model without forms yields them all.
func topLevelLines(c Case) []pdfmodel.Segment {
	m, _ := pdfmodel.Run(c.Ops, c.Forms)
	return m.Lines
}

// ---------------------------------------------------------------------------
// generator

func round(v float64, digits int) float64 {
	p := math.Pow(10, float64(digits))
	return math.Round(v*p) / p
}

func genDec(t *rapid.T, label string, lo, hi float64, digits int) float64 {
	p := math.Pow(10, float64(digits))
	return float64(rapid.IntRange(int(lo*p), int(hi*p)).Draw(t, label)) / p
}

// genMatrix draws a product of 1-3 primitive transformations with
// |det| in [1e-3, 1e3], every entry rounded to 6 decimals.
func genMatrix(t *rapid.T, label string) (pdfmodel.Matrix, []string) {
	m := pdfmodel.Identity()
	var kinds []string
	n := rapid.IntRange(1, 3).Draw(t, label+"Factors")
	for i := 0; i < n; i++ {
		var f pdfmodel.Matrix
		switch rapid.IntRange(0, 5).Draw(t, label+"Kind") {
		case 0, 1:
			f = pdfmodel.Matrix{1, 0, 0, 1, genDec(t, label+"Tx", -300, 300, 2), genDec(t, label+"Ty", -300, 300, 2)}
			kinds = append(kinds, "translate")
		case 2:
			s := genDec(t, label+"S", 0.25, 4, 2)
			f = pdfmodel.Matrix{s, 0, 0, s, 0, 0}
			kinds = append(kinds, "scale-uniform")
		case 3:
			sx := genDec(t, label+"Sx", 0.25, 4, 2)
			sy := genDec(t, label+"Sy", 0.25, 4, 2)
			if rapid.IntRange(0, 3).Draw(t, label+"Flip") == 0 {
				sy = -sy // the usual top-down flip
			}
			f = pdfmodel.Matrix{sx, 0, 0, sy, 0, 0}
			kinds = append(kinds, "scale-nonuniform")
		case 4:
			deg := rapid.SampledFrom([]float64{90, 180, 270, 45, 30, -90, 12.5, 1}).Draw(t, label+"Angle")
			if rapid.IntRange(0, 2).Draw(t, label+"AnyAngle") == 0 {
				deg = genDec(t, label+"Deg", -180, 180, 1)
			}
			c, s := math.Cos(deg*math.Pi/180), math.Sin(deg*math.Pi/180)
			f = pdfmodel.Matrix{c, s, -s, c, 0, 0}
			kinds = append(kinds, "rotate")
		default:
			f = pdfmodel.Matrix{1, genDec(t, label+"ShY", -1, 1, 2), genDec(t, label+"ShX", -1, 1, 2), 1, 0, 0}
			kinds = append(kinds, "shear")
		}
		m = f.Mul(m)
	}
	for i := range m {
		m[i] = round(m[i], 6)
		if m[i] == 0 {
			m[i] = 0 // no negative zero
		}
	}
	if d := math.Abs(m.Det()); d < 1e-3 || d > 1e3 {
		return pdfmodel.Matrix{1, 0, 0, 1, m[4], m[5]}, []string{"translate"}
	}
	return m, kinds
}

type builder struct {
	t      *rapid.T
	m      *pdfmodel.Machine
	ops    []pdfmodel.Op
	forms  map[string]pdfmodel.Form
	prefix string
	nText  int
	labels map[string]bool
	// forms that may still be invoked from this stream (each form is invoked once
	// in the whole program, so that no two fragments share text and position)
	avail *[]string
}

func (b *builder) emit(op pdfmodel.Op) {
	if err := b.m.Exec(op); err != nil {
		panic(fmt.Sprintf("c08 generator: %v", err))
	}
	b.ops = append(b.ops, op)
	b.labels["op:"+op.Name] = true
}

func (b *builder) text() string {
	b.nText++
	return fmt.Sprintf("%s%d", b.prefix, b.nText)
}

func (b *builder) ensureFont() {
	if !b.m.FontSet() {
		b.tf()
	}
}

func (b *builder) tf() {
	size := rapid.SampledFrom([]float64{1, 12, 10, 9.5, 24, 0.5, 100}).Draw(b.t, "tfs")
	if rapid.Bool().Draw(b.t, "tfsAny") {
		size = genDec(b.t, "tfsVal", 0.5, 72, 1)
	}
	b.emit(pdfmodel.Op{Name: "Tf", Font: rapid.SampledFrom([]string{"F1", "F2", "TT0"}).Draw(b.t, "font"), Args: []float64{size}})
}

func (b *builder) textState() {
	switch rapid.IntRange(0, 4).Draw(b.t, "tsKind") {
	case 0:
		b.tf()
	case 1:
		b.emit(pdfmodel.Op{Name: "TL", Args: []float64{rapid.SampledFrom([]float64{0, 12, 14.4, -10, 1.2, 100}).Draw(b.t, "tl")}})
	case 2:
		b.emit(pdfmodel.Op{Name: "Tc", Args: []float64{genDec(b.t, "tc", -2, 5, 1)}})
	case 3:
		b.emit(pdfmodel.Op{Name: "Tw", Args: []float64{genDec(b.t, "tw", -2, 10, 1)}})
	default:
		b.emit(pdfmodel.Op{Name: "Tz", Args: []float64{rapid.SampledFrom([]float64{100, 50, 200, 80, 120.5}).Draw(b.t, "tz")}})
	}
}

func (b *builder) step(allowPath bool) {
	t := b.t
	if b.m.InText() {
		switch rapid.IntRange(0, 21).Draw(t, "textStep") {
		case 0, 1, 2:
			mat, kinds := genMatrix(t, "tm")
			b.emit(pdfmodel.Op{Name: "Tm", Args: mat[:]})
			for _, k := range kinds {
				b.labels["tm:"+k] = true
			}
		case 3, 4, 5:
			b.emit(pdfmodel.Op{Name: "Td", Args: []float64{genDec(t, "tdx", -200, 200, 2), genDec(t, "tdy", -200, 200, 2)}})
		case 6, 7:
			b.emit(pdfmodel.Op{Name: "TD", Args: []float64{genDec(t, "tdx", -200, 200, 2), genDec(t, "tdy", -200, 200, 2)}})
		case 8, 9:
			b.emit(pdfmodel.Op{Name: "T*"})
		case 10, 11, 12, 13:
			b.ensureFont()
			b.emit(pdfmodel.Op{Name: "Tj", Text: b.text()})
		case 14, 15:
			b.ensureFont()
			b.emit(pdfmodel.Op{Name: "'", Text: b.text()})
		case 16:
			b.ensureFont()
			b.emit(pdfmodel.Op{Name: "\"", Args: []float64{genDec(t, "aw", 0, 5, 1), genDec(t, "ac", 0, 3, 1)}, Text: b.text()})
		case 17, 18:
			b.textState()
		case 20:
			switch rapid.IntRange(0, 5).Draw(t, "oddNesting") {
			case 0:
				// BT without a preceding ET: the text object starts over
				b.emit(pdfmodel.Op{Name: "BT"})
				b.labels["nested-BT"] = true
			case 1:
				// q inside the text object, its Q after ET
				if b.m.Depth() < 8 {
					b.emit(pdfmodel.Op{Name: "q"})
					b.emit(pdfmodel.Op{Name: "ET"})
					b.labels["q-in-text-Q-outside"] = true
				}
			default:
				b.emit(pdfmodel.Op{Name: "ET"})
			}
		case 19:
			// q cm ... Q inside the text object (not in Figure 9, but common): the state is restored, and the next
			// text is positioned through the text line matrix, which no consumer changes at Q
			if b.m.Depth() < 8 {
				b.emit(pdfmodel.Op{Name: "q"})
				mat, _ := genMatrix(t, "cmInText")
				b.emit(pdfmodel.Op{Name: "cm", Args: mat[:]})
				for i, k := 0, rapid.IntRange(0, 2).Draw(t, "shownInside"); i < k; i++ {
					b.ensureFont()
					b.emit(pdfmodel.Op{Name: "Tj", Text: b.text()})
				}
				b.emit(pdfmodel.Op{Name: "Q"})
				switch rapid.IntRange(0, 3).Draw(t, "afterQ") {
				case 0:
					b.emit(pdfmodel.Op{Name: "Td", Args: []float64{genDec(t, "tdx", -200, 200, 2), genDec(t, "tdy", -200, 200, 2)}})
				case 1:
					b.emit(pdfmodel.Op{Name: "T*"})
				case 2:
					b.emit(pdfmodel.Op{Name: "TD", Args: []float64{genDec(t, "tdx", -200, 200, 2), genDec(t, "tdy", -200, 200, 2)}})
				default:
					b.ensureFont()
					b.emit(pdfmodel.Op{Name: "'", Text: b.text()})
					b.labels["q-in-text"] = true
					return
				}
				b.ensureFont()
				b.emit(pdfmodel.Op{Name: "Tj", Text: b.text()})
				b.labels["q-in-text"] = true
			}
		default:
			b.emit(pdfmodel.Op{Name: "ET"})
		}
		return
	}
	switch k := rapid.IntRange(0, 19).Draw(t, "pageStep"); {
	case k <= 2:
		if b.m.Depth() < 8 {
			b.emit(pdfmodel.Op{Name: "q"})
		}
	case k <= 4:
		if b.m.Depth() > 0 {
			b.emit(pdfmodel.Op{Name: "Q"})
		}
	case k <= 9:
		mat, kinds := genMatrix(t, "cm")
		b.emit(pdfmodel.Op{Name: "cm", Args: mat[:]})
		for _, kd := range kinds {
			b.labels["cm:"+kd] = true
		}
	case k <= 14:
		b.emit(pdfmodel.Op{Name: "BT"})
	case k == 15:
		b.textState()
	case k <= 17:
		if b.avail != nil && len(*b.avail) > 0 {
			name := (*b.avail)[0]
			*b.avail = (*b.avail)[1:]
			b.emit(pdfmodel.Op{Name: "Do", Text: name})
		}
	default:
		if allowPath {
			b.emit(pdfmodel.Op{Name: "m", Args: []float64{genDec(t, "px", -100, 500, 1), genDec(t, "py", -100, 500, 1)}})
			b.emit(pdfmodel.Op{Name: "l", Args: []float64{genDec(t, "px", -100, 500, 1), genDec(t, "py", -100, 500, 1)}})
			b.emit(pdfmodel.Op{Name: "S"})
		}
	}
}

func (b *builder) finish() {
	if b.m.InText() {
		b.emit(pdfmodel.Op{Name: "ET"})
	}
	for b.m.Depth() > 0 {
		b.emit(pdfmodel.Op{Name: "Q"})
	}
}

func genCase(t *rapid.T) Case {
	labels := map[string]bool{}
	forms := map[string]pdfmodel.Form{}
	// forms first, innermost first: Fm3 is invoked by Fm2 is invoked by Fm1 or the page (depth <= 3)
	nForms := rapid.SampledFrom([]int{0, 0, 0, 1, 1, 2, 3}).Draw(t, "nForms")
	var avail []string
	for i := nForms; i >= 1; i-- {
		name := fmt.Sprintf("Fm%d", i)
		mat, _ := genMatrix(t, "formMatrix")
		if rapid.IntRange(0, 3).Draw(t, "formIdentity") == 0 {
			mat = pdfmodel.Identity()
		}
		// the machine needs the forms defined so far to execute nested Do
		fb := &builder{t: t, m: pdfmodel.New(forms), forms: forms, prefix: name + "t", labels: labels, avail: &avail}
		n := rapid.IntRange(2, 10).Draw(t, "formLen")
		if rapid.IntRange(0, 5).Draw(t, "emptyForm") == 0 {
			n = 0 // a form without any content: painting it changes nothing, whatever its /Matrix
			labels["form-empty"] = true
		}
		for len(fb.ops) < n {
			fb.step(false)
		}
		fb.finish()
		forms[name] = pdfmodel.Form{Matrix: mat, Ops: fb.ops}
		avail = append([]string{name}, avail...)
		labels["form"] = true
	}
	b := &builder{t: t, m: pdfmodel.New(forms), forms: forms, prefix: "t", labels: labels, avail: &avail}
	n := rapid.IntRange(3, 40).Draw(t, "len")
	for len(b.ops) < n {
		b.step(true)
	}
	// every program shows text at least once
	if len(b.m.Shown) == 0 {
		if !b.m.InText() {
			b.emit(pdfmodel.Op{Name: "BT"})
		}
		b.ensureFont()
		b.emit(pdfmodel.Op{Name: "Td", Args: []float64{genDec(t, "tdx", -200, 200, 2), genDec(t, "tdy", -200, 200, 2)}})
		b.emit(pdfmodel.Op{Name: "Tj", Text: b.text()})
	}
	// a form nobody invoked yet is invoked at the end, so that every form is used exactly once
	if b.m.InText() {
		b.emit(pdfmodel.Op{Name: "ET"})
	}
	for len(avail) > 0 {
		name := avail[0]
		avail = avail[1:]
		b.emit(pdfmodel.Op{Name: "Do", Text: name})
	}
	b.finish()
	c := Case{Ops: b.ops}
	if len(forms) > 0 {
		c.Scoped = rapid.Bool().Draw(t, "scopedNames")
		if c.Scoped {
			labels["form-names-scoped"] = true
		}
		c.Forms = forms
	}
	// outcome labels from the reference run
	if m, err := pdfmodel.Run(c.Ops, c.Forms); err == nil {
		cmp, rot, aniso := 0, 0, 0
		for _, s := range m.Shown {
			if s.Comparable {
				cmp++
			}
			if math.Abs(s.Trm[1]) > 1e-9 || math.Abs(s.Trm[2]) > 1e-9 {
				rot++
			}
			if !s.Trm.IsSimilarity(1e-6) {
				aniso++
			}
		}
		labels[fmt.Sprintf("shown:%s", bucket(len(m.Shown)))] = true
		if cmp > 0 {
			labels["shown:comparable"] = true
		}
		if rot > 0 {
			labels["trm:rotated-or-sheared"] = true
		}
		if aniso > 0 {
			labels["trm:anisotropic"] = true
		}
		if aniso < len(m.Shown) {
			labels["trm:similarity(strict size)"] = true
		}
		if len(m.Lines) > 0 {
			labels["lines"] = true
		}
	}
	for l := range labels {
		c.Labels = append(c.Labels, l)
	}
	sort.Strings(c.Labels)
	return c
}

func bucket(n int) string {
	switch {
	case n == 0:
		return "0"
	case n <= 2:
		return "1-2"
	case n <= 6:
		return "3-6"
	}
	return "7+"
}

func isTranslation(a []float64) bool {
	return len(a) == 6 && a[0] == 1 && a[1] == 0 && a[2] == 0 && a[3] == 1
}

// nonTrivial: >= 2 cm with a non-translation, or a non-identity-scale Tm
// followed by Td/TD/T*/', or a q..Q pair enclosing a cm (DESIGN C08-NT).
func nonTrivial(ops []pdfmodel.Op) bool {
	cms := 0
	tmScaled := false
	depthWithCM := []bool{}
	for _, op := range ops {
		switch op.Name {
		case "cm":
			if !isTranslation(op.Args) {
				cms++
			}
			for i := range depthWithCM {
				depthWithCM[i] = true
			}
		case "q":
			depthWithCM = append(depthWithCM, false)
		case "Q":
			if n := len(depthWithCM); n > 0 {
				if depthWithCM[n-1] {
					return true
				}
				depthWithCM = depthWithCM[:n-1]
			}
		case "Tm":
			tmScaled = !isTranslation(op.Args)
		case "BT":
			tmScaled = false
		case "Td", "TD", "T*", "'", "\"":
			if tmScaled {
				return true
			}
		}
	}
	return cms >= 2
}

func meta(c Case) vr.Meta {
	nt := nonTrivial(c.Ops)
	for _, f := range c.Forms {
		if nonTrivial(f.Ops) || !isTranslation(f.Matrix[:]) {
			nt = true
		}
	}
	return vr.Meta{FP: string(spell(c.Ops)) + formNote(c), NonTrivial: nt, Labels: c.Labels}
}

func TestImagingModel(t *testing.T) {
	vr.Prop(t, "imaging", vr.N(30000, 800000), genCase, meta, checkCase)
}

func init() { vr.Register("imaging", checkCase) }
