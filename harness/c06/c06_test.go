// C06 — PDF object syntax has one meaning for both parsers.
//
// Generator: logical object trees (gen/pdfsyn) and content-stream programs,
// spelled by the independent serialiser gen/pdfsyn under a random spelling
// policy. Oracle: the tree / operation list the bytes were made from.
//
//	tree:    core.NewParser(spelling).ParseObject() == tree                      (clause 1)
//	         contentstream.NewParser(spelling + EOL + "Do").Parse() == [(Do,[tree])]
//	         for reference-free trees; both parsers agree                        (clause 2)
//	program: contentstream.NewParser(program).Parse() == operations              (clause 3)
//	         core on every operand's own bytes == the operand == what the
//	         content-stream parser made of it                                    (clauses 1, 2)
package c06

import (
	"bytes"
	"fmt"
	"io"
	"sort"
	"strings"
	"testing"

	"github.com/tsawler/tabula/contentstream"
	"github.com/tsawler/tabula/core"
	"pgregory.net/rapid"

	"verif/harness/gen/pdfsyn"
	"verif/harness/vr"
)

func TestMain(m *testing.M) { vr.Main(m) }

// ---------------------------------------------------------------------------
// comparison of tabula's values with the logical model

func describe(o core.Object) string {
	if o == nil {
		return "<nil>"
	}
	s := fmt.Sprintf("%T(%q)", o, o.String())
	if len(s) > 160 {
		s = s[:160] + "…"
	}
	return s
}

// same reports nil when tabula's object got equals the model object want.
// Real: the float64 nearest to the canonical decimal (DESIGN C06-O1).
func same(path string, got core.Object, want pdfsyn.Obj) error {
	bad := func() error {
		return fmt.Errorf("%s: got %s, want %s %s", path, describe(got), want.K, pdfsyn.Canonical(want))
	}
	switch want.K {
	case pdfsyn.Null:
		if _, ok := got.(core.Null); !ok {
			return bad()
		}
	case pdfsyn.Bool:
		b, ok := got.(core.Bool)
		if !ok || bool(b) != want.B {
			return bad()
		}
	case pdfsyn.Int:
		i, ok := got.(core.Int)
		if !ok || int64(i) != want.I {
			return bad()
		}
	case pdfsyn.Real:
		r, ok := got.(core.Real)
		if !ok || float64(r) != want.RealValue() {
			return bad()
		}
	case pdfsyn.String:
		s, ok := got.(core.String)
		if !ok || string(s) != string(want.S) {
			return bad()
		}
	case pdfsyn.Name:
		n, ok := got.(core.Name)
		if !ok || string(n) != string(want.S) {
			return bad()
		}
	case pdfsyn.Ref:
		r, ok := got.(core.IndirectRef)
		if !ok || int64(r.Number) != want.I || int64(r.Generation) != want.G {
			return bad()
		}
	case pdfsyn.Array:
		a, ok := got.(core.Array)
		if !ok || len(a) != len(want.A) {
			return bad()
		}
		for i := range a {
			if err := same(fmt.Sprintf("%s[%d]", path, i), a[i], want.A[i]); err != nil {
				return err
			}
		}
	case pdfsyn.Dict:
		d, ok := got.(core.Dict)
		if !ok || len(d) != len(want.D) {
			return bad()
		}
		for _, e := range want.D {
			v, ok := d[string(e.Key)]
			if !ok {
				return fmt.Errorf("%s: key %q missing in %s", path, string(e.Key), describe(got))
			}
			if err := same(fmt.Sprintf("%s/%s", path, pdfsyn.Canonical(pdfsyn.Obj{K: pdfsyn.Name, S: e.Key})), v, e.Val); err != nil {
				return err
			}
		}
	default:
		return fmt.Errorf("%s: model kind %q", path, want.K)
	}
	return nil
}

// agree compares the values the two parsers produced for the same bytes.
func agree(a, b core.Object) bool {
	switch x := a.(type) {
	case core.Array:
		y, ok := b.(core.Array)
		if !ok || len(x) != len(y) {
			return false
		}
		for i := range x {
			if !agree(x[i], y[i]) {
				return false
			}
		}
		return true
	case core.Dict:
		y, ok := b.(core.Dict)
		if !ok || len(x) != len(y) {
			return false
		}
		for k, v := range x {
			w, ok := y[k]
			if !ok || !agree(v, w) {
				return false
			}
		}
		return true
	default:
		return a == b
	}
}

func parseCore(b []byte) (core.Object, error) {
	p := core.NewParser(bytes.NewReader(b))
	return p.ParseObject()
}

// parseCS runs the content-stream parser. The parser keeps its operand stack
// in a package-level variable (that is C03's subject); a tiny operand-free
// program is parsed first so that operands left behind by an earlier failed
// parse cannot leak into this one and make the verdict depend on history.
func parseCS(b []byte) ([]contentstream.Operation, error) {
	_, _ = contentstream.NewParser([]byte("n")).Parse()
	return contentstream.NewParser(b).Parse()
}

// ---------------------------------------------------------------------------
// tree cases

type TreeCase struct {
	Tree   pdfsyn.Obj    `json:"tree"`
	Policy pdfsyn.Policy `json:"policy"`
	Text   pdfsyn.Bytes  `json:"text"`   // the spelling under test
	CS     bool          `json:"cs"`     // the content-stream clauses apply (no indirect reference inside)
	Labels []string      `json:"labels"` // spelling features that occurred
}

func checkTree(c TreeCase) error {
	got, err := parseCore(c.Text)
	if err != nil {
		return fmt.Errorf("core.ParseObject rejects %q: %v", string(c.Text), err)
	}
	if err := same("core", got, c.Tree); err != nil {
		return fmt.Errorf("core.ParseObject(%q): %v", string(c.Text), err)
	}
	// nothing but white space / comments may follow: the parser must be at the end
	p := core.NewParser(bytes.NewReader(c.Text))
	if _, err := p.ParseObject(); err == nil {
		if extra, err2 := p.ParseObject(); err2 != io.EOF {
			return fmt.Errorf("core: after the object of %q the parser yields %s, %v instead of io.EOF", string(c.Text), describe(extra), err2)
		}
	}
	if !c.CS {
		return nil
	}
	prog := append(append([]byte{}, c.Text...), "\nDo"...)
	ops, err := parseCS(prog)
	if err != nil {
		return fmt.Errorf("contentstream.Parse rejects %q: %v", string(prog), err)
	}
	if len(ops) != 1 || ops[0].Operator != "Do" || len(ops[0].Operands) != 1 {
		return fmt.Errorf("contentstream.Parse(%q): grouping %s, want one operation Do with one operand", string(prog), showOps(ops))
	}
	if !agree(got, ops[0].Operands[0]) {
		return fmt.Errorf("parsers disagree on %q: core %s, contentstream %s", string(c.Text), describe(got), describe(ops[0].Operands[0]))
	}
	if err := same("contentstream", ops[0].Operands[0], c.Tree); err != nil {
		return fmt.Errorf("contentstream.Parse(%q): %v", string(prog), err)
	}
	return nil
}

func showOps(ops []contentstream.Operation) string {
	var sb strings.Builder
	for i, op := range ops {
		if i > 0 {
			sb.WriteString(" | ")
		}
		if i >= 12 {
			sb.WriteString("…")
			break
		}
		for _, o := range op.Operands {
			sb.WriteString(describe(o))
			sb.WriteByte(' ')
		}
		fmt.Fprintf(&sb, "<%s>", op.Operator)
	}
	return sb.String()
}

// usedOff reports (and counts) whether the spelling used a feature that is
// switched off for the content-stream parser by a known finding.
func usedOff(used map[string]int, pairs ...string) bool {
	off := false
	for i := 0; i+1 < len(pairs); i += 2 {
		if used[pairs[i]] > 0 && !vr.Want(pairs[i+1], true) {
			off = true
		}
	}
	return off
}

func kindsOf(o pdfsyn.Obj) []string {
	seen := map[string]bool{}
	o.Walk(func(x pdfsyn.Obj) { seen["kind:"+string(x.K)] = true })
	var out []string
	for k := range seen {
		out = append(out, k)
	}
	sort.Strings(out)
	return out
}

func usedLabels(used map[string]int) []string {
	var out []string
	for k := range used {
		out = append(out, k)
	}
	sort.Strings(out)
	return out
}

func policyLabels(p pdfsyn.Policy) []string {
	l := []string{"ws:" + string(p.WS), "eol:" + string(p.EOL), "strmode:" + string(p.Str), "names:" + string(p.Names), "num:" + string(p.Num)}
	if p.Comments {
		l = append(l, "comments:on")
	}
	return l
}

func genTree(t *rapid.T) TreeCase {
	tree := pdfsyn.GenObj(t, pdfsyn.GenOpts{MaxDepth: 4})
	if rapid.IntRange(0, 199).Draw(t, "wide") == 100 { // (a mid-range value: rapid favours the ends of a range)
		// a wide, shallow tree: hundreds of small arrays and dictionaries side by side (the /W array of a CID
		// font, a /Kids array, a name tree leaf): nesting depth 2-3, but far more containers than any depth limit
		n := rapid.IntRange(520, 700).Draw(t, "wideLen")
		tree = pdfsyn.Obj{K: pdfsyn.Array}
		for i := 0; i < n; i++ {
			// like a /W array: c [w1 w2 ...] pairs; every other element is certainly an array
			tree.A = append(tree.A, pdfsyn.GenObj(t, pdfsyn.GenOpts{MaxDepth: 1, NoBare: true, NoRefs: true}))
			el := pdfsyn.Obj{K: pdfsyn.Array}
			for j, m := 0, rapid.IntRange(0, 2).Draw(t, "wideElemLen"); j < m; j++ {
				el.A = append(el.A, pdfsyn.GenObj(t, pdfsyn.GenOpts{MaxDepth: 1, NoBare: true, NoRefs: true}))
			}
			tree.A = append(tree.A, el)
		}
	}
	pol := pdfsyn.GenPolicy(t)
	// features with a recorded defect in core.Parser are excluded by construction
	if pol.Comments && tree.HasRef() {
		pol.NoCommentInRef = !vr.Want("core-comment-in-ref", true)
	}
	pol.NoRawCRForLF = true // domain restriction, see NOTES.md: a raw end-of-line inside a literal string is always a bare LF
	w := pdfsyn.NewWriter(pol, pdfsyn.Rapid(t))
	w.Obj(tree)
	w.Trailer()
	c := TreeCase{Tree: tree, Policy: pol, Text: append(pdfsyn.Bytes{}, w.Bytes()...)}
	c.CS = !tree.HasRef()
	if c.CS {
		// known content-stream lexer findings: skip the content-stream clauses for spellings that need the feature
		if usedOff(w.Used, "gap:comment", "cs-comment", "str:hex-odd", "cs-odd-hex") {
			c.CS = false
		}
		if c.CS && (tree.K == pdfsyn.Null || tree.K == pdfsyn.Bool) && !vr.Want("cs-bare-keyword", true) {
			c.CS = false
		}
		if c.CS && hasKeywordAtDelim(c.Text) && !vr.Want("cs-keyword-at-delim", true) {
			c.CS = false
		}
	}
	c.Labels = append(policyLabels(pol), usedLabels(w.Used)...)
	c.Labels = append(c.Labels, kindsOf(tree)...)
	c.Labels = append(c.Labels, fmt.Sprintf("depth:%d", tree.Depth()))
	if tree.K == pdfsyn.Array && len(tree.A) >= 520 {
		c.Labels = append(c.Labels, "wide-tree")
	}
	if c.CS {
		c.Labels = append(c.Labels, "clause:cs")
	}
	return c
}

// hasKeywordAtDelim: true/false/null directly followed by a delimiter or a comment.
func hasKeywordAtDelim(b []byte) bool {
	for _, k := range []string{"true", "false", "null"} {
		for i := 0; ; {
			j := bytes.Index(b[i:], []byte(k))
			if j < 0 {
				break
			}
			i += j + len(k)
			if i < len(b) && strings.IndexByte("()<>[]{}/%", b[i]) >= 0 {
				return true
			}
		}
	}
	return false
}

func metaTree(c TreeCase) vr.Meta {
	nt := c.Tree.Depth() >= 2 || !bytes.Equal(c.Text, pdfsyn.Canonical(c.Tree))
	return vr.Meta{FP: "tree|" + string(c.Text) + "|" + string(pdfsyn.Canonical(c.Tree)), NonTrivial: nt, Labels: c.Labels}
}

func TestTrees(t *testing.T) {
	vr.Prop(t, "tree", vr.N(40000, 800000), genTree, metaTree, checkTree)
}

// ---------------------------------------------------------------------------
// program cases

type ProgCase struct {
	Ops    []pdfsyn.Op   `json:"ops"`
	Policy pdfsyn.Policy `json:"policy"`
	Text   pdfsyn.Bytes  `json:"text"`
	Spans  [][][2]int    `json:"spans"` // byte range of every operand inside Text
	Labels []string      `json:"labels"`
}

func checkProg(c ProgCase) error {
	ops, err := parseCS(c.Text)
	if err != nil {
		return fmt.Errorf("contentstream.Parse rejects %q: %v", string(c.Text), err)
	}
	if len(ops) != len(c.Ops) {
		return fmt.Errorf("contentstream.Parse(%q): %d operations, want %d: %s", string(c.Text), len(ops), len(c.Ops), showOps(ops))
	}
	for i, want := range c.Ops {
		got := ops[i]
		if got.Operator != want.Operator {
			return fmt.Errorf("contentstream.Parse(%q): operation %d is <%s>, want <%s>: %s", string(c.Text), i, got.Operator, want.Operator, showOps(ops))
		}
		if len(got.Operands) != len(want.Operands) {
			return fmt.Errorf("contentstream.Parse(%q): operation %d <%s> has %d operands, want %d: %s", string(c.Text), i, got.Operator, len(got.Operands), len(want.Operands), showOps(ops))
		}
		for j, w := range want.Operands {
			if err := same(fmt.Sprintf("op%d<%s>.operand%d", i, want.Operator, j), got.Operands[j], w); err != nil {
				return fmt.Errorf("contentstream.Parse(%q): %v", string(c.Text), err)
			}
			if i < len(c.Spans) && j < len(c.Spans[i]) {
				sp := c.Spans[i][j]
				src := c.Text[sp[0]:sp[1]]
				cv, err := parseCore(src)
				if err != nil {
					return fmt.Errorf("core.ParseObject rejects operand %q: %v", string(src), err)
				}
				if !agree(cv, got.Operands[j]) {
					return fmt.Errorf("parsers disagree on operand %q: core %s, contentstream %s", string(src), describe(cv), describe(got.Operands[j]))
				}
			}
		}
	}
	return nil
}

func genProg(t *rapid.T) ProgCase {
	po := pdfsyn.ProgOpts{MaxOps: 10}
	po.NoQuoteOps = vr.Off("cs-quote-ops")
	po.NoDigitOps = vr.Off("cs-digit-ops")
	po.NoBareKeys = vr.Off("cs-bare-keyword")
	ops := pdfsyn.GenProgram(t, po)
	// count the exclusions that changed something
	pol := pdfsyn.GenPolicy(t)
	pol.Comments = vr.Want("cs-comment", pol.Comments)
	pol.NoOddHex = vr.Off("cs-odd-hex")
	pol.NoKeywordAtDelim = vr.Off("cs-keyword-at-delim")
	pol.NoRawCRForLF = true   // domain restriction, see NOTES.md
	pol.NoCommentInRef = true // no references in content streams anyway
	w := pdfsyn.NewWriter(pol, pdfsyn.Rapid(t))
	if rapid.Bool().Draw(t, "leadingGap") {
		// a content stream may start with white space
		w.Raw([]byte(rapid.SampledFrom([]string{" ", "\n", "\r\n", "\t", "\x00", "\x0c"}).Draw(t, "lead")))
	}
	spans := w.Program(ops)
	w.Trailer()
	c := ProgCase{Ops: ops, Policy: pol, Text: append(pdfsyn.Bytes{}, w.Bytes()...), Spans: spans}
	c.Labels = append(policyLabels(pol), usedLabels(w.Used)...)
	seen := map[string]bool{}
	for _, op := range ops {
		if !seen[op.Operator] {
			seen[op.Operator] = true
			c.Labels = append(c.Labels, "op:"+op.Operator)
		}
		for _, o := range op.Operands {
			for _, k := range kindsOf(o) {
				if !seen[k] {
					seen[k] = true
					c.Labels = append(c.Labels, k)
				}
			}
			if (o.K == pdfsyn.Null || o.K == pdfsyn.Bool) && !seen["bare"] {
				seen["bare"] = true
				c.Labels = append(c.Labels, "operand:bare-keyword")
			}
		}
	}
	c.Labels = append(c.Labels, fmt.Sprintf("ops:%d", len(ops)))
	return c
}

func canonicalProgram(ops []pdfsyn.Op) []byte {
	w := pdfsyn.NewWriter(pdfsyn.CanonicalPolicy(), pdfsyn.Fixed(0))
	w.Program(ops)
	return w.Bytes()
}

func metaProg(c ProgCase) vr.Meta {
	canon := canonicalProgram(c.Ops)
	nt := !bytes.Equal(c.Text, canon)
	for _, op := range c.Ops {
		for _, o := range op.Operands {
			if o.Depth() >= 2 {
				nt = true
			}
		}
	}
	return vr.Meta{FP: "prog|" + string(c.Text) + "|" + string(canon), NonTrivial: nt, Labels: c.Labels}
}

func TestPrograms(t *testing.T) {
	vr.Prop(t, "program", vr.N(24000, 400000), genProg, metaProg, checkProg)
}

func init() {
	vr.Register("tree", checkTree)
	vr.Register("program", checkProg)
}
