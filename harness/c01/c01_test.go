// C01 — PDF text survives every physical file layout.
//
// Generator: logical documents (pages x lines x fonts, 0–3 incremental
// revisions) x the physical layout vector of gen/pdfw. Oracle: the logical
// document of the last revision.
package c01

import (
	"fmt"
	"math"
	"os"
	"path/filepath"
	"sort"
	"strings"
	"testing"

	"github.com/tsawler/tabula"
	"github.com/tsawler/tabula/core"
	"github.com/tsawler/tabula/reader"
	"github.com/tsawler/tabula/text"
	"golang.org/x/text/unicode/norm"
	"pgregory.net/rapid"

	"verif/harness/gen/pdfw"
	"verif/harness/vr"
)

var tmpDir string

func TestMain(m *testing.M) {
	d, err := os.MkdirTemp("", "verif-c01-")
	if err != nil {
		fmt.Println("INFRA: cannot create temp dir:", err)
		os.Exit(3)
	}
	tmpDir = d
	vr.AtExit(func() { os.RemoveAll(d) })
	vr.Main(m)
}

type Case struct {
	Docs   []pdfw.Doc  `json:"docs"`
	Layout pdfw.Layout `json:"layout"`
}

func init() { vr.Register("layout", checkCase) }

func near(a, b float64) bool { return math.Abs(a-b) <= 1e-6*math.Max(1, math.Abs(b)) }

func checkCase(c Case) error {
	res := pdfw.Write(c.Docs, c.Layout)
	f, err := os.CreateTemp(tmpDir, "c*.pdf")
	if err != nil {
		return fmt.Errorf("INFRA temp file: %v", err)
	}
	path := f.Name()
	defer os.Remove(path)
	if _, err := f.Write(res.Bytes); err != nil {
		return fmt.Errorf("INFRA write: %v", err)
	}
	f.Close()
	want := c.Docs[len(c.Docs)-1]

	// ---- reader level ------------------------------------------------------
	r, err := reader.Open(path)
	if err != nil {
		return fmt.Errorf("reader.Open failed on a well-formed file: %v", err)
	}
	defer r.Close()
	n, err := r.PageCount()
	if err != nil {
		return fmt.Errorf("PageCount: %v", err)
	}
	if n != len(want.Pages) {
		return fmt.Errorf("PageCount = %d, document has %d page leaves", n, len(want.Pages))
	}
	for i, wp := range want.Pages {
		pg, err := r.GetPage(i)
		if err != nil {
			return fmt.Errorf("GetPage(%d): %v", i, err)
		}
		mb, err := pg.MediaBox()
		if err != nil {
			return fmt.Errorf("page %d: MediaBox: %v", i+1, err)
		}
		for k := 0; k < 4; k++ {
			if len(mb) != 4 || !near(mb[k], wp.MediaBox[k]) {
				return fmt.Errorf("page %d: MediaBox = %v, want %v", i+1, mb, wp.MediaBox)
			}
		}
		if rot := pg.Rotate(); rot != wp.Rotate {
			return fmt.Errorf("page %d: Rotate = %d, want %d", i+1, rot, wp.Rotate)
		}
		resd, err := pg.Resources()
		if err != nil {
			return fmt.Errorf("page %d: Resources: %v", i+1, err)
		}
		fd, err := r.Resolve(resd.Get("Font"))
		if err != nil {
			return fmt.Errorf("page %d: Resources/Font: %v", i+1, err)
		}
		fdict, ok := fd.(core.Dict)
		if !ok {
			return fmt.Errorf("page %d: Resources/Font is %T", i+1, fd)
		}
		for _, fs := range want.Fonts {
			if fdict.Get(fs.Res) == nil {
				return fmt.Errorf("page %d: inherited Resources lack font %s", i+1, fs.Res)
			}
		}
		frags, err := r.ExtractTextFragments(pg)
		if err != nil {
			return fmt.Errorf("page %d: ExtractTextFragments: %v", i+1, err)
		}
		if len(frags) != len(wp.Lines) {
			return fmt.Errorf("page %d: %d fragments, want %d lines (%q)", i+1, len(frags), len(wp.Lines), fragTexts(frags))
		}
		for k, ln := range wp.Lines {
			if frags[k].Text != ln.Text {
				return fmt.Errorf("page %d line %d (font kind %s): text %q (%x), want %q (%x)", i+1, k+1,
					want.Fonts[ln.Font].Kind, frags[k].Text, frags[k].Text, ln.Text, ln.Text)
			}
			if !norm.NFC.IsNormalString(frags[k].Text) {
				return fmt.Errorf("page %d line %d: text %q is not NFC", i+1, k+1, frags[k].Text)
			}
			if !near(frags[k].X, ln.X) || !near(frags[k].Y, ln.Y) {
				return fmt.Errorf("page %d line %d: position (%g,%g), want (%g,%g)", i+1, k+1, frags[k].X, frags[k].Y, ln.X, ln.Y)
			}
		}
	}

	// ---- public API --------------------------------------------------------
	pc, err := tabula.Open(path).PageCount()
	if err != nil || pc != len(want.Pages) {
		return fmt.Errorf("tabula.Open.PageCount = %d, %v; want %d", pc, err, len(want.Pages))
	}
	all, _, err := tabula.Open(path).Fragments()
	if err != nil {
		return fmt.Errorf("tabula.Open.Fragments: %v", err)
	}
	var wantAll []string
	for _, p := range want.Pages {
		for _, ln := range p.Lines {
			wantAll = append(wantAll, ln.Text)
		}
	}
	if got := fragTexts(all); !equalStrings(got, wantAll) {
		return fmt.Errorf("Fragments() texts = %q, want %q", got, wantAll)
	}
	// one page through Pages(i)
	pi := len(want.Pages) / 2
	one, _, err := tabula.Open(path).Pages(pi + 1).Fragments()
	if err != nil {
		return fmt.Errorf("Pages(%d).Fragments: %v", pi+1, err)
	}
	var wantOne []string
	for _, ln := range want.Pages[pi].Lines {
		wantOne = append(wantOne, ln.Text)
	}
	if got := fragTexts(one); !equalStrings(got, wantOne) {
		return fmt.Errorf("Pages(%d).Fragments() texts = %q, want %q", pi+1, got, wantOne)
	}
	// Text(): every line's text is present; pages appear in page order
	txt, _, err := tabula.Open(path).Text()
	if err != nil {
		return fmt.Errorf("Text(): %v", err)
	}
	pos := 0
	for i, p := range want.Pages {
		// lines of one page may be re-ordered by layout analysis; search each from the page's start
		maxEnd := pos
		for k, ln := range p.Lines {
			w := strings.TrimSpace(ln.Text)
			if w == "" {
				continue
			}
			j := strings.Index(txt[pos:], w)
			if j < 0 {
				return fmt.Errorf("Text(): text of page %d line %d %q missing (or before the previous page's text) in %q", i+1, k+1, w, clip(txt))
			}
			if e := pos + j + len(w); e > maxEnd {
				maxEnd = e
			}
		}
		_ = maxEnd
		// the next page's text must start after the first character of this page's text
		if first := firstNonEmpty(p.Lines); first != "" {
			j := strings.Index(txt[pos:], first)
			if j >= 0 {
				pos = pos + j
			}
		}
	}
	return nil
}

func firstNonEmpty(lines []pdfw.Line) string {
	for _, l := range lines {
		if s := strings.TrimSpace(l.Text); s != "" {
			return s
		}
	}
	return ""
}

func clip(s string) string {
	if len(s) > 300 {
		return s[:300] + "…"
	}
	return s
}

func fragTexts(fr []text.TextFragment) []string {
	var out []string
	for _, f := range fr {
		out = append(out, f.Text)
	}
	return out
}

func equalStrings(a, b []string) bool {
	if len(a) != len(b) {
		return false
	}
	for i := range a {
		if a[i] != b[i] {
			return false
		}
	}
	return true
}

func genCase(t *rapid.T) Case {
	docs := pdfw.GenDocs(t, 3)
	return Case{Docs: docs, Layout: pdfw.GenLayout(t, len(docs))}
}

func meta(c Case) vr.Meta {
	knobs := c.Layout.Knobs(len(c.Docs))
	sort.Strings(knobs)
	labels := []string{fmt.Sprintf("revisions:%d", len(c.Docs)-1), fmt.Sprintf("knobs:%d", len(knobs))}
	for _, k := range knobs {
		labels = append(labels, "knob:"+k)
	}
	kinds := map[string]bool{}
	for _, f := range c.Docs[0].Fonts {
		kinds[f.Kind] = true
	}
	for k := range kinds {
		labels = append(labels, "font:"+k)
	}
	sort.Strings(labels)
	return vr.Meta{FP: string(pdfw.Write(c.Docs, c.Layout).Bytes), NonTrivial: len(knobs) >= 2, Labels: labels}
}

func TestLayouts(t *testing.T) {
	vr.Prop(t, "layout", vr.N(2400, 40000), genCase, meta, checkCase)
}

var _ = filepath.Join
