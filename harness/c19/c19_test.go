// C19 — HTML extraction keeps content; navigation filtering only narrows.
//
// Generator: gen/htmlw DOM trees (content elements inside neutral and chrome
// wrappers, every text leaf with a unique token) in a drawn HTML spelling.
// Oracle: the tree itself (htmlw.Expect) for mode None; for the stricter modes
// only what the mode documentation promises: monotone narrowing, content
// outside every potentially excludable subtree untouched, text under
// nav/aside/role=navigation|complementary gone, request order irrelevant.
package c19

import (
	"archive/zip"
	"bytes"
	"fmt"
	"os"
	"path/filepath"
	"regexp"
	"runtime"
	"strings"
	"testing"
	"testing/iotest"

	"github.com/tsawler/tabula"
	"github.com/tsawler/tabula/epubdoc"
	"github.com/tsawler/tabula/htmldoc"
	"github.com/tsawler/tabula/model"
	"pgregory.net/rapid"

	"verif/harness/gen/htmlw"
	"verif/harness/vr"
)

func TestMain(m *testing.M) {
	// every shard is one single-threaded rapid loop; on a machine shared with
	// other checks a 16-way GC per shard only adds scheduler contention
	runtime.GOMAXPROCS(2)
	vr.Main(m)
}

var modeName = [4]string{"None", "Explicit", "Standard", "Aggressive"}

var modeVal = [4]htmldoc.NavigationExclusionMode{
	htmldoc.NavigationExclusionNone, htmldoc.NavigationExclusionExplicit,
	htmldoc.NavigationExclusionStandard, htmldoc.NavigationExclusionAggressive,
}

// Req is one request on the shared reader of clause (5).
type Req struct {
	Mode int    `json:"mode"`
	View string `json:"view"` // text | md | doc
}

type Case struct {
	Doc   *htmlw.Doc `json:"doc"`
	Order []Req      `json:"order"`
	HTM   bool       `json:"htm,omitempty"` // tabula.Open("x.htm") instead of "x.html"
	// EmptySpans: that many <span/> tags are appended behind the document (XHTML page anchors are written like this by
	// the thousand); they hold no text and no attributes. The HTML parser reads <span/> as a start tag, so they nest:
	// the numbers stay below the reader's nesting limit of 2000 (beyond it the reader refuses, which is C02's business)
	EmptySpans int `json:"empty_spans,omitempty"`
}

// ---------------------------------------------------------------------------
// the expected side

type expect struct {
	all  []string // visible tokens, unit by unit in document order
	leaf map[string]htmlw.Leaf
	forb map[string]bool
}

func expectOf(d *htmlw.Doc) *expect {
	e := d.Expect()
	ex := &expect{all: e.Tokens(), leaf: map[string]htmlw.Leaf{}, forb: map[string]bool{}}
	for _, u := range e.Units {
		for _, l := range u.Leaves {
			ex.leaf[l.Tok] = l
		}
	}
	for _, f := range e.Forbidden {
		ex.forb[f] = true
	}
	return ex
}

// protected: no ancestor (or the element itself) that the documentation of
// the mode allows to be dropped.
//
//	Explicit   "skips only explicit semantic HTML5 elements: <nav>, <aside>, and
//	           ARIA roles …; <header> and <footer> only when [top-level]"
//	           -> potentially excludable: nav, aside, header, footer, any role
//	Standard   "combines explicit element detection with common class/id
//	           pattern matching" -> additionally any class or id attribute
//	Aggressive "adds link-density heuristics" -> additionally any element with
//	           four links or a third of its text inside links
func protected(a htmlw.Anc, mode int) bool {
	if mode == 0 {
		return true
	}
	if a.Nav || a.HdrFtr || a.Role {
		return false
	}
	if mode >= 2 && a.ClassID {
		return false
	}
	if mode >= 3 && a.LinkBlk {
		return false
	}
	return true
}

func render(d *htmlw.Doc) (b []byte, fellBack bool, err error) {
	b = d.HTML()
	if d.CheckParse(b) == nil {
		return b, false, nil
	}
	// regenerate by construction: the spelling with nothing omitted
	s := htmlw.Strict()
	s.Indent = d.Ser.Indent
	b = d.Render(s)
	if perr := d.CheckParse(b); perr != nil {
		return nil, true, fmt.Errorf("GENERATOR: the strict serialisation does not parse back to the intended tree: %v", perr)
	}
	return b, true, nil
}

// ---------------------------------------------------------------------------
// reading tabula's answers

func clip(s string) string {
	if len(s) > 300 {
		return s[:300] + "…"
	}
	return s
}

// docUnits lists the atomic units of a model.Document and their joined text.
func docUnits(d *model.Document) (units []string, text string) {
	var sb strings.Builder
	for _, p := range d.Pages {
		for _, el := range p.Elements {
			switch e := el.(type) {
			case *model.Heading:
				units = append(units, fmt.Sprintf("h%d|%s", e.Level, e.Text))
				sb.WriteString(e.Text + "\n")
			case *model.Paragraph:
				units = append(units, "p|"+e.Text)
				sb.WriteString(e.Text + "\n")
			case *model.List:
				for _, it := range e.Items {
					units = append(units, fmt.Sprintf("li%d|%s", it.Level, it.Text))
					sb.WriteString(it.Text + "\n")
				}
			case *model.Table:
				var tb strings.Builder
				for _, row := range e.Rows {
					for _, c := range row {
						tb.WriteString(c.Text + "\t")
					}
					tb.WriteString("\n")
				}
				units = append(units, "table|"+tb.String())
				sb.WriteString(tb.String())
			default:
				txt := ""
				if te, ok := el.(model.TextElement); ok {
					txt = te.GetText()
				}
				units = append(units, fmt.Sprintf("%T|%s", el, txt))
				sb.WriteString(txt + "\n")
			}
		}
	}
	return units, sb.String()
}

func isSubseq(sub, full []string) (bool, string) {
	j := 0
	for _, s := range sub {
		for j < len(full) && full[j] != s {
			j++
		}
		if j == len(full) {
			return false, s
		}
		j++
	}
	return true, ""
}

// checkOut applies clauses (1)-(4) to one extracted text. prev is the token
// sequence of the next weaker mode in the same view (nil for mode None).
func checkOut(where string, mode int, out string, ex *expect, prev []string) ([]string, error) {
	found := htmlw.Scan(out)
	seen := map[string]bool{}
	toks := make([]string, 0, len(found))
	for _, f := range found {
		if ex.forb[f.Tok] {
			return nil, fmt.Errorf("%s mode %s: text %s of a script/style/template/comment surfaced: %q", where, modeName[mode], f.Tok, clip(out))
		}
		l, ok := ex.leaf[f.Tok]
		if !ok {
			return nil, fmt.Errorf("%s mode %s: token %s was never written", where, modeName[mode], f.Tok)
		}
		if seen[f.Tok] {
			return nil, fmt.Errorf("%s mode %s: text %s returned twice: %q", where, modeName[mode], f.Tok, clip(out))
		}
		seen[f.Tok] = true
		if f.After != l.X {
			return nil, fmt.Errorf("%s mode %s: character references behind %s decoded to %q, want %q", where, modeName[mode], f.Tok, f.After, l.X)
		}
		toks = append(toks, f.Tok)
	}
	if mode == 0 {
		// (1) everything, once, in document order
		for _, tk := range ex.all {
			if !seen[tk] {
				return nil, fmt.Errorf("%s mode None: text %s of a content element is missing: %q", where, tk, clip(out))
			}
		}
		for i := range toks {
			if toks[i] != ex.all[i] {
				return nil, fmt.Errorf("%s mode None: order differs at #%d: got %s, document order has %s", where, i, toks[i], ex.all[i])
			}
		}
		return toks, nil
	}
	// (2) monotone: in-order subsequence of the next weaker mode
	if ok, tk := isSubseq(toks, prev); !ok {
		return nil, fmt.Errorf("%s: mode %s returns %s, which mode %s does not (or not in that order)", where, modeName[mode], tk, modeName[mode-1])
	}
	for _, tk := range ex.all {
		l := ex.leaf[tk]
		// (3) content outside every potentially excludable subtree stays
		if protected(l.Anc, mode) && !seen[tk] {
			return nil, fmt.Errorf("%s: mode %s dropped %s, which has no ancestor the mode may exclude (%+v)", where, modeName[mode], tk, l.Anc)
		}
		// (4) explicit chrome goes
		if l.Anc.Nav && seen[tk] {
			return nil, fmt.Errorf("%s: mode %s still returns %s, which lies under nav/aside/role=navigation|complementary", where, modeName[mode], tk)
		}
	}
	return toks, nil
}

// checkLoose is for entry points without a mode parameter (package tabula):
// whatever mode they use, the answer is an in-order selection of the visible
// text that keeps everything no mode may exclude.
func checkLoose(where, out string, ex *expect) error {
	found := htmlw.Scan(out)
	seen := map[string]bool{}
	var toks []string
	for _, f := range found {
		if ex.forb[f.Tok] {
			return fmt.Errorf("%s: text %s of a script/style/template/comment surfaced", where, f.Tok)
		}
		l, ok := ex.leaf[f.Tok]
		if !ok {
			return fmt.Errorf("%s: token %s was never written", where, f.Tok)
		}
		if seen[f.Tok] {
			return fmt.Errorf("%s: text %s returned twice: %q", where, f.Tok, clip(out))
		}
		seen[f.Tok] = true
		if f.After != l.X {
			return fmt.Errorf("%s: character references behind %s decoded to %q, want %q", where, f.Tok, f.After, l.X)
		}
		toks = append(toks, f.Tok)
	}
	if ok, tk := isSubseq(toks, ex.all); !ok {
		return fmt.Errorf("%s: %s is out of document order", where, tk)
	}
	for _, tk := range ex.all {
		if protected(ex.leaf[tk].Anc, 3) && !seen[tk] {
			return fmt.Errorf("%s: text %s, which no mode may exclude, is missing: %q", where, tk, clip(out))
		}
	}
	return nil
}

type answers struct {
	text, md [4]string
	units    [4][]string
}

// checkReader runs all four modes on readers produced by open (a fresh reader
// per mode when fresh is set, else one reader asked in the order Aggressive …
// None) and applies clauses (1)-(4) to the three renderings.
func checkReader(where string, open func() (*htmldoc.Reader, error), fresh bool, ex *expect) (*answers, error) {
	var a answers
	var shared *htmldoc.Reader
	seq := []int{0, 1, 2, 3}
	if !fresh {
		seq = []int{3, 2, 1, 0}
	}
	var dtext [4]string
	for _, m := range seq {
		r := shared
		if r == nil {
			var err error
			if r, err = open(); err != nil {
				return nil, fmt.Errorf("%s: open failed: %v", where, err)
			}
			if !fresh {
				shared = r
			}
		}
		opts := htmldoc.ExtractOptions{NavigationExclusion: modeVal[m]}
		var err error
		if a.text[m], err = r.TextWithOptions(opts); err != nil {
			return nil, fmt.Errorf("%s TextWithOptions(%s): %v", where, modeName[m], err)
		}
		if a.md[m], err = r.MarkdownWithOptions(opts); err != nil {
			return nil, fmt.Errorf("%s MarkdownWithOptions(%s): %v", where, modeName[m], err)
		}
		d, err := r.DocumentWithOptions(opts)
		if err != nil {
			return nil, fmt.Errorf("%s DocumentWithOptions(%s): %v", where, modeName[m], err)
		}
		a.units[m], dtext[m] = docUnits(d)
		if fresh {
			r.Close()
		}
	}
	if shared != nil {
		shared.Close()
	}
	for v, outs := range [3]*[4]string{&a.text, &a.md, &dtext} {
		view := [3]string{"TextWithOptions", "MarkdownWithOptions", "DocumentWithOptions"}[v]
		var prev []string
		for m := 0; m < 4; m++ {
			toks, err := checkOut(where+" "+view, m, outs[m], ex, prev)
			if err != nil {
				return nil, err
			}
			prev = toks
		}
	}
	// (2) on atomic units: every unit of the stricter mode is, in order, a
	// unit of the weaker mode, either unchanged or narrowed by text that the
	// stricter mode may exclude (navigation nested inside a cell, item, quote)
	for m := 1; m < 4; m++ {
		j := 0
		for _, u := range a.units[m] {
			for j < len(a.units[m-1]) && !narrows(u, a.units[m-1][j], m, ex) {
				j++
			}
			if j == len(a.units[m-1]) {
				return nil, fmt.Errorf("%s DocumentWithOptions: mode %s has unit %q; mode %s has no such unit in that order (unchanged, or larger by text mode %s may exclude)", where, modeName[m], clip(u), modeName[m-1], modeName[m])
			}
			j++
		}
	}
	return &a, nil
}

// narrows reports whether unit u of mode m is unit v of the next weaker mode:
// identical, or the same kind of unit with some text removed, all of which
// mode m is allowed to exclude.
func narrows(u, v string, m int, ex *expect) bool {
	// white space may differ: an excluded element without text of its own (an
	// empty cell with a vocabulary id, say) takes the white space inside it along
	if u == v || strings.Join(strings.Fields(u), " ") == strings.Join(strings.Fields(v), " ") {
		return true
	}
	ku, kv := u[:strings.Index(u, "|")+1], v[:strings.Index(v, "|")+1]
	if ku != kv {
		return false
	}
	fu, fv := htmlw.Scan(u), htmlw.Scan(v)
	// (a table whose cells lost all their text may remain as an empty grid)
	if len(fu) >= len(fv) {
		return false
	}
	kept := map[string]bool{}
	var tu, tv []string
	for _, f := range fu {
		tu = append(tu, f.Tok)
		kept[f.Tok] = true
	}
	for _, f := range fv {
		tv = append(tv, f.Tok)
		if !kept[f.Tok] && protected(ex.leaf[f.Tok].Anc, m) {
			return false
		}
	}
	ok, _ := isSubseq(tu, tv)
	return ok
}

func sameUnits(a, b []string) bool {
	if len(a) != len(b) {
		return false
	}
	for i := range a {
		if a[i] != b[i] {
			return false
		}
	}
	return true
}

// epubOf wraps one XHTML chapter in a minimal EPUB 3 container (OCF 3.2:
// mimetype first and stored; container.xml; package document with a nav
// document that is not in the spine).
func epubOf(chapter []byte) []byte {
	var buf bytes.Buffer
	zw := zip.NewWriter(&buf)
	put := func(name string, data []byte, store bool) {
		h := &zip.FileHeader{Name: name, Method: zip.Deflate}
		if store {
			h.Method = zip.Store
		}
		w, _ := zw.CreateHeader(h)
		w.Write(data)
	}
	put("mimetype", []byte("application/epub+zip"), true)
	put("META-INF/container.xml", []byte(`<?xml version="1.0"?><container version="1.0" xmlns="urn:oasis:names:tc:opendocument:xmlns:container"><rootfiles><rootfile full-path="OEBPS/content.opf" media-type="application/oebps-package+xml"/></rootfiles></container>`), false)
	put("OEBPS/content.opf", []byte(`<?xml version="1.0" encoding="UTF-8"?><package xmlns="http://www.idpf.org/2007/opf" version="3.0" unique-identifier="id"><metadata xmlns:dc="http://purl.org/dc/elements/1.1/"><dc:identifier id="id">urn:uuid:00000000-0000-0000-0000-000000000019</dc:identifier><dc:title>c19</dc:title><dc:language>en</dc:language><meta property="dcterms:modified">2020-01-01T00:00:00Z</meta></metadata><manifest><item id="nav" href="nav.xhtml" media-type="application/xhtml+xml" properties="nav"/><item id="ch1" href="ch1.xhtml" media-type="application/xhtml+xml"/></manifest><spine><itemref idref="ch1"/></spine></package>`), false)
	put("OEBPS/nav.xhtml", []byte(`<?xml version="1.0" encoding="UTF-8"?><html xmlns="http://www.w3.org/1999/xhtml" xmlns:epub="http://www.idpf.org/2007/ops"><head><title>nav</title></head><body><nav epub:type="toc"><ol><li><a href="ch1.xhtml">one</a></li></ol></nav></body></html>`), false)
	put("OEBPS/ch1.xhtml", chapter, false)
	zw.Close()
	return buf.Bytes()
}

// ---------------------------------------------------------------------------
// the oracle

func checkCase(c Case) error {
	src, _, err := render(c.Doc)
	if err != nil {
		return err
	}
	if c.EmptySpans > 0 {
		src = append(append([]byte{}, src...), []byte(strings.Repeat("<span/>", c.EmptySpans))...)
	}
	ex := expectOf(c.Doc)

	// entry point 1: OpenReader, a fresh reader per mode (the baseline)
	base, err := checkReader("OpenReader", func() (*htmldoc.Reader, error) { return htmldoc.OpenReader(bytes.NewReader(src)) }, true, ex)
	if err != nil {
		return err
	}
	for m := 1; m < 4; m++ {
		if len(base.units[m]) < len(base.units[m-1]) {
			vr.Label("observed:" + modeName[m] + "<" + modeName[m-1])
		}
	}

	// (5) any request order on one reader gives the same answers
	r, err := htmldoc.OpenReader(bytes.NewReader(src))
	if err != nil {
		return fmt.Errorf("OpenReader: %v", err)
	}
	for i, q := range c.Order {
		opts := htmldoc.ExtractOptions{NavigationExclusion: modeVal[q.Mode]}
		switch q.View {
		case "text":
			got, _ := r.TextWithOptions(opts)
			if got != base.text[q.Mode] {
				return fmt.Errorf("request #%d TextWithOptions(%s) on a reader already asked %v differs from a fresh reader's answer:\n got %q\nwant %q", i, modeName[q.Mode], c.Order[:i], clip(got), clip(base.text[q.Mode]))
			}
		case "md":
			got, _ := r.MarkdownWithOptions(opts)
			if got != base.md[q.Mode] {
				return fmt.Errorf("request #%d MarkdownWithOptions(%s) on a reader already asked %v differs from a fresh reader's answer:\n got %q\nwant %q", i, modeName[q.Mode], c.Order[:i], clip(got), clip(base.md[q.Mode]))
			}
		default:
			d, derr := r.DocumentWithOptions(opts)
			if derr != nil {
				return fmt.Errorf("DocumentWithOptions: %v", derr)
			}
			got, _ := docUnits(d)
			if !sameUnits(got, base.units[q.Mode]) {
				return fmt.Errorf("request #%d DocumentWithOptions(%s) on a reader already asked %v differs from a fresh reader's answer:\n got %q\nwant %q", i, modeName[q.Mode], c.Order[:i], got, base.units[q.Mode])
			}
		}
	}
	r.Close()

	// locality: whether a subtree is excluded is decided by the element and its ancestors. Taking the id attribute
	// away from one element therefore changes nothing about the text outside that element's subtree, in any mode.
	if err := checkLocality(c, base); err != nil {
		return err
	}

	// entry point 2: OpenReader fed one byte at a time, one reader, strictest mode first
	if _, err := checkReader("OpenReader(1-byte reads)", func() (*htmldoc.Reader, error) {
		return htmldoc.OpenReader(iotest.OneByteReader(bytes.NewReader(src)))
	}, false, ex); err != nil {
		return err
	}

	// entry point 3: files
	dir, err := os.MkdirTemp(scratchBase(), "c19-")
	if err != nil {
		return nil // infrastructure, not a verdict
	}
	defer os.RemoveAll(dir)
	name := "x.html"
	if c.HTM {
		name = "X.HTM"
	}
	path := filepath.Join(dir, name)
	if err := os.WriteFile(path, src, 0o644); err != nil {
		return nil
	}
	if _, err := checkReader("Open(file)", func() (*htmldoc.Reader, error) { return htmldoc.Open(path) }, false, ex); err != nil {
		return err
	}

	// entry point 4: package tabula (no mode parameter)
	if out, _, err := tabula.FromHTMLString(string(src)).Text(); err != nil {
		return fmt.Errorf("tabula.FromHTMLString.Text: %v", err)
	} else if err := checkLoose("tabula.FromHTMLString.Text", out, ex); err != nil {
		return err
	}
	if out, _, err := tabula.FromHTMLString(string(src)).ToMarkdown(); err != nil {
		return fmt.Errorf("tabula.FromHTMLString.ToMarkdown: %v", err)
	} else if err := checkLoose("tabula.FromHTMLString.ToMarkdown", out, ex); err != nil {
		return err
	}
	if d, _, err := tabula.FromHTMLString(string(src)).Document(); err != nil {
		return fmt.Errorf("tabula.FromHTMLString.Document: %v", err)
	} else {
		_, out := docUnits(d)
		if err := checkLoose("tabula.FromHTMLString.Document", out, ex); err != nil {
			return err
		}
	}
	if out, _, err := tabula.Open(path).Text(); err != nil {
		return fmt.Errorf("tabula.Open(%s).Text: %v", name, err)
	} else if err := checkLoose("tabula.Open("+name+").Text", out, ex); err != nil {
		return err
	}

	// entry point 5: the same tree as an EPUB chapter (XHTML spelling)
	xs := htmlw.Ser{XHTML: true, Indent: c.Doc.Ser.Indent}
	xhtml := c.Doc.Render(xs)
	if perr := c.Doc.CheckParse(xhtml); perr != nil {
		return fmt.Errorf("GENERATOR: the XHTML serialisation does not parse back to the intended tree: %v", perr)
	}
	ep := epubOf(xhtml)
	er, err := epubdoc.OpenReader(bytes.NewReader(ep), int64(len(ep)))
	if err != nil {
		return fmt.Errorf("epubdoc.OpenReader: %v", err)
	}
	defer er.Close()
	var prevT, prevM []string
	for m := 0; m < 4; m++ {
		out, err := er.TextWithOptions(epubdoc.ExtractOptions{NavigationExclusion: m})
		if err != nil {
			return fmt.Errorf("epubdoc TextWithOptions: %v", err)
		}
		if prevT, err = checkOut("EPUB chapter TextWithOptions", m, out, ex, prevT); err != nil {
			return err
		}
		out, err = er.MarkdownWithOptions(epubdoc.ExtractOptions{NavigationExclusion: m})
		if err != nil {
			return fmt.Errorf("epubdoc MarkdownWithOptions: %v", err)
		}
		if prevM, err = checkOut("EPUB chapter MarkdownWithOptions", m, out, ex, prevM); err != nil {
			return err
		}
	}
	if d, err := er.Document(); err != nil {
		return fmt.Errorf("epubdoc Document: %v", err)
	} else {
		_, out := docUnits(d)
		if err := checkLoose("EPUB chapter Document", out, ex); err != nil {
			return err
		}
	}
	epath := filepath.Join(dir, "x.epub")
	if err := os.WriteFile(epath, ep, 0o644); err != nil {
		return nil
	}
	if out, _, err := tabula.Open(epath).Text(); err != nil {
		return fmt.Errorf("tabula.Open(x.epub).Text: %v", err)
	} else if err := checkLoose("tabula.Open(x.epub).Text", out, ex); err != nil {
		return err
	}
	return nil
}

// scratchBase prefers a memory-backed directory for the per-case files: three
// small files are written and removed per case, which on a busy disk costs
// more than everything else the check does.
var tokenRE = regexp.MustCompile(`q[0-9]+z`)

// checkLocality: see checkCase.
func checkLocality(c Case, base *answers) error {
	// the first element (document order) that carries an id, and the tokens of its subtree
	var target *htmlw.Node
	var find func(n *htmlw.Node)
	find = func(n *htmlw.Node) {
		if target != nil {
			return
		}
		if _, ok := n.Get("id"); ok && n.Tag != "" {
			target = n
			return
		}
		for _, k := range n.Kids {
			find(k)
		}
	}
	find(c.Doc.Body)
	if target == nil {
		return nil
	}
	inside := map[string]bool{}
	var collect func(n *htmlw.Node)
	collect = func(n *htmlw.Node) {
		if n.Tok != "" {
			inside[n.Tok] = true
		}
		for _, k := range n.Kids {
			collect(k)
		}
	}
	collect(target)
	saved := target.Attr
	var without []htmlw.Attr
	for _, a := range saved {
		if a.K != "id" {
			without = append(without, a)
		}
	}
	target.Attr = without
	src2, _, err := render(c.Doc)
	target.Attr = saved
	if err != nil {
		return nil // the variant has no confirmed spelling: not judged
	}
	if c.EmptySpans > 0 {
		src2 = append(append([]byte{}, src2...), []byte(strings.Repeat("<span/>", c.EmptySpans))...)
	}
	outside := func(text string) []string {
		var out []string
		for _, tk := range tokenRE.FindAllString(text, -1) {
			if !inside[tk] {
				out = append(out, tk)
			}
		}
		return out
	}
	for m := 0; m < 4; m++ {
		r, err := htmldoc.OpenReader(bytes.NewReader(src2))
		if err != nil {
			return fmt.Errorf("OpenReader (the document without the id of <%s>): %v", target.Tag, err)
		}
		got, _ := r.TextWithOptions(htmldoc.ExtractOptions{NavigationExclusion: modeVal[m]})
		r.Close()
		a, b := outside(base.text[m]), outside(got)
		if fmt.Sprint(a) != fmt.Sprint(b) {
			id, _ := target.Get("id")
			return fmt.Errorf("mode %s: removing id=%q from one <%s> changes the text outside that element: with the id %v, without %v", modeName[m], id, target.Tag, a, b)
		}
	}
	return nil
}

func scratchBase() string {
	if st, err := os.Stat("/dev/shm"); err == nil && st.IsDir() {
		return "/dev/shm"
	}
	return ""
}

func init() { vr.Register("html", checkCase) }

// ---------------------------------------------------------------------------
// generator

func genCase(t *rapid.T) Case {
	o := htmlw.AllFeatures()
	o.Want = vr.Want
	c := Case{Doc: htmlw.GenTree(t, o)}
	n := rapid.IntRange(2, 8).Draw(t, "requests")
	for i := 0; i < n; i++ {
		c.Order = append(c.Order, Req{
			Mode: rapid.IntRange(0, 3).Draw(t, "mode"),
			View: rapid.SampledFrom([]string{"text", "md", "doc"}).Draw(t, "view"),
		})
	}
	c.HTM = rapid.Bool().Draw(t, "htm")
	if rapid.IntRange(0, 24).Draw(t, "emptySpans") == 12 {
		c.EmptySpans = rapid.SampledFrom([]int{1200, 1900}).Draw(t, "nEmptySpans")
	}
	return c
}

func meta(c Case) vr.Meta {
	src, fell, _ := render(c.Doc)
	feats := c.Doc.Features()
	has := func(f string) bool {
		for _, x := range feats {
			if x == f {
				return true
			}
		}
		return false
	}
	ex := expectOf(c.Doc)
	deep, navLeaf, prot := false, false, 0
	var protAt [4]int
	for _, l := range ex.leaf {
		if l.Anc.Depth >= 3 {
			deep = true
		}
		if l.Anc.Nav {
			navLeaf = true
		}
		if protected(l.Anc, 3) {
			prot++
		}
		for m := 1; m < 4; m++ {
			if protected(l.Anc, m) {
				protAt[m]++
			}
		}
	}
	chrome := has("nav") || has("aside") || has("header") || has("footer")
	labels := append([]string{}, feats...)
	if fell {
		labels = append(labels, "ser-fallback-to-strict")
	}
	if navLeaf {
		labels = append(labels, "text-under-explicit-chrome")
	}
	for m := 1; m < 4; m++ {
		if protAt[m] > 0 {
			labels = append(labels, "has-text-mode-"+modeName[m]+"-must-keep")
		}
		if m > 1 && protAt[m] < protAt[m-1] {
			labels = append(labels, "has-text-only-mode-"+modeName[m]+"-may-drop")
		}
	}
	if prot > 0 && prot < len(ex.leaf) {
		labels = append(labels, "mixed-protected-and-excludable")
	}
	if d := c.Doc.MaxDepth(); d >= 8 {
		labels = append(labels, "depth>=8")
	} else if d >= 5 {
		labels = append(labels, "depth-5..7")
	}
	first := -1
	for _, q := range c.Order {
		if first == -1 {
			first = q.Mode
		}
	}
	if first > 0 {
		labels = append(labels, "first-request-not-None")
	}
	if c.EmptySpans > 0 {
		labels = append(labels, "thousands-of-empty-spans")
	}
	return vr.Meta{
		FP:         string(src) + fmt.Sprint(c.Order, c.HTM),
		NonTrivial: (chrome && deep) || has("vocab-near") || has("ser-omitted-end-tags"),
		Labels:     labels,
	}
}

func TestHTML(t *testing.T) {
	vr.Prop(t, "html", vr.N(6000, 200000), genCase, meta, checkCase)
}

// TestVocabularySweep enumerates completely: every wrapper element x every
// attribute of the vocabulary lists (none, class=name, id=name, role=value) x
// every kind of content element, between two plain paragraphs, in the strict
// spelling. Each exclusion-vocabulary word (and each near miss) thus meets
// every clause at least once per content kind.
func TestVocabularySweep(t *testing.T) {
	wrappers := []string{"div", "section", "article", "main", "nav", "aside", "header", "footer", "ul", "p"}
	type attr struct{ k, v string }
	attrs := []attr{{}}
	for _, pool := range [][]string{htmlw.VocabExact, htmlw.VocabNear, htmlw.VocabNeutral} {
		for _, v := range pool {
			attrs = append(attrs, attr{"class", v}, attr{"id", v})
		}
	}
	for _, r := range htmlw.Roles {
		attrs = append(attrs, attr{"role", r})
	}
	leaves := []string{"h2", "p", "li", "td", "pre", "blockquote"}
	i := 0
	for _, w := range wrappers {
		for _, a := range attrs {
			for _, lf := range leaves {
				i++
				if !vr.Mine(i) {
					continue
				}
				var leaf *htmlw.Node
				switch lf {
				case "li":
					leaf = htmlw.E("ol", htmlw.E("li", htmlw.T("q2z")))
				case "td":
					leaf = htmlw.E("table", htmlw.E("tbody", htmlw.E("tr", htmlw.E("td", htmlw.T("q2z")))))
				default:
					leaf = htmlw.E(lf, htmlw.T("q2z"))
				}
				var mid *htmlw.Node
				switch w {
				case "ul": // the attribute sits on the list itself
					mid = htmlw.E("ul", htmlw.E("li", htmlw.T("q2z")))
					if lf != "li" {
						continue
					}
				case "p": // the attribute sits on the content element itself
					mid = leaf
					if lf == "li" || lf == "td" {
						mid = leaf // attribute on ol / table
					}
				default:
					mid = htmlw.E(w, leaf)
				}
				if a.k != "" {
					mid.With(a.k, a.v)
				}
				c := Case{
					Doc:   &htmlw.Doc{Body: htmlw.E("body", htmlw.E("p", htmlw.T("q1z")), mid, htmlw.E("p", htmlw.T("q3z")))},
					Order: []Req{{Mode: 3, View: "text"}, {Mode: 1, View: "doc"}, {Mode: 2, View: "md"}, {Mode: 0, View: "text"}},
				}
				m := vr.Meta{FP: fmt.Sprint(w, a, lf), NonTrivial: a.k != "" || w == "nav" || w == "aside" || w == "header" || w == "footer",
					Labels: []string{"sweep:wrapper=" + w, "sweep:leaf=" + lf, "sweep:attr=" + a.k}}
				if !vr.One(t, "html", c, m, checkCase) {
					return
				}
			}
		}
	}
	vr.Exhaustive("wrapper/self x vocabulary attribute x content kind (strict spelling)")
}
