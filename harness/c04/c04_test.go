// C04 — Object lookup returns the newest revision, in any access order.
//
// Generator: a revision history (r revisions x n object numbers, each cell
// absent / define / free; xref kind per revision; object-stream membership per
// object) written by the raw writer of gen/pdfw, plus a lookup program.
// Oracle: the reference model latest[num] computed from the history.
package c04

import (
	"bytes"
	"fmt"
	"os"
	"path/filepath"
	"reflect"
	"strings"
	"testing"

	"github.com/tsawler/tabula/core"
	"github.com/tsawler/tabula/reader"
	"github.com/tsawler/tabula/resolver"
	"pgregory.net/rapid"

	"verif/harness/gen/filt"
	"verif/harness/gen/pdfw"
	"verif/harness/vr"
)

var tmpDir string

func TestMain(m *testing.M) {
	d, err := os.MkdirTemp("", "verif-c04-")
	if err != nil {
		fmt.Println("INFRA: cannot create temp dir:", err)
		os.Exit(3)
	}
	tmpDir = d
	vr.AtExit(func() { os.RemoveAll(d) })
	vr.Main(m)
}

type Cell struct {
	Kind     string `json:"kind"`            // absent | def | free
	VKind    string `json:"vkind,omitempty"` // int | dict | arr | stream | streamref | bigstreamref
	InObjStm bool   `json:"in_objstm,omitempty"`
}

type Rev struct {
	XRef  string `json:"xref"`
	Flate bool   `json:"flate,omitempty"`
	Tight bool   `json:"tight,omitempty"` // object-stream header without a trailing blank (when the first member allows it)
	Tail  bool   `json:"tail,omitempty"`  // object-stream data end with the last byte of the last member
	Cells []Cell `json:"cells"`           // one per object number 1..N
	// W1 (stream): the type field of the cross-reference stream entries is W1 bytes wide (0 = 1)
	W1 int `json:"w1,omitempty"`
	// Filler (table): groups of never-used object numbers above everything else, listed as free entries
	// "0000000000 65535 f"; each group is a subsection of its own. A long table (hundreds of entries) spans several
	// read-ahead buffers of a scanner.
	Filler []int `json:"filler,omitempty"`
}

type Op struct {
	Kind string `json:"kind"` // get | resolve | deep | clear | xref
	Num  int    `json:"num,omitempty"`
}

type Case struct {
	N       int    `json:"n"`
	Revs    []Rev  `json:"revs"`
	EOL     string `json:"eol,omitempty"`
	Program []Op   `json:"program"`
	// Phys: the sequence in which the revisions (indices of Revs, the logical history) are laid out in the file;
	// empty = in logical order. Sections are chained by /Prev offsets, their place in the file means nothing.
	Phys []int `json:"phys,omitempty"`
}

func init() { vr.Register("history", checkCase) }

// ---- model ------------------------------------------------------------------

type entry struct {
	live  bool
	gen   int
	rev   int
	vkind string
	num   int
	// for fixed objects
	fixed  string // catalog | pages | len | objstm | xrefstm
	ival   int
	refGen int // generation written in an array's reference to num-1
}

type built struct {
	bytes  []byte
	latest map[int]*entry
	size   int
}

func tag(rev, num int) int { return rev*1000 + num }

func streamData(rev, num int, big bool) []byte {
	s := []byte(fmt.Sprintf("data-r%dn%d", rev, num))
	switch (rev + num) % 4 {
	case 1:
		// the data themselves begin with an end-of-line byte (the one behind "stream" is not theirs, §7.3.8.1)
		s = append([]byte("\n"), s...)
	case 2:
		s = append([]byte("\r\n"), append(s, '\n')...)
	}
	if big {
		// longer than a 4 KiB read-ahead buffer
		s = append(s, bytes.Repeat([]byte(fmt.Sprintf(" r%dn%d", rev, num)), 900)...)
	}
	return s
}

func build(c Case) built {
	n, r := c.N, len(c.Revs)
	catalog, pagesN := n+1, n+2
	lenNum := func(k, j int) int { return n + 3 + k*n + (j - 1) }
	objstmNum := func(k int) int { return n + 3 + r*n + k }
	xrefNum := func(k int) int { return n + 3 + r*n + r + k }
	size := n + 3 + r*n + 2*r
	fillerAt := size + 1 // filler numbers lie above all others, one unused number between two groups
	gen := make([]int, n+1)
	live := make([]bool, n+1)
	latest := map[int]*entry{}
	var revs []pdfw.RawRevision
	for k, rv := range c.Revs {
		rr := pdfw.RawRevision{XRef: rv.XRef, Flate: rv.Flate, TightHead: rv.Tight, TightTail: rv.Tail, ObjStmNum: objstmNum(k), XRefNum: xrefNum(k)}
		if rr.XRef != "stream" {
			rr.XRef = "table"
			for _, g := range rv.Filler {
				for i := 0; i < g; i++ {
					rr.Objs = append(rr.Objs, pdfw.RawObj{Num: fillerAt + i, Gen: 65535, Free: true})
				}
				fillerAt += g + 1
			}
		} else {
			rr.W1 = rv.W1
		}
		if k == 0 {
			rr.Objs = append(rr.Objs,
				pdfw.RawObj{Num: catalog, Value: pdfw.Dict{{K: "Type", V: pdfw.Name("Catalog")}, {K: "Pages", V: pdfw.NRef{Num: pagesN}}}},
				pdfw.RawObj{Num: pagesN, Value: pdfw.Dict{{K: "Type", V: pdfw.Name("Pages")}, {K: "Kids", V: pdfw.Arr{}}, {K: "Count", V: pdfw.Int(0)}}})
			latest[catalog] = &entry{live: true, fixed: "catalog"}
			latest[pagesN] = &entry{live: true, fixed: "pages"}
		}
		members := 0
		for j := 1; j <= n && j <= len(rv.Cells); j++ {
			cell := rv.Cells[j-1]
			switch cell.Kind {
			case "free":
				if !live[j] {
					continue // nothing to delete: the cell is a no-op
				}
				live[j] = false
				gen[j]++
				rr.Objs = append(rr.Objs, pdfw.RawObj{Num: j, Gen: gen[j], Free: true})
				latest[j] = &entry{live: false, num: j}
			case "def":
				live[j] = true
				o := pdfw.RawObj{Num: j, Gen: gen[j], InObjStm: cell.InObjStm}
				e := &entry{live: true, gen: gen[j], rev: k, vkind: cell.VKind, num: j}
				switch cell.VKind {
				case "dict":
					o.Value = pdfw.Dict{{K: "V", V: pdfw.Int(tag(k, j))}, {K: "T", V: pdfw.Str{B: []byte(fmt.Sprintf("r%dn%d", k, j))}}}
				case "arr", "arr2":
					a := pdfw.Arr{pdfw.Int(tag(k, j))}
					if j > 1 {
						a = append(a, pdfw.NRef{Num: j - 1, Gen: gen[j-1]})
						e.refGen = gen[j-1]
						if cell.VKind == "arr2" {
							// the same object once more, on a sibling branch
							a = append(a, pdfw.Dict{{K: "Again", V: pdfw.NRef{Num: j - 1, Gen: gen[j-1]}}})
						}
					}
					o.Value = a
				case "dictref":
					d := pdfw.Dict{{K: "V", V: pdfw.Int(tag(k, j))}}
					if j > 1 {
						d = append(d, pdfw.KV{K: "P", V: pdfw.NRef{Num: j - 1, Gen: gen[j-1]}})
						e.refGen = gen[j-1]
					}
					o.Value = d
				case "stream", "streamref", "bigstreamref":
					o.Value = pdfw.Dict{{K: "V", V: pdfw.Int(tag(k, j))}}
					o.Data = streamData(k, j, cell.VKind == "bigstreamref")
					if cell.VKind != "stream" {
						ln := lenNum(k, j)
						o.LengthRef = &pdfw.NRef{Num: ln}
						// the length object follows the stream in the file (resolved while the stream is being parsed)
						rr.Objs = append(rr.Objs, o)
						rr.Objs = append(rr.Objs, pdfw.RawObj{Num: ln, Value: pdfw.Int(len(o.Data)), InObjStm: cell.InObjStm})
						latest[ln] = &entry{live: true, fixed: "len", ival: len(o.Data)}
						if cell.InObjStm && rr.XRef == "stream" {
							members++
						}
						latest[j] = e
						continue
					}
				default:
					e.vkind = "int"
					o.Value = pdfw.Int(tag(k, j))
				}
				if o.InObjStm && rr.XRef == "stream" && o.Data == nil && o.Gen == 0 {
					members++
				}
				rr.Objs = append(rr.Objs, o)
				latest[j] = e
			}
		}
		if members > 0 {
			latest[objstmNum(k)] = &entry{live: true, fixed: "objstm"}
		}
		if rr.XRef == "stream" {
			latest[xrefNum(k)] = &entry{live: true, fixed: "xrefstm"}
		}
		revs = append(revs, rr)
	}
	var order []int
	if len(c.Phys) == len(revs) {
		order = c.Phys
	}
	if fillerAt > size+1 {
		size = fillerAt
	}
	return built{bytes: pdfw.WriteRawOrdered(revs, pdfw.NRef{Num: catalog}, size, c.EOL, order), latest: latest, size: size}
}

// ---- oracle -----------------------------------------------------------------

func expectObject(b built, num int, got core.Object) error {
	e := b.latest[num]
	switch e.fixed {
	case "catalog", "pages":
		d, ok := got.(core.Dict)
		want := map[string]string{"catalog": "Catalog", "pages": "Pages"}[e.fixed]
		if !ok || d.Get("Type") != core.Name(want) {
			return fmt.Errorf("object %d: got %v, want the %s dictionary", num, got, want)
		}
		return nil
	case "len":
		if got != core.Int(e.ival) {
			return fmt.Errorf("object %d: got %v, want integer %d", num, got, e.ival)
		}
		return nil
	case "objstm", "xrefstm":
		s, ok := got.(*core.Stream)
		want := map[string]string{"objstm": "ObjStm", "xrefstm": "XRef"}[e.fixed]
		if !ok || s.Dict.Get("Type") != core.Name(want) {
			return fmt.Errorf("object %d: got %v, want the %s stream", num, got, want)
		}
		return nil
	}
	t := tag(e.rev, num)
	switch e.vkind {
	case "int":
		if got != core.Int(t) {
			return fmt.Errorf("object %d: got %v, want %d (revision %d)", num, got, t, e.rev)
		}
	case "dict":
		d, ok := got.(core.Dict)
		if !ok || d.Get("V") != core.Int(t) || d.Get("T") != core.String(fmt.Sprintf("r%dn%d", e.rev, num)) || len(d) != 2 {
			return fmt.Errorf("object %d: got %v, want << /V %d /T (r%dn%d) >>", num, got, t, e.rev, num)
		}
	case "dictref":
		d, ok := got.(core.Dict)
		if !ok || d.Get("V") != core.Int(t) {
			return fmt.Errorf("object %d: got %v, want a dictionary with /V %d", num, got, t)
		}
		if num > 1 {
			ref, ok := d.Get("P").(core.IndirectRef)
			if !ok || ref.Number != num-1 || len(d) != 2 {
				return fmt.Errorf("object %d: got %v, want /P to be a reference to %d", num, got, num-1)
			}
		} else if len(d) != 1 {
			return fmt.Errorf("object %d: got %v, want 1 entry", num, got)
		}
	case "arr", "arr2":
		a, ok := got.(core.Array)
		if !ok || len(a) < 1 || a[0] != core.Int(t) {
			return fmt.Errorf("object %d: got %v, want array starting with %d", num, got, t)
		}
		if num > 1 {
			want := 2
			if e.vkind == "arr2" {
				want = 3
				if d, ok := a[len(a)-1].(core.Dict); !ok || len(a) != 3 {
					return fmt.Errorf("object %d: got %v, want 3 elements, the last one a dictionary", num, got)
				} else if ref, ok := d.Get("Again").(core.IndirectRef); !ok || ref.Number != num-1 {
					return fmt.Errorf("object %d: /Again is %v, want a reference to %d", num, d.Get("Again"), num-1)
				}
			}
			if len(a) != want {
				return fmt.Errorf("object %d: got %v, want %d elements", num, got, want)
			}
			ref, ok := a[1].(core.IndirectRef)
			if !ok || ref.Number != num-1 {
				return fmt.Errorf("object %d: second element %v, want a reference to %d", num, a[1], num-1)
			}
		} else if len(a) != 1 {
			return fmt.Errorf("object %d: got %v, want 1 element", num, got)
		}
	default:
		s, ok := got.(*core.Stream)
		if !ok {
			return fmt.Errorf("object %d: got %T, want a stream", num, got)
		}
		want := streamData(e.rev, num, e.vkind == "bigstreamref")
		if s.Dict.Get("V") != core.Int(t) || !bytes.Equal(s.Data, want) {
			return fmt.Errorf("object %d: stream /V=%v with %d data bytes %.30q, want /V=%d with %d bytes %.30q",
				num, s.Dict.Get("V"), len(s.Data), s.Data, t, len(want), want)
		}
	}
	return nil
}

// deepExpect reports whether every object reachable from num is live with the referenced generation
// (otherwise ResolveDeep's outcome is not judged: ISO 32000-1 treats such a reference as null, the
// property statement as an error).
func deepJudgeable(b built, num int, c Case) bool {
	for j := num; j >= 1; j-- {
		e := b.latest[j]
		if e == nil || !e.live {
			return false
		}
		if (e.vkind != "arr" && e.vkind != "arr2" && e.vkind != "dictref") || j == 1 {
			return true
		}
		prev := b.latest[j-1]
		if prev == nil || !prev.live || prev.gen != e.refGen {
			return false
		}
	}
	return true
}

func checkDeep(b built, num int, got core.Object) error {
	// a resolved array [tag, <resolved j-1>]
	for j := num; j >= 1; j-- {
		e := b.latest[j]
		if e.vkind == "dictref" {
			d, ok := got.(core.Dict)
			if !ok || d.Get("V") != core.Int(tag(e.rev, j)) {
				return fmt.Errorf("ResolveDeep: at object %d got %v, want a dictionary with /V %d", j, got, tag(e.rev, j))
			}
			if j == 1 {
				return nil
			}
			if _, still := d.Get("P").(core.IndirectRef); still || d.Get("P") == nil {
				return fmt.Errorf("ResolveDeep: at object %d the reference /P to %d was not resolved (%v)", j, j-1, d.Get("P"))
			}
			got = d.Get("P")
			continue
		}
		if e.vkind != "arr" && e.vkind != "arr2" {
			return expectObject(b, j, got)
		}
		a, ok := got.(core.Array)
		if !ok || len(a) < 1 || a[0] != core.Int(tag(e.rev, j)) {
			return fmt.Errorf("ResolveDeep: at object %d got %v, want array starting with %d", j, got, tag(e.rev, j))
		}
		if j == 1 {
			if len(a) != 1 {
				return fmt.Errorf("ResolveDeep: at object 1 got %v", got)
			}
			return nil
		}
		want := 2
		if e.vkind == "arr2" {
			want = 3
		}
		if len(a) != want {
			return fmt.Errorf("ResolveDeep: at object %d got %v, want %d elements", j, got, want)
		}
		if _, still := a[1].(core.IndirectRef); still {
			return fmt.Errorf("ResolveDeep: at object %d the reference to %d was not resolved", j, j-1)
		}
		if e.vkind == "arr2" {
			// the same object on the sibling branch: resolved to the same value
			d, ok := a[2].(core.Dict)
			if !ok {
				return fmt.Errorf("ResolveDeep: at object %d the third element is %v, want a dictionary", j, a[2])
			}
			if !reflect.DeepEqual(d.Get("Again"), a[1]) {
				return fmt.Errorf("ResolveDeep: at object %d the second reference to %d resolved to %v, the first to %v", j, j-1, d.Get("Again"), a[1])
			}
		}
		got = a[1]
	}
	return nil
}

func runProgram(b built, c Case, path string, prog []Op, label string) error {
	r, err := reader.Open(path)
	if err != nil {
		return fmt.Errorf("reader.Open failed on a well-formed file: %v", err)
	}
	defer r.Close()
	// one resolver.ObjectResolver for the whole program, never Reset: "the same objects [can] be resolved in
	// different top-level calls" (resolver.go). Its depth limit is just enough for the longest chain of the case.
	// the depth a chain of N arrays or dictionaries needs, and no more (a resolver that counts a level twice
	// fails); a dictionary inside the array (arr2) is one more level per object
	maxDepth := 2*c.N + 3
	for _, rv := range c.Revs {
		for _, cell := range rv.Cells {
			if cell.VKind == "arr2" {
				maxDepth = 3*c.N + 4
			}
		}
	}
	res := resolver.NewResolver(r, resolver.WithMaxDepth(maxDepth))
	for i, op := range prog {
		e := b.latest[op.Num]
		live := e != nil && e.live
		where := fmt.Sprintf("%s order, step %d (%s %d)", label, i, op.Kind, op.Num)
		switch op.Kind {
		case "clear":
			r.ClearCache()
		case "get", "resolve":
			var got core.Object
			var err error
			if op.Kind == "get" {
				got, err = r.GetObject(op.Num)
			} else {
				got, err = r.Resolve(core.IndirectRef{Number: op.Num, Generation: genOf(e)})
			}
			if !live {
				if err == nil {
					return fmt.Errorf("%s: object %d is free or was never defined in the newest revision, but the lookup returned %v", where, op.Num, got)
				}
				continue
			}
			if err != nil {
				return fmt.Errorf("%s: lookup of live object failed: %v", where, err)
			}
			if err := expectObject(b, op.Num, got); err != nil {
				return fmt.Errorf("%s: %v", where, err)
			}
		case "deep":
			if !live || e.fixed != "" || !deepJudgeable(b, op.Num, c) {
				// not judged, but must not crash
				_, _ = r.ResolveDeep(core.IndirectRef{Number: op.Num})
				continue
			}
			got, err := r.ResolveDeep(core.IndirectRef{Number: op.Num, Generation: e.gen})
			if err != nil {
				return fmt.Errorf("%s: ResolveDeep failed: %v", where, err)
			}
			if err := checkDeep(b, op.Num, got); err != nil {
				return fmt.Errorf("%s: %v", where, err)
			}
		case "rdeep":
			got, err := res.ResolveDeep(core.IndirectRef{Number: op.Num, Generation: genOf(e)})
			if !live || e.fixed != "" || !deepJudgeable(b, op.Num, c) {
				continue // not judged (a chain through a deleted object fails or not), but it ran on the shared resolver
			}
			if err != nil {
				return fmt.Errorf("%s: ResolveDeep on a resolver.ObjectResolver that served earlier lookups failed: %v", where, err)
			}
			if err := checkDeep(b, op.Num, got); err != nil {
				return fmt.Errorf("%s: %v", where, err)
			}
		case "rshallow":
			// the shallow form on the same shared resolver: the object as stored, its references left as references,
			// whatever the resolver did before (a deep resolution of the same number, for instance)
			got, err := res.Resolve(core.IndirectRef{Number: op.Num, Generation: genOf(e)})
			if !live {
				continue
			}
			if err != nil {
				return fmt.Errorf("%s: Resolve on a resolver.ObjectResolver that served earlier lookups failed: %v", where, err)
			}
			if err := expectObject(b, op.Num, got); err != nil {
				return fmt.Errorf("%s: Resolve on a resolver.ObjectResolver that served earlier lookups: %v", where, err)
			}
		case "xref":
			ent, ok := r.XRefTable().Get(op.Num)
			if live && (!ok || !ent.InUse) {
				return fmt.Errorf("%s: XRefTable has no in-use entry for live object %d", where, op.Num)
			}
			if !live && ok && ent.InUse {
				return fmt.Errorf("%s: XRefTable reports object %d in use, newest entry is free/absent", where, op.Num)
			}
		}
	}
	return nil
}

func genOf(e *entry) int {
	if e == nil {
		return 0
	}
	return e.gen
}

func checkCase(c Case) error {
	b := build(c)
	f, err := os.CreateTemp(tmpDir, "h*.pdf")
	if err != nil {
		return fmt.Errorf("INFRA temp file: %v", err)
	}
	path := f.Name()
	defer os.Remove(path)
	f.Write(b.bytes)
	f.Close()

	if err := runProgram(b, c, path, c.Program, "given"); err != nil {
		return err
	}
	// the same lookups in reverse order, and sorted ascending with cache clears in between
	rev := make([]Op, len(c.Program))
	for i, op := range c.Program {
		rev[len(c.Program)-1-i] = op
	}
	if err := runProgram(b, c, path, rev, "reversed"); err != nil {
		return err
	}
	var all []Op
	for num := b.size + 1; num >= 0; num-- {
		all = append(all, Op{"get", num}, Op{"xref", num})
		if num%3 == 0 {
			all = append(all, Op{Kind: "clear"})
		}
	}
	if err := runProgram(b, c, path, all, "descending-all"); err != nil {
		return err
	}
	return nil
}

// ---- generator ----------------------------------------------------------------

var vkinds = []string{"int", "dict", "arr", "dictref", "stream", "streamref", "bigstreamref", "arr2"}

func genCase(t *rapid.T) Case {
	c := Case{N: rapid.IntRange(1, 8).Draw(t, "n")}
	r := rapid.IntRange(1, 5).Draw(t, "r")
	c.EOL = rapid.SampledFrom([]string{"\n", "\n", "\r\n", "\r"}).Draw(t, "eol")
	for k := 0; k < r; k++ {
		rv := Rev{XRef: rapid.SampledFrom([]string{"table", "stream"}).Draw(t, "xref"), Flate: rapid.Bool().Draw(t, "flate"), Tight: rapid.Bool().Draw(t, "tightHead"), Tail: rapid.Bool().Draw(t, "tightTail")}
		for j := 0; j < c.N; j++ {
			cell := Cell{Kind: rapid.SampledFrom([]string{"absent", "def", "def", "free"}).Draw(t, "cell")}
			if cell.Kind == "def" {
				cell.VKind = rapid.SampledFrom(vkinds).Draw(t, "vkind")
				cell.InObjStm = rapid.Bool().Draw(t, "inObjStm")
			}
			rv.Cells = append(rv.Cells, cell)
		}
		if rv.XRef == "stream" && rapid.IntRange(0, 3).Draw(t, "wideType") == 0 {
			rv.W1 = rapid.SampledFrom([]int{2, 2, 3, 4}).Draw(t, "w1")
		}
		if rv.XRef == "table" && rapid.IntRange(0, 7).Draw(t, "longTable") == 0 {
			for g, ng := 0, rapid.IntRange(2, 5).Draw(t, "fillerGroups"); g < ng; g++ {
				rv.Filler = append(rv.Filler, rapid.SampledFrom([]int{1, 9, 10, 11, 90, 100, 111, 240, 400}).Draw(t, "fillerGroup"))
			}
		}
		c.Revs = append(c.Revs, rv)
	}
	if r >= 2 && rapid.IntRange(0, 3).Draw(t, "physicalOrder") == 0 {
		idx := make([]int, r)
		for i := range idx {
			idx[i] = i
		}
		c.Phys = rapid.Permutation(idx).Draw(t, "phys")
	}
	size := c.N + 3 + r*c.N + 2*r
	np := rapid.IntRange(1, 14).Draw(t, "programLen")
	for i := 0; i < np; i++ {
		kind := rapid.SampledFrom([]string{"get", "get", "get", "resolve", "deep", "rdeep", "rdeep", "rshallow", "rshallow", "clear", "xref"}).Draw(t, "op")
		num := rapid.IntRange(0, c.N+2).Draw(t, "num")
		if rapid.IntRange(0, 5).Draw(t, "far") == 0 {
			num = rapid.IntRange(0, size+2).Draw(t, "numFar")
		}
		c.Program = append(c.Program, Op{kind, num})
	}
	return c
}

func meta(c Case) vr.Meta {
	// non-trivial: an object replaced or freed after having been defined, or mixed xref kinds,
	// or an object that moves into/out of an object stream
	defined := map[int]bool{}
	inStm := map[int]bool{}
	nt := false
	kinds := map[string]bool{}
	var labels []string
	for _, rv := range c.Revs {
		kinds[rv.XRef] = true
		if rv.W1 > 1 {
			labels = append(labels, "xref-stream-wide-type-field")
		}
		if nf := func() (n int) {
			for _, g := range rv.Filler {
				n += g
			}
			return
		}(); nf >= 200 {
			labels = append(labels, "xref-table-longer-than-4KiB")
		}
		for j, cell := range rv.Cells {
			switch cell.Kind {
			case "def":
				stm := cell.InObjStm && rv.XRef == "stream"
				if defined[j] {
					nt = true
					labels = append(labels, "replaced")
					if stm != inStm[j] {
						labels = append(labels, "objstm-move")
					}
				}
				defined[j] = true
				inStm[j] = stm
			case "free":
				if defined[j] {
					nt = true
					labels = append(labels, "freed")
				}
			}
		}
	}
	if len(kinds) > 1 {
		nt = true
		labels = append(labels, "mixed-xref")
	}
	for i, p := range c.Phys {
		if p != i {
			nt = true
			labels = append(labels, "sections-out-of-order")
			break
		}
	}
	labels = append(labels, fmt.Sprintf("revisions:%d", len(c.Revs)))
	labels = dedup(labels)
	return vr.Meta{FP: fmt.Sprintf("%v", c), NonTrivial: nt, Labels: labels}
}

func dedup(in []string) []string {
	seen := map[string]bool{}
	var out []string
	for _, s := range in {
		if !seen[s] {
			seen[s] = true
			out = append(out, s)
		}
	}
	return out
}

func TestRandomHistories(t *testing.T) {
	vr.Prop(t, "history", vr.N(1500, 60000), genCase, meta, checkCase)
}

// TestExhaustiveSmall enumerates every history over n=2 object numbers and r=3 revisions
// (3^6 cell assignments x 2^3 xref kinds = 5832 files; quick) resp. n=3, r=3 (3^9 x 8 = 157464; thorough).
func TestExhaustiveSmall(t *testing.T) {
	n, r := 2, 3
	if vr.Thorough() {
		n = 3
	}
	cells := n * r
	total := 1
	for i := 0; i < cells; i++ {
		total *= 3
	}
	idx := 0
	for xk := 0; xk < 1<<r; xk++ {
		for h := 0; h < total; h++ {
			idx++
			if !vr.Mine(idx) {
				continue
			}
			c := Case{N: n}
			x := h
			for k := 0; k < r; k++ {
				rv := Rev{XRef: "table", Flate: (h+k)%2 == 0, Tight: (h/3+k)%2 == 0, Tail: (h/5+k)%2 == 0}
				if xk>>uint(k)&1 == 1 {
					rv.XRef = "stream"
				}
				for j := 0; j < n; j++ {
					cell := Cell{Kind: []string{"absent", "def", "free"}[x%3]}
					x /= 3
					if cell.Kind == "def" {
						cell.VKind = vkinds[(h+k*2+j)%len(vkinds)]
						cell.InObjStm = (h/7+k+j)%2 == 0
					}
					rv.Cells = append(rv.Cells, cell)
				}
				c.Revs = append(c.Revs, rv)
			}
			for num := 0; num <= n+3; num++ {
				c.Program = append(c.Program, Op{"get", num}, Op{"deep", num}, Op{"resolve", num}, Op{"rdeep", num}, Op{"rshallow", num})
			}
			// every sixth history with its three sections laid out in another physical order
			if perm := [][]int{{2, 1, 0}, {1, 0, 2}, {0, 2, 1}, {2, 0, 1}, {1, 2, 0}}[(h/6)%5]; h%6 == 0 && r == 3 {
				c.Phys = perm
			}
			if !vr.One(t, "history", c, meta(c), checkCase) {
				return
			}
		}
	}
	vr.Exhaustive(fmt.Sprintf("all histories over n=%d object numbers x r=%d revisions x 2^%d xref kinds", n, r, r))
	// compact object streams: one or two revisions with a cross-reference stream, 1-4 members that are all short
	// (one-digit numbers and offsets), every assignment of {array, integer} to the members, header and tail tight or not
	cnt := 0
	for m := 1; m <= 4; m++ {
		for kinds := 0; kinds < 1<<m; kinds++ {
			for _, tight := range []int{0, 1, 2, 3} {
				for _, flate := range []bool{true, false} {
					for revs := 1; revs <= 2; revs++ {
						cnt++
						c := Case{N: m}
						for k := 0; k < revs; k++ {
							rv := Rev{XRef: "stream", Flate: flate, Tight: tight&1 == 1, Tail: tight&2 == 2}
							for j := 0; j < m; j++ {
								vk := "int"
								if kinds>>uint(j)&1 == 1 {
									vk = "arr"
								}
								rv.Cells = append(rv.Cells, Cell{Kind: "def", VKind: vk, InObjStm: true})
							}
							c.Revs = append(c.Revs, rv)
						}
						for num := 0; num <= m+3; num++ {
							c.Program = append(c.Program, Op{"get", num}, Op{"deep", num})
						}
						mt := meta(c)
						mt.Labels = append(mt.Labels, "compact-object-stream")
						if !vr.One(t, "history", c, mt, checkCase) {
							return
						}
					}
				}
			}
		}
	}
	vr.Exhaustive(fmt.Sprintf("compact object streams (1-4 short members, tight/loose header and tail): %d files", cnt))
}

var _ = strings.Join

// ---------------------------------------------------------------------------
// check "objstmsize" (round 11): one object stream with very many members, reached through a cross-reference stream
// whose third field (the index inside the object stream for type-2 entries) is W3 bytes wide. Every member is the
// integer 7*num+1; whatever index a member has, the lookup by number returns it.

type BigCase struct {
	Members int  `json:"members"`
	W3      int  `json:"w3"`
	Flate   bool `json:"flate,omitempty"`
}

func init() { vr.Register("objstmsize", checkBig) }

func bigFile(c BigCase) []byte {
	const first = 10 // number of the first member
	var head, body bytes.Buffer
	for i := 0; i < c.Members; i++ {
		fmt.Fprintf(&head, "%d %d ", first+i, body.Len())
		fmt.Fprintf(&body, "%d ", 7*(first+i)+1)
	}
	payload := append(append([]byte{}, head.Bytes()...), body.Bytes()...)
	filter := ""
	if c.Flate {
		payload = filt.Zlib(payload, 6)
		filter = " /Filter /FlateDecode"
	}
	var f bytes.Buffer
	off := map[int]int{}
	f.WriteString("%PDF-1.5\n%\xe2\xe3\xcf\xd3\n")
	off[1] = f.Len()
	f.WriteString("1 0 obj\n<< /Type /Catalog /Pages 2 0 R >>\nendobj\n")
	off[2] = f.Len()
	f.WriteString("2 0 obj\n<< /Type /Pages /Kids [] /Count 0 >>\nendobj\n")
	off[3] = f.Len()
	fmt.Fprintf(&f, "3 0 obj\n<< /Type /ObjStm /N %d /First %d%s /Length %d >>\nstream\n", c.Members, head.Len(), filter, len(payload))
	f.Write(payload)
	f.WriteString("\nendstream\nendobj\n")
	off[4] = f.Len()
	var x bytes.Buffer
	put := func(typ, f1, f2 int) {
		x.WriteByte(byte(typ))
		for b := 3; b >= 0; b-- {
			x.WriteByte(byte(f1 >> (8 * uint(b))))
		}
		for b := c.W3 - 1; b >= 0; b-- {
			x.WriteByte(byte(f2 >> (8 * uint(b))))
		}
	}
	put(0, 0, 65535&(1<<(8*uint(c.W3))-1))
	for n := 1; n <= 4; n++ {
		put(1, off[n], 0)
	}
	for i := 0; i < c.Members; i++ {
		put(2, 3, i)
	}
	fmt.Fprintf(&f, "4 0 obj\n<< /Type /XRef /Size %d /Root 1 0 R /W [1 4 %d] /Index [0 5 %d %d] /Length %d >>\nstream\n", first+c.Members, c.W3, first, c.Members, x.Len())
	f.Write(x.Bytes())
	fmt.Fprintf(&f, "\nendstream\nendobj\nstartxref\n%d\n%%%%EOF\n", off[4])
	return f.Bytes()
}

func checkBig(c BigCase) error {
	if c.Members < 1 || c.W3 < 1 || c.W3 > 4 || c.Members > 1<<(8*uint(c.W3)) {
		return fmt.Errorf("not a case: %+v", c)
	}
	path := filepath.Join(tmpDir, fmt.Sprintf("big-%d-%d-%v.pdf", c.Members, c.W3, c.Flate))
	if err := os.WriteFile(path, bigFile(c), 0o644); err != nil {
		return err
	}
	defer os.Remove(path)
	r, err := reader.Open(path)
	if err != nil {
		return fmt.Errorf("reader.Open failed on a well-formed file (object stream with %d members, /W [1 4 %d]): %v", c.Members, c.W3, err)
	}
	defer r.Close()
	// members around every power of 256 the index crosses, the first and the last, forwards and then backwards
	var nums []int
	for _, i := range []int{0, 1, 254, 255, 256, 257, 65534, 65535, 65536, 65537, 65546, c.Members - 2, c.Members - 1} {
		if i >= 0 && i < c.Members {
			nums = append(nums, 10+i)
		}
	}
	for pass := 0; pass < 2; pass++ {
		for k := range nums {
			num := nums[k]
			if pass == 1 {
				num = nums[len(nums)-1-k]
			}
			got, err := r.GetObject(num)
			if err != nil {
				return fmt.Errorf("object %d (member %d of an object stream with %d members, /W [1 4 %d]): lookup failed: %v", num, num-10, c.Members, c.W3, err)
			}
			if v, ok := got.(core.Int); !ok || int(v) != 7*num+1 {
				return fmt.Errorf("object %d (member %d of an object stream with %d members, /W [1 4 %d]) = %v, want %d", num, num-10, c.Members, c.W3, got, 7*num+1)
			}
		}
		r.ClearCache()
	}
	return nil
}

// TestObjStmSize: a deterministic sweep (quick: 6 files, thorough: 14).
func TestObjStmSize(t *testing.T) {
	cases := []BigCase{{200, 1, false}, {300, 2, true}, {300, 3, false}, {65536, 2, true}, {65547, 3, true}, {65547, 4, false}}
	if vr.Thorough() {
		cases = append(cases, BigCase{256, 1, true}, BigCase{257, 2, false}, BigCase{65536, 3, false}, BigCase{65537, 3, true}, BigCase{70000, 4, true},
			BigCase{131080, 3, true}, BigCase{1, 1, false}, BigCase{2, 4, true})
	}
	for i, c := range cases {
		if !vr.Mine(i) {
			continue
		}
		m := vr.Meta{FP: fmt.Sprintf("big%v", c), NonTrivial: c.Members > 256, Labels: []string{"objstm-size", fmt.Sprintf("w3:%d", c.W3)}}
		if c.Members > 65536 {
			m.Labels = append(m.Labels, "objstm-index-above-65535")
		}
		if !vr.One(t, "objstmsize", c, m, checkBig) {
			return
		}
	}
}
