// C10 — Page selection and option chaining are algebraic; handles are released.
//
// Generator: a multi-page PDF whose pages carry unique marker words, and a
// history over a derivation tree of extractors: builder calls (Pages, PageRange,
// option toggles) deriving new nodes from existing ones at arbitrary moments,
// non-terminal operations (PageCount, IsMultiColumn, IsCharacterLevel),
// terminal operations (Text, Fragments, Document, Chunks) and Close, on good,
// missing, truncated and mis-named files.
//
// Oracle: (1) ground truth from the markers: a selection S yields exactly the
// pages of sorted(set(S)) in ascending order, out-of-range => error, page-level
// metadata names the true source page; (2) every result equals the result of a
// freshly built extractor with the same accumulated configuration (so nothing
// that ran on relatives matters); (3) /proc/self/fd accounting.
package c10

import (
	"encoding/json"
	"fmt"
	"os"
	"path/filepath"
	"reflect"
	"runtime/debug"
	"sort"
	"strings"
	"testing"

	"github.com/tsawler/tabula"
	"github.com/tsawler/tabula/reader"
	"pgregory.net/rapid"

	"verif/harness/gen/pdfw"
	"verif/harness/vr"
)

var tmpDir string

func TestMain(m *testing.M) {
	d, err := os.MkdirTemp("", "verif-c10-")
	if err != nil {
		fmt.Println("INFRA: cannot create temp dir:", err)
		os.Exit(3)
	}
	tmpDir = d
	vr.AtExit(func() { os.RemoveAll(d) })
	vr.Main(m)
}

type Call struct {
	Kind string `json:"kind"` // pages | range | opt
	List []int  `json:"list,omitempty"`
	A    int    `json:"a,omitempty"`
	B    int    `json:"b,omitempty"`
	Opt  string `json:"opt,omitempty"`
}

type Step struct {
	Op     string `json:"op"`   // derive | pagecount | ismulticolumn | ischarlevel | text | fragments | document | chunks | close
	Node   int    `json:"node"` // node operated on (derive: the node created)
	Parent int    `json:"parent,omitempty"`
	Call   *Call  `json:"call,omitempty"`
}

type Case struct {
	NPages int    `json:"npages"`
	File   string `json:"file"`            // ok | missing | truncated | wrongext
	Blank  []int  `json:"blank,omitempty"` // 1-based pages without any content (never all of them)
	// TwoCol: 1-based pages that carry, besides their markers, a block of 8 rows in two columns (22 fragments on the
	// page: laid out in columns, while the other pages are single-column)
	TwoCol []int  `json:"two_col,omitempty"`
	// Borrowed (good files only): node 0 is tabula.FromReader(r) on a reader the caller opened and closes itself;
	// no extractor may close it, every operation can be repeated, and nothing else is ever opened
	Borrowed bool   `json:"borrowed,omitempty"`
	// Bad: 1-based page whose content stream cannot be read (it ends inside a string); 0 = none. Operations whose
	// selection contains it are not judged (C02's business); every other selection is unaffected by it
	Bad int `json:"bad,omitempty"`
	Steps    []Step `json:"steps"`
}

func init() { vr.Register("tree", checkCase) }

var words = []string{"alpha", "bravo", "charlie", "delta", "echo", "foxtrot", "golf", "hotel"}

func marker(p int, which string) string { return words[p-1] + which } // p is 1-based

// pageWidth: every page has its own width, so that page-level metadata tells which source page it describes.
func pageWidth(p int) float64 { return float64(612 - 6*p) }

func (c Case) blank() map[int]bool {
	m := map[int]bool{}
	for _, p := range c.Blank {
		m[p] = true
	}
	return m
}

func buildPDF(n int, blank map[int]bool, twoCol ...int) []byte { return buildPDFBad(n, blank, 0, twoCol...) }

func buildPDFBad(n int, blank map[int]bool, bad int, twoCol ...int) []byte {
	cols := map[int]bool{}
	for _, p := range twoCol {
		cols[p] = true
	}
	doc := pdfw.Doc{Fonts: []pdfw.FontSpec{{Res: "F1", Kind: "t1win", Base: "Helvetica"}}}
	for p := 1; p <= n; p++ {
		pg := pdfw.Page{ID: p, MediaBox: [4]float64{0, 0, pageWidth(p), 792}}
		if blank[p] {
			doc.Pages = append(doc.Pages, pg)
			continue
		}
		// body band only (>= 100 pt from the page edges), positions differ from page to page
		for k, which := range []string{"top", "mid", "bot"} {
			txt := marker(p, which)
			pg.Lines = append(pg.Lines, pdfw.Line{Font: 0, Size: 12, X: float64(72 + 7*p), Y: float64(650 - 120*k - 11*p), Bytes: []byte(txt), Text: txt})
		}
		// a section title in large type: material for heading detection (Document().TableOfContents())
		ht := marker(p, "head")
		pg.Lines = append(pg.Lines, pdfw.Line{Font: 0, Size: 22, X: 72, Y: 688, Bytes: []byte(ht), Text: ht})
		// a running header on every page but the first (a cover page) and a numbered footer on every page, both in
		// the margin bands: material for the exclusion options. Whether tabula removes them is not judged here;
		// only that a selection behaves like the same pages of the whole document (composition clause).
		if p >= 2 {
			pg.Lines = append(pg.Lines, pdfw.Line{Font: 0, Size: 10, X: 72, Y: 770, Bytes: []byte(headerText), Text: headerText})
		}
		ft := footerText(p)
		pg.Lines = append(pg.Lines, pdfw.Line{Font: 0, Size: 10, X: 280, Y: 30, Bytes: []byte(ft), Text: ft})
		if cols[p] {
			for k := 0; k < 8; k++ {
				y := float64(520 - 11*p - 13*k)
				l, r := fmt.Sprintf("lw%dx%d", p, k), fmt.Sprintf("rw%dx%d", p, k)
				pg.Lines = append(pg.Lines, pdfw.Line{Font: 0, Size: 10, X: float64(72 + 7*p), Y: y, Bytes: []byte(l), Text: l},
					pdfw.Line{Font: 0, Size: 10, X: 350, Y: y, Bytes: []byte(r), Text: r})
			}
		}
		if p%2 == 1 {
			// the page ends with the graphics state changed and not restored (legal: it ends with the page)
			pg.Trailer = "1 0 0 1 13 -9 cm 3 Tc 80 Tz 17 TL"
		}
		if p == bad {
			pg.Trailer = "(a string that is never closed"
		}
		doc.Pages = append(doc.Pages, pg)
	}
	return pdfw.Write([]pdfw.Doc{doc}, pdfw.Layout{}).Bytes
}

const headerText = "Quarterly Report Draft"

func footerText(p int) string { return fmt.Sprintf("Page %d", p) }

func isColumnWord(s string) bool {
	return len(s) >= 5 && (s[:2] == "lw" || s[:2] == "rw") && s[2] >= '1' && s[2] <= '9' && strings.Contains(s, "x")
}

func isMarginal(s string) bool { return s == headerText || strings.HasPrefix(s, "Page ") }

// marginals reports, for every page whose markers occur in txt, whether the running header stands in front of
// the page's first marker (after the previous page's last marker) and whether its numbered footer occurs.
func marginals(txt string, n int) (hdr, ftr map[int]bool) {
	hdr, ftr = map[int]bool{}, map[int]bool{}
	prevEnd := 0
	for p := 1; p <= n; p++ {
		top := strings.Index(txt, marker(p, "top"))
		bot := strings.Index(txt, marker(p, "bot"))
		if top < 0 || bot < 0 || top < prevEnd {
			continue
		}
		hdr[p] = strings.Contains(txt[prevEnd:top], headerText)
		ftr[p] = strings.Contains(txt, footerText(p)+"\n") || strings.HasSuffix(strings.TrimSpace(txt), footerText(p)) || strings.Contains(txt, footerText(p)+" ")
		prevEnd = bot
	}
	return hdr, ftr
}

// ---- model of one node's accumulated configuration -------------------------------

type config struct {
	calls []Call
}

func (c config) selection(n int) (pages []int, outOfRange bool) {
	var acc []int
	for _, cl := range c.calls {
		switch cl.Kind {
		case "pages":
			acc = append(acc, cl.List...)
		case "range":
			for i := cl.A; i <= cl.B; i++ {
				acc = append(acc, i)
			}
		}
	}
	if len(acc) == 0 {
		for i := 1; i <= n; i++ {
			pages = append(pages, i)
		}
		return pages, false
	}
	seen := map[int]bool{}
	for _, p := range acc {
		if p < 1 || p > n {
			return nil, true
		}
		if !seen[p] {
			seen[p] = true
			pages = append(pages, p)
		}
	}
	sort.Ints(pages)
	return pages, false
}

// explicitEmpty reports whether the configuration requested pages but every request was an empty
// (reversed) range: the statement leaves that outcome open.
func (c config) explicitEmpty() bool {
	asked := false
	for _, cl := range c.calls {
		switch cl.Kind {
		case "pages":
			if len(cl.List) > 0 {
				return false
			}
		case "range":
			asked = true
			if cl.A <= cl.B {
				return false
			}
		}
	}
	return asked
}

func apply(e *tabula.Extractor, cl Call) *tabula.Extractor {
	switch cl.Kind {
	case "pages":
		return e.Pages(cl.List...)
	case "range":
		return e.PageRange(cl.A, cl.B)
	}
	switch cl.Opt {
	case "ExcludeHeaders":
		return e.ExcludeHeaders()
	case "ExcludeFooters":
		return e.ExcludeFooters()
	case "ExcludeHeadersAndFooters":
		return e.ExcludeHeadersAndFooters()
	case "JoinParagraphs":
		return e.JoinParagraphs()
	case "ByColumn":
		return e.ByColumn()
	case "PreserveLayout":
		return e.PreserveLayout()
	}
	return e
}

func fresh(path string, c config) *tabula.Extractor {
	e := tabula.Open(path)
	for _, cl := range c.calls {
		e = apply(e, cl)
	}
	return e
}

// nfd counts the open descriptors of this process that refer to files of the
// case directory (so unrelated descriptors of the runtime or the test harness
// cannot disturb the count).
func nfd(dir string) int {
	ents, err := os.ReadDir("/proc/self/fd")
	if err != nil {
		return -1
	}
	n := 0
	for _, e := range ents {
		if target, err := os.Readlink("/proc/self/fd/" + e.Name()); err == nil && strings.HasPrefix(target, dir) {
			n++
		}
	}
	return n
}

type result struct {
	Err   bool
	Value any
}

func run(e *tabula.Extractor, op string) result {
	switch op {
	case "pagecount":
		n, err := e.PageCount()
		return result{err != nil, n}
	case "ismulticolumn":
		b, err := e.IsMultiColumn()
		return result{err != nil, b}
	case "ischarlevel":
		b, err := e.IsCharacterLevel()
		return result{err != nil, b}
	case "text":
		s, _, err := e.Text()
		return result{err != nil, s}
	case "fragments":
		fr, _, err := e.Fragments()
		var out []string
		for _, f := range fr {
			out = append(out, fmt.Sprintf("%s@%.2f,%.2f", f.Text, f.X, f.Y))
		}
		return result{err != nil, out}
	case "document":
		d, _, err := e.Document()
		if err != nil || d == nil {
			return result{true, nil}
		}
		type pg struct {
			Number int
			Text   string
			Width  float64
			TOC    []string // "page|text" of the table-of-contents entries whose text lies on this page
		}
		var out []pg
		for _, p := range d.Pages {
			out = append(out, pg{Number: p.Number, Text: p.ExtractText(), Width: p.Width})
		}
		for _, e := range d.TableOfContents() {
			for i := range out {
				if strings.Contains(out[i].Text, strings.TrimSpace(e.Text)) && strings.TrimSpace(e.Text) != "" {
					out[i].TOC = append(out[i].TOC, fmt.Sprintf("%d|%s", e.Page, strings.TrimSpace(e.Text)))
				}
			}
		}
		return result{false, out}
	case "chunks":
		cc, _, err := e.Chunks()
		if err != nil || cc == nil {
			return result{true, nil}
		}
		type ch struct {
			Text       string
			Start, End int
		}
		var out []ch
		for _, c := range cc.Chunks {
			out = append(out, ch{c.Text, c.Metadata.PageStart, c.Metadata.PageEnd})
		}
		return result{false, out}
	}
	return result{}
}

func terminal(op string) bool {
	return op == "text" || op == "fragments" || op == "document" || op == "chunks"
}

func pagesIn(s string, n int) []int {
	var ps []int
	for p := 1; p <= n; p++ {
		if strings.Contains(s, words[p-1]) {
			ps = append(ps, p)
		}
	}
	return ps
}

// groundTruth checks a successful terminal result against the markers.
func groundTruth(op string, r result, selAll []int, n int, blank map[int]bool) error {
	js, _ := json.Marshal(r.Value)
	var sel []int // the selected pages that carry text
	for _, p := range selAll {
		if !blank[p] {
			sel = append(sel, p)
		}
	}
	switch op {
	case "text":
		s := r.Value.(string)
		if got := pagesIn(s, n); !reflect.DeepEqual(got, sel) {
			return fmt.Errorf("Text() shows pages %v, selection is %v", got, sel)
		}
		pos := -1
		for _, p := range sel {
			for _, which := range []string{"top", "mid", "bot"} {
				if strings.Count(s, marker(p, which)) != 1 {
					return fmt.Errorf("Text(): marker %s occurs %d times", marker(p, which), strings.Count(s, marker(p, which)))
				}
			}
			i := strings.Index(s, words[p-1])
			if i < pos {
				return fmt.Errorf("Text(): page %d appears before an earlier page", p)
			}
			pos = i
		}
	case "fragments":
		var want []string
		for _, p := range sel {
			for _, which := range []string{"top", "mid", "bot", "head"} {
				want = append(want, marker(p, which))
			}
		}
		var got []string
		for _, f := range r.Value.([]string) {
			// (the words of a two-column block are judged by the per-page clause below, not against the markers)
			if t := f[:strings.Index(f, "@")]; !isMarginal(t) && !isColumnWord(t) {
				got = append(got, t)
			}
		}
		if !reflect.DeepEqual(got, want) {
			return fmt.Errorf("Fragments() = %v, want %v", got, want)
		}
	case "document":
		var pgs []struct {
			Number int
			Text   string
			Width  float64
			TOC    []string
		}
		_ = json.Unmarshal(js, &pgs)
		if len(blank) > 0 {
			// one page per selected page: a page without content is a result too (an empty page with its
			// own number), so the pages of the document are the selection, one for one
			var nums []int
			for _, pg := range pgs {
				nums = append(nums, pg.Number)
			}
			if !reflect.DeepEqual(nums, selAll) {
				return fmt.Errorf("Document() has the pages %v, the selection is %v (blank pages %v)", nums, selAll, blank)
			}
			kept := pgs[:0:0]
			for _, pg := range pgs {
				if blank[pg.Number] {
					if got := pagesIn(pg.Text, n); len(got) > 0 {
						return fmt.Errorf("Document(): blank page %d holds text of pages %v", pg.Number, got)
					}
					continue
				}
				kept = append(kept, pg)
			}
			pgs = kept
		}
		if len(pgs) != len(sel) {
			return fmt.Errorf("Document() has %d pages, selection %v", len(pgs), sel)
		}
		for k, pg := range pgs {
			if got := pagesIn(pg.Text, n); !reflect.DeepEqual(got, []int{sel[k]}) {
				return fmt.Errorf("Document().Pages[%d] holds text of pages %v, want page %d", k, got, sel[k])
			}
			if pg.Number != sel[k] {
				return fmt.Errorf("Document().Pages[%d].Number = %d but its text is that of source page %d", k, pg.Number, sel[k])
			}
			for _, e := range pg.TOC {
				if !strings.HasPrefix(e, fmt.Sprintf("%d|", sel[k])) && strings.Contains(e, words[sel[k]-1]) {
					return fmt.Errorf("Document().TableOfContents() has the entry %q (page|text); its text stands on source page %d", e, sel[k])
				}
			}
			if pg.Width != pageWidth(sel[k]) {
				return fmt.Errorf("Document().Pages[%d] (source page %d) reports width %g, the page is %g wide", k, sel[k], pg.Width, pageWidth(sel[k]))
			}
		}
	case "chunks":
		var chs []struct {
			Text       string
			Start, End int
		}
		_ = json.Unmarshal(js, &chs)
		var all string
		for _, c := range chs {
			all += c.Text + "\n"
			ps := pagesIn(c.Text, n)
			if len(ps) == 0 {
				continue
			}
			if c.Start < ps[0] || c.End > ps[len(ps)-1] || c.Start > c.End {
				return fmt.Errorf("chunk with text of source pages %v reports PageStart=%d PageEnd=%d", ps, c.Start, c.End)
			}
		}
		if got := pagesIn(all, n); !reflect.DeepEqual(got, sel) {
			return fmt.Errorf("Chunks() cover pages %v, selection is %v", got, sel)
		}
	}
	return nil
}

func checkCase(c Case) error {
	dir, err := os.MkdirTemp(tmpDir, "case")
	if err != nil {
		return fmt.Errorf("INFRA: %v", err)
	}
	defer os.RemoveAll(dir)
	blank := c.blank()
	pdf := buildPDFBad(c.NPages, blank, c.Bad, c.TwoCol...)
	pageText := map[string]string{} // options + page -> Text() of that page alone
	path := filepath.Join(dir, "doc.pdf")
	switch c.File {
	case "missing":
	case "truncated":
		os.WriteFile(path, pdf[:len(pdf)*6/10], 0o644)
	case "wrongext":
		path = filepath.Join(dir, "doc.docx")
		os.WriteFile(path, pdf, 0o644)
	default:
		os.WriteFile(path, pdf, 0o644)
	}

	old := debug.SetGCPercent(-1) // a finalizer closing a leaked *os.File must not hide the leak
	defer debug.SetGCPercent(old)
	var borrowed *reader.Reader
	if c.Borrowed && c.File == "ok" {
		borrowed, err = reader.Open(path)
		if err != nil {
			return fmt.Errorf("reader.Open on a valid file: %v", err)
		}
		defer borrowed.Close()
	}
	base := nfd(dir) // (with the caller's own reader, if any)

	nodes := map[int]*tabula.Extractor{0: tabula.Open(path)}
	if borrowed != nil {
		nodes[0] = tabula.FromReader(borrowed)
	}
	confs := map[int]config{0: {}}
	session := map[int]bool{} // node holds a reader opened by a non-terminal operation
	open := func() int {
		k := 0
		for _, v := range session {
			if v {
				k++
			}
		}
		return k
	}
	for i, st := range c.Steps {
		where := fmt.Sprintf("step %d (%s on node %d)", i, st.Op, st.Node)
		if st.Op == "derive" {
			par, ok := nodes[st.Parent]
			if !ok || st.Call == nil {
				continue
			}
			nodes[st.Node] = apply(par, *st.Call)
			cf := config{calls: append(append([]Call{}, confs[st.Parent].calls...), *st.Call)}
			confs[st.Node] = cf
			// deriving must not change the parent: its configuration, as observable through a later
			// operation, is compared with a fresh twin below (every operation is).
			continue
		}
		e, ok := nodes[st.Node]
		if !ok {
			continue
		}
		if st.Op == "close" {
			e.Close()
			if err := e.Close(); err != nil {
				return fmt.Errorf("%s: second Close returned %v", where, err)
			}
			session[st.Node] = false
		} else {
			got := run(e, st.Op)
			cf := confs[st.Node]
			if terminal(st.Op) {
				session[st.Node] = false
			} else if (!got.Err || c.Bad > 0) && borrowed == nil {
				// (a non-terminal operation that fails on the unreadable page has opened the file all the same: the
				// session is pending until a terminal operation or Close)
				session[st.Node] = true
			}
			switch c.File {
			case "missing", "wrongext":
				if !got.Err {
					return fmt.Errorf("%s: succeeded on a %s file: %v", where, c.File, got.Value)
				}
			case "truncated":
				// results on damaged files are not judged here (C02); only handles are
			default:
				sel, oor := cf.selection(c.NPages)
				if st.Op == "pagecount" {
					if got.Err || got.Value.(int) != c.NPages {
						return fmt.Errorf("%s: PageCount = %v (err=%v), want %d", where, got.Value, got.Err, c.NPages)
					}
				}
				if terminal(st.Op) {
					switch {
					case oor:
						if !got.Err {
							return fmt.Errorf("%s: selection contains a page outside 1..%d but the operation succeeded", where, c.NPages)
						}
					case cf.explicitEmpty():
						// unspecified: all pages, nothing, or an error
					case c.Bad > 0 && containsInt(sel, c.Bad):
						// the selection holds the unreadable page: not judged here
					default:
						if got.Err {
							return fmt.Errorf("%s: failed for the valid selection %v", where, sel)
						}
						if err := groundTruth(st.Op, got, sel, c.NPages, blank); err != nil {
							return fmt.Errorf("%s (config %+v): %v", where, cf.calls, err)
						}
						// exactly the per-page results: without the exclusion options (which look at the whole document)
						// the text of a selection is the text of each of its pages alone, joined by one blank line;
						// pages without text contribute nothing, not even a separator
						if st.Op == "fragments" {
							// the fragments of a selection are the fragments of its pages read alone, one page after the
							// other (the options do not touch Fragments(); exclusion is judged by the composition clause)
							excl := false
							for _, cl := range cf.calls {
								excl = excl || (cl.Kind == "opt" && strings.HasPrefix(cl.Opt, "Exclude"))
							}
							if !excl {
								var want []string
								for _, p := range sel {
									k := fmt.Sprintf("frags:%d", p)
									if _, ok := pageText[k]; !ok {
										one := run(fresh(path, config{calls: []Call{{Kind: "pages", List: []int{p}}}}), "fragments")
										if one.Err {
											return fmt.Errorf("%s: Fragments() of page %d alone failed", where, p)
										}
										pageText[k] = strings.Join(one.Value.([]string), "\x00")
									}
									if pageText[k] != "" {
										want = append(want, strings.Split(pageText[k], "\x00")...)
									}
								}
								gotF, _ := got.Value.([]string)
								if strings.Join(gotF, "\x00") != strings.Join(want, "\x00") {
									return fmt.Errorf("%s (config %+v): Fragments() of the selection %v are not the fragments of its pages read alone:\n got  %.300q\n want %.300q", where, cf.calls, sel, gotF, want)
								}
							}
						}
						if st.Op == "text" {
							var optsOnly config
							key, excl := "", false
							for _, cl := range cf.calls {
								if cl.Kind == "opt" {
									optsOnly.calls = append(optsOnly.calls, cl)
									key += cl.Opt + ","
									excl = excl || strings.HasPrefix(cl.Opt, "Exclude")
								}
							}
							if !excl {
								var parts []string
								for _, p := range sel {
									k := fmt.Sprintf("%s%d", key, p)
									if _, ok := pageText[k]; !ok {
										one := config{calls: append(append([]Call{}, optsOnly.calls...), Call{Kind: "pages", List: []int{p}})}
										pt, _, perr := fresh(path, one).Text()
										if perr != nil {
											return fmt.Errorf("%s: Text() of page %d alone failed: %v", where, p, perr)
										}
										pageText[k] = pt
									}
									if pageText[k] != "" {
										parts = append(parts, pageText[k])
									}
								}
								_ = 0
								if want := strings.Join(parts, "\n\n"); got.Value.(string) != want {
									return fmt.Errorf("%s (config %+v, blank pages %v): Text() of the selection %v is not the per-page texts joined by a blank line:\n got  %q\n want %q", where, cf.calls, c.Blank, sel, got.Value, want)
								}
							}
						}
					}
				}
				// composition: with the same options, a selection shows each of its pages exactly as the whole
				// document shows that page (running header in front of it or not, numbered footer or not)
				if st.Op == "text" && !got.Err && !oor && !cf.explicitEmpty() {
					var optsOnly config
					for _, cl := range cf.calls {
						if cl.Kind == "opt" {
							optsOnly.calls = append(optsOnly.calls, cl)
						}
					}
					whole := fresh(path, optsOnly)
					wt, _, werr := whole.Text()
					if werr == nil {
						wh, wf := marginals(wt, c.NPages)
						gh, gf := marginals(got.Value.(string), c.NPages)
						for _, p := range sel {
							if _, ok := wh[p]; !ok {
								continue
							}
							if _, ok := gh[p]; !ok {
								continue
							}
							if gh[p] != wh[p] || gf[p] != wf[p] {
								return fmt.Errorf("%s (config %+v): page %d of the selection has header=%v footer=%v, the same page of the whole document (same options) has header=%v footer=%v",
									where, cf.calls, p, gh[p], gf[p], wh[p], wf[p])
							}
						}
					}
				}
				// independence of history: same answer as a fresh extractor with the same configuration
				tw := fresh(path, cf)
				want := run(tw, st.Op)
				tw.Close()
				if !reflect.DeepEqual(got, want) {
					return fmt.Errorf("%s: result differs from a fresh extractor with the same configuration %+v:\n got  %.300v\n want %.300v", where, cf.calls, got, want)
				}
			}
		}
		// handle accounting
		fds := nfd(dir)
		if o := open(); o == 0 && fds != base {
			return fmt.Errorf("%s: %d file descriptors open, baseline %d, and no extractor has a pending non-terminal session", where, fds, base)
		} else if fds > base+o {
			return fmt.Errorf("%s: %d file descriptors open, baseline %d + %d pending sessions", where, fds, base, o)
		}
	}
	ids := make([]int, 0, len(nodes))
	for id := range nodes {
		ids = append(ids, id)
	}
	sort.Ints(ids)
	for _, id := range ids {
		nodes[id].Close()
		if err := nodes[id].Close(); err != nil {
			return fmt.Errorf("final second Close of node %d returned %v", id, err)
		}
	}
	if fds := nfd(dir); fds != base {
		return fmt.Errorf("after closing every extractor %d file descriptors are open, baseline %d", fds, base)
	}
	if borrowed != nil {
		// "The caller is responsible for closing the reader": it is still the caller's, and usable
		if n, err := borrowed.PageCount(); err != nil || n != c.NPages {
			return fmt.Errorf("the reader given to FromReader reports %d pages (err=%v) after the extractors were used and closed, want %d", n, err, c.NPages)
		}
		if _, err := borrowed.GetPage(c.NPages - 1); err != nil {
			return fmt.Errorf("the reader given to FromReader cannot read its last page after the extractors were used and closed: %v", err)
		}
		borrowed.Close()
		if fds := nfd(dir); fds != base-1 {
			return fmt.Errorf("after the caller closed its reader %d file descriptors are open, want %d", fds, base-1)
		}
	}
	return nil
}

func containsInt(l []int, x int) bool {
	for _, v := range l {
		if v == x {
			return true
		}
	}
	return false
}

// ---- generator --------------------------------------------------------------------

var opts = []string{"ExcludeHeaders", "ExcludeFooters", "ExcludeHeadersAndFooters", "JoinParagraphs", "ByColumn", "PreserveLayout"}

func genCall(t *rapid.T, n int) Call {
	switch rapid.SampledFrom([]string{"pages", "pages", "range", "opt"}).Draw(t, "callKind") {
	case "pages":
		k := rapid.IntRange(1, 4).Draw(t, "k")
		var l []int
		for i := 0; i < k; i++ {
			p := rapid.IntRange(1, n).Draw(t, "p")
			if rapid.IntRange(0, 11).Draw(t, "oor") == 0 {
				p = rapid.SampledFrom([]int{0, -1, n + 1, n + 7}).Draw(t, "badPage")
			}
			l = append(l, p)
		}
		return Call{Kind: "pages", List: l}
	case "range":
		a := rapid.IntRange(1, n).Draw(t, "a")
		b := rapid.IntRange(1, n).Draw(t, "b")
		switch rapid.IntRange(0, 11).Draw(t, "oorRange") {
		case 0:
			b = n + rapid.IntRange(1, 3).Draw(t, "over")
		case 1:
			a = rapid.SampledFrom([]int{0, -1, -3}).Draw(t, "under") // a range that starts in front of the document
		}
		return Call{Kind: "range", A: a, B: b}
	}
	return Call{Kind: "opt", Opt: rapid.SampledFrom(opts).Draw(t, "opt")}
}

func genCase(t *rapid.T) Case {
	c := Case{NPages: rapid.IntRange(1, 8).Draw(t, "npages")}
	c.File = rapid.SampledFrom([]string{"ok", "ok", "ok", "ok", "ok", "ok", "missing", "truncated", "wrongext"}).Draw(t, "file")
	c.Borrowed = c.File == "ok" && rapid.IntRange(0, 3).Draw(t, "borrowed") == 0
	if c.File == "ok" && c.NPages >= 3 && rapid.IntRange(0, 4).Draw(t, "hasBadPage") == 0 {
		c.Bad = rapid.IntRange(1, c.NPages-1).Draw(t, "badPage") // a later page remains to be selected
	}
	if c.NPages >= 2 && rapid.IntRange(0, 2).Draw(t, "hasBlank") == 0 {
		for p := 1; p <= c.NPages; p++ {
			if rapid.IntRange(0, 2).Draw(t, "blank") == 0 && len(c.Blank) < c.NPages-1 {
				c.Blank = append(c.Blank, p)
			}
		}
	}
	if c.NPages >= 2 && rapid.IntRange(0, 3).Draw(t, "hasTwoCol") == 0 {
		isBlank := c.blank()
		for p := 1; p <= c.NPages; p++ {
			if !isBlank[p] && rapid.IntRange(0, 2).Draw(t, "twoCol") == 0 && len(c.TwoCol) < c.NPages-1 {
				c.TwoCol = append(c.TwoCol, p)
			}
		}
	}
	if rapid.IntRange(0, 2).Draw(t, "family") == 0 {
		// a family: one parent that already selected a range, several children derived from it one after the
		// other, and only then operations on all of them (siblings must not see each other's selections)
		a := rapid.IntRange(1, c.NPages).Draw(t, "a")
		b := rapid.IntRange(a, c.NPages).Draw(t, "b")
		c.Steps = append(c.Steps, Step{Op: "derive", Node: 1, Parent: 0, Call: &Call{Kind: "range", A: a, B: b}})
		kids := rapid.IntRange(2, 4).Draw(t, "kids")
		for k := 0; k < kids; k++ {
			var cl Call
			if rapid.IntRange(0, 3).Draw(t, "kidOpt") == 0 {
				cl = Call{Kind: "opt", Opt: rapid.SampledFrom(opts).Draw(t, "opt")}
			} else {
				cl = Call{Kind: "pages", List: []int{rapid.IntRange(1, c.NPages).Draw(t, "p")}}
			}
			c.Steps = append(c.Steps, Step{Op: "derive", Node: 2 + k, Parent: 1, Call: &cl})
		}
		order := rapid.Permutation([]int{1, 2, 3, 4, 5}[:kids+1]).Draw(t, "order")
		for _, nd := range order {
			c.Steps = append(c.Steps, Step{Op: rapid.SampledFrom([]string{"text", "fragments", "document", "chunks"}).Draw(t, "famOp"), Node: nd})
		}
		return c
	}
	nodes := 1
	ns := rapid.IntRange(2, 14).Draw(t, "steps")
	for i := 0; i < ns; i++ {
		op := rapid.SampledFrom([]string{"derive", "derive", "derive", "pagecount", "ismulticolumn", "ischarlevel",
			"text", "text", "fragments", "document", "chunks", "close"}).Draw(t, "op")
		if op == "derive" {
			cl := genCall(t, c.NPages)
			c.Steps = append(c.Steps, Step{Op: "derive", Node: nodes, Parent: rapid.IntRange(0, nodes-1).Draw(t, "parent"), Call: &cl})
			nodes++
			continue
		}
		c.Steps = append(c.Steps, Step{Op: op, Node: rapid.IntRange(0, nodes-1).Draw(t, "node")})
	}
	return c
}

func meta(c Case) vr.Meta {
	labels := []string{"file:" + c.File}
	nt := false
	used := map[int]int{}     // node -> number of operations run on it
	children := map[int]int{} // node -> derivations from it after it ran something
	for _, st := range c.Steps {
		switch st.Op {
		case "derive":
			if used[st.Parent] > 0 {
				children[st.Parent]++
				nt = true
				labels = append(labels, "derive-after-use")
			}
			if st.Call != nil {
				labels = append(labels, "call:"+st.Call.Kind)
				if st.Call.Kind == "pages" {
					s := append([]int{}, st.Call.List...)
					if !sort.IntsAreSorted(s) {
						nt = true
						labels = append(labels, "unsorted")
					}
					seen := map[int]bool{}
					for _, p := range s {
						if seen[p] {
							nt = true
							labels = append(labels, "duplicate")
						}
						seen[p] = true
						if p < 1 || p > c.NPages {
							nt = true
							labels = append(labels, "out-of-range")
						}
					}
				}
				if st.Call.Kind == "range" && st.Call.A > st.Call.B {
					labels = append(labels, "reversed-range")
				}
			}
		default:
			used[st.Node]++
			if used[st.Node] > 1 {
				nt = true
				labels = append(labels, "node-reused")
			}
			labels = append(labels, "op:"+st.Op)
		}
	}
	if c.File != "ok" {
		nt = true
	}
	if c.Borrowed {
		labels = append(labels, "from-reader")
	}
	if c.Bad > 0 {
		labels = append(labels, "one-page-unreadable")
	}
	if len(c.Blank) > 0 {
		labels = append(labels, "blank-pages")
		if c.Blank[0] == 1 {
			labels = append(labels, "blank-first-page")
		}
	}
	seen := map[string]bool{}
	var uniq []string
	for _, l := range labels {
		if !seen[l] {
			seen[l] = true
			uniq = append(uniq, l)
		}
	}
	js, _ := json.Marshal(c)
	return vr.Meta{FP: string(js), NonTrivial: nt, Labels: uniq}
}

func TestDerivationTrees(t *testing.T) {
	vr.Prop(t, "tree", vr.N(6000, 200000), genCase, meta, checkCase)
}
