package c07

// Which font decodes a string: the one the *current* resource dictionary names.
// A page and the Form XObjects it paints each have their own /Resources (ISO
// 32000-1 7.8.3, 8.10.1): inside a form its own /Font entries apply - also when
// they reuse a resource name of the page - and after the form the page's apply
// again. Every font here carries a ToUnicode CMap of its own, so the decoded
// text tells which font was used ("ToUnicode taking precedence over the
// encoding": all fonts share /BaseFont and have no /Encoding).
//
// Generated: fonts A (page), B (form), C (inner form) with disjoint target
// texts for the same codes; the form's names clash with the page's or not; the
// form has its own resources or none (then the page's apply inside it); forms
// nested; the form painted once or twice; strings shown before, inside, between
// and after the forms, each at its own position.

import (
	"fmt"
	"os"
	"path/filepath"
	"strings"
	"testing"

	"github.com/tsawler/tabula"
	"pgregory.net/rapid"

	"verif/harness/gen/pdfw"
	"verif/harness/gen/rawpdf"
	"verif/harness/vr"
)

type FSCase struct {
	Targets [3][]string `json:"targets"` // per font (A, B, C): texts of codes 0x41, 0x42, ...
	Clash   bool        `json:"clash"`   // forms name their font /F1 like the page (else /G1, /H1)
	OwnRes  bool        `json:"own_res"` // outer form has its own /Resources (else it uses the page's and font A)
	Nested  bool        `json:"nested"`  // outer form paints an inner form with font C
	Twice   bool        `json:"twice"`   // the page paints the outer form twice
	Shows   [][]int     `json:"shows"`   // code strings; the k-th show of the whole document uses Shows[k % len]
	// QSave: the page ends with q ... /F2 Tf ... Q followed by a string shown without a new Tf: the font is part of
	// the graphics state (ISO 32000-1 8.4.1, 9.3.1), so Q brings back /F1
	QSave    bool `json:"q_save,omitempty"`
	Indirect bool `json:"indirect"` // the page's /Resources and /Font dictionaries are indirect objects
}

func init() { vr.Register("formscope", checkFormScope) }

func (c FSCase) text(font int, codes []int) string {
	var sb strings.Builder
	for _, k := range codes {
		sb.WriteString(c.Targets[font][k])
	}
	return sb.String()
}

func hexOf(codes []int) string {
	var sb strings.Builder
	sb.WriteString("<")
	for _, k := range codes {
		fmt.Fprintf(&sb, "%02X", 0x41+k)
	}
	sb.WriteString(">")
	return sb.String()
}

// build returns the file and the expected texts in painting order.
func (c FSCase) build() ([]byte, []string) {
	type op struct {
		do    int // 0: show a string, 1: paint the outer form, 2: paint the inner form
		font  int
		res   string
		codes []int
		y     int
	}
	n, y := 0, 760
	show := func(font int, res string) op {
		codes := c.Shows[n%len(c.Shows)]
		n++
		y -= 24
		return op{font: font, res: res, codes: codes, y: y}
	}
	nameB, nameC := "G1", "H1"
	if c.Clash {
		nameB, nameC = "F1", "F1"
	}
	fontB := 1
	if !c.OwnRes {
		nameB, fontB = "F1", 0 // no resources of its own: the page's /F1 applies inside the form
	}
	pageOps := []op{show(0, "F1"), {do: 1}, show(0, "F1")}
	if c.Twice {
		pageOps = append(pageOps, op{do: 1}, show(0, "F1"))
	}
	if c.QSave {
		pageOps = append(pageOps, op{do: 3, codes: c.Shows[0], y: 100}, op{do: 4, codes: c.Shows[len(c.Shows)-1], y: 76})
	}
	outerOps := []op{show(fontB, nameB)}
	if c.Nested {
		outerOps = append(outerOps, op{do: 2}, show(fontB, nameB))
	}
	innerOps := []op{show(2, nameC)}
	render := func(ops []op) string {
		var sb strings.Builder
		for _, o := range ops {
			switch o.do {
			case 1:
				sb.WriteString("/X0 Do\n")
			case 2:
				sb.WriteString("/X1 Do\n")
			case 3: // another font inside q ... Q
				fmt.Fprintf(&sb, "q BT /F2 11 Tf 72 %d Td %s Tj ET Q\n", o.y, hexOf(o.codes))
			case 4: // no Tf: the font selected before the q is current again
				fmt.Fprintf(&sb, "BT 72 %d Td %s Tj ET\n", o.y, hexOf(o.codes))
			default:
				fmt.Fprintf(&sb, "BT /%s 11 Tf 72 %d Td %s Tj ET\n", o.res, o.y, hexOf(o.codes))
			}
		}
		return sb.String()
	}
	var want []string
	var paint func(ops []op)
	paint = func(ops []op) {
		for _, o := range ops {
			switch o.do {
			case 1:
				paint(outerOps)
			case 2:
				paint(innerOps)
			case 3:
				want = append(want, c.text(2, o.codes))
			case 4:
				want = append(want, c.text(0, o.codes))
			default:
				want = append(want, c.text(o.font, o.codes))
			}
		}
	}
	paint(pageOps)
	var page, outer, inner strings.Builder
	page.WriteString(render(pageOps))
	outer.WriteString(render(outerOps))
	inner.WriteString(render(innerOps))

	cm := func(font int) string {
		var ents []pdfw.MapEnt
		for k, t := range c.Targets[font] {
			ents = append(ents, pdfw.MapEnt{Code: 0x41 + k, Text: t})
		}
		return rawpdf.Stream("", string(pdfw.ToUnicodeCMap(ents, 1)))
	}
	fontObj := func(tu int) string {
		return fmt.Sprintf("<< /Type /Font /Subtype /Type1 /BaseFont /Helvetica /ToUnicode %d 0 R >>", tu)
	}
	o := map[int]string{
		1:  "<< /Type /Catalog /Pages 2 0 R >>",
		2:  "<< /Type /Pages /Kids [3 0 R] /Count 1 >>",
		4:  fontObj(14),
		5:  fontObj(15),
		6:  fontObj(16),
		14: cm(0), 15: cm(1), 16: cm(2),
		7: rawpdf.Stream("", page.String()),
	}
	res := "<< /Font << /F1 4 0 R /F2 6 0 R >> /XObject << /X0 8 0 R >> >>"
	if c.Indirect {
		o[20] = "<< /F1 4 0 R /F2 6 0 R >>"
		o[21] = "<< /Font 20 0 R /XObject << /X0 8 0 R >> >>"
		res = "21 0 R"
	}
	o[3] = "<< /Type /Page /Parent 2 0 R /MediaBox [0 0 612 792] /Resources " + res + " /Contents 7 0 R >>"
	formDict := "/Type /XObject /Subtype /Form /BBox [0 0 612 792]"
	if c.OwnRes {
		x := ""
		if c.Nested {
			x = " /XObject << /X1 9 0 R >>"
		}
		formDict += fmt.Sprintf(" /Resources << /Font << /%s 5 0 R >>%s >>", nameB, x)
	}
	o[8] = rawpdf.Stream(formDict, outer.String())
	if c.Nested {
		o[9] = rawpdf.Stream(fmt.Sprintf("/Type /XObject /Subtype /Form /BBox [0 0 612 792] /Resources << /Font << /%s 6 0 R >> >>", nameC), inner.String())
	}
	return rawpdf.Build(o, 1), want
}

func checkFormScope(c FSCase) error {
	data, want := c.build()
	dir, err := os.MkdirTemp("", "verif-c07f-")
	if err != nil {
		return fmt.Errorf("INFRA: %v", err)
	}
	defer os.RemoveAll(dir)
	path := filepath.Join(dir, "forms.pdf")
	if err := os.WriteFile(path, data, 0o644); err != nil {
		return fmt.Errorf("INFRA: %v", err)
	}
	frs, _, err := tabula.Open(path).Fragments()
	if err != nil {
		return fmt.Errorf("Fragments() failed on a well-formed PDF with Form XObjects: %v", err)
	}
	// a form painted twice shows the same strings at the same places: identical fragments may be reported once
	seen := map[string]bool{}
	var got, wantU []string
	for _, f := range frs {
		k := fmt.Sprintf("%s@%.0f", f.Text, f.Y)
		if !seen[k] {
			seen[k] = true
			got = append(got, f.Text)
		}
	}
	seenW := map[string]bool{}
	for _, w := range want {
		if !seenW[w] {
			seenW[w] = true
			wantU = append(wantU, w)
		}
	}
	gs := map[string]bool{}
	for _, g := range got {
		gs[g] = true
	}
	for i, w := range wantU {
		if !gs[w] {
			return fmt.Errorf("string %d of the page (content order) should decode to %q under the font its own resource dictionary names; fragments are %q (clash=%v own resources=%v nested=%v)", i+1, w, got, c.Clash, c.OwnRes, c.Nested)
		}
	}
	for _, g := range got {
		if !seenW[g] {
			return fmt.Errorf("fragment %q is no string of the document decoded by the font in scope; expected %q", g, wantU)
		}
	}
	return nil
}

func genFormScope(t *rapid.T) FSCase {
	var c FSCase
	pool := []string{"a", "e", "é", "Ω", "語", "ß", "x1", "ж", "ﬁ", "q"}
	n := rapid.IntRange(2, 5).Draw(t, "codes")
	for f := 0; f < 3; f++ {
		for k := 0; k < n; k++ {
			// the font's letter makes the three fonts' texts for one code different from each other
			c.Targets[f] = append(c.Targets[f], string(rune('A'+f))+rapid.SampledFrom(pool).Draw(t, "target"))
		}
	}
	c.Clash = rapid.Bool().Draw(t, "clash")
	c.OwnRes = rapid.IntRange(0, 3).Draw(t, "ownRes") > 0
	c.Nested = c.OwnRes && rapid.Bool().Draw(t, "nested")
	c.Twice = rapid.Bool().Draw(t, "twice")
	c.Indirect = rapid.Bool().Draw(t, "indirect")
	c.QSave = rapid.Bool().Draw(t, "qSave")
	ns := rapid.IntRange(3, 7).Draw(t, "shows")
	for i := 0; i < ns; i++ {
		var codes []int
		for j, m := 0, rapid.IntRange(1, 4).Draw(t, "len"); j < m; j++ {
			codes = append(codes, rapid.IntRange(0, n-1).Draw(t, "code"))
		}
		// make every shown string distinct (position in the list as a suffix pattern) so that texts identify shows
		c.Shows = append(c.Shows, codes)
	}
	return c
}

func metaFormScope(c FSCase) vr.Meta {
	l := []string{"formscope"}
	if c.Clash {
		l = append(l, "formscope:name-clash")
	}
	if !c.OwnRes {
		l = append(l, "formscope:form-without-resources")
	}
	if c.Nested {
		l = append(l, "formscope:nested")
	}
	if c.Twice {
		l = append(l, "formscope:painted-twice")
	}
	if c.QSave {
		l = append(l, "formscope:font-restored-by-Q")
	}
	return vr.Meta{FP: fmt.Sprintf("%+v", c), NonTrivial: c.Clash && c.OwnRes, Labels: l}
}

func TestFormScope(t *testing.T) {
	vr.Prop(t, "formscope", vr.N(1500, 40000), genFormScope, metaFormScope, checkFormScope)
}
