package c07

// Strings, not single codes: a simple font decodes code by code, so the text of
// a string is the texts of its codes one after the other (the single codes are
// judged against the reference tables by the exhaustive check). Routes:
//
//	table      font.GetEncoding(name).DecodeString
//	fontobj    one font.Font value whose public Encoding field is set to another encoding first, used, and then
//	           set to the encoding under test
//	type1name  a Type1 font dictionary with /Encoding /Name
//	type1dict  ... with /Encoding << /Type /Encoding [/BaseEncoding /Name] /Differences [...] >> where the
//	           differences name codes the string does not use; without /BaseEncoding a Type1 font that is not
//	           symbolic falls back to StandardEncoding (ISO 32000-1 Table 114)
//	truetypedict the same for TrueType, judged only with /BaseEncoding

import (
	"fmt"
	"testing"
	"unicode/utf16"

	"github.com/tsawler/tabula/core"
	"github.com/tsawler/tabula/font"
	"golang.org/x/text/unicode/norm"
	"pgregory.net/rapid"

	"verif/harness/vr"
)

type EncStrCase struct {
	Encoding string `json:"encoding"` // one of encodingNames
	Prev     string `json:"prev,omitempty"`
	Codes    []int  `json:"codes"`
	Route    string `json:"route"`
	NoBase   bool   `json:"no_base,omitempty"` // type1dict: /BaseEncoding absent (Encoding is then StandardEncoding)
	DiffAt   int    `json:"diff_at"`           // first code of the /Differences run (the string avoids DiffAt..DiffAt+1)
}

func init() { vr.Register("encstr", checkEncStr) }

func checkEncStr(c EncStrCase) error {
	data := make([]byte, len(c.Codes))
	for i, k := range c.Codes {
		data[i] = byte(k)
	}
	table := font.GetEncoding(c.Encoding)
	want := ""
	for _, b := range data {
		want += table.DecodeString([]byte{b})
	}
	want = norm.NFC.String(want)
	var got string
	switch c.Route {
	case "table":
		got = table.DecodeString(data)
	case "fontobj":
		f := font.NewFont("/F1", "Helvetica", "Type1")
		f.Encoding = c.Prev
		_ = f.DecodeString(data)
		f.Encoding = c.Encoding
		got = f.DecodeString(data)
	case "type1name", "type1dict", "truetypedict":
		dict := core.Dict{"Type": core.Name("Font"), "BaseFont": core.Name("Helvetica")}
		if c.Route == "type1name" {
			dict["Encoding"] = core.Name(c.Encoding)
		} else {
			enc := core.Dict{"Type": core.Name("Encoding"),
				"Differences": core.Array{core.Int(c.DiffAt), core.Name("Euro"), core.Name("fi")}}
			if !c.NoBase {
				enc["BaseEncoding"] = core.Name(c.Encoding)
			}
			dict["Encoding"] = enc
		}
		resolver := func(r core.IndirectRef) (core.Object, error) { return nil, fmt.Errorf("no object %d", r.Number) }
		var f *font.Font
		if c.Route == "truetypedict" {
			dict["Subtype"] = core.Name("TrueType")
			tt, err := font.NewTrueTypeFont(dict, resolver)
			if err != nil {
				return fmt.Errorf("NewTrueTypeFont: %v", err)
			}
			f = tt.Font
		} else {
			dict["Subtype"] = core.Name("Type1")
			t1, err := font.NewType1Font(dict, resolver)
			if err != nil {
				return fmt.Errorf("NewType1Font: %v", err)
			}
			f = t1.Font
		}
		got = f.DecodeString(data)
	default:
		return fmt.Errorf("generator bug: route %q", c.Route)
	}
	if c.Route != "table" && hasBOM(data) {
		// Font.DecodeString ranks a UTF-16 byte-order mark above the named encoding (the documented
		// priority), so a code string that happens to start with FE FF or FF FE is UTF-16 text.
		if err := goodText("Font.DecodeString", got); err != nil {
			return fmt.Errorf("%s via %s: <% x>: %v", c.Encoding, c.Route, data, err)
		}
		if ref, ok := refUTF16(data); ok && got != nfc(ref) {
			return fmt.Errorf("%s via %s: <% x> starts with a byte-order mark and decodes to %+q, want the UTF-16 text %+q", c.Encoding, c.Route, data, got, ref)
		}
		return nil
	}
	if norm.NFC.String(got) != want {
		return fmt.Errorf("%s via %s (previous encoding %q, base absent %v): <% x> decodes to %+q, the codes one by one give %+q", c.Encoding, c.Route, c.Prev, c.NoBase, data, got, want)
	}
	return nil
}

func hasBOM(data []byte) bool {
	return len(data) >= 2 && (data[0] == 0xFE && data[1] == 0xFF || data[0] == 0xFF && data[1] == 0xFE)
}

// refUTF16 decodes the code units after the byte-order mark; ok is false when they are not well-formed
// UTF-16 (odd length, lone surrogate), for which only valid UTF-8 in NFC is demanded.
func refUTF16(data []byte) (string, bool) {
	body := data[2:]
	if len(body)%2 != 0 {
		return "", false
	}
	units := make([]uint16, 0, len(body)/2)
	for i := 0; i+1 < len(body); i += 2 {
		if data[0] == 0xFE {
			units = append(units, uint16(body[i])<<8|uint16(body[i+1]))
		} else {
			units = append(units, uint16(body[i+1])<<8|uint16(body[i]))
		}
	}
	for i := 0; i < len(units); i++ {
		switch u := units[i]; {
		case u >= 0xD800 && u <= 0xDBFF:
			if i+1 >= len(units) || units[i+1] < 0xDC00 || units[i+1] > 0xDFFF {
				return "", false
			}
			i++
		case u >= 0xDC00 && u <= 0xDFFF:
			return "", false
		}
	}
	return string(utf16.Decode(units)), true
}

func genEncStr(t *rapid.T) EncStrCase {
	c := EncStrCase{Route: rapid.SampledFrom([]string{"table", "table", "fontobj", "type1name", "type1dict", "type1dict", "truetypedict"}).Draw(t, "route")}
	c.Encoding = rapid.SampledFrom(encodingNames).Draw(t, "encoding")
	c.Prev = rapid.SampledFrom(encodingNames).Draw(t, "prev")
	c.DiffAt = rapid.SampledFrom([]int{0x80, 0x18, 0xA0, 0x7E}).Draw(t, "diffAt")
	switch c.Route {
	case "type1dict":
		// the named encodings a font dictionary may use as /BaseEncoding (Table 114) plus "absent"
		c.Encoding = rapid.SampledFrom([]string{"WinAnsiEncoding", "MacRomanEncoding", "StandardEncoding"}).Draw(t, "base")
		if rapid.IntRange(0, 2).Draw(t, "noBase") == 0 {
			c.NoBase, c.Encoding = true, "StandardEncoding"
		}
	case "truetypedict", "type1name":
		c.Encoding = rapid.SampledFrom([]string{"WinAnsiEncoding", "MacRomanEncoding", "StandardEncoding"}).Draw(t, "base")
	}
	n := rapid.IntRange(2, 10).Draw(t, "len")
	for len(c.Codes) < n {
		// printable ASCII, the upper half, and the codes that are undefined in one encoding or another
		k := rapid.SampledFrom([]int{0x41, 0x27, 0x60, 0x7F, 0x81, 0x8D, 0x90, 0x9D, 0xA0, 0xAD, 0xAE, 0xAF, 0x01, 0x1F, 0xFF,
			rapid.IntRange(0x20, 0x7E).Draw(t, "ascii"), rapid.IntRange(0x80, 0xFF).Draw(t, "high"), rapid.IntRange(0, 255).Draw(t, "any")}).Draw(t, "code")
		if k == c.DiffAt || k == c.DiffAt+1 {
			continue
		}
		c.Codes = append(c.Codes, k)
	}
	return c
}

func metaEncStr(c EncStrCase) vr.Meta {
	l := []string{"encstr:" + c.Route, "encstr:" + c.Encoding}
	undefined := false
	for _, k := range c.Codes {
		if font.GetEncoding(c.Encoding).DecodeString([]byte{byte(k)}) == "" {
			undefined = true
		}
	}
	if undefined {
		l = append(l, "encstr:undefined-code-inside")
	}
	if c.NoBase {
		l = append(l, "encstr:no-base-encoding")
	}
	if len(c.Codes) >= 2 && hasBOM([]byte{byte(c.Codes[0]), byte(c.Codes[1])}) {
		l = append(l, "encstr:bom-prefix")
	}
	return vr.Meta{FP: fmt.Sprintf("%+v", c), NonTrivial: undefined || c.Route != "table", Labels: l}
}

func TestEncodingStrings(t *testing.T) {
	vr.Prop(t, "encstr", vr.N(3000, 80000), genEncStr, metaEncStr, checkEncStr)
}
