package c07

// /Differences arrays (ISO 32000-1 9.6.6.1): "[code1 name1,1 name1,2 ... code2 name2,1 ...]": each name is the
// glyph of the next code, starting at the code in front of the run - whatever the names are. A name outside the
// library's glyph list (.notdef, a subset font's private g37) still occupies its code: the names behind it keep
// theirs. Judged: codes with a name of the standard Latin character set (independent Adobe Glyph List) and codes
// the array does not mention (the base encoding). Not judged: what a code with an unknown name decodes to.

import (
	"fmt"
	"sort"
	"sync"
	"testing"

	"github.com/tsawler/tabula/core"
	"github.com/tsawler/tabula/font"
	"pgregory.net/rapid"

	"verif/harness/vr"
)

type DiffRun struct {
	At    int      `json:"at"`
	Names []string `json:"names"`
}

type DiffCase struct {
	Base     string    `json:"base"` // WinAnsiEncoding | MacRomanEncoding | StandardEncoding | "" (absent: StandardEncoding for a non-symbolic Type1 font)
	TrueType bool      `json:"truetype,omitempty"`
	Runs     []DiffRun `json:"runs"`
	Codes    []int     `json:"codes"`
}

var (
	latinOnce  sync.Once
	latinNames []string
)

// latin: the glyph names of the standard Latin character set (ref is filled by an init function, so not earlier)
func latin() []string {
	latinOnce.Do(func() { latinNames = latinList() })
	return latinNames
}

func latinList() []string {
	seen := map[string]bool{}
	for _, tab := range [][]string{ref.Standard, ref.WinAnsi, ref.MacRoman} {
		for _, n := range tab {
			if _, ok := ref.Glyphs[n]; ok && n != "" {
				seen[n] = true
			}
		}
	}
	var out []string
	for n := range seen {
		out = append(out, n)
	}
	sort.Strings(out)
	return out
}

// pristine holds what every code of the named encodings decoded to before any font was built in this process.
var pristine = func() map[string][256]string {
	m := map[string][256]string{}
	for _, name := range []string{"WinAnsiEncoding", "MacRomanEncoding", "StandardEncoding", "PDFDocEncoding", "SymbolEncoding", "ZapfDingbatsEncoding"} {
		var t [256]string
		for k := 0; k < 256; k++ {
			t[k] = font.GetEncoding(name).DecodeString([]byte{byte(k)})
		}
		m[name] = t
	}
	return m
}()

var unknownNames = []string{".notdef", "g37", "glyph00012", "cid4711", "G0A", "nonexistentglyphname"}

func (c DiffCase) assigned() map[int]string {
	m := map[int]string{}
	for _, r := range c.Runs {
		for i, n := range r.Names {
			if r.At+i <= 255 {
				m[r.At+i] = n
			}
		}
	}
	return m
}

func checkDifferences(c DiffCase) error {
	arr := core.Array{}
	for _, r := range c.Runs {
		arr = append(arr, core.Int(r.At))
		for _, n := range r.Names {
			arr = append(arr, core.Name(n))
		}
	}
	enc := core.Dict{"Type": core.Name("Encoding"), "Differences": arr}
	base := c.Base
	if base != "" {
		enc["BaseEncoding"] = core.Name(base)
	} else {
		base = "StandardEncoding"
	}
	dict := core.Dict{"Type": core.Name("Font"), "BaseFont": core.Name("Helvetica"), "Encoding": enc}
	resolver := func(r core.IndirectRef) (core.Object, error) { return nil, fmt.Errorf("no object %d", r.Number) }
	var f *font.Font
	if c.TrueType {
		dict["Subtype"] = core.Name("TrueType")
		tt, err := font.NewTrueTypeFont(dict, resolver)
		if err != nil {
			return fmt.Errorf("NewTrueTypeFont: %v", err)
		}
		f = tt.Font
	} else {
		dict["Subtype"] = core.Name("Type1")
		t1, err := font.NewType1Font(dict, resolver)
		if err != nil {
			return fmt.Errorf("NewType1Font: %v", err)
		}
		f = t1.Font
	}
	names := c.assigned()
	table := font.GetEncoding(base)
	for _, k := range c.Codes {
		got := f.DecodeString([]byte{byte(k)})
		n, ok := names[k]
		switch {
		case !ok:
			if want := nfc(table.DecodeString([]byte{byte(k)})); got != want {
				return fmt.Errorf("code %#02x is not in /Differences %v and decodes to %+q; %s says %+q", k, arr, got, base, want)
			}
		case ref.Glyphs[n] != 0 && isLatinName(n):
			if want := nfc(string(rune(ref.Glyphs[n]))); got != want {
				return fmt.Errorf("code %#02x is /%s in /Differences %v (base %s) and decodes to %+q, want %+q", k, n, arr, base, got, want)
			}
		default:
			if err := goodText("Font.DecodeString", got); err != nil {
				return err
			}
		}
	}
	// the font's own re-assignments are the font's: the named encoding every other font shares still decodes as
	// it did when the process started
	for k := range names {
		if got, want := font.GetEncoding(base).DecodeString([]byte{byte(k)}), pristine[base][k]; got != want {
			return fmt.Errorf("after a font with /Differences %v was built on %s, the named encoding itself decodes %#02x as %+q (it was %+q when the process started)", arr, base, k, got, want)
		}
	}
	// the whole string decodes as its codes do, one after the other
	if len(c.Codes) >= 2 && !(c.Codes[0] == 0xFE && c.Codes[1] == 0xFF) && !(c.Codes[0] == 0xFF && c.Codes[1] == 0xFE) {
		data := make([]byte, len(c.Codes))
		want := ""
		for i, k := range c.Codes {
			data[i] = byte(k)
			want += f.DecodeString([]byte{byte(k)})
		}
		if got := f.DecodeString(data); got != nfc(want) {
			return fmt.Errorf("<% x> decodes to %+q, its codes one by one to %+q", data, got, want)
		}
	}
	return nil
}

func isLatinName(n string) bool {
	l := latin()
	i := sort.SearchStrings(l, n)
	return i < len(l) && l[i] == n
}

func genDifferences(t *rapid.T) DiffCase {
	c := DiffCase{Base: rapid.SampledFrom([]string{"WinAnsiEncoding", "MacRomanEncoding", "StandardEncoding", ""}).Draw(t, "base")}
	c.TrueType = c.Base != "" && rapid.Bool().Draw(t, "truetype")
	next := 0
	for i, n := 0, rapid.IntRange(1, 3).Draw(t, "runs"); i < n && next < 250; i++ {
		r := DiffRun{At: rapid.IntRange(next, 250).Draw(t, "at")}
		for j, m := 0, rapid.IntRange(1, 6).Draw(t, "names"); j < m && r.At+j <= 255; j++ {
			if rapid.IntRange(0, 3).Draw(t, "unknown") == 0 {
				r.Names = append(r.Names, rapid.SampledFrom(unknownNames).Draw(t, "unknownName"))
			} else {
				r.Names = append(r.Names, rapid.SampledFrom(latin()).Draw(t, "name"))
			}
		}
		next = r.At + len(r.Names)
		c.Runs = append(c.Runs, r)
	}
	// the codes of the runs, their neighbours, and a few others
	for _, r := range c.Runs {
		for k := r.At - 1; k <= r.At+len(r.Names); k++ {
			if k >= 0 && k <= 255 {
				c.Codes = append(c.Codes, k)
			}
		}
	}
	c.Codes = append(c.Codes, rapid.SliceOfN(rapid.IntRange(0x20, 0xFF), 0, 4).Draw(t, "others")...)
	return c
}

func metaDifferences(c DiffCase) vr.Meta {
	l := []string{"differences:base=" + c.Base}
	if c.TrueType {
		l = append(l, "differences:truetype")
	}
	after := false
	for _, r := range c.Runs {
		seenUnknown := false
		for _, n := range r.Names {
			if !isLatinName(n) {
				seenUnknown = true
			} else if seenUnknown {
				after = true
			}
		}
	}
	if after {
		l = append(l, "differences:known-name-behind-unknown-name")
	}
	if len(c.Runs) > 1 {
		l = append(l, "differences:several-runs")
	}
	return vr.Meta{FP: fmt.Sprintf("%+v", c), NonTrivial: true, Labels: l}
}

func init() { vr.Register("differences", checkDifferences) }

func TestDifferences(t *testing.T) {
	vr.Prop(t, "differences", vr.N(3000, 60000), genDifferences, metaDifferences, checkDifferences)
}
