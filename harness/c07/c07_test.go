// C07 — Character codes decode to the Unicode the font specifies.
//
//	(a) tables:  all 256 codes x 6 named encodings against reference tables that
//	             are independent of tabula (Mozilla pdf.js 2.14.305 glyph arrays +
//	             Adobe Glyph List + ZapfDingbats list + PDFDocEncoding table;
//	             golang.org/x/text charmap as a second reference)      — exhaustive
//	(b) cmap:    random code->text maps written as ToUnicode CMap programs by
//	             gen/cmapw under a random typography; ParseToUnicodeCMap +
//	             LookupString, Font.DecodeString (ToUnicode beats /Encoding),
//	             and the fragment text of text.Extractor must give the texts
//	(c) utf16:   valid Unicode strings as UTF-16BE/LE with a byte-order mark
//	(d) utf8nfc: arbitrary bytes through arbitrary font configurations: output
//	             is valid UTF-8 in normal form C
package c07

import (
	_ "embed"
	"encoding/json"
	"fmt"
	"sort"
	"strings"
	"testing"
	"unicode/utf16"
	"unicode/utf8"

	"github.com/tsawler/tabula/core"
	"github.com/tsawler/tabula/font"
	"github.com/tsawler/tabula/text"
	"golang.org/x/text/encoding/charmap"
	"golang.org/x/text/unicode/norm"
	"pgregory.net/rapid"

	"verif/harness/gen/cmapw"
	"verif/harness/gen/filt"
	"verif/harness/gen/pdfsyn"
	"verif/harness/vr"
)

func TestMain(m *testing.M) { vr.Main(m) }

// ---------------------------------------------------------------------------
// (a) reference tables

//go:embed pdfjs_encodings.json
var refJSON []byte

type refData struct {
	Standard []string       `json:"StandardEncoding"`
	WinAnsi  []string       `json:"WinAnsiEncoding"`
	MacRoman []string       `json:"MacRomanEncoding"`
	Symbol   []string       `json:"SymbolSetEncoding"`
	Zapf     []string       `json:"ZapfDingbatsEncoding"`
	Glyphs   map[string]int `json:"glyphs"`   // Adobe Glyph List
	Dingbats map[string]int `json:"dingbats"` // ZapfDingbats glyph list
	PDFDoc   []int          `json:"pdfdoc"`   // PDFStringTranslateTable: 0 = code maps to itself
}

var ref refData

func init() {
	if err := json.Unmarshal(refJSON, &ref); err != nil {
		panic("c07: embedded reference data: " + err.Error())
	}
}

var encodingNames = []string{"WinAnsiEncoding", "MacRomanEncoding", "PDFDocEncoding", "StandardEncoding", "SymbolEncoding", "ZapfDingbatsEncoding"}

// cell is the verdict of the reference tables for one (encoding, code).
type cell struct {
	Accept []string // NFC forms of the acceptable decodings; empty = unchecked
	Why    string   // provenance or the reason the cell is unchecked
}

func isPUA(r rune) bool { return r >= 0xE000 && r <= 0xF8FF }

// ISO 32000-1 Table D.2 footnote: in WinAnsiEncoding the unused codes above
// 40 (octal) are shown as bullets by convention but are not assigned; only 225
// (octal) is the bullet. pdf.js spells the convention out; the cells stay
// undefined.
var winAnsiUnused = map[int]bool{0x7F: true, 0x81: true, 0x8D: true, 0x8F: true, 0x90: true, 0x9D: true}

// Greek letter / symbol duals (DESIGN C07 rule 4): the Adobe Glyph List maps
// the glyph names Delta, Omega and mu to the symbol code points U+2206, U+2126
// and U+00B5; the Greek letters U+0394, U+03A9 and U+03BC are the same glyphs
// and equally good text.
var greekDual = map[string]rune{"Delta": 0x0394, "Omega": 0x03A9, "mu": 0x03BC}

func refCell(enc string, code int) cell {
	nfc := func(r rune) string { return norm.NFC.String(string(r)) }
	var names []string
	glyphs := ref.Glyphs
	var second *charmap.Charmap
	switch enc {
	case "PDFDocEncoding":
		// ISO 32000-1 Annex D.3: 0x00-0x17 are control codes of which only HT,
		// LF and CR are text; 0x7F, 0x9F and 0xAD are undefined.
		if code < 0x18 && code != 0x09 && code != 0x0A && code != 0x0D {
			return cell{Why: "control code without defined text"}
		}
		if code == 0x7F || code == 0x9F || code == 0xAD {
			return cell{Why: "undefined in PDFDocEncoding"}
		}
		u := code
		if code < len(ref.PDFDoc) && ref.PDFDoc[code] != 0 {
			u = ref.PDFDoc[code]
		}
		return cell{Accept: []string{nfc(rune(u))}, Why: "pdf.js PDFStringTranslateTable"}
	case "WinAnsiEncoding":
		names, second = ref.WinAnsi, charmap.Windows1252
		if winAnsiUnused[code] {
			return cell{Why: "unused code (Table D.2 footnote)"}
		}
	case "MacRomanEncoding":
		names, second = ref.MacRoman, charmap.Macintosh
	case "StandardEncoding":
		names = ref.Standard
	case "SymbolEncoding":
		names = ref.Symbol
	case "ZapfDingbatsEncoding":
		names, glyphs = ref.Zapf, ref.Dingbats
	default:
		return cell{Why: "no reference"}
	}
	name := names[code]
	if name == "" {
		return cell{Why: "undefined in the encoding"} // rule 1
	}
	u, ok := glyphs[name]
	if !ok {
		return cell{Why: "glyph name " + name + " not in the glyph list"}
	}
	if isPUA(rune(u)) {
		return cell{Why: "glyph list maps " + name + " to the private use area"} // rule 2
	}
	acc := map[string]bool{nfc(rune(u)): true} // rule 3: compare after NFC
	if g, ok := greekDual[name]; ok {
		acc[nfc(g)] = true // rule 4
	}
	if second != nil { // rule 5
		if r := second.DecodeByte(byte(code)); r != utf8.RuneError && !isPUA(r) && r >= 0x20 {
			acc[nfc(r)] = true
		}
	}
	var out []string
	for s := range acc {
		out = append(out, s)
	}
	sort.Strings(out)
	return cell{Accept: out, Why: "pdf.js glyph name " + name}
}

type TableCase struct {
	Encoding string `json:"encoding"`
	Code     int    `json:"code"`
}

func checkTable(c TableCase) error {
	rc := refCell(c.Encoding, c.Code)
	got := font.GetEncoding(c.Encoding).DecodeString([]byte{byte(c.Code)})
	if !utf8.ValidString(got) {
		return fmt.Errorf("%s 0x%02X decodes to invalid UTF-8 %q", c.Encoding, c.Code, got)
	}
	if len(rc.Accept) == 0 {
		return nil // unchecked cell
	}
	g := norm.NFC.String(got)
	for _, a := range rc.Accept {
		if g == a {
			return nil
		}
	}
	return fmt.Errorf("%s 0x%02X decodes to %+q, reference (%s) says %+q", c.Encoding, c.Code, got, rc.Why, rc.Accept)
}

func TestTables(t *testing.T) {
	i := 0
	for _, enc := range encodingNames {
		for code := 0; code < 256; code++ {
			i++
			if !vr.Mine(i) {
				continue
			}
			c := TableCase{enc, code}
			rc := refCell(enc, code)
			state := "cell:unchecked"
			switch {
			case len(rc.Accept) == 1:
				state = "cell:strict"
			case len(rc.Accept) > 1:
				state = "cell:accept-set"
			}
			m := vr.Meta{FP: fmt.Sprintf("%s|%d", enc, code), NonTrivial: len(rc.Accept) > 0, Labels: []string{state, "enc:" + enc}}
			if !vr.One(t, "table", c, m, checkTable) {
				// keep going: every wrong cell is reported
				continue
			}
		}
	}
	vr.Exhaustive("256 codes x 6 named simple-font encodings (defined, non-PUA reference cells)")
}

// ---------------------------------------------------------------------------
// fonts built the way a PDF specifies them

type FontSpec struct {
	Via      string `json:"via"`      // "plain" (font.NewFont + parsed CMap) | "type1" | "truetype" | "type0"
	Encoding string `json:"encoding"` // /Encoding name; "" = entry absent
	Indirect bool   `json:"indirect"` // /ToUnicode given as an indirect reference
	Flate    bool   `json:"flate"`    // the CMap stream is Flate-compressed
	// Program (type1, truetype): the font descriptor embeds a font program the library cannot use - "lzw": the
	// stream is LZW-compressed (legal; not implemented), "short": twelve bytes, "nohead": a table directory
	// without a head table, "missing": the reference resolves to nothing. What the codes mean is said by
	// ToUnicode (or the encoding), not by the program.
	Program string `json:"program,omitempty"`
}

func cmapStream(prog []byte, flate bool) *core.Stream {
	d := core.Dict{}
	data := prog
	if flate {
		data = filt.Zlib(prog, 6)
		d["Filter"] = core.Name("FlateDecode")
	}
	d["Length"] = core.Int(len(data))
	return &core.Stream{Dict: d, Data: data}
}

// buildFont returns the *font.Font tabula derives from the font dictionary.
func buildFont(fs FontSpec, prog []byte) (*font.Font, error) {
	var objs = map[int]core.Object{}
	resolver := func(r core.IndirectRef) (core.Object, error) {
		if o, ok := objs[r.Number]; ok {
			return o, nil
		}
		return nil, fmt.Errorf("no object %d", r.Number)
	}
	dict := core.Dict{"Type": core.Name("Font"), "BaseFont": core.Name("ABCDEF+Custom")}
	if fs.Encoding != "" {
		dict["Encoding"] = core.Name(fs.Encoding)
	}
	if prog != nil {
		st := cmapStream(prog, fs.Flate)
		if fs.Indirect {
			objs[9] = st
			dict["ToUnicode"] = core.IndirectRef{Number: 9}
		} else {
			dict["ToUnicode"] = st
		}
	}
	if fs.Program != "" && (fs.Via == "type1" || fs.Via == "truetype") {
		var st *core.Stream
		switch fs.Program {
		case "lzw":
			st = &core.Stream{Dict: core.Dict{"Filter": core.Name("LZWDecode"), "Length": core.Int(9), "Length1": core.Int(100)}, Data: []byte{0x80, 0x0B, 0x60, 0x50, 0x22, 0x0C, 0x0C, 0x85, 0x01}}
		case "short":
			st = &core.Stream{Dict: core.Dict{"Length": core.Int(12), "Length1": core.Int(12)}, Data: []byte("\x00\x01\x00\x00\x00\x00\x00\x00\x00\x00\x00\x00")}
		case "nohead":
			// sfnt version 1.0, one table ("cvt "), no head/cmap
			data := []byte("\x00\x01\x00\x00\x00\x01\x00\x10\x00\x00\x00\x00cvt \x00\x00\x00\x00\x00\x00\x00\x1c\x00\x00\x00\x04\x00\x00\x00\x00")
			st = &core.Stream{Dict: core.Dict{"Length": core.Int(len(data)), "Length1": core.Int(len(data))}, Data: data}
		}
		if st != nil {
			objs[8] = st
		}
		key := "FontFile2"
		if fs.Via == "type1" {
			key = "FontFile"
		}
		dict["FontDescriptor"] = core.Dict{"Type": core.Name("FontDescriptor"), "FontName": core.Name("ABCDEF+Custom"), "Flags": core.Int(32),
			"FontBBox": core.Array{core.Int(0), core.Int(-200), core.Int(1000), core.Int(900)}, "ItalicAngle": core.Int(0),
			"Ascent": core.Int(800), "Descent": core.Int(-200), "CapHeight": core.Int(700), "StemV": core.Int(80),
			key: core.IndirectRef{Number: 8}}
	}
	switch fs.Via {
	case "plain":
		f := font.NewFont("/F1", "ABCDEF+Custom", "Type1")
		if fs.Encoding != "" {
			f.Encoding = fs.Encoding
		}
		if prog != nil {
			cm, err := font.ParseToUnicodeCMap(cmapStream(prog, fs.Flate))
			if err != nil {
				return nil, err
			}
			f.ToUnicodeCMap = cm
		}
		return f, nil
	case "type1":
		dict["Subtype"] = core.Name("Type1")
		f, err := font.NewType1Font(dict, resolver)
		if err != nil {
			return nil, err
		}
		return f.Font, nil
	case "truetype":
		dict["Subtype"] = core.Name("TrueType")
		f, err := font.NewTrueTypeFont(dict, resolver)
		if err != nil {
			return nil, err
		}
		return f.Font, nil
	case "type0":
		dict["Subtype"] = core.Name("Type0")
		if fs.Encoding == "" {
			dict["Encoding"] = core.Name("Identity-H")
		}
		if strings.HasPrefix(fs.Encoding, "@stream") {
			// /Encoding of a Type0 font: "the name of a predefined CMap, or a stream containing a CMap" (9.7.6.1,
			// Table 121); an embedded identity CMap, direct or (the usual form) as an indirect object
			prog := "/CIDInit /ProcSet findresource begin\n12 dict begin\nbegincmap\n/CIDSystemInfo << /Registry (Adobe) /Ordering (Identity) /Supplement 0 >> def\n" +
				"/CMapName /Custom-H def\n/CMapType 1 def\n1 begincodespacerange\n<0000> <FFFF>\nendcodespacerange\n1 begincidrange\n<0000> <FFFF> 0\nendcidrange\nendcmap\n" +
				"CMapName currentdict /CMap defineresource pop\nend\nend\n"
			st := &core.Stream{Dict: core.Dict{"Type": core.Name("CMap"), "CMapName": core.Name("Custom-H"), "Length": core.Int(len(prog)),
				"CIDSystemInfo": core.Dict{"Registry": core.String("Adobe"), "Ordering": core.String("Identity"), "Supplement": core.Int(0)}}, Data: []byte(prog)}
			if fs.Encoding == "@stream-indirect" {
				objs[7] = st
				dict["Encoding"] = core.IndirectRef{Number: 7}
			} else {
				dict["Encoding"] = st
			}
		}
		dict["DescendantFonts"] = core.Array{core.Dict{
			"Type": core.Name("Font"), "Subtype": core.Name("CIDFontType2"), "BaseFont": core.Name("ABCDEF+Custom"),
			"CIDSystemInfo": core.Dict{"Registry": core.String("Adobe"), "Ordering": core.String("Identity"), "Supplement": core.Int(0)},
			"DW":            core.Int(1000),
		}}
		f, err := font.NewType0Font(dict, resolver)
		if err != nil {
			return nil, err
		}
		return f.Font, nil
	}
	return nil, fmt.Errorf("unknown font route %q", fs.Via)
}

// fragmentText shows data with the font through text.Extractor and returns the
// text of the single fragment.
func fragmentText(f *font.Font, data []byte) (string, error) {
	ex := text.NewExtractor()
	ex.RegisterParsedFont("/F1", f)
	prog := fmt.Sprintf("BT /F1 12 Tf 72 700 Td <%x> Tj ET", data)
	frags, err := ex.ExtractFromBytes([]byte(prog))
	if err != nil {
		return "", fmt.Errorf("ExtractFromBytes(%q): %v", prog, err)
	}
	if len(frags) != 1 {
		return "", fmt.Errorf("ExtractFromBytes(%q): %d fragments, want 1", prog, len(frags))
	}
	return frags[0].Text, nil
}

// Reference normalisation -----------------------------------------------------
//
// golang.org/x/text/unicode/norm (v0.16.0, the version tabula is built with)
// composes a supplementary-plane starter with a following combining mark as
// if the starter were the BMP character with the same low 16 bits:
// NFC(U+E0112 U+0300) = U+1E14, because U+0112 + U+0300 = U+1E14. tabula
// inherits this through font.NormalizeUnicode (known finding
// C07-nfc-supp-before-mark). The oracle therefore never lets x/text see such a
// pair: supplementary code points that take no part in normalisation at all
// ("inert": combining class 0, no decomposition, never the first or second
// element of a canonical composition) are copied through and only the text
// between them is given to x/text.

// supplementary starters that are the first element of a canonical composition (DerivedNormalizationProps, Unicode 15)
var composingSupp = map[rune]bool{0x11099: true, 0x1109B: true, 0x110A5: true, 0x11131: true, 0x11132: true,
	0x11347: true, 0x114B9: true, 0x115B8: true, 0x115B9: true, 0x11935: true}

func inertSupp(r rune) bool {
	if r <= 0xFFFF {
		return false
	}
	p := norm.NFC.PropertiesString(string(r))
	return p.CCC() == 0 && p.Decomposition() == nil && p.BoundaryBefore() && !composingSupp[r]
}

// nfc is the reference NFC.
func nfc(s string) string {
	var out strings.Builder
	var chunk []rune
	flush := func() {
		if len(chunk) > 0 {
			out.WriteString(norm.NFC.String(string(chunk)))
			chunk = chunk[:0]
		}
	}
	for _, r := range s {
		if inertSupp(r) {
			flush()
			out.WriteRune(r)
		} else {
			chunk = append(chunk, r)
		}
	}
	flush()
	return out.String()
}

// combinesBackward: r may interact with the character before it under normalisation.
func combinesBackward(r rune) bool {
	return !norm.NFC.PropertiesString(string(r)).BoundaryBefore()
}

// suppBeforeMark is the generator feature of the known finding: a
// supplementary-plane code point directly followed by a code point that
// combines backward.
func suppBeforeMark(s string) bool {
	prev := rune(-1)
	for _, r := range s {
		if prev > 0xFFFF && combinesBackward(r) {
			return true
		}
		prev = r
	}
	return false
}

func goodText(what, s string) error {
	if !utf8.ValidString(s) {
		return fmt.Errorf("%s is not valid UTF-8: %+q", what, s)
	}
	if nfc(s) != s {
		return fmt.Errorf("%s is not in normal form C: %+q (NFC %+q)", what, s, nfc(s))
	}
	return nil
}

// saneRune replaces a supplementary code point the reference normalisation
// cannot vouch for by a CJK ideograph that keeps the low byte (so that the
// last-byte progression of a bfrange survives).
func saneRune(r rune) rune { return 0x4E00 + (r & 0xFF) }

// sanitizeTexts rewrites the targets of one block: supplementary code points
// that are not inert are replaced, and - while the known finding
// nfc-supp-before-mark is open - so is a supplementary code point directly
// followed by a backward-combining one. For an offset range the same rune
// positions are rewritten in every target.
func sanitizeTexts(texts []string, uniform bool, avoidSuppMark bool) ([]string, bool) {
	rs := make([][]rune, len(texts))
	changed := false
	bad := func(t []rune, k int) bool {
		r := t[k]
		if r <= 0xFFFF {
			return false
		}
		if !inertSupp(r) {
			return true
		}
		return avoidSuppMark && k+1 < len(t) && combinesBackward(t[k+1])
	}
	for i, s := range texts {
		rs[i] = []rune(s)
	}
	if uniform {
		n := len(rs[0])
		for k := 0; k < n; k++ {
			any := false
			for _, t := range rs {
				if k < len(t) && bad(t, k) {
					any = true
				}
			}
			if any {
				for _, t := range rs {
					if k < len(t) && t[k] > 0xFFFF {
						t[k] = saneRune(t[k])
						changed = true
					}
				}
			}
		}
	} else {
		for _, t := range rs {
			for k := range t {
				if bad(t, k) {
					t[k] = saneRune(t[k])
					changed = true
				}
			}
		}
	}
	out := make([]string, len(texts))
	for i, t := range rs {
		out[i] = string(t)
	}
	return out, changed
}

// sanitizeCMap applies sanitizeTexts to every block; an offset range that no
// longer follows the last-byte rule becomes an array range. noSupp removes
// every supplementary code point.
func sanitizeCMap(cm *cmapw.CMap, avoidSuppMark, noSupp bool) {
	for bi := range cm.Blocks {
		b := &cm.Blocks[bi]
		texts, _ := sanitizeTexts(b.Texts, b.Kind == cmapw.RangeOffset, avoidSuppMark)
		if noSupp {
			for i, s := range texts {
				r := []rune(s)
				for k := range r {
					if r[k] > 0xFFFF {
						r[k] = saneRune(r[k])
					}
				}
				texts[i] = string(r)
			}
		}
		b.Texts = texts
		if b.Kind == cmapw.RangeOffset {
			want, ok := cmapw.RangeTexts(texts[0], len(texts))
			same := ok
			for i := 0; same && i < len(want); i++ {
				same = want[i] == texts[i]
			}
			if !same {
				b.Kind = cmapw.RangeArray
			}
		}
	}
}

// ---------------------------------------------------------------------------
// (b) ToUnicode CMaps

type CMapCase struct {
	CMap    cmapw.CMap   `json:"cmap"`
	Format  cmapw.Format `json:"format"`
	Font    FontSpec     `json:"font"`
	Lookups []int        `json:"lookups"` // indices into the entry list: the string that is decoded as a whole
	Program string       `json:"program"` // the CMap program as written (informative; regenerated from CMap+Format)
	Labels  []string     `json:"labels"`
}

func checkCMap(c CMapCase) error {
	if err := c.CMap.Validate(); err != nil {
		return fmt.Errorf("generator produced an invalid CMap: %v", err)
	}
	prog := cmapw.Write(c.CMap, c.Format)
	cm, err := font.ParseToUnicodeCMap(cmapStream(prog, c.Font.Flate))
	if err != nil {
		return fmt.Errorf("ParseToUnicodeCMap fails: %v\n%s", err, prog)
	}
	codes, texts := c.CMap.Entries()
	// every single mapping
	for i, code := range codes {
		got := cm.LookupString(c.CMap.CodeBytes(code))
		if !utf8.ValidString(got) {
			return fmt.Errorf("LookupString(<%0*X>) is invalid UTF-8 %+q\n%s", 2*c.CMap.Width, code, got, prog)
		}
		if nfc(got) != nfc(texts[i]) {
			return fmt.Errorf("LookupString(<%0*X>) = %+q, the CMap says %+q\n%s", 2*c.CMap.Width, code, got, texts[i], prog)
		}
	}
	// a whole string
	var data []byte
	var want strings.Builder
	for _, k := range c.Lookups {
		k %= len(codes)
		data = append(data, c.CMap.CodeBytes(codes[k])...)
		want.WriteString(texts[k])
	}
	wantN := nfc(want.String())
	if got := cm.LookupString(data); nfc(got) != wantN {
		return fmt.Errorf("LookupString(<%X>) = %+q, the CMap says %+q\n%s", data, got, want.String(), prog)
	}
	// through the font: ToUnicode wins over /Encoding; output normalised
	f, err := buildFont(c.Font, prog)
	if err != nil {
		return fmt.Errorf("font construction (%+v) fails: %v", c.Font, err)
	}
	if f.ToUnicodeCMap == nil {
		return fmt.Errorf("font built via %s has no ToUnicode CMap although the dictionary has one", c.Font.Via)
	}
	got := f.DecodeString(data)
	if err := goodText("Font.DecodeString", got); err != nil {
		return err
	}
	if got != wantN {
		return fmt.Errorf("Font.DecodeString(<%X>) via %s with /Encoding %q = %+q, ToUnicode says %+q\n%s", data, c.Font.Via, c.Font.Encoding, got, wantN, prog)
	}
	ft, err := fragmentText(f, data)
	if err != nil {
		return err
	}
	if ft != wantN {
		return fmt.Errorf("fragment text for <%X> = %+q, ToUnicode says %+q\n%s", data, ft, wantN, prog)
	}
	return nil
}

func genFontSpec(t *rapid.T, width int, withCMap bool) FontSpec {
	fs := FontSpec{}
	switch {
	case width == 1:
		fs.Via = rapid.SampledFrom([]string{"plain", "type1", "truetype"}).Draw(t, "via")
		// deliberately conflicting base encodings
		fs.Encoding = rapid.SampledFrom([]string{"", "WinAnsiEncoding", "MacRomanEncoding", "StandardEncoding", "SymbolEncoding", "ZapfDingbatsEncoding", "PDFDocEncoding", "MacExpertEncoding"}).Draw(t, "encoding")
	case width == 2:
		fs.Via = rapid.SampledFrom([]string{"plain", "type0", "type0"}).Draw(t, "via")
		fs.Encoding = rapid.SampledFrom([]string{"", "Identity-H", "Identity-V", "WinAnsiEncoding"}).Draw(t, "encoding")
		if fs.Via == "type0" && fs.Encoding == "WinAnsiEncoding" {
			fs.Encoding = "Identity-H"
		}
		if fs.Via == "type0" && rapid.IntRange(0, 3).Draw(t, "encodingStream") == 0 {
			fs.Encoding = rapid.SampledFrom([]string{"@stream", "@stream-indirect"}).Draw(t, "encodingStreamForm")
		}
	default:
		fs.Via = "plain"
		fs.Encoding = rapid.SampledFrom([]string{"", "Identity-H", "WinAnsiEncoding"}).Draw(t, "encoding")
	}
	if withCMap {
		fs.Indirect = fs.Via != "plain" && rapid.Bool().Draw(t, "indirect")
		fs.Flate = rapid.Bool().Draw(t, "flate")
	}
	if (fs.Via == "type1" || fs.Via == "truetype") && rapid.IntRange(0, 2).Draw(t, "hasProgram") == 0 {
		fs.Program = rapid.SampledFrom([]string{"lzw", "short", "nohead", "missing"}).Draw(t, "program")
	}
	return fs
}

func genCMapCase(t *rapid.T) CMapCase {
	o := cmapw.GenOpts{}
	o.NoMultiUnitOffset = vr.Off("cmap-offset-multiunit")
	cm, classes := cmapw.Gen(t, o)
	avoid := vr.Off("nfc-supp-before-mark")
	if avoid {
		for _, b := range cm.Blocks {
			for _, s := range b.Texts {
				if suppBeforeMark(s) {
					vr.Want("nfc-supp-before-mark", true) // counted exclusion
				}
			}
		}
	}
	sanitizeCMap(&cm, avoid, false)
	f := cmapw.GenFormat(t)
	if vr.Off("cmap-layout-tokens") && f.Layout == "tokens" {
		vr.Want("cmap-layout-tokens", true)
		f.Layout = "lines"
	}
	if vr.Off("cmap-eol-cr") && f.EOL == "\r" {
		vr.Want("cmap-eol-cr", true)
		f.EOL = "\n"
	}
	hasArray, hasOffset := false, false
	for _, b := range cm.Blocks {
		hasArray = hasArray || b.Kind == cmapw.RangeArray
		hasOffset = hasOffset || b.Kind == cmapw.RangeOffset
	}
	if vr.Off("cmap-mixed-range-line") && hasArray && hasOffset && (f.Layout == "one-line" || f.EOL == "\r") {
		// an array entry and an offset entry on one physical line of one section
		vr.Want("cmap-mixed-range-line", true)
		f.Layout, f.EOL, f.SplitKinds = "lines", "\n", true
	}
	c := CMapCase{CMap: cm, Format: f}
	c.Font = genFontSpec(t, cm.Width, true)
	codes, texts := cm.Entries()
	n := rapid.IntRange(1, 12).Draw(t, "nLookups")
	sofar := ""
	for i := 0; i < n; i++ {
		k := rapid.IntRange(0, len(codes)-1).Draw(t, "lookup")
		if avoid && suppBeforeMark(sofar+texts[k]) {
			vr.Want("nfc-supp-before-mark", true)
			continue
		}
		sofar += texts[k]
		c.Lookups = append(c.Lookups, k)
	}
	if len(c.Lookups) == 0 {
		c.Lookups = []int{0}
	}
	c.Program = string(cmapw.Write(cm, f))
	c.Labels = []string{fmt.Sprintf("width:%d", cm.Width), "layout:" + f.Layout, fmt.Sprintf("eol:%q", f.EOL), fmt.Sprintf("gap:%q", f.Gap), "via:" + c.Font.Via, "header:" + f.Header}
	if c.Font.Program != "" {
		c.Labels = append(c.Labels, "embedded-program:"+c.Font.Program)
	}
	for _, b := range cm.Blocks {
		c.Labels = append(c.Labels, "block:"+string(b.Kind))
	}
	for _, cl := range classes {
		c.Labels = append(c.Labels, "text:"+cl)
	}
	if hasArray && hasOffset {
		c.Labels = append(c.Labels, "ranges:mixed")
	}
	if len(codes) > 100 {
		c.Labels = append(c.Labels, "entries:>100")
	}
	if c.Font.Encoding != "" {
		c.Labels = append(c.Labels, "encoding:conflicting")
	}
	c.Labels = dedup(c.Labels)
	return c
}

func dedup(l []string) []string {
	seen := map[string]bool{}
	out := l[:0]
	for _, s := range l {
		if !seen[s] {
			seen[s] = true
			out = append(out, s)
		}
	}
	return out
}

func metaCMap(c CMapCase) vr.Meta {
	nt := c.CMap.Width >= 2
	for _, b := range c.CMap.Blocks {
		if b.Kind != cmapw.BfChar {
			nt = true
		}
		for _, s := range b.Texts {
			if utf8.RuneCountInString(s) > 1 {
				nt = true
			}
			for _, r := range s {
				if r > 0xFFFF {
					nt = true
				}
			}
		}
	}
	return vr.Meta{FP: fmt.Sprintf("cmap|%s|%v|%+v", c.Program, c.Lookups, c.Font), NonTrivial: nt, Labels: c.Labels}
}

func TestCMaps(t *testing.T) {
	vr.Prop(t, "cmap", vr.N(9000, 300000), genCMapCase, metaCMap, checkCMap)
}

// ---------------------------------------------------------------------------
// (c) UTF-16 with a byte-order mark

type UTF16Case struct {
	Runes  []int    `json:"runes"` // Unicode scalar values
	LE     bool     `json:"le"`
	Labels []string `json:"labels"`
}

func (c UTF16Case) text() string {
	var sb strings.Builder
	for _, r := range c.Runes {
		sb.WriteRune(rune(r))
	}
	return sb.String()
}

func checkUTF16(c UTF16Case) error {
	s := c.text()
	if !utf8.ValidString(s) {
		return fmt.Errorf("generator produced an invalid string")
	}
	units := utf16.Encode([]rune(s))
	var body []byte
	for _, u := range units {
		if c.LE {
			body = append(body, byte(u), byte(u>>8))
		} else {
			body = append(body, byte(u>>8), byte(u))
		}
	}
	bom := []byte{0xFE, 0xFF}
	name := "DecodeUTF16BE"
	dec := font.DecodeUTF16BE
	if c.LE {
		bom = []byte{0xFF, 0xFE}
		name, dec = "DecodeUTF16LE", font.DecodeUTF16LE
	}
	want := nfc(s)
	got := dec(append([]byte{}, body...))
	if !utf8.ValidString(got) || nfc(got) != want {
		return fmt.Errorf("%s(%X) = %+q, want %+q", name, body, got, s)
	}
	for _, enc := range []string{"WinAnsiEncoding", "MacRomanEncoding", "Identity-H"} {
		f := font.NewFont("/F1", "Helvetica", "Type1")
		f.Encoding = enc
		data := append(append([]byte{}, bom...), body...)
		got := f.DecodeString(data)
		if err := goodText("Font.DecodeString", got); err != nil {
			return err
		}
		if got != want {
			return fmt.Errorf("Font.DecodeString(%X) with /Encoding %s = %+q, want %+q", data, enc, got, want)
		}
		ft, err := fragmentText(f, data)
		if err != nil {
			return err
		}
		if ft != want {
			return fmt.Errorf("fragment text for %X = %+q, want %+q", data, ft, want)
		}
	}
	return nil
}

func genRune(t *rapid.T) (int, string) {
	switch rapid.IntRange(0, 7).Draw(t, "runeClass") {
	case 0, 1:
		return rapid.IntRange(0x20, 0x7E).Draw(t, "ascii"), "ascii"
	case 2:
		return rapid.IntRange(0xA0, 0x24F).Draw(t, "latin"), "latin"
	case 3:
		return rapid.SampledFrom([]int{0x0300, 0x0301, 0x0308, 0x0327, 0x3099, 0x1161, 0x11A8, 0x0323, 0x05B4, 0x0E31}).Draw(t, "mark"), "combining"
	case 4:
		return rapid.IntRange(0x10000, 0x10FFFF).Draw(t, "supp"), "supplementary"
	case 5:
		return rapid.SampledFrom([]int{0x0000, 0x0009, 0x000A, 0xD7FF, 0xE000, 0xFEFF, 0xFFFE, 0xFFFF, 0xFFFD, 0x2126, 0x212B, 0xFB01, 0xAC00, 0x1100}).Draw(t, "edge"), "edge"
	default:
		r := rapid.IntRange(0x0100, 0xFFFF).Draw(t, "bmp")
		if r >= 0xD800 && r <= 0xDFFF {
			r = 0x4E00 + (r & 0xFF) // surrogates are not scalar values
		}
		return r, "bmp"
	}
}

func genUTF16(t *rapid.T) UTF16Case {
	c := UTF16Case{LE: rapid.Bool().Draw(t, "le")}
	n := rapid.IntRange(0, 12).Draw(t, "len")
	seen := map[string]bool{}
	avoid := vr.Off("nfc-supp-before-mark")
	for i := 0; i < n; i++ {
		r, cl := genRune(t)
		if r > 0xFFFF && !inertSupp(rune(r)) {
			r = 0x1F600 // keep to code points the reference normalisation can vouch for
		}
		if avoid && i > 0 && c.Runes[i-1] > 0xFFFF && combinesBackward(rune(r)) {
			vr.Want("nfc-supp-before-mark", true)
			r, cl = 'x', "ascii"
		}
		c.Runes = append(c.Runes, r)
		seen["rune:"+cl] = true
	}
	for k := range seen {
		c.Labels = append(c.Labels, k)
	}
	sort.Strings(c.Labels)
	if c.LE {
		c.Labels = append(c.Labels, "utf16:le")
	} else {
		c.Labels = append(c.Labels, "utf16:be")
	}
	return c
}

func metaUTF16(c UTF16Case) vr.Meta {
	nt := false
	for _, r := range c.Runes {
		if r > 0x7F {
			nt = true
		}
	}
	return vr.Meta{FP: fmt.Sprintf("utf16|%v|%v", c.Runes, c.LE), NonTrivial: nt, Labels: c.Labels}
}

func TestUTF16(t *testing.T) {
	vr.Prop(t, "utf16", vr.N(8000, 200000), genUTF16, metaUTF16, checkUTF16)
}

// ---------------------------------------------------------------------------
// (d) arbitrary bytes, arbitrary font configuration: valid UTF-8 in NFC

type InvariantCase struct {
	Data   pdfsyn.Bytes  `json:"data"`
	Font   FontSpec      `json:"font"`
	CMap   *cmapw.CMap   `json:"cmap,omitempty"`
	Format *cmapw.Format `json:"format,omitempty"`
	Unset  bool          `json:"unset_encoding"` // Font.Encoding cleared after construction (documented fallback: raw bytes)
	Labels []string      `json:"labels"`
}

func checkInvariant(c InvariantCase) error {
	var prog []byte
	if c.CMap != nil {
		if err := c.CMap.Validate(); err != nil {
			return fmt.Errorf("generator produced an invalid CMap: %v", err)
		}
		prog = cmapw.Write(*c.CMap, *c.Format)
	}
	f, err := buildFont(c.Font, prog)
	if err != nil {
		return fmt.Errorf("font construction (%+v) fails: %v", c.Font, err)
	}
	if c.Unset {
		f.Encoding = ""
	}
	got := f.DecodeString(c.Data)
	if err := goodText(fmt.Sprintf("Font.DecodeString(%X) [%+v unset=%v]", []byte(c.Data), c.Font, c.Unset), got); err != nil {
		return err
	}
	ft, err := fragmentText(f, c.Data)
	if err != nil {
		return err
	}
	if err := goodText(fmt.Sprintf("fragment text for %X [%+v unset=%v]", []byte(c.Data), c.Font, c.Unset), ft); err != nil {
		return err
	}
	return nil
}

func genInvariant(t *rapid.T) InvariantCase {
	c := InvariantCase{}
	width := 1
	// while the x/text normalisation finding is open no supplementary code point can reach the output
	avoid := vr.Off("nfc-supp-before-mark")
	withCMap := rapid.IntRange(0, 2).Draw(t, "withCMap") > 0
	if withCMap {
		o := cmapw.GenOpts{MaxBlocks: 4, MaxRun: 8}
		o.NoMultiUnitOffset = vr.Off("cmap-offset-multiunit")
		cm, _ := cmapw.Gen(t, o)
		sanitizeCMap(&cm, avoid, avoid)
		f := cmapw.GenFormat(t)
		c.CMap, c.Format = &cm, &f
		width = cm.Width
	}
	c.Font = genFontSpec(t, width, withCMap)
	c.Unset = vr.Want("font-empty-encoding", rapid.IntRange(0, 9).Draw(t, "unsetEncoding") == 0)
	switch rapid.IntRange(0, 4).Draw(t, "dataClass") {
	case 0: // a UTF-16 BOM followed by arbitrary (possibly ill-formed) code units
		bom := rapid.SampledFrom([][]byte{{0xFE, 0xFF}, {0xFF, 0xFE}}).Draw(t, "bom")
		alphabet := []byte{0xD8, 0xDC, 0x00, 0x41, 0xFF, 0xFE, 0xDF, 0x03, 0x65, 0x01}
		if avoid {
			alphabet = alphabet[1:] // no high surrogates
		}
		c.Data = append(append(pdfsyn.Bytes{}, bom...), rapid.SliceOfN(rapid.SampledFrom(alphabet), 0, 9).Draw(t, "units")...)
		c.Labels = append(c.Labels, "data:bom")
	case 1: // text that needs composition: letter + combining mark in the single-byte encodings
		c.Data = pdfsyn.Bytes(rapid.SliceOfN(rapid.SampledFrom([]byte{'e', 'a', 'A', 'o', 0xB4, 0xA8, 0xAB, 0xAC, 0xC1, 0xC2, 0xC8, 0x60, 0x5E, 0x7E, 0x18, 0x1F}), 1, 10).Draw(t, "compose"))
		c.Labels = append(c.Labels, "data:accents")
	default:
		c.Data = pdfsyn.Bytes(rapid.SliceOfN(rapid.Byte(), 0, 16).Draw(t, "data"))
		c.Labels = append(c.Labels, "data:random")
	}
	c.Labels = append(c.Labels, "via:"+c.Font.Via, "inv-encoding:"+c.Font.Encoding)
	if withCMap {
		c.Labels = append(c.Labels, fmt.Sprintf("inv-cmap-width:%d", width))
	} else {
		c.Labels = append(c.Labels, "inv-cmap:none")
	}
	if c.Unset {
		c.Labels = append(c.Labels, "inv-encoding-unset")
	}
	return c
}

func metaInvariant(c InvariantCase) vr.Meta {
	nt := false
	for _, b := range c.Data {
		if b >= 0x80 {
			nt = true
		}
	}
	return vr.Meta{FP: fmt.Sprintf("inv|%X|%+v|%v|%v", []byte(c.Data), c.Font, c.CMap, c.Unset), NonTrivial: nt, Labels: c.Labels}
}

func TestUTF8NFCInvariant(t *testing.T) {
	vr.Prop(t, "utf8nfc", vr.N(8000, 200000), genInvariant, metaInvariant, checkInvariant)
}

func init() {
	vr.Register("table", checkTable)
	vr.Register("cmap", checkCMap)
	vr.Register("utf16", checkUTF16)
	vr.Register("utf8nfc", checkInvariant)
}
