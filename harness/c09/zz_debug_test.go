package c09

import (
	"encoding/json"
	"fmt"
	"os"
	"testing"

	"github.com/tsawler/tabula/layout"
	"verif/harness/vr"
)

func TestZZDebug(t *testing.T) {
	p := os.Getenv("DEBUG_REPLAY")
	if p == "" {
		t.Skip()
	}
	rf, _ := vr.LoadReplay(p)
	var c Case
	json.Unmarshal(rf.Case, &c)
	in := c.Page.Fragments()
	w, h := c.Page.Box()
	res := layout.NewAnalyzer().Analyze(in, w, h)
	for i, p := range res.Paragraphs.Paragraphs {
		fmt.Printf("PARA %d %q bbox=%v\n", i, p.Text, p.BBox)
	}
	for _, l := range res.Lists.Lists {
		fmt.Printf("LIST %d items\n", len(l.Items))
		var walk func(items []layout.ListItem, d int)
		walk = func(items []layout.ListItem, d int) {
			for _, it := range items {
				fmt.Printf("  %*s[%s] %q lvl=%d raw=%q\n", d*2, "", it.Prefix, it.Text, it.Level, it.RawText)
				walk(it.Children, d+1)
			}
		}
		walk(l.Items, 0)
	}
	for _, e := range res.Elements {
		fmt.Printf("ELEM %v %q\n", e.Type, e.Text)
	}
}
