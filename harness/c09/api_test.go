package c09

// Public-API level of C09: the synthetic pages of gen/frag are lowered to a PDF
// through gen/pdfw (one text object per fragment, Courier metrics) and pushed
// through tabula.Open(f) in every text mode and every layout query. The
// multiset of non-white-space runes must equal that of the page's fragments
// after the one sanctioned removal (de-duplication of fragments with the same
// rounded position and the same text).

import (
	"fmt"
	"os"
	"path/filepath"
	"sort"
	"strings"
	"testing"
	"unicode"

	"github.com/tsawler/tabula"
	"github.com/tsawler/tabula/reader"
	"pgregory.net/rapid"

	"verif/harness/gen/frag"
	"verif/harness/gen/fragpdf"
	"verif/harness/vr"
)

type APICase struct {
	Pages []frag.Page `json:"pages"`
}

func init() { vr.Register("api", checkAPI) }

func runeBag(ss ...string) map[rune]int {
	m := map[rune]int{}
	for _, s := range ss {
		for _, r := range s {
			if !unicode.IsSpace(r) {
				m[r]++
			}
		}
	}
	return m
}

func bagDiff(got, want map[rune]int) string {
	var d []string
	for r, n := range want {
		if got[r] != n {
			d = append(d, fmt.Sprintf("%q: got %d want %d", r, got[r], n))
		}
	}
	for r, n := range got {
		if _, ok := want[r]; !ok {
			d = append(d, fmt.Sprintf("%q: got %d want 0", r, n))
		}
	}
	sort.Strings(d)
	if len(d) > 8 {
		d = append(d[:8], "…")
	}
	return strings.Join(d, ", ")
}

func checkAPI(c APICase) error {
	data, err := fragpdf.Lower(c.Pages)
	if err != nil {
		return nil // not representable with a one-byte font: not a case
	}
	dir, err := os.MkdirTemp("", "verif-c09-")
	if err != nil {
		return fmt.Errorf("INFRA: %v", err)
	}
	defer os.RemoveAll(dir)
	path := filepath.Join(dir, "page.pdf")
	if err := os.WriteFile(path, data, 0o644); err != nil {
		return fmt.Errorf("INFRA: %v", err)
	}
	// expected: fragments after the sanctioned de-duplication (same rounded position, same text), per page
	var wantTexts []string
	for _, p := range c.Pages {
		seen := map[string]bool{}
		for _, tf := range p.Fragments() {
			k := fmt.Sprintf("%d|%d|%s", int(tf.X+0.5), int(tf.Y+0.5), tf.Text)
			if !seen[k] {
				seen[k] = true
				wantTexts = append(wantTexts, tf.Text)
			}
		}
	}
	want := runeBag(wantTexts...)
	judge := func(name string, texts []string, err error) error {
		if err != nil {
			return fmt.Errorf("%s failed on a well-formed PDF: %v", name, err)
		}
		if got := runeBag(texts...); len(bagDiff(got, want)) > 0 {
			return fmt.Errorf("%s: non-white-space characters differ from the page's fragments: %s", name, bagDiff(got, want))
		}
		return nil
	}
	one := func(s string, _ []tabula.Warning, err error) ([]string, error) { return []string{s}, err }

	frs, _, err := tabula.Open(path).Fragments()
	var ft []string
	for _, f := range frs {
		ft = append(ft, f.Text)
	}
	if e := judge("Fragments()", ft, err); e != nil {
		return e
	}
	if len(frs) != len(wantTexts) {
		return fmt.Errorf("Fragments(): %d fragments, page has %d after de-duplication", len(frs), len(wantTexts))
	}
	for _, m := range []struct {
		name string
		ext  func() *tabula.Extractor
	}{
		{"Text()", func() *tabula.Extractor { return tabula.Open(path) }},
		{"ByColumn().Text()", func() *tabula.Extractor { return tabula.Open(path).ByColumn() }},
		{"JoinParagraphs().Text()", func() *tabula.Extractor { return tabula.Open(path).JoinParagraphs() }},
		{"PreserveLayout().Text()", func() *tabula.Extractor { return tabula.Open(path).PreserveLayout() }},
		// the modes are independent switches: every combination is a text mode too, in either order of the calls
		{"JoinParagraphs().ByColumn().Text()", func() *tabula.Extractor { return tabula.Open(path).JoinParagraphs().ByColumn() }},
		{"ByColumn().JoinParagraphs().Text()", func() *tabula.Extractor { return tabula.Open(path).ByColumn().JoinParagraphs() }},
		{"ByColumn().PreserveLayout().Text()", func() *tabula.Extractor { return tabula.Open(path).ByColumn().PreserveLayout() }},
		{"PreserveLayout().JoinParagraphs().Text()", func() *tabula.Extractor { return tabula.Open(path).PreserveLayout().JoinParagraphs() }},
		{"ByColumn().JoinParagraphs().PreserveLayout().Text()", func() *tabula.Extractor {
			return tabula.Open(path).ByColumn().JoinParagraphs().PreserveLayout()
		}},
	} {
		t, e := one(m.ext().Text())
		if e := judge(m.name, t, e); e != nil {
			return e
		}
	}
	// the reader level: reader.ExtractText assembles the page's text itself (text.Extractor.GetText)
	if rd, rerr := reader.Open(path); rerr != nil {
		return fmt.Errorf("reader.Open: %v", rerr)
	} else {
		n, perr := rd.PageCount()
		var all []string
		for i := 0; i < n && perr == nil; i++ {
			pg, err := rd.GetPage(i)
			if err != nil {
				perr = err
				break
			}
			s, err := rd.ExtractText(pg)
			if err != nil {
				perr = err
			}
			all = append(all, s)
		}
		rd.Close()
		if e := judge("reader.ExtractText", all, perr); e != nil {
			return e
		}
	}
	lines, err := tabula.Open(path).Lines()
	var lt []string
	for _, l := range lines {
		lt = append(lt, l.Text)
	}
	if e := judge("Lines()", lt, err); e != nil {
		return e
	}
	paras, err := tabula.Open(path).Paragraphs()
	var pt []string
	for _, p := range paras {
		pt = append(pt, p.Text)
	}
	if e := judge("Paragraphs()", pt, err); e != nil {
		return e
	}
	blocks, err := tabula.Open(path).Blocks()
	var bt []string
	for _, b := range blocks {
		for _, f := range b.Fragments {
			bt = append(bt, f.Text)
		}
	}
	if e := judge("Blocks()", bt, err); e != nil {
		return e
	}
	ro, err := tabula.Open(path).ReadingOrder()
	var rf, rl []string
	if ro != nil {
		for _, f := range ro.Fragments {
			rf = append(rf, f.Text)
		}
		for _, l := range ro.Lines {
			rl = append(rl, l.Text)
		}
	}
	if e := judge("ReadingOrder().Fragments", rf, err); e != nil {
		return e
	}
	if e := judge("ReadingOrder().Lines", rl, err); e != nil {
		return e
	}
	an, err := tabula.Open(path).Analyze()
	var at []string
	if an != nil {
		for _, el := range an.Elements {
			at = append(at, el.Text)
		}
	}
	if e := judge("Analyze().Elements", at, err); e != nil {
		return e
	}
	els, err := tabula.Open(path).Elements()
	var et []string
	for _, el := range els {
		et = append(et, el.Text)
	}
	if e := judge("Elements()", et, err); e != nil {
		return e
	}
	return nil
}

func genAPI(t *rapid.T) APICase {
	n := rapid.SampledFrom([]int{1, 1, 1, 2, 3}).Draw(t, "pages")
	var c APICase
	base := 0
	for i := 0; i < n; i++ {
		p := frag.GenPage(t, frag.Opts{Light: n > 1, TokenBase: base, Want: vr.Want})
		base += len(p.Frags) + 10
		c.Pages = append(c.Pages, p)
	}
	// a page that repeats the geometry of the page before it with other text (tabular figures, a filled-in form
	// template): anything remembered from one page by its geometry alone shows on the next
	if len(c.Pages) >= 1 && rapid.IntRange(0, 3).Draw(t, "geometricTwin") == 0 {
		src := c.Pages[len(c.Pages)-1]
		twin := src
		twin.Frags = append([]frag.Frag{}, src.Frags...)
		for i := range twin.Frags {
			twin.Frags[i].T = strings.Map(func(r rune) rune {
				switch {
				case r >= 'a' && r < 'z', r >= 'A' && r < 'Z':
					return r + 1
				case r == 'z':
					return 'a'
				case r == 'Z':
					return 'A'
				}
				return r
			}, src.Frags[i].T)
		}
		c.Pages = append(c.Pages, twin)
	}
	return c
}

func metaAPI(c APICase) vr.Meta {
	var labels []string
	nt := false
	var fp strings.Builder
	for _, p := range c.Pages {
		labels = append(labels, p.Labels()...)
		if p.Has(frag.FeatMultiCol) || p.Has(frag.FeatTitle) || p.Has(frag.FeatChar) || p.Has(frag.FeatRTL) || p.Has(frag.FeatFlip) || p.Has(frag.FeatStray) {
			nt = true
		}
		for _, f := range p.Frags {
			fmt.Fprintf(&fp, "%s@%g,%g;", f.T, f.X, f.Y)
		}
	}
	for i := 1; i < len(c.Pages); i++ {
		if len(c.Pages[i].Frags) == len(c.Pages[i-1].Frags) && len(c.Pages[i].Frags) > 0 && c.Pages[i].Frags[0].X == c.Pages[i-1].Frags[0].X && c.Pages[i].Frags[0].T != c.Pages[i-1].Frags[0].T {
			labels = append(labels, "geometric-twin-page")
		}
	}
	seen := map[string]bool{}
	var u []string
	for _, l := range labels {
		if !seen[l] {
			seen[l] = true
			u = append(u, "api:"+l)
		}
	}
	return vr.Meta{FP: fp.String(), NonTrivial: nt, Labels: u}
}

func TestPublicAPI(t *testing.T) {
	vr.Prop(t, "api", vr.N(1500, 40000), genAPI, metaAPI, checkAPI)
}
