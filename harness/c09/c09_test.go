// C09 — Layout analysis never loses, invents or duplicates text (detector level).
//
// Generator: synthetic pages from gen/frag (1–4 columns in 1–2 bands, ragged
// and justified lines, headings, lists, spanning titles, RTL paragraphs,
// word/line/char/kerned fragmentation, stray words, narrow note columns, lone
// glyphs, duplicate layers, flipped Y, scaled coordinates, three stream
// orders). Oracle: the generated fragment list itself. For every detector the
// fragments it hands back (lines, columns + spanning group, sections,
// paragraphs, blocks) must be the input fragments, each exactly once, and the
// non-whitespace runes of every text it assembles must equal those of the input
// as a multiset. Nothing is asserted about WHICH grouping is chosen.
package c09

import (
	"encoding/json"
	"flag"
	"fmt"
	"sort"
	"strings"
	"testing"
	"unicode"

	"github.com/tsawler/tabula/layout"
	"github.com/tsawler/tabula/model"
	"github.com/tsawler/tabula/text"
	"pgregory.net/rapid"

	"verif/harness/gen/frag"
	"verif/harness/vr"
)

func TestMain(m *testing.M) {
	// several sub-checks can fail on one defect; keep the time rapid spends shrinking each of them bounded so that a
	// failing run still ends within the quick budget
	_ = flag.Set("rapid.shrinktime", "8s")
	vr.Main(m)
}

// Case is one synthetic page; Page.Fragments() / Page.Box() are the detector inputs.
type Case struct {
	Page frag.Page `json:"page"`
}

func genCase(t *rapid.T) Case {
	return Case{Page: frag.GenPage(t, frag.Opts{Want: vr.Want})}
}

func meta(c Case) vr.Meta {
	p := c.Page
	nt := false
	for _, n := range p.Cols {
		if n >= 2 {
			nt = true
		}
	}
	for _, f := range []string{frag.FeatTitle, frag.FeatChar, frag.FeatStray, frag.FeatNoteCol, frag.FeatLone, frag.FeatGutter, frag.FeatRTL, frag.FeatFlip} {
		if p.Has(f) {
			nt = true
		}
	}
	b, _ := json.Marshal(p)
	return vr.Meta{FP: string(b), NonTrivial: nt, Labels: p.Labels()}
}

// ---------------------------------------------------------------------------
// oracle helpers

// id identifies a fragment by text and position. Distinct generated fragments
// differ in text (unique tokens) or position; deliberate duplicate layers that
// coincide completely are counted with multiplicity.
func id(f text.TextFragment) string { return fmt.Sprintf("%q@%.3f,%.3f", f.Text, f.X, f.Y) }

func blank(s string) bool { return strings.TrimSpace(s) == "" }

// sameFragments demands got == want as multisets of fragments. Whitespace-only
// fragments are ignored on both sides: the statement protects non-whitespace
// characters, and a detector that drops a " " fragment loses none.
func sameFragments(what string, want, got []text.TextFragment) error {
	cnt := map[string]int{}
	for _, f := range want {
		if !blank(f.Text) {
			cnt[id(f)]++
		}
	}
	for _, f := range got {
		if !blank(f.Text) {
			cnt[id(f)]--
		}
	}
	var lost, extra []string
	for k, v := range cnt {
		if v > 0 {
			lost = append(lost, fmt.Sprintf("%s x%d", k, v))
		} else if v < 0 {
			extra = append(extra, fmt.Sprintf("%s x%d", k, -v))
		}
	}
	if len(lost)+len(extra) == 0 {
		return nil
	}
	sort.Strings(lost)
	sort.Strings(extra)
	return fmt.Errorf("%s: %d fragment(s) lost %s, %d fragment(s) invented/duplicated %s", what, len(lost), head(lost), len(extra), head(extra))
}

func head(s []string) string {
	if len(s) > 4 {
		return fmt.Sprintf("%v…", s[:4])
	}
	return fmt.Sprintf("%v", s)
}

// sameRunes demands that text holds exactly the non-whitespace runes of the fragments.
func sameRunes(what string, want []text.TextFragment, got string) error {
	cnt := map[rune]int{}
	for _, f := range want {
		for _, r := range f.Text {
			if !unicode.IsSpace(r) {
				cnt[r]++
			}
		}
	}
	for _, r := range got {
		if !unicode.IsSpace(r) {
			cnt[r]--
		}
	}
	var lost, extra []string
	nl, ne := 0, 0
	for r, v := range cnt {
		if v > 0 {
			lost = append(lost, fmt.Sprintf("%q x%d", r, v))
			nl += v
		} else if v < 0 {
			extra = append(extra, fmt.Sprintf("%q x%d", r, -v))
			ne -= v
		}
	}
	if nl+ne == 0 {
		return nil
	}
	sort.Strings(lost)
	sort.Strings(extra)
	return fmt.Errorf("%s: %d character(s) lost %s, %d character(s) invented/duplicated %s", what, nl, head(lost), ne, head(extra))
}

func lineFrags(lines []layout.Line) []text.TextFragment {
	var out []text.TextFragment
	for _, l := range lines {
		out = append(out, l.Fragments...)
	}
	return out
}

func lineTexts(lines []layout.Line) string {
	var sb strings.Builder
	for _, l := range lines {
		sb.WriteString(l.Text)
		sb.WriteByte('\n')
	}
	return sb.String()
}

func first(errs ...error) error {
	for _, e := range errs {
		if e != nil {
			return e
		}
	}
	return nil
}

// ---------------------------------------------------------------------------
// (a) lines

func checkLines(c Case) error {
	in := c.Page.Fragments()
	w, h := c.Page.Box()
	keep := append([]text.TextFragment(nil), in...)
	ll := layout.NewLineDetector().Detect(in, w, h)
	if err := sameFragments("input slice after Detect (must not be modified)", keep, in); err != nil {
		return err
	}
	return first(
		sameFragments("LineDetector.Detect: fragments of all lines (each input fragment in exactly one line)", in, lineFrags(ll.Lines)),
		sameRunes("LineDetector.Detect: Line.Text of all lines", in, lineTexts(ll.Lines)),
		sameRunes("LineLayout.GetText", in, ll.GetText()),
		sameFragments("LineLayout.GetAllFragments", in, ll.GetAllFragments()),
	)
}

// (b) columns

func checkColumns(c Case) error {
	in := c.Page.Fragments()
	w, h := c.Page.Box()
	cl := layout.NewColumnDetector().Detect(in, w, h)
	all := append([]text.TextFragment(nil), cl.SpanningFragments...)
	for _, col := range cl.Columns {
		all = append(all, col.Fragments...)
	}
	return first(
		sameFragments("ColumnDetector.Detect: columns + spanning group (each input fragment in exactly one)", in, all),
		sameRunes("ColumnLayout.GetText", in, cl.GetText()),
	)
}

// (c) reading order

func checkReading(c Case) error {
	in := c.Page.Fragments()
	w, h := c.Page.Box()
	ro := layout.NewReadingOrderDetector().Detect(in, w, h)
	var secFrags []text.TextFragment
	var secLines []layout.Line
	for _, s := range ro.Sections {
		secFrags = append(secFrags, s.Fragments...)
		secLines = append(secLines, s.Lines...)
	}
	// the documented options of the detector: whatever order they choose, nothing is lost or doubled
	for _, v := range []struct {
		name string
		mod  func(*layout.ReadingOrderConfig)
	}{
		{"PreferColumnOrder=false", func(c *layout.ReadingOrderConfig) { c.PreferColumnOrder = false }},
		{"Direction=RightToLeft", func(c *layout.ReadingOrderConfig) { c.Direction = layout.RightToLeft }},
		{"SpanningThreshold=0.5", func(c *layout.ReadingOrderConfig) { c.SpanningThreshold = 0.5 }},
	} {
		cfg := layout.DefaultReadingOrderConfig()
		v.mod(&cfg)
		alt := layout.NewReadingOrderDetectorWithConfig(cfg).Detect(in, w, h)
		if err := first(
			sameFragments("ReadingOrderDetector("+v.name+").Detect: Fragments", in, alt.Fragments),
			sameFragments("ReadingOrderDetector("+v.name+").Detect: fragments of Lines", in, lineFrags(alt.Lines)),
			sameRunes("ReadingOrderDetector("+v.name+"): GetText", in, alt.GetText()),
		); err != nil {
			return err
		}
	}
	return first(
		sameFragments("ReadingOrderDetector.Detect: Fragments", in, ro.Fragments),
		sameFragments("ReadingOrderDetector.Detect: fragments of Lines", in, lineFrags(ro.Lines)),
		sameFragments("ReadingOrderDetector.Detect: fragments of all Sections", in, secFrags),
		sameFragments("ReadingOrderDetector.Detect: fragments of the lines of all Sections", in, lineFrags(secLines)),
		sameRunes("ReadingOrderResult.GetText", in, ro.GetText()),
		sameFragments("layout.ReorderForReading", in, layout.ReorderForReading(in, w, h)),
	)
}

// (d) paragraphs

func paraCheck(what string, in []text.TextFragment, pl *layout.ParagraphLayout) error {
	var frs []text.TextFragment
	var txt strings.Builder
	for _, p := range pl.Paragraphs {
		frs = append(frs, lineFrags(p.Lines)...)
		txt.WriteString(p.Text)
		txt.WriteByte('\n')
	}
	return first(
		sameFragments(what+": fragments of the lines of all paragraphs", in, frs),
		sameRunes(what+": Paragraph.Text of all paragraphs", in, txt.String()),
		sameRunes(what+": ParagraphLayout.GetText", in, pl.GetText()),
	)
}

func checkParagraphs(c Case) error {
	in := c.Page.Fragments()
	w, h := c.Page.Box()
	return first(
		paraCheck("ParagraphDetector.DetectFromFragments", in, layout.NewParagraphDetector().DetectFromFragments(in, w, h)),
		paraCheck("ReadingOrderResult.GetParagraphs", in, layout.NewReadingOrderDetector().Detect(in, w, h).GetParagraphs()),
	)
}

// (e) blocks

func checkBlocks(c Case) error {
	in := c.Page.Fragments()
	w, h := c.Page.Box()
	bl := layout.NewBlockDetector().Detect(in, w, h)
	var frs, lfrs []text.TextFragment
	for _, b := range bl.Blocks {
		frs = append(frs, b.Fragments...)
		for _, l := range b.Lines {
			lfrs = append(lfrs, l...)
		}
	}
	return first(
		sameFragments("BlockDetector.Detect: Fragments of all blocks", in, frs),
		sameFragments("BlockDetector.Detect: Lines of all blocks", in, lfrs),
		sameRunes("BlockLayout.GetText", in, bl.GetText()),
		sameFragments("BlockLayout.GetAllFragments", in, bl.GetAllFragments()),
	)
}

// (f) analysis elements

// listText collects what a list element holds: prefix and text of every item, nested items included.
func listText(items []layout.ListItem, sb *strings.Builder) {
	for _, it := range items {
		sb.WriteString(it.Prefix)
		sb.WriteByte(' ')
		sb.WriteString(it.Text)
		sb.WriteByte('\n')
		listText(it.Children, sb)
	}
}

func elementsText(els []layout.LayoutElement) string {
	var sb strings.Builder
	for _, e := range els {
		if e.Type == model.ElementTypeList && e.List != nil {
			listText(e.List.Items, &sb)
		} else {
			sb.WriteString(e.Text)
			sb.WriteByte('\n')
		}
		sb.WriteString(elementsText(e.Children))
	}
	return sb.String()
}

// structuredText reads every element through its type-specific part: the Heading, List or Paragraph it points at.
func structuredText(els []layout.LayoutElement) (string, error) {
	var sb strings.Builder
	for i, e := range els {
		switch {
		case e.Type == model.ElementTypeHeading && e.Heading != nil:
			sb.WriteString(e.Heading.Text)
		case e.Type == model.ElementTypeList && e.List != nil:
			listText(e.List.Items, &sb)
		case e.Type == model.ElementTypeParagraph && e.Paragraph != nil:
			sb.WriteString(e.Paragraph.Text)
		default:
			return "", fmt.Errorf("Analyzer.Analyze: element %d of type %v has no Heading/List/Paragraph part", i, e.Type)
		}
		sb.WriteByte('\n')
	}
	return sb.String(), nil
}

func checkAnalyzer(c Case) error {
	in := c.Page.Fragments()
	w, h := c.Page.Box()
	res := layout.NewAnalyzer().Analyze(in, w, h)
	quick := layout.NewAnalyzer().QuickAnalyze(in, w, h)
	var flat strings.Builder
	for _, e := range res.Elements {
		flat.WriteString(e.Text)
		flat.WriteByte('\n')
	}
	st, err := structuredText(res.Elements)
	if err != nil {
		return err
	}
	qst, err := structuredText(quick.Elements)
	if err != nil {
		return err
	}
	return first(
		sameRunes("Analyzer.Analyze: Heading.Text / List items / Paragraph.Text the Elements point at", in, st),
		sameRunes("Analyzer.QuickAnalyze: Paragraph.Text the Elements point at", in, qst),
		sameRunes("Analyzer.Analyze: text of all Elements (list elements: prefix+text of every item incl. nested)", in, elementsText(res.Elements)),
		sameRunes("Analyzer.Analyze: LayoutElement.Text of all Elements", in, flat.String()),
		sameRunes("AnalysisResult.GetText", in, res.GetText()),
		sameRunes("Analyzer.QuickAnalyze: text of all Elements", in, elementsText(quick.Elements)),
	)
}

func init() {
	vr.Register("lines", checkLines)
	vr.Register("columns", checkColumns)
	vr.Register("reading", checkReading)
	vr.Register("paragraphs", checkParagraphs)
	vr.Register("blocks", checkBlocks)
	vr.Register("analyzer", checkAnalyzer)
}

func TestLines(t *testing.T) { vr.Prop(t, "lines", vr.N(6000, 100000), genCase, meta, checkLines) }
func TestColumns(t *testing.T) {
	vr.Prop(t, "columns", vr.N(6000, 100000), genCase, meta, checkColumns)
}
func TestReading(t *testing.T) {
	vr.Prop(t, "reading", vr.N(6000, 100000), genCase, meta, checkReading)
}
func TestParagraphs(t *testing.T) {
	vr.Prop(t, "paragraphs", vr.N(6000, 100000), genCase, meta, checkParagraphs)
}
func TestBlocks(t *testing.T) { vr.Prop(t, "blocks", vr.N(6000, 100000), genCase, meta, checkBlocks) }
func TestAnalyzer(t *testing.T) {
	vr.Prop(t, "analyzer", vr.N(6000, 100000), genCase, meta, checkAnalyzer)
}
