// C20 — Files are admitted by content; mismatches and DRM are refused.
//
// Generator: one valid document of each of the seven formats (from the
// independent writers) x file name (own extension, every other supported
// extension, upper/mixed case, .htm, none) x ZIP member order x decoy members
// carrying other formats' directory prefixes; EPUBs x encryption metadata
// (subsets of manifest items x algorithm URIs x URI spellings) x rights file.
//
// Oracle: format.DetectFromReader names the document's true format for every
// naming and member order; under its own extension the document opens and
// yields its token; under another supported extension every terminal
// operation returns an error; DRM => errors.Is(err, epubdoc.ErrDRMProtected);
// font obfuscation only => same text as the unencrypted twin.
package c20

import (
	"archive/zip"
	"bytes"
	"encoding/json"
	"errors"
	"fmt"
	"os"
	"path/filepath"
	"sort"
	"strings"
	"testing"

	"github.com/tsawler/tabula"
	"github.com/tsawler/tabula/epubdoc"
	"github.com/tsawler/tabula/format"
	"pgregory.net/rapid"

	"verif/harness/gen/docxw"
	"verif/harness/gen/epubw"
	"verif/harness/gen/odtw"
	"verif/harness/gen/pdfw"
	"verif/harness/gen/pptxw"
	"verif/harness/gen/wpmodel"
	"verif/harness/gen/xlsxw"
	"verif/harness/gen/zipw"
	"verif/harness/vr"
)

var tmpDir string

func TestMain(m *testing.M) {
	d, err := os.MkdirTemp("", "verif-c20-")
	if err != nil {
		fmt.Println("INFRA:", err)
		os.Exit(3)
	}
	tmpDir = d
	vr.AtExit(func() { os.RemoveAll(d) })
	vr.Main(m)
}

var formats = []string{"pdf", "docx", "odt", "xlsx", "pptx", "epub", "html"}

var ownExt = map[string]string{"pdf": ".pdf", "docx": ".docx", "odt": ".odt", "xlsx": ".xlsx", "pptx": ".pptx", "epub": ".epub", "html": ".html"}

var fmtOf = map[string]format.Format{"pdf": format.PDF, "docx": format.DOCX, "odt": format.ODT, "xlsx": format.XLSX,
	"pptx": format.PPTX, "epub": format.EPUB, "html": format.HTML}

// ---------------------------------------------------------------------------
// base documents: canonical member lists (ZIP formats) or raw bytes, each holding `token` in its body

func para(text string) wpmodel.Block {
	return wpmodel.Block{Kind: wpmodel.BPara, Runs: wpmodel.Para{wpmodel.Run{Items: []wpmodel.Inline{{Kind: wpmodel.KText, Text: text}}}}}
}

func members(f, token string) ([]zipw.Member, error) {
	conv := func(ms []wpmodel.Member, err error) ([]zipw.Member, error) {
		var out []zipw.Member
		for _, m := range ms {
			out = append(out, zipw.Member{Name: m.Name, Data: m.Data, Stored: m.Store})
		}
		return out, err
	}
	switch f {
	case "docx":
		return conv(docxw.Parts(wpmodel.Doc{Blocks: []wpmodel.Block{para(token), para("second paragraph")}}, docxw.Options{}))
	case "odt":
		return conv(odtw.Parts(wpmodel.Doc{Blocks: []wpmodel.Block{para(token), para("second paragraph")}}, odtw.Options{}))
	case "xlsx":
		wb := xlsxw.Workbook{Sheets: []xlsxw.Sheet{{Name: "Data", Cells: []xlsxw.Cell{
			{Row: 0, Col: 0, Kind: xlsxw.Inline, Text: token}, {Row: 1, Col: 0, Kind: xlsxw.Number, Text: "42"}}}}}
		if err := wb.Validate(); err != nil {
			return nil, err
		}
		return wb.Members()
	case "pptx":
		dk := pptxw.Deck{Slides: []pptxw.Slide{{Title: token, Body: []pptxw.Para{{Text: "body text"}}}}}
		if err := dk.Validate(); err != nil {
			return nil, err
		}
		return dk.Members()
	}
	return nil, fmt.Errorf("no member list for %s", f)
}

func epubBook(token string, nChapters int) epubw.Book {
	b := epubw.Book{Version: "3.0", OPFPath: "OEBPS/content.opf", Title: "Book", Creator: "A", Language: "en", Identifier: "urn:uuid:1"}
	for i := 0; i < nChapters; i++ {
		tk := token
		if i > 0 {
			tk = fmt.Sprintf("%sc%d", token, i)
		}
		b.Items = append(b.Items, epubw.Item{ID: fmt.Sprintf("ch%d", i), Path: fmt.Sprintf("text/ch%d.xhtml", i),
			Chapter: epubw.Chapter{Title: "T", Heading: "Chapter", Paras: []string{tk}}})
		b.Spine = append(b.Spine, epubw.SpineRef{Item: i})
	}
	// non-content resources that may legitimately be obfuscated / encrypted
	b.Items = append(b.Items,
		epubw.Item{ID: "font1", Path: "fonts/f1.otf", MediaType: "font/otf", Data: []byte("OTTO-not-a-real-font")},
		epubw.Item{ID: "css1", Path: "style.css", MediaType: "text/css", Data: []byte("p{margin:0}")},
		epubw.Item{ID: "img1", Path: "img/a.png", MediaType: "image/png", Data: []byte("\x89PNG\r\n\x1a\n")},
		epubw.Item{ID: "nav", Path: "nav.xhtml", Role: "nav"})
	return b
}

func htmlDoc(token string) []byte {
	return []byte("<!DOCTYPE html>\n<html><head><title>t</title></head><body><h1>Heading</h1><p>" + token + "</p></body></html>\n")
}

func pdfDoc(token, version string) []byte {
	d := pdfw.Doc{Fonts: []pdfw.FontSpec{{Res: "F1", Kind: "t1win", Base: "Helvetica"}},
		Pages: []pdfw.Page{{ID: 1, MediaBox: [4]float64{0, 0, 612, 792}, Lines: []pdfw.Line{{Font: 0, Size: 12, X: 72, Y: 700, Bytes: []byte(token), Text: token}}}}}
	return pdfw.Write([]pdfw.Doc{d}, pdfw.Layout{Version: version}).Bytes
}

// ---------------------------------------------------------------------------
// case

type Decoy struct {
	Name  string `json:"name"`
	Front bool   `json:"front"` // placed before all other members (after the pinned mimetype)
}

type Enc struct {
	Item      int    `json:"item"`      // index into the book's items
	Algorithm string `json:"algorithm"` // full URI
	Spelling  string `json:"spelling"`  // plain | dot | encoded | upper
}

type Case struct {
	Format   string     `json:"format"`
	Token    string     `json:"token"`
	FileName string     `json:"file_name"` // base name incl. extension ("" extension = none)
	Order    zipw.Order `json:"order"`
	Decoys   []Decoy    `json:"decoys,omitempty"`
	// Embed: the package holds an embedded object of another Office format: a member under <own dir>/embeddings/
	// and a <Default Extension=… ContentType=…/> entry for it in [Content_Types].xml (OPC §10.1.2.2.2), as
	// Office writes for an embedded document, workbook or presentation.
	Embed string `json:"embed,omitempty"` // "" | docx | xlsx | pptx
	// EPUB only
	Chapters int   `json:"chapters,omitempty"`
	Rights   bool  `json:"rights,omitempty"`
	Enc      []Enc `json:"enc,omitempty"`
	EmptyEnc bool  `json:"empty_enc,omitempty"` // an encryption.xml without entries
	// ExtCase: letter case of the chapter files' extension: "" (.xhtml), upper (.XHTML), mixed (.Xhtml)
	ExtCase string `json:"ext_case,omitempty"`
	// PDF only: the header version ("" = 1.7); 2.0 is ISO 32000-2
	PDFVersion string `json:"pdf_version,omitempty"`
	// Swap: after the case has been judged, the file is overwritten with a valid document of this format (same
	// name) and judged again
	Swap string `json:"swap,omitempty"`
}

func init() { vr.Register("admit", checkCase) }

const (
	algIDPF    = "http://www.idpf.org/2008/embedding"
	algAdobe   = "http://ns.adobe.com/pdf/enc#RC"
	algAES128  = "http://www.w3.org/2001/04/xmlenc#aes128-cbc"
	algAES256  = "http://www.w3.org/2001/04/xmlenc#aes256-cbc"
	algGCM     = "http://www.w3.org/2009/xmlenc11#aes256-gcm"
	algUnknown = "http://example.com/custom-protection#v1"
	// encryption (not obfuscation) algorithms whose identifiers live next to the obfuscation ones
	algAdobeAES  = "http://ns.adobe.com/adept/enc#aes128-cbc"
	algIDPFOther = "http://www.idpf.org/2008/embedding-extra"
)

func obfuscation(alg string) bool { return alg == algIDPF || alg == algAdobe }

func spellURI(path, how string) string {
	switch how {
	case "encoded":
		return strings.ReplaceAll(epubw.EncodePath(path, ""), "t", "%74") // percent-encoding of an unreserved character is equivalent (RFC 3986 6.2.2.2)
	case "dot":
		return "./" + path
	case "extesc":
		// every character of the extension, and its dot, as a percent escape (RFC 3986 2.1: equivalent)
		i := strings.LastIndexByte(path, '.')
		var sb strings.Builder
		sb.WriteString(epubw.EncodePath(path[:i], ""))
		for k := i; k < len(path); k++ {
			fmt.Fprintf(&sb, "%%%02X", path[k])
		}
		return sb.String()
	}
	return path
}

func (c Case) build() ([]byte, error) {
	switch c.Format {
	case "pdf":
		return pdfDoc(c.Token, c.PDFVersion), nil
	case "html":
		return htmlDoc(c.Token), nil
	}
	var ms []zipw.Member
	var err error
	pin := -1
	if c.Format == "epub" {
		b := epubBook(c.Token, max1(c.Chapters))
		for i := range b.Items {
			if strings.HasSuffix(b.Items[i].Path, ".xhtml") && b.Items[i].Role == "" {
				switch c.ExtCase {
				case "upper":
					b.Items[i].Path = strings.TrimSuffix(b.Items[i].Path, ".xhtml") + ".XHTML"
				case "mixed":
					b.Items[i].Path = strings.TrimSuffix(b.Items[i].Path, ".xhtml") + ".Xhtml"
				}
			}
		}
		if c.Rights {
			b.Rights = epubw.DefaultRights
		}
		for _, e := range c.Enc {
			b.Encryption = append(b.Encryption, epubw.EncEntry{URI: spellURI(b.ZipName(e.Item), e.Spelling), Algorithm: e.Algorithm})
		}
		b.HasEncFile = len(c.Enc) > 0 || c.EmptyEnc
		if err := b.Validate(); err != nil {
			return nil, err
		}
		ms, err = b.Members()
	} else {
		ms, err = members(c.Format, c.Token)
	}
	if err != nil {
		return nil, err
	}
	if c.Embed != "" && (c.Format == "docx" || c.Format == "xlsx" || c.Format == "pptx") {
		ct := map[string]string{"docx": "application/vnd.openxmlformats-officedocument.wordprocessingml.document",
			"xlsx": "application/vnd.openxmlformats-officedocument.spreadsheetml.sheet",
			"pptx": "application/vnd.openxmlformats-officedocument.presentationml.presentation"}[c.Embed]
		dir := map[string]string{"docx": "word", "xlsx": "xl", "pptx": "ppt"}[c.Format]
		for i, m := range ms {
			if m.Name == "[Content_Types].xml" {
				def := fmt.Sprintf(`<Default Extension="%s" ContentType="%s"/>`, c.Embed, ct)
				ms[i].Data = bytes.Replace(m.Data, []byte("<Default "), []byte(def+"<Default "), 1)
			}
		}
		ms = append(ms, zipw.Member{Name: dir + "/embeddings/Embedded_Object1." + c.Embed, Data: []byte("PK\x03\x04 (an embedded package; opaque to the host document)")})
	}
	for i, m := range ms {
		if m.Name == "mimetype" {
			pin = i // OCF 3.3 / ODF 1.2 part 3 §3.3: the mimetype member comes first, stored
		}
	}
	if pin >= 0 {
		ms = zipw.Arrange(ms, c.Order, pin)
	} else {
		ms = zipw.Arrange(ms, c.Order)
	}
	// decoy members: a package may hold parts no relationship refers to (OPC §8.3, OCF 3.3 "other files")
	var front, back []zipw.Member
	for _, d := range c.Decoys {
		m := zipw.Member{Name: d.Name, Data: []byte("<?xml version=\"1.0\"?><decoy>not part of the document</decoy>")}
		if d.Front {
			front = append(front, m)
		} else {
			back = append(back, m)
		}
	}
	if len(front) > 0 {
		if pin >= 0 {
			ms = append(append(append([]zipw.Member{}, ms[0]), front...), ms[1:]...)
		} else {
			ms = append(front, ms...)
		}
	}
	ms = append(ms, back...)
	return zipw.Bytes(ms)
}

func max1(n int) int {
	if n < 1 {
		return 1
	}
	return n
}

type outcome struct {
	text string
	err  error
}

func openAll(path string) map[string]outcome {
	o := map[string]outcome{}
	t, _, err := tabula.Open(path).Text()
	o["Text"] = outcome{t, err}
	m, _, err := tabula.Open(path).ToMarkdown()
	o["ToMarkdown"] = outcome{m, err}
	d, _, err := tabula.Open(path).Document()
	dt := ""
	if err == nil && d != nil {
		for _, p := range d.Pages {
			dt += p.ExtractText() + "\n"
		}
	}
	o["Document"] = outcome{dt, err}
	cc, _, err := tabula.Open(path).Chunks()
	ct := ""
	if err == nil && cc != nil {
		for _, c := range cc.Chunks {
			ct += c.Text + "\n"
		}
	}
	o["Chunks"] = outcome{ct, err}
	return o
}

func checkCase(c Case) error {
	dir, err := os.MkdirTemp(tmpDir, "c")
	if err != nil {
		return fmt.Errorf("INFRA: %v", err)
	}
	defer os.RemoveAll(dir)
	if err := judge(c, dir); err != nil {
		return err
	}
	if c.Swap != "" {
		// the same path now holds another document: admission looks at the bytes that are there now
		second := Case{Format: c.Swap, Token: c.Token + "second", FileName: c.FileName, Chapters: 1}
		if err := judge(second, dir); err != nil {
			return fmt.Errorf("after %s content at the same path was replaced by %s content: %v", c.Format, c.Swap, err)
		}
	}
	return nil
}

// judge writes the case's document under its file name into dir and checks every clause.
func judge(c Case, dir string) error {
	data, err := c.build()
	if err != nil {
		return fmt.Errorf("INFRA: writer: %v", err)
	}
	path := filepath.Join(dir, c.FileName)
	if err := os.WriteFile(path, data, 0o644); err != nil {
		return fmt.Errorf("INFRA: %v", err)
	}

	// (1) detection by content, whatever the name or member order
	got, derr := format.DetectFromReader(bytes.NewReader(data), int64(len(data)))
	if derr != nil || got != fmtOf[c.Format] {
		return fmt.Errorf("DetectFromReader = %v (err %v) for a valid %s document (members: %s)", got, derr, c.Format, c.memberNames(data))
	}

	ext := strings.ToLower(filepath.Ext(c.FileName))
	nameFmt := format.Detect(c.FileName) // the format the name promises
	res := openAll(path)
	ops := []string{"Text", "ToMarkdown", "Document", "Chunks"}

	drm, judged := c.drmExpectation()
	switch {
	case nameFmt == fmtOf[c.Format] && c.Format == "epub" && judged && drm:
		for _, op := range ops {
			if !errors.Is(res[op].err, epubdoc.ErrDRMProtected) {
				return fmt.Errorf("%s() on a DRM-protected EPUB (rights=%v enc=%+v): err = %v, want ErrDRMProtected", op, c.Rights, c.Enc, res[op].err)
			}
		}
		if _, err := epubdoc.Open(path); !errors.Is(err, epubdoc.ErrDRMProtected) {
			return fmt.Errorf("epubdoc.Open on a DRM-protected EPUB: err = %v, want ErrDRMProtected", err)
		}
		if _, err := epubdoc.OpenReader(bytes.NewReader(data), int64(len(data))); !errors.Is(err, epubdoc.ErrDRMProtected) {
			return fmt.Errorf("epubdoc.OpenReader on a DRM-protected EPUB: err = %v, want ErrDRMProtected", err)
		}
	case nameFmt == fmtOf[c.Format] && (c.Format != "epub" || (judged && !drm)):
		// own extension (any case, .htm): opens and yields its token
		for _, op := range ops {
			if res[op].err != nil {
				return fmt.Errorf("%s() failed for a valid %s document named %q (members: %s): %v", op, c.Format, c.FileName, c.memberNames(data), res[op].err)
			}
			if !strings.Contains(res[op].text, c.Token) {
				return fmt.Errorf("%s() of %q lacks the document's text %q: %.200q", op, c.FileName, c.Token, res[op].text)
			}
		}
		if c.Format == "epub" && (len(c.Enc) > 0 || c.EmptyEnc) {
			// font obfuscation only: same text as the twin without encryption metadata
			twin := c
			twin.Enc, twin.EmptyEnc = nil, false
			td, err := twin.build()
			if err != nil {
				return fmt.Errorf("INFRA: %v", err)
			}
			tp := filepath.Join(dir, "twin.epub")
			os.WriteFile(tp, td, 0o644)
			tt, _, terr := tabula.Open(tp).Text()
			if terr != nil || tt != res["Text"].text {
				return fmt.Errorf("EPUB with obfuscated fonts only (%+v) reads differently from its unencrypted twin (twin err %v)", c.Enc, terr)
			}
		}
	case nameFmt != format.Unknown && nameFmt != fmtOf[c.Format]:
		// another supported extension: refused, never mis-parsed
		for _, op := range ops {
			if res[op].err == nil {
				return fmt.Errorf("%s() of %s content named %q succeeded (%.80q); the same bytes under another supported extension must be refused", op, c.Format, c.FileName, res[op].text)
			}
		}
		// ... also when asked again, or through an extractor derived from the refused one
		e := tabula.Open(path)
		if _, _, err := e.Text(); err == nil {
			return fmt.Errorf("Text() of %s content named %q succeeded", c.Format, c.FileName)
		}
		if t, _, err := e.Text(); err == nil {
			return fmt.Errorf("second Text() on the same extractor of %s content named %q succeeded (%.80q) after the first one was refused", c.Format, c.FileName, t)
		}
		if t, _, err := e.ToMarkdown(); err == nil {
			return fmt.Errorf("ToMarkdown() on the same extractor of %s content named %q succeeded (%.80q) after Text() was refused", c.Format, c.FileName, t)
		}
		if t, _, err := e.ExcludeHeaders().Text(); err == nil {
			return fmt.Errorf("Text() on an extractor derived from a refused one (%s content named %q) succeeded (%.80q)", c.Format, c.FileName, t)
		}
		e.Close()
	case ext == "" || nameFmt == format.Unknown:
		// no / unknown extension: an error or the correct text
		for _, op := range ops {
			if res[op].err == nil && res[op].text != "" && !strings.Contains(res[op].text, c.Token) {
				return fmt.Errorf("%s() of %q (no supported extension) returned foreign text %.80q", op, c.FileName, res[op].text)
			}
		}
	}
	return nil
}

// drmExpectation: (protected?, judged?). Unspecified combinations are not judged.
func (c Case) drmExpectation() (drm bool, judged bool) {
	if c.Format != "epub" {
		return false, true
	}
	if c.Rights {
		return true, true
	}
	b := epubBook(c.Token, max1(c.Chapters))
	judged = true
	for _, e := range c.Enc {
		it := b.Items[e.Item]
		content := it.MediaType == "" // XHTML content documents (chapters and the navigation document)
		font := strings.HasPrefix(it.MediaType, "font/")
		switch {
		case content && !obfuscation(e.Algorithm):
			return true, true // a content document under real encryption
		case font && obfuscation(e.Algorithm):
			// the one sanctioned use of encryption.xml in an unprotected book
		default:
			// "obfuscated" content documents, style sheets or images; fonts/images/CSS under AES: unspecified
			judged = false
		}
	}
	return false, judged
}

func (c Case) memberNames(data []byte) string {
	if c.Format == "pdf" || c.Format == "html" {
		return "-"
	}
	var names []string
	for _, m := range readNames(data) {
		names = append(names, m)
	}
	return strings.Join(names, ",")
}

// ---------------------------------------------------------------------------
// generators

var caseNames = []string{"document", "My File", "a.b", "UPPER"}

func genExt(t *rapid.T, own string) string {
	all := []string{".pdf", ".docx", ".odt", ".xlsx", ".pptx", ".epub", ".html", ".htm"}
	switch rapid.SampledFrom([]string{"own", "own", "own-upper", "own-mixed", "other", "other", "other", "none", "unknown"}).Draw(t, "extKind") {
	case "own":
		if own == ".html" && rapid.Bool().Draw(t, "htm") {
			return ".htm"
		}
		return own
	case "own-upper":
		return strings.ToUpper(own)
	case "own-mixed":
		return "." + strings.ToUpper(own[1:2]) + own[2:]
	case "other":
		e := rapid.SampledFrom(all).Draw(t, "other")
		if rapid.Bool().Draw(t, "otherUpper") {
			e = strings.ToUpper(e)
		}
		return e
	case "none":
		return ""
	}
	return rapid.SampledFrom([]string{".txt", ".zip", ".xml", ".doc"}).Draw(t, "unknownExt")
}

var decoyNames = []string{"word/decoy.xml", "xl/decoy.xml", "ppt/decoy.xml", "word/embeddings/sheet1.xlsx.xml", "xl/embeddings/doc1.xml",
	"ppt/embeddings/book.xml", "customXml/item1.xml", "docProps/thumbnail.xml"}

func genDecoys(t *rapid.T, f string) []Decoy {
	var ds []Decoy
	n := rapid.SampledFrom([]int{0, 0, 1, 1, 2}).Draw(t, "nDecoys")
	for i := 0; i < n; i++ {
		name := rapid.SampledFrom(decoyNames).Draw(t, "decoy")
		dup := false
		for _, d := range ds {
			dup = dup || d.Name == name
		}
		if dup {
			continue
		}
		front := rapid.Bool().Draw(t, "front")
		// while the prefix-sniffing defect is open, keep foreign-prefix decoys behind the real parts
		if front && foreignPrefix(f, name) && !vr.Want("decoy-foreign-prefix-first", true) {
			front = false
		}
		ds = append(ds, Decoy{Name: name, Front: front})
	}
	return ds
}

func foreignPrefix(f, name string) bool {
	own := map[string]string{"docx": "word/", "xlsx": "xl/", "pptx": "ppt/"}[f]
	for _, p := range []string{"word/", "xl/", "ppt/"} {
		if strings.HasPrefix(name, p) && p != own {
			return true
		}
	}
	return false
}

func genAdmission(t *rapid.T) Case {
	f := rapid.SampledFrom(formats).Draw(t, "format")
	c := Case{Format: f, Token: fmt.Sprintf("tok%dz", rapid.IntRange(1000, 9999).Draw(t, "tok"))}
	c.FileName = rapid.SampledFrom(caseNames).Draw(t, "base") + genExt(t, ownExt[f])
	if f != "pdf" && f != "html" {
		c.Order = zipw.GenOrder(t, "order")
		if f == "docx" || f == "xlsx" || f == "pptx" {
			c.Decoys = genDecoys(t, f)
			if rapid.IntRange(0, 2).Draw(t, "embed") == 0 {
				c.Embed = rapid.SampledFrom([]string{"docx", "xlsx", "pptx"}).Draw(t, "embedKind")
			}
		}
	}
	if f == "epub" {
		c.Chapters = rapid.IntRange(1, 3).Draw(t, "chapters")
		c.ExtCase = rapid.SampledFrom([]string{"", "", "upper", "mixed"}).Draw(t, "extCase")
	}
	if rapid.IntRange(0, 3).Draw(t, "swap") == 0 {
		c.Swap = rapid.SampledFrom(formats).Draw(t, "swapFormat")
		if c.Swap == f {
			c.Swap = ""
		}
	}
	if f == "pdf" {
		c.PDFVersion = rapid.SampledFrom([]string{"", "1.4", "1.0", "2.0", "2.0"}).Draw(t, "pdfVersion")
	}
	return c
}

func genDRM(t *rapid.T) Case {
	c := Case{Format: "epub", Token: fmt.Sprintf("tok%dz", rapid.IntRange(1000, 9999).Draw(t, "tok")), Chapters: rapid.IntRange(1, 3).Draw(t, "chapters")}
	c.FileName = "book" + rapid.SampledFrom([]string{".epub", ".epub", ".EPUB", ".Epub"}).Draw(t, "ext")
	c.Order = zipw.GenOrder(t, "order")
	c.Rights = rapid.IntRange(0, 5).Draw(t, "rights") == 0
	nItems := c.Chapters + 4
	k := rapid.SampledFrom([]int{0, 1, 1, 2, 3}).Draw(t, "nEnc")
	seen := map[int]bool{}
	for i := 0; i < k; i++ {
		it := rapid.IntRange(0, nItems-1).Draw(t, "item")
		if seen[it] {
			continue
		}
		seen[it] = true
		c.Enc = append(c.Enc, Enc{Item: it,
			Algorithm: rapid.SampledFrom([]string{algIDPF, algIDPF, algAdobe, algAES128, algAES256, algGCM, algUnknown, algAdobeAES, algIDPFOther}).Draw(t, "alg"),
			Spelling:  rapid.SampledFrom([]string{"plain", "plain", "encoded", "dot", "extesc"}).Draw(t, "spelling")})
	}
	c.EmptyEnc = len(c.Enc) == 0 && rapid.Bool().Draw(t, "emptyEnc")
	c.ExtCase = rapid.SampledFrom([]string{"", "", "upper", "mixed"}).Draw(t, "extCase")
	return c
}

func meta(c Case) vr.Meta {
	js, _ := json.Marshal(c)
	nameFmt := format.Detect(c.FileName)
	labels := []string{"format:" + c.Format}
	nt := false
	switch {
	case nameFmt == fmtOf[c.Format]:
		labels = append(labels, "name:own")
	case nameFmt == format.Unknown:
		labels = append(labels, "name:none-or-unknown")
	default:
		labels = append(labels, "name:other-supported")
		nt = true
	}
	if c.Embed != "" {
		nt = true
		labels = append(labels, "embedded:"+c.Embed)
	}
	if len(c.Decoys) > 0 {
		nt = true
		labels = append(labels, "decoy")
		for _, d := range c.Decoys {
			if d.Front && foreignPrefix(c.Format, d.Name) {
				labels = append(labels, "decoy-foreign-prefix-first")
			}
		}
	}
	if c.Order.Mode != "" {
		labels = append(labels, "order:"+c.Order.Mode)
	}
	if len(c.Enc) > 0 || c.Rights || c.EmptyEnc {
		nt = true
		drm, judged := c.drmExpectation()
		labels = append(labels, fmt.Sprintf("drm:%v/judged:%v", drm, judged))
		for _, e := range c.Enc {
			labels = append(labels, "alg:"+e.Algorithm[strings.LastIndexAny(e.Algorithm, "/#")+1:])
		}
	}
	sort.Strings(labels)
	if c.PDFVersion != "" {
		labels = append(labels, "pdf-version:"+c.PDFVersion)
	}
	if c.Swap != "" {
		labels = append(labels, "file-replaced-by-another-format")
	}
	if c.ExtCase != "" {
		labels = append(labels, "chapter-extension:"+c.ExtCase)
	}
	for _, e := range c.Enc {
		labels = append(labels, "uri-spelling:"+e.Spelling)
	}
	return vr.Meta{FP: string(js), NonTrivial: nt, Labels: labels}
}

func TestAdmission(t *testing.T) {
	vr.Prop(t, "admit", vr.N(2500, 50000), genAdmission, meta, checkCase)
}

func TestDRM(t *testing.T) {
	vr.Prop(t, "admit", vr.N(1500, 30000), genDRM, meta, checkCase)
}

// TestPairings enumerates every format x every supported extension spelling exhaustively (canonical member order).
func TestPairings(t *testing.T) {
	exts := []string{".pdf", ".docx", ".odt", ".xlsx", ".pptx", ".epub", ".html", ".htm", ".PDF", ".DOCX", ".ODT", ".XLSX", ".PPTX", ".EPUB", ".HTML", ".HTM", ".Pdf", ".Docx", ""}
	i := 0
	for _, f := range formats {
		for _, e := range exts {
			i++
			if !vr.Mine(i) {
				continue
			}
			c := Case{Format: f, Token: fmt.Sprintf("tok%dz", 5000+i), FileName: "doc" + e, Chapters: 2}
			if !vr.One(t, "admit", c, meta(c), checkCase) {
				return
			}
		}
	}
	vr.Exhaustive("7 formats x 19 file-name extensions (canonical member order)")
}

func readNames(data []byte) []string {
	zr, err := zip.NewReader(bytes.NewReader(data), int64(len(data)))
	if err != nil {
		return nil
	}
	var out []string
	for _, f := range zr.File {
		out = append(out, f.Name)
	}
	return out
}
