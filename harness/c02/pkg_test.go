package c02

// Generated packages: one rich document per ZIP format from the independent
// writers (tables with merged cells, nested lists, headers and footers, notes,
// navigation documents …) instead of the repository's samples, and an
// XML-level catalogue that is exhaustive for them:
//
//   - every attribute value := hostile values chosen by its shape (numbers, cell
//     references, ranges, everything else := "" and a very long string);
//   - every reference-like attribute (Target, href, src, full-path, r:id, r:embed,
//     idref, ...) retargeted to every member of the package - itself, its own
//     relationship part, the package root - and to ids used elsewhere;
//   - every distinct element (by name, first occurrence per member): deleted,
//     repeated up to 100 times (at most 600 KB), nested 3000 deep inside copies of its own start tag.

import (
	"fmt"
	"regexp"
	"sort"
	"strconv"
	"strings"
	"testing"

	"pgregory.net/rapid"

	"verif/harness/gen/docxw"
	"verif/harness/gen/epubw"
	"verif/harness/gen/odtw"
	"verif/harness/gen/pptxw"
	"verif/harness/gen/wpmodel"
	"verif/harness/gen/xlsxw"
	"verif/harness/vr"
)

type pkgDoc struct {
	name, ext string
	ms        []member
}

func fromWP(ms []wpmodel.Member) []member {
	var out []member
	for _, m := range ms {
		meth := uint16(8)
		if m.Store {
			meth = 0
		}
		out = append(out, member{m.Name, m.Data, meth})
	}
	return out
}

// richness: prefer examples with many parts and much structure, but small
func pickRich[T any](g *rapid.Generator[T], seeds []int, score func(T) int) T {
	var best T
	bs := -1
	for _, s := range seeds {
		v := g.Example(s)
		if sc := score(v); sc > bs {
			best, bs = v, sc
		}
	}
	return best
}

func generatedPackages(thorough bool) []pkgDoc {
	seeds := []int{11, 12, 13, 14, 15, 16, 17, 18, 19, 20, 21, 22}
	var out []pkgDoc
	wp := pickRich(rapid.Custom(func(t *rapid.T) wpmodel.Doc {
		return wpmodel.GenDoc(t, wpmodel.GenOpts{MaxBlocks: 6, Wraps: []string{"link", "ins"}})
	}), seeds, func(d wpmodel.Doc) int {
		sc := 0
		for _, b := range d.Blocks {
			switch b.Kind {
			case wpmodel.BTable:
				sc += 5
			case wpmodel.BItem, wpmodel.BHeading:
				sc += 2
			default:
				sc++
			}
		}
		if d.Header != nil {
			sc += 3
		}
		if d.Footer != nil {
			sc += 3
		}
		return sc
	})
	// and, whatever was drawn, a table whose cells span rows and columns at once: A spans two rows, B two columns,
	// C (pushed right by A) two rows and two columns
	cellP := func(s string) []wpmodel.Para {
		return []wpmodel.Para{{wpmodel.Run{Items: []wpmodel.Inline{{Kind: wpmodel.KText, Text: s}}}}}
	}
	wp.Blocks = append(wp.Blocks, wpmodel.Block{Kind: wpmodel.BTable, Table: &wpmodel.Table{Rows: 3, Cols: 3, Cells: []wpmodel.Cell{
		{R: 0, C: 0, RS: 2, CS: 1, Paras: cellP("A")}, {R: 0, C: 1, RS: 1, CS: 2, Paras: cellP("B")},
		{R: 1, C: 1, RS: 2, CS: 2, Paras: cellP("C")}, {R: 2, C: 0, RS: 1, CS: 1, Paras: cellP("E")}}}})
	// and a list that uses every numbering format, one level each, with two items per level (the number of an item
	// is formatted from the level's start value and its position)
	wp.Lists = append(wp.Lists, wpmodel.ListDef{Kinds: []string{wpmodel.LDecimal, wpmodel.LLowerRoman, wpmodel.LUpperRoman,
		wpmodel.LLowerLetter, wpmodel.LUpperLetter, wpmodel.LBullet}})
	for depth := 0; depth < 6; depth++ {
		for k := 0; k < 2; k++ {
			wp.Blocks = append(wp.Blocks, wpmodel.Block{Kind: wpmodel.BItem, List: len(wp.Lists) - 1, Depth: depth,
				Runs: cellP(fmt.Sprintf("item %d.%d", depth, k))[0]})
		}
	}
	if err := wp.Validate(); err != nil {
		panic("INFRA: the explicit span table or list is not valid: " + err.Error())
	}
	if ms, err := docxw.Parts(wp, docxw.Options{AlwaysStyles: true, AlwaysNumbering: true, Settings: true, SectPr: true, TableStyle: true}); err == nil {
		out = append(out, pkgDoc{"generated.docx", ".docx", fromWP(ms)})
	}
	if ms, err := odtw.Parts(wp, odtw.Options{}); err == nil {
		out = append(out, pkgDoc{"generated.odt", ".odt", fromWP(ms)})
	}
	wb := pickRich(rapid.Custom(func(t *rapid.T) xlsxw.Workbook {
		return xlsxw.GenWorkbook(t, xlsxw.GenConfig{MaxSheets: 2, MaxCells: 10, MaxRow: 30, MaxCol: 30})
	}), seeds, func(w xlsxw.Workbook) int {
		sc := 0
		for _, s := range w.Sheets {
			sc += len(s.Cells) + 5*len(s.Merges)
		}
		return sc
	})
	if ms, err := wb.Members(); err == nil {
		var mm []member
		for _, m := range ms {
			mm = append(mm, member{m.Name, m.Data, 8})
		}
		out = append(out, pkgDoc{"generated.xlsx", ".xlsx", mm})
	}
	dk := pickRich(rapid.Custom(func(t *rapid.T) pptxw.Deck { return pptxw.GenDeck(t, 3, nil) }), seeds, func(d pptxw.Deck) int {
		sc := len(d.Slides) * 3
		for _, s := range d.Slides {
			if s.Notes != nil {
				sc += 4
			}
			sc += len(s.Body)
		}
		return sc
	})
	// whatever was drawn: one more slide with a table, footer placeholders in a group and a numbered sub-list
	dk.Slides = append(dk.Slides, pptxw.Slide{Title: "Table slide", Body: []pptxw.Para{{Text: "first", Bullet: "auto"}, {Text: "second", Level: 1, Bullet: "auto"}},
		Tables: []pptxw.Table{{Rows: [][]string{{"h1", "h2", "h3"}, {"a", "b", "c"}, {"d", "e", "f"}}}}, Footer: "footer text", SlideNum: "7", GroupFooters: true})
	if ms, err := dk.Members(); err == nil {
		var mm []member
		for _, m := range ms {
			mm = append(mm, member{m.Name, m.Data, 8})
		}
		out = append(out, pkgDoc{"generated.pptx", ".pptx", mm})
	}
	bk := pickRich(rapid.Custom(func(t *rapid.T) epubw.Book { return epubw.GenBook(t, 3, nil) }), seeds, func(b epubw.Book) int {
		return len(b.Items)*2 + len(b.Spine)
	})
	if ms, err := bk.Members(); err == nil {
		var mm []member
		for _, m := range ms {
			meth := uint16(8)
			if m.Stored {
				meth = 0
			}
			mm = append(mm, member{m.Name, m.Data, meth})
		}
		out = append(out, pkgDoc{"generated.epub", ".epub", mm})
	}
	_ = thorough
	return out
}

var (
	xmlAttr   = regexp.MustCompile(`\s([A-Za-z_][A-Za-z0-9_:.\-]*)\s*=\s*("[^"<]*"|'[^'<]*')`)
	startTag  = regexp.MustCompile(`<([A-Za-z_][A-Za-z0-9_:.\-]*)(\s[^<>]*)?>`)
	reNumber  = regexp.MustCompile(`^-?\d+$`)
	reCellRef = regexp.MustCompile(`^[A-Z]{1,3}\d+$`)
	reRange   = regexp.MustCompile(`^[A-Z]{1,3}\d+:[A-Z]{1,3}\d+$`)
	refAttrs  = map[string]bool{"Target": true, "href": true, "src": true, "full-path": true, "id": true, "embed": true, "idref": true,
		"toc": true, "link": true, "Id": true, "PartName": true, "style-name": true, "master-page-name": true, "list-style-name": true, "val": true}
)

func isXMLMember(name string) bool {
	for _, suf := range []string{".xml", ".rels", ".xhtml", ".opf", ".ncx", ".html", ".htm"} {
		if strings.HasSuffix(name, suf) {
			return true
		}
	}
	return false
}

func localName(n string) string {
	if i := strings.LastIndexByte(n, ':'); i >= 0 {
		return n[i+1:]
	}
	return n
}

func pkgFaults(d pkgDoc, stride int, emit emitFn) {
	k := 0
	add := func(fault string, build func() []byte) {
		k++
		if stride > 1 && k%stride != 0 {
			return
		}
		emit("file", d.ext, fault+" ["+d.name+"]", build)
	}
	with := func(i int, data []byte) []byte {
		x := append([]member{}, d.ms...)
		x[i] = member{d.ms[i].name, data, d.ms[i].method}
		return writeZip(x)
	}
	var names []string
	for _, m := range d.ms {
		names = append(names, m.name)
	}
	for i, m := range d.ms {
		if !isXMLMember(m.name) {
			continue
		}
		i, m := i, m
		// ids used in this member (targets for id-like attributes)
		idSet := map[string]bool{}
		for _, l := range xmlAttr.FindAllSubmatchIndex(m.data, -1) {
			if ln := localName(string(m.data[l[2]:l[3]])); ln == "id" || ln == "Id" || ln == "idref" {
				idSet[string(m.data[l[4]+1:l[5]-1])] = true
			}
		}
		var ids []string
		for id := range idSet {
			ids = append(ids, id)
		}
		sort.Strings(ids)
		if len(ids) > 6 {
			ids = ids[:6]
		}
		for _, l := range xmlAttr.FindAllSubmatchIndex(m.data, -1) {
			name := string(m.data[l[2]:l[3]])
			if strings.HasPrefix(name, "xmlns") {
				continue
			}
			vs, ve := l[4]+1, l[5]-1
			val := string(m.data[vs:ve])
			var hs []string
			switch {
			case reNumber.MatchString(val):
				hs = []string{"0", "-1", "2147483648", "1048577", "9223372036854775807", "", "1e9", "NaN"}
				if v, err := strconv.Atoi(val); err == nil && v >= 0 && v < 100 {
					// small counts, spans and levels: the neighbours and a few other small numbers (a span reaching
					// just past the table, a level one too deep)
					for _, c := range []int{v - 1, v + 1, 2, 3, 5, 9} {
						if c >= 0 && c != v {
							hs = append(hs, strconv.Itoa(c))
						}
					}
				}
			case reCellRef.MatchString(val):
				hs = []string{"XFD1048576", "A0", "A99999999999999999999", "ZZZZZZZZZZ1", "", "1A", "A-1"}
			case reRange.MatchString(val):
				hs = []string{"A1:XFD1048576", "B2:A1", "A1:A99999999999", "A1:", ":", "", "A1:ZZZZZZZ9"}
			default:
				hs = []string{"", strings.Repeat("A", 70000)}
			}
			if refAttrs[localName(name)] && !reNumber.MatchString(val) {
				for _, n := range names {
					hs = append(hs, n, "/"+n, "../"+n)
				}
				hs = append(hs, ".", "/", "..", "../../../../etc/passwd", "#", "?", "%", "%zz", "http://[::1", strings.Repeat("../", 2000))
				hs = append(hs, ids...)
			}
			smallNumber := false
			if v, err := strconv.Atoi(val); err == nil && v >= 0 && v < 100 {
				smallNumber = true
			}
			for _, h := range hs {
				h := h
				if h == val {
					continue
				}
				fault := fmt.Sprintf("%s: attribute %s=%q := %q", m.name, name, clipS(val), clipS(h))
				build := func() []byte { return with(i, splice(m.data, vs, ve-vs, h)) }
				if smallNumber && (h == "2147483648" || h == "9223372036854775807") {
					// counts, levels, spans and start values made enormous: never thinned out (a loop or an
					// allocation sized by one of them is the most likely way to hang or exhaust memory)
					emit("file", d.ext, fault+" ["+d.name+"]", build)
					continue
				}
				add(fault, build)
			}
		}
		// element-level faults, first occurrence of every element name
		seen := map[string]bool{}
		for _, l := range startTag.FindAllSubmatchIndex(m.data, -1) {
			name := string(m.data[l[2]:l[3]])
			if seen[name] || strings.HasPrefix(name, "?") {
				continue
			}
			seen[name] = true
			tag := string(m.data[l[0]:l[1]])
			selfClosing := strings.HasSuffix(tag, "/>")
			end := l[1]
			if !selfClosing {
				closeTag := "</" + name + ">"
				// the matching end tag: count nested starts of the same name
				depth, p := 1, l[1]
				for depth > 0 {
					ns := strings.Index(string(m.data[p:]), "<"+name)
					ne := strings.Index(string(m.data[p:]), closeTag)
					if ne < 0 {
						p = -1
						break
					}
					if ns >= 0 && ns < ne {
						// a start tag of the same name (or a longer name with this prefix: treated alike, harmless)
						q := p + ns + len(name) + 1
						if q < len(m.data) && (m.data[q] == ' ' || m.data[q] == '>' || m.data[q] == '/') {
							if gt := strings.IndexByte(string(m.data[q:]), '>'); gt >= 0 && m.data[q+gt-1] != '/' {
								depth++
							}
						}
						p = p + ns + 1
						continue
					}
					depth--
					p = p + ne + len(closeTag)
				}
				if p < 0 {
					continue
				}
				end = p
			}
			el := string(m.data[l[0]:end])
			s0, e0 := l[0], end
			// (element-level faults are few: never thinned out by the stride)
			add := func(fault string, build func() []byte) { emit("file", d.ext, fault+" ["+d.name+"]", build) }
			add(fmt.Sprintf("%s: element <%s> deleted", m.name, name), func() []byte { return with(i, splice(m.data, s0, e0-s0, "")) })
			// at most ~600 KB of additional XML: a case runs 24 operations on the file, and a reader that needs a
			// few hundred milliseconds per megabyte must not be mistaken for one that hangs
			// and at most 100 copies: a copied element that refers to other parts (a slide list entry, a spine
			// item) makes the reader load those parts once per copy - linear, but 24 operations times 500 - 2000 slides with their notes
			// exceeded the ceiling without anything hanging
			if times := min(100, 600000/len(el)); times >= 20 {
				add(fmt.Sprintf("%s: element <%s> repeated %d times", m.name, name, times), func() []byte {
					return with(i, splice(m.data, s0, 0, strings.Repeat(el, times)))
				})
			}
			if !selfClosing && !strings.Contains(string(m.data[l[1]:e0-len(name)-3]), "<") {
				// an element that holds text only: the text becomes very long (one word repeated; pipes; one unbroken run)
				c0, c1 := l[1], e0-len(name)-3
				for _, big := range []struct{ what, unit string }{{"600 KB of words", "lorem "}, {"600 KB of pipes", "|"}, {"a 600 KB word", "x"}, {"300 KB of line breaks", "a\n"}} {
					big := big
					add(fmt.Sprintf("%s: text of <%s> := %s", m.name, name, big.what), func() []byte {
						return with(i, splice(m.data, c0, c1-c0, strings.Repeat(big.unit, 600000/len(big.unit))))
					})
				}
			}
			if !selfClosing {
				add(fmt.Sprintf("%s: element <%s> nested 3000 deep in copies of itself", m.name, name), func() []byte {
					return with(i, splice(m.data, s0, e0-s0, strings.Repeat(tag, 3000)+el+strings.Repeat("</"+name+">", 3000)))
				})
			}
		}
	}
}

func TestGeneratedPackageFaults(t *testing.T) {
	docs := generatedPackages(vr.Thorough())
	if len(docs) < 5 {
		t.Fatalf("INFRA: only %d of 5 generated packages could be written", len(docs))
	}
	stride := 12
	if vr.Thorough() {
		stride = 1
	}
	n := runCatalogue(t, func(emit emitFn) {
		for _, d := range docs {
			// the unmodified package first: it must be readable at all
			d := d
			emit("file", d.ext, "unmodified ["+d.name+"]", func() []byte { return writeZip(d.ms) })
			pkgFaults(d, stride, emit)
		}
	})
	if !t.Failed() {
		vr.Exhaustive(fmt.Sprintf("XML attribute/reference/element fault catalogue over %d generated packages (every %d-th fault): %d cases", len(docs), stride, n))
	}
}
