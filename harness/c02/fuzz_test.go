package c02

// Native coverage-guided fuzz targets (thorough tier only; run by vcheck after
// the enumeration layers are clean, because the native fuzzer stops at the
// first crasher). The oracle is the Go fuzzing engine's own crash / hang
// detection; every crasher is re-judged through the isolated worker pool and
// saved as an ordinary replay file.

import (
	"os"
	"path/filepath"
	"testing"

	"github.com/tsawler/tabula"

	"verif/harness/gen/pdfw"
)

func seedAll(f *testing.F, seeds ...string) {
	for _, s := range seeds {
		f.Add([]byte(s))
	}
	for _, h := range hostile {
		f.Add([]byte(h))
	}
}

func FuzzCoreParser(f *testing.F) {
	seedAll(f, "1 0 obj\n<< /Type /Catalog /Pages 2 0 R /A [1 2.5 (s) <AB> /N null true] >>\nendobj\n",
		"5 0 obj\n<< /Length 5 >>\nstream\nhello\nendstream\nendobj\n",
		"xref\n0 2\n0000000000 65535 f \n0000000009 00000 n \ntrailer\n<< /Size 2 /Root 1 0 R /Prev 0 >>\nstartxref\n0\n%%EOF\n")
	f.Fuzz(func(t *testing.T, b []byte) { coreParserEntry(b) })
}

func FuzzContentStream(f *testing.F) {
	seedAll(f, "q 1 0 0 1 10 10 cm BT /F1 12 Tf 72 700 Td (Hello) Tj [(a) -120 (b)] TJ T* (x) ' 1 2 (y) \" ET Q /Fm1 Do",
		"0 0 m 10 10 l S 0 0 10 10 re f /GS1 gs << /A 1 >> BDC EMC BI /W 1 /H 1 ID x EI")
	f.Fuzz(func(t *testing.T, b []byte) { contentStreamEntry(b) })
}

func FuzzCMap(f *testing.F) {
	seedAll(f, string(pdfw.ToUnicodeCMap([]pdfw.MapEnt{{Code: 1, Text: "A"}, {Code: 2, Text: "\U0001F600"}}, 2)),
		"1 begincodespacerange\n<00> <FF>\nendcodespacerange\n2 beginbfrange\n<01> <05> <0041>\n<10> <12> [<0061> <0062> <0063>]\nendbfrange\n")
	f.Fuzz(func(t *testing.T, b []byte) { cmapEntry(b) })
}

func FuzzStreamDecode(f *testing.F) {
	seedAll(f, "<< /Filter /FlateDecode /DecodeParms << /Predictor 12 /Columns 4 >> >>\x00x\x9c\x01\x00\x00\xff\xff",
		"<< /Filter [/ASCII85Decode /ASCIIHexDecode] >>\x00<~87cURD]i,\"Ebo80~>",
		"<< /Type /ObjStm /N 2 /First 8 >>\x001 0 2 3 <<>> [ ]")
	f.Fuzz(func(t *testing.T, b []byte) { streamDecodeEntry(b) })
}

func FuzzHTMLString(f *testing.F) {
	seedAll(f, "<html><body><nav><a href=x>n</a></nav><h1>T</h1><p>a<b>b</b></p><ul><li>x<ul><li>y</li></ul></li></ul>"+
		"<table><tr><td rowspan=2 colspan=2>c</td></tr></table><pre>code</pre></body></html>")
	f.Fuzz(func(t *testing.T, b []byte) {
		if len(b) > 1<<16 {
			return
		}
		htmlStringEntry(b)
	})
}

func FuzzPDFFile(f *testing.F) {
	for _, bp := range basePDFs() {
		f.Add(bp.bytes)
	}
	f.Fuzz(func(t *testing.T, b []byte) {
		if len(b) > 1<<17 {
			return
		}
		fuzzPDF(b)
	})
}

// fuzzPDF runs the three richest operations only (the full operation list of fileEntry is too slow
// under coverage instrumentation to make progress).
func fuzzPDF(b []byte) {
	d, err := os.MkdirTemp("", "verif-c02f-")
	if err != nil {
		return
	}
	defer os.RemoveAll(d)
	p := filepath.Join(d, "in.pdf")
	if os.WriteFile(p, b, 0o644) != nil {
		return
	}
	tabula.Open(p).Text()
	tabula.Open(p).Chunks()
	tabula.Open(p).ExcludeHeadersAndFooters().ToMarkdown()
}

func init() {
	// fuzz workers share nothing; each gets its own scratch directory lazily (see fileEntry)
	_ = os.Getpid
}
